(** Layer R proofs: the REFERENCE census, part 2: the law of the acts and of the micro-ops. *)
From Coq Require Import ZArith NArith List Bool Lia.
From Stk Require Import Lib.U Gen.SrcCount Gen.SrcCore Gen.SrcLog R.Syntax R.Rt R.Shape R.Count R.Own R.Lin R.LinRef.
Import ListNotations.
Local Open Scope Z_scope.

Arguments submit : simpl never.
Arguments push_main : simpl never.
Arguments timer_add : simpl never.
Arguments emit : simpl never.
Arguments upd_actor : simpl never.
Arguments ref_clone : simpl never.
Arguments new_actor : simpl never.
Arguments log_rec : simpl never.
Arguments tok_script : simpl never.
Arguments target_ev : simpl never.
Arguments push_frame : simpl never.

Lemma cact_with_strong x a y v : rf x -> cact x a (with_strong y v) = cact x a y.
Proof. destruct x; simpl; try contradiction; reflexivity. Qed.
Lemma cact_with_state x a y st' : cact x a (with_state y st') = cact x a y.
Proof. destruct x; reflexivity. Qed.

Ltac pose_R x :=
  repeat match goal with
  | H : take ?s ?h = (?o, _) |- _ =>
      pose proof (take_H x _ _ _ _ H); pose proof (ctr_take x _ _ _ _ H); pose proof (take_actors _ _ _ _ H);
      let TL := fresh "TL" in pose proof (Own.take_lookup s h) as TL; rewrite H in TL; cbn [fst] in TL; revert H
  | H : take_caps _ _ = (_, _) |- _ => pose proof (take_caps_H x _ _ _ _ H); pose proof (ctr_take_caps x _ _ _ _ H); revert H
  | H : bind _ _ _ = (_, _) |- _ => pose proof (bind_H x _ _ _ _ _ H); pose proof (ctr_bind x _ _ _ _ _ H); revert H
  | H : bad _ _ = (_, _) |- _ => pose proof (bad_H x _ _ _ _ H); pose proof (ctr_bad x _ _ _ _ H); revert H
  | H : inst _ _ _ = (_, _) |- _ =>
      let A := fresh "IH" in let B := fresh "IK" in destruct (inst_H x _ _ _ _ _ H) as [A B]; pose proof (ctr_inst x _ _ _ _ _ H); revert H
  | H : inst_call _ _ _ = (_, _) |- _ =>
      let A := fresh "IH" in let B := fresh "IK" in destruct (inst_call_H x _ _ _ _ _ H) as [A B]; pose proof (ctr_inst_call x _ _ _ _ _ H); revert H
  | H : inst_nocaps _ _ _ = (_, _) |- _ =>
      let A := fresh "IH" in let B := fresh "IK" in let C := fresh "IC" in
      destruct (inst_nocaps_H x _ _ _ _ _ H) as (A & B & C); pose proof (ctr_inst_nocaps x _ _ _ _ _ H); revert H
  | H : lookup ?s ?h = Some ?v |- _ => pose proof (lookup_le x s h v H); revert H
  | H : handle_actor ?v = Some ?a |- _ => pose proof (handle_actor_hv x v a H); revert H
  | H : var_timer _ _ _ = Some _ |- _ =>
      let i := fresh "i" in let F := fresh "F" in let E := fresh "E" in
      destruct (var_timer_find _ _ _ _ H) as (i & F & E); cbn [ti_tid] in E; subst i;
      pose proof (htim_remove x _ _ _ F); revert H
  end; intros;
  repeat match goal with
  | H : ?o = lookup ?s ?h, H2 : lookup ?s ?h = Some _ |- _ => rewrite H2 in H; subst o
  end.

Ltac upd_R :=
  repeat match goal with
  | E : actors ?s0 = actors ?s, A : aget (actors ?s) ?a = Some ?z |- _ =>
      lazymatch goal with
      | _ : aget (actors s0) a = Some z |- _ => fail
      | _ => let A' := fresh "A" in pose proof A as A'; rewrite <- E in A'
      end
  end;
  repeat match goal with
  | A : aget (actors ?s) ?a = Some ?z |- context [H ?x (upd_actor ?s ?a ?y)] => rewrite (H_upd_some x s a y z A)
  | A : aget (actors ?s) ?a = Some ?z, H0 : context [H ?x (upd_actor ?s ?a ?y)] |- _ => rewrite (H_upd_some x s a y z A) in H0
  | A : aget (actors ?s) ?a = Some ?z |- context [ctr ?x (upd_actor ?s ?a ?y)] => rewrite (ctr_upd_some x s a y z A)
  | A : aget (actors ?s) ?a = Some ?z, H0 : context [ctr ?x (upd_actor ?s ?a ?y)] |- _ => rewrite (ctr_upd_some x s a y z A) in H0
  end.

Ltac Rrw :=
  repeat (progress (
    rewrite ?H_emit, ?H_push_main, ?H_timer_add, ?H_push_frame, ?H_ref_clone', ?H_log_rec, ?H_target_ev, ?H_tok_script,
            ?H_set_shut, ?H_set_nuid, ?H_set_tvars, ?H_set_tnext, ?H_set_logseq, ?H_set_logfilter,
            ?H_set_haslogger, ?H_set_recreate, ?H_set_now, ?H_set_start, ?H_set_alive, ?H_set_frames, ?H_set_timers,
            ?H_set_mainq, ?H_set_lazyq, ?H_set_idleq, ?H_set_env, ?H_set_tr in *;
    rewrite ?ctr_emit, ?ctr_push_main, ?ctr_timer_add, ?ctr_push_frame, ?ctr_ref_clone, ?ctr_log_rec, ?ctr_target_ev, ?ctr_tok_script,
            ?ctr_set_shut, ?ctr_set_nuid, ?ctr_set_tvars, ?ctr_set_tnext, ?ctr_set_logseq, ?ctr_set_logfilter,
            ?ctr_set_haslogger, ?ctr_set_recreate, ?ctr_set_now, ?ctr_set_start, ?ctr_set_alive, ?ctr_set_frames, ?ctr_set_timers,
            ?ctr_set_mainq, ?ctr_set_lazyq, ?ctr_set_idleq, ?ctr_set_env, ?ctr_set_tr, ?ctr_submit in *;
    rewrite ?H_submit in * by discriminate;
    upd_R));
  repeat match goal with
  | |- context [htim _ (ti_update _ _ _)] => erewrite htim_update by (first [ eassumption | reflexivity ])
  end;
  repeat match goal with H : frames ?s = _ |- context [frames ?s] => rewrite H end;
  repeat match goal with H : a_state ?y = _ |- context [hactor ?x ?y] => rewrite (hactor_unf x y _ H) end.

(* the facts about every clone delta in sight *)
Ltac dcl_R :=
  repeat match goal with
  | |- context [dcl ?x ?S ?a] =>
      let F := fresh "DF" in let d := fresh "d" in
      pose proof (dcl_facts x S a) as F; pose proof (hind_range x (HR a)); set (d := dcl x S a) in *; clearbody d
  | H0 : context [dcl ?x ?S ?a] |- _ =>
      let F := fresh "DF" in let d := fresh "d" in
      pose proof (dcl_facts x S a) as F; pose proof (hind_range x (HR a)); set (d := dcl x S a) in *; clearbody d
  end.

Ltac fin_R RF :=
  repeat (progress (
    try match goal with H : ci_kind ?c = _ |- _ => rewrite (hci_kind _ c _ H) in * end;
    cbn [hmops hmop hkind rkb hopt henv hfrs hstate hq hslab hnotopt snd fst f_loc ti_ci ci_kind ci_uid ci_caps ci_sq] in *;
    rewrite ?hmops_app, ?hmops_drops, ?hmops_slab_drops, ?hmops_runitems, ?hmops_dropitems, ?hci_unq, ?hci_setq, ?hci_as_call,
            ?henv_app, ?hq_app, ?hv_ret, ?hret_eq, ?hrk_clos, ?hrk_to, ?hrk_someto, ?hrk_slab, ?hrk_notify,
            ?hci_eq, ?hcc_eq, ?hv_own, ?hv_act, ?hv_anon, ?hv_fwd, ?hv_tok,
            ?hactor_with_strong, ?hactor_with_rc, ?hactor_with_state, ?cact_with_state in *;
    rewrite ?(hind_rf_O _ _ RF), ?(cact_with_strong _ _ _ _ RF) in *)).

Ltac law_R x RF := intros; pose_R x; Rrw; dcl_R; Rrw; fin_R RF.

Lemma hind01 x y : hind x y = 0 \/ hind x y = 1.
Proof. unfold hind. destruct (hres_eqb x y); auto. Qed.

Lemma cfw_hind x f o : cfw x f o = hind x (HF f) * frc o.
Proof. destruct x as [b|b|g]; unfold cfw, hind; cbn [hres_eqb]; try lia. destruct (N.eqb g f); lia. Qed.

Lemma ctr_HF_some x s f o : aget (fwds s) f = Some o -> hind x (HF f) = 1 -> ctr x s = frc o.
Proof.
  intros E I1. destruct x as [b|b|g]; unfold hind in I1; cbn [hres_eqb] in I1; try discriminate.
  destruct (N.eqb g f) eqn:Q; [|discriminate]. apply N.eqb_eq in Q. subst g. unfold ctr. rewrite E. reflexivity.
Qed.
Lemma ctr_HF_none x s f : aget (fwds s) f = None -> hind x (HF f) = 1 -> ctr x s = 0.
Proof.
  intros E I1. destruct x as [b|b|g]; unfold hind in I1; cbn [hres_eqb] in I1; try discriminate.
  destruct (N.eqb g f) eqn:Q; [|discriminate]. apply N.eqb_eq in Q. subst g. unfold ctr. rewrite E. reflexivity.
Qed.

(* the Fwd object of a live handle has a positive count *)
Lemma fwd_live s f h : PJ (fun _ => 0) s -> lookup s h = Some (HFwd f) -> forall rc k tg, aget (fwds s) f = Some (FwdObj rc k tg) -> 1 <= rc <= MX.
Proof.
  intros P L rc k tg E. destruct (P (HF f) I) as [R0 J0]. pose proof (lookup_le (HF f) s h _ L) as LE. rewrite hv_fwd, hind_refl in LE.
  assert (C : ctr (HF f) s = rc) by (unfold ctr; rewrite E; reflexivity). rewrite C in *. unfold MX in *. lia.
Qed.

Lemma hfw_le x s f o : aget (fwds s) f = Some o -> hfw x o <= hst x s.
Proof.
  intros E. pose proof (hfwds_aget_le x _ _ _ E). unfold hst. pose proof (hq_nn x (mainq s)). pose proof (hq_nn x (lazyq s)).
  pose proof (hq_nn x (idleq s)). pose proof (htim_nn x (timers s)). pose proof (hacts_nn x (actors s)). pose proof (henv_nn x (env s)).
  pose proof (hfrs_nn x (frames s)). lia.
Qed.

Lemma clone_R h h2 s pre s' x : rf x -> PJ (fun _ => 0) s -> do_act (AClone h h2) s = (pre, s') -> LW x 0 s pre s'.
Proof.
  intros RF P. destruct (P x RF) as [R0 J0]. pose proof (hst_H x s) as HS.
  unfold LW, do_act. destruct (lookup s h) as [[a|a|a|r|f|t sc]|] eqn:L; try (intros Q; law_R x RF; lia).
  destruct (aget (fwds s) f) as [[rc k tg]|] eqn:F; [|intros Q; law_R x RF; lia].
  destruct (fwd_live s f h P L _ _ _ F) as [RC1 RC2].
  intros Q. pose proof (bind_H x _ _ _ _ _ Q) as BH. pose proof (ctr_bind x _ _ _ _ _ Q) as BC.
  rewrite (H_fwd_some x s f _ _ F) in BH. rewrite (ctr_fwd_some x s f _ _ F) in BC. rewrite !cfw_hind in *. cbn [frc] in *.
  rewrite hv_fwd in BH. pose proof (lookup_le x s h _ L) as LE. rewrite hv_fwd in LE.
  assert (HFW : hfw x (FwdObj (oz (minrc_clone rc)) k tg) = hfw x (FwdObj rc k tg)).
  { unfold hfw. destruct k; [reflexivity|]. destruct tg; [|reflexivity]. unfold minrc_clone. cbn [oz].
    destruct (0 <? rc) eqn:A; destruct (0 <? Z.min (rc + 1) 18446744073709551615) eqn:B; try reflexivity;
      apply Z.ltb_lt in A || apply Z.ltb_ge in A; apply Z.ltb_lt in B || apply Z.ltb_ge in B; unfold MX in *; lia. }
  rewrite HFW in BH. unfold minrc_clone in *. cbn [oz] in *.
  destruct (hind01 x (HF f)) as [E|E]; rewrite E in *.
  - lia.
  - pose proof (ctr_HF_some x s f _ F E) as C. cbn [frc] in C. unfold MX in *. lia.
Qed.

Lemma fwds_ref_clone s a : fwds (ref_clone s a) = fwds s.
Proof. unfold ref_clone. destruct (aget (actors s) a) as [y|]; [destruct (a_freed y)|]; reflexivity. Qed.

Lemma newfwd_R h f k s pre s' x : rf x -> PJ (fun _ => 0) s -> do_act (ANewFwd h f k) s = (pre, s') -> LW x 0 s pre s'.
Proof.
  intros RF P. destruct (P x RF) as [R0 J0]. pose proof (hst_H x s) as HS.
  unfold LW, do_act. destruct (aget (fwds s) f) as [o|] eqn:F; [intros Q; law_R x RF; lia|].
  destruct k as [body|ht c].
  - intros Q. pose proof (bind_H x _ _ _ _ _ Q) as BH. pose proof (ctr_bind x _ _ _ _ _ Q) as BC.
    rewrite H_emit, (H_fwd_none x s f _ F) in BH. rewrite ctr_emit, (ctr_fwd_none x s f _ F) in BC. rewrite !cfw_hind in *. cbn [frc hfw] in *.
    rewrite hv_fwd in BH. unfold MINRC_INIT in *.
    destruct (hind01 x (HF f)) as [E|E]; rewrite E in *; [lia|]. pose proof (ctr_HF_none x s f F E) as C. unfold MX in *. lia.
  - destruct (lookup s ht) as [v|] eqn:L; [|intros Q; law_R x RF; lia].
    destruct (handle_actor v) as [a|] eqn:HA; [|intros Q; law_R x RF; lia].
    intros Q. pose proof (bind_H x _ _ _ _ _ Q) as BH. pose proof (ctr_bind x _ _ _ _ _ Q) as BC.
    assert (F1 : aget (fwds (ref_clone s a)) f = None) by (rewrite fwds_ref_clone; exact F).
    rewrite (H_fwd_none x _ f _ F1), H_ref_clone' in BH. rewrite (ctr_fwd_none x _ f _ F1), ctr_ref_clone in BC. rewrite !cfw_hind in *. cbn [frc hfw] in *.
    rewrite hv_fwd in BH. unfold MINRC_INIT in *. change (0 <? 1) with true in BH. cbv iota in BH.
    pose proof (dcl_facts x s a R0) as DF. pose proof (hind_range x (HR a)). set (d := dcl x s a) in *. clearbody d.
    pose proof (handle_actor_hv x v a HA). pose proof (lookup_le x s ht v L).
    destruct (hind01 x (HF f)) as [E|E]; rewrite E in *.
    + lia.
    + pose proof (ctr_HF_none x s f F E) as C.
      assert (I0 : hind x (HR a) = 0) by (destruct x; unfold hind in *; cbn [hres_eqb] in *; try discriminate; reflexivity).
      unfold MX in *. lia.
Qed.

Lemma fwdsend_R h v s pre s' x : rf x -> PJ (fun _ => 0) s -> do_act (AFwdSend h v) s = (pre, s') -> LW x 0 s pre s'.
Proof.
  intros RF P. destruct (P x RF) as [R0 J0]. pose proof (hst_H x s) as HS.
  unfold LW, do_act. destruct (lookup s h) as [[a|a|a|r|f|t sc]|] eqn:L; try (intros Q; law_R x RF; lia).
  destruct (aget (fwds s) f) as [[rc k tg]|] eqn:F; [|intros Q; law_R x RF; lia].
  destruct (fwd_live s f h P L _ _ _ F) as [RC1 RC2].
  pose proof (lookup_le x s h _ L) as LE. rewrite hv_fwd in LE.
  destruct k as [body|ht c].
  - intros Q; inversion Q; subst pre s'; clear Q.
    rewrite H_push_frame, H_emit, (H_fwd_some x s f _ _ F), ctr_push_frame, ctr_emit, (ctr_fwd_some x s f _ _ F), !cfw_hind.
    cbn [frc hfw hmops hmop henv]. rewrite hv_fwd. unfold minrc_clone. cbn [oz].
    destruct (hind01 x (HF f)) as [E|E]; rewrite E in *.
    + lia.
    + pose proof (ctr_HF_some x s f _ F E) as C. cbn [frc] in C. unfold MX in *. lia.
  - destruct tg as [a|]; [|intros Q; law_R x RF; lia].
    destruct (inst_nocaps c (fun b => KMeth a b (Some v)) (ref_clone s a)) as [ci s2] eqn:I.
    intros Q; inversion Q; subst pre s'; clear Q.
    destruct (inst_nocaps_H x _ _ _ _ _ I) as (IC & IH & IK). pose proof (ctr_inst_nocaps x _ _ _ _ _ I) as CI.
    rewrite H_submit by discriminate. rewrite H_target_ev, ctr_submit, ctr_target_ev, IH, CI, H_ref_clone', ctr_ref_clone.
    rewrite (hci_kind x ci _ IK), IC. cbn [hkind rkb hmops].
    pose proof (dcl_facts x s a R0) as DF. pose proof (hind_range x (HR a)). set (d := dcl x s a) in *. clearbody d.
    pose proof (hfw_le x s f _ F) as FL. cbn [hfw] in FL. assert (T : (0 <? rc) = true) by (apply Z.ltb_lt; lia). rewrite T in FL.
    unfold MX in *. lia.
Qed.

Lemma ctr_HR_none x s a : aget (actors s) a = None -> hind x (HR a) = 1 -> ctr x s = 0.
Proof.
  intros E I1. destruct x as [b|b|g]; unfold hind in I1; cbn [hres_eqb] in I1; try discriminate.
  destruct (N.eqb b a) eqn:Q; [|discriminate]. apply N.eqb_eq in Q. subst b. unfold ctr. rewrite E. reflexivity.
Qed.

Lemma hind_disj x a b : a <> b -> hind x (HR a) + hind x (HR b) <= 1.
Proof.
  intros NE. destruct x as [c|c|g]; unfold hind; cbn [hres_eqb]; try lia.
  destruct (N.eqb c a) eqn:A; destruct (N.eqb c b) eqn:B; try lia.
  apply N.eqb_eq in A, B. congruence.
Qed.

(* a present cell: the clone is exact up to saturation *)
Lemma dcl_pres x s a y : aget (actors s) a = Some y -> hind x (HR a) = 1 -> 0 <= ctr x s <= MX ->
  ctr x s + dcl x s a = Z.min (ctr x s + 1) MX.
Proof.
  intros E I1 R. unfold dcl.
  assert (C : ctr x (ref_clone s a) = ctr x s - cact x a y + cact x a (with_rc y (oz (minrc_clone (a_rc y))))).
  { unfold ref_clone. rewrite E. destruct (a_freed y).
    - rewrite (ctr_upd_some x _ a _ y) by (stsimp; exact E). rewrite ctr_emit. reflexivity.
    - rewrite (ctr_upd_some x _ a _ y) by exact E. reflexivity. }
  rewrite C. destruct x as [b|b|g]; unfold hind in I1; cbn [hres_eqb] in I1; try discriminate.
  destruct (N.eqb b a) eqn:Q; [|discriminate]. apply N.eqb_eq in Q. subst b. cbn [cact a_rc with_rc]. rewrite N.eqb_refl.
  unfold ctr in *. rewrite E in *. unfold minrc_clone. cbn [oz]. unfold MX in *. lia.
Qed.

Lemma newactor_R h a n s pre s' x : rf x -> PJ (fun _ => 0) s -> do_act (ANewActor h a n) s = (pre, s') -> LW x 0 s pre s'.
Proof.
  intros RF P. destruct (P x RF) as [R0 J0]. pose proof (hst_H x s) as HS.
  unfold LW, do_act. destruct (has_core s); [|intros Q; law_R x RF; lia].
  destruct (aget (actors s) a) as [y|] eqn:A; [intros Q; law_R x RF; lia|].
  destruct (mk_notifier s a n) as [nt s1] eqn:MK. destruct (mk_notifier_R x _ _ _ _ _ MK) as (d & i & MH & MC & I01 & IL & MF).
  assert (N1 : aget (actors s1) a = None) by (eapply mk_notifier_none; eauto).
  intros Q. pose proof (bind_H x _ _ _ _ _ Q) as BH. pose proof (ctr_bind x _ _ _ _ _ Q) as BC.
  rewrite (H_new_actor x s1 a nt _ _ N1 RF) in BH. rewrite (ctr_new_actor x s1 a nt _ _ N1 RF) in BC.
  rewrite hv_own, (hind_rf_O _ _ RF) in BH. specialize (MF R0). pose proof (hind_range x (HR a)) as HR_.
  destruct (hind01 x (HR a)) as [E|E]; rewrite E in *.
  - lia.
  - pose proof (ctr_HR_none x s a A E) as C0. unfold MX in *. lia.
Qed.

Lemma slabadd_R h a n s pre s' x : rf x -> PJ (fun _ => 0) s -> do_act (ASlabAdd h a n) s = (pre, s') -> LW x 0 s pre s'.
Proof.
  intros RF P. destruct (P x RF) as [R0 J0]. pose proof (hst_H x s) as HS.
  assert (BAD : forall c, bad s c = (pre, s') -> LW x 0 s pre s') by (intros c Q; unfold LW; law_R x RF; lia).
  unfold do_act. destruct (cur_ctx s) as [|p prep|] eqn:CX; try (apply (BAD 22%N); fail).
  destruct prep; [apply (BAD 22%N)|]. destruct (alive s); [|apply (BAD 22%N)].
  destruct (aget (actors s) p) as [px|] eqn:AP; [|apply (BAD 22%N)].
  destruct (aget (actors s) a) as [y|] eqn:A; [apply (BAD 22%N)|].
  destruct (a_state px) as [|sh slab nx|] eqn:SP; try (apply (BAD 22%N); fail).
  destruct (mk_notifier s a n) as [inner s1] eqn:MK. destruct (mk_notifier_R x _ _ _ _ _ MK) as (d & i & MH & MC & I01 & IL & MF).
  destruct (slab_insert slab nx a) as [[slab' nx'] key] eqn:SI. cbv zeta.
  assert (NE : a <> p) by (intros ->; congruence).
  assert (N1 : aget (actors s1) a = None) by (eapply mk_notifier_none; eauto).
  assert (N2 : aget (actors (ref_clone s1 p)) a = None) by (apply ref_clone_none; exact N1).
  destruct (mk_notifier_some _ _ _ _ _ _ _ MK AP) as (y1 & G1 & S1 & T1 & _).
  destruct (ref_clone_some _ p _ _ G1) as (y2 & G2 & S2 & T2 & _).
  set (s3 := new_actor (ref_clone s1 p) a (Ret a (RKSlab p key inner)) (a_logid px) false) in *.
  assert (G3 : aget (actors s3) p = Some y2) by (unfold s3; rewrite new_actor_other by exact NE; exact G2).
  destruct (ref_clone_some _ a _ _ G3) as (y4 & G4 & S4 & T4 & _).
  rewrite G4. intros Q. unfold LW. pose proof (bind_H x _ _ _ _ _ Q) as BH. pose proof (ctr_bind x _ _ _ _ _ Q) as BC.
  rewrite H_emit, (H_upd_some x _ p _ _ G4), H_ref_clone' in BH. rewrite ctr_emit, (ctr_upd_some x _ p _ _ G4), ctr_ref_clone in BC.
  unfold s3 in BH, BC at 1 2. rewrite (H_new_actor x _ a _ _ _ N2 RF), H_ref_clone' in BH.
  rewrite (ctr_new_actor x _ a _ _ _ N2 RF), ctr_ref_clone in BC. fold s3 in BH, BC.
  rewrite hactor_with_state, cact_with_state in *. assert (SA4 : a_state y4 = SReady sh slab nx) by congruence.
  rewrite (hactor_unf x y4 _ SA4) in BH. cbn [hstate] in BH. rewrite (hslab_insert x _ _ _ _ _ _ SI), (hind_rf_O _ _ RF) in BH.
  rewrite hv_act, hret_eq, hrk_slab in BH.
  destruct (new_actor_get (ref_clone s1 p) a (Ret a (RKSlab p key inner)) (a_logid px) false) as (y3 & G3a & _). fold s3 in G3a.
  specialize (MF R0).
  pose proof (hind_range x (HR a)) as RA. pose proof (hind_range x (HR p)) as RP. pose proof (hind_disj x a p NE) as DJ.
  assert (R1 : 0 <= ctr x s1 <= MX) by lia.
  pose proof (dcl_facts x s1 p R1) as D2.
  assert (D2p : hind x (HR p) = 1 -> ctr x s1 + dcl x s1 p = Z.min (ctr x s1 + 1) MX) by (intros E; eapply dcl_pres; eauto).
  assert (C3 : ctr x s3 = ctr x s1 + dcl x s1 p + hind x (HR a)).
  { unfold s3. rewrite (ctr_new_actor x _ a _ _ _ N2 RF), ctr_ref_clone. reflexivity. }
  set (d2 := dcl x s1 p) in *. clearbody d2.
  assert (A0 : hind x (HR a) = 1 -> ctr x s = 0) by (intros E; eapply ctr_HR_none; eauto).
  assert (R3 : 0 <= ctr x s3 <= MX) by (unfold MX in *; lia).
  pose proof (dcl_facts x s3 a R3) as D4.
  assert (D4p : hind x (HR a) = 1 -> ctr x s3 + dcl x s3 a = Z.min (ctr x s3 + 1) MX) by (intros E; eapply dcl_pres; eauto).
  set (d4 := dcl x s3 a) in *. clearbody d4. rewrite C3 in *.
  destruct (hind01 x (HR a)) as [EA|EA]; destruct (hind01 x (HR p)) as [EP|EP]; rewrite ?EA, ?EP in *; unfold MX in *; try lia.
Qed.

Definition specialR_act (a : act) : bool :=
  match a with ANewActor _ _ _ | ASlabAdd _ _ _ | AClone _ _ | ANewFwd _ _ _ | AFwdSend _ _ => true | _ => false end.

Lemma do_act_R a s pre s' x : rf x -> PJ (fun _ => 0) s -> do_act a s = (pre, s') -> LW x 0 s pre s'.
Proof.
  intros RF P. destruct (specialR_act a) eqn:SP.
  - destruct a; try discriminate SP.
    + eapply newactor_R; eauto.
    + eapply clone_R; eauto.
    + eapply slabadd_R; eauto.
    + eapply newfwd_R; eauto.
    + eapply fwdsend_R; eauto.
  - destruct (P x RF) as [R0 J0]. pose proof (hst_H x s) as HS.
    unfold LW, do_act. destruct a; try discriminate SP; clear SP; repeat dest_match; intros Q;
      (match type of Q with (_, _) = (_, _) => injection Q as Q1 Q2; subst pre s' | _ => idtac end); law_R x RF; lia.
Qed.
