(** Layer R proofs: the TOKEN census, part 2: no micro-op creates a token value except [ANewTok]; tokens are never
    duplicated:  hmops (HT t) pre + hst (HT t) s' <= hmop (HT t) m + hst (HT t) s (+1 at ANewTok t). *)
From Coq Require Import ZArith NArith List Bool Lia.
From Stk Require Import Lib.U Gen.SrcCount Gen.SrcCore Gen.SrcLog R.Syntax R.Rt R.Shape R.Count R.Lin R.LinTok.
Import ListNotations.
Local Open Scope Z_scope.

Arguments submit : simpl never.
Arguments push_main : simpl never.
Arguments timer_add : simpl never.
Arguments emit : simpl never.
Arguments upd_actor : simpl never.
Arguments ref_clone : simpl never.
Arguments new_actor : simpl never.
Arguments log_rec : simpl never.
Arguments tok_script : simpl never.
Arguments target_ev : simpl never.
Arguments push_frame : simpl never.

Lemma hindT_O t a : hind (HT t) (HO a) = 0. Proof. reflexivity. Qed.
Lemma hindT_R t a : hind (HT t) (HR a) = 0. Proof. reflexivity. Qed.
Lemma hindT_F t f : hind (HT t) (HF f) = 0. Proof. reflexivity. Qed.
Lemma cactT t a y : cact (HT t) a y = 0. Proof. reflexivity. Qed.
Lemma cfwT t f o : cfw (HT t) f o = 0. Proof. reflexivity. Qed.
Lemma hfwT t o : hfw (HT t) o = 0.
Proof. destruct o as [rc [b|h c] [a|]]; simpl; try reflexivity. destruct (0 <? rc); reflexivity. Qed.
Lemma ctrT t s : ctr (HT t) s = 0. Proof. reflexivity. Qed.
Lemma H_T t s : H (HT t) s = hst (HT t) s. Proof. unfold H. rewrite ctrT. lia. Qed.

Lemma H_ref_clone_T t s a : H (HT t) (ref_clone s a) = H (HT t) s.
Proof.
  destruct (aget (actors s) a) as [y|] eqn:E.
  - rewrite (H_ref_clone _ _ _ _ E), !cactT. lia.
  - apply H_ref_clone_none. exact E.
Qed.

Lemma new_actor_H_T t s a nt parent vis : aget (actors s) a = None -> H (HT t) (new_actor s a nt parent vis) = H (HT t) s + hret (HT t) nt.
Proof.
  intros E. unfold new_actor.
  set (y := mkActor (SPrep []) (oz (count_inc (oz count_new))) MINRC_INIT (Some nt) (oz (log_id_next (logseq s))) false).
  assert (G : forall s0, actors s0 = actors s -> H (HT t) (upd_actor s0 a y) = H (HT t) s0 + hret (HT t) nt).
  { intros s0 A0. rewrite (H_upd_none (HT t) s0 a y) by (rewrite A0; exact E). rewrite cactT. unfold hactor, y. cbn [a_state a_notify hstate hq hnotopt]. lia. }
  destruct vis; rewrite ?H_emit, G by (rewrite ?log_rec_actors; reflexivity); rewrite H_log_rec; reflexivity.
Qed.

Lemma H_set_fwds_T t s v : H (HT t) (set_fwds s v) = H (HT t) s.
Proof.
  rewrite !H_T. unfold hst. cbn [mainq lazyq idleq timers actors env frames fwds set_fwds].
  assert (Z0 : forall l, hfwds (HT t) l = 0) by (induction l as [|p l IH]; simpl; [reflexivity | rewrite hfwT, IH; reflexivity]).
  rewrite !Z0. reflexivity.
Qed.

Lemma mk_notifier_T t s a n nt s1 : mk_notifier s a n = (nt, s1) -> H (HT t) s1 + hret (HT t) nt = H (HT t) s.
Proof.
  unfold mk_notifier. destruct n as [[hp c]|].
  - destruct (lookup s hp) as [v|]; [destruct (handle_actor v) as [p|]|].
    + destruct (inst_call c (fun b => KMeth p b None) (ref_clone s p)) as [ci s2] eqn:I. intros Q; inversion Q; subst nt s1.
      destruct (inst_call_H (HT t) _ _ _ _ _ I) as [IH _]. rewrite H_ref_clone_T in IH. rewrite hret_eq, hrk_notify, hindT_R. lia.
    + intros Q; inversion Q; subst. rewrite hret_eq, hrk_notify, H_emit. lia.
    + intros Q; inversion Q; subst. rewrite hret_eq, hrk_notify, H_emit. lia.
  - intros Q; inversion Q; subst. rewrite hret_eq, hrk_notify. lia.
Qed.

Lemma hci_kind x ci k : ci_kind ci = k -> hci x ci = hkind x k + (if rkb k then hcc x ci else 0).
Proof. intros <-. reflexivity. Qed.

Ltac inj_T Q := match type of Q with (_, _) = (_, _) => injection Q as ? ?; subst | _ => idtac end.

Ltac pose_T x :=
  repeat match goal with
  | H : take ?s ?h = (?o, _) |- _ =>
      pose proof (take_H x _ _ _ _ H); pose proof (take_same _ _ _ _ H);
      let TL := fresh "TL" in pose proof (take_lookup s h) as TL; rewrite H in TL; cbn [fst] in TL; revert H
  | H : take_caps _ _ = (_, _) |- _ => pose proof (take_caps_H x _ _ _ _ H); revert H
  | H : bind _ _ _ = (_, _) |- _ => pose proof (bind_H x _ _ _ _ _ H); revert H
  | H : bad _ _ = (_, _) |- _ => pose proof (bad_H x _ _ _ _ H); revert H
  | H : inst _ _ _ = (_, _) |- _ =>
      let A := fresh "IH" in let B := fresh "IK" in destruct (inst_H x _ _ _ _ _ H) as [A B]; revert H
  | H : inst_call _ _ _ = (_, _) |- _ =>
      let A := fresh "IH" in let B := fresh "IK" in destruct (inst_call_H x _ _ _ _ _ H) as [A B]; revert H
  | H : inst_nocaps _ _ _ = (_, _) |- _ =>
      let A := fresh "IH" in let B := fresh "IK" in let C := fresh "IC" in
      destruct (inst_nocaps_H x _ _ _ _ _ H) as (A & B & C); revert H
  | H : mk_notifier _ _ _ = (_, _) |- _ =>
      match x with HT ?t => pose proof (mk_notifier_T t _ _ _ _ _ H) end; revert H
  | H : var_timer _ _ _ = Some _ |- _ =>
      let i := fresh "i" in let F := fresh "F" in let E := fresh "E" in
      destruct (var_timer_find _ _ _ _ H) as (i & F & E); cbn [ti_tid] in E; subst i;
      pose proof (htim_remove x _ _ _ F); revert H
  end; intros;
  repeat match goal with
  | H : ?o = lookup ?s ?h, H2 : lookup ?s ?h = Some _ |- _ => rewrite H2 in H; subst o
  end.

Ltac upd_T :=
  repeat match goal with
  | E : actors ?s0 = actors ?s /\ _, A : aget (actors ?s) ?a = Some ?z |- _ =>
      lazymatch goal with
      | _ : aget (actors s0) a = Some z |- _ => fail
      | _ => let A' := fresh "A" in pose proof A as A'; rewrite <- (proj1 E) in A'
      end
  end;
  repeat match goal with
  | A : aget (actors ?s) ?a = Some ?z |- context [H ?x (upd_actor ?s ?a ?y)] => rewrite (H_upd_some x s a y z A)
  | A : aget (actors ?s) ?a = Some ?z, H0 : context [H ?x (upd_actor ?s ?a ?y)] |- _ => rewrite (H_upd_some x s a y z A) in H0
  end.

Ltac Trw :=
  repeat (progress (
    rewrite ?H_emit, ?H_push_main, ?H_timer_add, ?H_push_frame, ?H_ref_clone_T, ?H_log_rec, ?H_target_ev, ?H_tok_script,
            ?H_set_shut, ?H_set_nuid, ?H_set_tvars, ?H_set_tnext, ?H_set_logseq, ?H_set_logfilter,
            ?H_set_haslogger, ?H_set_recreate, ?H_set_now, ?H_set_start, ?H_set_alive, ?H_set_frames, ?H_set_timers,
            ?H_set_mainq, ?H_set_lazyq, ?H_set_idleq, ?H_set_env, ?H_set_fwds_T in *;
    rewrite ?H_submit in * by discriminate;
    upd_T));
  repeat match goal with
  | |- context [htim _ (ti_update _ _ _)] => erewrite htim_update by (first [ eassumption | reflexivity ])
  end;
  repeat match goal with H : frames ?s = _ |- context [frames ?s] => rewrite H end;
  repeat match goal with H : a_state ?y = _ |- context [hactor ?x ?y] => rewrite (hactor_unf x y _ H) end.

Ltac fin_T :=
  repeat (progress (
    try match goal with H : ci_kind ?c = _ |- _ => rewrite (hci_kind _ c _ H) in * end;
    cbn [hmops hmop hkind rkb hopt henv hfrs hstate hq hslab hnotopt snd fst f_loc ti_ci ci_kind ci_uid ci_caps ci_sq] in *;
    rewrite ?hmops_app, ?hmops_drops, ?hmops_slab_drops, ?hmops_runitems, ?hmops_dropitems, ?hci_unq, ?hci_setq, ?hci_as_call,
            ?henv_app, ?hq_app, ?hv_ret, ?hret_eq, ?hrk_clos, ?hrk_to, ?hrk_someto, ?hrk_slab, ?hrk_notify,
            ?hci_eq, ?hcc_eq, ?hv_own, ?hv_act, ?hv_anon, ?hv_fwd, ?hv_tok,
            ?hactor_with_strong, ?hactor_with_rc, ?hactor_with_state in *;
    rewrite ?hindT_O, ?hindT_R, ?hindT_F, ?cactT, ?cfwT in *)).

Ltac nn_T :=
  repeat match goal with
  | |- context [hind ?x ?y] => lazymatch goal with _ : 0 <= hind x y <= 1 |- _ => fail | _ => pose proof (hind_range x y) end
  | |- context [henv ?x ?l] => lazymatch goal with _ : 0 <= henv x l |- _ => fail | _ => pose proof (henv_nn x l) end
  | |- context [hq ?x ?l] => lazymatch goal with _ : 0 <= hq x l |- _ => fail | _ => pose proof (hq_nn x l) end
  | |- context [hcc ?x ?l] => lazymatch goal with _ : 0 <= hcc x l |- _ => fail | _ => pose proof (hcc_nn x l) end
  | |- context [hret ?x ?l] => lazymatch goal with _ : 0 <= hret x l |- _ => fail | _ => pose proof (hret_nn x l) end
  | |- context [hv ?x ?l] => lazymatch goal with _ : 0 <= hv x l |- _ => fail | _ => pose proof (hv_nn x l) end
  | |- context [hci ?x ?l] => lazymatch goal with _ : 0 <= hci x l |- _ => fail | _ => pose proof (hci_nn x l) end
  | |- context [htim ?x ?l] => lazymatch goal with _ : 0 <= htim x l |- _ => fail | _ => pose proof (htim_nn x l) end
  | |- context [hslab ?x ?l] => lazymatch goal with _ : 0 <= hslab x l |- _ => fail | _ => pose proof (hslab_nn x l) end
  end.

Ltac qrwT :=
  repeat match goal with
  | H : mainq ?s = _ |- context [mainq ?s] => rewrite H
  | H : lazyq ?s = _ |- context [lazyq ?s] => rewrite H
  | H : idleq ?s = _ |- context [idleq ?s] => rewrite H
  end; cbn [hq].

Ltac law_T x := intros; pose_T x; Trw; fin_T; qrwT; nn_T.

(* the token census grows only by the new token of ANewTok *)
Definition newtok (t : N) (a : act) : Z := match a with ANewTok _ t' _ => hind (HT t) (HT t') | _ => 0 end.

Lemma mk_notifier_noneT s a n nt s' b : mk_notifier s a n = (nt, s') -> aget (actors s) b = None -> aget (actors s') b = None.
Proof.
  unfold mk_notifier. destruct n as [[hp c]|].
  - destruct (lookup s hp) as [v|]; [destruct (handle_actor v) as [p|]|].
    + destruct (inst_call c (fun b => KMeth p b None) (ref_clone s p)) as [ci s2] eqn:I. intros Q; inversion Q; subst.
      destruct (inst_call_same _ _ _ _ _ I) as [A _]. rewrite A. intros E. unfold ref_clone.
      destruct (aget (actors s) p) as [y|] eqn:P; [|exact E]. assert (NE : p <> b) by (intros ->; congruence).
      destruct (a_freed y); unfold upd_actor; cbn [actors set_actors emit]; rewrite aget_aset_neq; auto.
    + intros Q; inversion Q; subst. auto.
    + intros Q; inversion Q; subst. auto.
  - intros Q; inversion Q; subst. auto.
Qed.

Lemma newactor_T h a n s pre s' t : do_act (ANewActor h a n) s = (pre, s') -> hmops (HT t) pre + H (HT t) s' <= H (HT t) s.
Proof.
  unfold do_act. destruct (has_core s); [|intros Q; law_T (HT t); lia].
  destruct (aget (actors s) a) as [y|] eqn:A; [intros Q; law_T (HT t); lia|].
  destruct (mk_notifier s a n) as [nt s1] eqn:MK. pose proof (mk_notifier_T t _ _ _ _ _ MK) as MH.
  assert (N1 : aget (actors s1) a = None) by (eapply mk_notifier_noneT; eauto).
  intros Q. pose proof (bind_H (HT t) _ _ _ _ _ Q) as BH. rewrite (new_actor_H_T t s1 a nt _ _ N1), hv_own, hindT_O, hindT_R in BH. lia.
Qed.

Lemma ref_clone_noneT s p a : aget (actors s) a = None -> aget (actors (ref_clone s p)) a = None.
Proof.
  intros E. unfold ref_clone. destruct (aget (actors s) p) as [y|] eqn:P; [|exact E]. assert (NE : p <> a) by (intros ->; congruence).
  destruct (a_freed y); unfold upd_actor; cbn [actors set_actors emit]; rewrite aget_aset_neq; auto.
Qed.

Lemma slabadd_T h a n s pre s' t : do_act (ASlabAdd h a n) s = (pre, s') -> hmops (HT t) pre + H (HT t) s' <= H (HT t) s.
Proof.
  unfold do_act.
  assert (BAD : forall c, bad s c = (pre, s') -> hmops (HT t) pre + H (HT t) s' <= H (HT t) s) by (intros c Q; law_T (HT t); lia).
  destruct (cur_ctx s) as [|p prep|] eqn:CX; try (apply (BAD 22%N); fail).
  destruct prep; [apply (BAD 22%N)|]. destruct (alive s); [|apply (BAD 22%N)].
  destruct (aget (actors s) p) as [px|] eqn:AP; [|apply (BAD 22%N)].
  destruct (aget (actors s) a) as [y|] eqn:A; [apply (BAD 22%N)|].
  destruct (a_state px) as [|sh slab nx|] eqn:SP; try (apply (BAD 22%N); fail).
  destruct (mk_notifier s a n) as [inner s1] eqn:MK. pose proof (mk_notifier_T t _ _ _ _ _ MK) as MH.
  destruct (slab_insert slab nx a) as [[slab' nx'] key] eqn:SI. cbv zeta.
  assert (NE : a <> p) by (intros ->; congruence).
  assert (N1 : aget (actors s1) a = None) by (eapply mk_notifier_noneT; eauto).
  assert (N2 : aget (actors (ref_clone s1 p)) a = None) by (apply ref_clone_noneT; exact N1).
  destruct (Lin.mk_notifier_some _ _ _ _ _ _ _ MK AP) as (y1 & G1 & S1 & T1 & _).
  destruct (Lin.ref_clone_some _ p _ _ G1) as (y2 & G2 & S2 & T2 & _).
  set (s3 := new_actor (ref_clone s1 p) a (Ret a (RKSlab p key inner)) (a_logid px) false).
  assert (G3 : aget (actors s3) p = Some y2) by (unfold s3; rewrite Lin.new_actor_other by exact NE; exact G2).
  destruct (Lin.ref_clone_some _ a _ _ G3) as (y4 & G4 & S4 & T4 & _).
  assert (H3 : H (HT t) (ref_clone s3 a) = H (HT t) s1 + hret (HT t) inner).
  { rewrite H_ref_clone_T. unfold s3. rewrite (new_actor_H_T t _ a _ _ _ N2), H_ref_clone_T, hret_eq, hrk_slab, hindT_R. lia. }
  rewrite G4. intros Q. pose proof (bind_H (HT t) _ _ _ _ _ Q) as BH.
  rewrite H_emit, (H_upd_some (HT t) _ p _ _ G4), H3, !cactT, hactor_with_state, hv_act, hindT_R in BH.
  assert (SA4 : a_state y4 = SReady sh slab nx) by congruence.
  rewrite (hactor_unf (HT t) y4 _ SA4) in BH. cbn [hstate] in BH. rewrite (hslab_insert (HT t) _ _ _ _ _ _ SI), hindT_O, hindT_R in BH. lia.
Qed.

Lemma do_act_T a s pre s' t : do_act a s = (pre, s') -> hmops (HT t) pre + H (HT t) s' <= H (HT t) s + newtok t a.
Proof.
  intros HD.
  assert (SPEC : match a with ANewActor _ _ _ | ASlabAdd _ _ _ => True | _ => False end \/
                 match a with ANewActor _ _ _ | ASlabAdd _ _ _ => False | _ => True end) by (destruct a; auto).
  destruct SPEC as [SP|SP].
  - destruct a; try contradiction; cbn [newtok]; [pose proof (newactor_T _ _ _ _ _ _ t HD) | pose proof (slabadd_T _ _ _ _ _ _ t HD)]; lia.
  - revert HD. unfold do_act. destruct a; try contradiction; cbn [newtok]; repeat dest_match; intros Q; inj_T Q; law_T (HT t); lia.
Qed.
