(** Layer R proofs: the leak report of [MLeaks] against the token counts of the census.
    [liveR t] is the list of live tokens after the (newest-first) trace [t]; a resource with more creation
    than consumption events is reported ([live_lower]); for an exact count one needs that it is never consumed
    while absent ([cntp_upd]). *)
From Coq Require Import ZArith NArith List Bool Lia.
From Stk Require Import Lib.U R.Syntax R.Rt R.Lin.
Import ListNotations.
Local Open Scope Z_scope.

Definition upd_live (e : ev) (l : list (N * N)) : list (N * N) :=
  let l1 := match created e with Some p => l ++ [p] | None => l end in
  match consumed e with Some p => remove_first p l1 | None => l1 end.

Lemma live_after_app t1 : forall t2 l, live_after (t1 ++ t2) l = live_after t2 (live_after t1 l).
Proof. induction t1 as [|e t IH]; simpl; intros; auto. Qed.

Definition liveR (t : list ev) : list (N * N) := live_after (rev t) [].

Lemma liveR_cons e t : liveR (e :: t) = upd_live e (liveR t).
Proof. unfold liveR. simpl. rewrite live_after_app. reflexivity. Qed.

Fixpoint cntp (p : N * N) (l : list (N * N)) : Z :=
  match l with [] => 0 | q :: r => (if pair_eqb p q then 1 else 0) + cntp p r end.

Lemma pair_eqb_eq x y : pair_eqb x y = true <-> x = y.
Proof.
  destruct x as [a b], y as [c d]. unfold pair_eqb. simpl. rewrite andb_true_iff, !N.eqb_eq.
  split; [intros [-> ->]; reflexivity | intros E; inversion E; auto].
Qed.

Lemma pair_eqb_refl x : pair_eqb x x = true.
Proof. apply pair_eqb_eq. reflexivity. Qed.

Lemma pair_eqb_sym x y : pair_eqb x y = pair_eqb y x.
Proof.
  destruct (pair_eqb x y) eqn:A, (pair_eqb y x) eqn:B; auto.
  - apply pair_eqb_eq in A. subst. rewrite pair_eqb_refl in B. discriminate.
  - apply pair_eqb_eq in B. subst. rewrite pair_eqb_refl in A. discriminate.
Qed.

Lemma cntp_nn p l : 0 <= cntp p l.
Proof. induction l as [|q r IH]; simpl; [lia|]. destruct (pair_eqb p q); lia. Qed.

Lemma cntp_app p a b : cntp p (a ++ b) = cntp p a + cntp p b.
Proof. induction a; simpl; lia. Qed.

Lemma cntp_in p l : 0 < cntp p l <-> In p l.
Proof.
  induction l as [|q r IH]; simpl; [split; [lia | tauto]|].
  destruct (pair_eqb p q) eqn:E.
  - apply pair_eqb_eq in E. subst. pose proof (cntp_nn q r). split; [auto | lia].
  - split.
    + intros H. right. apply IH. lia.
    + intros [H|H]; [subst; rewrite pair_eqb_refl in E; discriminate | apply IH in H; lia].
Qed.

Lemma cntp_remove p q l :
  cntp p (remove_first q l) = if pair_eqb q p then Z.max 0 (cntp p l - 1) else cntp p l.
Proof.
  induction l as [|y r IH]; simpl.
  - destruct (pair_eqb q p); reflexivity.
  - destruct (pair_eqb q y) eqn:A.
    + apply pair_eqb_eq in A. subst y. rewrite (pair_eqb_sym p q). destruct (pair_eqb q p); [pose proof (cntp_nn p r); lia | lia].
    + simpl. rewrite IH. destruct (pair_eqb q p) eqn:B.
      * apply pair_eqb_eq in B. subst p. rewrite A. pose proof (cntp_nn q r). lia.
      * lia.
Qed.

Definition crp (p : N * N) (e : ev) : Z := match created e with Some q => if pair_eqb p q then 1 else 0 | None => 0 end.
Definition cop (p : N * N) (e : ev) : Z := match consumed e with Some q => if pair_eqb p q then 1 else 0 | None => 0 end.

Lemma cntp_upd p e l : cntp p (upd_live e l) = Z.max (if 0 <? cop p e then 0 else cntp p l + crp p e) (cntp p l + crp p e - cop p e).
Proof.
  unfold upd_live, crp, cop.
  set (l1 := match created e with Some q => l ++ [q] | None => l end).
  assert (C1 : cntp p l1 = cntp p l + match created e with Some q => if pair_eqb p q then 1 else 0 | None => 0 end).
  { unfold l1. destruct (created e) as [q|]; [rewrite cntp_app; simpl; lia | lia]. }
  destruct (consumed e) as [q|].
  - rewrite cntp_remove, (pair_eqb_sym q p). destruct (pair_eqb p q); simpl; lia.
  - simpl. lia.
Qed.

Lemma crp_nn p e : 0 <= crp p e. Proof. unfold crp. destruct (created e) as [q|]; [destruct (pair_eqb p q)|]; lia. Qed.
Lemma cop_range p e : 0 <= cop p e <= 1. Proof. unfold cop. destruct (consumed e) as [q|]; [destruct (pair_eqb p q)|]; lia. Qed.

Lemma cntp_upd_ge p e l : cntp p l + crp p e - cop p e <= cntp p (upd_live e l).
Proof. rewrite cntp_upd. lia. Qed.

Lemma cntp_upd_exact p e l : (0 < cop p e -> 0 < cntp p l + crp p e) -> cntp p (upd_live e l) = cntp p l + crp p e - cop p e.
Proof. intros H. rewrite cntp_upd. pose proof (cop_range p e). destruct (0 <? cop p e) eqn:E; [apply Z.ltb_lt in E; lia | apply Z.ltb_ge in E; lia]. Qed.

(** the leak token of a resource *)
Definition tok (y : res) : option (N * N) :=
  match y with
  | RClo u => Some (LK_CLO, u)
  | RVal a => Some (LK_VAL, a)
  | RRet r => Some (LK_RET, r)
  | RNot a => Some (LK_NOTIFY, a)
  | _ => None
  end.

Lemma ind_eqb_N (f : N -> res) (inj : forall a b, f a = f b -> a = b) a b : ind (f a) (f b) = if N.eqb a b then 1 else 0.
Proof.
  destruct (N.eqb a b) eqn:E.
  - apply N.eqb_eq in E. subst. apply ind_refl.
  - apply ind_neq. intros H. apply inj in H. subst. rewrite N.eqb_refl in E. discriminate.
Qed.

Lemma tok_cre y p e : tok y = Some p -> cre1 y e = crp p e.
Proof.
  unfold crp. destruct y; simpl; try discriminate; intros Q; inversion Q; subst; clear Q;
    destruct e; simpl; try reflexivity; unfold pair_eqb; simpl;
    rewrite ?ind_neq by discriminate; try reflexivity.
  - rewrite (ind_eqb_N RClo) by (intros a b H; inversion H; auto). rewrite (ind_neq (RClo u) (RFr uid)) by discriminate. simpl. lia.
Qed.

Lemma tok_con y p e : tok y = Some p -> con1 y e = cop p e.
Proof.
  unfold cop. destruct y; simpl; try discriminate; intros Q; inversion Q; subst; clear Q;
    destruct e; simpl; try reflexivity; unfold pair_eqb; simpl;
    rewrite ?ind_neq by discriminate; try reflexivity;
    first [ apply (ind_eqb_N RClo); intros a0 b0 H; inversion H; auto
          | apply (ind_eqb_N RRet); intros a0 b0 H; inversion H; auto
          | apply (ind_eqb_N RNot); intros a0 b0 H; inversion H; auto
          | apply (ind_eqb_N RVal); intros a0 b0 H; inversion H; auto ].
Qed.

(** a resource with more creation than consumption events is in the leak report *)
Lemma live_lower y p t : tok y = Some p -> creT y t - conT y t <= cntp p (liveR t).
Proof.
  intros T. induction t as [|e t IH]; [simpl; lia|].
  rewrite liveR_cons. pose proof (cntp_upd_ge p e (liveR t)). simpl.
  rewrite (tok_cre _ _ e T), (tok_con _ _ e T). lia.
Qed.

Lemma live_reported y p t : tok y = Some p -> 0 < creT y t - conT y t -> In p (liveR t).
Proof. intros T H. apply cntp_in. pose proof (live_lower y p t T). lia. Qed.
