(** Layer R proofs: the generated count / state arithmetic (rc/count.rs, rc/minrc.rs, core.rs log ids, log.rs
    filters).  These are statements about the TRANSLATED functions of coq/Gen, re-proved on every run. *)
From Coq Require Import ZArith NArith List Bool Lia.
From Stk Require Import Lib.U Gen.SrcCount Gen.SrcCore Gen.SrcLog.
Import ListNotations.
Local Open Scope Z_scope.
Ltac Zify.zify_post_hook ::= Z.div_mod_to_equations.

Ltac zb := repeat match goal with
  | H : (_ <? _) = true |- _ => apply Z.ltb_lt in H
  | H : (_ <? _) = false |- _ => apply Z.ltb_ge in H
  | H : (_ <=? _) = true |- _ => apply Z.leb_le in H
  | H : (_ <=? _) = false |- _ => apply Z.leb_gt in H
  | H : (_ >=? _) = _ |- _ => rewrite Z.geb_leb in H
  | H : (_ >? _) = _ |- _ => rewrite Z.gtb_ltb in H
  | H : (_ =? _) = true |- _ => apply Z.eqb_eq in H
  | H : (_ =? _) = false |- _ => apply Z.eqb_neq in H
  end.

(** * CountAndState: the packed word is a (count, state) pair *)

Definition pack (c st : Z) : Z := c * 4 + st.
Definition cnt (v : Z) : Z := v / 4.
Definition sta (v : Z) : Z := v mod 4.
Definition CMAX : Z := 4611686018427387903.     (* count at which the word saturates: COUNT_MASK / 4 *)

Lemma count_consts : COUNT_SHIFT = 2 /\ COUNT_INC = 4 /\ COUNT_MASK = 18446744073709551612.
Proof. vm_compute. auto. Qed.

Lemma pack_unpack v : 0 <= v -> pack (cnt v) (sta v) = v.
Proof. unfold pack, cnt, sta. intros. lia. Qed.

Lemma unpack_pack c st : 0 <= st < 4 -> cnt (pack c st) = c /\ sta (pack c st) = st.
Proof. unfold pack, cnt, sta. intros. split; lia. Qed.

Lemma count_new_spec : count_new = Some (pack 0 STATE_PREP).
Proof. reflexivity. Qed.

(* inc: count + 1 below the saturation point, state untouched *)
Lemma count_inc_spec c st :
  0 <= c < CMAX -> 0 <= st < 4 -> count_inc (pack c st) = Some (pack (c + 1) st).
Proof.
  intros Hc Hs. unfold count_inc, pack, CMAX in *. destruct count_consts as (_ & I & M). rewrite M, I.
  destruct (c * 4 + st >=? 18446744073709551612) eqn:E; zb; [lia|].
  unfold cadd64. destruct (c * 4 + st + 4 <? 18446744073709551616) eqn:F; zb; [simpl; f_equal; lia | lia].
Qed.

(* dec: count - 1, and the boolean says exactly "went to zero"; at zero nothing happens *)
Lemma count_dec_spec c st :
  0 < c < CMAX -> 0 <= st < 4 -> count_dec (pack c st) = Some (pack (c - 1) st, c =? 1).
Proof.
  intros Hc Hs. unfold count_dec, pack, CMAX in *. destruct count_consts as (_ & I & M). rewrite M, I.
  destruct (c * 4 + st <? 4) eqn:E; zb; [lia|]. destruct (c * 4 + st >=? 18446744073709551612) eqn:F; zb; [lia|]. simpl.
  unfold csub. destruct (4 <=? c * 4 + st) eqn:G; zb; [|lia]. simpl. f_equal. f_equal; [lia|].
  destruct (c =? 1) eqn:H; destruct (c * 4 + st - 4 <? 4) eqn:K; zb; lia.
Qed.

Lemma count_dec_zero st : 0 <= st < 4 -> count_dec (pack 0 st) = Some (pack 0 st, false).
Proof.
  intros Hs. unfold count_dec, pack. destruct count_consts as (_ & I & M). rewrite M, I.
  destruct (0 * 4 + st <? 4) eqn:E; zb; [reflexivity | lia].
Qed.

(* the strong count is what inc/dec say it is: n owners created and dropped leave the word where it was *)
Lemma count_inc_dec c st :
  0 <= c < CMAX - 1 -> 0 <= st < 4 ->
  exists v, count_inc (pack c st) = Some v /\ count_dec v = Some (pack c st, c =? 0).
Proof.
  intros Hc Hs. exists (pack (c + 1) st). split. apply count_inc_spec; unfold CMAX in *; lia.
  rewrite count_dec_spec by (unfold CMAX in *; lia). f_equal. f_equal. f_equal; lia.
  destruct (c =? 0) eqn:A; destruct (c + 1 =? 1) eqn:B; zb; lia.
Qed.

Lemma land_low2 v : 0 <= v -> Z.land v 3 = v mod 4.
Proof. intros. change 3 with (Z.ones 2). rewrite Z.land_ones by lia. reflexivity. Qed.

Lemma land_mask v : 0 <= v < 18446744073709551616 -> Z.land v 18446744073709551612 = v - v mod 4.
Proof.
  intros H. assert (E : Z.land v 18446744073709551612 = Z.ldiff v 3).
  { apply Z.bits_inj'. intros n Hn. rewrite Z.land_spec, Z.ldiff_spec.
    destruct (Z.ltb n 64) eqn:L.
    - assert (n < 64) by lia. 
      assert (Z.testbit 18446744073709551612 n = negb (Z.testbit 3 n)).
      { assert (n = 0 \/ n = 1 \/ 2 <= n) as [->|[->|G]] by lia; try reflexivity.
        change 3 with (Z.ones 2). rewrite Z.ones_spec_high by lia. simpl.
        change 18446744073709551612 with (Z.shiftl (Z.ones 62) 2). rewrite Z.shiftl_spec by lia.
        apply Z.ones_spec_low. lia. }
      rewrite H1. reflexivity.
    - assert (64 <= n) by lia.
      assert (Z.testbit v n = false). { apply Z.bits_above_log2; try lia. destruct (Z.eq_dec v 0); [subst; simpl; lia|].
        assert (Z.log2 v < 64). { apply Z.log2_lt_pow2; lia. } lia. }
      rewrite H1. reflexivity. }
  rewrite E. change 3 with (Z.ones 2). rewrite Z.ldiff_ones_r by lia. rewrite Z.shiftl_mul_pow2, Z.shiftr_div_pow2 by lia.
  change (2 ^ 2) with 4. lia.
Qed.

Lemma land_shift_low c st : 0 <= st < 4 -> Z.land (c * 4) st = 0.
Proof.
  intros Hs. apply Z.bits_inj'. intros n Hn. rewrite Z.land_spec, Z.bits_0.
  destruct (Z.ltb n 2) eqn:L; zb.
  - replace (c * 4) with (Z.shiftl c 2) by (rewrite Z.shiftl_mul_pow2; lia). rewrite Z.shiftl_spec_low by lia. reflexivity.
  - assert (Z.testbit st n = false).
    { destruct (Z.eq_dec st 0) as [->|NZ]; [apply Z.bits_0|]. apply Z.bits_above_log2; try lia.
      assert (Z.log2 st < 2). { apply Z.log2_lt_pow2; lia. } lia. }
    rewrite H. apply andb_false_r.
Qed.

(* set_state: the count is untouched, the state is the one given *)
Lemma count_set_state_spec c st st' :
  0 <= c <= CMAX -> 0 <= st < 4 -> 0 <= st' < 4 -> count_set_state (pack c st) st' = Some (pack c st').
Proof.
  intros Hc Hs Hs'. unfold count_set_state, pack, CMAX in *. destruct count_consts as (_ & _ & M). rewrite M.
  rewrite land_mask by lia. f_equal.
  replace (c * 4 + st - (c * 4 + st) mod 4) with (c * 4) by lia.
  pose proof (land_shift_low c st' Hs') as H.
  rewrite <- Z.lxor_lor by exact H. rewrite <- Z.add_nocarry_lxor by exact H. reflexivity.
Qed.

(* however the source spells the state mask (`!COUNT_MASK`, a named constant, a helper function inlined by the
   translator): it is a closed term, evaluate it; then remove the translator's binds of inlined helpers *)
Ltac state_mask3 :=
  unfold obind;
  match goal with |- context [Z.land _ ?m] => let m' := eval vm_compute in m in change m with m' end.

Lemma is_prep_spec c st : 0 <= c <= CMAX -> 0 <= st < 4 -> count_is_prep (pack c st) = Some (st =? 0).
Proof.
  intros Hc Hs. unfold count_is_prep, pack, CMAX in *. state_mask3.
  rewrite land_low2 by lia. f_equal. f_equal. lia.
Qed.

Lemma is_zombie_spec c st : 0 <= c <= CMAX -> 0 <= st < 4 -> count_is_zombie (pack c st) = Some (st =? 2).
Proof.
  intros Hc Hs. unfold count_is_zombie, pack, CMAX in *. state_mask3.
  rewrite land_low2 by lia. f_equal. f_equal. lia.
Qed.

(** * MinRc: the hand-rolled count frees exactly on 1 -> 0 and never underflows *)

Lemma minrc_drop_spec c :
  0 <= c < 18446744073709551615 ->
  minrc_drop c = Some (Z.max 0 (c - 1), c =? 1).
Proof.
  intros H. unfold minrc_drop.
  destruct (c =? 1) eqn:A; zb; [subst; reflexivity|].
  destruct (c =? 0) eqn:B; zb; [subst; reflexivity|].
  destruct (c =? 18446744073709551615) eqn:C; zb; [lia|].
  unfold csub. destruct (1 <=? c) eqn:D; zb; [|lia]. simpl. f_equal. f_equal. lia.
Qed.

Lemma minrc_clone_spec c : 0 <= c < 18446744073709551615 -> minrc_clone c = Some (c + 1).
Proof. intros H. unfold minrc_clone. f_equal. lia. Qed.

Lemma minrc_clone_drop c : 0 < c < 18446744073709551614 ->
  exists v, minrc_clone c = Some v /\ minrc_drop v = Some (c, false).
Proof.
  intros H. exists (c + 1). split. apply minrc_clone_spec; lia.
  rewrite minrc_drop_spec by lia. f_equal. f_equal. lia. destruct (c + 1 =? 1) eqn:E; zb; lia.
Qed.

(** * Log ids and filters *)

Lemma log_id_next_spec seq : 0 <= seq < 18446744073709551615 -> log_id_next seq = Some (seq + 1).
Proof.
  intros H. unfold log_id_next. f_equal. rewrite Z.mod_small by lia. lia.
Qed.

Lemma log_id_next_nonzero seq v : 0 <= seq -> log_id_next seq = Some v -> v <> 0.
Proof. unfold log_id_next. intros H E. inversion E. lia. Qed.

Definition levels : list Z :=
  [LOGLEVEL_TRACE; LOGLEVEL_DEBUG; LOGLEVEL_INFO; LOGLEVEL_WARN; LOGLEVEL_ERROR; LOGLEVEL_AUDIT; LOGLEVEL_OPEN; LOGLEVEL_CLOSE; LOGLEVEL_OFF].

(* a filter made from one level allows exactly: that severity and above (severity levels), itself (audit),
   both span levels (open / close) -- the whole 9 x 9 table, by computation on the translated functions *)
Definition allows_table : list (list bool) :=
  map (fun from => map (fun lvl => match logfilter_from from with
                                   | Some f => match logfilter_allows f lvl with Some b => b | None => false end
                                   | None => false end) levels) levels.

Lemma allows_table_ok :
  allows_table =
  [ [true; true; true; true; true; false; false; false; false];
    [false; true; true; true; true; false; false; false; false];
    [false; false; true; true; true; false; false; false; false];
    [false; false; false; true; true; false; false; false; false];
    [false; false; false; false; true; false; false; false; false];
    [false; false; false; false; false; true; false; false; false];
    [false; false; false; false; false; false; true; true; false];
    [false; false; false; false; false; false; true; true; false];
    [false; false; false; false; false; false; false; false; false] ].
Proof. vm_compute. reflexivity. Qed.

(* every filter value reachable through the public API is a union of per-level filters: allows distributes *)
Lemma allows_union f g lvl :
  logfilter_allows (Z.lor f g) lvl =
  match logfilter_allows f lvl, logfilter_allows g lvl with
  | Some a, Some b => Some (a || b) | _, _ => None end.
Proof.
  unfold logfilter_allows. destruct (shl32 1 lvl) as [b|]; [|reflexivity]. unfold obind. f_equal. rewrite Z.land_lor_distr_l.
  set (x := Z.land f b). set (y := Z.land g b).
  assert (E : (0 =? Z.lor x y) = (0 =? x) && (0 =? y)).
  { destruct (0 =? x) eqn:A; destruct (0 =? y) eqn:B; zb; unfold andb.
    - rewrite <- A, <- B. reflexivity.
    - apply Z.eqb_neq. intros C. symmetry in C. apply Z.lor_eq_0_iff in C. destruct C; congruence.
    - apply Z.eqb_neq. intros C. symmetry in C. apply Z.lor_eq_0_iff in C. destruct C; congruence.
    - apply Z.eqb_neq. intros C. symmetry in C. apply Z.lor_eq_0_iff in C. destruct C; congruence. }
  rewrite E. destruct (0 =? x), (0 =? y); reflexivity.
Qed.
