(** Layer R proofs: the [Dropped] cause is only ever delivered for a request that was issued (C03, with C04's theorem).
    [C03_dropped_ok t = okx chkN1 (rev t)], hence true of every run by [C04_never_while_owned_proved]. *)
From Coq Require Import ZArith NArith List Bool Lia.
From Stk Require Import Lib.U R.Syntax R.Rt R.Mon R.MonX R.Count R.C15Proofs R.C04Mon R.C04A3.
Import ListNotations.
Local Open Scope Z_scope.

Lemma zget_nset s a v b : zget (nset s a v) b = if N.eqb b a then v else zget s b.
Proof.
  unfold zget. destruct (N.eqb b a) eqn:E.
  - apply N.eqb_eq in E. subst. rewrite nget_nset_eq. reflexivity.
  - rewrite nget_nset_neq; [reflexivity|]. intros ->. rewrite N.eqb_refl in E. discriminate.
Qed.

(* the state of the fold after the newest-first trace t: owner counts = vis, and it exists iff chkN1 held throughout *)
Lemma monr_stepD t :
  match monr stepD [] t with
  | Some s => okx chkN1 t = true /\ forall a, zget s a = vis a t
  | None => okx chkN1 t = false
  end.
Proof.
  induction t as [|e r IH]; [split; reflexivity|].
  cbn [monr okx vis]. destruct (monr stepD [] r) as [s|].
  - destruct IH as [OK V].
    assert (C : forall a, cnt_of (st04 r) a = zget s a) by (intros a; rewrite st04_cnt, V; reflexivity).
    destruct e; cbn [stepD chkN1 vis1]; rewrite ?OK; try (split; [reflexivity | intros a0; rewrite V; reflexivity]).
    + (* EOwnNew *) split; [reflexivity|]. intros b. rewrite zget_nset. cbn [vis1]. unfold vb. destruct (N.eqb b a) eqn:E.
      * apply N.eqb_eq in E. subst b. rewrite V. lia.
      * rewrite V. lia.
    + (* EOwnDrop *) split; [reflexivity|]. intros b. rewrite zget_nset. cbn [vis1]. unfold vb. destruct (N.eqb b a) eqn:E.
      * apply N.eqb_eq in E. subst b. rewrite V. lia.
      * rewrite V. lia.
    + (* ENotify *) destruct c as [[| | |]|]; cbn [stepD chkN1]; rewrite ?OK;
        try (split; [reflexivity | intros a0; rewrite V; reflexivity]).
      rewrite C. unfold guard. destruct (zget s a <=? 0); [split; [reflexivity | intros a0; rewrite V; reflexivity] | reflexivity].
  - rewrite IH. apply andb_false_r.
Qed.

Theorem C03_dropped_ok_rev t : C03_dropped_ok (rev t) = okx chkN1 t.
Proof.
  unfold C03_dropped_ok. rewrite fold_mon_rev. pose proof (monr_stepD t) as H.
  destruct (monr stepD [] t); [destruct H as [-> _]; reflexivity | rewrite H; reflexivity].
Qed.

(** For every program and fuel (global / thread-local deferrer, below counter saturation): whenever a notifier is
    invoked with cause Dropped, the trace so far shows no visible owner of that actor: the request "last owner
    dropped" was actually issued. *)
Theorem C03_dropped_cause_issued_proved : forall (p : list top) (fuel : nat) (t : list ev),
  exec DGlobal fuel p = Done t -> Z.of_nat (length t) < CMAX - 1 -> C03_dropped_ok t = true.
Proof.
  intros p fuel t H LEN. rewrite <- (rev_involutive t), C03_dropped_ok_rev.
  exact (C04_never_while_owned_proved p fuel t H LEN).
Qed.
