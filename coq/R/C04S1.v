(** Layer R proofs: C04, slab clauses, part 5: more passes over the handlers.

    [handle_mqr]: slab-removal items enter the main queue only when a wrapper notifier is invoked with a cause.
    [handle_src2]: where pushed [MTerminate] / [MDropItem] micro-ops come from.
    [handle_evS]: only the act slablen emits [ESlabLen], with the length of the slab of the running actor.
    [run_leave]: run is left only by [MLoop] with empty queues.  [occ_back]: where occupied slab entries come from. *)
From Coq Require Import ZArith NArith List Bool Lia.
From Stk Require Import R.LinEvs R.LinC03K R.Lin R.LinAct R.LinLaw R.LinStep R.LinNin R.LinC03L R.LinC05C R.C06cProofs R.C02Proofs.
From Stk Require Import Lib.U Gen.SrcCount Gen.SrcCore Gen.SrcLog R.Syntax R.Rt R.Mon R.Shape R.Eff R.Tags R.Mono R.Count
  R.Nest R.C15Proofs R.C20Proofs R.Calls R.CallInv R.Own R.OwnLaw R.OwnVis R.C04Mon R.C04Base R.C04A R.C04SK R.C04B R.C04B2
  R.C04W R.C04W2 R.C04K R.C04K2.
Import ListNotations.
Local Open Scope Z_scope.

Arguments submit : simpl never.
Arguments push_main : simpl never.
Arguments timer_add : simpl never.
Arguments emit : simpl never.
Arguments upd_actor : simpl never.
Arguments ref_clone : simpl never.
Arguments new_actor : simpl never.
Arguments log_rec : simpl never.
Arguments tok_script : simpl never.
Arguments target_ev : simpl never.
Arguments push_frame : simpl never.

(* ------------------------------------------------------------------ *)
(** * Slab-removal items enter the main queue only through a wrapper notifier *)

Definition notrm (c : citem) : Prop := forall p key, ci_kind c <> KSlabRm p key.

Definition mqr (s s' : st) : Prop := forall c, In c (mainq s') -> In c (mainq s) \/ notrm c.

Lemma mqr_refl s : mqr s s. Proof. intros c H; auto. Qed.
Lemma mqr_trans s1 s2 s3 : mqr s1 s2 -> mqr s2 s3 -> mqr s1 s3.
Proof. intros A B c H. destruct (B c H) as [H2|N]; auto. Qed.
Lemma mqr_same s s' : mainq s' = mainq s -> mqr s s'.
Proof. intros E c H. rewrite E in H. auto. Qed.
Lemma mqr_push s c : notrm c -> mqr s (push_main s c).
Proof. intros N d H. unfold push_main in H. cbn [mainq set_mainq] in H. apply in_app_or in H as [H|[<-|[]]]; auto. Qed.
Lemma notrm_setq c q : notrm c -> notrm (ci_setq c q).
Proof. intros N a b. destruct c; simpl in *. apply N. Qed.
Lemma mqr_submit s q c : notrm c -> mqr s (submit s q c).
Proof.
  intros N. unfold submit. destruct q; try (apply mqr_same; reflexivity).
  intros d H. unfold push_main in H. cbn [mainq set_mainq] in H. apply in_app_or in H as [H|[<-|[]]]; [left; exact H | right; apply notrm_setq; exact N].
Qed.
Lemma mqr_nil s s' : mainq s' = [] -> mqr s s'.
Proof. intros E c H. rewrite E in H. destruct H. Qed.

Lemma notrm_kind c k : ci_kind c = k -> (forall p key, k <> KSlabRm p key) -> notrm c.
Proof. intros E N a b. rewrite E. apply N. Qed.

Lemma mqr_tok_script script : forall s0 s, mqr s0 s -> mqr s0 (tok_script s script).
Proof.
  unfold tok_script. induction script as [|c r IH]; intros s0 s H; [exact H|]. cbn [fold_left].
  destruct (inst_env c KPlain s) as [ci s1] eqn:I. apply IH.
  apply (mqr_trans _ s1).
  - apply (mqr_trans _ s); [exact H|]. apply mqr_same.
    unfold inst_env in I. destruct (take_env_caps (clo_caps c) s) as [caps s2] eqn:T. inversion I; subst.
    rewrite mainq_emit, mainq_set_nuid. eapply mainq_take_env_caps; eauto.
  - apply mqr_submit. unfold inst_env in I. destruct (take_env_caps (clo_caps c) s) as [caps s2]. inversion I; subst.
    intros a b. simpl. discriminate.
Qed.

Ltac nr_tac :=
  first [ (intros ? ?; simpl; discriminate)
        | (eapply notrm_kind; [ first [ eapply mainq_inst; eassumption | eapply mainq_inst_call; eassumption
                                         | eapply mainq_inst_nocaps; eassumption ] | intros ? ?; discriminate ])
        | (match goal with |- notrm (as_call _ ?c _) => intros ? ?; destruct c; simpl; discriminate end) ].

Ltac mqr_tac :=
  repeat first
    [ match goal with |- mqr ?x ?y => constr_eq x y; apply mqr_refl end
    | match goal with C : mqr ?x ?y |- mqr ?x2 ?y2 => constr_eq x x2; constr_eq y y2; exact C end
    | match goal with
      | |- mqr _ (emit ?s _) => apply (mqr_trans _ s); [ | apply mqr_same; apply mainq_emit ]
      | |- mqr _ (push_main ?s _) => apply (mqr_trans _ s); [ | apply mqr_push; nr_tac ]
      | |- mqr _ (submit ?s _ _) => apply (mqr_trans _ s); [ | apply mqr_submit; nr_tac ]
      | |- mqr _ (push_frame ?s _ _) => apply (mqr_trans _ s); [ | apply mqr_same; apply mainq_push_frame ]
      | |- mqr _ (timer_add ?s _ _ _ _) => apply (mqr_trans _ s); [ | apply mqr_same; apply mainq_timer_add ]
      | |- mqr _ (target_ev ?s _) => apply (mqr_trans _ s); [ | apply mqr_same; apply mainq_target_ev ]
      | |- mqr _ (log_rec ?s _ _ _ _) => apply (mqr_trans _ s); [ | apply mqr_same; apply mainq_log_rec ]
      | |- mqr _ (ref_clone ?s _) => apply (mqr_trans _ s); [ | apply mqr_same; apply mainq_ref_clone ]
      | |- mqr _ (new_actor ?s _ _ _ _) => apply (mqr_trans _ s); [ | apply mqr_same; apply mainq_new_actor ]
      | |- mqr _ (upd_actor ?s _ _) => apply (mqr_trans _ s); [ | apply mqr_same; apply mainq_upd_actor ]
      | |- mqr _ (tok_script ?s _) => apply mqr_tok_script
      | |- mqr _ (set_mainq _ []) => apply mqr_nil; reflexivity
      | |- mqr _ (set_alive ?s _) => apply (mqr_trans _ s); [ | apply mqr_same; apply mainq_set_alive ]
      | |- mqr _ (set_now ?s _) => apply (mqr_trans _ s); [ | apply mqr_same; apply mainq_set_now ]
      | |- mqr _ (set_start ?s _) => apply (mqr_trans _ s); [ | apply mqr_same; apply mainq_set_start ]
      | |- mqr _ (set_lazyq ?s _) => apply (mqr_trans _ s); [ | apply mqr_same; apply mainq_set_lazyq ]
      | |- mqr _ (set_idleq ?s _) => apply (mqr_trans _ s); [ | apply mqr_same; apply mainq_set_idleq ]
      | |- mqr _ (set_timers ?s _) => apply (mqr_trans _ s); [ | apply mqr_same; apply mainq_set_timers ]
      | |- mqr _ (set_tnext ?s _) => apply (mqr_trans _ s); [ | apply mqr_same; apply mainq_set_tnext ]
      | |- mqr _ (set_tvars ?s _) => apply (mqr_trans _ s); [ | apply mqr_same; apply mainq_set_tvars ]
      | |- mqr _ (set_recreate ?s _) => apply (mqr_trans _ s); [ | apply mqr_same; apply mainq_set_recreate ]
      | |- mqr _ (set_fwds ?s _) => apply (mqr_trans _ s); [ | apply mqr_same; apply mainq_set_fwds ]
      | |- mqr _ (set_env ?s _) => apply (mqr_trans _ s); [ | apply mqr_same; apply mainq_set_env ]
      | |- mqr _ (set_frames ?s _) => apply (mqr_trans _ s); [ | apply mqr_same; apply mainq_set_frames ]
      | |- mqr _ (set_nuid ?s _) => apply (mqr_trans _ s); [ | apply mqr_same; apply mainq_set_nuid ]
      | |- mqr _ (set_logseq ?s _) => apply (mqr_trans _ s); [ | apply mqr_same; apply mainq_set_logseq ]
      | |- mqr _ (set_logfilter ?s _) => apply (mqr_trans _ s); [ | apply mqr_same; apply mainq_set_logfilter ]
      | |- mqr _ (set_haslogger ?s _) => apply (mqr_trans _ s); [ | apply mqr_same; apply mainq_set_haslogger ]
      | |- mqr _ (set_shut ?s _) => apply (mqr_trans _ s); [ | apply mqr_same; apply mainq_set_shut ]
      | |- mqr _ (set_tr ?s _) => apply (mqr_trans _ s); [ | apply mqr_same; apply mainq_set_tr ]
      | |- mqr _ (if ?b then _ else _) => destruct b
      | |- mqr _ (match ?b with Some _ => _ | None => _ end) => destruct b
      | |- mqr _ ?s' =>
          match goal with
          | E : take ?s _ = (_, s') |- _ => apply (mqr_trans _ s); [ | apply mqr_same; apply (mainq_take _ _ _ _ E) ]
          | E : take_caps _ ?s = (_, s') |- _ => apply (mqr_trans _ s); [ | apply mqr_same; apply (mainq_take_caps _ _ _ _ E) ]
          | E : bind ?s _ _ = (_, s') |- _ => apply (mqr_trans _ s); [ | apply mqr_same; apply (mainq_bind _ _ _ _ _ E) ]
          | E : bad ?s _ = (_, s') |- _ => apply (mqr_trans _ s); [ | apply mqr_same; apply (mainq_bad _ _ _ _ E) ]
          | E : inst _ _ ?s = (_, s') |- _ => apply (mqr_trans _ s); [ | apply mqr_same; apply (mainq_inst _ _ _ _ _ E) ]
          | E : inst_call _ _ ?s = (_, s') |- _ => apply (mqr_trans _ s); [ | apply mqr_same; apply (mainq_inst_call _ _ _ _ _ E) ]
          | E : inst_nocaps _ _ ?s = (_, s') |- _ => apply (mqr_trans _ s); [ | apply mqr_same; apply (mainq_inst_nocaps _ _ _ _ _ E) ]
          | E : mk_notifier ?s _ _ = (_, s') |- _ => apply (mqr_trans _ s); [ | apply mqr_same; apply (mainq_mk_notifier _ _ _ _ _ E) ]
          end
      end ].

Ltac mqr_all := solve [intros Q; try injp Q; mqr_tac].

Lemma do_act_mqr act s pre s' : do_act act s = (pre, s') -> mqr s s'.
Proof.
  unfold do_act. destruct act; try solve [repeat dest_match; mqr_all].
Qed.

Lemma handle_mqr m s pre s' :
  (forall rid p key inner mg, m <> MRetInvoke (Ret rid (RKSlab p key inner)) (Some mg)) -> handle m s = (pre, s') -> mqr s s'.
Proof.
  intros ND. destruct m; cbn [handle].
  - unfold do_top. destruct o; repeat dest_match; mqr_all.
  - destruct l as [|act l]; [mqr_all|].
    destruct (do_act act s) as [p s1] eqn:E. intros Q; injp Q. eapply do_act_mqr; eauto.
  - destruct (frames s) as [|fr rest]; mqr_all.
  - destruct (frames s) as [|fr rest]; mqr_all.
  - unfold run_item. destruct c as [u i kd caps q]. destruct kd; repeat dest_match; mqr_all.
  - unfold drop_item. destruct c as [u i kd caps q]. destruct kd; mqr_all.
  - mqr_all.
  - unfold drop_val. destruct v; repeat dest_match; mqr_all.
  - unfold drop_own. repeat dest_match; mqr_all.
  - unfold drop_ref. destruct (aget (actors s) a) as [y|] eqn:A; [|mqr_all].
    destruct (a_freed y); [mqr_all|]. destruct (minrc_drop (a_rc y)) as [[v z]|]; [|mqr_all].
    destruct z; [|mqr_all].
    destruct (state_drops a (a_state y) _) as [dl s2] eqn:SD. intros Q; injp Q.
    destruct (state_drops_h (HO 0) _ _ _ _ _ SD) as [-> _]. mqr_tac.
  - unfold ret_invoke. destruct r as [rid k]. destruct k as [caps bd|p0 ci|p0 ci|p0 inner|p0 key inner]; try solve [repeat dest_match; mqr_all].
    destruct m as [mg|]; [exfalso; eapply ND; reflexivity | mqr_all].
  - mqr_all.
  - mqr_all.
  - mqr_all.
  - mqr_all.
  - unfold terminate. destruct (aget (actors s) a) as [y|] eqn:A; [|mqr_all].
    destruct (state_drops a (a_state y) _) as [dl s1] eqn:SD.
    destruct (state_drops_h (HO 0) _ _ _ _ _ SD) as [-> _].
    destruct (a_notify y); intros Q; injp Q; mqr_tac.
  - destruct (aget (actors s) a); mqr_all.
  - destruct (aget (actors s) a) as [y|] eqn:A; [|mqr_all]. destruct (a_state y); mqr_all.
  - unfold fresh_stakker. mqr_all.
  - destruct idle; [destruct (idleq s)|]; mqr_all.
  - destruct (t >? now (set_mainq s [])).
    + destruct (fire t (set_now (set_mainq s []) t)) as [fired s2] eqn:FI. unfold fire in FI. injection FI as ? ?; subst.
      mqr_all.
    + mqr_all.
  - repeat dest_match; mqr_all.
  - repeat dest_match; mqr_all.
  - cbv zeta. mqr_all.
  - repeat dest_match; mqr_all.
  - repeat dest_match; mqr_all.
  - mqr_all.
  - intros Q; injp Q. apply mqr_same. cbn [mainq set_tr]. apply mainq_class_flags.
Qed.


(* ------------------------------------------------------------------ *)
(** * Where pushed terminations and item drops come from *)

Definition sp2 (l : list mop) : bool :=
  forallb (fun m => match m with MTerminate _ _ | MDropItem _ => false | _ => true end) l.

Lemma sp2_app a b : sp2 (a ++ b) = sp2 a && sp2 b. Proof. apply forallb_app. Qed.
Lemma sp2_drops l : sp2 (drops l) = true. Proof. unfold drops. induction l; simpl; auto. Qed.
Lemma sp2_slab_drops l : sp2 (slab_drops l) = true. Proof. induction l as [|[c|n] l IH]; simpl; auto. Qed.
Lemma sp2_runitems l : sp2 (map MRunItem l) = true. Proof. induction l; simpl; auto. Qed.
Lemma bind_sp2 s h v l s' : bind s h v = (l, s') -> sp2 l = true.
Proof. unfold bind. destruct (aget (env s) h); intros Q; inversion Q; reflexivity. Qed.
Lemma bad_sp2 s c l s' : bad s c = (l, s') -> sp2 l = true.
Proof. unfold bad. intros Q; inversion Q; reflexivity. Qed.

Definition src2 (m : mop) (s : st) (x : mop) : Prop :=
  match x with
  | MTerminate c cc =>
      (exists ci, m = MRunItem ci /\ (ci_kind ci = KTerm c \/ exists e, ci_kind ci = KKill c e)) \/
      (exists u f, m = MEndBody u f) \/
      (exists h e l, m = MActs (AKill h e :: l) /\ lookup s h = Some (HOwn c))
  | MDropItem ci =>
      (In ci (mainq s) /\ ((exists i, m = MDrain i) \/ (exists t, m = MNew t))) \/ In ci (lazyq s) \/ In ci (idleq s) \/
      (exists ci0, In ci0 (map ti_ci (timers s)) /\ (ci = ci0 \/ ci = ci_unq ci0)) \/
      (exists a y, aget (actors s) a = Some y /\ In ci (held_of y)) \/
      (exists b, ci_kind ci = KPlain b)
  | _ => True
  end.

Lemma sp2_src m s pre : sp2 pre = true -> forall x, In x pre -> src2 m s x.
Proof.
  unfold sp2. rewrite forallb_forall. intros F x IN. specialize (F x IN). destruct x; try exact I; discriminate F.
Qed.

Ltac sp2_tac :=
  first [ reflexivity
        | (eapply bind_sp2; eassumption)
        | (eapply bad_sp2; eassumption)
        | (cbn [map app sp2 forallb]; rewrite ?sp2_app, ?sp2_drops, ?sp2_slab_drops, ?sp2_runitems; reflexivity) ].

Lemma in_dropitems ci l : In (MDropItem ci) (map MDropItem l) -> In ci l.
Proof. intros H. apply in_map_iff in H as (c & Q & IN). inversion Q; subst. exact IN. Qed.

Lemma src2_app m s a b : (forall x, In x a -> src2 m s x) -> (forall x, In x b -> src2 m s x) -> forall x, In x (a ++ b) -> src2 m s x.
Proof. intros A B x IN. apply in_app_or in IN as [IN|IN]; auto. Qed.

Lemma src2_dropitems m s l : (forall ci, In ci l -> src2 m s (MDropItem ci)) -> forall x, In x (map MDropItem l) -> src2 m s x.
Proof. intros H x IN. apply in_map_iff in IN as (c & <- & IN). apply H. exact IN. Qed.

Lemma state_drops_src2 m a sa s y l s' : aget (actors s) a = Some y -> a_state y = sa -> state_drops a sa s = (l, s') ->
  forall x, In x l -> src2 m s x.
Proof.
  intros AY SA. unfold state_drops. destruct sa; intros Q; inversion Q; subst.
  - apply src2_dropitems. intros ci IN. cbn [src2]. right. right. right. right. left. exists a, y. split; [exact AY|].
    unfold held_of. rewrite SA. exact IN.
  - apply sp2_src. cbn [sp2 forallb]. fold (sp2 (drops sh ++ slab_drops slab)). rewrite sp2_app, sp2_drops, sp2_slab_drops. reflexivity.
  - intros x [].
Qed.

Lemma do_act_src2 a l s pre s' : do_act a s = (pre, s') -> forall x, In x pre -> src2 (MActs (a :: l)) s x.
Proof.
  unfold do_act. destruct a; repeat dest_match; intros Q; inj_pair Q; try solve [apply sp2_src; sp2_tac].
  - (* ATimerMac *)
    intros x [<-|[]]. cbn [src2]. right. right. right. right. right. exists (clo_body c). eapply mainq_inst; eauto.
  - intros x [<-|[]]. cbn [src2]. right. right. right. right. right. exists (clo_body c). eapply mainq_inst; eauto.
  - (* ATimerDel *)
    intros x [<-|[<-|[]]]; [|exact I]. cbn [src2]. right. right. right. left.
    destruct (var_timer_find _ _ _ _ Heqo) as (i & F & _). exists ci. split; [|right; reflexivity].
    apply in_map_iff. eexists. split; [|eapply ti_find_in; eauto]. reflexivity.
  - (* AKill *)
    intros x [<-|[]]. cbn [src2]. right. right. eauto.
Qed.

Lemma handle_src2 mo s pre s' : handle mo s = (pre, s') -> forall x, In x pre -> src2 mo s x.
Proof.
  assert (NIL : sp2 pre = true -> forall x, In x pre -> src2 mo s x) by apply sp2_src.
  destruct mo; cbn [handle].
  - unfold do_top. destruct o; repeat dest_match; intros Q; inj_pair Q; apply sp2_src; sp2_tac.
  - destruct l as [|a l]; [intros Q; inj_pair Q; apply sp2_src; sp2_tac|]. destruct (do_act a s) as [p s1] eqn:E.
    intros Q; inversion Q; subst. apply src2_app; [eapply do_act_src2; eauto | apply sp2_src; reflexivity].
  - destruct (frames s); intros Q; inj_pair Q; apply sp2_src; sp2_tac.
  - (* MEndBody *)
    destruct (frames s) as [|fr rest]; intros Q; inj_pair Q; [apply sp2_src; sp2_tac|].
    apply src2_app; [apply sp2_src; apply sp2_drops|].
    intros x IN. destruct x; try exact I.
    + exfalso. destruct f; try destruct (f_die fr); try destruct ready; simpl in IN; repeat (destruct IN as [IN|IN]; [discriminate IN|]); destruct IN.
    + cbn [src2]. right. left. eauto.
  - (* MRunItem *)
    unfold run_item. destruct c as [u0 i kd caps q]. destruct kd; repeat dest_match; intros Q; inj_pair Q; try solve [apply sp2_src; sp2_tac].
    + intros x [<-|[<-|[]]]; [|exact I]. cbn [src2]. left. eexists. split; [reflexivity|]. left. reflexivity.
    + intros x [<-|[<-|[]]]; [|exact I]. cbn [src2]. left. eexists. split; [reflexivity|]. right. eexists. reflexivity.
  - unfold drop_item. destruct c as [u0 i kd caps q]. destruct kd; intros Q; inj_pair Q; apply sp2_src; sp2_tac.
  - intros Q; inj_pair Q; apply sp2_src; sp2_tac.
  - unfold drop_val. destruct v; repeat dest_match; intros Q; inj_pair Q; apply sp2_src; sp2_tac.
  - unfold drop_own. destruct logged; repeat dest_match; intros Q; inj_pair Q; apply sp2_src; sp2_tac.
  - (* MDropRef *)
    unfold drop_ref. destruct (aget (actors s) a) as [y|] eqn:A; [|intros Q; inj_pair Q; apply sp2_src; sp2_tac].
    destruct (a_freed y) eqn:FR; [intros Q; inj_pair Q; apply sp2_src; sp2_tac|].
    destruct (minrc_drop (a_rc y)) as [[v z]|] eqn:MD; [|intros Q; inj_pair Q; apply sp2_src; sp2_tac].
    destruct z; [|intros Q; inj_pair Q; apply sp2_src; sp2_tac].
    destruct (state_drops a (a_state y) _) as [dl s2] eqn:SD. intros Q; inj_pair Q.
    apply src2_app; [destruct (a_notify y); apply sp2_src; reflexivity|].
    intros x IN. unfold state_drops in SD. destruct (a_state y) eqn:SA; inversion SD; subst.
    + apply in_map_iff in IN as (ci & <- & IN). cbn [src2]. right. right. right. right. left. exists a, y. split; [exact A|].
      unfold held_of. rewrite SA. exact IN.
    + revert x IN. apply sp2_src. cbn [sp2 forallb]. fold (sp2 (drops sh ++ slab_drops slab)). rewrite sp2_app, sp2_drops, sp2_slab_drops. reflexivity.
    + destruct IN.
  - unfold ret_invoke. destruct r as [rid k]. destruct k; repeat dest_match; intros Q; inj_pair Q; apply sp2_src; sp2_tac.
  - intros Q; inj_pair Q; apply sp2_src; sp2_tac.
  - intros Q; inj_pair Q; apply sp2_src; sp2_tac.
  - intros Q; inj_pair Q; apply sp2_src; sp2_tac.
  - intros Q; inj_pair Q; apply sp2_src; sp2_tac.
  - (* MTerminate *)
    unfold terminate. destruct (aget (actors s) a) as [y|] eqn:A; [|intros Q; inj_pair Q; apply sp2_src; sp2_tac].
    destruct (state_drops a (a_state y) _) as [dl s2] eqn:SD.
    assert (DL : forall x, In x dl -> src2 (MTerminate a c) s x).
    { intros x IN. unfold state_drops in SD. destruct (a_state y) eqn:SA; inversion SD; subst.
      - apply in_map_iff in IN as (ci & <- & IN). cbn [src2]. right. right. right. right. left. exists a, y. split; [exact A|].
        unfold held_of. rewrite SA. exact IN.
      - revert x IN. apply sp2_src. cbn [sp2 forallb]. fold (sp2 (drops sh ++ slab_drops slab)). rewrite sp2_app, sp2_drops, sp2_slab_drops. reflexivity.
      - destruct IN. }
    destruct (a_notify y); intros Q; inj_pair Q; [|exact DL]. apply src2_app; [exact DL | apply sp2_src; reflexivity].
  - destruct (aget (actors s) a); intros Q; inj_pair Q; apply sp2_src; sp2_tac.
  - destruct (aget (actors s) a) as [y|] eqn:A; [destruct (a_state y)|]; intros Q; inj_pair Q; apply sp2_src; sp2_tac.
  - (* MNew *)
    intros Q; inj_pair Q. apply src2_dropitems. intros ci IN. cbn [src2]. left. split; [|right; eauto]. destruct (dk s); [exact IN | destruct IN].
  - destruct idle; [destruct (idleq s)|]; intros Q; inj_pair Q; apply sp2_src; sp2_tac.
  - destruct (t >? now (set_mainq s [])).
    + destruct (fire t _) as [fired s2] eqn:FI. intros Q; inj_pair Q; apply sp2_src; sp2_tac.
    + intros Q; inj_pair Q; apply sp2_src; sp2_tac.
  - repeat dest_match; intros Q; inj_pair Q; apply sp2_src; sp2_tac.
  - (* MDrain *)
    destruct (i >=? TEARDOWN_ROUNDS); [intros Q; inj_pair Q; apply sp2_src; sp2_tac|].
    destruct (mainq s) as [|c0 l0] eqn:MQ; intros Q; inj_pair Q; [apply sp2_src; sp2_tac|].
    change (MDropItem c0 :: map MDropItem l0 ++ [MDrain (i + 1)]) with (map MDropItem (c0 :: l0) ++ [MDrain (i + 1)]).
    apply src2_app; [|apply sp2_src; reflexivity]. apply (src2_dropitems _ _ (c0 :: l0)). intros ci IN. cbn [src2]. left. split; [rewrite MQ; exact IN | left; eauto].
  - (* MDropFields *)
    intros Q; inj_pair Q. apply src2_app; [|apply sp2_src; reflexivity].
    apply src2_dropitems. intros ci IN. cbn [src2].
    assert (Q0 : forall X (f : st -> X), (forall s0 e, f (emit s0 e) = f s0) -> f (if ambiguous (timers s) then emit s (EModel M_AMBIG 1) else s) = f s)
      by (intros X f H; destruct (ambiguous (timers s)); auto).
    rewrite (Q0 _ lazyq), (Q0 _ idleq), (Q0 _ timers) in IN by reflexivity.
    apply in_app_or in IN as [IN|IN]; [right; left; exact IN|]. apply in_app_or in IN as [IN|IN]; [right; right; left; exact IN|].
    right. right. right. left. exists ci. split; [|left; reflexivity].
    apply in_map_iff in IN as (t0 & <- & IN). apply in_map. apply ti_sort_in. exact IN.
  - repeat dest_match; intros Q; inj_pair Q; apply sp2_src; sp2_tac.
  - repeat dest_match; intros Q; inj_pair Q; apply sp2_src; sp2_tac.
  - intros Q; inj_pair Q; apply sp2_src; sp2_tac.
  - intros Q; inj_pair Q; apply sp2_src; sp2_tac.
Qed.

(* ------------------------------------------------------------------ *)
(** * Where slab-length events come from *)

Definition pbS (e : ev) : bool := match e with ESlabLen _ _ => false | _ => true end.

Ltac eiS := repeat ei_step.

Definition slablen_ok (m : mop) (s : st) (pre : list mop) (s' : st) : Prop :=
  exists l p x sh slab nx, m = MActs (ASlabLen :: l) /\ cur_ctx s = XCx p false /\ aget (actors s) p = Some x /\
    a_state x = SReady sh slab nx /\ s' = emit s (ESlabLen p (slab_len slab)) /\ pre = [MActs l].

Lemma leaks_pbS t : forallb pbS (rev (leaks t)) = true.
Proof. unfold leaks. rewrite <- map_rev. induction (rev (live_after t [])); simpl; auto. Qed.

Lemma handle_evS m s pre s' : handle m s = (pre, s') -> evs_in pbS s s' \/ slablen_ok m s pre s'.
Proof.
  intros H. destruct m; cbn [handle] in H.
  - left. revert H. unfold do_top. destruct o; repeat dest_match; unfold bad; intros Q; injp Q; eiS.
  - revert H. destruct l as [|act l]; [intros Q; injp Q; left; eiS|].
    destruct (do_act act s) as [p s1] eqn:E. intros Q; injp Q.
    unfold do_act in E. destruct act; try solve [left; revert E; repeat dest_match; intros Q; try injp Q; eiS].
    (* ASlabLen *)
    destruct (cur_ctx s) as [|a pr|] eqn:CC; try solve [injp E; left; eiS]. destruct pr; try solve [injp E; left; eiS].
    destruct (aget (actors s) a) as [x|] eqn:AX; try solve [injp E; left; eiS].
    destruct (a_state x) eqn:SX; try solve [injp E; left; eiS].
    injp E. right. exists l, a, x, sh, slab, snext. auto 8.
  - left. revert H. destruct (frames s); intros Q; injp Q; eiS.
  - left. revert H. destruct (frames s); intros Q; injp Q; eiS.
  - left. revert H. unfold run_item. destruct c as [u i kd caps q]. destruct kd; repeat dest_match; intros Q; injp Q; eiS.
  - left. revert H. unfold drop_item. destruct c as [u i kd caps q]. destruct kd; intros Q; injp Q; eiS.
  - left. revert H. intros Q; injp Q; eiS.
  - left. revert H. unfold drop_val. destruct v; repeat dest_match; intros Q; injp Q; eiS.
  - left. revert H. unfold drop_own. repeat dest_match; intros Q; injp Q; eiS.
  - left. revert H. unfold drop_ref. destruct (aget (actors s) a) as [y|]; [|intros Q; injp Q; eiS].
    destruct (a_freed y); [intros Q; injp Q; eiS|]. destruct (minrc_drop (a_rc y)) as [[v z]|]; [|intros Q; injp Q; eiS].
    destruct z; [|intros Q; injp Q; eiS].
    destruct (state_drops a (a_state y) _) as [dl s2] eqn:SD. intros Q; injp Q.
    destruct (state_drops_h (HO 0) _ _ _ _ _ SD) as [-> _]. eiS.
  - left. revert H. unfold ret_invoke. destruct r as [rid k]. destruct k; repeat dest_match; intros Q; injp Q; eiS.
  - left. revert H. intros Q; injp Q; eiS.
  - left. revert H. intros Q; injp Q; eiS.
  - left. revert H. intros Q; injp Q; eiS.
  - left. revert H. intros Q; injp Q; eiS.
  - left. revert H. unfold terminate. destruct (aget (actors s) a) as [y|]; [|intros Q; injp Q; eiS].
    destruct (state_drops a (a_state y) _) as [dl s1] eqn:SD.
    destruct (state_drops_h (HO 0) _ _ _ _ _ SD) as [-> _].
    destruct (a_notify y); intros Q; injp Q; eiS.
  - left. revert H. destruct (aget (actors s) a); intros Q; injp Q; eiS.
  - left. revert H. destruct (aget (actors s) a) as [y|]; [destruct (a_state y)|]; intros Q; injp Q; eiS.
  - left. revert H. unfold fresh_stakker. intros Q; injp Q; eiS.
  - left. revert H. destruct idle; [destruct (idleq s)|]; intros Q; injp Q; eiS.
  - left. revert H. destruct (t >? now (set_mainq s [])).
    + destruct (fire t (set_now (set_mainq s []) t)) as [fired s2] eqn:FI. unfold fire in FI. injection FI as ? ?; subst.
      intros Q; injp Q; eiS.
    + intros Q; injp Q; eiS.
  - left. revert H. repeat dest_match; intros Q; injp Q; eiS.
  - left. revert H. repeat dest_match; intros Q; injp Q; eiS.
  - left. revert H. cbv zeta. intros Q; injp Q; eiS.
  - left. revert H. repeat dest_match; intros Q; injp Q; eiS.
  - left. revert H. repeat dest_match; intros Q; injp Q; eiS.
  - left. revert H. intros Q; injp Q; eiS.
  - left. revert H. intros Q; injp Q.
    destruct (class_flags_tr s) as (evs & TE & FE & _).
    exists (rev (leaks (rev (tr (class_flags s)))) ++ evs). cbn [tr set_tr]. rewrite TE, app_assoc. split; [reflexivity|].
    rewrite forallb_app, leaks_pbS. simpl. clear TE. induction FE as [|e l (c & a & -> & _) FE IH]; simpl; auto.
Qed.

(* ------------------------------------------------------------------ *)
(** * Leaving run; where occupied entries come from *)

Lemma run_leave m k0 s pre s' :
  shape (m :: k0) -> handle m s = (pre, s') -> runphase (m :: k0) -> ~ runphase (pre ++ k0) ->
  exists t, m = MLoop t /\ mainq s = [] /\ lazyq s = [].
Proof.
  intros [p [PH _]] E RP NR. destruct (is_work m) eqn:W.
  { exfalso. apply NR. destruct (handle_work _ _ _ _ W E) as [A _]. destruct (work_step_phase m k0 pre W A) as [X _].
    unfold runphase in *. rewrite X. exact RP. }
  unfold runphase, phase_of in RP. simpl in RP. rewrite W in RP.
  destruct m; try discriminate W; simpl in E; simpl in RP.
  - destruct (tops k0); simpl in RP; [discriminate RP | destruct RP].
  - destruct (tops k0); simpl in RP; [discriminate RP | destruct RP].
  - (* MRunIdle *)
    exfalso. apply NR. destruct k0 as [|m1 k1]; [destruct RP|]. destruct m1; try (destruct RP; fail).
    destruct k1 as [|m2 k2]; [destruct RP|]. destruct m2; try (destruct RP; fail).
    destruct ((t =? t0) && tops k2) eqn:TP; [|destruct RP].
    assert (NT : forall w, forallb is_work w = true -> runphase (w ++ MRunMain t :: MLoop t0 :: k2)).
    { intros w Hw. unfold runphase. rewrite phase_of_work; auto. unfold phase_of. simpl. rewrite TP. reflexivity. }
    destruct idle; [destruct (idleq s)|]; inversion E; subst; [apply (NT []) | apply (NT [MRunItem c]) | apply (NT [])]; reflexivity.
  - (* MRunMain *)
    exfalso. apply NR. destruct k0 as [|m1 k1]; [destruct RP|]. destruct m1; try (destruct RP; fail).
    destruct ((t =? t0) && tops k1) eqn:TP; [|destruct RP]. apply andb_prop in TP as [_ TP].
    assert (NT : forall l, runphase (map MRunItem l ++ MLoop t0 :: k1)).
    { intros l. unfold runphase. rewrite phase_of_work by apply work_map_runitem. unfold phase_of. simpl. rewrite TP. reflexivity. }
    destruct (t >? now s); [destruct (fire t (set_now (set_mainq s []) t)) as [fired s2]|]; inversion E; subst; apply NT.
  - (* MLoop *)
    destruct (tops k0) eqn:TP; [|destruct RP].
    assert (NT : forall l, runphase (map MRunItem l ++ MLoop t :: k0)).
    { intros l. unfold runphase. rewrite phase_of_work by apply work_map_runitem. unfold phase_of. simpl. rewrite TP. reflexivity. }
    destruct (mainq s) as [|c l] eqn:MQ; [destruct (lazyq s) as [|c l] eqn:LQ|]; inversion E; subst.
    + exists t. auto.
    + exfalso. apply NR.
      replace ((MRunItem c :: map MRunItem l ++ [MLoop t]) ++ k0) with (map MRunItem (c :: l) ++ MLoop t :: k0)
        by (simpl; rewrite <- app_assoc; reflexivity). apply NT.
    + exfalso. apply NR.
      replace ((MRunItem c :: map MRunItem l ++ [MLoop t]) ++ k0) with (map MRunItem (c :: l) ++ MLoop t :: k0)
        by (simpl; rewrite <- app_assoc; reflexivity). apply NT.
  - destruct (tops k0); simpl in RP; [discriminate RP | destruct RP].
  - destruct (tops k0); simpl in RP; [discriminate RP | destruct RP].
  - destruct (tops k0); simpl in RP; [discriminate RP | destruct RP].
  - destruct (tops k0); simpl in RP; [discriminate RP | destruct RP].
  - destruct (tops k0); simpl in RP; [discriminate RP | destruct RP].
  - destruct (tops k0); simpl in RP; [discriminate RP | destruct RP].
Qed.

Lemma slab_insert_back l nx a l' nx' key i x : slab_insert l nx a = (l', nx', key) ->
  nth_error l' i = Some (SOcc x) -> nth_error l i = Some (SOcc x) \/ (x = a /\ i = N.to_nat key).
Proof.
  unfold slab_insert. destruct (nth_error l (N.to_nat nx)) as [[c0|n]|] eqn:E; intros Q H; inversion Q; subst.
  - destruct (Nat.lt_ge_cases i (length l)) as [LT|GE].
    + rewrite nth_error_app1 in H by exact LT. auto.
    + rewrite nth_error_app2 in H by exact GE. destruct (i - length l)%nat eqn:D; simpl in H; [|destruct n; discriminate H].
      inversion H; subst. right. split; [reflexivity|]. rewrite Nat2N.id. lia.
  - destruct (Nat.eq_dec (N.to_nat key) i) as [<-|NE].
    + rewrite (list_set_nth_same _ _ _ _ E) in H. inversion H; subst. right. auto.
    + rewrite list_set_nth_other in H by exact NE. auto.
  - destruct (Nat.lt_ge_cases i (length l)) as [LT|GE].
    + rewrite nth_error_app1 in H by exact LT. auto.
    + rewrite nth_error_app2 in H by exact GE. destruct (i - length l)%nat eqn:D; simpl in H; [|destruct n; discriminate H].
      inversion H; subst. right. split; [reflexivity|]. rewrite Nat2N.id. lia.
Qed.

Lemma occ_back m s pre s' p key c : handle m s = (pre, s') -> occ s' p key c ->
  occ s p key c \/ (exists h n l, m = MActs (ASlabAdd h c n :: l) /\ aget (actors s) c = None).
Proof.
  intros E O. destruct (occ_cell _ _ _ _ O) as (y' & AY' & NTH).
  destruct (handle_afr _ _ _ _ E) as [F|[(h & a & n & l & -> & SA)|(ci & -> & SR)]].
  - left. specialize (F p). destruct (aget (actors s) p) as [y|] eqn:AY.
    + destruct F as (y2 & AY2 & (_ & [Z|[SS _]])); rewrite AY' in AY2; inversion AY2; subst y2.
      * rewrite Z in NTH. simpl in NTH. destruct (N.to_nat key); discriminate NTH.
      * unfold occ, slab_of. rewrite AY, <- SS. exact NTH.
    + destruct (F y' AY') as [SE _]. rewrite SE in NTH. destruct (N.to_nat key); discriminate NTH.
  - destruct SA as (p1 & px & sh & slab & nx & inner & slab' & nx' & key1 & rid & inn & _ & AP & SP & AB & NE & SI & _ & (ya & AYA & _ & SYA) & (yp & AYP & SYP & _) & OTH).
    destruct (N.eq_dec p a) as [->|NA].
    { rewrite AYA in AY'. inversion AY'; subst y'. rewrite SYA in NTH. simpl in NTH. destruct (N.to_nat key); discriminate NTH. }
    destruct (N.eq_dec p p1) as [->|NP].
    + rewrite AYP in AY'. inversion AY'; subst y'. rewrite SYP in NTH. simpl in NTH.
      destruct (slab_insert_back _ _ _ _ _ _ _ _ SI NTH) as [OLD|[-> _]].
      * left. unfold occ, slab_of. rewrite AP, SP. exact OLD.
      * right. eauto.
    + left. specialize (OTH p NA NP). destruct (aget (actors s) p) as [y|] eqn:AY; [|congruence].
      destruct OTH as (y2 & AY2 & _ & SS). rewrite AY' in AY2. inversion AY2; subst y2. unfold occ, slab_of. rewrite AY, <- SS. exact NTH.
  - left. destruct SR as (p1 & key1 & y & sh & slab & nx & child & _ & AP & SP & NTH1 & _ & ->).
    unfold upd_actor in AY'. cbn [actors set_actors] in AY'. destruct (N.eq_dec p1 p) as [->|NE].
    + rewrite aget_aset_eq in AY'. inversion AY'; subst y'. cbn [a_state with_state slab_st] in NTH.
      destruct (Nat.eq_dec (N.to_nat key1) (N.to_nat key)) as [EQ|NK].
      * rewrite EQ in NTH. rewrite (list_set_nth_same _ _ _ _ (eq_ind _ (fun i => nth_error slab i = _) NTH1 _ EQ)) in NTH. discriminate NTH.
      * rewrite list_set_nth_other in NTH by exact NK. unfold occ, slab_of. rewrite AP, SP. exact NTH.
    + rewrite aget_aset_neq in AY' by auto. unfold occ, slab_of. rewrite AY'. exact NTH.
Qed.

Print Assumptions handle_mqr.
Print Assumptions handle_src2.
Print Assumptions handle_evS.
Print Assumptions occ_back.
