(** Layer R proofs, C18: the deferrer variants ([dkind]) of the runtime machine.

    The state component [dk s] is read by exactly one micro-op, [MNew] ([Core::new]: the global / thread-local
    deferrer drops what the previous instance left in the queue, the inline deferrer's queue died with the
    last Deferrer clone).  This file proves that every handler commutes with a change of [dk] ([handle_dk]),
    except [MNew] when the leftover queue is non-empty.  [DkindSim.v] is the lock-step simulation of the two
    machines up to the end of the first [Stakker::drop]. *)
From Coq Require Import ZArith NArith List Bool Lia.
From Stk Require Import Lib.U Gen.SrcCount Gen.SrcCore Gen.SrcLog R.Syntax R.Rt R.Shape R.Eff R.Mono.
Import ListNotations.
Local Open Scope Z_scope.

(* ------------------------------------------------------------------ *)
(** * Part 1: changing the deferrer kind of a state *)

Definition with_dk (d : dkind) (s : st) : st :=
  mkSt d (alive s) (now s) (start s) (mainq s) (lazyq s) (idleq s) (timers s) (tnext s) (tvars s) (recreate s)
       (actors s) (fwds s) (env s) (frames s) (nuid s) (logseq s) (logfilter s) (haslogger s) (shut s) (tr s).

(* result of a handler, with the state component re-labelled *)
Definition wp {A} (d : dkind) (r : A * st) : A * st := (fst r, with_dk d (snd r)).

Lemma wp_pair {A} d (a : A) s : wp d (a, s) = (a, with_dk d s).
Proof. reflexivity. Qed.

Lemma init_dk d d' : init d = with_dk d (init d').
Proof. reflexivity. Qed.

Lemma with_dk_tr d s : tr (with_dk d s) = tr s.
Proof. reflexivity. Qed.

Section Commute.
Variable d : dkind.

(* observers *)
Lemma dk_alive s : alive (with_dk d s) = alive s. Proof. reflexivity. Qed.
Lemma dk_now s : now (with_dk d s) = now s. Proof. reflexivity. Qed.
Lemma dk_start s : start (with_dk d s) = start s. Proof. reflexivity. Qed.
Lemma dk_mainq s : mainq (with_dk d s) = mainq s. Proof. reflexivity. Qed.
Lemma dk_lazyq s : lazyq (with_dk d s) = lazyq s. Proof. reflexivity. Qed.
Lemma dk_idleq s : idleq (with_dk d s) = idleq s. Proof. reflexivity. Qed.
Lemma dk_timers s : timers (with_dk d s) = timers s. Proof. reflexivity. Qed.
Lemma dk_tnext s : tnext (with_dk d s) = tnext s. Proof. reflexivity. Qed.
Lemma dk_tvars s : tvars (with_dk d s) = tvars s. Proof. reflexivity. Qed.
Lemma dk_recreate s : recreate (with_dk d s) = recreate s. Proof. reflexivity. Qed.
Lemma dk_actors s : actors (with_dk d s) = actors s. Proof. reflexivity. Qed.
Lemma dk_fwds s : fwds (with_dk d s) = fwds s. Proof. reflexivity. Qed.
Lemma dk_env s : env (with_dk d s) = env s. Proof. reflexivity. Qed.
Lemma dk_frames s : frames (with_dk d s) = frames s. Proof. reflexivity. Qed.
Lemma dk_nuid s : nuid (with_dk d s) = nuid s. Proof. reflexivity. Qed.
Lemma dk_logseq s : logseq (with_dk d s) = logseq s. Proof. reflexivity. Qed.
Lemma dk_logfilter s : logfilter (with_dk d s) = logfilter s. Proof. reflexivity. Qed.
Lemma dk_haslogger s : haslogger (with_dk d s) = haslogger s. Proof. reflexivity. Qed.
Lemma dk_shut s : shut (with_dk d s) = shut s. Proof. reflexivity. Qed.
Lemma dk_tr s : tr (with_dk d s) = tr s. Proof. reflexivity. Qed.
Lemma dk_cur_ctx s : cur_ctx (with_dk d s) = cur_ctx s. Proof. reflexivity. Qed.
Lemma dk_has_core s : has_core (with_dk d s) = has_core s. Proof. reflexivity. Qed.
Lemma dk_lookup s h : lookup (with_dk d s) h = lookup s h. Proof. reflexivity. Qed.
Lemma dk_allows s l : allows (with_dk d s) l = allows s l. Proof. reflexivity. Qed.
Lemma dk_ctx_logid s : ctx_logid (with_dk d s) = ctx_logid s. Proof. reflexivity. Qed.
Lemma dk_var_timer s k v : var_timer (with_dk d s) k v = var_timer s k v. Proof. reflexivity. Qed.

(* setters *)
Lemma dk_set_alive s v : set_alive (with_dk d s) v = with_dk d (set_alive s v). Proof. reflexivity. Qed.
Lemma dk_set_now s v : set_now (with_dk d s) v = with_dk d (set_now s v). Proof. reflexivity. Qed.
Lemma dk_set_start s v : set_start (with_dk d s) v = with_dk d (set_start s v). Proof. reflexivity. Qed.
Lemma dk_set_mainq s v : set_mainq (with_dk d s) v = with_dk d (set_mainq s v). Proof. reflexivity. Qed.
Lemma dk_set_lazyq s v : set_lazyq (with_dk d s) v = with_dk d (set_lazyq s v). Proof. reflexivity. Qed.
Lemma dk_set_idleq s v : set_idleq (with_dk d s) v = with_dk d (set_idleq s v). Proof. reflexivity. Qed.
Lemma dk_set_timers s v : set_timers (with_dk d s) v = with_dk d (set_timers s v). Proof. reflexivity. Qed.
Lemma dk_set_tnext s v : set_tnext (with_dk d s) v = with_dk d (set_tnext s v). Proof. reflexivity. Qed.
Lemma dk_set_tvars s v : set_tvars (with_dk d s) v = with_dk d (set_tvars s v). Proof. reflexivity. Qed.
Lemma dk_set_recreate s v : set_recreate (with_dk d s) v = with_dk d (set_recreate s v). Proof. reflexivity. Qed.
Lemma dk_set_actors s v : set_actors (with_dk d s) v = with_dk d (set_actors s v). Proof. reflexivity. Qed.
Lemma dk_set_fwds s v : set_fwds (with_dk d s) v = with_dk d (set_fwds s v). Proof. reflexivity. Qed.
Lemma dk_set_env s v : set_env (with_dk d s) v = with_dk d (set_env s v). Proof. reflexivity. Qed.
Lemma dk_set_frames s v : set_frames (with_dk d s) v = with_dk d (set_frames s v). Proof. reflexivity. Qed.
Lemma dk_set_nuid s v : set_nuid (with_dk d s) v = with_dk d (set_nuid s v). Proof. reflexivity. Qed.
Lemma dk_set_logseq s v : set_logseq (with_dk d s) v = with_dk d (set_logseq s v). Proof. reflexivity. Qed.
Lemma dk_set_logfilter s v : set_logfilter (with_dk d s) v = with_dk d (set_logfilter s v). Proof. reflexivity. Qed.
Lemma dk_set_haslogger s v : set_haslogger (with_dk d s) v = with_dk d (set_haslogger s v). Proof. reflexivity. Qed.
Lemma dk_set_shut s v : set_shut (with_dk d s) v = with_dk d (set_shut s v). Proof. reflexivity. Qed.
Lemma dk_set_tr s v : set_tr (with_dk d s) v = with_dk d (set_tr s v). Proof. reflexivity. Qed.
Lemma dk_emit s e : emit (with_dk d s) e = with_dk d (emit s e). Proof. reflexivity. Qed.
Lemma dk_upd_actor s a x : upd_actor (with_dk d s) a x = with_dk d (upd_actor s a x). Proof. reflexivity. Qed.
Lemma dk_push_main s c : push_main (with_dk d s) c = with_dk d (push_main s c). Proof. reflexivity. Qed.
Lemma dk_push_frame s c l : push_frame (with_dk d s) c l = with_dk d (push_frame s c l). Proof. reflexivity. Qed.
Lemma dk_timer_add s k v t c : timer_add (with_dk d s) k v t c = with_dk d (timer_add s k v t c). Proof. reflexivity. Qed.
Lemma dk_fresh_stakker s t : fresh_stakker (with_dk d s) t = with_dk d (fresh_stakker s t). Proof. reflexivity. Qed.
Lemma dk_emit_opt s o : emit_opt (with_dk d s) o = with_dk d (emit_opt s o). Proof. destruct o; reflexivity. Qed.
Lemma dk_bad s c : bad (with_dk d s) c = wp d (bad s c). Proof. reflexivity. Qed.

Lemma dk_submit s q c : submit (with_dk d s) q c = with_dk d (submit s q c).
Proof. destruct q; reflexivity. Qed.

Lemma dk_log_rec s a b c e : log_rec (with_dk d s) a b c e = with_dk d (log_rec s a b c e).
Proof. unfold log_rec. rewrite dk_allows, dk_haslogger. destruct (allows s b && haslogger s); reflexivity. Qed.

Lemma dk_target_ev s c : target_ev (with_dk d s) c = with_dk d (target_ev s c).
Proof. destruct c as [u i k caps q]; destruct k; reflexivity. Qed.

Lemma dk_ref_clone s a : ref_clone (with_dk d s) a = with_dk d (ref_clone s a).
Proof.
  unfold ref_clone. rewrite dk_actors. destruct (aget (actors s) a) as [x|]; [|reflexivity].
  destruct (a_freed x); reflexivity.
Qed.

Lemma dk_take s h : take (with_dk d s) h = wp d (take s h).
Proof.
  unfold take. rewrite dk_frames, dk_env. destruct (frames s) as [|fr rest].
  - destruct (aget (env s) h); reflexivity.
  - destruct (aget (f_loc fr) h); [reflexivity|]. destruct (aget (env s) h); reflexivity.
Qed.

Lemma dk_take_caps ids : forall s, take_caps ids (with_dk d s) = wp d (take_caps ids s).
Proof.
  induction ids as [|h r IH]; intros s; [reflexivity|]. cbn [take_caps]. rewrite dk_take.
  destruct (take s h) as [[v|] s1]; cbn [wp fst snd]; rewrite IH.
  - destruct (take_caps r s1) as [l s2]. reflexivity.
  - reflexivity.
Qed.

Lemma dk_take_env_caps ids : forall s, take_env_caps ids (with_dk d s) = wp d (take_env_caps ids s).
Proof.
  induction ids as [|h r IH]; intros s; [reflexivity|]. cbn [take_env_caps]. rewrite dk_env.
  destruct (aget (env s) h) as [v|].
  - rewrite dk_set_env, IH. destruct (take_env_caps r (set_env s (adel (env s) h))) as [l s2]. reflexivity.
  - apply IH.
Qed.

Lemma dk_bind s h v : bind (with_dk d s) h v = wp d (bind s h v).
Proof. unfold bind. rewrite dk_env. destruct (aget (env s) h); reflexivity. Qed.

Lemma dk_inst c mk s : inst c mk (with_dk d s) = wp d (inst c mk s).
Proof.
  unfold inst. rewrite dk_take_caps, dk_nuid. destruct (take_caps (clo_caps c) s) as [caps s1]. reflexivity.
Qed.

Lemma dk_inst_call c mk s : inst_call c mk (with_dk d s) = wp d (inst_call c mk s).
Proof.
  unfold inst_call. rewrite dk_inst. destruct (inst c mk s) as [ci s1]. cbn [wp fst snd].
  rewrite dk_target_ev. reflexivity.
Qed.

Lemma dk_inst_nocaps c mk s : inst_nocaps c mk (with_dk d s) = wp d (inst_nocaps c mk s).
Proof. reflexivity. Qed.

Lemma dk_inst_env c mk s : inst_env c mk (with_dk d s) = wp d (inst_env c mk s).
Proof.
  unfold inst_env. rewrite dk_take_env_caps. destruct (take_env_caps (clo_caps c) s) as [caps s1]. reflexivity.
Qed.

Lemma dk_tok_script script : forall s, tok_script (with_dk d s) script = with_dk d (tok_script s script).
Proof.
  unfold tok_script. induction script as [|c r IH]; intros s; [reflexivity|]. cbn [fold_left].
  rewrite dk_inst_env. destruct (inst_env c KPlain s) as [ci s1]. cbn [wp fst snd].
  rewrite dk_submit. apply IH.
Qed.

Lemma dk_state_drops a sa s : state_drops a sa (with_dk d s) = wp d (state_drops a sa s).
Proof. destruct sa; reflexivity. Qed.

Lemma dk_new_actor s a nt parent vis :
  new_actor (with_dk d s) a nt parent vis = with_dk d (new_actor s a nt parent vis).
Proof.
  unfold new_actor. rewrite dk_logseq, dk_set_logseq, dk_log_rec, dk_upd_actor, dk_emit.
  destruct vis; reflexivity.
Qed.

Lemma dk_mk_notifier s a n : mk_notifier (with_dk d s) a n = wp d (mk_notifier s a n).
Proof.
  unfold mk_notifier. destruct n as [[hp c]|]; [|reflexivity]. rewrite dk_lookup.
  destruct (lookup s hp) as [v|]; [|reflexivity]. destruct (handle_actor v) as [p|]; [|reflexivity].
  rewrite dk_ref_clone, dk_inst_call. destruct (inst_call c _ (ref_clone s p)) as [ci s2]. reflexivity.
Qed.

Lemma dk_fold_emit_opt (f : N * actor -> option ev) l : forall s,
  fold_left (fun s0 p => emit_opt s0 (f p)) l (with_dk d s) = with_dk d (fold_left (fun s0 p => emit_opt s0 (f p)) l s).
Proof.
  induction l as [|p l IH]; intros s; [reflexivity|]. cbn [fold_left]. rewrite dk_emit_opt. apply IH.
Qed.

Lemma dk_class_flags s : class_flags (with_dk d s) = with_dk d (class_flags s).
Proof. unfold class_flags. rewrite dk_actors. apply dk_fold_emit_opt. Qed.

End Commute.

#[export] Hint Rewrite dk_alive dk_now dk_start dk_mainq dk_lazyq dk_idleq dk_timers dk_tnext dk_tvars dk_recreate dk_actors dk_fwds dk_env dk_frames dk_nuid dk_logseq dk_logfilter dk_haslogger dk_shut dk_tr dk_cur_ctx dk_has_core dk_lookup dk_allows dk_ctx_logid dk_var_timer dk_set_alive dk_set_now dk_set_start dk_set_mainq dk_set_lazyq dk_set_idleq dk_set_timers dk_set_tnext dk_set_tvars dk_set_recreate dk_set_actors dk_set_fwds dk_set_env dk_set_frames dk_set_nuid dk_set_logseq dk_set_logfilter dk_set_haslogger dk_set_shut dk_set_tr dk_emit dk_upd_actor dk_push_main dk_push_frame dk_timer_add dk_fresh_stakker dk_emit_opt dk_bad dk_submit dk_log_rec dk_target_ev dk_ref_clone dk_take dk_take_caps dk_take_env_caps dk_bind dk_inst dk_inst_call dk_inst_nocaps dk_inst_env dk_tok_script dk_state_drops dk_new_actor dk_mk_notifier dk_fold_emit_opt dk_class_flags : dk.


(* ------------------------------------------------------------------ *)
(** * The handlers commute with a change of the deferrer kind *)

Ltac dk_wp := match goal with |- context [wp _ ?x] => destruct x eqn:?; rewrite ?wp_pair end.
Ltac dk_auto :=
  unfold wp at 1; autorewrite with dk;
  repeat (first [dk_wp | dest_match]; cbn [fst snd]; autorewrite with dk); try reflexivity.

Lemma dk_do_act d a s : do_act a (with_dk d s) = wp d (do_act a s).
Proof. unfold do_act. destruct a; dk_auto. Qed.

Lemma dk_run_item d c s : run_item c (with_dk d s) = wp d (run_item c s).
Proof. unfold run_item. destruct c as [u i k caps q]; destruct k; dk_auto. Qed.

Lemma dk_drop_item d c s : drop_item c (with_dk d s) = wp d (drop_item c s).
Proof. unfold drop_item. destruct c as [u i k caps q]; destruct k; dk_auto. Qed.

Lemma dk_ret_invoke d r m s : ret_invoke r m (with_dk d s) = wp d (ret_invoke r m s).
Proof. unfold ret_invoke. destruct r as [rid k]; destruct k; dk_auto. Qed.

Lemma dk_terminate d a c s : terminate a c (with_dk d s) = wp d (terminate a c s).
Proof.
  unfold terminate. rewrite dk_actors. destruct (aget (actors s) a) as [x|]; [|reflexivity].
  destruct (a_freed x) eqn:F; cbn iota; dk_auto.
Qed.

Lemma dk_drop_own d a b s : drop_own a b (with_dk d s) = wp d (drop_own a b s).
Proof. unfold drop_own. destruct b; dk_auto. Qed.

Lemma dk_drop_ref d a s : drop_ref a (with_dk d s) = wp d (drop_ref a s).
Proof. unfold drop_ref. dk_auto. Qed.

Lemma dk_drop_val d v s : drop_val v (with_dk d s) = wp d (drop_val v s).
Proof. unfold drop_val. destruct v; dk_auto. Qed.

Lemma dk_fire d t s : fire t (with_dk d s) = wp d (fire t s).
Proof. unfold fire. dk_auto. Qed.

Lemma dk_do_top d o s : do_top o (with_dk d s) = wp d (do_top o s).
Proof. unfold do_top. destruct o; dk_auto. Qed.

#[export] Hint Rewrite dk_do_act dk_run_item dk_drop_item dk_ret_invoke dk_terminate dk_drop_own dk_drop_ref
  dk_drop_val dk_fire dk_do_top : dk.

(** The only micro-op that reads [dk s]: [MNew], and only when the previous instance left something queued. *)
Definition new_clean (m : mop) (s : st) : bool :=
  match m with MNew _ => is_nil (mainq s) | _ => true end.

Theorem handle_dk d m s : new_clean m s = true -> handle m (with_dk d s) = wp d (handle m s).
Proof.
  intros C. destruct m; cbn [handle]; try solve [dk_auto].
  (* MNew *)
  cbn [new_clean] in C. destruct (mainq s) eqn:M; [|discriminate C].
  unfold wp. cbn [fst snd]. autorewrite with dk. rewrite M.
  destruct d, (dk s); reflexivity.
Qed.

(* whatever the queue holds, [MNew] emits the same events under both variants *)
Lemma handle_dk_tr d m s : tr (snd (handle m (with_dk d s))) = tr (snd (handle m s)).
Proof.
  destruct (new_clean m s) eqn:C.
  - rewrite handle_dk by exact C. reflexivity.
  - destruct m; try discriminate C. reflexivity.
Qed.
