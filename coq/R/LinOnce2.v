(** Layer R proofs: C16 at-most-once for Fwd closures and orphaned values (tokens: LinTok*.v). *)
From Coq Require Import ZArith NArith List Bool Lia.
From Stk Require Import Lib.U Gen.SrcCount Gen.SrcCore Gen.SrcLog R.Syntax R.Rt R.Mon R.Shape R.Eff R.C15Proofs.
From Stk Require Import R.Lin R.LinEvs R.LinNin R.LinDel R.C16Proofs R.Own R.LinRef R.LinRefLaw R.LinRefStep R.LinRefInv R.LinUaf R.LinOnce.
Import ListNotations.
Local Open Scope Z_scope.

Lemma handle_N3 m s pre s' : handle m s = (pre, s') ->
  match m with MActs _ | MDropVal _ | MOrphNew _ | MOrphDrop _ | MEndBody _ _ => False | _ => True end -> neutral3 s pre s'.
Proof.
  intros H SP. unfold neutral3. revert H. destruct m; try contradiction; cbn [handle].
  - unfold do_top. destruct o; repeat dest_match; passN.
  - destruct (frames s); passN.
  - unfold run_item. destruct c as [u i kd caps q]. destruct kd; repeat dest_match; passN.
  - unfold drop_item. destruct c as [u i kd caps q]. destruct kd; passN.
  - passN.
  - unfold drop_own. destruct logged; repeat dest_match; passN.
  - unfold drop_ref. destruct (aget (actors s) a) as [y|]; [|passN]. destruct (a_freed y); [passN|].
    destruct (minrc_drop (a_rc y)) as [[v z]|]; [|passN]. destruct z; [|passN].
    destruct (state_drops a (a_state y) _) as [dl s2] eqn:SD. destruct (Own.state_drops_h (Own.HR a) _ _ _ _ _ SD) as [-> _].
    intros Q; inj_R Q. split; [ei_tac | split; [fw_tac|]]. rewrite isO_app.
    assert (D0 : existsb isO dl = false).
    { revert SD. unfold state_drops. destruct (a_state y); intros Q; inversion Q; subst; simpl; rewrite ?isO_app, ?isO_drops, ?isO_slab_drops, ?isO_dropitems; reflexivity. }
    rewrite D0. destruct (a_notify y); reflexivity.
  - unfold ret_invoke. destruct r as [rid k]. destruct k; repeat dest_match; passN.
  - passN.
  - passN.
  - unfold terminate. destruct (aget (actors s) a) as [y|]; [|passN].
    destruct (state_drops a (a_state y) _) as [dl s2] eqn:SD. destruct (Own.state_drops_h (Own.HR a) _ _ _ _ _ SD) as [-> _].
    assert (D0 : existsb isO dl = false).
    { revert SD. unfold state_drops. destruct (a_state y); intros Q; inversion Q; subst; simpl; rewrite ?isO_app, ?isO_drops, ?isO_slab_drops, ?isO_dropitems; reflexivity. }
    destruct (a_notify y); intros Q; inj_R Q; (split; [ei_tac | split; [fw_tac | rewrite ?isO_app, D0; reflexivity]]).
  - destruct (aget (actors s) a); passN.
  - destruct (aget (actors s) a) as [y|]; [destruct (a_state y)|]; passN.
  - unfold fresh_stakker. passN.
  - destruct idle; [destruct (idleq s)|]; passN.
  - destruct (t >? now (set_mainq s [])).
    + destruct (fire t _) as [fired s2] eqn:FI. unfold fire in FI. injection FI as ? ?; subst. destruct (ambiguous _); passN.
    + passN.
  - repeat dest_match; passN.
  - repeat dest_match; passN.
  - cbv zeta. destruct (ambiguous (timers s)); passN.
  - repeat dest_match; passN.
  - repeat dest_match; passN.
  - passN.
  - (* MLeaks *) intros Q; inj_R Q. split; [|split; [|reflexivity]].
    + assert (FU : forall p e, class_flag (actors s) p = Some e -> pbO3 e = true) by (intros p e CF; destruct (class_flag_model' _ _ _ CF) as (c & a & ->); reflexivity).
      destruct (fold_flags_P pbO3 (class_flag (actors s)) FU (actors s) s) as (fl & TR1 & PF). fold (class_flags s) in TR1.
      exists (rev (leaks (rev (tr (class_flags s)))) ++ fl). split.
      * change (tr (set_tr ?x ?v)) with v. rewrite TR1 at 2. rewrite app_assoc. reflexivity.
      * rewrite forallb_app, PF, andb_true_r.
        apply forallb_forall. intros e IN. apply in_rev in IN. unfold leaks in IN. apply in_map_iff in IN as (p & <- & _). reflexivity.
    + change (fwds (set_tr ?x ?v)) with (fwds x). unfold class_flags. generalize (class_flag (actors s)). intros f. generalize (actors s) as l. intros l.
      revert s. induction l as [|p l IH]; simpl; intros s; auto. rewrite IH. unfold emit_opt. destruct (f p); reflexivity.
Qed.
