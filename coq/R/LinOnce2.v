(** Layer R proofs: C16 at-most-once for Fwd closures and orphaned values (tokens: LinTok*.v). *)
From Coq Require Import ZArith NArith List Bool Lia.
From Stk Require Import Lib.U Gen.SrcCount Gen.SrcCore Gen.SrcLog R.Syntax R.Rt R.Mon R.Shape R.Eff R.C15Proofs.
From Stk Require Import R.Lin R.LinEvs R.LinNin R.LinDel R.C16Proofs R.Own R.LinRef R.LinRefLaw R.LinRefStep R.LinRefInv R.LinUaf R.LinOnce R.LinC03S.
Import ListNotations.
Local Open Scope Z_scope.

Lemma handle_N3 m s pre s' : handle m s = (pre, s') ->
  match m with MActs _ | MDropVal _ | MOrphNew _ | MOrphDrop _ | MEndBody _ _ => False | _ => True end -> neutral3 s pre s'.
Proof.
  intros H SP. unfold neutral3. revert H. destruct m; try contradiction; cbn [handle].
  - unfold do_top. destruct o; repeat dest_match; passN.
  - destruct (frames s); passN.
  - unfold run_item. destruct c as [u i kd caps q]. destruct kd; repeat dest_match; passN.
  - unfold drop_item. destruct c as [u i kd caps q]. destruct kd; passN.
  - passN.
  - unfold drop_own. destruct logged; repeat dest_match; passN.
  - unfold drop_ref. destruct (aget (actors s) a) as [y|]; [|passN]. destruct (a_freed y); [passN|].
    destruct (minrc_drop (a_rc y)) as [[v z]|]; [|passN]. destruct z; [|passN].
    destruct (state_drops a (a_state y) _) as [dl s2] eqn:SD. destruct (Own.state_drops_h (Own.HR a) _ _ _ _ _ SD) as [-> _].
    intros Q; inj_R Q. split; [ei_tac | split; [fw_tac|]]. rewrite isO_app.
    assert (D0 : existsb isO dl = false).
    { revert SD. unfold state_drops. destruct (a_state y); intros Q; inversion Q; subst; simpl; rewrite ?isO_app, ?isO_drops, ?isO_slab_drops, ?isO_dropitems; reflexivity. }
    rewrite D0. destruct (a_notify y); reflexivity.
  - unfold ret_invoke. destruct r as [rid k]. destruct k; repeat dest_match; passN.
  - passN.
  - passN.
  - unfold terminate. destruct (aget (actors s) a) as [y|]; [|passN].
    destruct (state_drops a (a_state y) _) as [dl s2] eqn:SD. destruct (Own.state_drops_h (Own.HR a) _ _ _ _ _ SD) as [-> _].
    assert (D0 : existsb isO dl = false).
    { revert SD. unfold state_drops. destruct (a_state y); intros Q; inversion Q; subst; simpl; rewrite ?isO_app, ?isO_drops, ?isO_slab_drops, ?isO_dropitems; reflexivity. }
    destruct (a_notify y); intros Q; inj_R Q; (split; [ei_tac | split; [fw_tac | rewrite ?isO_app, D0; reflexivity]]).
  - destruct (aget (actors s) a); passN.
  - destruct (aget (actors s) a) as [y|]; [destruct (a_state y)|]; passN.
  - unfold fresh_stakker. passN.
  - destruct idle; [destruct (idleq s)|]; passN.
  - destruct (t >? now (set_mainq s [])).
    + destruct (fire t _) as [fired s2] eqn:FI. unfold fire in FI. injection FI as ? ?; subst. destruct (ambiguous _); passN.
    + passN.
  - repeat dest_match; passN.
  - repeat dest_match; passN.
  - cbv zeta. destruct (ambiguous (timers s)); passN.
  - repeat dest_match; passN.
  - repeat dest_match; passN.
  - passN.
  - (* MLeaks *) intros Q; inj_R Q. split; [|split; [|reflexivity]].
    + assert (FU : forall p e, class_flag (actors s) p = Some e -> pbO3 e = true) by (intros p e CF; destruct (class_flag_model' _ _ _ CF) as (c & a & ->); reflexivity).
      destruct (fold_flags_P pbO3 (class_flag (actors s)) FU (actors s) s) as (fl & TR1 & PF). fold (class_flags s) in TR1.
      exists (rev (leaks (rev (tr (class_flags s)))) ++ fl). split.
      * change (tr (set_tr ?x ?v)) with v. rewrite TR1 at 2. rewrite app_assoc. reflexivity.
      * rewrite forallb_app, PF, andb_true_r.
        apply forallb_forall. intros e IN. apply in_rev in IN. unfold leaks in IN. apply in_map_iff in IN as (p & <- & _). reflexivity.
    + change (fwds (set_tr ?x ?v)) with (fwds x). unfold class_flags. generalize (class_flag (actors s)). intros f. generalize (actors s) as l. intros l.
      revert s. induction l as [|p l IH]; simpl; intros s; auto. rewrite IH. unfold emit_opt. destruct (f p); reflexivity.
Qed.

(* ------------------------------------------------------------------ *)
(** * Orphaned values: MOrphNew a; MTerminate a c; MOrphDrop a travel together *)

Fixpoint norph (a : N) (k : list mop) : Z :=
  match k with [] => 0 | MOrphNew b :: r => (if N.eqb a b then 1 else 0) + norph a r | _ :: r => norph a r end.
Fixpoint dorph (a : N) (k : list mop) : Z :=
  match k with [] => 0 | MOrphDrop b :: r => (if N.eqb a b then 1 else 0) + dorph a r | _ :: r => dorph a r end.

Lemma norph_app a x y : norph a (x ++ y) = norph a x + norph a y.
Proof. induction x as [|m x IH]; simpl; [lia|]. destruct m; try exact IH. lia. Qed.
Lemma dorph_app a x y : dorph a (x ++ y) = dorph a x + dorph a y.
Proof. induction x as [|m x IH]; simpl; [lia|]. destruct m; try exact IH. lia. Qed.
Lemma norph_noO a l : existsb isO l = false -> norph a l = 0.
Proof. induction l as [|m l IH]; simpl; auto. intros H. apply orb_false_elim in H as [H1 H2]. destruct m; try discriminate H1; auto. Qed.
Lemma dorph_noO a l : existsb isO l = false -> dorph a l = 0.
Proof. induction l as [|m l IH]; simpl; auto. intros H. apply orb_false_elim in H as [H1 H2]. destruct m; try discriminate H1; auto. Qed.
Lemma dorph_nn a l : 0 <= dorph a l.
Proof. induction l as [|m l IH]; simpl; [lia|]. destruct m; try exact IH. destruct (N.eqb a a0); lia. Qed.

Definition OK3 (k : list mop) : Prop :=
  forall w a rest, k = w ++ MOrphNew a :: rest -> exists c r', rest = MTerminate a c :: MOrphDrop a :: r'.

Lemma OK3_tail m k : OK3 (m :: k) -> OK3 k.
Proof. intros O w a rest E. apply (O (m :: w) a rest). rewrite E. reflexivity. Qed.

Lemma OK3_le a : forall k, OK3 k -> norph a k <= dorph a k.
Proof.
  intros k. remember (length k) as n eqn:LN. revert k LN. induction n as [n IH] using (well_founded_induction Wf_nat.lt_wf). intros k LN O.
  destruct k as [|m k]; [simpl; lia|]. pose proof (OK3_tail _ _ O) as O1.
  assert (R1 : norph a k <= dorph a k) by (apply (IH (length k)); [subst; simpl; lia | reflexivity | exact O1]).
  destruct m; simpl; try exact R1.
  - (* MOrphNew a0 *)
    destruct (O [] a0 k eq_refl) as (c & r' & ->).
    assert (R2 : norph a r' <= dorph a r').
    { apply (IH (length r')); [subst; simpl; lia | reflexivity|]. apply OK3_tail in O1. apply OK3_tail in O1. exact O1. }
    simpl. destruct (N.eqb a a0); lia.
  - destruct (N.eqb a a0); lia.
Qed.

Lemma OK3_pre pre k0 : existsb isO pre = false -> OK3 k0 -> OK3 (pre ++ k0).
Proof.
  intros NE O w a rest E. apply app_split in E as [(w0 & K0 & _)|(p2 & KP & _)].
  - eapply O; eauto.
  - exfalso. assert (IN : In (MOrphNew a) pre) by (rewrite KP; apply in_or_app; right; left; reflexivity).
    assert (existsb isO pre = true) by (apply existsb_exists; exists (MOrphNew a); auto). congruence.
Qed.

Definition orphp (a : N) : N * N := (LK_ORPH, a).

Record QO (k : list mop) (s : st) : Prop := mkQO {
  qo_ok : OK3 k;
  qo_le : forall a, dorph a k - norph a k + pkT (orphp a) (tr s) <= pcT (orphp a) (tr s) }.

Lemma K3_orph a : K3 (fst (orphp a)) = true. Proof. reflexivity. Qed.

Lemma end_tail_orph f die :
  existsb isO (end_tail f die) = false \/
  (exists b c, end_tail f die = [MOrphNew b; MTerminate b c; MOrphDrop b]).
Proof. destruct f as [|b|b ready]; simpl; auto. destruct die as [c|]; auto. destruct die as [c|]; destruct ready; simpl; eauto. Qed.

Definition pbOr (e : ev) : bool := match e with EOrphNew _ | EOrphDrop _ => false | _ => true end.

Lemma pbOr_block a evs : forallb pbOr evs = true -> pcT (orphp a) evs = 0 /\ pkT (orphp a) evs = 0.
Proof.
  induction evs as [|e l IH]; simpl; [auto|]. intros H. apply andb_prop in H as [H1 H2]. destruct (IH H2) as [C D].
  assert (Z1 : pc1 (orphp a) e = 0 /\ pk1 (orphp a) e = 0) by (destruct e; try discriminate H1; split; reflexivity). lia.
Qed.

Lemma evs_O3_Or s s' : evs_in pbO3 s s' -> evs_in pbOr s s'.
Proof.
  intros (evs & TR & PB). exists evs. split; auto. apply forallb_forall. intros e IN. rewrite forallb_forall in PB. specialize (PB e IN).
  destruct e; try reflexivity; discriminate PB.
Qed.

Ltac passOr := intros Q; inj_R Q; (split; [ei_tac | isO_tac]).

Lemma do_act_Or a s pre s' : do_act a s = (pre, s') -> evs_in pbOr s s' /\ existsb isO pre = false.
Proof.
  intros H.
  assert (SPEC : match a with ANewTok _ _ _ | ANewFwd _ _ _ | AClone _ _ | AFwdSend _ _ => False | _ => True end \/
                 match a with ANewTok _ _ _ | ANewFwd _ _ _ | AClone _ _ | AFwdSend _ _ => True | _ => False end) by (destruct a; auto).
  destruct SPEC as [SP|SP].
  - destruct (do_act_N3 _ _ _ _ H SP) as (A & _ & C). split; [apply evs_O3_Or; exact A | exact C].
  - revert H. unfold do_act. destruct a; try contradiction; repeat dest_match; passOr.
Qed.

Lemma drop_val_Or v s pre s' : drop_val v s = (pre, s') -> evs_in pbOr s s' /\ existsb isO pre = false.
Proof. unfold drop_val. destruct v; repeat dest_match; passOr. Qed.

Theorem step_QO k s k' s' : QO k s -> step k s = Some (k', s') -> QO k' s'.
Proof.
  intros [O L] ST. destruct k as [|m k0]; [discriminate|]. simpl in ST. destruct (handle m s) as [pre s1] eqn:HD. inversion ST; subst k' s1; clear ST.
  pose proof (OK3_tail _ _ O) as O0.
  assert (NEUT : evs_in pbOr s s' -> existsb isO pre = false -> isO m = false -> QO (pre ++ k0) s').
  { intros (evs & TR & PB) NE NM. split; [apply OK3_pre; auto|]. intros a. specialize (L a).
    destruct (pbOr_block a evs PB) as [C D]. rewrite TR, pkT_app, pcT_app, C, D, norph_app, dorph_app, (norph_noO a pre NE), (dorph_noO a pre NE).
    destruct m; try discriminate NM; simpl in L; lia. }
  assert (SPEC : match m with MActs _ | MDropVal _ | MOrphNew _ | MOrphDrop _ | MEndBody _ _ => False | _ => True end \/
                 match m with MActs _ | MDropVal _ | MOrphNew _ | MOrphDrop _ | MEndBody _ _ => True | _ => False end) by (destruct m; auto).
  destruct SPEC as [SP|SP].
  { destruct (handle_N3 _ _ _ _ HD SP) as (A & _ & C). apply NEUT; [apply evs_O3_Or; exact A | exact C | destruct m; try reflexivity; contradiction]. }
  destruct m; try contradiction.
  - (* MActs *) cbn [handle] in HD. destruct l as [|a l]; [inversion HD; subst; apply NEUT; [apply ei_refl | reflexivity | reflexivity]|].
    destruct (do_act a s) as [p s1] eqn:DA. inversion HD; subst pre s'. destruct (do_act_Or _ _ _ _ DA) as [G1 G2].
    apply NEUT; [exact G1 | rewrite isO_app, G2; reflexivity | reflexivity].
  - (* MEndBody *) cbn [handle] in HD. destruct (frames s) as [|fr rest0].
    + inversion HD; subst. apply NEUT; [ei_tac | reflexivity | reflexivity].
    + fold (end_tail f (f_die fr)) in HD. inversion HD; subst pre s'.
      destruct (end_tail_orph f (f_die fr)) as [NE|(b & c & ET)].
      * apply NEUT; [ei_tac | rewrite isO_app, isO_drops, NE; reflexivity | reflexivity].
      * rewrite ET. split.
        -- intros w a rest E. rewrite <- app_assoc in E. apply app_split in E as [(w0 & K0 & _)|(p2 & KP & _)].
           ++ simpl in K0. destruct w0 as [|y w0]; simpl in K0; inversion K0; subst; [eauto|].
              destruct w0 as [|y2 w0]; simpl in H1; inversion H1; subst.
              destruct w0 as [|y3 w0]; simpl in H2; inversion H2; subst. eapply O0; eauto.
           ++ exfalso. assert (IN : In (MOrphNew a) (drops (f_loc fr))) by (rewrite KP; apply in_or_app; right; left; reflexivity).
              assert (existsb isO (drops (f_loc fr)) = true) by (apply existsb_exists; exists (MOrphNew a); auto). rewrite isO_drops in H. discriminate.
        -- intros a. specialize (L a). change (tr (set_frames (emit s (EEnd uid)) rest0)) with (EEnd uid :: tr s). cbn [pkT pcT].
           rewrite !norph_app, !dorph_app, (norph_noO a _ (isO_drops _)), (dorph_noO a _ (isO_drops _)). simpl in L |- *.
           unfold pk1, pc1. simpl. destruct (N.eqb a b); lia.
  - (* MDropVal *) cbn [handle] in HD. destruct (drop_val_Or _ _ _ _ HD) as [G1 G2]. apply NEUT; auto.
  - (* MOrphNew *) cbn [handle] in HD. inversion HD; subst pre s'. split; [exact O0|]. intros b. specialize (L b).
    change (tr (emit s (EOrphNew a))) with (EOrphNew a :: tr s). cbn [pkT pcT app]. unfold pk1, pc1, orphp, p_eqb in *. simpl in L |- *.
    destruct (N.eqb b a); lia.
  - (* MOrphDrop *) cbn [handle] in HD. inversion HD; subst pre s'. split; [exact O0|]. intros b. specialize (L b).
    change (tr (emit s (EOrphDrop a))) with (EOrphDrop a :: tr s). cbn [pkT pcT app]. unfold pk1, pc1, orphp, p_eqb in *. simpl in L |- *.
    destruct (N.eqb b a); lia.
Qed.

Lemma QO_init d p : QO (map MTop p ++ [MEpilogue]) (init d).
Proof.
  assert (NO : existsb isO (map MTop p ++ [MEpilogue]) = false) by (rewrite isO_app; induction p; simpl; auto).
  split.
  - intros w a rest E. exfalso. assert (IN : In (MOrphNew a) (map MTop p ++ [MEpilogue])) by (rewrite E; apply in_or_app; right; left; reflexivity).
    assert (existsb isO (map MTop p ++ [MEpilogue]) = true) by (apply existsb_exists; exists (MOrphNew a); auto). congruence.
  - intros a. rewrite (norph_noO a _ NO), (dorph_noO a _ NO). destruct d; simpl; lia.
Qed.

Lemma QO_bal k s a : QO k s -> pkT (orphp a) (tr s) <= pcT (orphp a) (tr s).
Proof. intros [O L]. specialize (L a). pose proof (OK3_le a k O). lia. Qed.

(* ------------------------------------------------------------------ *)
(** * Fwd closures: created with count 1, freed when the count drops to 0, never revived *)

Definition fzo (o : fwdobj) : Z := match o with FwdObj rc (FClos _) _ => if 0 <? rc then 1 else 0 | _ => 0 end.
Definition fz (f : N) (s : st) : Z := match aget (fwds s) f with Some o => fzo o | None => 0 end.
Definition fwdp (f : N) : N * N := (LK_FWD, f).

Definition QF (s : st) : Prop := forall f, fz f s + pkT (fwdp f) (tr s) <= pcT (fwdp f) (tr s).

Definition pbFw (e : ev) : bool := match e with EFwdNew _ | EFwdFree _ => false | _ => true end.

Lemma pbFw_block f evs : forallb pbFw evs = true -> pcT (fwdp f) evs = 0 /\ pkT (fwdp f) evs = 0.
Proof.
  induction evs as [|e l IH]; simpl; [auto|]. intros H. apply andb_prop in H as [H1 H2]. destruct (IH H2) as [C D].
  assert (Z1 : pc1 (fwdp f) e = 0 /\ pk1 (fwdp f) e = 0) by (destruct e; try discriminate H1; split; reflexivity). lia.
Qed.

Lemma evs_O3_Fw s s' : evs_in pbO3 s s' -> evs_in pbFw s s'.
Proof.
  intros (evs & TR & PB). exists evs. split; auto. apply forallb_forall. intros e IN. rewrite forallb_forall in PB. specialize (PB e IN).
  destruct e; try reflexivity; discriminate PB.
Qed.

Lemma QF_neutral s s' : evs_in pbFw s s' -> fwds s' = fwds s -> QF s -> QF s'.
Proof.
  intros (evs & TR & PB) FW Q f. specialize (Q f). destruct (pbFw_block f evs PB) as [C D].
  unfold fz in *. rewrite FW, TR, pkT_app, pcT_app, C, D. lia.
Qed.

Lemma QF_neutral' s s' : evs_in pbFw s s' /\ fwds s' = fwds s -> QF s -> QF s'.
Proof. intros [A B]. apply QF_neutral; auto. Qed.

Lemma fz_aset g s f o s1 : fwds s1 = aset (fwds s) f o -> fz g s1 = if N.eqb g f then fzo o else fz g s.
Proof.
  intros E. unfold fz. rewrite E. destruct (N.eqb g f) eqn:Q.
  - apply N.eqb_eq in Q. subst g. rewrite Own.aget_aset_eq. reflexivity.
  - rewrite Own.aget_aset_neq; [reflexivity|]. intros ->. rewrite N.eqb_refl in Q. discriminate.
Qed.

Ltac passFw := intros Q; inj_R Q; (split; [ei_tac | fw_tac]).

Lemma QF_upd s s' f o : evs_in pbFw s s' -> fwds s' = aset (fwds s) f o -> fzo o <= fz f s -> QF s -> QF s'.
Proof.
  intros (evs & TR & PB) FW LE Q g. specialize (Q g). destruct (pbFw_block g evs PB) as [C D].
  rewrite (fz_aset g s f o s' FW), TR, pkT_app, pcT_app, C, D. destruct (N.eqb g f) eqn:E; [apply N.eqb_eq in E; subst g|]; lia.
Qed.

Lemma clone_fzo rc k tg : 1 <= rc -> fzo (FwdObj (oz (minrc_clone rc)) k tg) = fzo (FwdObj rc k tg).
Proof.
  intros R. unfold fzo, minrc_clone. cbn [oz]. destruct k; [|reflexivity].
  destruct (Z.ltb_spec 0 (Z.min (rc + 1) 18446744073709551615)); destruct (Z.ltb_spec 0 rc); lia.
Qed.

Lemma do_act_QF a s pre s' : PJ (fun _ => 0) s -> do_act a s = (pre, s') -> QF s -> QF s'.
Proof.
  intros P H QQ.
  assert (SPEC : match a with ANewTok _ _ _ | ANewFwd _ _ _ | AClone _ _ | AFwdSend _ _ => False | _ => True end \/
                 match a with ANewTok _ _ _ | ANewFwd _ _ _ | AClone _ _ | AFwdSend _ _ => True | _ => False end) by (destruct a; auto).
  destruct SPEC as [SP|SP].
  { destruct (do_act_N3 _ _ _ _ H SP) as (A & B & _). eapply QF_neutral; eauto. apply evs_O3_Fw. exact A. }
  revert H. unfold do_act. destruct a; try contradiction.
  - (* AClone *)
    destruct (lookup s h) as [[a|a|a|r|f|t sc]|] eqn:L; try (intros Q0; apply (QF_neutral' s); [|exact QQ]; revert Q0; passFw; fail).
    destruct (aget (fwds s) f) as [[rc k tg]|] eqn:F; [|intros Q0; apply (QF_neutral' s); [|exact QQ]; revert Q0; passFw].
    destruct (fwd_live s f h P L _ _ _ F) as [RC1 RC2]. intros Q0.
    apply (QF_upd s s' f (FwdObj (oz (minrc_clone rc)) k tg)); [| | |exact QQ].
    + eapply ei_bind; [|exact Q0]. apply (ei_same _ _ s); [apply ei_refl | reflexivity].
    + rewrite (fwds_bind _ _ _ _ _ Q0). reflexivity.
    + rewrite clone_fzo by lia. unfold fz. rewrite F. lia.
  - (* ANewFwd *)
    destruct (aget (fwds s) f) as [o|] eqn:F; [intros Q0; apply (QF_neutral' s); [|exact QQ]; revert Q0; passFw|].
    destruct k as [body|ht c].
    + intros Q0 g. specialize (QQ g).
      assert (TR : tr s' = EFwdNew f :: tr s).
      { destruct (ei_bind (fun _ => true) _ _ _ _ _ _ (ei_refl _ _) Q0) as (evs & TR & _). revert Q0. unfold bind.
        destruct (aget (env _) h); intros Q0; inversion Q0; reflexivity. }
      assert (FW : fwds s' = aset (fwds s) f (FwdObj MINRC_INIT (FClos body) None)) by (rewrite (fwds_bind _ _ _ _ _ Q0); reflexivity).
      rewrite (fz_aset g s f _ s' FW), TR. cbn [pkT pcT]. unfold pk1, pc1, fwdp, p_eqb in *. simpl.
      destruct (N.eqb g f) eqn:E; [apply N.eqb_eq in E; subst g; unfold fz in QQ; rewrite F in QQ|]; lia.
    + destruct (lookup s ht) as [v|]; [|intros Q0; apply (QF_neutral' s); [|exact QQ]; revert Q0; passFw].
      destruct (handle_actor v) as [a|]; [|intros Q0; apply (QF_neutral' s); [|exact QQ]; revert Q0; passFw].
      intros Q0. apply (QF_upd s s' f (FwdObj MINRC_INIT (FTo ht c) (Some a))); [| | |exact QQ].
      * eapply ei_bind; [|exact Q0]. apply (ei_same _ _ (ref_clone s a)); [|reflexivity]. apply ei_ref_clone; [intros; reflexivity | apply ei_refl].
      * rewrite (fwds_bind _ _ _ _ _ Q0). cbn [fwds set_fwds]. rewrite fwds_ref_clone. reflexivity.
      * unfold fz. rewrite F. simpl. lia.
  - (* AFwdSend *)
    destruct (lookup s h) as [[a|a|a|r|f|t sc]|] eqn:L; try (intros Q0; apply (QF_neutral' s); [|exact QQ]; revert Q0; passFw; fail).
    destruct (aget (fwds s) f) as [[rc k tg]|] eqn:F; [|intros Q0; apply (QF_neutral' s); [|exact QQ]; revert Q0; passFw].
    destruct (fwd_live s f h P L _ _ _ F) as [RC1 RC2].
    destruct k as [body|ht c].
    + intros Q0; inj_R Q0. apply (QF_upd s _ f (FwdObj (oz (minrc_clone rc)) (FClos body) tg)); [| | |exact QQ].
      * ei_tac.
      * reflexivity.
      * rewrite clone_fzo by lia. unfold fz. rewrite F. lia.
    + destruct tg as [a|]; [|intros Q0; apply (QF_neutral' s); [|exact QQ]; revert Q0; passFw].
      destruct (inst_nocaps c (fun b => KMeth a b (Some v)) (ref_clone s a)) as [ci s2] eqn:I.
      intros Q0. apply (QF_neutral' s); [|exact QQ]; revert Q0; passFw.
  - (* ANewTok *) intros Q0. apply (QF_neutral' s); [|exact QQ]; revert Q0; passFw.
Qed.

Lemma dropval_QF v s pre s' : PJ (fun x => hv x v) s -> drop_val v s = (pre, s') -> QF s -> QF s'.
Proof.
  intros P H QQ. revert H. unfold drop_val. destruct v as [a|a|a|r|f|t sc]; try (intros Q0; apply (QF_neutral' s); [|exact QQ]; revert Q0; passFw; fail).
  destruct (aget (fwds s) f) as [[rc k tg]|] eqn:F; [|intros Q0; apply (QF_neutral' s); [|exact QQ]; revert Q0; passFw].
  pose proof (frc_range _ _ _ _ P F) as RR. cbn [frc] in RR.
  destruct (minrc_drop rc) as [[v' z]|] eqn:MD; [|intros Q0; apply (QF_neutral' s); [|exact QQ]; revert Q0; passFw].
  pose proof (drop_cases rc v' z RR MD) as DC.
  assert (FZ : fz f s = fzo (FwdObj rc k tg)) by (unfold fz; rewrite F; reflexivity).
  destruct z.
  - destruct DC as [(-> & -> & _)|(D & _)]; [|discriminate D].
    destruct k as [b|h0 c]; [|destruct tg as [a|]]; intros Q0; inj_R Q0.
    + (* FClos: freed *) intros g. specialize (QQ g).
      rewrite (fz_aset g s f (FwdObj 0 (FClos b) tg) (emit (set_fwds s (aset (fwds s) f (FwdObj 0 (FClos b) tg))) (EFwdFree f)) eq_refl). change (tr (emit ?x ?e)) with (e :: tr x). change (tr (set_fwds s ?v)) with (tr s).
      cbn [pkT pcT]. unfold pk1, pc1, fwdp, p_eqb in *. simpl. destruct (N.eqb g f) eqn:E; [apply N.eqb_eq in E; subst g; rewrite FZ in QQ; cbn [fzo] in QQ; change (0 <? 1) with true in QQ; cbv iota in QQ|]; lia.
    + apply (QF_upd s _ f (FwdObj 0 (FTo h0 c) (Some a))); [ei_tac | reflexivity | rewrite FZ; simpl; lia | exact QQ].
    + apply (QF_upd s _ f (FwdObj 0 (FTo h0 c) None)); [ei_tac | reflexivity | rewrite FZ; simpl; lia | exact QQ].
  - destruct DC as [(_ & _ & D)|(_ & DC)]; [discriminate D|]. intros Q0; inj_R Q0.
    apply (QF_upd s _ f (FwdObj v' k tg)); [ei_tac | reflexivity | | exact QQ]. rewrite FZ. unfold fzo. destruct k; [|lia].
    destruct DC as [(-> & ->)|[(-> & ->)|(B & ->)]]; repeat match goal with |- context [?p <? ?q] => destruct (Z.ltb_spec p q) end; unfold MX in *; lia.
Qed.

Theorem step_QF k s k' s' : J k s -> QF s -> step k s = Some (k', s') -> QF s'.
Proof.
  intros JJ QQ ST. destruct k as [|m k0]; [discriminate|]. simpl in ST. destruct (handle m s) as [pre s1] eqn:HD. inversion ST; subst k' s1; clear ST.
  assert (SPEC : match m with MActs _ | MDropVal _ | MOrphNew _ | MOrphDrop _ | MEndBody _ _ => False | _ => True end \/
                 match m with MActs _ | MDropVal _ | MOrphNew _ | MOrphDrop _ | MEndBody _ _ => True | _ => False end) by (destruct m; auto).
  destruct SPEC as [SP|SP].
  { destruct (handle_N3 _ _ _ _ HD SP) as (A & B & _). eapply QF_neutral; eauto. apply evs_O3_Fw. exact A. }
  pose proof (J_PJ _ _ _ JJ) as P. destruct m; try contradiction; cbn [handle hmop] in *.
  - destruct l as [|a l]; [inversion HD; subst; exact QQ|]. destruct (do_act a s) as [p s1] eqn:DA. inversion HD; subst pre s'.
    eapply do_act_QF; eauto.
  - apply (QF_neutral' s); [|exact QQ]. revert HD. destruct (frames s); passFw.
  - eapply dropval_QF; eauto.
  - apply (QF_neutral' s); [|exact QQ]. revert HD. passFw.
  - apply (QF_neutral' s); [|exact QQ]. revert HD. passFw.
Qed.

Lemma QF_init d : QF (init d).
Proof. intros f. destruct d; simpl; unfold fz; simpl; lia. Qed.

Lemma QF_bal s f : QF s -> pkT (fwdp f) (tr s) <= pcT (fwdp f) (tr s).
Proof.
  intros Q. specialize (Q f). assert (0 <= fz f s); [|lia]. unfold fz. destruct (aget (fwds s) f) as [[rc [b|h c] tg]|]; simpl; try lia. destruct (0 <? rc); lia.
Qed.
