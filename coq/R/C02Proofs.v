(** Layer R proofs: C02 (calls to one actor run in the order they were made, gated by its lifecycle).

    [C02_proved]: for every program and every amount of fuel (global / thread-local deferrer), [C02_ok] holds of
    the trace of a terminated execution of the model: a Ready method starts only on a Ready actor and is the
    oldest call to that actor still pending (held calls included); a Prep method starts only in Prep; nothing
    starts or is dropped twice; becoming Ready happens once, from Prep; a queued call is discarded only when its
    target is terminated (the notification then comes before anything else starts) or the queues are torn down.

    The invariant [J2] ties the monitor state to the machine: the monitor's pending list of an actor is its held
    queue, then the calls in the continuation, then those in the main queue ([pendlist]); its phase is the state
    of the cell, except that a cell already marked Zombie whose notifier invocation is still in the quiet prefix
    of the continuation ([pn]) is not yet "notified"; every actor the monitor says is owed a notification has
    one pending there; every drop micro-op of a queued call is justified by teardown, phase 3 or such a pending
    notification.  Uniqueness of uids (no double start / drop) comes from the linearity census (Lin.v).  The
    model's defensive branches "the target cell of this item is not in the actor table" are unreachable: Nest.v
    keeps, for every item and every Ready transition, the creation event of its actor in the trace, and the
    monitor phase of an actor whose creation is in the trace is not 0, i.e. ([o_pe]) the cell is in the table. *)
From Coq Require Import ZArith NArith List Bool Lia Permutation.
From Stk Require Import Lib.U Gen.SrcCount Gen.SrcCore Gen.SrcLog R.Syntax R.Rt R.Mon R.Shape R.Eff R.Tags R.Drops R.Mono R.Count
  R.Nest R.C15Proofs R.C20Proofs R.Calls R.CallInv R.Lin R.LinAct R.LinLaw R.LinStep R.C06cProofs.
Import ListNotations.
Local Open Scope Z_scope.

(* ------------------------------------------------------------------ *)
(** * The monitor *)

Definition mon2 (t : list ev) : option s02 := monr step02 i02 t.

Definition same2 (m m' : s02) : Prop :=
  c_pend m' = c_pend m /\ c_phase m' = c_phase m /\ c_done m' = c_done m /\ c_tear m' = c_tear m /\ c_owed m' = c_owed m.

Lemma same2_refl m : same2 m m. Proof. repeat split. Qed.
Lemma same2_trans a b c : same2 a b -> same2 b c -> same2 a c.
Proof. intros (A1 & A2 & A3 & A4 & A5) (B1 & B2 & B3 & B4 & B5). repeat split; congruence. Qed.

Lemma step02_irrel m e : krel e = false -> exists m', step02 m e = Some m' /\ same2 m m'.
Proof.
  intros H. destruct e; try discriminate H; unfold step02; simpl.
  all: try (eexists; split; [reflexivity | repeat split]).
  all: try (destruct q; try discriminate H; eexists; (split; [reflexivity | repeat split])).
Qed.

Lemma step02_tgt m e m' : step02 m e = Some m' ->
  c_tgt m' = match e with ETarget u a p => nset (c_tgt m) u (a, p) | _ => c_tgt m end.
Proof.
  unfold step02, guard. destruct e; simpl; case_all; intros H; inversion H; reflexivity.
Qed.

Lemma ctgt_last t : forall m, mon2 t = Some m -> forall u, nget (c_tgt m) u = last_tgt t u.
Proof.
  unfold mon2. induction t as [|e t IH]; simpl; intros m H u.
  - inversion H; subst. reflexivity.
  - destruct (monr step02 i02 t) as [m0|] eqn:M0; [|discriminate]. specialize (IH m0 eq_refl u).
    rewrite (step02_tgt _ _ _ H). destruct e; try exact IH.
    destruct (N.eqb u uid) eqn:E.
    + apply N.eqb_eq in E. subst. rewrite nget_nset_eq. reflexivity.
    + rewrite nget_nset_neq; [exact IH|]. intros Q. subst. rewrite N.eqb_refl in E. discriminate.
Qed.

Lemma mon2_irrel t e m : mon2 t = Some m -> krel e = false -> exists m', mon2 (e :: t) = Some m' /\ same2 m m'.
Proof. intros M K. unfold mon2 in *. simpl. rewrite M. apply step02_irrel; auto. Qed.

Lemma con1_nn x e : 0 <= con1 x e.
Proof. destruct e; simpl; try lia; apply ind_range. Qed.

(* the done set only holds uids whose consumption is in the trace *)
Lemma done_consumed t : forall m, mon2 t = Some m -> forall u, In u (c_done m) -> 0 < conT (RClo u) t.
Proof.
  unfold mon2. induction t as [|e t IH]; simpl; intros m H u IN.
  - inversion H; subst. contradiction.
  - destruct (monr step02 i02 t) as [m0|] eqn:M0; [|discriminate]. specialize (IH m0 eq_refl u).
    pose proof (conT_nn (RClo u) t) as NN.
    assert (G : In u (c_done m) -> In u (c_done m0) \/ 0 < con1 (RClo u) e).
    { clear IH IN. revert H. unfold step02, guard. destruct e; simpl; case_all; intros H; inversion H; subst; simpl; auto.
      all: intros [<-|Q]; auto; right; rewrite ind_refl; lia. }
    change (conT (RClo u) (e :: t)) with (con1 (RClo u) e + conT (RClo u) t). pose proof (con1_nn (RClo u) e). destruct (G IN) as [Q|Q]; [specialize (IH Q); lia | lia].
Qed.

(* ------------------------------------------------------------------ *)
(** * Views of the configuration *)

(* a Ready call to [a] that went through the main queue *)
Definition rcb (a : N) (c : citem) : bool :=
  match ci_kind c with
  | KMeth a' _ _ => N.eqb a' a && match ci_sq c with Some QMain => true | _ => false end
  | _ => false
  end.

Definition ru (a : N) (c : citem) : list N := if rcb a c then [ci_uid c] else [].
Definition mru (a : N) (m : mop) : list N := match m with MRunItem c | MDropItem c | MDropInner c => ru a c | _ => [] end.
Definition kru (a : N) (k : list mop) : list N := flat_map (mru a) k.
Definition qru (a : N) (l : list citem) : list N := flat_map (ru a) l.
Definition held_a (s : st) (a : N) : list citem := match aget (actors s) a with Some x => held_of x | None => [] end.
Definition pendlist (a : N) (k : list mop) (s : st) : list N := qru a (held_a s a) ++ kru a k ++ qru a (mainq s).

Lemma kru_app a x y : kru a (x ++ y) = kru a x ++ kru a y. Proof. apply flat_map_app. Qed.
Lemma qru_app a x y : qru a (x ++ y) = qru a x ++ qru a y. Proof. apply flat_map_app. Qed.
Lemma kru_cons a m k : kru a (m :: k) = mru a m ++ kru a k. Proof. reflexivity. Qed.
Lemma kru_runitems a l : kru a (map MRunItem l) = qru a l.
Proof. induction l; simpl; auto. rewrite IHl. reflexivity. Qed.
Lemma kru_dropitems a l : kru a (map MDropItem l) = qru a l.
Proof. induction l; simpl; auto. rewrite IHl. reflexivity. Qed.

Lemma ru_plain a c : ci_call c = false -> ru a c = [].
Proof. unfold ru, rcb, ci_call. destruct (ci_kind c); auto; discriminate. Qed.

Lemma qru_plain a l : Forall (fun c => ci_call c = false) l -> qru a l = [].
Proof. intros F. induction F; simpl; auto. rewrite ru_plain, IHF; auto. Qed.

Lemma qru_tagged a q l : Forall (tagged q) l -> qru a l = [].
Proof. intros F. apply qru_plain. eapply Forall_impl; [|exact F]. intros c [C _]; exact C. Qed.

Lemma kru_gen a l : Forall genm l -> kru a l = [].
Proof.
  intros F. induction F as [|m l G F IH]; simpl; auto. rewrite IH, app_nil_r.
  destruct m; simpl in *; auto; try contradiction; apply ru_plain; auto.
Qed.

Lemma rcb_cu a c : rcb a c = true -> scb c = true.
Proof. unfold rcb, scb. destruct (ci_kind c); try discriminate. intros H. apply andb_prop in H as [_ H]. exact H. Qed.

Lemma ru_in_cu a c u : In u (ru a c) -> In u (cu c).
Proof. unfold ru, cu. destruct (rcb a c) eqn:R; [|contradiction]. rewrite (rcb_cu _ _ R). auto. Qed.

Lemma kru_in_kcu a k u : In u (kru a k) -> In u (kcu k).
Proof.
  unfold kru, kcu. intros H. apply in_flat_map in H as (m & M & U). apply in_flat_map. exists m. split; auto.
  destruct m; simpl in *; auto; eapply ru_in_cu; eauto.
Qed.

Lemma qru_in_qcu a l u : In u (qru a l) -> In u (qcu l).
Proof.
  unfold qru, qcu. intros H. apply in_flat_map in H as (c & C & U). apply in_flat_map. exists c. split; auto. eapply ru_in_cu; eauto.
Qed.

(* the quiet prefix of the continuation: what runs before the next item / phase micro-op *)
Fixpoint calmpre (k : list mop) : list mop :=
  match k with m :: r => if qmop m then m :: calmpre r else [] | [] => [] end.

Lemma calmpre_app w k : quiet w -> calmpre (w ++ k) = w ++ calmpre k.
Proof.
  intros [A B]. induction w as [|m w IH]; simpl in *; auto.
  apply andb_prop in A as [A1 A2]. apply orb_false_elim in B as [B1 B2].
  unfold qmop. rewrite A1, B1. simpl. rewrite IH; auto.
Qed.

Lemma calmpre_nq m k : qmop m = false -> calmpre (m :: k) = [].
Proof. simpl. intros ->. reflexivity. Qed.

Lemma calmpre_q m k : qmop m = true -> calmpre (m :: k) = m :: calmpre k.
Proof. simpl. intros ->. reflexivity. Qed.

(* a termination / free notification of [a] is pending in the quiet prefix *)
Definition pn (a : N) (k : list mop) : Prop := exists r mm, In (MRetInvoke r mm) (calmpre k) /\ nshape a r.

Lemma pn_nq a m k : qmop m = false -> ~ pn a (m :: k).
Proof. intros Q (r & mm & IN & _). rewrite calmpre_nq in IN; auto. Qed.

Lemma pn_step a m k pre : qmop m = true -> quiet pre -> pn a (m :: k) ->
  (forall r mm, m = MRetInvoke r mm -> ~ nshape a r) -> pn a (pre ++ k).
Proof.
  intros Q QP (r & mm & IN & NS) NH. rewrite calmpre_q in IN by auto. destruct IN as [E|IN].
  - exfalso. eapply NH; eauto.
  - exists r, mm. split; auto. rewrite calmpre_app by auto. apply in_or_app. right. exact IN.
Qed.

Lemma pn_push a k pre r mm : quiet pre -> In (MRetInvoke r mm) pre -> nshape a r -> pn a (pre ++ k).
Proof. intros QP IN NS. exists r, mm. split; auto. rewrite calmpre_app by auto. apply in_or_app. left. exact IN. Qed.

Definition dropmop (a : N) (m : mop) : Prop :=
  match m with MDropItem c | MDropInner c => rcb a c = true | _ => False end.

Definition teardown (k : list mop) : Prop :=
  match phase_of k with Some (PDrain _) | Some PFields | Some PDropEnd => True | _ => False end.

(* ------------------------------------------------------------------ *)
(** * The data invariant *)

Definition mph (m : s02) (a : N) : N := Mon.phase_of (c_phase m) a.

Record J2 (m : s02) (k : list mop) (s : st) : Prop := mkJ2 {
  o_pend : forall a, pend_of m a = pendlist a k s;
  o_ph : forall a x, aget (actors s) a = Some x ->
           match a_state x with
           | SPrep _ => mph m a = 1%N
           | SReady _ _ _ => mph m a = 2%N
           | SZombie => mph m a = 3%N \/ pn a k
           end;
  o_pe : forall a, mph m a <> 0%N -> exists x, aget (actors s) a = Some x;
  o_nd : NoDup (c_owed m);
  o_owed : forall a, In a (c_owed m) -> pn a k;
  o_drop : forall a mo, In mo k -> dropmop a mo -> c_tear m = true \/ mph m a = 3%N \/ pn a k;
  o_tear : teardown k -> c_tear m = true }.

Definition I2 (k : list mop) (s : st) : Prop :=
  dk s = DGlobal /\ exists m, mon2 (tr s) = Some m /\ J2 m k s.

Lemma owed_nil m mo k s : J2 m (mo :: k) s -> qmop mo = false -> c_owed m = [].
Proof.
  intros J Q. destruct (c_owed m) as [|a l] eqn:E; auto. exfalso.
  eapply (pn_nq a mo k Q). apply (o_owed _ _ _ J). rewrite E. left; reflexivity.
Qed.

Lemma J2_same m m' k s s' : J2 m k s -> same2 m m' -> mainq s' = mainq s -> actors s' = actors s -> J2 m' k s'.
Proof.
  intros [A B C D E F G] (S1 & S2 & S3 & S4 & S5) MQ AC.
  assert (PH : forall a, mph m' a = mph m a) by (intros a; unfold mph; rewrite S2; reflexivity).
  constructor.
  - intros a. unfold pend_of, pendlist, held_a. rewrite S1, MQ, AC. apply A.
  - intros a x. rewrite AC, PH. apply B.
  - intros a. rewrite AC, PH. apply C.
  - rewrite S5. exact D.
  - rewrite S5. exact E.
  - intros a mo. rewrite S4, PH. apply F.
  - rewrite S4. exact G.
Qed.

Ltac j2same := eapply J2_same; [eassumption | first [eassumption | repeat split] | reflexivity | reflexivity].

Lemma held_a_aset_same s a x y b : aget (actors s) a = Some y -> held_of x = held_of y ->
  held_a (upd_actor s a x) b = held_a s b.
Proof.
  intros AY H. unfold held_a, upd_actor. simpl. destruct (N.eq_dec a b) as [<-|NE].
  - rewrite aget_aset_eq, AY. exact H.
  - rewrite aget_aset_neq by auto. reflexivity.
Qed.

Lemma pend_of_nset m a l b :
  match nget (nset (c_pend m) a l) b with Some x => x | None => [] end = if N.eqb a b then l else pend_of m b.
Proof.
  destruct (N.eqb a b) eqn:E.
  - apply N.eqb_eq in E. subst. rewrite nget_nset_eq. reflexivity.
  - rewrite nget_nset_neq; [reflexivity|]. intros Q. subst. rewrite N.eqb_refl in E. discriminate.
Qed.

Lemma mph_nset m a v b : Mon.phase_of (nset (c_phase m) a v) b = if N.eqb a b then v else mph m b.
Proof.
  unfold mph, Mon.phase_of. destruct (N.eqb a b) eqn:E.
  - apply N.eqb_eq in E. subst. rewrite nget_nset_eq. reflexivity.
  - rewrite nget_nset_neq; [reflexivity|]. intros Q. subst. rewrite N.eqb_refl in E. discriminate.
Qed.

Lemma ru_setq_meth a ci b arg : ci_kind ci = KMeth a b arg -> forall a', ru a' (ci_setq ci QMain) = if N.eqb a a' then [ci_uid ci] else [].
Proof. destruct ci as [u i k caps q]. simpl. intros -> a'. unfold ru, rcb. simpl. rewrite andb_true_r. destruct (N.eqb a a'); reflexivity. Qed.

Lemma ru_setq_other ci q : (forall a b arg, ci_kind ci <> KMeth a b arg) -> forall a', ru a' (ci_setq ci q) = [].
Proof. destruct ci as [u i k caps q0]. simpl. intros H a'. unfold ru, rcb. simpl. destruct k; auto. exfalso. eapply H; reflexivity. Qed.

Lemma keff_J2 s s1 : keff s s1 -> forall m k0, mon2 (tr s) = Some m -> J2 m k0 s ->
  exists m1, mon2 (tr s1) = Some m1 /\ J2 m1 k0 s1 /\ c_tear m1 = c_tear m /\ c_owed m1 = c_owed m.
Proof.
  intros E. induction E; intros m k0 MM JJ.
  - exists m. auto.
  - destruct (IHE m k0 MM JJ) as (m1 & M1 & J1 & T1 & O1).
    destruct (mon2_irrel _ e _ M1 H) as (m2 & M2 & S2). exists m2. split; auto. split; [j2same|].
    destruct S2 as (_ & _ & _ & S4 & S5). split; congruence.
  - destruct (IHE m k0 MM JJ) as (m1 & M1 & J1 & T1 & O1). destruct H as (T & MQ & AC & _).
    exists m1. rewrite T. split; auto. split; auto. eapply J2_same; eauto. apply same2_refl.
  - (* an actor cell updated in place *)
    destruct (IHE m k0 MM JJ) as (m1 & M1 & J1 & T1 & O1). exists m1. split; auto. split; auto.
    destruct H0 as (V1 & V2 & _). destruct J1 as [A B C D F G K]. constructor; auto.
    + intros b. unfold pendlist. rewrite (held_a_aset_same _ _ _ _ _ H V1). apply A.
    + intros b z. unfold upd_actor; simpl. destruct (N.eq_dec a b) as [<-|NE].
      * rewrite aget_aset_eq. intros Q; inversion Q; subst. specialize (B _ _ H).
        destruct (a_state z), (a_state y); simpl in V2; try discriminate V2; auto.
      * rewrite aget_aset_neq by auto. apply B.
    + intros b PB. unfold upd_actor; simpl. destruct (N.eq_dec a b) as [<-|NE]; [rewrite aget_aset_eq; eauto | rewrite aget_aset_neq by auto; auto].
  - (* a new actor *)
    destruct (IHE m k0 MM JJ) as (m1 & M1 & J1 & T1 & O1).
    set (x0 := mkActor (SPrep []) (oz (count_inc (oz count_new))) MINRC_INIT (Some nt) (oz (log_id_next (logseq s1))) false).
    assert (P0 : mph m1 a = 0%N).
    { destruct (N.eq_dec (mph m1 a) 0) as [Q|Q]; auto. destruct (o_pe _ _ _ J1 _ Q) as (x & AX). congruence. }
    set (m2 := mk02 (c_tgt m1) (c_pend m1) (nset (c_phase m1) a 1%N) (c_done m1) (c_tear m1) (c_owed m1)).
    assert (J2' : forall s2, mainq s2 = mainq s1 -> actors s2 = aset (actors s1) a x0 -> J2 m2 k0 s2).
    { intros s2 MQ AC. destruct J1 as [A B C D F G K]. constructor; simpl; auto.
      - intros b. change (pend_of m1 b = pendlist b k0 s2). rewrite (A b). unfold pendlist, held_a. rewrite MQ, AC.
        destruct (N.eq_dec a b) as [<-|NE]; [rewrite aget_aset_eq, H; reflexivity | rewrite aget_aset_neq by auto; reflexivity].
      - intros b z. rewrite AC. unfold mph. simpl. rewrite mph_nset. destruct (N.eq_dec a b) as [<-|NE].
        + rewrite aget_aset_eq, N.eqb_refl. intros Q; inversion Q; subst. reflexivity.
        + rewrite aget_aset_neq by auto. destruct (N.eqb a b) eqn:EB; [apply N.eqb_eq in EB; congruence|]. apply B.
      - intros b. rewrite AC. unfold mph. simpl. rewrite mph_nset. destruct (N.eq_dec a b) as [<-|NE].
        + rewrite aget_aset_eq. eauto.
        + rewrite aget_aset_neq by auto. destruct (N.eqb a b) eqn:EB; [apply N.eqb_eq in EB; congruence|]. apply C.
      - intros b mo IN DM. unfold mph. simpl. rewrite mph_nset. destruct (N.eqb a b) eqn:EB.
        + apply N.eqb_eq in EB. subst b. destruct (G a mo IN DM) as [Q|[Q|Q]]; auto. rewrite P0 in Q. discriminate Q.
        + eapply G; eauto. }
    unfold new_actor, log_rec.
    destruct (allows _ _ && haslogger _); destruct vis; simpl tr.
    + destruct (mon2_irrel _ (ELog (oz (log_id_next (logseq s1))) LOGLEVEL_OPEN parent 0) _ M1 eq_refl) as (ma & Ma & Sa).
      assert (Mb : mon2 (EActor a :: ELog (oz (log_id_next (logseq s1))) LOGLEVEL_OPEN parent 0 :: tr s1) =
                   Some (mk02 (c_tgt ma) (c_pend ma) (nset (c_phase ma) a 1%N) (c_done ma) (c_tear ma) (c_owed ma))).
      { unfold mon2 in *. simpl. simpl in Ma. rewrite Ma. reflexivity. }
      destruct (mon2_irrel _ (EOwnNew a) _ Mb eq_refl) as (mc & Mc & Sc).
      destruct Sa as (A1 & A2 & A3 & A4 & A5). destruct Sc as (C1 & C2 & C3 & C4 & C5). simpl in *.
      exists mc. split; [exact Mc|]. split; [|split; congruence].
      eapply J2_same with (m := m2) (s := upd_actor s1 a x0); [apply J2'; reflexivity | | reflexivity | reflexivity].
      repeat split; simpl; congruence.
    + destruct (mon2_irrel _ (ELog (oz (log_id_next (logseq s1))) LOGLEVEL_OPEN parent 0) _ M1 eq_refl) as (ma & Ma & Sa).
      destruct Sa as (A1 & A2 & A3 & A4 & A5).
      eexists. split; [unfold mon2 in *; simpl; simpl in Ma; rewrite Ma; reflexivity|]. split; [|split; simpl; congruence].
      eapply J2_same with (m := m2) (s := upd_actor s1 a x0); [apply J2'; reflexivity | | reflexivity | reflexivity].
      repeat split; simpl; congruence.
    + assert (Mb : mon2 (EActor a :: tr s1) = Some m2) by (unfold mon2 in *; simpl; rewrite M1; reflexivity).
      destruct (mon2_irrel _ (EOwnNew a) _ Mb eq_refl) as (mc & Mc & Sc).
      exists mc. split; [exact Mc|]. split; [|destruct Sc as (C1 & C2 & C3 & C4 & C5); simpl in *; split; congruence].
      eapply J2_same with (m := m2) (s := upd_actor s1 a x0); [apply J2'; reflexivity | exact Sc | reflexivity | reflexivity].
    + exists m2. split; [unfold mon2 in *; simpl; rewrite M1; reflexivity|]. split; [apply J2'; reflexivity | split; [exact T1 | exact O1]].
  - (* a call submitted *)
    destruct (IHE m k0 MM JJ) as (m1 & M1 & J1 & T1 & O1).
    destruct H0 as [UL TG]. pose proof (ctgt_last _ _ M1 (ci_uid ci)) as CT.
    set (u := ci_uid ci) in *.
    assert (KD : (exists a b arg, ci_kind ci = KMeth a b arg) \/ (exists a b r, ci_kind ci = KPrep a b r)).
    { unfold callk in H. destruct (ci_kind ci); try contradiction; eauto. }
    destruct KD as [(a & b & arg & KM)|(a & b & r & KP)].
    + rewrite KM in TG. rewrite TG in CT.
      exists (mk02 (c_tgt m1) (nset (c_pend m1) a (pend_of m1 a ++ [u])) (c_phase m1) (c_done m1) (c_tear m1) (c_owed m1)).
      split; [unfold submit, push_main, mon2 in *; simpl; rewrite M1; unfold step02; simpl; fold u; rewrite CT; reflexivity|].
      split; [|split; [exact T1 | exact O1]].
      destruct J1 as [A B C D F G K]. constructor; simpl; auto.
      intros a'. unfold pend_of. simpl. rewrite pend_of_nset. unfold pendlist, submit, push_main, held_a. simpl.
      rewrite qru_app. simpl. rewrite (ru_setq_meth _ _ _ _ KM), app_nil_r. specialize (A a'). unfold pendlist, held_a in A.
      destruct (N.eqb a a') eqn:EA.
      * apply N.eqb_eq in EA. subst a'. unfold pend_of in A. rewrite A. fold u. rewrite <- !app_assoc. reflexivity.
      * rewrite A, app_nil_r. reflexivity.
    + rewrite KP in TG. rewrite TG in CT.
      exists m1.
      split; [unfold submit, push_main, mon2 in *; simpl; rewrite M1; unfold step02; simpl; fold u; rewrite CT; reflexivity|].
      split; [|split; [exact T1 | exact O1]].
      destruct J1 as [A B C D F G K]. constructor; simpl; auto.
      intros a'. unfold pendlist, submit, push_main, held_a. simpl. rewrite qru_app. simpl.
      rewrite ru_setq_other by (intros; rewrite KP; discriminate). rewrite !app_nil_r. apply A.
  - (* a plain closure submitted *)
    destruct (IHE m k0 MM JJ) as (m1 & M1 & J1 & T1 & O1).
    destruct H0 as [UL TG]. pose proof (ctgt_last _ _ M1 (ci_uid ci)) as CT.
    assert (KP : exists b, ci_kind ci = KPlain b) by (unfold ci_call in H; destruct (ci_kind ci); try discriminate; eauto).
    destruct KP as (b & KP). rewrite KP in TG. rewrite TG in CT.
    assert (MX : exists m2, mon2 (ESub q (ci_uid ci) (ci_call ci) :: tr s1) = Some m2 /\ same2 m1 m2).
    { destruct q; try (apply mon2_irrel; auto; rewrite H; reflexivity).
      exists m1.
      split; [unfold mon2 in *; simpl; rewrite M1; unfold step02; simpl; rewrite CT; reflexivity | apply same2_refl]. }
    destruct MX as (m2 & M2 & S2).
    exists m2. split; [unfold submit; destruct q; exact M2|]. split; [|destruct S2 as (_ & _ & _ & S4 & S5); split; congruence].
    assert (RP : forall a', ru a' (ci_setq ci q) = []) by (intros a'; apply ru_plain; rewrite call_setq; auto).
    destruct q; try (eapply J2_same; eauto; reflexivity).
    eapply J2_same with (s := s1) in J1; [|exact S2 | reflexivity | reflexivity].
    destruct J1 as [A B C D F G K]. constructor; auto.
    intros a'. unfold pendlist, submit, push_main, held_a. simpl. rewrite qru_app. simpl. rewrite RP, !app_nil_r. apply A.
  - (* an internal item *)
    destruct (IHE m k0 MM JJ) as (m1 & M1 & J1 & T1 & O1). exists m1. split; auto. split; auto.
    destruct J1 as [A B C D F G K]. constructor; auto.
    intros a'. unfold pendlist, push_main, held_a. simpl. rewrite qru_app. simpl.
    assert (RI : ru a' (CI 0 0 k [] None) = []) by (unfold ru, rcb; simpl; destruct k; simpl in *; auto; contradiction).
    rewrite RI, !app_nil_r. apply A.
  - (* a plain closure dropped un-run *)
    destruct (IHE m k0 MM JJ) as (m1 & M1 & J1 & T1 & O1).
    destruct H0 as [UL TG]. pose proof (ctgt_last _ _ M1 (ci_uid ci)) as CT.
    assert (KP : exists b, ci_kind ci = KPlain b) by (unfold ci_call in H; destruct (ci_kind ci); try discriminate; eauto).
    destruct KP as (b & KP). rewrite KP in TG. rewrite TG in CT.
    exists m1.
    split; [unfold mon2 in *; simpl; rewrite M1; unfold step02; simpl; rewrite CT; reflexivity|].
    split; [|split; [exact T1 | exact O1]].
    eapply J2_same with (s := s1); [exact J1 | apply same2_refl | reflexivity | reflexivity].
Qed.

(* ------------------------------------------------------------------ *)
(** * Replacing the head of the continuation *)

Lemma teardown_work mo k0 pre : is_work mo = true -> forallb is_work pre = true -> (teardown (pre ++ k0) <-> teardown (mo :: k0)).
Proof. intros W PW. destruct (work_step_phase mo k0 pre W PW) as [X _]. unfold teardown. rewrite X. tauto. Qed.

Lemma J2_k_quiet m mo k0 pre s :
  qmop mo = true -> quiet pre -> (forall a, kru a pre = mru a mo) ->
  (forall a mo', In mo' pre -> dropmop a mo' -> dropmop a mo) ->
  (forall r mm a, mo = MRetInvoke r mm -> ~ nshape a r) ->
  J2 m (mo :: k0) s -> J2 m (pre ++ k0) s.
Proof.
  intros Q QP KR DM NH [A B C D F G K]. pose proof Q as Q'. apply andb_prop in Q' as [W _]. destruct QP as [PW PR].
  assert (PN : forall a, pn a (mo :: k0) -> pn a (pre ++ k0)).
  { intros a P. eapply pn_step; [exact Q | split; auto | exact P | intros r mm E; eapply NH; eauto]. }
  constructor; auto.
  - intros a. rewrite (A a). unfold pendlist. rewrite kru_app, kru_cons, KR. reflexivity.
  - intros a x AX. specialize (B a x AX). destruct (a_state x); auto. destruct B as [B|B]; auto.
  - intros a mo' IN DD. apply in_app_or in IN as [IN|IN].
    + destruct (G a mo (or_introl eq_refl) (DM _ _ IN DD)) as [X|[X|X]]; auto.
    + destruct (G a mo' (or_intror IN) DD) as [X|[X|X]]; auto.
  - intros TD. apply K. eapply teardown_work; eauto.
Qed.

Lemma I2_keff mo k0 s pre s' :
  qmop mo = true -> quiet pre -> keff s s' -> (forall a, kru a pre = mru a mo) ->
  (forall a mo', In mo' pre -> dropmop a mo' -> dropmop a mo) ->
  (forall r mm a, mo = MRetInvoke r mm -> ~ nshape a r) ->
  I2 (mo :: k0) s -> I2 (pre ++ k0) s'.
Proof.
  intros Q QP KE KR DM NH (DK & m & MM & JJ).
  destruct (keff_J2 _ _ KE m _ MM JJ) as (m1 & M1 & J1 & _).
  split; [rewrite (keff_dk _ _ KE); exact DK|]. exists m1. split; auto. eapply J2_k_quiet; eauto.
Qed.

Lemma gen_nodrop l : Forall genm l -> forall a mo', In mo' l -> dropmop a mo' -> False.
Proof.
  intros F a mo' IN DM. eapply Forall_forall in F; [|exact IN]. destruct mo'; simpl in *; try contradiction.
  unfold rcb in DM. unfold ci_call in F. destruct (ci_kind c); discriminate.
Qed.

(* ------------------------------------------------------------------ *)
(** * Uniqueness of closure instances (from the census of Lin.v) *)

Lemma aget_In {X} (l : list (N * X)) a x : aget l a = Some x -> In (a, x) l.
Proof.
  induction l as [|[b y] r IH]; simpl; [discriminate|]. destruct (N.eqb a b) eqn:E.
  - intros Q; inversion Q; subst. apply N.eqb_eq in E. subst. left; reflexivity.
  - intros Q. right. auto.
Qed.

Lemma pendlist_in_calls a k s u : In u (pendlist a k s) -> In u (calls_in k s).
Proof.
  unfold pendlist, calls_in. intros H. apply in_app_or in H as [H|H].
  - apply in_or_app. right. apply in_or_app. right. unfold held_a in H. destruct (aget (actors s) a) as [x|] eqn:AX; [|contradiction].
    unfold hcu. apply in_flat_map. exists (a, x). split; [apply aget_In; auto|]. simpl. eapply qru_in_qcu; eauto.
  - apply in_app_or in H as [H|H].
    + apply in_or_app. left. eapply kru_in_kcu; eauto.
    + apply in_or_app. right. apply in_or_app. left. eapply qru_in_qcu; eauto.
Qed.

Definition head_item (mo : mop) : option citem :=
  match mo with MRunItem c | MDropItem c | MDropInner c => Some c | _ => None end.

Lemma head_census mo c : head_item mo = Some c -> realk (ci_kind c) = true -> 1 <= cmop (RClo (ci_uid c)) mo.
Proof.
  intros H R. pose proof (cci_self c R). destruct mo; simpl in H; inversion H; subst; simpl; try lia.
  pose proof (badif_nn (RClo (ci_uid c)) (realk (ci_kind c))). lia.
Qed.

(* the item of the micro-op being executed occurs nowhere else *)
Lemma head_unique mo c k0 s : Lin (mo :: k0) s -> head_item mo = Some c -> realk (ci_kind c) = true ->
  ~ In (ci_uid c) (calls_in k0 s).
Proof.
  intros L H R IN. pose proof (Lin_uid_once _ _ (ci_uid c) L) as ONE. pose proof (calls_in_census _ _ _ IN) as G.
  pose proof (head_census _ _ H R). unfold cnt in *. simpl in ONE. lia.
Qed.

(* ... and has not been consumed before *)
Lemma head_not_done mo c k0 s m : Lin (mo :: k0) s -> mon2 (tr s) = Some m -> head_item mo = Some c -> realk (ci_kind c) = true ->
  nmem (ci_uid c) (c_done m) = false.
Proof.
  intros L MM H R. destruct (nmem (ci_uid c) (c_done m)) eqn:E; auto. exfalso.
  apply nmem_In in E. pose proof (done_consumed _ _ MM _ E) as CO.
  pose proof (Lin_uid_consumed _ _ (ci_uid c) L CO) as Z. pose proof (head_census _ _ H R).
  unfold cnt in Z. simpl in Z. pose proof (cmops_nn (RClo (ci_uid c)) k0). pose proof (cst_nn (RClo (ci_uid c)) s). lia.
Qed.

Lemma nremove_head u l : nremove u (u :: l) = l.
Proof. simpl. rewrite N.eqb_refl. reflexivity. Qed.

Lemma nremove_app_notin u l r : ~ In u l -> nremove u (l ++ u :: r) = l ++ r.
Proof.
  induction l as [|y l IH]; simpl; intros H.
  - rewrite N.eqb_refl. reflexivity.
  - destruct (N.eqb u y) eqn:E; [apply N.eqb_eq in E; subst; exfalso; apply H; auto|]. rewrite IH; auto.
Qed.

(* ------------------------------------------------------------------ *)
(** * Micro-ops that are not quiet work: nothing is pending in front of them *)

Lemma zombie_notified m mo k0 s a x : J2 m (mo :: k0) s -> qmop mo = false -> aget (actors s) a = Some x -> a_state x = SZombie -> mph m a = 3%N.
Proof. intros J Q AX Z. pose proof (o_ph _ _ _ J _ _ AX) as B. rewrite Z in B. destruct B as [B|B]; auto. exfalso. eapply pn_nq; eauto. Qed.

Lemma drop_justified m mo k0 s a mo' : J2 m (mo :: k0) s -> qmop mo = false -> In mo' k0 -> dropmop a mo' -> c_tear m = true \/ mph m a = 3%N.
Proof.
  intros J Q IN DM. destruct (o_drop _ _ _ J a mo' (or_intror IN) DM) as [X|[X|X]]; auto. exfalso. eapply pn_nq; eauto.
Qed.

(* the new invariant after a micro-op that is not quiet work, from its ingredients *)
Lemma J2_build m' k' s' :
  (forall a, pend_of m' a = pendlist a k' s') ->
  (forall a x, aget (actors s') a = Some x ->
     match a_state x with SPrep _ => mph m' a = 1%N | SReady _ _ _ => mph m' a = 2%N | SZombie => mph m' a = 3%N end) ->
  (forall a, mph m' a <> 0%N -> exists x, aget (actors s') a = Some x) ->
  c_owed m' = [] ->
  (forall a mo', In mo' k' -> dropmop a mo' -> c_tear m' = true \/ mph m' a = 3%N) ->
  (teardown k' -> c_tear m' = true) ->
  J2 m' k' s'.
Proof.
  intros A B C D G K. constructor; auto.
  - intros a x AX. specialize (B a x AX). destruct (a_state x); auto.
  - rewrite D. constructor.
  - rewrite D. intros a [].
  - intros a mo' IN DM. destruct (G a mo' IN DM); auto.
Qed.

Lemma ph_of_state m mo k0 s a x : J2 m (mo :: k0) s -> qmop mo = false -> aget (actors s) a = Some x ->
  match a_state x with SPrep _ => mph m a = 1%N | SReady _ _ _ => mph m a = 2%N | SZombie => mph m a = 3%N end.
Proof.
  intros J Q AX. pose proof (o_ph _ _ _ J _ _ AX) as B. destruct (a_state x) eqn:SX; auto.
  eapply zombie_notified; eauto.
Qed.

Lemma rcb_meth a u i b arg caps q a' : rcb a' (CI u i (KMeth a b arg) caps q) = (N.eqb a a' && match q with Some QMain => true | _ => false end).
Proof. reflexivity. Qed.

(* the monitor's transitions, as rewriting lemmas *)
Lemma step02_meth m a u n r :
  c_owed m = [] -> mph m a = 2%N -> pend_of m a = u :: r -> nmem u (c_done m) = false -> nget (c_tgt m) u = Some (a, false) ->
  step02 m (EMeth a u n) = Some (mk02 (c_tgt m) (nset (c_pend m) a r) (c_phase m) (u :: c_done m) (c_tear m) (c_owed m)).
Proof.
  intros OW PH PA ND TG. unfold step02. rewrite OW. simpl. unfold mph in PH. rewrite PH. rewrite PA. simpl.
  rewrite !N.eqb_refl, ND, TG. simpl. rewrite N.eqb_refl. reflexivity.
Qed.

Lemma step02_prep m a u n :
  c_owed m = [] -> mph m a = 1%N -> nmem u (c_done m) = false -> nget (c_tgt m) u = Some (a, true) ->
  step02 m (EPrep a u n) = Some (mk02 (c_tgt m) (c_pend m) (c_phase m) (u :: c_done m) (c_tear m) (c_owed m)).
Proof.
  intros OW PH ND TG. unfold step02. rewrite OW. simpl. unfold mph in PH. rewrite PH, ND, TG. simpl. rewrite N.eqb_refl. reflexivity.
Qed.

Lemma step02_run m u n q : c_owed m = [] -> step02 m (ERun u n q) = Some m.
Proof. intros OW. unfold step02. rewrite OW. reflexivity. Qed.

Lemma step02_seen m e m' a : step02 m e = Some m' -> mph m a <> 0%N -> mph m' a <> 0%N.
Proof.
  intros H P. unfold step02 in H. destruct (_ && _) in H; [discriminate|].
  assert (NS : forall b v, v <> 0%N -> Mon.phase_of (nset (c_phase m) b v) a <> 0%N).
  { intros b v V. rewrite mph_nset. destruct (N.eqb b a); auto. }
  destruct e; try (inversion H; subst; exact P); simpl in H; unfold guard in H;
    repeat match type of H with context [match ?x with _ => _ end] => destruct x end;
    try discriminate H; inversion H; subst; unfold mph; simpl; try exact P; apply NS; discriminate.
Qed.

Lemma actor_seen t : forall m a, mon2 t = Some m -> In (EActor a) t -> mph m a <> 0%N.
Proof.
  unfold mon2. induction t as [|e t IH]; simpl; intros m a H IN; [contradiction|].
  destruct (monr step02 i02 t) as [m0|] eqn:M0; [|discriminate].
  destruct IN as [->|IN].
  - unfold step02 in H. simpl in H. inversion H; subst. unfold mph. simpl. rewrite mph_nset, N.eqb_refl. discriminate.
  - eapply step02_seen; eauto.
Qed.

(* an actor whose creation is in the trace is in the table *)
Lemma seen_known m k s a : mon2 (tr s) = Some m -> J2 m k s -> In (EActor a) (tr s) -> aget (actors s) a = None -> False.
Proof. intros MM JJ IN AX. destruct (o_pe _ _ _ JJ a (actor_seen _ _ _ MM IN)) as (x & AX'). congruence. Qed.

Ltac jb := apply J2_build; [ | try (match goal with H : forall a x, aget _ a = Some x -> _ |- _ => exact H end) | try (match goal with H : forall a, mph _ a <> 0%N -> _ |- _ => exact H end) | first [assumption | simpl; assumption] | try (match goal with H : forall a mo', In mo' _ -> dropmop a mo' -> _ |- _ => exact H end) | first [assumption | simpl; assumption] ].

Lemma I2_runitem c k0 s pre s' :
  shape (MRunItem c :: k0) -> WF (MRunItem c :: k0) s -> KI (MRunItem c :: k0) s -> Lin (MRunItem c :: k0) s ->
  run_item c s = (pre, s') -> I2 (MRunItem c :: k0) s -> I2 (pre ++ k0) s'.
Proof.
  intros SH [WK WQ] [KS_ KM] LN E (DK & m & MM & JJ).
  assert (HW : handle (MRunItem c) s = (pre, s')) by exact E.
  destruct (handle_work (MRunItem c) _ _ _ eq_refl HW) as [PW _].
  pose proof (Forall_inv KM) as SO. simpl in SO. pose proof (Forall_inv WK) as CW. unfold mwf in CW. simpl in CW.
  apply cwf_iff in CW as [[UL LT] [_ TW]].
  assert (NQ : qmop (MRunItem c) = false) by reflexivity.
  pose proof (owed_nil _ _ _ _ JJ NQ) as OW.
  assert (TD : teardown (pre ++ k0) -> c_tear m = true).
  { intros T. apply (o_tear _ _ _ JJ). eapply teardown_work; eauto. }
  assert (DJ0 : forall a mo', In mo' k0 -> dropmop a mo' -> c_tear m = true \/ mph m a = 3%N) by (intros; eapply drop_justified; eauto).
  assert (PEND0 : forall a, pend_of m a = qru a (held_a s a) ++ mru a (MRunItem c) ++ kru a k0 ++ qru a (mainq s)).
  { intros a. rewrite (o_pend _ _ _ JJ a). unfold pendlist. rewrite kru_cons, <- app_assoc. reflexivity. }
  assert (PHS : forall a x, aget (actors s) a = Some x ->
     match a_state x with SPrep _ => mph m a = 1%N | SReady _ _ _ => mph m a = 2%N | SZombie => mph m a = 3%N end)
    by (intros; eapply ph_of_state; eauto).
  pose proof (o_pe _ _ _ JJ) as PE.
  unfold run_item in E. destruct c as [u i kd caps q]. simpl in LT, UL. destruct kd.
  - (* a plain closure starts *)
    inversion E; subst pre s'. clear E. split; [exact DK|].
    exists m. split; [unfold mon2 in *; simpl; rewrite MM; apply step02_run; auto|].
    jb.
    + intros a. rewrite PEND0. simpl. reflexivity.
    + intros a mo' [<-|[<-|IN]] DM; try contradiction. eapply DJ0; eauto.
  - (* a Ready call *)
    rewrite <- (ctgt_last _ _ MM u) in LT.
    assert (SQ : q = Some QMain) by exact SO.
    assert (RC : forall a', mru a' (MRunItem (CI u i (KMeth a body arg) caps q)) = if N.eqb a a' then [u] else []).
    { intros a'. simpl. unfold ru. rewrite rcb_meth, SQ, andb_true_r. destruct (N.eqb a a'); reflexivity. }
    destruct (aget (actors s) a) as [x|] eqn:AX.
    + destruct (a_state x) eqn:SX; inversion E; subst pre s'; clear E.
      * (* held *)
        split; [exact DK|]. exists m. split; [exact MM|]. jb.
        -- intros a'. rewrite PEND0, RC. unfold pendlist, held_a, upd_actor. simpl.
           destruct (N.eq_dec a a') as [<-|NE].
           ++ rewrite aget_aset_eq, AX, N.eqb_refl. unfold held_of. simpl. rewrite SX, qru_app. simpl. unfold ru. rewrite rcb_meth, N.eqb_refl, SQ. simpl.
              rewrite <- !app_assoc. reflexivity.
           ++ rewrite aget_aset_neq by auto. destruct (N.eqb a a') eqn:EA; [apply N.eqb_eq in EA; congruence|]. reflexivity.
        -- intros a' x'. unfold upd_actor; simpl. destruct (N.eq_dec a a') as [<-|NE].
           ++ rewrite aget_aset_eq. intros Q; inversion Q; subst. simpl. specialize (PHS _ _ AX). rewrite SX in PHS. exact PHS.
           ++ rewrite aget_aset_neq by auto. apply PHS.
        -- intros a' P. unfold upd_actor; simpl. destruct (N.eq_dec a a') as [<-|NE]; [rewrite aget_aset_eq; eauto | rewrite aget_aset_neq by auto; apply PE; auto].
      * (* the method starts *)
        pose proof (PHS _ _ AX) as P. rewrite SX in P.
        pose proof (head_not_done (MRunItem (CI u i (KMeth a body arg) caps q)) _ k0 s m LN MM eq_refl eq_refl) as ND. simpl in ND.
        assert (HA : held_a s a = []) by (unfold held_a; rewrite AX; unfold held_of; rewrite SX; reflexivity).
        assert (PA : pend_of m a = u :: kru a k0 ++ qru a (mainq s)).
        { rewrite PEND0, RC, HA, N.eqb_refl. reflexivity. }
        split; [exact DK|]. eexists. split.
        { unfold mon2 in *. simpl. rewrite MM. apply step02_meth; eauto. }
        jb.
        -- intros a'. unfold pend_of. simpl. rewrite pend_of_nset. unfold pendlist. simpl.
           change (held_a (push_frame (emit s (EMeth a u (now s))) (XCx a false) caps) a') with (held_a s a').
           destruct (N.eqb a a') eqn:EA.
           ++ apply N.eqb_eq in EA. subst a'. rewrite HA. reflexivity.
           ++ rewrite PEND0, RC, EA. reflexivity.
        -- intros a' mo' [<-|[<-|[<-|IN]]] DM; try contradiction. eapply DJ0; eauto.
      * (* discarded: the target is a Zombie *)
        pose proof (PHS _ _ AX) as P. rewrite SX in P.
        split; [exact DK|]. exists m. split; [exact MM|]. jb.
        -- intros a'. rewrite PEND0. unfold pendlist. simpl. rewrite <- !app_assoc. reflexivity.
        -- intros a' mo' [<-|[<-|IN]] DM; try contradiction; [|eapply DJ0; eauto].
           simpl in DM. rewrite rcb_meth in DM. apply andb_prop in DM as [EA _]. apply N.eqb_eq in EA. subst a'. right. exact P.
    + inversion E; subst pre s'; clear E. exfalso. eapply seen_known; [exact MM | exact JJ | exact (Forall_inv TW) | exact AX].
  - (* a Prep call *)
    rewrite <- (ctgt_last _ _ MM u) in LT.
    assert (RC : forall a', mru a' (MRunItem (CI u i (KPrep a body ready) caps q)) = []) by reflexivity.
    destruct (aget (actors s) a) as [x|] eqn:AX.
    + destruct (ob (count_is_prep (a_strong x))) eqn:IP; inversion E; subst pre s'; clear E.
      * pose proof (ks_act _ KS_ _ _ AX) as (SR & ST & _).
        rewrite (is_prep_sta _ SR) in IP. apply Z.eqb_eq in IP. rewrite ST in IP.
        pose proof (PHS _ _ AX) as P. destruct (a_state x); simpl in IP; try discriminate IP.
        pose proof (head_not_done (MRunItem (CI u i (KPrep a body ready) caps q)) _ k0 s m LN MM eq_refl eq_refl) as ND. simpl in ND.
        split; [exact DK|]. eexists. split.
        { unfold mon2 in *. simpl. rewrite MM. apply step02_prep; eauto. }
        jb.
        -- intros a'. change (pend_of m a' = pendlist a' ([MActs body; MEndBody u (FPrep a ready); MDropRef a] ++ k0) (push_frame (emit s (EPrep a u (now s))) (XCx a true) caps)).
           rewrite PEND0, RC. reflexivity.
        -- intros a' mo' [<-|[<-|[<-|IN]]] DM; try contradiction. eapply DJ0; eauto.
      * split; [exact DK|]. exists m. split; [exact MM|]. jb.
        -- intros a'. rewrite PEND0. unfold pendlist. simpl. reflexivity.
        -- intros a' mo' [<-|[<-|IN]] DM; try contradiction; [discriminate DM | eapply DJ0; eauto].
    + inversion E; subst pre s'; clear E. exfalso. eapply seen_known; [exact MM | exact JJ | exact (Forall_inv TW) | exact AX].
  - (* the internal slab removal *)
    destruct SO as [SQ SU]. simpl in SQ, SU. subst q u.
    assert (RC : forall a', mru a' (MRunItem (CI 0 i (KSlabRm p key) caps None)) = []) by reflexivity.
    destruct (aget (actors s) p) as [x|] eqn:AX.
    + destruct (a_state x) eqn:SX.
      * inversion E; subst pre s'; clear E. split; [exact DK|]. exists m. split; [exact MM|]. jb.
        -- intros a'. rewrite PEND0, RC. unfold pendlist, held_a, upd_actor. simpl.
           destruct (N.eq_dec p a') as [<-|NE].
           ++ rewrite aget_aset_eq, AX. unfold held_of. simpl. rewrite SX, qru_app. simpl. rewrite app_nil_r. reflexivity.
           ++ rewrite aget_aset_neq by auto. reflexivity.
        -- intros a' x'. unfold upd_actor; simpl. destruct (N.eq_dec p a') as [<-|NE].
           ++ rewrite aget_aset_eq. intros Q; inversion Q; subst. simpl. specialize (PHS _ _ AX). rewrite SX in PHS. exact PHS.
           ++ rewrite aget_aset_neq by auto. apply PHS.
        -- intros a' P. unfold upd_actor; simpl. destruct (N.eq_dec p a') as [<-|NE]; [rewrite aget_aset_eq; eauto | rewrite aget_aset_neq by auto; apply PE; auto].
      * destruct (nth_error slab (N.to_nat key)) as [[child|nx]|]; inversion E; subst pre s'; clear E.
        -- split; [exact DK|]. exists m. split; [exact MM|]. jb.
           ++ intros a'. rewrite PEND0, RC. unfold pendlist, held_a, upd_actor. simpl.
              destruct (N.eq_dec p a') as [<-|NE].
              ** rewrite aget_aset_eq, AX. unfold held_of. simpl. rewrite SX. reflexivity.
              ** rewrite aget_aset_neq by auto. reflexivity.
           ++ intros a' x'. unfold upd_actor; simpl. destruct (N.eq_dec p a') as [<-|NE].
              ** rewrite aget_aset_eq. intros Q; inversion Q; subst. simpl. specialize (PHS _ _ AX). rewrite SX in PHS. exact PHS.
              ** rewrite aget_aset_neq by auto. apply PHS.
           ++ intros a' P. unfold upd_actor; simpl. destruct (N.eq_dec p a') as [<-|NE]; [rewrite aget_aset_eq; eauto | rewrite aget_aset_neq by auto; apply PE; auto].
           ++ intros a' mo' [<-|[<-|IN]] DM; try contradiction. eapply DJ0; eauto.
        -- split; [exact DK|]. destruct (mon2_irrel _ (EBad 40) _ MM eq_refl) as (m2 & M2 & S2). exists m2. split; [exact M2|].
           eapply J2_same with (m := m) (s := s); [|exact S2 | reflexivity | reflexivity]. jb.
           ++ intros a'. rewrite PEND0. reflexivity.
           ++ intros a' mo' [<-|IN] DM; try contradiction. eapply DJ0; eauto.
        -- split; [exact DK|]. destruct (mon2_irrel _ (EBad 40) _ MM eq_refl) as (m2 & M2 & S2). exists m2. split; [exact M2|].
           eapply J2_same with (m := m) (s := s); [|exact S2 | reflexivity | reflexivity]. jb.
           ++ intros a'. rewrite PEND0. reflexivity.
           ++ intros a' mo' [<-|IN] DM; try contradiction. eapply DJ0; eauto.
      * inversion E; subst pre s'; clear E. split; [exact DK|]. exists m. split; [exact MM|]. jb.
        -- intros a'. rewrite PEND0. reflexivity.
        -- intros a' mo' [<-|IN] DM; try contradiction. eapply DJ0; eauto.
    + inversion E; subst pre s'; clear E. exfalso. eapply seen_known; [exact MM | exact JJ | exact (Forall_inv TW) | exact AX].
  - inversion E; subst pre s'; clear E. split; [exact DK|]. exists m. split; [exact MM|]. jb.
    + intros a'. rewrite PEND0. reflexivity.
    + intros a' mo' [<-|[<-|IN]] DM; try contradiction. eapply DJ0; eauto.
  - inversion E; subst pre s'; clear E. split; [exact DK|]. exists m. split; [exact MM|]. jb.
    + intros a'. rewrite PEND0. reflexivity.
    + intros a' mo' [<-|[<-|IN]] DM; try contradiction. eapply DJ0; eauto.
Qed.

Lemma I2_nq_keff mo k0 s pre s' :
  is_work mo = true -> qmop mo = false -> forallb is_work pre = true -> keff s s' -> (forall a, kru a pre = mru a mo) ->
  (forall a mo', In mo' pre -> ~ dropmop a mo') ->
  I2 (mo :: k0) s -> I2 (pre ++ k0) s'.
Proof.
  intros W Q PW KE KR ND (DK & m & MM & JJ).
  destruct (keff_J2 _ _ KE m _ MM JJ) as (m1 & M1 & J1 & _).
  split; [rewrite (keff_dk _ _ KE); exact DK|]. exists m1. split; auto.
  apply J2_build.
  - intros a. rewrite (o_pend _ _ _ J1 a). unfold pendlist. rewrite kru_app, kru_cons, KR. reflexivity.
  - intros a x AX. eapply ph_of_state; eauto.
  - apply (o_pe _ _ _ J1).
  - eapply owed_nil; eauto.
  - intros a mo' IN DM. apply in_app_or in IN as [IN|IN]; [exfalso; eapply ND; eauto|]. eapply drop_justified; eauto.
  - intros T. apply (o_tear _ _ _ J1). eapply teardown_work; eauto.
Qed.

Lemma drops_nodrop l a mo' : In mo' (drops l) -> ~ dropmop a mo'.
Proof. intros IN. unfold drops in IN. apply in_map_iff in IN as (y & <- & _). intros []. Qed.

Lemma I2_endbody u f k0 s pre s' :
  handle (MEndBody u f) s = (pre, s') -> I2 (MEndBody u f :: k0) s -> I2 (pre ++ k0) s'.
Proof.
  intros E II.
  destruct (handle_work (MEndBody u f) _ _ _ eq_refl E) as [PW _].
  eapply I2_nq_keff; eauto; try reflexivity.
  - simpl in E. destruct (frames s) as [|fr rest]; inversion E; subst.
    + apply ke_emit; [apply ke_emit; [apply ke_refl | reflexivity] | reflexivity].
    + apply ke_set_frames, ke_emit; [apply ke_refl | reflexivity].
  - intros a. simpl in E. destruct (frames s) as [|fr rest]; inversion E; subst; [reflexivity|].
    rewrite kru_app, (kru_gen _ _ (gen_drops _)). destruct f; simpl; auto; destruct (f_die fr); try destruct ready; reflexivity.
  - intros a mo' IN. simpl in E. destruct (frames s) as [|fr rest]; inversion E; subst; [destruct IN|].
    apply in_app_or in IN as [IN|IN]; [eapply drops_nodrop; eauto|].
    destruct f; simpl in IN; try contradiction; destruct (f_die fr); try destruct ready; simpl in IN;
      repeat (destruct IN as [<-|IN]; [intros []|]); contradiction.
Qed.

Lemma I2_dropitem_call c k0 s pre s' :
  ci_call c = true -> handle (MDropItem c) s = (pre, s') -> I2 (MDropItem c :: k0) s -> I2 (pre ++ k0) s'.
Proof.
  intros CC E II.
  assert (Q : qmop (MDropItem c) = true) by reflexivity.
  eapply I2_keff; eauto.
  - eapply qmop_quiet_pre; eauto.
  - simpl in E. unfold drop_item in E. destruct c as [u i kd caps q]. unfold ci_call in CC. simpl in CC.
    destruct kd; try discriminate CC; inversion E; subst; apply ke_refl.
  - intros a'. simpl in E. unfold drop_item in E. destruct c as [u i kd caps q]. unfold ci_call in CC. simpl in CC.
    destruct kd; try discriminate CC; inversion E; subst; simpl; rewrite ?app_nil_r; reflexivity.
  - intros a' mo' IN DM. simpl in E. unfold drop_item in E. destruct c as [u i kd caps q]. unfold ci_call in CC. simpl in CC.
    destruct kd; try discriminate CC; inversion E; subst; simpl in IN;
      repeat (destruct IN as [<-|IN]; [try contradiction; try exact DM|]); try contradiction.
  - intros r mm a' EQ. discriminate EQ.
Qed.

Lemma step02_drop m u q b a p : nget (c_tgt m) u = Some (a, p) -> nmem u (c_done m) = false ->
  step02 m (EDrop u q b) =
  Some (mk02 (c_tgt m) (nset (c_pend m) a (nremove u (pend_of m a))) (c_phase m) (u :: c_done m) (c_tear m)
     (match q with
      | Some _ => if p || c_tear m || N.eqb (Mon.phase_of (c_phase m) a) 3 || nmem a (c_owed m) then c_owed m else a :: c_owed m
      | None => c_owed m
      end)).
Proof. intros T D. unfold step02. simpl. rewrite T, D. reflexivity. Qed.

Lemma nmem_false x l : nmem x l = false -> ~ In x l.
Proof. intros H IN. apply nmem_In in IN. congruence. Qed.

Lemma I2_dropinner c k0 s pre s' :
  WF (MDropInner c :: k0) s -> KI (MDropInner c :: k0) s -> Lin (MDropInner c :: k0) s ->
  handle (MDropInner c) s = (pre, s') -> I2 (MDropInner c :: k0) s -> I2 (pre ++ k0) s'.
Proof.
  intros [WK _] [_ KM] LN E (DK & m & MM & JJ).
  pose proof (Forall_inv KM) as CK. simpl in CK. destruct CK as [CK DS].
  pose proof (Forall_inv WK) as CW. unfold mwf in CW. simpl in CW. apply cwf_iff in CW as [[_ LT] _].
  assert (Q : qmop (MDropInner c) = true) by reflexivity.
  pose proof (qmop_quiet_pre (MDropInner c) _ _ _ Q E) as QP.
  assert (PW : forallb is_work pre = true) by (destruct QP; auto).
  simpl in E. inversion E; subst pre s'. clear E.
  assert (PN : forall a', pn a' (MDropInner c :: k0) -> pn a' (drops (ci_caps c) ++ k0)).
  { intros a' P. eapply pn_step; [exact Q | exact QP | exact P | intros r mm EQ; discriminate EQ]. }
  assert (RK : realk (ci_kind c) = true) by (unfold callk in CK; destruct (ci_kind c); try contradiction; reflexivity).
  pose proof (head_not_done (MDropInner c) c k0 s m LN MM eq_refl RK) as ND.
  pose proof (head_unique (MDropInner c) c k0 s LN eq_refl RK) as HU.
  assert (UP : forall a', ~ In (ci_uid c) (pendlist a' k0 s)) by (intros a' IN; apply HU; eapply pendlist_in_calls; eauto).
  rewrite <- (ctgt_last _ _ MM (ci_uid c)) in LT.
  assert (TG : exists a p, nget (c_tgt m) (ci_uid c) = Some (a, p) /\
              (forall a', rcb a' c = true -> a' = a /\ p = false) /\
              (p = false -> ci_sq c <> None -> rcb a c = true)).
  { unfold callk in CK. unfold rcb, dsq in *. destruct (ci_kind c); try contradiction.
    - exists a, false. split; auto. split.
      + intros a' H. apply andb_prop in H as [H _]. apply N.eqb_eq in H. auto.
      + intros _ NN. rewrite N.eqb_refl. destruct (ci_sq c) as [[]|]; try contradiction; auto.
    - exists a, true. split; auto. split; [discriminate | discriminate]. }
  destruct TG as (a & p & TG & RC1 & RC2).
  split; [exact DK|]. eexists. split.
  { unfold mon2 in *. simpl. rewrite MM. eapply step02_drop; eauto. }
  destruct JJ as [A B C D F G K].
  constructor; simpl.
  - intros a'. unfold pend_of at 1. simpl. rewrite pend_of_nset. unfold pendlist. rewrite kru_app, (kru_gen _ _ (gen_drops _)). simpl.
    change (held_a (emit s (EDrop (ci_uid c) (ci_sq c) true)) a') with (held_a s a').
    specialize (UP a'). unfold pendlist in UP.
    destruct (N.eqb a a') eqn:EA.
    + apply N.eqb_eq in EA. subst a'. rewrite (A a). unfold pendlist. rewrite kru_cons. simpl. unfold ru.
      destruct (rcb a c) eqn:R.
      * simpl. rewrite nremove_app_notin; auto. intros IN. apply UP. apply in_or_app. auto.
      * simpl. apply nremove_notin. exact UP.
    + rewrite (A a'). unfold pendlist. rewrite kru_cons. simpl. unfold ru. destruct (rcb a' c) eqn:R; auto.
      destruct (RC1 _ R) as [-> _]. rewrite N.eqb_refl in EA. discriminate EA.
  - intros a' x AX. specialize (B a' x AX). destruct (a_state x); auto. destruct B as [B|B]; auto.
  - exact C.
  - destruct (ci_sq c); auto. destruct (p || c_tear m || _ || nmem a (c_owed m)) eqn:O; auto.
    constructor; auto. apply nmem_false. repeat (apply orb_false_elim in O as [O ?]). auto.
  - intros a' IN. apply PN.
    destruct (ci_sq c) eqn:SQ; [|apply F; auto].
    destruct (p || c_tear m || _ || nmem a (c_owed m)) eqn:O; [apply F; auto|].
    destruct IN as [<-|IN]; [|apply F; auto].
    apply orb_false_elim in O as [O O4]. apply orb_false_elim in O as [O O3]. apply orb_false_elim in O as [O1 O2].
    assert (R : rcb a c = true) by (apply RC2; auto; congruence).
    destruct (G a (MDropInner c) (or_introl eq_refl) R) as [X|[X|X]]; auto; [congruence|].
    unfold mph in X. rewrite X in O3. discriminate O3.
  - intros a' mo' IN DM. apply in_app_or in IN as [IN|IN]; [exfalso; eapply drops_nodrop; eauto|].
    destruct (G a' mo' (or_intror IN) DM) as [X|[X|X]]; auto.
  - intros T. apply K. eapply teardown_work; eauto.
Qed.

Lemma I2_logclose a c k0 s pre s' :
  handle (MLogClose a c) s = (pre, s') -> I2 (MLogClose a c :: k0) s -> I2 (pre ++ k0) s'.
Proof.
  intros E II. eapply (I2_keff (MLogClose a c)); eauto.
  - eapply (qmop_quiet_pre (MLogClose a c)); eauto.
  - simpl in E. destruct (aget (actors s) a); inversion E; subst; [apply ke_log_rec, ke_refl | apply ke_refl].
  - intros b. simpl in E. destruct (aget (actors s) a); inversion E; subst; reflexivity.
  - intros b mo' IN. simpl in E. destruct (aget (actors s) a); inversion E; subst; destruct IN.
  - intros r mm b EQ. discriminate EQ.
Qed.

Lemma hok_rcb a b c : hok a c -> rcb b c = true -> b = a.
Proof.
  intros [(bd & arg & K & _)|(key & K & _)] R; unfold rcb in R; rewrite K in R; [|discriminate R].
  apply andb_prop in R as [R _]. apply N.eqb_eq in R. auto.
Qed.

Lemma qru_hok_other a b l : Forall (hok a) l -> a <> b -> qru b l = [].
Proof.
  intros F NE. induction F as [|c l H F IH]; simpl; auto. rewrite IH, app_nil_r. unfold ru.
  destruct (rcb b c) eqn:R; auto. exfalso. apply NE. symmetry. eapply hok_rcb; eauto.
Qed.

(* an actor cell becomes a Zombie; its held queue (if any) is handed to the continuation as drops, together with
   the notification unless the actor was a Zombie already *)
Lemma J2_held_out m mo k0 s a x x1 pre s1 :
  KS s -> qmop mo = true -> (forall b, mru b mo = []) -> (forall r mm, mo <> MRetInvoke r mm) ->
  aget (actors s) a = Some x -> a_state x1 = SZombie ->
  mainq s1 = mainq s -> actors s1 = aset (actors s) a x1 ->
  quiet pre -> (forall b, kru b pre = qru b (held_of x)) ->
  (forall b mo', In mo' pre -> dropmop b mo' -> exists c, In c (held_of x) /\ rcb b c = true) ->
  (a_state x = SZombie \/ exists nt mm, a_notify x = Some nt /\ In (MRetInvoke nt mm) pre) ->
  J2 m (mo :: k0) s -> J2 m (pre ++ k0) s1.
Proof.
  intros KS_ Q MR NR AX ZX MQ AC QP KR DR NT [A B C D F G K].
  pose proof (ks_act _ KS_ _ _ AX) as (_ & _ & NS & _ & HK).
  assert (PN : forall b, pn b (mo :: k0) -> pn b (pre ++ k0)).
  { intros b P. eapply pn_step; [exact Q | exact QP | exact P | intros r mm E; exfalso; eapply NR; eauto]. }
  assert (PNA : mph m a = 3%N \/ pn a (pre ++ k0)).
  { destruct NT as [Z|(nt & mm & N1 & N2)].
    - specialize (B a x AX). rewrite Z in B. destruct B; auto.
    - right. eapply pn_push; eauto. }
  assert (W : is_work mo = true) by (apply andb_prop in Q as [Q _]; exact Q).
  constructor; auto.
  - intros b. rewrite (A b). unfold pendlist, held_a. rewrite MQ, AC, kru_app, kru_cons, MR, KR. simpl.
    destruct (N.eq_dec a b) as [<-|NE].
    + rewrite aget_aset_eq, AX. unfold held_of at 2. rewrite ZX. simpl. rewrite <- app_assoc. reflexivity.
    + rewrite aget_aset_neq by auto. rewrite (qru_hok_other a b _ HK NE). reflexivity.
  - intros b y. rewrite AC. destruct (N.eq_dec a b) as [<-|NE].
    + rewrite aget_aset_eq. intros Y; inversion Y; subst y. rewrite ZX. exact PNA.
    + rewrite aget_aset_neq by auto. intros Y. specialize (B b y Y). destruct (a_state y); auto. destruct B; auto.
  - intros b P. rewrite AC. destruct (N.eq_dec a b) as [<-|NE]; [rewrite aget_aset_eq; eauto | rewrite aget_aset_neq by auto; auto].
  - intros b mo' IN DM. apply in_app_or in IN as [IN|IN].
    + destruct (DR b mo' IN DM) as (c & IC & R).
      assert (b = a) by (eapply hok_rcb; [eapply Forall_forall; eauto | exact R]). subst b.
      destruct PNA; auto.
    + destruct (G b mo' (or_intror IN) DM) as [X|[X|X]]; auto.
  - intros T. apply K. destruct QP. eapply teardown_work; eauto.
Qed.

Lemma state_drops_kru a x s l s' : state_drops a (a_state x) s = (l, s') ->
  s' = s /\ quiet l /\ (forall b, kru b l = qru b (held_of x)) /\
  (forall b mo', In mo' l -> dropmop b mo' -> exists c, In c (held_of x) /\ rcb b c = true).
Proof.
  unfold state_drops, held_of. destruct (a_state x); intros E; inversion E; subst; (split; [reflexivity|]).
  - split; [|split].
    + apply quiet_map_dropitem.
    + intros b. clear E. induction held; simpl; auto. rewrite IHheld. reflexivity.
    + intros b mo' IN DM. apply in_map_iff in IN as (c & <- & IC). exists c. auto.
  - split; [|split].
    + apply (quiet_cons (MValDrop a)); try reflexivity. apply quiet_app; [apply quiet_drops | apply quiet_slab_drops].
    + intros b. simpl. rewrite kru_app, (kru_gen _ _ (gen_drops _)), (kru_gen _ _ (gen_slab_drops _)). reflexivity.
    + intros b mo' [<-|IN] DM; [destruct DM|]. exfalso. apply in_app_or in IN as [IN|IN].
      * eapply drops_nodrop; eauto.
      * eapply gen_nodrop; [apply gen_slab_drops | exact IN | exact DM].
  - split; [apply quiet_nil|]. split; [reflexivity|]. intros b mo' [].
Qed.

Lemma I2_dropref a k0 s pre s' :
  KI (MDropRef a :: k0) s -> handle (MDropRef a) s = (pre, s') -> I2 (MDropRef a :: k0) s -> I2 (pre ++ k0) s'.
Proof.
  intros [KS_ _] E II. pose proof (qmop_quiet_pre (MDropRef a) _ _ _ eq_refl E) as QP.
  assert (NODM : forall b mo', In mo' (@nil mop) -> dropmop b mo' -> dropmop b (MDropRef a)) by (intros b mo' []).
  assert (NH : forall r mm b, MDropRef a = MRetInvoke r mm -> ~ nshape b r) by (intros r mm b EQ; discriminate EQ).
  simpl in E. unfold drop_ref in E. destruct (aget (actors s) a) as [x|] eqn:AX.
  - destruct (a_freed x).
    { inversion E; subst. eapply (I2_keff (MDropRef a)); eauto. apply ke_emit; [apply ke_refl | reflexivity]. }
    destruct (minrc_drop (a_rc x)) as [[v z]|].
    + destruct z.
      * set (x1 := mkActor SZombie (oz (count_set_state (a_strong x) STATE_ZOMBIE)) v None (a_logid x) true) in *.
        set (s1 := emit (upd_actor s a x1) (EModel M_FREE_ACTOR a)) in *.
        destruct (state_drops a (a_state x) s1) as [dl s2] eqn:SD. destruct (state_drops_kru _ _ _ _ _ SD) as (-> & QD & KD & DD).
        inversion E; subst pre s'. clear E.
        destruct II as (DK & m & MM & JJ).
        destruct (mon2_irrel _ (EModel M_FREE_ACTOR a) _ MM eq_refl) as (m2 & M2 & S2).
        split; [exact DK|]. exists m2. split; [exact M2|].
        eapply J2_same with (m := m) (s := s1); [|exact S2 | reflexivity | reflexivity].
        pose proof (ks_act _ KS_ _ _ AX) as (_ & _ & _ & NZ & _).
        eapply J2_held_out with (mo := MDropRef a) (x1 := x1) (x := x); eauto; try reflexivity.
        -- intros r mm EQ. discriminate EQ.
        -- intros b. rewrite kru_app, KD. destruct (a_notify x); reflexivity.
        -- intros b mo' IN DM. apply in_app_or in IN as [IN|IN]; [|eapply DD; eauto].
           destruct (a_notify x); simpl in IN; [destruct IN as [<-|[]]; destruct DM | destruct IN].
        -- destruct (a_notify x) as [nt|] eqn:NT; [right; exists nt, None; split; auto; left; reflexivity | left; auto].
      * inversion E; subst. eapply (I2_keff (MDropRef a)); eauto.
        eapply ke_upd; [apply ke_refl | exact AX | apply same_view_rc].
    + inversion E; subst. eapply (I2_keff (MDropRef a)); eauto. apply ke_emit; [apply ke_refl | reflexivity].
  - inversion E; subst. eapply (I2_keff (MDropRef a)); eauto. apply ke_emit; [apply ke_refl | reflexivity].
Qed.

Lemma I2_terminate a c k0 s pre s' :
  KI (MTerminate a c :: k0) s -> handle (MTerminate a c) s = (pre, s') -> I2 (MTerminate a c :: k0) s -> I2 (pre ++ k0) s'.
Proof.
  intros [KS_ _] E II. pose proof (qmop_quiet_pre (MTerminate a c) _ _ _ eq_refl E) as QP.
  simpl in E. unfold terminate in E. destruct (aget (actors s) a) as [x|] eqn:AX.
  - set (x1 := mkActor SZombie (oz (count_set_state (a_strong x) STATE_ZOMBIE)) (a_rc x) None (a_logid x) (a_freed x)) in *.
    set (s0 := if a_freed x then emit s (EModel M_UAF a) else s) in *.
    destruct (state_drops a (a_state x) (upd_actor s0 a x1)) as [dl s1] eqn:SD. destruct (state_drops_kru _ _ _ _ _ SD) as (-> & QD & KD & DD).
    destruct II as (DK & m & MM & JJ).
    assert (M0 : exists m0, mon2 (tr s0) = Some m0 /\ same2 m m0).
    { unfold s0. destruct (a_freed x); [apply mon2_irrel; auto | exists m; split; [auto | apply same2_refl]]. }
    destruct M0 as (m0 & M0 & S0).
    assert (J0 : J2 m0 (MTerminate a c :: k0) s0).
    { eapply J2_same; eauto; unfold s0; destruct (a_freed x); reflexivity. }
    assert (A0 : aget (actors s0) a = Some x) by (unfold s0; destruct (a_freed x); exact AX).
    assert (DK0 : dk s0 = DGlobal) by (unfold s0; destruct (a_freed x); exact DK).
    assert (K0 : KS s0) by (unfold s0; destruct (a_freed x); [eapply KS_same; eauto | auto]).
    assert (ST : s' = upd_actor s0 a x1) by (destruct (a_notify x); inversion E; reflexivity).
    subst s'. split; [exact DK0|]. exists m0. split; [exact M0|].
    pose proof (ks_act _ K0 _ _ A0) as (_ & _ & _ & NZ & _).
    eapply J2_held_out with (mo := MTerminate a c) (x1 := x1) (x := x); eauto; try reflexivity.
    + intros r mm EQ. discriminate EQ.
    + intros b. destruct (a_notify x); inversion E; subst pre; rewrite ?kru_app, KD; simpl; rewrite ?app_nil_r; reflexivity.
    + intros b mo' IN DM. destruct (a_notify x); inversion E; subst pre; [|eapply DD; eauto].
      apply in_app_or in IN as [IN|IN]; [eapply DD; eauto|]. destruct IN as [<-|[<-|[]]]; destruct DM.
    + destruct (a_notify x) as [nt|] eqn:NT; [right | left; auto]. inversion E; subst pre.
      exists nt, (Some (MCause c)). split; auto. apply in_or_app. right. right. left. reflexivity.
  - inversion E; subst. eapply (I2_keff (MTerminate a c)); eauto.
    + apply ke_emit; [apply ke_refl | reflexivity].
    + intros r mm b EQ. discriminate EQ.
Qed.

Lemma J2_k_quiet_pn m mo k0 pre s :
  qmop mo = true -> quiet pre -> (forall a, kru a pre = mru a mo) ->
  (forall a mo', In mo' pre -> dropmop a mo' -> dropmop a mo) ->
  (forall a, pn a (mo :: k0) -> pn a (pre ++ k0)) ->
  J2 m (mo :: k0) s -> J2 m (pre ++ k0) s.
Proof.
  intros Q QP KR DM PN [A B C D F G K]. pose proof Q as Q'. apply andb_prop in Q' as [W _]. destruct QP as [PW PR].
  constructor; auto.
  - intros a. rewrite (A a). unfold pendlist. rewrite kru_app, kru_cons, KR. reflexivity.
  - intros a x AX. specialize (B a x AX). destruct (a_state x); auto. destruct B as [B|B]; auto.
  - intros a mo' IN DD. apply in_app_or in IN as [IN|IN].
    + destruct (G a mo (or_introl eq_refl) (DM _ _ IN DD)) as [X|[X|X]]; auto.
    + destruct (G a mo' (or_intror IN) DD) as [X|[X|X]]; auto.
  - intros TD. apply K. eapply teardown_work; eauto.
Qed.

Lemma I2_keff_pn mo k0 s pre s' :
  qmop mo = true -> quiet pre -> keff s s' -> (forall a, kru a pre = mru a mo) ->
  (forall a mo', In mo' pre -> dropmop a mo' -> dropmop a mo) ->
  (forall a, pn a (mo :: k0) -> pn a (pre ++ k0)) ->
  I2 (mo :: k0) s -> I2 (pre ++ k0) s'.
Proof.
  intros Q QP KE KR DM NH (DK & m & MM & JJ).
  destruct (keff_J2 _ _ KE m _ MM JJ) as (m1 & M1 & J1 & _).
  split; [rewrite (keff_dk _ _ KE); exact DK|]. exists m1. split; auto. eapply J2_k_quiet_pn; eauto.
Qed.

Lemma pn_tail a r mm k : pn a (MRetInvoke r mm :: k) -> ~ nshape a r -> pn a k.
Proof.
  intros (r' & mm' & IN & NS) NN. rewrite calmpre_q in IN by reflexivity. destruct IN as [E|IN].
  - inversion E; subst. contradiction.
  - exists r', mm'. auto.
Qed.

Lemma ru_unsub b ci : ci_sq ci = None -> ru b ci = [].
Proof. unfold ru, rcb. intros ->. destruct (ci_kind ci); auto. rewrite andb_false_r. reflexivity. Qed.

Lemma rcb_unsub b ci : ci_sq ci = None -> rcb b ci = false.
Proof. unfold rcb. intros ->. destruct (ci_kind ci); auto. rewrite andb_false_r. reflexivity. Qed.

Lemma step02_notify m a c :
  step02 m (ENotify a c) = Some (mk02 (c_tgt m) (c_pend m) (nset (c_phase m) a 3%N) (c_done m) (c_tear m) (nremove a (c_owed m))).
Proof. reflexivity. Qed.

Lemma J2_notify m rid a inner m0 k0 s c :
  zombie s a -> J2 m (MRetInvoke (Ret rid (RKNotify a inner)) m0 :: k0) s ->
  J2 (mk02 (c_tgt m) (c_pend m) (nset (c_phase m) a 3%N) (c_done m) (c_tear m) (nremove a (c_owed m))) k0 (emit s (ENotify a c)).
Proof.
  intros (z & AZ & ZZ) [A B C D F G K].
  set (mo := MRetInvoke (Ret rid (RKNotify a inner)) m0) in *.
  assert (PT : forall b, b <> a -> pn b (mo :: k0) -> pn b k0).
  { intros b NE P. apply (pn_tail b _ _ _ P). simpl. congruence. }
  destruct (nodup_nremove a _ D) as (N1 & N2 & N3).
  assert (PH : forall b, mph (mk02 (c_tgt m) (c_pend m) (nset (c_phase m) a 3%N) (c_done m) (c_tear m) (nremove a (c_owed m))) b
                         = if N.eqb a b then 3%N else mph m b).
  { intros b. unfold mph at 1. simpl. apply mph_nset. }
  constructor; simpl.
  - intros b. change (pend_of m b = pendlist b k0 s). rewrite (A b). reflexivity.
  - intros b x AX. change (aget (actors s) b = Some x) in AX. rewrite PH. destruct (N.eqb a b) eqn:EA.
    + apply N.eqb_eq in EA. subst b. rewrite AZ in AX. inversion AX; subst. rewrite ZZ. auto.
    + specialize (B b x AX). destruct (a_state x); auto. destruct B as [B|B]; auto. right. apply PT; auto.
      intros ->. rewrite N.eqb_refl in EA. discriminate EA.
  - intros b. rewrite PH. destruct (N.eqb a b) eqn:EA.
    + apply N.eqb_eq in EA. subst b. eauto.
    + apply C.
  - exact N1.
  - intros b IN. assert (NE : b <> a) by (intros ->; contradiction). apply PT; auto. apply F. apply N3; auto.
  - intros b mo' IN DM. rewrite PH. destruct (N.eqb a b) eqn:EA; auto.
    destruct (G b mo' (or_intror IN) DM) as [X|[X|X]]; auto. right. right. apply PT; auto.
    intros ->. rewrite N.eqb_refl in EA. discriminate EA.
  - intros T. apply K. apply (teardown_work mo k0 []); auto.
Qed.

Lemma I2_retinvoke r m0 k0 s pre s' :
  WF (MRetInvoke r m0 :: k0) s -> KI (MRetInvoke r m0 :: k0) s ->
  handle (MRetInvoke r m0) s = (pre, s') -> I2 (MRetInvoke r m0 :: k0) s -> I2 (pre ++ k0) s'.
Proof.
  intros [WK WQ] [KS_ KM] E II. pose proof (qmop_quiet_pre (MRetInvoke r m0) _ _ _ eq_refl E) as QP.
  inversion WK as [|? ? MW _]; subst. unfold mwf, nsf in MW. simpl in MW.
  pose proof (Forall_inv KM) as ZB. simpl in ZB.
  simpl in E. unfold ret_invoke in E. destruct r as [rid rk]. destruct rk.
  - inversion E; subst. eapply (I2_keff (MRetInvoke _ m0)); eauto.
    + apply ke_push_frame, ke_emit; [apply ke_refl | reflexivity].
    + intros b mo' [<-|[<-|[]]] [].
    + intros r mm b EQ. inversion EQ; subst. intros [].
  - (* ret_to *)
    simpl in MW. pose proof (Forall_inv MW) as [TK TQ]. simpl in TK, TQ.
    inversion E; subst. eapply (I2_keff (MRetInvoke _ m0)); eauto.
    + apply ke_submit_call; [apply ke_emit; [apply ke_refl | reflexivity] | destruct ci; exact Logic.I | | destruct ci; exact TQ].
      apply (as_call_iwf s); [reflexivity | exact (Forall_inv_tail (Forall_inv_tail MW)) | split; [exact TK | exact TQ]].
    + intros r mm b EQ. inversion EQ; subst. intros [].
  - simpl in MW. pose proof (Forall_inv MW) as [TK TQ]. simpl in TK, TQ.
    destruct m0 as [mm|]; inversion E; subst.
    + eapply (I2_keff (MRetInvoke _ (Some mm))); eauto.
      * apply ke_submit_call; [apply ke_emit; [apply ke_refl | reflexivity] | destruct ci; exact Logic.I | | destruct ci; exact TQ].
        apply (as_call_iwf s); [reflexivity | exact (Forall_inv_tail (Forall_inv_tail MW)) | split; [exact TK | exact TQ]].
      * intros r mm' b EQ. inversion EQ; subst. intros [].
    + eapply (I2_keff (MRetInvoke _ None)); eauto.
      * apply ke_emit; [apply ke_refl | reflexivity].
      * intros b. simpl. rewrite ru_unsub; auto.
      * intros b mo' [<-|[<-|[]]] DM; [destruct DM|]. simpl in DM. rewrite rcb_unsub in DM; auto. discriminate DM.
      * intros r mm' b EQ. inversion EQ; subst. intros [].
  - (* the notifier *)
    destruct II as (DK & m & MM & JJ).
    set (e := ENotify a (msg_cause m0)).
    set (m1 := mk02 (c_tgt m) (c_pend m) (nset (c_phase m) a 3%N) (c_done m) (c_tear m) (nremove a (c_owed m))).
    assert (M1 : mon2 (tr (emit s e)) = Some m1) by (unfold mon2 in *; simpl; rewrite MM; reflexivity).
    assert (ZA : zombie s a) by (apply ZB; reflexivity).
    assert (J1 : J2 m1 k0 (emit s e)) by (eapply J2_notify; eauto).
    destruct inner as [[p ci]|]; inversion E; subst pre s'.
    + simpl in MW. pose proof (Forall_inv MW) as [TK TQ]. simpl in TK, TQ.
      assert (KE : keff (emit s e) (submit (emit s e) QMain (as_call p ci None))).
      { apply ke_submit_call; [apply ke_refl | destruct ci; exact Logic.I | | destruct ci; exact TQ].
        apply (as_call_iwf s); [reflexivity | exact (Forall_inv_tail (Forall_inv_tail MW)) | split; [exact TK | exact TQ]]. }
      destruct (keff_J2 _ _ KE m1 _ M1 J1) as (m2 & M2 & J2_ & _).
      split; [exact DK|]. exists m2. split; auto.
    + split; [exact DK|]. exists m1. split; auto.
  - (* the wrapper of a slab child *)
    destruct m0 as [mm|]; inversion E; subst.
    + eapply (I2_keff_pn (MRetInvoke _ (Some mm))); eauto.
      * apply ke_push_internal; [apply ke_ref_clone, ke_refl | exact Logic.I].
      * intros b mo' [<-|[<-|[]]] [].
      * intros b (r' & mm' & IN & NS). rewrite calmpre_q in IN by reflexivity. destruct IN as [EQ|IN].
        -- inversion EQ; subst. eapply pn_push; [exact QP | left; reflexivity | exact NS].
        -- exists r', mm'. split; auto. rewrite calmpre_app by auto. apply in_or_app. right. exact IN.
    + eapply (I2_keff_pn (MRetInvoke _ None)); eauto.
      * apply ke_refl.
      * intros b mo' [<-|[<-|[]]] [].
      * intros b (r' & mm' & IN & NS). rewrite calmpre_q in IN by reflexivity. destruct IN as [EQ|IN].
        -- inversion EQ; subst. eapply pn_push; [exact QP | right; left; reflexivity | exact NS].
        -- exists r', mm'. split; auto. rewrite calmpre_app by auto. apply in_or_app. right. exact IN.
Qed.

Lemma step02_ready m a : mph m a = 1%N ->
  step02 m (EReady a) = Some (mk02 (c_tgt m) (c_pend m) (nset (c_phase m) a 2%N) (c_done m) (c_tear m) (c_owed m)).
Proof. intros P. unfold step02. simpl. unfold mph in P. rewrite P. reflexivity. Qed.

Lemma I2_toready a k0 s pre s' :
  WF (MToReady a :: k0) s -> KI (MToReady a :: k0) s -> handle (MToReady a) s = (pre, s') -> I2 (MToReady a :: k0) s -> I2 (pre ++ k0) s'.
Proof.
  intros [WK _] [KS_ _] E II. pose proof (Forall_inv (Forall_inv WK)) as TA. simpl in TA.
  destruct (handle_work (MToReady a) _ _ _ eq_refl E) as [PW _].
  assert (NQ : qmop (MToReady a) = false) by reflexivity.
  assert (GEN : forall e, krel e = false -> pre = [] -> s' = emit s e -> I2 (pre ++ k0) s').
  { intros e KR -> ->. eapply (I2_nq_keff (MToReady a)); eauto; try reflexivity. apply ke_emit; [apply ke_refl | exact KR]. }
  simpl in E. destruct (aget (actors s) a) as [x|] eqn:AX.
  - destruct (a_state x) eqn:SX; inversion E; subst pre s'; clear E; try (eapply GEN; eauto; reflexivity). clear GEN.
    destruct II as (DK & m & MM & JJ).
    set (x1 := mkActor (SReady [] [] 0%N) (oz (count_set_state (a_strong x) STATE_READY)) (a_rc x) (a_notify x) (a_logid x) (a_freed x)) in *.
    pose proof (ph_of_state _ _ _ _ _ _ JJ NQ AX) as P. rewrite SX in P.
    pose proof (ks_act _ KS_ _ _ AX) as (_ & _ & _ & _ & HO). unfold held_of in HO. rewrite SX in HO.
    pose proof (owed_nil _ _ _ _ JJ NQ) as OW.
    split; [exact DK|]. eexists. split.
    { unfold mon2 in *. simpl. rewrite MM. apply step02_ready. exact P. }
    assert (PH : forall b, mph (mk02 (c_tgt m) (c_pend m) (nset (c_phase m) a 2%N) (c_done m) (c_tear m) (c_owed m)) b
                         = if N.eqb a b then 2%N else mph m b).
    { intros b. unfold mph at 1. simpl. apply mph_nset. }
    apply J2_build; simpl; auto.
    + intros b. change (pend_of m b = pendlist b (map MRunItem held ++ k0) (emit (upd_actor s a x1) (EReady a))).
      rewrite (o_pend _ _ _ JJ b). unfold pendlist, held_a, upd_actor. simpl. rewrite kru_app, kru_runitems.
      destruct (N.eq_dec a b) as [<-|NE].
      * rewrite aget_aset_eq, AX. unfold held_of. simpl. rewrite SX, <- app_assoc. reflexivity.
      * rewrite aget_aset_neq by auto. rewrite (qru_hok_other a b _ HO NE). reflexivity.
    + intros b y. rewrite PH. unfold upd_actor; simpl. destruct (N.eq_dec a b) as [<-|NE].
      * rewrite aget_aset_eq, N.eqb_refl. intros Y; inversion Y; subst y. reflexivity.
      * rewrite aget_aset_neq by auto. destruct (N.eqb a b) eqn:EA; [apply N.eqb_eq in EA; contradiction|].
        intros Y. eapply ph_of_state; eauto.
    + intros b. rewrite PH. unfold upd_actor; simpl. destruct (N.eq_dec a b) as [<-|NE].
      * rewrite aget_aset_eq. eauto.
      * rewrite aget_aset_neq by auto. destruct (N.eqb a b) eqn:EA; [apply N.eqb_eq in EA; contradiction|]. apply (o_pe _ _ _ JJ).
    + intros b mo' IN DM. rewrite PH. apply in_app_or in IN as [IN|IN].
      * apply in_map_iff in IN as (c & <- & _). destruct DM.
      * destruct (drop_justified _ _ _ _ _ _ JJ NQ IN DM) as [X|X]; auto.
        destruct (N.eqb a b) eqn:EA; auto. apply N.eqb_eq in EA. subst b. rewrite P in X. discriminate X.
    + intros T. apply (o_tear _ _ _ JJ). eapply teardown_work; eauto.
  - exfalso. destruct II as (_ & m & MM & JJ). eapply seen_known; eauto.
Qed.

(* ------------------------------------------------------------------ *)
(** * Phase and top-level micro-ops *)

Lemma kru_tops a k : tops k = true -> kru a k = [].
Proof.
  induction k as [|x r IH]; simpl; auto. intros Q. apply andb_prop in Q as [Q1 Q2]. rewrite IH; auto.
  destruct x; try discriminate Q1; reflexivity.
Qed.

Lemma tops_nodrop k a mo' : tops k = true -> In mo' k -> ~ dropmop a mo'.
Proof.
  intros T IN. unfold tops in T. rewrite forallb_forall in T. specialize (T _ IN). destruct mo'; try discriminate T; intros [].
Qed.

Lemma J2_phase m m2 mo k0 pre2 s s2 :
  J2 m (mo :: k0) s -> qmop mo = false -> (forall a, mru a mo = []) ->
  c_pend m2 = c_pend m -> c_phase m2 = c_phase m -> c_owed m2 = c_owed m ->
  actors s2 = actors s ->
  (forall a, kru a pre2 ++ kru a k0 ++ qru a (mainq s2) = kru a k0 ++ qru a (mainq s)) ->
  (forall a mo', In mo' pre2 -> dropmop a mo' -> c_tear m2 = true) ->
  (c_tear m2 = c_tear m \/ c_tear m2 = true \/ forall a mo', In mo' k0 -> ~ dropmop a mo') ->
  (teardown (pre2 ++ k0) -> c_tear m2 = true) ->
  J2 m2 (pre2 ++ k0) s2.
Proof.
  intros JJ NQ MR S1 S2 S5 AC PL DP DT TD.
  assert (PH : forall a, mph m2 a = mph m a) by (intros a; unfold mph; rewrite S2; reflexivity).
  apply J2_build; auto.
  - intros a. unfold pend_of. rewrite S1. change (pend_of m a = pendlist a (pre2 ++ k0) s2). rewrite (o_pend _ _ _ JJ a).
    unfold pendlist, held_a. rewrite AC, kru_app, kru_cons, MR. simpl. rewrite <- app_assoc, PL. reflexivity.
  - intros a x. rewrite AC, PH. intros AX. eapply ph_of_state; eauto.
  - intros a. rewrite AC, PH. apply (o_pe _ _ _ JJ).
  - rewrite S5. eapply owed_nil; eauto.
  - intros a mo' IN DM. apply in_app_or in IN as [IN|IN]; [left; eapply DP; eauto|].
    destruct DT as [T|[T|T]]; [|left; exact T | exfalso; eapply T; eauto].
    rewrite T, PH. eapply drop_justified; eauto.
Qed.

Lemma step02_runret m b : c_owed m = [] -> step02 m (ERunRet b) = Some m.
Proof. intros O. unfold step02. simpl. rewrite O. reflexivity. Qed.

Lemma notear_top w r : forallb is_work w = true -> tops r = true -> ~ teardown (w ++ r).
Proof. intros W T. unfold teardown. rewrite phase_of_work, tops_phase; auto. Qed.

Lemma I2_phase mo k0 s pre s' :
  shape (mo :: k0) -> Tags (mo :: k0) s -> WF (mo :: k0) s -> KI (mo :: k0) s ->
  is_work mo = false -> handle mo s = (pre, s') -> I2 (mo :: k0) s -> I2 (pre ++ k0) s'.
Proof.
  intros SH T WW KK W E (DK & m & MM & JJ).
  apply Tags_split in T as [Q _]. pose proof Q as [QA QB QC QD QH].
  destruct SH as [p [PH _]].
  unfold phase_of in PH. simpl in PH. rewrite W in PH.
  assert (NQ : qmop mo = false) by (unfold qmop; rewrite W; reflexivity).
  assert (MC : forall a, mru a mo = []) by (intros a; destruct mo; try discriminate W; reflexivity).
  pose proof (owed_nil _ _ _ _ JJ NQ) as OW.
  assert (SAME : forall m2 s2 pre2, same2 m m2 -> mainq s2 = mainq s -> actors s2 = actors s -> (forall a, kru a pre2 = []) ->
                 (forall a mo', In mo' pre2 -> ~ dropmop a mo') -> ~ teardown (pre2 ++ k0) ->
                 J2 m2 (pre2 ++ k0) s2).
  { intros m2 s2 pre2 (S1 & S2 & S3 & S4 & S5) MQ AC KP ND NT. eapply (J2_phase m _ _ k0 _ s _ JJ NQ MC); [exact S1 | exact S2 | exact S5 | exact AC | | | left; exact S4 | intros TD; contradiction].
    - intros a. rewrite KP, MQ. reflexivity.
    - intros a mo' IN DM. exfalso. eapply ND; eauto.
  }
  destruct mo; try discriminate W; simpl in E.
  - (* MTop *)
    simpl in PH. destruct (tops k0) eqn:TP; [|discriminate].
    unfold do_top in E. destruct o.
    + destruct (alive s); inversion E; subst pre s'; (split; [exact DK|]); exists m; (split; [exact MM|]);
        apply SAME; auto; try apply same2_refl.
      * intros a mo' [<-|[<-|[]]] [].
      * unfold teardown, phase_of. simpl. rewrite TP. auto.
      * intros a mo' [<-|[]] [].
      * unfold teardown, phase_of. simpl. rewrite TP. auto.
    + destruct (alive s); [|unfold bad in E]; inversion E; subst pre s'.
      * split; [exact DK|]. exists (mk02 (c_tgt m) (c_pend m) (c_phase m) (c_done m) false (c_owed m)).
        split; [unfold mon2 in *; simpl; rewrite MM; unfold step02; simpl; reflexivity|].
        eapply (J2_phase m _ _ k0 _ s _ JJ NQ MC); [reflexivity | reflexivity | reflexivity | reflexivity | | | | ].
        -- intros a. reflexivity.
        -- intros a mo' [<-|[<-|[<-|[]]]] [].
        -- right. right. intros a mo'. apply tops_nodrop. exact TP.
        -- unfold teardown, phase_of. simpl. rewrite Z.eqb_refl, TP. intros [].
      * split; [exact DK|]. destruct (mon2_irrel _ (EBad 50) _ MM eq_refl) as (m2 & M2 & S2). exists m2. split; [exact M2|].
        apply SAME; auto. apply (notear_top []); auto.
    + inversion E; subst pre s'. split; [exact DK|]. exists m. split; [exact MM|].
      apply SAME; auto; try apply same2_refl.
      * intros a mo' [<-|[<-|[]]] [].
      * apply (notear_top [MActs l; MPopFrame]); auto.
    + destruct (alive s); inversion E; subst pre s'.
      * split; [exact DK|]. exists (mk02 (c_tgt m) (c_pend m) (c_phase m) (c_done m) true (c_owed m)).
        split; [unfold mon2 in *; simpl; rewrite MM; unfold step02; simpl; reflexivity|].
        eapply (J2_phase m _ _ k0 _ s _ JJ NQ MC); [reflexivity | reflexivity | reflexivity | reflexivity | intros a; reflexivity | intros; reflexivity | right; left; reflexivity | intros; reflexivity].
      * split; [exact DK|]. exists m. split; [exact MM|]. apply SAME; auto; try apply same2_refl. apply (notear_top []); auto.
    + inversion E; subst pre s'. split; [exact DK|]. exists m. split; [exact MM|].
      apply SAME; auto; try apply same2_refl.
      * intros a mo' [<-|[]] [].
      * unfold teardown, phase_of. simpl. rewrite TP. auto.
    + destruct (alive s); [|unfold bad in E]; inversion E; subst pre s'.
      * split; [exact DK|]. destruct (mon2_irrel _ (ESetLogger lvls) _ MM eq_refl) as (m2 & M2 & S2). exists m2. split; [exact M2|].
        apply SAME; auto. apply (notear_top []); auto.
      * split; [exact DK|]. destruct (mon2_irrel _ (EBad 51) _ MM eq_refl) as (m2 & M2 & S2). exists m2. split; [exact M2|].
        apply SAME; auto. apply (notear_top []); auto.
    + destruct (alive s); [|unfold bad in E]; inversion E; subst pre s'.
      * split; [destruct (haslogger _); exact DK|].
        destruct (mon2_irrel _ (ESetFilter lvls) _ MM eq_refl) as (m2 & M2 & S2).
        change (haslogger (emit s (ESetFilter lvls))) with (haslogger s). destruct (haslogger s).
        -- destruct (mon2_irrel _ (ELog 0 LOGLEVEL_INFO 0 9) _ M2 eq_refl) as (m3 & M3 & S3). exists m3. split; [exact M3|].
           apply SAME; auto; [eapply same2_trans; eauto | apply (notear_top []); auto].
        -- exists m2. split; [exact M2|]. apply SAME; auto. apply (notear_top []); auto.
      * split; [exact DK|]. destruct (mon2_irrel _ (EBad 52) _ MM eq_refl) as (m2 & M2 & S2). exists m2. split; [exact M2|].
        apply SAME; auto. apply (notear_top []); auto.
  - (* MNew *)
    simpl in PH. destruct (tops k0) eqn:TP; [|discriminate].
    inversion E; subst pre s'. rewrite DK. split; [exact DK|].
    exists (mk02 (c_tgt m) (c_pend m) (c_phase m) (c_done m) true (c_owed m)).
    split; [unfold mon2 in *; simpl; rewrite MM; unfold step02; simpl; reflexivity|].
    eapply (J2_phase m _ _ k0 _ s _ JJ NQ MC); [reflexivity | reflexivity | reflexivity | reflexivity | | intros; reflexivity | right; left; reflexivity | intros; reflexivity].
    intros a. simpl. rewrite (kru_tops _ _ TP). simpl. rewrite app_nil_r.
    clear. induction (mainq s); simpl; auto. rewrite IHl. reflexivity.
  - (* MRunIdle *)
    destruct k0 as [|m1 k1]; [discriminate|]. destruct m1; try discriminate PH.
    destruct k1 as [|m2 k2]; [discriminate|]. destruct m2; try discriminate PH.
    destruct ((t =? t0) && tops k2) eqn:TP; [|discriminate].
    assert (NT : forall w, forallb is_work w = true -> ~ teardown (w ++ MRunMain t :: MLoop t0 :: k2)).
    { intros w Hw. unfold teardown. rewrite phase_of_work; auto. unfold phase_of. simpl. rewrite TP. auto. }
    destruct idle; [destruct (idleq s) as [|c r] eqn:IQ|]; inversion E; subst pre s'.
    + split; [exact DK|]. exists m. split; [exact MM|]. apply SAME; auto; try apply same2_refl; try (apply (NT []); reflexivity).
    + split; [exact DK|]. exists m. split; [exact MM|]. apply SAME; auto; try apply same2_refl.
      * intros a. simpl. rewrite app_nil_r. apply ru_plain.
        pose proof (qt_idle _ Q) as QC'. rewrite IQ in QC'. inversion QC' as [|? ? [C _] _]; subst. exact C.
      * intros a mo' [<-|[]] [].
    + split; [exact DK|]. exists m. split; [exact MM|]. apply SAME; auto; try apply same2_refl; try (apply (NT []); reflexivity).
  - (* MRunMain *)
    destruct k0 as [|m1 k1]; [discriminate|]. destruct m1; try discriminate PH.
    destruct ((t =? t0) && tops k1) eqn:TP; [|discriminate]. pose proof TP as TP'. apply andb_prop in TP' as [_ TP'].
    assert (NT : forall l, ~ teardown (map MRunItem l ++ MLoop t0 :: k1)).
    { intros l. unfold teardown. rewrite phase_of_work by apply work_map_runitem. unfold phase_of. simpl. rewrite TP'. auto. }
    assert (ND : forall l a mo', In mo' (map MRunItem l) -> ~ dropmop a mo').
    { intros l a mo' IN. apply in_map_iff in IN as (c & <- & _). intros []. }
    assert (K0 : forall a, kru a (MLoop t0 :: k1) = []) by (intros a; rewrite kru_cons; simpl; apply kru_tops; auto).
    destruct (t >? now s) eqn:GT; inversion E; subst pre s'; clear E.
    + set (fl := map ti_ci (ti_sort (filter (ti_due t) (timers s)))).
      assert (FT : Forall (tagged QTimer) fl).
      { unfold fl. apply Forall_forall. intros c Hc. apply in_map_iff in Hc as (y & <- & Hy). apply ti_sort_in in Hy.
        apply filter_In in Hy as [Hy _]. eapply Forall_forall in QD; [exact QD|]. apply in_map. exact Hy. }
      split; [destruct (ambiguous _); exact DK|].
      assert (MX : exists m2, mon2 (tr (if ambiguous (filter (ti_due t) (timers s)) then emit (set_now (set_mainq s []) t) (EModel M_AMBIG 0) else set_now (set_mainq s []) t)) = Some m2 /\ same2 m m2).
      { destruct (ambiguous _); [apply (mon2_irrel _ (EModel M_AMBIG 0) _ MM eq_refl) | exists m; split; [exact MM | apply same2_refl]]. }
      destruct MX as (m2 & M2 & (S1 & S2 & S3 & S4 & S5)). exists m2. split; [destruct (ambiguous _); exact M2|].
      eapply (J2_phase m _ _ (MLoop t0 :: k1) _ s _ JJ NQ MC); [exact S1 | exact S2 | exact S5 | | | | left; exact S4 | ].
      * destruct (ambiguous _); reflexivity.
      * intros a. rewrite K0, kru_runitems, qru_app, (qru_tagged _ QTimer fl FT). destruct (ambiguous _); simpl; rewrite !app_nil_r; reflexivity.
      * intros a mo' IN DM. exfalso. eapply ND; eauto.
      * intros TD. exfalso. eapply NT; eauto.
    + split; [exact DK|]. exists m. split; [exact MM|].
      eapply (J2_phase m _ _ (MLoop t0 :: k1) _ s _ JJ NQ MC); [reflexivity | reflexivity | reflexivity | reflexivity | | | left; reflexivity | ].
      * intros a. rewrite K0, kru_runitems. simpl. rewrite !app_nil_r. reflexivity.
      * intros a mo' IN DM. exfalso. eapply ND; eauto.
      * intros TD. exfalso. eapply NT; eauto.
  - (* MLoop *)
    destruct (tops k0) eqn:TP; [|discriminate].
    assert (NT : forall l t1, ~ teardown ((map MRunItem l ++ [MLoop t1]) ++ k0)).
    { intros l t1. rewrite <- app_assoc. unfold teardown. rewrite phase_of_work by apply work_map_runitem. unfold phase_of. simpl. rewrite TP. auto. }
    assert (ND : forall l t1 a mo', In mo' (map MRunItem l ++ [MLoop t1]) -> ~ dropmop a mo').
    { intros l t1 a mo' IN. apply in_app_or in IN as [IN|[<-|[]]]; [|intros []]. apply in_map_iff in IN as (c & <- & _). intros []. }
    destruct (mainq s) as [|c l] eqn:MQ.
    + destruct (lazyq s) as [|c l] eqn:LQ; inversion E; subst pre s'.
      * (* run returns *)
        split; [destruct (t >? recreate s); exact DK|].
        exists m. split.
        { assert (TRS : forall v, tr (if t >? recreate s then set_recreate s v else s) = tr s) by (intros v; destruct (t >? recreate s); reflexivity).
          unfold mon2 in *. simpl tr. simpl monr. rewrite TRS, MM. apply step02_runret. exact OW. }
        apply SAME; auto; try apply same2_refl.
        -- simpl. destruct (t >? recreate s); exact MQ.
        -- simpl. destruct (t >? recreate s); reflexivity.
        -- apply (notear_top []); auto.
      * (* a lazy batch *)
        split; [exact DK|]. exists m. split; [exact MM|].
        change (MRunItem c :: map MRunItem l ++ [MLoop t]) with (map MRunItem (c :: l) ++ [MLoop t]).
        apply SAME; auto; try apply same2_refl.
        -- intros a. rewrite kru_app, kru_runitems. rewrite (qru_tagged _ QLazy); [reflexivity | exact QB].
        -- apply ND.
    + (* a main batch *)
      inversion E; subst pre s'. split; [exact DK|]. exists m. split; [exact MM|].
      change (MRunItem c :: map MRunItem l ++ [MLoop t]) with (map MRunItem (c :: l) ++ [MLoop t]).
      eapply (J2_phase m _ _ k0 _ s _ JJ NQ MC); [reflexivity | reflexivity | reflexivity | reflexivity | | | left; reflexivity | ].
      * intros a. rewrite MQ, (kru_tops _ _ TP), kru_app, kru_runitems. simpl. rewrite !app_nil_r. reflexivity.
      * intros a mo' IN DM. exfalso. eapply ND; eauto.
      * intros TD. exfalso. eapply NT; eauto.
  - (* MDrain *)
    destruct (tops k0) eqn:TP; [|discriminate].
    assert (TR : c_tear m = true) by (apply (o_tear _ _ _ JJ); unfold teardown, phase_of; simpl; rewrite TP; exact Logic.I).
    destruct (i >=? TEARDOWN_ROUNDS).
    + inversion E; subst pre s'. destruct (is_nil (mainq s)).
      * split; [exact DK|]. exists m. split; [exact MM|]. eapply (J2_phase m _ _ k0 _ s _ JJ NQ MC); [reflexivity | reflexivity | reflexivity | reflexivity | intros a; reflexivity | intros; exact TR | left; reflexivity | intros; exact TR].
      * split; [exact DK|]. match goal with |- context [emit s ?e] => destruct (mon2_irrel _ e _ MM eq_refl) as (m2 & M2 & (S1 & S2 & S3 & S4 & S5)) end.
        exists m2. split; [exact M2|]. eapply (J2_phase m _ _ k0 _ s _ JJ NQ MC); [exact S1 | exact S2 | exact S5 | reflexivity | intros a; reflexivity | intros; congruence | left; exact S4 | intros; congruence].
    + destruct (mainq s) as [|c l] eqn:MQ; inversion E; subst pre s'.
      * split; [exact DK|]. exists m. split; [exact MM|]. eapply (J2_phase m _ _ k0 _ s _ JJ NQ MC); [reflexivity | reflexivity | reflexivity | reflexivity | intros a; rewrite MQ; reflexivity | intros; exact TR | left; reflexivity | intros; exact TR].
      * split; [exact DK|]. exists m. split; [exact MM|].
        change (MDropItem c :: map MDropItem l ++ [MDrain (i + 1)]) with (map MDropItem (c :: l) ++ [MDrain (i + 1)]).
        eapply (J2_phase m _ _ k0 _ s _ JJ NQ MC); [reflexivity | reflexivity | reflexivity | reflexivity | | intros; exact TR | left; reflexivity | intros; exact TR].
        intros a. rewrite MQ, (kru_tops _ _ TP), kru_app. simpl. rewrite !app_nil_r. f_equal.
        clear. induction l as [|y l IH]; simpl; auto. rewrite IH. reflexivity.
  - (* MDropFields *)
    destruct (tops k0) eqn:TP; [|discriminate]. inversion E; subst pre s'. clear E.
    assert (TR : c_tear m = true) by (apply (o_tear _ _ _ JJ); unfold teardown, phase_of; simpl; rewrite TP; exact Logic.I).
    split; [destruct (ambiguous _); exact DK|].
    assert (MX : exists m2, mon2 (tr (if ambiguous (timers s) then emit s (EModel M_AMBIG 1) else s)) = Some m2 /\ same2 m m2).
    { destruct (ambiguous _); [apply (mon2_irrel _ (EModel M_AMBIG 1) _ MM eq_refl) | exists m; split; [exact MM | apply same2_refl]]. }
    destruct MX as (m2 & M2 & S2).
    destruct (mon2_irrel _ EDropFields _ M2 eq_refl) as (m3 & M3 & S3).
    exists m3. split; [simpl; exact M3|].
    destruct (same2_trans _ _ _ S2 S3) as (S1' & S2' & S3' & S4' & S5').
    set (items := lazyq (if ambiguous (timers s) then emit s (EModel M_AMBIG 1) else s) ++ idleq (if ambiguous (timers s) then emit s (EModel M_AMBIG 1) else s) ++
                    map ti_ci (ti_sort (timers (if ambiguous (timers s) then emit s (EModel M_AMBIG 1) else s)))).
    assert (IT : forall a, kru a (map MDropItem items) = []).
    { intros a. assert (KD : forall l, kru a (map MDropItem l) = qru a l) by (induction l; simpl; auto; rewrite IHl; reflexivity).
      rewrite KD. unfold items. destruct (ambiguous (timers s)); simpl; rewrite !qru_app.
      all: rewrite (qru_tagged _ QLazy _ QB), (qru_tagged _ QIdle _ QC); simpl; apply qru_plain.
      all: apply Forall_forall; intros c Hc; apply in_map_iff in Hc as (y & <- & Hy); apply ti_sort_in in Hy.
      all: eapply Forall_forall in QD; [destruct QD as [C _]; exact C | apply in_map; exact Hy]. }
    eapply (J2_phase m _ _ k0 _ s _ JJ NQ MC); [exact S1' | exact S2' | exact S5' | | | intros; congruence | left; exact S4' | intros; congruence].
    + destruct (ambiguous _); reflexivity.
    + intros a. rewrite kru_app, IT. simpl. destruct (ambiguous _); reflexivity.
  - (* MDropEnd *)
    destruct (tops k0) eqn:TP; [|discriminate]. inversion E; subst pre s'. clear E.
    split; [destruct (is_nil _); exact DK|].
    assert (MX : exists m2, mon2 (tr (if is_nil (mainq s) then s else emit s (EModel M_LIMBO 0))) = Some m2 /\ same2 m m2).
    { destruct (is_nil _); [exists m; split; [exact MM | apply same2_refl] | apply (mon2_irrel _ (EModel M_LIMBO 0) _ MM eq_refl)]. }
    destruct MX as (m2 & M2 & S2). destruct (mon2_irrel _ EDropEnd _ M2 eq_refl) as (m3 & M3 & S3).
    exists m3. split; [simpl; exact M3|].
    apply (SAME m3 _ []); [eapply same2_trans; eauto | destruct (is_nil _); reflexivity | destruct (is_nil _); reflexivity | reflexivity | intros a mo' [] | apply (notear_top []); auto].
  - (* MDropAll *)
    simpl in PH. destruct (tops k0) eqn:TP; [|discriminate].
    destruct (amin (env s)) as [[h v]|]; inversion E; subst pre s'.
    + split; [exact DK|]. exists m. split; [exact MM|]. apply (SAME m _ [MDropVal v; MDropAll]); auto; try apply same2_refl.
      * intros a mo' [<-|[<-|[]]] [].
      * unfold teardown, phase_of. simpl. rewrite TP. auto.
    + split; [exact DK|]. exists m. split; [exact MM|]. apply (SAME m s []); auto; try apply same2_refl. apply (notear_top []); auto.
  - (* MEpilogue *)
    simpl in PH. destruct (tops k0) eqn:TP; [|discriminate]. inversion E; subst pre s'.
    split; [exact DK|]. destruct (mon2_irrel _ EEpilogue _ MM eq_refl) as (m2 & M2 & S2). exists m2. split; [exact M2|].
    apply SAME; auto.
    + intros a mo' IN. simpl in IN. repeat (destruct IN as [<-|IN]; [intros []|]). destruct IN.
    + unfold teardown, phase_of. simpl. rewrite TP. auto.
  - (* MLeaks *)
    simpl in PH. destruct (tops k0) eqn:TP; [|discriminate]. inversion E; subst pre s'. clear E.
    assert (CF : exists mc, mon2 (tr (class_flags s)) = Some mc /\ same2 m mc).
    { destruct (class_flags_tr s) as (evs & TE & FE & _). rewrite TE. clear TE. induction FE as [|e evs (c & a & -> & _) FE IH]; simpl.
      - exists m. split; [exact MM | apply same2_refl].
      - destruct IH as (mc & Mc & Sc). destruct (mon2_irrel _ (EModel c a) _ Mc eq_refl) as (md & Md & Sd).
        exists md. split; [exact Md | eapply same2_trans; eauto]. }
    destruct CF as (mc & Mc & Sc).
    assert (LF : exists ml, mon2 (rev (leaks (rev (tr (class_flags s)))) ++ tr (class_flags s)) = Some ml /\ same2 mc ml).
    { assert (LK : Forall (fun e => exists k i, e = ELeak k i) (rev (leaks (rev (tr (class_flags s)))))).
      { apply Forall_rev. unfold leaks. apply Forall_forall. intros e H. apply in_map_iff in H as (pp & <- & _). eauto. }
      revert LK. generalize (rev (leaks (rev (tr (class_flags s))))). intros l F.
      induction F as [|e l (kk & ii & ->) F IH]; simpl.
      - exists mc. split; [exact Mc | apply same2_refl].
      - destruct IH as (ml & Ml & Sl).
        destruct (mon2_irrel _ (ELeak kk ii) _ Ml eq_refl) as (mn & Mn & Sn). exists mn. split; [exact Mn | eapply same2_trans; eauto]. }
    destruct LF as (ml & Ml & Sl). destruct (class_flags_fields s) as [AC MQF].
    split; [simpl; rewrite class_flags_dk; exact DK|].
    exists ml. split; [simpl; exact Ml|].
    apply (SAME ml _ []); [eapply same2_trans; eauto | exact MQF | exact AC | reflexivity | intros a mo' [] | apply (notear_top []); auto].
Qed.

(* ------------------------------------------------------------------ *)
(** * The theorem *)

Lemma kclass_mru m a : kclass m = true -> mru a m = [].
Proof.
  destruct m; try discriminate; intros H; try reflexivity.
  simpl. apply ru_plain. simpl in H. apply negb_true_iff in H. exact H.
Qed.

Theorem step_I2 k s k' s' :
  shape k -> Tags k s -> WF k s -> KI k s -> Lin k s -> I2 k s -> step k s = Some (k', s') -> I2 k' s'.
Proof.
  intros SH T W KK LN II H. destruct k as [|mo k0]; [discriminate|]. simpl in H.
  destruct (handle mo s) as [pre s1] eqn:E. inversion H; subst; clear H.
  destruct (kclass mo) eqn:KC.
  { destruct (kclass_qmop _ KC) as [Q _]. pose proof T as T'. apply Tags_split in T' as [QT _].
    destruct (kclass_kout _ _ _ _ _ KC W QT E) as [KE G].
    eapply I2_keff; eauto.
    - eapply qmop_quiet_pre; eauto.
    - intros a. rewrite (kclass_mru _ _ KC). apply kru_gen; auto.
    - intros a mo' IN DM. exfalso. eapply gen_nodrop; eauto.
    - intros r mm a EQ. subst mo. discriminate KC. }
  destruct (is_work mo) eqn:WK; [|eapply I2_phase; eauto].
  destruct mo; try discriminate WK; try discriminate KC; simpl in E.
  - eapply I2_endbody; eauto.
  - eapply I2_runitem; eauto.
  - eapply I2_dropitem_call; eauto. simpl in KC. apply negb_false_iff in KC. exact KC.
  - eapply I2_dropinner; eauto.
  - eapply I2_dropref; eauto.
  - eapply I2_retinvoke; eauto.
  - eapply I2_terminate; eauto.
  - eapply I2_logclose; eauto.
  - eapply I2_toready; eauto.
Qed.

Lemma I2_init p : I2 (map MTop p ++ [MEpilogue]) (init DGlobal).
Proof.
  assert (TP : tops (map MTop p ++ [MEpilogue]) = true).
  { unfold tops. rewrite forallb_app. simpl. rewrite andb_true_r. induction p; simpl; auto. }
  split; [reflexivity|]. exists i02. split; [reflexivity|].
  constructor; simpl.
  - intros a. unfold pendlist. rewrite (kru_tops _ _ TP). reflexivity.
  - intros a x H. discriminate H.
  - intros a H. exfalso. apply H. reflexivity.
  - constructor.
  - intros a [].
  - intros a mo IN DM. exfalso. eapply tops_nodrop; eauto.
  - intros TD. exfalso. apply (notear_top [] _ eq_refl TP). exact TD.
Qed.

Lemma run_inv2 fuel : forall k s t,
  shape k -> Tags k s -> WF k s -> KI k s -> Lin k s -> I2 k s -> run fuel k s = Done t ->
  exists s', t = rev (tr s') /\ exists m, mon2 (tr s') = Some m /\ c_owed m = [].
Proof.
  induction fuel as [|f IH]; intros k s t SH T W KK LN II H; simpl in H.
  - destruct k; [|discriminate]. inversion H; subst. exists s. split; auto. destruct II as (_ & m & MM & JJ).
    exists m. split; auto. destruct (c_owed m) as [|a l] eqn:O; auto. exfalso.
    destruct (o_owed _ _ _ JJ a) as (r & mm & IN & _); [rewrite O; left; reflexivity | destruct IN].
  - destruct (step k s) as [[k' s']|] eqn:ST.
    + pose proof T as T'. apply Tags_split in T' as [QT _].
      eapply IH; [ eapply step_shape; eauto | eapply step_tags; eauto | eapply step_WF; eauto
                 | eapply step_KI; eauto | eapply step_Lin; eauto | eapply step_I2; eauto | exact H ].
    + inversion H; subst. exists s. split; auto. destruct II as (_ & m & MM & JJ).
      exists m. split; auto. destruct k as [|m0 k]; [|simpl in ST; destruct (handle m0 s); discriminate ST].
      destruct (c_owed m) as [|a l] eqn:O; auto. exfalso.
      destruct (o_owed _ _ _ JJ a) as (r & mm & IN & _); [rewrite O; left; reflexivity | destruct IN].
Qed.

(** C02 for every program and every amount of fuel, with the global (or thread-local) deferrer. *)
Theorem C02_proved : forall (p : list top) (fuel : nat) (t : list ev),
  exec DGlobal fuel p = Done t -> C02_ok t = true.
Proof.
  intros p fuel t H. unfold exec in H.
  destruct (run_inv2 fuel _ _ _ (shape_init p) (tags_init DGlobal p) (WF_init DGlobal p) (KI_init DGlobal p) (Lin_init DGlobal p)
              (I2_init p) H) as (s' & -> & m & MM & OW).
  unfold C02_ok. rewrite fold_mon_rev. unfold mon2 in MM. rewrite MM, OW. reflexivity.
Qed.

(* not vacuous: two calls held while their target is in Prep start in the order made once it is Ready; a call held
   for an actor that fails in Prep is discarded and the termination is notified *)
Example C02_nontrivial :
  exists t, exec DGlobal 600
    [TNew 0;
     TDo [ANewActor 1 1 None; ACall 1 (Clo 1 0 0 [] []); ACall 1 (Clo 2 0 0 [] []); ACallPrep 1 (Clo 3 0 0 [] []) true;
          ANewActor 2 2 None; ACall 2 (Clo 4 0 0 [] []); ACallPrep 2 (Clo 5 0 0 [] [AFail 7]) false];
     TRun 2 false] = Done t
    /\ In (EReady 1%N) t /\ In (EMeth 1%N 1%N 2) t /\ In (EMeth 1%N 2%N 2) t
    /\ In (EDrop 4%N (Some QMain) true) t /\ In (ENotify 2%N (Some (CFail 7%N))) t.
Proof.
  eexists. split; [vm_compute; reflexivity|]. simpl; tauto.
Qed.

(* the monitor is not trivially true: it rejects a call that overtakes an earlier one, a call started on an
   actor that is not Ready, and a discarded call whose target's termination is not notified before run returns *)
Example C02_monitor_rejects :
  C02_ok [EActor 1; ETarget 1 1 false; ETarget 2 1 false; ESub QMain 1 true; ESub QMain 2 true; EReady 1; EMeth 1 1 0; EMeth 1 2 0] = true /\
  C02_ok [EActor 1; ETarget 1 1 false; ETarget 2 1 false; ESub QMain 1 true; ESub QMain 2 true; EReady 1; EMeth 1 2 0; EMeth 1 1 0] = false /\
  C02_ok [EActor 1; ETarget 1 1 false; ESub QMain 1 true; EMeth 1 1 0] = false /\
  C02_ok [EActor 1; ETarget 1 1 false; ESub QMain 1 true; EReady 1; EDrop 1 (Some QMain) true; ERunRet false] = false /\
  C02_ok [EActor 1; ETarget 1 1 false; ESub QMain 1 true; EReady 1; EDrop 1 (Some QMain) true; ENotify 1 None; ERunRet false] = true.
Proof. vm_compute. repeat split. Qed.
