(** Layer R proofs: C05, monitor A: all handlers except the four families that speak about Rets
    ([ANewRet], [ARetSend], [MRetInvoke], [MLeaks]) emit only events neutral to the monitor, and no handler
    but [ARetSend] pushes the invocation of a Ret with a value. *)
From Coq Require Import ZArith NArith List Bool Lia.
From Stk Require Import Lib.U Gen.SrcCount Gen.SrcCore Gen.SrcLog R.Syntax R.Rt R.Mon R.Shape R.LinEvs R.LinC05Mon R.LinC05A.
Import ListNotations.
Local Open Scope Z_scope.

Definition mnum (m : mop) : bool := match m with MRetInvoke _ (Some (MNum _)) => true | _ => false end.

Lemma mnum_app a b : existsb mnum (a ++ b) = existsb mnum a || existsb mnum b.
Proof. apply existsb_app. Qed.
Lemma mnum_drops l : existsb mnum (drops l) = false.
Proof. unfold drops. induction l; simpl; auto. Qed.
Lemma mnum_slab_drops l : existsb mnum (slab_drops l) = false.
Proof. induction l as [|[c|n] l IH]; simpl; auto. Qed.
Lemma mnum_dropitems l : existsb mnum (map MDropItem l) = false.
Proof. induction l; simpl; auto. Qed.
Lemma mnum_runitems l : existsb mnum (map MRunItem l) = false.
Proof. induction l; simpl; auto. Qed.
Lemma bind_mnum s h v l s' : bind s h v = (l, s') -> existsb mnum l = false.
Proof. unfold bind. destruct (aget (env s) h); intros Q; inversion Q; reflexivity. Qed.
Lemma bad_mnum s c l s' : bad s c = (l, s') -> existsb mnum l = false.
Proof. unfold bad. intros Q; inversion Q; reflexivity. Qed.
Lemma state_drops_mnum a sa s l s' : state_drops a sa s = (l, s') -> s' = s /\ existsb mnum l = false.
Proof.
  unfold state_drops. destruct sa; intros Q; inversion Q; subst; split; auto.
  - apply mnum_dropitems.
  - simpl. rewrite mnum_app, mnum_drops, mnum_slab_drops. reflexivity.
Qed.

Ltac mnum_tac :=
  first [ reflexivity
        | (eapply bind_mnum; eassumption)
        | (eapply bad_mnum; eassumption)
        | (rewrite ?mnum_app, ?mnum_drops, ?mnum_slab_drops, ?mnum_dropitems, ?mnum_runitems; reflexivity)
        | (cbn [map app existsb mnum orb]; rewrite ?mnum_app, ?mnum_drops, ?mnum_slab_drops, ?mnum_dropitems, ?mnum_runitems; reflexivity) ].

Definition specialA_act (a : act) : bool :=
  match a with ANewRet _ _ _ | ARetSend _ _ => true | _ => false end.

Ltac inj_pair Q :=
  match type of Q with
  | (_, _) = (_, _) => injection Q as ? ?; subst
  | _ => idtac
  end.

Lemma do_act_A a s pre s' :
  do_act a s = (pre, s') -> specialA_act a = false -> evs_in pbA s s' /\ existsb mnum pre = false.
Proof.
  intros H SP. destruct a; try discriminate SP; clear SP; revert H; unfold do_act; repeat dest_match; intros Q;
    inj_pair Q; (split; [ei_tac | mnum_tac]).
Qed.

Definition specialA (m : mop) : bool :=
  match m with
  | MActs (a :: _) => specialA_act a
  | MRetInvoke _ _ | MLeaks => true
  | _ => false
  end.

Ltac pass_tac := intros Q; inj_pair Q; (split; [ei_tac | mnum_tac]).

Lemma run_item_A c s pre s' : run_item c s = (pre, s') -> evs_in pbA s s' /\ existsb mnum pre = false.
Proof. unfold run_item. destruct c as [u i kd caps q]. destruct kd; repeat dest_match; pass_tac. Qed.

Lemma drop_item_A c s pre s' : drop_item c s = (pre, s') -> evs_in pbA s s' /\ existsb mnum pre = false.
Proof. unfold drop_item. destruct c as [u i kd caps q]. destruct kd; pass_tac. Qed.

Lemma drop_val_A v s pre s' : drop_val v s = (pre, s') -> evs_in pbA s s' /\ existsb mnum pre = false.
Proof. unfold drop_val. destruct v; repeat dest_match; pass_tac. Qed.

Lemma drop_own_A a lg s pre s' : drop_own a lg s = (pre, s') -> evs_in pbA s s' /\ existsb mnum pre = false.
Proof. unfold drop_own. destruct lg; repeat dest_match; pass_tac. Qed.

Lemma drop_ref_A a s pre s' : drop_ref a s = (pre, s') -> evs_in pbA s s' /\ existsb mnum pre = false.
Proof.
  unfold drop_ref. destruct (aget (actors s) a) as [y|]; [|pass_tac].
  destruct (a_freed y); [pass_tac|]. destruct (minrc_drop (a_rc y)) as [[v z]|]; [|pass_tac].
  destruct z; [|pass_tac].
  destruct (state_drops a (a_state y) _) as [dl s2] eqn:SD. destruct (state_drops_mnum _ _ _ _ _ SD) as [-> MN].
  intros Q; injection Q as ? ?; subst. split; [ei_tac|].
  rewrite mnum_app, MN. destruct (a_notify y); reflexivity.
Qed.

Lemma terminate_A a c s pre s' : terminate a c s = (pre, s') -> evs_in pbA s s' /\ existsb mnum pre = false.
Proof.
  unfold terminate. destruct (aget (actors s) a) as [y|]; [|pass_tac].
  destruct (state_drops a (a_state y) _) as [dl s2] eqn:SD. destruct (state_drops_mnum _ _ _ _ _ SD) as [-> MN].
  destruct (a_notify y); intros Q; injection Q as ? ?; subst; (split; [ei_tac|]); rewrite ?mnum_app, MN; reflexivity.
Qed.

Lemma do_top_A o s pre s' : do_top o s = (pre, s') -> evs_in pbA s s' /\ existsb mnum pre = false.
Proof. unfold do_top. destruct o; repeat dest_match; pass_tac. Qed.

Lemma handle_A m s pre s' :
  handle m s = (pre, s') -> specialA m = false -> evs_in pbA s s' /\ existsb mnum pre = false.
Proof.
  intros H SP. destruct m; try discriminate SP; cbn [handle] in H.
  - eapply do_top_A; eauto.
  - destruct l as [|a l]; [revert H; pass_tac|]. destruct (do_act a s) as [p s1] eqn:E. inversion H; subst.
    destruct (do_act_A _ _ _ _ E SP) as [A B]. split; auto. rewrite mnum_app, B. reflexivity.
  - revert H. destruct (frames s); pass_tac.
  - revert H. destruct (frames s) as [|fr rest]; [pass_tac|]. intros Q; injection Q as ? ?; subst. split; [ei_tac|].
    rewrite mnum_app, mnum_drops. destruct f; try destruct (f_die fr); try destruct ready; reflexivity.
  - eapply run_item_A; eauto.
  - eapply drop_item_A; eauto.
  - revert H. pass_tac.
  - eapply drop_val_A; eauto.
  - eapply drop_own_A; eauto.
  - eapply drop_ref_A; eauto.
  - revert H. pass_tac.
  - revert H. pass_tac.
  - revert H. pass_tac.
  - revert H. pass_tac.
  - eapply terminate_A; eauto.
  - revert H. destruct (aget (actors s) a); pass_tac.
  - revert H. destruct (aget (actors s) a) as [y|]; [destruct (a_state y)|]; pass_tac.
  - revert H. unfold fresh_stakker. pass_tac.
  - revert H. destruct idle; [destruct (idleq s)|]; pass_tac.
  - revert H. destruct (t >? now (set_mainq s [])).
    + destruct (fire t _) as [fired s2] eqn:FI. unfold fire in FI. injection FI as ? ?; subst. pass_tac.
    + pass_tac.
  - revert H. repeat dest_match; pass_tac.
  - revert H. repeat dest_match; pass_tac.
  - revert H. pass_tac.
  - revert H. repeat dest_match; pass_tac.
  - revert H. repeat dest_match; pass_tac.
  - revert H. pass_tac.
Qed.
