(** Layer R proofs: C04, first clause, part 3: the invariant [M0] and the theorem
    "an actor is never notified Dropped while it has a visible owner". *)
From Coq Require Import ZArith NArith List Bool Lia.
From Stk Require Import R.LinEvs R.LinC03K R.Lin R.LinAct R.LinLaw R.LinStep R.C06cProofs R.C02Proofs.
From Stk Require Import Lib.U Gen.SrcCount Gen.SrcCore Gen.SrcLog R.Syntax R.Rt R.Mon R.Shape R.Eff R.Tags R.Mono R.Count
  R.Nest R.C15Proofs R.C20Proofs R.Calls R.CallInv R.Own R.OwnLaw R.OwnVis R.C04Mon R.C04Base R.C04A R.C04A2.
Import ListNotations.
Local Open Scope Z_scope.

Arguments submit : simpl never.
Arguments push_main : simpl never.
Arguments timer_add : simpl never.
Arguments emit : simpl never.
Arguments upd_actor : simpl never.
Arguments ref_clone : simpl never.
Arguments new_actor : simpl never.
Arguments log_rec : simpl never.
Arguments tok_script : simpl never.
Arguments target_ev : simpl never.
Arguments push_frame : simpl never.

Definition mk (a : N) (k : list mop) (s : st) : Prop :=
  (exists m, In m k /\ markm a m) \/ (exists c, In c (mainq s) /\ ci_kind c = KTerm a).

Definition M0 (k : list mop) (s : st) : Prop :=
  forall a, mk a k s -> ctr (HO a) s = 0 /\ exists y, aget (actors s) a = Some y.

Lemma cnt_nn v : srange v -> 0 <= cnt v.
Proof. unfold srange, cnt. intros. lia. Qed.

Lemma M0_init d p : M0 (map MTop p ++ [MEpilogue]) (init d).
Proof.
  intros a [(m & IN & MK)|(c & IN & _)]; [|destruct IN]. exfalso.
  apply in_app_or in IN as [IN|[<-|[]]]; [|exact MK]. apply in_map_iff in IN as (o & <- & _). exact MK.
Qed.

Theorem step_M0 k s k' s' :
  KS s -> QTags s -> FD s -> Z.of_nat (length (tr s)) < CMAX - 1 -> OI k s -> M0 k s ->
  step k s = Some (k', s') -> KS s' -> M0 k' s'.
Proof.
  intros KK QT F LEN OO MM ST KK'. destruct k as [|m k0]; [discriminate|]. simpl in ST.
  destruct (handle m s) as [pre s1] eqn:E. inversion ST; subst; clear ST.
  pose proof (OI_prem _ _ _ KK OO LEN) as [SR HB LIM].
  (* a marker that was there before stays justified *)
  assert (KEEP : forall a, mk a (m :: k0) s -> ctr (HO a) s' = 0 /\ exists y, aget (actors s') a = Some y).
  { intros a MK. destruct (MM a MK) as (C0 & y & AY).
    destruct (handle_cle _ _ _ _ SR E a) as [C|(act & l & -> & R)].
    - destruct (C y AY) as (y' & AY' & LE). split; [|eauto].
      unfold ctr in *. rewrite AY in C0. rewrite AY'.
      pose proof (cnt_nn _ (proj1 (ks_act _ KK' _ _ AY'))). lia.
    - exfalso. assert (L : exists h, lookup s h = Some (HOwn a)) by (destruct act; try contradiction; eauto).
      destruct L as (h & L). pose proof (lookup_le (HO a) _ _ _ L) as LE. rewrite hv_own, hind_refl in LE.
      pose proof (hind_range (HO a) (HR a)). pose proof (OI_census _ _ a OO). pose proof (hmops_nn (HO a) (MActs (act :: l) :: k0)). lia. }
  intros a [(m' & IN & MK)|(c & IN & CK)].
  - apply in_app_or in IN as [IN|IN].
    + destruct (handle_marks a _ _ _ _ KK QT F E m' IN MK) as [MB|(_ & c & -> & IC)].
      * apply KEEP. left. exists m. split; [left; reflexivity | exact MB].
      * apply KEEP. right. exists c. split; [exact IC | exact MK].
    + apply KEEP. left. exists m'. split; [right; exact IN | exact MK].
  - assert (D : (exists a0 lg, m = MDropOwn a0 lg) \/ forall a0 lg, m <> MDropOwn a0 lg).
    { destruct m; try (right; intros ? ? Q; discriminate Q). left; eauto. }
    destruct D as [(a0 & lg & ->)|ND].
    + cbn [handle] in E. pose proof (HB a0) as HA. cbn [hmop] in HA. rewrite hind_refl in HA.
      pose proof (hst_nn (HO a0) s). pose proof (LIM a0). pose proof (hind_range (HO a0) (HR a0)).
      destruct (drop_own_mq a0 lg s pre s' SR ltac:(lia) E) as (C1 & G1 & MQ).
      destruct (MQ c IN) as [IC|(CK2 & Z)].
      * apply KEEP. right. exists c. split; auto.
      * rewrite CK in CK2. inversion CK2; subst a0. split; auto.
    + destruct (handle_mqk _ _ _ _ ND E c IN) as [IC|NT]; [|exfalso; eapply NT; eauto].
      apply KEEP. right. exists c. split; auto.
Qed.

(* ------------------------------------------------------------------ *)
(** * Which micro-op emits [ENotify a (Some CDrop)] *)

Definition pbN (e : ev) : bool := match e with ENotify _ (Some CDrop) => false | _ => true end.

Ltac eiN := repeat ei_step.

Lemma do_act_evN act s pre s' : do_act act s = (pre, s') -> evs_in pbN s s'.
Proof. unfold do_act. destruct act; repeat dest_match; intros Q; try injp Q; eiN. Qed.

Lemma leaks_pbN t : forallb pbN (rev (leaks t)) = true.
Proof. unfold leaks. rewrite <- map_rev. induction (rev (live_after t [])); simpl; auto. Qed.

Definition isdropn (m : mop) (a : N) : Prop :=
  exists rid inner, m = MRetInvoke (Ret rid (RKNotify a inner)) (Some (MCause CDrop)).

(* every micro-op but the notifier invocation with cause Dropped emits none; that one emits it first *)
Lemma handle_evN m s pre s' : handle m s = (pre, s') ->
  evs_in pbN s s' \/ exists a, isdropn m a /\ evs_in pbN (emit s (ENotify a (Some CDrop))) s'.
Proof.
  intros H. destruct m; cbn [handle] in H.
  - left. revert H. unfold do_top. destruct o; repeat dest_match; unfold bad; intros Q; injp Q; eiN.
  - left. revert H. destruct l as [|act l]; [intros Q; injp Q; eiN|].
    destruct (do_act act s) as [p s1] eqn:E. intros Q; injp Q. eapply do_act_evN; eauto.
  - left. revert H. destruct (frames s); intros Q; injp Q; eiN.
  - left. revert H. destruct (frames s); intros Q; injp Q; eiN.
  - left. revert H. unfold run_item. destruct c as [u i kd caps q]. destruct kd; repeat dest_match; intros Q; injp Q; eiN.
  - left. revert H. unfold drop_item. destruct c as [u i kd caps q]. destruct kd; intros Q; injp Q; eiN.
  - left. revert H. intros Q; injp Q; eiN.
  - left. revert H. unfold drop_val. destruct v; repeat dest_match; intros Q; injp Q; eiN.
  - left. revert H. unfold drop_own. repeat dest_match; intros Q; injp Q; eiN.
  - left. revert H. unfold drop_ref. destruct (aget (actors s) a) as [y|]; [|intros Q; injp Q; eiN].
    destruct (a_freed y); [intros Q; injp Q; eiN|]. destruct (minrc_drop (a_rc y)) as [[v z]|]; [|intros Q; injp Q; eiN].
    destruct z; [|intros Q; injp Q; eiN].
    destruct (state_drops a (a_state y) _) as [dl s2] eqn:SD. intros Q; injp Q.
    destruct (state_drops_h (HO 0) _ _ _ _ _ SD) as [-> _]. eiN.
  - (* MRetInvoke *)
    revert H. unfold ret_invoke. destruct r as [rid k]. destruct k as [caps bd|p ci|p ci|p inner|p key inner].
    + intros Q; injp Q; left; eiN.
    + intros Q; injp Q; left; eiN.
    + destruct m; intros Q; injp Q; left; eiN.
    + destruct m as [[v|[| | |]]|]; try solve [destruct inner as [[p0 ci]|]; intros Q; injp Q; left; eiN].
      destruct inner as [[p0 ci]|]; intros Q; injp Q; right; exists p; (split; [eexists _, _; reflexivity|]); cbn [msg_cause]; eiN.
    + destruct m; intros Q; injp Q; left; eiN.
  - left. revert H. intros Q; injp Q; eiN.
  - left. revert H. intros Q; injp Q; eiN.
  - left. revert H. intros Q; injp Q; eiN.
  - left. revert H. intros Q; injp Q; eiN.
  - left. revert H. unfold terminate. destruct (aget (actors s) a) as [y|]; [|intros Q; injp Q; eiN].
    destruct (state_drops a (a_state y) _) as [dl s1] eqn:SD.
    destruct (state_drops_h (HO 0) _ _ _ _ _ SD) as [-> _].
    destruct (a_notify y); intros Q; injp Q; eiN.
  - left. revert H. destruct (aget (actors s) a); intros Q; injp Q; eiN.
  - left. revert H. destruct (aget (actors s) a) as [y|]; [destruct (a_state y)|]; intros Q; injp Q; eiN.
  - left. revert H. unfold fresh_stakker. intros Q; injp Q; eiN.
  - left. revert H. destruct idle; [destruct (idleq s)|]; intros Q; injp Q; eiN.
  - left. revert H. destruct (t >? now (set_mainq s [])).
    + destruct (fire t (set_now (set_mainq s []) t)) as [fired s2] eqn:FI. unfold fire in FI. injection FI as ? ?; subst.
      intros Q; injp Q; eiN.
    + intros Q; injp Q; eiN.
  - left. revert H. repeat dest_match; intros Q; injp Q; eiN.
  - left. revert H. repeat dest_match; intros Q; injp Q; eiN.
  - left. revert H. cbv zeta. intros Q; injp Q; eiN.
  - left. revert H. repeat dest_match; intros Q; injp Q; eiN.
  - left. revert H. repeat dest_match; intros Q; injp Q; eiN.
  - left. revert H. intros Q; injp Q; eiN.
  - left. revert H. intros Q; injp Q.
    destruct (class_flags_tr s) as (evs & TE & FE & _).
    exists (rev (leaks (rev (tr (class_flags s)))) ++ evs). cbn [tr set_tr]. rewrite TE, app_assoc. split; [reflexivity|].
    rewrite forallb_app, leaks_pbN. simpl. clear TE. induction FE as [|e l (c & a & -> & _) FE IH]; simpl; auto.
Qed.

(* ------------------------------------------------------------------ *)
(** * The first clause of the Notify-Dropped check *)

Definition chkN1 (s : s04) (e : ev) : bool :=
  match e with ENotify a (Some CDrop) => cnt_of s a <=? 0 | _ => true end.

Lemma chkN1_pb s e : pbN e = true -> chkN1 s e = true.
Proof. destruct e; try reflexivity. destruct c as [[| | |]|]; try reflexivity. discriminate. Qed.

Lemma okx_evs_in chk (pb : ev -> bool) s s' :
  (forall m e, pb e = true -> chk m e = true) -> evs_in pb s s' -> okx chk (tr s') = okx chk (tr s).
Proof.
  intros P (evs & E & F). rewrite E. apply okx_app. intros e m IN. apply P.
  rewrite forallb_forall in F. apply F. exact IN.
Qed.

Definition IA (k : list mop) (s : st) : Prop :=
  shape k /\ Tags k s /\ WF k s /\ KI k s /\ Lin k s /\ I2 k s /\ OI k s /\ FD s /\ M0 k s /\ okx chkN1 (tr s) = true.

Lemma ext_len s s' : ext s s' -> (length (tr s) <= length (tr s'))%nat.
Proof. intros [evs E]. rewrite E, app_length. lia. Qed.

Lemma run_len fuel : forall k s t, run fuel k s = Done t -> (length (tr s) <= length t)%nat.
Proof.
  induction fuel as [|f IH]; intros k s t H; simpl in H.
  - destruct k; [|discriminate]. inversion H; subst. rewrite rev_length. lia.
  - destruct (step k s) as [[k' s']|] eqn:ST.
    + pose proof (ext_len _ _ (step_ext _ _ _ _ ST)). specialize (IH _ _ _ H). lia.
    + inversion H; subst. rewrite rev_length. lia.
Qed.

Lemma IA_init p : IA (map MTop p ++ [MEpilogue]) (init DGlobal).
Proof.
  unfold IA. split; [apply shape_init|]. split; [apply tags_init|]. split; [apply WF_init|]. split; [apply KI_init|].
  split; [apply Lin_init|]. split; [apply I2_init|]. split; [apply OI_init|]. split; [apply FD_init|].
  split; [apply M0_init | reflexivity].
Qed.

Theorem step_IA k s k' s' :
  Z.of_nat (length (tr s)) < CMAX - 1 -> IA k s -> step k s = Some (k', s') -> IA k' s'.
Proof.
  intros LEN (SH & T & W & KK & LN & II & OO & F & MM & OK) ST.
  pose proof T as T'. apply Tags_split in T' as [QT _].
  destruct (step_KI _ _ _ _ W QT KK ST) as [KK' _].
  pose proof (step_I2 _ _ _ _ SH T W KK LN II ST) as II'.
  assert (D : dk s = DGlobal) by (destruct II; auto).
  pose proof (step_OI _ _ _ _ (proj1 KK) D LEN OO ST) as OO'.
  unfold IA. split; [eapply step_shape; eauto|]. split; [eapply step_tags; eauto|]. split; [eapply step_WF; eauto|].
  split; [exact KK'|]. split; [eapply step_Lin; eauto|]. split; [exact II'|]. split; [exact OO'|].
  split; [|split].
  - destruct k as [|m k0]; [discriminate|]. simpl in ST. destruct (handle m s) as [pre s1] eqn:E. inversion ST; subst.
    eapply handle_FD; eauto.
  - eapply step_M0; eauto; [apply KK | apply KK'].
  - destruct k as [|m k0]; [discriminate|]. simpl in ST. destruct (handle m s) as [pre s1] eqn:E. inversion ST; subst.
    destruct (handle_evN _ _ _ _ E) as [EV|(a & (rid & inner & ->) & EV)].
    + rewrite (okx_evs_in chkN1 pbN _ _ chkN1_pb EV). exact OK.
    + rewrite (okx_evs_in chkN1 pbN _ _ chkN1_pb EV). unfold emit. cbn [tr set_tr okx chkN1]. rewrite OK, andb_true_r.
      rewrite st04_cnt. apply Z.leb_le.
      destruct (MM a) as (C0 & _).
      { left. eexists. split; [left; reflexivity|]. simpl. reflexivity. }
      pose proof (OI_vis_le _ _ a OO). lia.
Qed.

Lemma run_IA fuel : forall k s t,
  IA k s -> run fuel k s = Done t -> Z.of_nat (length t) < CMAX - 1 -> okx chkN1 (rev t) = true.
Proof.
  induction fuel as [|f IH]; intros k s t I H LEN; simpl in H.
  - destruct k; [|discriminate]. inversion H; subst. rewrite rev_involutive. apply I.
  - destruct (step k s) as [[k' s']|] eqn:ST.
    + eapply IH; [|exact H | exact LEN]. eapply step_IA; [|exact I | exact ST].
      pose proof (run_len _ _ _ _ H) as L1. pose proof (ext_len _ _ (step_ext _ _ _ _ ST)). lia.
    + inversion H; subst. rewrite rev_involutive. apply I.
Qed.

(** An actor is never notified Dropped while the trace shows a visible owner of it (more [EOwnNew a] than
    [EOwnDrop a] events so far): for every program and fuel, global / thread-local deferrer, below saturation. *)
Theorem C04_never_while_owned_proved : forall (p : list top) (fuel : nat) (t : list ev),
  exec DGlobal fuel p = Done t -> Z.of_nat (length t) < CMAX - 1 -> okx chkN1 (rev t) = true.
Proof. intros p fuel t H LEN. unfold exec in H. eapply run_IA; [apply IA_init | exact H | exact LEN]. Qed.

Print Assumptions C04_never_while_owned_proved.

(* what the check says, on the trace itself (oldest event first): at every notification with cause Dropped the
   events before it contain at most as many [EOwnNew a] as [EOwnDrop a] *)
Lemma okx_chkN1_spec t : okx chkN1 t = true ->
  forall t2 a t1, t = t2 ++ ENotify a (Some CDrop) :: t1 -> vis a t1 <= 0.
Proof.
  intros OK t2. revert t OK. induction t2 as [|e t2 IH]; intros t OK a t1 E; subst t.
  - cbn [app okx chkN1] in OK. apply andb_prop in OK as [C _]. rewrite st04_cnt in C. apply Z.leb_le. exact C.
  - cbn [app okx] in OK. apply andb_prop in OK as [_ OK]. eapply IH; eauto.
Qed.

Theorem C04_never_while_owned_spec : forall (p : list top) (fuel : nat) (t : list ev),
  exec DGlobal fuel p = Done t -> Z.of_nat (length t) < CMAX - 1 ->
  forall t1 a t2, t = t1 ++ ENotify a (Some CDrop) :: t2 -> vis a (rev t1) <= 0.
Proof.
  intros p fuel t H LEN t1 a t2 E. pose proof (C04_never_while_owned_proved p fuel t H LEN) as OK.
  apply (okx_chkN1_spec _ OK (rev t2) a (rev t1)). subst t. rewrite rev_app_distr. simpl. rewrite <- app_assoc. reflexivity.
Qed.
