(** Layer R proofs: the call closures kept inside termination notifiers ([RKNotify a (Some (p, ci))]).
    Notifiers sit only in [a_notify] fields and in [MRetInvoke] micro-ops; [NU k s] lists the uids of their
    call closures.  [handle_nu]: a step creates such a uid only fresh (in [mk_notifier]); all others were there
    before.  (Used to show that the call of a notifier is never the registered call of a ret_to! Ret.) *)
From Coq Require Import ZArith NArith List Bool Lia.
From Stk Require Import Lib.U Gen.SrcCount Gen.SrcCore Gen.SrcLog R.Syntax R.Rt R.Shape R.Lin R.LinAct R.LinLaw.
Import ListNotations.
Local Open Scope Z_scope.

Fixpoint inner_uid (r : ret) : option N :=
  match r with
  | Ret _ (RKNotify _ (Some (_, ci))) => Some (ci_uid ci)
  | Ret _ (RKSlab _ _ inner) => inner_uid inner
  | _ => None
  end.

Definition nu_ret (r : ret) : list N := match inner_uid r with Some u => [u] | None => [] end.
Definition nu_opt (o : option ret) : list N := match o with Some nt => nu_ret nt | None => [] end.
Definition nu_acts (l : list (N * actor)) : list N := flat_map (fun p => nu_opt (a_notify (snd p))) l.
Definition nu_mop (m : mop) : list N := match m with MRetInvoke r _ => nu_ret r | _ => [] end.
Definition nu_k (k : list mop) : list N := flat_map nu_mop k.
Definition NU (k : list mop) (s : st) : list N := nu_k k ++ nu_acts (actors s).

Lemma nu_k_app a b : nu_k (a ++ b) = nu_k a ++ nu_k b.
Proof. apply flat_map_app. Qed.

Lemma ukind_no_inner r : ukind r = true -> nu_ret r = [].
Proof. destruct r as [rid [| | | |]]; simpl; try discriminate; reflexivity. Qed.

Lemma nu_acts_aget l a y : aget l a = Some y -> forall u, In u (nu_opt (a_notify y)) -> In u (nu_acts l).
Proof.
  induction l as [|[j z] l IH]; simpl; [discriminate|]. destruct (N.eqb a j).
  - intros Q; inversion Q; subst. intros u H. apply in_or_app. left. exact H.
  - intros Q u H. apply in_or_app. right. eapply IH; eauto.
Qed.

Lemma nu_acts_aset l a y' : forall u, In u (nu_acts (aset l a y')) -> In u (nu_acts l) \/ In u (nu_opt (a_notify y')).
Proof.
  induction l as [|[j z] l IH]; simpl; intros u H.
  - rewrite app_nil_r in H. right. exact H.
  - destruct (N.eqb a j); simpl in H; apply in_app_or in H as [H|H].
    + right. exact H.
    + left. apply in_or_app. right. exact H.
    + left. apply in_or_app. left. exact H.
    + destruct (IH u H) as [G|G]; [left; apply in_or_app; right; exact G | right; exact G].
Qed.

(* the notifier uids of the actors of [s'] are those of [s] or at least [n] *)
Definition nule (n : N) (s s' : st) : Prop :=
  forall u, In u (nu_acts (actors s')) -> In u (nu_acts (actors s)) \/ (n <= u)%N.

Lemma nule_refl n s : nule n s s. Proof. intros u H. left. exact H. Qed.
Lemma nule_trans n a b c : nule n a b -> nule n b c -> nule n a c.
Proof. intros H G u I. destruct (G u I) as [J|J]; auto. Qed.
Lemma nule_same n s0 s s' : nule n s0 s -> actors s' = actors s -> nule n s0 s'.
Proof. intros H E u I. rewrite E in I. apply H; auto. Qed.

Lemma nule_upd_keep n s0 s a y y' :
  nule n s0 s -> aget (actors s) a = Some y -> (a_notify y' = a_notify y \/ a_notify y' = None) -> nule n s0 (upd_actor s a y').
Proof.
  intros H G E u I. unfold upd_actor in I. simpl in I. destruct (nu_acts_aset _ _ _ _ I) as [J|J]; [apply H; exact J|].
  destruct E as [E|E]; rewrite E in J; [|contradiction]. apply H. eapply nu_acts_aget; eauto.
Qed.

Lemma nule_upd_new n s0 s a y' :
  nule n s0 s -> (forall u, In u (nu_opt (a_notify y')) -> (n <= u)%N) -> nule n s0 (upd_actor s a y').
Proof.
  intros H E u I. unfold upd_actor in I. simpl in I. destruct (nu_acts_aset _ _ _ _ I) as [J|J]; [apply H; exact J | right; auto].
Qed.

Lemma nule_ref_clone n s0 s a : nule n s0 s -> nule n s0 (ref_clone s a).
Proof.
  intros H. unfold ref_clone. destruct (aget (actors s) a) as [y|] eqn:E.
  - destruct (a_freed y).
    + eapply nule_upd_keep; [eapply nule_same; [exact H | reflexivity] | exact E | left; reflexivity].
    + eapply nule_upd_keep; [exact H | exact E | left; reflexivity].
  - eapply nule_same; [exact H | reflexivity].
Qed.

Lemma nule_log_rec n s0 s a b c d : nule n s0 s -> nule n s0 (log_rec s a b c d).
Proof. intros H. eapply nule_same; [exact H | apply log_rec_actors]. Qed.

Lemma nule_new_actor n s0 s a nt parent vis :
  nule n s0 s -> (forall u, In u (nu_ret nt) -> (n <= u)%N) -> nule n s0 (new_actor s a nt parent vis).
Proof.
  intros H E. unfold new_actor.
  assert (G : nule n s0 (upd_actor (log_rec (set_logseq s (oz (log_id_next (logseq s)))) (oz (log_id_next (logseq s))) LOGLEVEL_OPEN parent 0) a
       (mkActor (SPrep []) (oz (count_inc (oz count_new))) MINRC_INIT (Some nt) (oz (log_id_next (logseq s))) false))).
  { apply nule_upd_new; [apply nule_log_rec; eapply nule_same; [exact H | reflexivity] | exact E]. }
  destruct vis; (eapply nule_same; [exact G | reflexivity]).
Qed.

Lemma inst_uid c mk s ci s' : inst c mk s = (ci, s') -> ci_uid ci = nuid s.
Proof. unfold inst. destruct (take_caps (clo_caps c) s). intros Q; inversion Q; reflexivity. Qed.
Lemma inst_call_uid c mk s ci s' : inst_call c mk s = (ci, s') -> ci_uid ci = nuid s.
Proof. unfold inst_call. destruct (inst c mk s) as [ci1 s1] eqn:I. intros Q; inversion Q; subst. eapply inst_uid; eauto. Qed.
Lemma nuid_ref_clone s a : nuid (ref_clone s a) = nuid s.
Proof. unfold ref_clone. destruct (aget (actors s) a) as [y|]; [destruct (a_freed y)|]; reflexivity. Qed.

Lemma mk_notifier_nu n s0 s a nn nt s' :
  nule n s0 s -> (n <= nuid s)%N -> mk_notifier s a nn = (nt, s') ->
  nule n s0 s' /\ (forall u, In u (nu_ret nt) -> (n <= u)%N).
Proof.
  intros H LE. unfold mk_notifier. destruct nn as [[hp c]|].
  - destruct (lookup s hp) as [v|].
    + destruct (handle_actor v) as [p|].
      * destruct (inst_call c (fun b => KMeth p b None) (ref_clone s p)) as [ci s2] eqn:I.
        intros Q; inversion Q; subst. split.
        -- eapply nule_same; [apply nule_ref_clone; exact H | eapply inst_call_actors; eauto].
        -- intros u [<-|[]]. rewrite (inst_call_uid _ _ _ _ _ I), nuid_ref_clone. exact LE.
      * intros Q; inversion Q; subst. split; [eapply nule_same; [exact H | reflexivity] | intros u []].
    + intros Q; inversion Q; subst. split; [eapply nule_same; [exact H | reflexivity] | intros u []].
  - intros Q; inversion Q; subst. split; [exact H | intros u []].
Qed.

(* ------------------------------------------------------------------ *)
(** * The pass: actors *)

Lemma bind_actors s h v l s' : bind s h v = (l, s') -> actors s' = actors s.
Proof. unfold bind. destruct (aget (env s) h); intros Q; inversion Q; reflexivity. Qed.
Lemma bad_actors s c l s' : bad s c = (l, s') -> actors s' = actors s.
Proof. unfold bad. intros Q; inversion Q; reflexivity. Qed.
Lemma inst_nocaps_actors c mk s ci s' : inst_nocaps c mk s = (ci, s') -> actors s' = actors s.
Proof. unfold inst_nocaps. intros Q; inversion Q; reflexivity. Qed.
Lemma submit_actors s q ci : actors (submit s q ci) = actors s.
Proof. unfold submit. destruct q; reflexivity. Qed.
Lemma timer_add_actors s k v t ci : actors (timer_add s k v t ci) = actors s.
Proof. reflexivity. Qed.
Lemma take_env_caps_actors ids : forall s l s', take_env_caps ids s = (l, s') -> actors s' = actors s.
Proof.
  induction ids as [|h r IH]; simpl; intros s l s' E.
  - inversion E; reflexivity.
  - destruct (aget (env s) h).
    + destruct (take_env_caps r (set_env s (adel (env s) h))) as [l2 s2] eqn:T2. inversion E; subst. rewrite (IH _ _ _ T2). reflexivity.
    + eapply IH; eauto.
Qed.
Lemma tok_script_actors script : forall s, actors (tok_script s script) = actors s.
Proof.
  unfold tok_script. induction script as [|c r IH]; intros s; [reflexivity|]. cbn [fold_left].
  destruct (inst_env c KPlain s) as [ci s1] eqn:I. rewrite IH, submit_actors.
  unfold inst_env in I. destruct (take_env_caps (clo_caps c) s) as [caps s2] eqn:T. inversion I; subst. simpl.
  eapply take_env_caps_actors; eauto.
Qed.

Lemma actors_emit s e : actors (emit s e) = actors s. Proof. reflexivity. Qed.
Lemma actors_push_main s c : actors (push_main s c) = actors s. Proof. reflexivity. Qed.
Lemma actors_push_frame s c l : actors (push_frame s c l) = actors s. Proof. reflexivity. Qed.
Lemma actors_set_alive s v : actors (set_alive s v) = actors s. Proof. reflexivity. Qed.
Lemma actors_set_now s v : actors (set_now s v) = actors s. Proof. reflexivity. Qed.
Lemma actors_set_start s v : actors (set_start s v) = actors s. Proof. reflexivity. Qed.
Lemma actors_set_mainq s v : actors (set_mainq s v) = actors s. Proof. reflexivity. Qed.
Lemma actors_set_lazyq s v : actors (set_lazyq s v) = actors s. Proof. reflexivity. Qed.
Lemma actors_set_idleq s v : actors (set_idleq s v) = actors s. Proof. reflexivity. Qed.
Lemma actors_set_timers s v : actors (set_timers s v) = actors s. Proof. reflexivity. Qed.
Lemma actors_set_tnext s v : actors (set_tnext s v) = actors s. Proof. reflexivity. Qed.
Lemma actors_set_tvars s v : actors (set_tvars s v) = actors s. Proof. reflexivity. Qed.
Lemma actors_set_recreate s v : actors (set_recreate s v) = actors s. Proof. reflexivity. Qed.
Lemma actors_set_fwds s v : actors (set_fwds s v) = actors s. Proof. reflexivity. Qed.
Lemma actors_set_env s v : actors (set_env s v) = actors s. Proof. reflexivity. Qed.
Lemma actors_set_frames s v : actors (set_frames s v) = actors s. Proof. reflexivity. Qed.
Lemma actors_set_nuid s v : actors (set_nuid s v) = actors s. Proof. reflexivity. Qed.
Lemma actors_set_logseq s v : actors (set_logseq s v) = actors s. Proof. reflexivity. Qed.
Lemma actors_set_logfilter s v : actors (set_logfilter s v) = actors s. Proof. reflexivity. Qed.
Lemma actors_set_haslogger s v : actors (set_haslogger s v) = actors s. Proof. reflexivity. Qed.
Lemma actors_set_shut s v : actors (set_shut s v) = actors s. Proof. reflexivity. Qed.

Ltac nule_step :=
  lazymatch goal with
  | |- nule _ _ (emit ?s _) => apply (nule_same _ _ s); [ | apply actors_emit ]
  | |- nule _ _ (submit ?s _ _) => apply (nule_same _ _ s); [ | apply submit_actors ]
  | |- nule _ _ (push_main ?s _) => apply (nule_same _ _ s); [ | apply actors_push_main ]
  | |- nule _ _ (timer_add ?s _ _ _ _) => apply (nule_same _ _ s); [ | apply timer_add_actors ]
  | |- nule _ _ (push_frame ?s _ _) => apply (nule_same _ _ s); [ | apply actors_push_frame ]
  | |- nule _ _ (target_ev ?s _) => apply (nule_same _ _ s); [ | apply target_ev_actors ]
  | |- nule _ _ (tok_script ?s _) => apply (nule_same _ _ s); [ | apply tok_script_actors ]
  | |- nule _ _ (log_rec _ _ _ _ _) => apply nule_log_rec
  | |- nule _ _ (ref_clone _ _) => apply nule_ref_clone
  | |- nule _ _ (set_alive ?s _) => apply (nule_same _ _ s); [ | apply actors_set_alive ]
  | |- nule _ _ (set_now ?s _) => apply (nule_same _ _ s); [ | apply actors_set_now ]
  | |- nule _ _ (set_start ?s _) => apply (nule_same _ _ s); [ | apply actors_set_start ]
  | |- nule _ _ (set_mainq ?s _) => apply (nule_same _ _ s); [ | apply actors_set_mainq ]
  | |- nule _ _ (set_lazyq ?s _) => apply (nule_same _ _ s); [ | apply actors_set_lazyq ]
  | |- nule _ _ (set_idleq ?s _) => apply (nule_same _ _ s); [ | apply actors_set_idleq ]
  | |- nule _ _ (set_timers ?s _) => apply (nule_same _ _ s); [ | apply actors_set_timers ]
  | |- nule _ _ (set_tnext ?s _) => apply (nule_same _ _ s); [ | apply actors_set_tnext ]
  | |- nule _ _ (set_tvars ?s _) => apply (nule_same _ _ s); [ | apply actors_set_tvars ]
  | |- nule _ _ (set_recreate ?s _) => apply (nule_same _ _ s); [ | apply actors_set_recreate ]
  | |- nule _ _ (set_fwds ?s _) => apply (nule_same _ _ s); [ | apply actors_set_fwds ]
  | |- nule _ _ (set_env ?s _) => apply (nule_same _ _ s); [ | apply actors_set_env ]
  | |- nule _ _ (set_frames ?s _) => apply (nule_same _ _ s); [ | apply actors_set_frames ]
  | |- nule _ _ (set_nuid ?s _) => apply (nule_same _ _ s); [ | apply actors_set_nuid ]
  | |- nule _ _ (set_logseq ?s _) => apply (nule_same _ _ s); [ | apply actors_set_logseq ]
  | |- nule _ _ (set_logfilter ?s _) => apply (nule_same _ _ s); [ | apply actors_set_logfilter ]
  | |- nule _ _ (set_haslogger ?s _) => apply (nule_same _ _ s); [ | apply actors_set_haslogger ]
  | |- nule _ _ (set_shut ?s _) => apply (nule_same _ _ s); [ | apply actors_set_shut ]
  | |- nule _ _ (if ?b then _ else _) => destruct b
  | |- nule _ _ (upd_actor ?s ?a (with_rc ?y _)) =>
      match goal with A : aget (actors s) a = Some y |- _ => apply (nule_upd_keep _ _ s a y); [ | exact A | left; reflexivity ] end
  | |- nule _ _ (upd_actor ?s ?a (with_strong ?y _)) =>
      match goal with A : aget (actors s) a = Some y |- _ => apply (nule_upd_keep _ _ s a y); [ | exact A | left; reflexivity ] end
  | |- nule _ _ (upd_actor ?s ?a (with_state ?y _)) =>
      match goal with A : aget (actors s) a = Some y |- _ => apply (nule_upd_keep _ _ s a y); [ | exact A | left; reflexivity ] end
  | |- nule _ _ (upd_actor ?s ?a (mkActor _ _ _ None _ _)) =>
      match goal with A : aget (actors s) a = Some ?y |- _ => apply (nule_upd_keep _ _ s a y); [ | exact A | right; reflexivity ] end
  | |- nule _ _ (upd_actor ?s ?a (mkActor _ _ _ (a_notify ?y) _ _)) =>
      match goal with A : aget (actors s) a = Some y |- _ => apply (nule_upd_keep _ _ s a y); [ | exact A | left; reflexivity ] end
  | |- nule _ _ ?s' =>
      match goal with
      | H : take _ _ = (_, s') |- _ => eapply nule_same; [ | exact (take_actors _ _ _ _ H) ]
      | H : take_caps _ _ = (_, s') |- _ => eapply nule_same; [ | exact (take_caps_actors _ _ _ _ H) ]
      | H : bind _ _ _ = (_, s') |- _ => eapply nule_same; [ | exact (bind_actors _ _ _ _ _ H) ]
      | H : bad _ _ = (_, s') |- _ => eapply nule_same; [ | exact (bad_actors _ _ _ _ H) ]
      | H : inst _ _ _ = (_, s') |- _ => eapply nule_same; [ | exact (inst_actors _ _ _ _ _ H) ]
      | H : inst_call _ _ _ = (_, s') |- _ => eapply nule_same; [ | exact (inst_call_actors _ _ _ _ _ H) ]
      | H : inst_nocaps _ _ _ = (_, s') |- _ => eapply nule_same; [ | exact (inst_nocaps_actors _ _ _ _ _ H) ]
      | _ => is_var s'; apply nule_refl
      end
  end.

Ltac nule_tac := repeat nule_step.

Ltac inj_pair Q :=
  match type of Q with
  | (_, _) = (_, _) => injection Q as ? ?; subst
  | _ => idtac
  end.

(* the acts push no notifier invocation except ... none: a Ret sent or dropped is a user Ret *)
Lemma do_act_nule a s pre s' : do_act a s = (pre, s') -> nule (nuid s) s s'.
Proof.
  unfold do_act. destruct a; repeat dest_match; intros Q; inj_pair Q; try solve [nule_tac].
  all: nule_tac.
  - destruct (mk_notifier_nu _ _ _ _ _ _ _ (nule_refl (nuid s) s) (N.le_refl _) Heqp) as [A B].
    apply nule_new_actor; auto.
  - apply (nule_upd_keep _ _ _ _ a0); [eapply nule_same; [apply nule_refl | exact (take_actors _ _ _ _ Heqp)] | | left; reflexivity].
    rewrite (take_actors _ _ _ _ Heqp). exact Heqo.
  - destruct (mk_notifier_nu _ _ _ _ _ _ _ (nule_refl (nuid s) s) (N.le_refl _) Heqp) as [A B].
    apply nule_new_actor; [apply nule_ref_clone; exact A | exact B].
  - destruct (mk_notifier_nu _ _ _ _ _ _ _ (nule_refl (nuid s) s) (N.le_refl _) Heqp) as [A B].
    apply nule_new_actor; [apply nule_ref_clone; exact A | exact B].
Qed.


(* ------------------------------------------------------------------ *)
(** * The pass: pushed micro-ops *)

Lemma nu_drops l : nu_k (drops l) = [].
Proof. unfold drops. induction l; simpl; auto. Qed.
Lemma nu_slab_drops l : nu_k (slab_drops l) = [].
Proof. induction l as [|[c|n] l IH]; simpl; auto. Qed.
Lemma nu_dropitems l : nu_k (map MDropItem l) = [].
Proof. induction l; simpl; auto. Qed.
Lemma nu_runitems l : nu_k (map MRunItem l) = [].
Proof. induction l; simpl; auto. Qed.
Lemma bind_nu s h v l s' : bind s h v = (l, s') -> nu_k l = [].
Proof. unfold bind. destruct (aget (env s) h); intros Q; inversion Q; reflexivity. Qed.
Lemma bad_nu s c l s' : bad s c = (l, s') -> nu_k l = [].
Proof. unfold bad. intros Q; inversion Q; reflexivity. Qed.
Lemma state_drops_nu a sa s l s' : state_drops a sa s = (l, s') -> s' = s /\ nu_k l = [].
Proof.
  unfold state_drops. destruct sa; intros Q; inversion Q; subst; split; auto.
  - apply nu_dropitems.
  - simpl. rewrite nu_k_app, nu_drops, nu_slab_drops. reflexivity.
Qed.

Ltac nupre_tac :=
  first [ reflexivity
        | (eapply bind_nu; eassumption)
        | (eapply bad_nu; eassumption)
        | (cbn [map app nu_k flat_map nu_mop]; rewrite ?nu_k_app, ?nu_drops, ?nu_slab_drops, ?nu_dropitems, ?nu_runitems; reflexivity) ].

(* a value in scope is well-kinded when the census of RBad is 0 *)
Lemma lookup_ukind s h r : cst RBad s = 0 -> lookup s h = Some (HRet r) -> ukind r = true.
Proof.
  intros NBS LK. destruct (lookup_take _ _ _ LK) as [s1 T]. pose proof (take_W RBad _ _ _ _ T) as TW.
  assert (TT : tr s1 = tr s) by (revert T; unfold take; repeat dest_match; intros Q; inversion Q; reflexivity).
  unfold W in TW. rewrite TT in TW. simpl copt in TW. rewrite cv_ret in TW.
  apply nb_real. pose proof (cst_nn RBad s1). pose proof (cret_nn RBad r). pose proof (badif_nn RBad (ukind r)). lia.
Qed.

Lemma do_act_nupre a s pre s' : cst RBad s = 0 -> do_act a s = (pre, s') -> nu_k pre = [].
Proof.
  intros NBS. unfold do_act. destruct a; repeat dest_match; intros Q; inj_pair Q; try solve [nupre_tac].
  (* ARetSend *)
  cbn [nu_k flat_map nu_mop]. rewrite ukind_no_inner; [reflexivity|]. eapply lookup_ukind; eauto.
Qed.

Lemma handle_nule mo s pre s' : handle mo s = (pre, s') -> nule (nuid s) s s'.
Proof.
  destruct mo; cbn [handle].
  - unfold do_top. destruct o; repeat dest_match; intros Q; inj_pair Q; unfold fresh_stakker; nule_tac.
  - destruct l as [|a l]; [intros Q; inj_pair Q; nule_tac|]. destruct (do_act a s) as [p s1] eqn:E.
    intros Q; inversion Q; subst. eapply do_act_nule; eauto.
  - destruct (frames s); intros Q; inj_pair Q; nule_tac.
  - destruct (frames s); intros Q; inj_pair Q; nule_tac.
  - unfold run_item. destruct c as [u i kd caps q]. destruct kd; repeat dest_match; intros Q; inj_pair Q; nule_tac.
  - unfold drop_item. destruct c as [u i kd caps q]. destruct kd; intros Q; inj_pair Q; nule_tac.
  - intros Q; inj_pair Q; nule_tac.
  - unfold drop_val. destruct v; repeat dest_match; intros Q; inj_pair Q; nule_tac.
  - unfold drop_own. destruct logged; repeat dest_match; intros Q; inj_pair Q; nule_tac.
  - unfold drop_ref. destruct (aget (actors s) a) as [y|] eqn:A; [|intros Q; inj_pair Q; nule_tac].
    destruct (a_freed y); [intros Q; inj_pair Q; nule_tac|]. destruct (minrc_drop (a_rc y)) as [[v z]|]; [|intros Q; inj_pair Q; nule_tac].
    destruct z; [|intros Q; inj_pair Q; nule_tac].
    destruct (state_drops a (a_state y) _) as [dl s2] eqn:SD. destruct (state_drops_nu _ _ _ _ _ SD) as [-> _].
    intros Q; inj_pair Q. nule_tac.
  - unfold ret_invoke. destruct r as [rid k]. destruct k; repeat dest_match; intros Q; inj_pair Q; nule_tac.
  - intros Q; inj_pair Q; nule_tac.
  - intros Q; inj_pair Q; nule_tac.
  - intros Q; inj_pair Q; nule_tac.
  - intros Q; inj_pair Q; nule_tac.
  - unfold terminate. destruct (aget (actors s) a) as [y|] eqn:A; [|intros Q; inj_pair Q; nule_tac].
    destruct (state_drops a (a_state y) _) as [dl s2] eqn:SD. destruct (state_drops_nu _ _ _ _ _ SD) as [-> _].
    assert (G : nule (nuid s) s (upd_actor (if a_freed y then emit s (EModel M_UAF a) else s) a
                 (mkActor SZombie (oz (count_set_state (a_strong y) STATE_ZOMBIE)) (a_rc y) None (a_logid y) (a_freed y)))).
    { apply (nule_upd_keep _ _ _ _ y); [destruct (a_freed y); [eapply nule_same; [apply nule_refl | reflexivity] | apply nule_refl]
                                        | destruct (a_freed y); exact A | right; reflexivity]. }
    destruct (a_notify y); intros Q; inj_pair Q; exact G.
  - destruct (aget (actors s) a); intros Q; inj_pair Q; nule_tac.
  - destruct (aget (actors s) a) as [y|] eqn:A; [destruct (a_state y)|]; intros Q; inj_pair Q; nule_tac.
  - unfold fresh_stakker. intros Q; inj_pair Q; nule_tac.
  - destruct idle; [destruct (idleq s)|]; intros Q; inj_pair Q; nule_tac.
  - destruct (t >? now (set_mainq s [])).
    + destruct (fire t _) as [fired s2] eqn:FI. unfold fire in FI. injection FI as ? ?; subst. intros Q; inj_pair Q; nule_tac.
    + intros Q; inj_pair Q; nule_tac.
  - repeat dest_match; intros Q; inj_pair Q; nule_tac.
  - repeat dest_match; intros Q; inj_pair Q; nule_tac.
  - intros Q; inj_pair Q; nule_tac.
  - repeat dest_match; intros Q; inj_pair Q; nule_tac.
  - repeat dest_match; intros Q; inj_pair Q; nule_tac.
  - intros Q; inj_pair Q; nule_tac.
  - intros Q; inj_pair Q. eapply nule_same; [apply nule_refl|]. simpl.
    unfold class_flags. generalize (class_flag (actors s)). intros f. generalize (actors s) at 1. intros l. revert s.
    induction l as [|p l IH]; intros s; simpl; auto. rewrite IH. unfold emit_opt. destruct (f p); reflexivity.
Qed.

Lemma NB_state mo s : NB mo s -> cst RBad s = 0.
Proof. unfold NB. pose proof (cmop_nn RBad mo). pose proof (cst_nn RBad s). lia. Qed.

(** notifier invocations pushed by a step come from the head micro-op or from a notifier field *)
Lemma handle_nupre mo s pre s' :
  NB mo s -> handle mo s = (pre, s') -> forall u, In u (nu_k pre) -> In u (nu_mop mo) \/ In u (nu_acts (actors s)).
Proof.
  intros NBH. pose proof (NB_state _ _ NBH) as NBS. pose proof (NB_mop _ _ NBH) as NBM.
  assert (NIL : nu_k pre = [] -> forall u, In u (nu_k pre) -> In u (nu_mop mo) \/ In u (nu_acts (actors s))).
  { intros E u H. rewrite E in H. contradiction. }
  destruct mo; cbn [handle].
  - unfold do_top. destruct o; repeat dest_match; intros Q; inj_pair Q; apply NIL; nupre_tac.
  - destruct l as [|a l]; [intros Q; inj_pair Q; apply NIL; nupre_tac|]. destruct (do_act a s) as [p s1] eqn:E.
    intros Q; inversion Q; subst. apply NIL. rewrite nu_k_app, (do_act_nupre _ _ _ _ NBS E). reflexivity.
  - destruct (frames s); intros Q; inj_pair Q; apply NIL; nupre_tac.
  - destruct (frames s) as [|fr rest]; intros Q; inj_pair Q; apply NIL; [nupre_tac|].
    rewrite nu_k_app, nu_drops. destruct f; try destruct (f_die fr); try destruct ready; reflexivity.
  - unfold run_item. destruct c as [u0 i kd caps q]. destruct kd; repeat dest_match; intros Q; inj_pair Q; apply NIL; nupre_tac.
  - unfold drop_item. destruct c as [u0 i kd caps q]. destruct kd; intros Q; inj_pair Q; apply NIL; nupre_tac.
  - intros Q; inj_pair Q; apply NIL; nupre_tac.
  - unfold drop_val. destruct v; repeat dest_match; intros Q; inj_pair Q; apply NIL; try nupre_tac.
    (* HRet: a user Ret *)
    cbn [nu_k flat_map nu_mop]. rewrite ukind_no_inner; [reflexivity|].
    apply nb_real. cbn [cmop] in NBM. rewrite cv_ret in NBM. pose proof (cret_nn RBad r). pose proof (badif_nn RBad (ukind r)). lia.
  - unfold drop_own. destruct logged; repeat dest_match; intros Q; inj_pair Q; apply NIL; nupre_tac.
  - unfold drop_ref. destruct (aget (actors s) a) as [y|] eqn:A; [|intros Q; inj_pair Q; apply NIL; nupre_tac].
    destruct (a_freed y); [intros Q; inj_pair Q; apply NIL; nupre_tac|].
    destruct (minrc_drop (a_rc y)) as [[v z]|]; [|intros Q; inj_pair Q; apply NIL; nupre_tac].
    destruct z; [|intros Q; inj_pair Q; apply NIL; nupre_tac].
    destruct (state_drops a (a_state y) _) as [dl s2] eqn:SD. destruct (state_drops_nu _ _ _ _ _ SD) as [-> ND].
    intros Q; inj_pair Q. intros u. rewrite nu_k_app, ND, app_nil_r. intros H. right.
    destruct (a_notify y) as [nt|] eqn:NT; [|contradiction]. cbn [nu_k flat_map nu_mop] in H. rewrite app_nil_r in H.
    eapply nu_acts_aget; eauto. rewrite NT. exact H.
  - (* MRetInvoke *)
    unfold ret_invoke. destruct r as [rid k]. destruct k as [caps b|a ci|a ci|a inner|p key inner].
    + intros Q; inj_pair Q; apply NIL; nupre_tac.
    + intros Q; inj_pair Q; apply NIL; nupre_tac.
    + destruct m; intros Q; inj_pair Q; apply NIL; nupre_tac.
    + destruct inner as [[p ci]|]; intros Q; inj_pair Q; apply NIL; nupre_tac.
    + destruct m; intros Q; inj_pair Q; intros u H; left; cbn [nu_k flat_map nu_mop app] in *; rewrite ?app_nil_r in H; exact H.
  - intros Q; inj_pair Q; apply NIL; nupre_tac.
  - intros Q; inj_pair Q; apply NIL; nupre_tac.
  - intros Q; inj_pair Q; apply NIL; nupre_tac.
  - intros Q; inj_pair Q; apply NIL; nupre_tac.
  - (* MTerminate *)
    unfold terminate. destruct (aget (actors s) a) as [y|] eqn:A; [|intros Q; inj_pair Q; apply NIL; nupre_tac].
    destruct (state_drops a (a_state y) _) as [dl s2] eqn:SD. destruct (state_drops_nu _ _ _ _ _ SD) as [-> ND].
    destruct (a_notify y) as [nt|] eqn:NT; intros Q; inj_pair Q; [|apply NIL; exact ND].
    intros u. rewrite nu_k_app, ND. cbn [nu_k flat_map nu_mop app]. rewrite app_nil_r. intros H. right.
    eapply nu_acts_aget; eauto. rewrite NT. exact H.
  - destruct (aget (actors s) a); intros Q; inj_pair Q; apply NIL; nupre_tac.
  - destruct (aget (actors s) a) as [y|] eqn:A; [destruct (a_state y)|]; intros Q; inj_pair Q; apply NIL; nupre_tac.
  - intros Q; inj_pair Q; apply NIL; nupre_tac.
  - destruct idle; [destruct (idleq s)|]; intros Q; inj_pair Q; apply NIL; nupre_tac.
  - destruct (t >? now (set_mainq s [])).
    + destruct (fire t _) as [fired s2] eqn:FI. intros Q; inj_pair Q; apply NIL; nupre_tac.
    + intros Q; inj_pair Q; apply NIL; nupre_tac.
  - repeat dest_match; intros Q; inj_pair Q; apply NIL; nupre_tac.
  - repeat dest_match; intros Q; inj_pair Q; apply NIL; nupre_tac.
  - intros Q; inj_pair Q; apply NIL. rewrite nu_k_app, nu_dropitems. reflexivity.
  - repeat dest_match; intros Q; inj_pair Q; apply NIL; nupre_tac.
  - repeat dest_match; intros Q; inj_pair Q; apply NIL; nupre_tac.
  - intros Q; inj_pair Q; apply NIL; nupre_tac.
  - intros Q; inj_pair Q; apply NIL; nupre_tac.
Qed.

(** the notifier call uids after a step: old ones or fresh ones *)
Theorem handle_nu mo k0 s pre s' :
  NB mo s -> handle mo s = (pre, s') ->
  forall u, In u (NU (pre ++ k0) s') -> In u (NU (mo :: k0) s) \/ (nuid s <= u)%N.
Proof.
  intros NBH E u H. unfold NU in *. rewrite nu_k_app in H. apply in_app_or in H as [H|H].
  - apply in_app_or in H as [H|H].
    + destruct (handle_nupre _ _ _ _ NBH E u H) as [G|G]; left; apply in_or_app; [left; simpl; apply in_or_app; left; exact G | right; exact G].
    + left. apply in_or_app. left. simpl. apply in_or_app. right. exact H.
  - destruct (handle_nule _ _ _ _ E u H) as [G|G]; [left; apply in_or_app; right; exact G | right; exact G].
Qed.
