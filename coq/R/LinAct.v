(** Layer R proofs: LINEARITY, part 2a: the conservation law of the acts ([do_act]); tactics.

    [handle m s = (pre, s')] implies, for every resource x,
       cmops x pre + W x s' + emb x m = cmop x m + W x s
    (nothing is duplicated, nothing is lost) for every micro-op except [MNew] with the inline deferrer, which
    forgets the previous main queue ([<=]).  [emb] is the slack of the pair objects [REmb]: invoking a
    ret_to!-style Ret separates the Ret from its call closure, and no event names both. *)
From Coq Require Import ZArith NArith List Bool Lia.
From Stk Require Import Lib.U Gen.SrcCount Gen.SrcCore Gen.SrcLog R.Syntax R.Rt R.Shape R.Lin.
Import ListNotations.
Local Open Scope Z_scope.

Arguments submit : simpl never.
Arguments push_main : simpl never.
Arguments timer_add : simpl never.
Arguments emit : simpl never.
Arguments upd_actor : simpl never.
Arguments ref_clone : simpl never.
Arguments new_actor : simpl never.
Arguments log_rec : simpl never.
Arguments tok_script : simpl never.
Arguments target_ev : simpl never.
Arguments push_frame : simpl never.

Lemma cactor_unf x a y sa : a_state y = sa -> cactor x a y = cstate x a sa + cnotopt x (a_notify y).
Proof. intros <-. reflexivity. Qed.

Lemma cv_own x a : cv x (HOwn a) = 0. Proof. apply cv_eq. Qed.
Lemma cv_act x a : cv x (HAct a) = 0. Proof. apply cv_eq. Qed.
Lemma cv_anon x a : cv x (HAnon a) = 0. Proof. apply cv_eq. Qed.
Lemma cv_fwd x a : cv x (HFwd a) = 0. Proof. apply cv_eq. Qed.
Lemma cv_tok x a b : cv x (HTok a b) = 0. Proof. apply cv_eq. Qed.

Ltac pose_helpers x :=
  repeat match goal with
  | H : take ?s ?h = (?o, _) |- _ =>
      pose proof (take_W x _ _ _ _ H); pose proof (take_actors _ _ _ _ H);
      let TL := fresh "TL" in pose proof (take_lookup s h) as TL; rewrite H in TL; cbn [fst] in TL; revert H
  | H : take_caps _ _ = (_, _) |- _ => pose proof (take_caps_W x _ _ _ _ H); revert H
  | H : bind _ _ _ = (_, _) |- _ => pose proof (bind_W x _ _ _ _ _ H); revert H
  | H : bad _ _ = (_, _) |- _ => pose proof (bad_W x _ _ _ _ H); revert H
  | H : inst _ _ _ = (_, _) |- _ => pose proof (inst_W x _ _ _ _ _ H eq_refl); pose proof (inst_kind _ _ _ _ _ H); revert H
  | H : inst_call _ _ _ = (_, _) |- _ => pose proof (inst_call_W x _ _ _ _ _ H eq_refl); pose proof (inst_call_kind _ _ _ _ _ H); revert H
  | H : inst_nocaps _ _ _ = (_, _) |- _ => pose proof (inst_nocaps_W x _ _ _ _ _ H eq_refl); revert H
  | H : mk_notifier _ _ _ = (_, _) |- _ =>
      let A := fresh "MK" in let B := fresh "NK" in
      destruct (mk_notifier_W x _ _ _ _ _ H) as [A B]; revert H
  | H : var_timer _ _ _ = Some _ |- _ =>
      let i := fresh "i" in let F := fresh "F" in let E := fresh "E" in
      destruct (var_timer_find _ _ _ _ H) as (i & F & E); cbn [ti_tid] in E; subst i;
      pose proof (ctim_remove x _ _ _ F); revert H
  end; intros;
  repeat match goal with
  | H : ?o = lookup ?s ?h, H2 : lookup ?s ?h = Some _ |- _ => rewrite H2 in H; subst o
  end.

Ltac upd_rw :=
  repeat match goal with
  | E : actors ?s0 = actors ?s, A : aget (actors ?s) ?a = Some ?z |- _ =>
      lazymatch goal with
      | _ : aget (actors s0) a = Some z |- _ => fail
      | _ => let A' := fresh "A" in pose proof A as A'; rewrite <- E in A'
      end
  end;
  repeat match goal with
  | A : aget (actors ?s) ?a = Some ?z |- context [W ?x (upd_actor ?s ?a ?y)] => rewrite (W_upd_some x s a y z A)
  | A : aget (actors ?s) ?a = Some ?z, H : context [W ?x (upd_actor ?s ?a ?y)] |- _ => rewrite (W_upd_some x s a y z A) in H
  end.

Ltac Wrw :=
  repeat (progress (
    rewrite ?W_emit, ?W_push_main, ?W_timer_add, ?W_push_frame, ?W_ref_clone, ?W_log_rec, ?W_target_ev, ?W_tok_script,
            ?W_set_shut, ?W_set_fwds, ?W_set_nuid, ?W_set_tvars, ?W_set_tnext, ?W_set_logseq, ?W_set_logfilter,
            ?W_set_haslogger, ?W_set_recreate, ?W_set_now, ?W_set_start, ?W_set_alive, ?W_set_frames, ?W_set_timers in *;
    rewrite ?W_submit in * by discriminate;
    rewrite ?W_new_actor in * by (eapply mk_notifier_none; eauto);
    upd_rw));
  repeat match goal with
  | |- context [ctim _ (ti_update _ _ _)] => erewrite ctim_update by (first [ eassumption | reflexivity ])
  end;
  repeat match goal with H : frames ?s = _ |- context [frames ?s] => rewrite H end;
  rewrite ?cactor_with_strong, ?cactor_with_rc, ?cactor_with_state in *;
  repeat match goal with H : a_state ?y = _ |- context [cactor ?x ?a ?y] => rewrite (cactor_unf x a y _ H) end.

Ltac fin_tac :=
  repeat (progress (
    try match goal with H : ci_kind ?c = _ |- _ => rewrite H in * end;
    try match goal with H : nkind _ = true |- _ => rewrite H in * end;
    cbn [cmops cmop cmsg con1 cre1 copt cenv cfrs cstate cq snd fst f_loc ti_ci realk cnotopt ukind nkind badif ci_kind ci_uid ci_caps ci_sq] in *;
    rewrite ?cmops_app, ?cmops_drops, ?cmops_slab_drops, ?cmops_runitems, ?cmops_dropitems, ?cci_unq, ?cci_setq,
            ?cenv_app, ?cq_app, ?cv_ret, ?cret_eq, ?crk_clos, ?crk_to, ?crk_someto, ?crk_slab, ?crk_notify,
            ?cci_eq, ?cv_own, ?cv_act, ?cv_anon, ?cv_fwd, ?cv_tok in *));
  try lia.

Ltac law_tac x := intros; pose_helpers x; Wrw; fin_tac.

Lemma lookup_take s h v : lookup s h = Some v -> exists s1, take s h = (Some v, s1).
Proof. intros H. rewrite <- take_lookup in H. destruct (take s h) as [o s1]. simpl in H. subst. eauto. Qed.

Lemma do_act_law a s pre s' x : do_act a s = (pre, s') -> cmops x pre + W x s' = W x s.
Proof.
  unfold do_act. destruct a; repeat dest_match; intros Q;
    (match type of Q with (_, _) = (_, _) => injection Q as Q1 Q2; subst pre s' | _ => idtac end); try solve [law_tac x].
  all: law_tac x.
  - (* ASlabAdd *)
    assert (N0 : aget (actors s0) a = None) by (eapply mk_notifier_none; eauto).
    assert (N1 : aget (actors (ref_clone s0 a0)) a = None) by (apply ref_clone_none; exact N0).
    rewrite (W_new_actor x _ _ _ _ _ N1), W_ref_clone in H.
    assert (NE : a <> a0) by (intros ->; congruence).
    destruct (mk_notifier_some _ _ _ _ _ _ _ Heqp Heqo) as (y1 & G1 & S1 & T1 & _).
    destruct (ref_clone_some _ a0 _ _ G1) as (y2 & G2 & S2 & T2 & _).
    rewrite <- (new_actor_other _ a (Ret a (RKSlab a0 n0 r)) (a_logid a1) false a0 NE) in G2.
    destruct (ref_clone_some _ a _ _ G2) as (y3 & G3 & S3 & T3 & _).
    rewrite G3 in Heqo1. inversion Heqo1; subst y3.
    assert (SA : a_state a2 = SReady sh slab snext) by congruence.
    rewrite (cactor_unf x a0 a2 _ SA) in H. fin_tac.
  - assert (N0 : aget (actors s0) a = None) by (eapply mk_notifier_none; eauto).
    assert (N1 : aget (actors (ref_clone s0 a0)) a = None) by (apply ref_clone_none; exact N0).
    rewrite (W_new_actor x _ _ _ _ _ N1), W_ref_clone in H. fin_tac.
Qed.

