(** Layer R proofs: C04: the count field of the packed word of an existing cell is left unchanged by every micro-op
    except an owner drop and owned() / kill! on a handle in scope (generated from the [cle] pass of C04A.v with
    equality instead of <=). *)
From Coq Require Import ZArith NArith List Bool Lia.
From Stk Require Import Lib.U Gen.SrcCount Gen.SrcCore Gen.SrcLog R.Syntax R.Rt R.Mon R.Shape R.Eff R.Tags R.Mono R.Count
  R.Nest R.C15Proofs R.C20Proofs R.Calls R.CallInv R.Own R.OwnLaw R.OwnVis R.C04Mon R.C04Base R.C04A.
Import ListNotations.
Local Open Scope Z_scope.

Arguments submit : simpl never.
Arguments push_main : simpl never.
Arguments timer_add : simpl never.
Arguments emit : simpl never.
Arguments upd_actor : simpl never.
Arguments ref_clone : simpl never.
Arguments new_actor : simpl never.
Arguments log_rec : simpl never.
Arguments tok_script : simpl never.
Arguments target_ev : simpl never.
Arguments push_frame : simpl never.

Definition ceq1 (a : N) (s s' : st) : Prop :=
  forall y, aget (actors s) a = Some y -> exists y', aget (actors s') a = Some y' /\ cnt (a_strong y') = cnt (a_strong y).

Definition ceq (s s' : st) : Prop := forall a, ceq1 a s s'.

Lemma ceq_refl s : ceq s s. Proof. intros a y A. exists y. split; auto; lia. Qed.
Lemma ceq_trans s1 s2 s3 : ceq s1 s2 -> ceq s2 s3 -> ceq s1 s3.
Proof. intros A B a y E. destruct (A a y E) as (y2 & E2 & L2). destruct (B a y2 E2) as (y3 & E3 & L3). exists y3. split; auto; lia. Qed.
Lemma ceq1_trans a s1 s2 s3 : ceq1 a s1 s2 -> ceq1 a s2 s3 -> ceq1 a s1 s3.
Proof. intros A B y E. destruct (A y E) as (y2 & E2 & L2). destruct (B y2 E2) as (y3 & E3 & L3). exists y3. split; auto; lia. Qed.
Lemma ceq_same s s' : actors s' = actors s -> ceq s s'.
Proof. intros E a y A. rewrite E. exists y. split; auto; lia. Qed.
Lemma ceq_opres s s' : opres s s' -> ceq s s'.
Proof. intros P a y A. destruct (opres_some _ _ _ _ P A) as (y' & A' & (S & _)). exists y'. split; auto. rewrite S. lia. Qed.

Lemma ceq_upd s p y z : aget (actors s) p = Some z -> cnt (a_strong y) = cnt (a_strong z) -> ceq s (upd_actor s p y).
Proof.
  intros E L a w A. unfold upd_actor. cbn [actors set_actors]. destruct (N.eq_dec p a) as [<-|NE].
  - rewrite aget_aset_eq. rewrite E in A. inversion A; subst. exists y. split; auto.
  - rewrite aget_aset_neq by auto. exists w. split; auto; lia.
Qed.

Lemma ceq_fresh s p y : aget (actors s) p = None -> ceq s (upd_actor s p y).
Proof.
  intros E a w A. unfold upd_actor. cbn [actors set_actors]. assert (p <> a) by (intros ->; congruence).
  rewrite aget_aset_neq by auto. exists w. split; auto; lia.
Qed.

(* an update of another cell *)
Lemma ceq1_other a s p y : p <> a -> ceq1 a s (upd_actor s p y).
Proof. intros NE w A. unfold upd_actor. cbn [actors set_actors]. rewrite aget_aset_neq by auto. exists w. split; auto; lia. Qed.

Lemma ceq_new_actor s p nt parent vis : aget (actors s) p = None -> ceq s (new_actor s p nt parent vis).
Proof.
  intros E a w A. assert (p <> a) by (intros ->; congruence).
  rewrite new_actor_other by auto. exists w. split; auto; lia.
Qed.

Lemma take_ceq s h o s' : take s h = (o, s') -> ceq s s'.
Proof. intros T. apply ceq_same. apply (take_same _ _ _ _ T). Qed.






(* generic composition: [ceq s0 E] for a state expression E built from the helpers of Rt.v *)
Ltac ceq_tac :=
  repeat first
    [ match goal with |- ceq ?x ?y => constr_eq x y; apply ceq_refl end
    | match goal with C : ceq ?x ?y |- ceq ?x2 ?y2 => constr_eq x x2; constr_eq y y2; exact C end
    | match goal with
      | |- ceq _ (emit ?s _) => apply (ceq_trans _ s); [ | apply ceq_same; apply actors_emit ]
      | |- ceq _ (push_main ?s _) => apply (ceq_trans _ s); [ | apply ceq_same; apply actors_push_main ]
      | |- ceq _ (push_frame ?s _ _) => apply (ceq_trans _ s); [ | apply ceq_same; apply actors_push_frame ]
      | |- ceq _ (submit ?s ?q _) => apply (ceq_trans _ s); [ | apply ceq_same; apply actors_submit ]
      | |- ceq _ (timer_add ?s _ _ _ _) => apply (ceq_trans _ s); [ | apply ceq_same; apply actors_timer_add ]
      | |- ceq _ (target_ev ?s _) => apply (ceq_trans _ s); [ | apply ceq_same; apply target_ev_same ]
      | |- ceq _ (log_rec ?s _ _ _ _) => apply (ceq_trans _ s); [ | apply ceq_same; apply log_rec_actors ]
      | |- ceq _ (ref_clone ?s _) => apply (ceq_trans _ s); [ | apply ceq_opres; apply opres_ref_clone ]
      | |- ceq _ (set_alive ?s _) => apply (ceq_trans _ s); [ | apply ceq_same; apply actors_set_alive ]
      | |- ceq _ (set_now ?s _) => apply (ceq_trans _ s); [ | apply ceq_same; apply actors_set_now ]
      | |- ceq _ (set_start ?s _) => apply (ceq_trans _ s); [ | apply ceq_same; apply actors_set_start ]
      | |- ceq _ (set_mainq ?s _) => apply (ceq_trans _ s); [ | apply ceq_same; apply actors_set_mainq ]
      | |- ceq _ (set_lazyq ?s _) => apply (ceq_trans _ s); [ | apply ceq_same; apply actors_set_lazyq ]
      | |- ceq _ (set_idleq ?s _) => apply (ceq_trans _ s); [ | apply ceq_same; apply actors_set_idleq ]
      | |- ceq _ (set_timers ?s _) => apply (ceq_trans _ s); [ | apply ceq_same; apply actors_set_timers ]
      | |- ceq _ (set_tnext ?s _) => apply (ceq_trans _ s); [ | apply ceq_same; apply actors_set_tnext ]
      | |- ceq _ (set_tvars ?s _) => apply (ceq_trans _ s); [ | apply ceq_same; apply actors_set_tvars ]
      | |- ceq _ (set_recreate ?s _) => apply (ceq_trans _ s); [ | apply ceq_same; apply actors_set_recreate ]
      | |- ceq _ (set_fwds ?s _) => apply (ceq_trans _ s); [ | apply ceq_same; apply actors_set_fwds ]
      | |- ceq _ (set_env ?s _) => apply (ceq_trans _ s); [ | apply ceq_same; apply actors_set_env ]
      | |- ceq _ (set_frames ?s _) => apply (ceq_trans _ s); [ | apply ceq_same; apply actors_set_frames ]
      | |- ceq _ (set_nuid ?s _) => apply (ceq_trans _ s); [ | apply ceq_same; apply actors_set_nuid ]
      | |- ceq _ (set_logseq ?s _) => apply (ceq_trans _ s); [ | apply ceq_same; apply actors_set_logseq ]
      | |- ceq _ (set_logfilter ?s _) => apply (ceq_trans _ s); [ | apply ceq_same; apply actors_set_logfilter ]
      | |- ceq _ (set_haslogger ?s _) => apply (ceq_trans _ s); [ | apply ceq_same; apply actors_set_haslogger ]
      | |- ceq _ (set_shut ?s _) => apply (ceq_trans _ s); [ | apply ceq_same; apply actors_set_shut ]
      | |- ceq _ (set_tr ?s _) => apply (ceq_trans _ s); [ | apply ceq_same; apply actors_set_tr ]
      | |- ceq _ (if ?b then _ else _) => destruct b
      | |- ceq _ ?s' =>
          match goal with
          | E : take ?s _ = (_, s') |- _ => apply (ceq_trans _ s); [ | apply (take_ceq _ _ _ _ E) ]
          | E : take_caps _ ?s = (_, s') |- _ => apply (ceq_trans _ s); [ | apply ceq_same; apply (take_caps_same _ _ _ _ E) ]
          | E : bind ?s _ _ = (_, s') |- _ => apply (ceq_trans _ s); [ | apply ceq_same; revert E; unfold bind; repeat dest_match; intros Q; inversion Q; reflexivity ]
          | E : bad ?s _ = (_, s') |- _ => apply (ceq_trans _ s); [ | apply ceq_same; unfold bad in E; inversion E; reflexivity ]
          | E : inst _ _ ?s = (_, s') |- _ => apply (ceq_trans _ s); [ | apply ceq_same; apply (inst_same _ _ _ _ _ E) ]
          | E : inst_call _ _ ?s = (_, s') |- _ => apply (ceq_trans _ s); [ | apply ceq_same; apply (inst_call_same _ _ _ _ _ E) ]
          | E : inst_nocaps _ _ ?s = (_, s') |- _ => apply (ceq_trans _ s); [ | apply ceq_same; apply (inst_nocaps_same _ _ _ _ _ E) ]
          | E : mk_notifier ?s _ _ = (_, s') |- _ => apply (ceq_trans _ s); [ | apply ceq_opres; apply (mk_notifier_O 0 _ _ _ _ _ E) ]
          end
      end ].



Lemma do_act_ceq act s pre s' :
  (forall c y, aget (actors s) c = Some y -> srange (a_strong y)) ->
  do_act act s = (pre, s') -> forall a, ceq1 a s s' \/ raises act s a.
Proof.
  intros SR. unfold do_act. destruct act.
  all: try solve [repeat dest_match; intros Q; try injp Q; intros a0; left; revert a0;
                  match goal with |- forall a1, ceq1 a1 ?x ?y => change (ceq x y) end; ceq_tac].
  - (* ANewActor *)
    destruct (has_core s); [|intros Q; injp Q; intros aa; left; revert aa; change (ceq s (emit s (EBad 10))); ceq_tac].
    destruct (aget (actors s) a) eqn:AA; [intros Q; injp Q; intros aa; left; revert aa; change (ceq s (emit s (EBad 10))); ceq_tac|].
    destruct (mk_notifier s a n) as [nt s1] eqn:MK. intros Q aa. left. revert aa. change (ceq s s').
    destruct (mk_notifier_O 0 _ _ _ _ _ MK) as (_ & _ & MP).
    apply (ceq_trans _ s1); [apply ceq_opres; exact MP|].
    apply (ceq_trans _ (new_actor s1 a nt (ctx_logid s) true)); [apply ceq_new_actor; apply (opres_none _ _ _ MP AA)|].
    apply ceq_same. revert Q. unfold bind. repeat dest_match; intros Q; inversion Q; reflexivity.
  - (* AKillAsync *)
    destruct (lookup s h) as [[p|p|p|r|f|t sc]|] eqn:LK;
      try solve [intros Q; injp Q; intros aa; left; revert aa; change (ceq s (emit s (EBad 16))); ceq_tac].
    destruct (aget (actors s) p) as [y|] eqn:AY; [|intros Q; injp Q; intros aa; left; revert aa; change (ceq s (emit s (EBad 16))); ceq_tac].
    intros Q; injp Q. intros aa. destruct (N.eq_dec p aa) as [<-|NE]; [right; exact LK|]. left.
    set (s1 := upd_actor s p (with_strong y (oz (count_inc (a_strong y))))).
    apply (ceq1_trans aa s s1); [apply ceq1_other; exact NE|].
    clear NE. revert aa. match goal with |- forall a1, ceq1 a1 ?x ?y => change (ceq x y) end. ceq_tac; try apply ceq_refl.
  - (* AOwned *)
    destruct (lookup s h) as [[p|p|p|r|f|t sc]|] eqn:LK;
      try solve [intros Q; injp Q; intros aa; left; revert aa; change (ceq s (emit s (EBad 17))); ceq_tac].
    destruct (aget (actors s) p) as [y|] eqn:AY; [|intros Q; injp Q; intros aa; left; revert aa; change (ceq s (emit s (EBad 17))); ceq_tac].
    intros Q aa. destruct (N.eq_dec p aa) as [<-|NE]; [right; exact LK|]. left.
    set (s1 := upd_actor s p (with_strong y (oz (count_inc (a_strong y))))).
    apply (ceq1_trans aa s s1); [apply ceq1_other; exact NE|].
    clear NE. revert aa. match goal with |- forall a1, ceq1 a1 ?x ?y => change (ceq x y) end. ceq_tac; try apply ceq_refl.
  - (* AStore *)
    destruct (cur_ctx s) as [|p pr|]; try solve [intros Q; injp Q; intros aa; left; revert aa; change (ceq s (emit s (EBad 21))); ceq_tac].
    destruct pr; try solve [intros Q; injp Q; intros aa; left; revert aa; change (ceq s (emit s (EBad 21))); ceq_tac].
    destruct (aget (actors s) p) as [y|] eqn:AY; [|intros Q; injp Q; intros aa; left; revert aa; change (ceq s (emit s (EBad 21))); ceq_tac].
    destruct (a_state y) eqn:SA; try solve [intros Q; injp Q; intros aa; left; revert aa; change (ceq s (emit s (EBad 21))); ceq_tac].
    destruct (take s h) as [[v|] s1] eqn:T; intros Q; injp Q; intros aa; left; revert aa.
    + match goal with |- forall a1, ceq1 a1 ?x ?y => change (ceq x y) end.
      apply (ceq_trans _ s1); [apply (take_ceq _ _ _ _ T)|].
      apply (ceq_upd s1 p _ y); [rewrite (proj1 (take_same _ _ _ _ T)); exact AY | simpl; lia].
    + match goal with |- forall a1, ceq1 a1 ?x ?y => change (ceq x y) end. apply (take_ceq _ _ _ _ T).
  - (* ASlabAdd *)
    destruct (cur_ctx s) as [|p pr|] eqn:CC; try solve [intros Q; injp Q; intros aa; left; revert aa; change (ceq s (emit s (EBad 22))); ceq_tac].
    destruct pr; try solve [intros Q; injp Q; intros aa; left; revert aa; change (ceq s (emit s (EBad 22))); ceq_tac].
    destruct (alive s); try solve [intros Q; injp Q; intros aa; left; revert aa; change (ceq s (emit s (EBad 22))); ceq_tac].
    destruct (aget (actors s) p) as [px|] eqn:AP; try solve [intros Q; injp Q; intros aa; left; revert aa; change (ceq s (emit s (EBad 22))); ceq_tac].
    destruct (aget (actors s) a) eqn:AA; try solve [intros Q; injp Q; intros aa; left; revert aa; change (ceq s (emit s (EBad 22))); ceq_tac].
    destruct (a_state px) eqn:SP; try solve [intros Q; injp Q; intros aa; left; revert aa; change (ceq s (emit s (EBad 22))); ceq_tac].
    destruct (mk_notifier s a n) as [inner s1] eqn:MK.
    destruct (slab_insert slab snext a) as [[slab' nx'] key] eqn:SI.
    intros Q aa. left. revert aa. change (ceq s s').
    destruct (mk_notifier_O 0 _ _ _ _ _ MK) as (_ & _ & MP).
    pose proof (opres_trans _ _ _ MP (opres_ref_clone s1 p)) as P2.
    set (s3 := new_actor (ref_clone s1 p) a (Ret a (RKSlab p key inner)) (a_logid px) false) in *.
    assert (C3 : ceq s s3).
    { apply (ceq_trans _ (ref_clone s1 p)); [apply ceq_opres; exact P2 | apply ceq_new_actor; apply (opres_none _ _ _ P2 AA)]. }
    assert (C4 : ceq s (ref_clone s3 a)) by (apply (ceq_trans _ s3); [exact C3 | apply ceq_opres; apply opres_ref_clone]).
    assert (C5 : ceq s (match aget (actors (ref_clone s3 a)) p with
                        | Some px' => upd_actor (ref_clone s3 a) p (with_state px' (SReady sh slab' nx'))
                        | None => ref_clone s3 a end)).
    { destruct (aget (actors (ref_clone s3 a)) p) as [px'|] eqn:A4; [|exact C4].
      apply (ceq_trans _ (ref_clone s3 a)); [exact C4|]. apply (ceq_upd _ p _ px' A4). simpl. lia. }
    eapply ceq_trans; [exact C5|]. apply ceq_same.
    revert Q. unfold bind. repeat dest_match; intros Q; inversion Q; reflexivity.
  - (* ASlabLen *)
    repeat dest_match; intros Q; injp Q; intros a1; left; revert a1;
      match goal with |- forall a2, ceq1 a2 ?x ?y => change (ceq x y) end; ceq_tac.
Qed.

Ltac ceq_goal := match goal with |- forall a1, ceq1 a1 ?x ?y => change (ceq x y) end.
Ltac ceq_all := solve [intros Q; try injp Q; intros aa; left; revert aa; ceq_goal; ceq_tac].

Lemma ceq_tok_script s0 s script : ceq s0 s -> ceq s0 (tok_script s script).
Proof. intros C. apply (ceq_trans _ s); [exact C | apply ceq_same; apply tok_script_actors]. Qed.



Lemma handle_ceq m s pre s' :
  (forall c y, aget (actors s) c = Some y -> srange (a_strong y)) ->
  (forall a lg, m <> MDropOwn a lg) ->
  handle m s = (pre, s') ->
  forall a, ceq1 a s s' \/ exists act l, m = MActs (act :: l) /\ raises act s a.
Proof.
  intros SR ND. destruct m; cbn [handle].
  - (* MTop *) unfold do_top. destruct o; repeat dest_match; ceq_all.
  - (* MActs *)
    destruct l as [|act l]; [ceq_all|].
    destruct (do_act act s) as [p s1] eqn:E. intros Q; injp Q. intros aa.
    destruct (do_act_ceq _ _ _ _ SR E aa) as [C|R]; [left; exact C | right; eauto].
  - destruct (frames s) as [|fr rest]; ceq_all.
  - destruct (frames s) as [|fr rest]; ceq_all.
  - (* MRunItem *)
    unfold run_item. destruct c as [u i kd caps q]. destruct kd.
    + ceq_all.
    + destruct (aget (actors s) a) as [y|] eqn:A; [destruct (a_state y) eqn:SA|]; try ceq_all.
      intros Q; injp Q. intros aa; left; revert aa; ceq_goal. apply (ceq_upd _ _ _ y A). cbn [a_strong with_state with_rc]. lia.
    + destruct (aget (actors s) a) as [y|] eqn:A; [destruct (ob (count_is_prep (a_strong y)))|]; ceq_all.
    + destruct (aget (actors s) p) as [y|] eqn:A; [destruct (a_state y) eqn:SA|]; try ceq_all.
      * intros Q; injp Q. intros aa; left; revert aa; ceq_goal. apply (ceq_upd _ _ _ y A). cbn [a_strong with_state with_rc]. lia.
      * destruct (nth_error slab (N.to_nat key)) as [[child|nx]|]; try ceq_all.
        intros Q; injp Q. intros aa; left; revert aa; ceq_goal. apply (ceq_upd _ _ _ y A). cbn [a_strong with_state with_rc]. lia.
    + ceq_all.
    + ceq_all.
  - unfold drop_item. destruct c as [u i kd caps q]. destruct kd; ceq_all.
  - ceq_all.
  - (* MDropVal *)
    unfold drop_val. destruct v; try ceq_all.
    + repeat dest_match; ceq_all.
    + intros Q; injp Q. intros aa; left; revert aa; ceq_goal. apply ceq_tok_script. ceq_tac.
  - (* MDropOwn *) exfalso. eapply ND; reflexivity.
  - (* MDropRef *)
    unfold drop_ref. destruct (aget (actors s) a) as [y|] eqn:A; [|ceq_all].
    destruct (a_freed y); [ceq_all|]. destruct (minrc_drop (a_rc y)) as [[v z]|]; [|ceq_all].
    destruct z.
    + destruct (state_drops a (a_state y) _) as [dl s2] eqn:SD. intros Q; injp Q.
      destruct (state_drops_h (HO 0) _ _ _ _ _ SD) as [-> _].
      intros aa; left; revert aa; ceq_goal.
      eapply ceq_trans; [|apply ceq_same; reflexivity]. apply (ceq_upd _ _ _ y A). cbn [a_strong].
      destruct (cnt_set _ STATE_ZOMBIE (SR _ _ A) (proj1 state_range)) as [_ CS]. rewrite CS. lia.
    + intros Q; injp Q. intros aa; left; revert aa; ceq_goal. apply (ceq_upd _ _ _ y A). cbn [a_strong with_state with_rc]. lia.
  - (* MRetInvoke *)
    unfold ret_invoke. destruct r as [rid k]. destruct k; repeat dest_match; ceq_all.
  - ceq_all.
  - ceq_all.
  - ceq_all.
  - ceq_all.
  - (* MTerminate *)
    unfold terminate. destruct (aget (actors s) a) as [y|] eqn:A; [|ceq_all].
    set (s0 := if a_freed y then emit s (EModel M_UAF a) else s).
    assert (C0 : ceq s s0) by (unfold s0; destruct (a_freed y); ceq_tac).
    assert (A0 : aget (actors s0) a = Some y) by (unfold s0; destruct (a_freed y); exact A).
    destruct (state_drops a (a_state y) _) as [dl s1] eqn:SD.
    assert (C1 : ceq s s1).
    { destruct (state_drops_h (HO 0) _ _ _ _ _ SD) as [-> _].
      apply (ceq_trans _ s0); [exact C0|]. apply (ceq_upd _ _ _ y A0). cbn [a_strong].
      destruct (cnt_set _ STATE_ZOMBIE (SR _ _ A) (proj1 state_range)) as [_ CS]. rewrite CS. lia. }
    destruct (a_notify y); intros Q; injp Q; intros aa; left; revert aa; ceq_goal; exact C1.
  - destruct (aget (actors s) a); ceq_all.
  - (* MToReady *)
    destruct (aget (actors s) a) as [y|] eqn:A; [|ceq_all].
    destruct (a_state y) eqn:SA; try ceq_all.
    intros Q; injp Q. intros aa; left; revert aa; ceq_goal.
    eapply ceq_trans; [|apply ceq_same; reflexivity]. apply (ceq_upd _ _ _ y A). cbn [a_strong].
    destruct (cnt_set _ STATE_READY (SR _ _ A) (proj2 state_range)) as [_ CS]. rewrite CS. lia.
  - (* MNew *) unfold fresh_stakker. ceq_all.
  - destruct idle; [destruct (idleq s)|]; ceq_all.
  - destruct (t >? now (set_mainq s [])).
    + destruct (fire t (set_now (set_mainq s []) t)) as [fired s2] eqn:FI. unfold fire in FI. injection FI as ? ?; subst.
      ceq_all.
    + ceq_all.
  - repeat dest_match; ceq_all.
  - repeat dest_match; ceq_all.
  - cbv zeta. ceq_all.
  - repeat dest_match; ceq_all.
  - repeat dest_match; ceq_all.
  - ceq_all.
  - intros Q; injp Q. intros aa; left; revert aa; ceq_goal.
    apply ceq_same. cbn [actors set_tr]. apply class_flags_actors.
Qed.

