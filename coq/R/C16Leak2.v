(** Layer R proofs: C16, the leak conjunct -- part 2: structural invariants of the final configuration.

    [SI k s] (any deferrer kind):
    - [MQ]: a closure instance in the main queue was submitted after the last [Core::new];
    - [AI]: while no Stakker is alive the lazy queue, the idle queue and the timers are empty;
    - [DI]: between [MDropFields] and [MDropEnd] they are empty as well, every frame is Core-less and only quiet
      work micro-ops are pending in front of [MDropEnd];
    - [EI]: from the epilogue on, a live Stakker always has its teardown pending ([pend]) and every pending
      [Core::new] is followed by a teardown ([okseq]); hence no Stakker is alive when [MLeaks] is reached. *)
From Coq Require Import ZArith NArith List Bool Lia.
From Stk Require Import Lib.U Gen.SrcCount Gen.SrcCore Gen.SrcLog R.Syntax R.Rt R.Shape R.Eff R.LinDel R.LinTail R.Lin R.C16Leak.
Import ListNotations.
Local Open Scope Z_scope.

Definition is_td (m : mop) : bool :=
  match m with MTop TDropStakker | MDrain _ | MDropFields | MDropEnd => true | _ => false end.
Definition is_new (m : mop) : bool := match m with MNew _ | MTop (TNew _) => true | _ => false end.
Definition is_de (m : mop) : bool := match m with MDropEnd => true | _ => false end.
Definition nonew (m : mop) : bool := negb (is_new m).

(* the first Stakker-relevant micro-op of the continuation is a teardown *)
Fixpoint pend (k : list mop) : bool :=
  match k with [] => false | m :: r => if is_td m then true else if is_new m then false else pend r end.
(* every pending [Core::new] is followed by a teardown before the next one *)
Fixpoint okseq (k : list mop) : bool :=
  match k with [] => true | m :: r => (if is_new m then pend r else true) && okseq r end.
(* the micro-ops in front of the first [MDropEnd] *)
Fixpoint before_de (k : list mop) : option (list mop) :=
  match k with [] => None | m :: r => if is_de m then Some [] else option_map (cons m) (before_de r) end.

Lemma work_plain l : forallb is_work l = true ->
  forallb nonew l = true /\ existsb is_td l = false /\ existsb is_de l = false.
Proof.
  induction l as [|m l IH]; simpl; auto. intros H. apply andb_prop in H as [H1 H2]. destruct (IH H2) as (A & B & C).
  rewrite A, B, C. destruct m; try discriminate H1; auto.
Qed.

Lemma work_app_plain w tl : forallb is_work w = true ->
  forallb nonew (w ++ tl) = forallb nonew tl /\ existsb is_td (w ++ tl) = existsb is_td tl /\ existsb is_de (w ++ tl) = existsb is_de tl.
Proof. intros H. destruct (work_plain _ H) as (A & B & C). rewrite forallb_app, !existsb_app, A, B, C. auto. Qed.

Lemma pend_app pre k : forallb nonew pre = true -> pend (pre ++ k) = existsb is_td pre || pend k.
Proof.
  induction pre as [|m pre IH]; simpl; auto. intros H. apply andb_prop in H as [H1 H2]. rewrite (IH H2).
  destruct (is_td m); auto. unfold nonew in H1. destruct (is_new m); [discriminate|]. reflexivity.
Qed.

Lemma okseq_app pre k : forallb nonew pre = true -> okseq (pre ++ k) = okseq k.
Proof.
  induction pre as [|m pre IH]; simpl; auto. intros H. apply andb_prop in H as [H1 H2]. rewrite (IH H2).
  unfold nonew in H1. destruct (is_new m); [discriminate|]. reflexivity.
Qed.

Lemma bde_app pre k : existsb is_de pre = false -> before_de (pre ++ k) = option_map (app pre) (before_de k).
Proof.
  induction pre as [|m pre IH]; simpl.
  - intros _. destruct (before_de k); reflexivity.
  - intros H. apply orb_false_elim in H as [H1 H2]. rewrite H1, (IH H2). destruct (before_de k); reflexivity.
Qed.

Lemma tops_bde r : tops r = true -> before_de r = None.
Proof.
  unfold tops. induction r as [|m r IH]; simpl; auto. intros H. apply andb_prop in H as [H1 H2]. rewrite (IH H2).
  destruct m; try discriminate H1; reflexivity.
Qed.

Lemma tops_poppers r : tops r = true -> poppers r = [].
Proof.
  unfold tops. induction r as [|m r IH]; simpl; auto. intros H. apply andb_prop in H as [H1 H2].
  destruct m; try discriminate H1; simpl; auto.
Qed.

Lemma quiet_qmop l : quiet l -> forallb qmop l = true.
Proof.
  intros [A B]. induction l as [|m l IH]; simpl in *; auto.
  apply andb_prop in A as [A1 A2]. apply orb_false_elim in B as [B1 B2].
  rewrite IH; auto. unfold qmop. rewrite A1, B1. reflexivity.
Qed.

(* what a handler pushes, as far as the teardown bookkeeping is concerned *)
Lemma handle_pre m s pre s' : handle m s = (pre, s') -> m <> MEpilogue -> (forall t, m <> MTop (TNew t)) ->
  forallb nonew pre = true /\ (is_td m = false -> existsb is_td pre = false) /\ (m <> MDropFields -> existsb is_de pre = false).
Proof.
  intros H NE NT. destruct (is_work m) eqn:W.
  { destruct (handle_work _ _ _ _ W H) as [A _]. destruct (work_plain _ A) as (P1 & P2 & P3). auto. }
  destruct m; try discriminate W; cbn [handle] in H.
  - (* MTop *)
    unfold do_top in H. destruct o; try (exfalso; eapply NT; reflexivity);
      repeat (revert H; dest_match; intros H); unfold bad in *; inversion H; subst;
      (split; [reflexivity | split; [intros X; first [reflexivity | discriminate X] | intros _; reflexivity]]).
  - (* MNew *)
    inversion H; subst. destruct (work_plain _ (work_map_dropitem (match dk s with DGlobal => mainq s | DInline => [] end))) as (P1 & P2 & P3). auto.
  - (* MRunIdle *)
    destruct idle; [destruct (idleq s)|]; inversion H; subst; (split; [reflexivity | split; intros; reflexivity]).
  - (* MRunMain *)
    destruct (t >? now (set_mainq s [])).
    + destruct (fire t (set_now (set_mainq s []) t)) as [fired s2] eqn:F. inversion H; subst.
      destruct (work_plain _ (work_map_runitem (mainq s ++ fired))) as (P1 & P2 & P3). auto.
    + inversion H; subst. destruct (work_plain _ (work_map_runitem (mainq s))) as (P1 & P2 & P3). auto.
  - (* MLoop *)
    destruct (mainq s) as [|c l] eqn:MQ; [destruct (lazyq s) as [|c l] eqn:LQ|]; inversion H; subst.
    + split; [reflexivity | split; intros; reflexivity].
    + destruct (work_app_plain (map MRunItem (c :: l)) [MLoop t] (work_map_runitem _)) as (P1 & P2 & P3).
      change (MRunItem c :: map MRunItem l ++ [MLoop t]) with (map MRunItem (c :: l) ++ [MLoop t]). rewrite P1, P2, P3. auto.
    + destruct (work_app_plain (map MRunItem (c :: l)) [MLoop t] (work_map_runitem _)) as (P1 & P2 & P3).
      change (MRunItem c :: map MRunItem l ++ [MLoop t]) with (map MRunItem (c :: l) ++ [MLoop t]). rewrite P1, P2, P3. auto.
  - (* MDrain *)
    destruct (i >=? TEARDOWN_ROUNDS).
    + inversion H; subst. split; [reflexivity | split; [intros X; discriminate X | intros _; reflexivity]].
    + destruct (mainq s) as [|c l] eqn:MQ; inversion H; subst.
      * split; [reflexivity | split; [intros X; discriminate X | intros _; reflexivity]].
      * destruct (work_app_plain (map MDropItem (c :: l)) [MDrain (i + 1)] (work_map_dropitem _)) as (P1 & P2 & P3).
        change (MDropItem c :: map MDropItem l ++ [MDrain (i + 1)]) with (map MDropItem (c :: l) ++ [MDrain (i + 1)]). rewrite P1, P2, P3.
        split; [reflexivity | split; [intros X; discriminate X | intros _; reflexivity]].
  - (* MDropFields *)
    inversion H; subst.
    match goal with |- context [map MDropItem ?l ++ [MDropEnd]] =>
      destruct (work_app_plain (map MDropItem l) [MDropEnd] (work_map_dropitem _)) as (P1 & P2 & P3) end.
    rewrite P1, P2, P3. split; [reflexivity | split; [intros X; discriminate X | intros X; exfalso; apply X; reflexivity]].
  - (* MDropEnd *) inversion H; subst. split; [reflexivity | split; intros; reflexivity].
  - (* MDropAll *)
    destruct (amin (env s)) as [[h v]|]; inversion H; subst; (split; [reflexivity | split; intros; reflexivity]).
  - exfalso. apply NE. reflexivity.
  - inversion H; subst. split; [reflexivity | split; intros; reflexivity].
Qed.

(* ------------------------------------------------------------------ *)
(** * The invariant *)

Definition LE (s : st) : Prop := lazyq s = [] /\ idleq s = [] /\ timers s = [].
Definition XN (s : st) : Prop := Forall (fun c => c = XNone) (map f_ctx (frames s)).

Lemma XN_nocore s : XN s -> has_core s = false.
Proof.
  unfold XN, has_core, cur_ctx. intros H. destruct (frames s) as [|fr rest]; simpl in *.
  - apply andb_false_r.
  - inversion H; subst. rewrite H2. apply andb_false_r.
Qed.

Definition AI (s : st) : Prop := alive s = false -> LE s.
Definition DI (k : list mop) (s : st) : Prop :=
  forall w, before_de k = Some w -> forallb qmop w = true /\ LE s /\ XN s.
Definition EI (k : list mop) (s : st) : Prop :=
  ~ In MEpilogue k -> (alive s = true -> pend k = true) /\ okseq k = true.

Record SI (k : list mop) (s : st) : Prop := mkSI {
  si_mq : MQ s;
  si_a : AI s;
  si_d : DI k s;
  si_e : EI k s }.

Lemma LE_same s s' : lazyq s' = lazyq s -> idleq s' = idleq s -> timers s' = timers s -> LE s -> LE s'.
Proof. unfold LE. intros A B C (D & E & F). repeat split; congruence. Qed.

Lemma DI_nonq m k0 s pre s' : qmop m = false -> is_de m = false -> existsb is_de pre = false ->
  DI (m :: k0) s -> DI (pre ++ k0) s'.
Proof.
  intros Q D P H w B. rewrite (bde_app _ _ P) in B. destruct (before_de k0) as [w0|] eqn:E; [|discriminate].
  destruct (H (m :: w0)) as (A & _).
  { cbn [before_de]. rewrite D, E. reflexivity. }
  simpl in A. rewrite Q in A. discriminate.
Qed.

Lemma DI_q m k0 s pre s' : qmop m = true -> handle m s = (pre, s') -> DI (m :: k0) s -> DI (pre ++ k0) s'.
Proof.
  intros Q H D w B.
  assert (NP : is_phase m = false) by (destruct m; try reflexivity; discriminate Q).
  assert (ND : is_de m = false) by (destruct m; try reflexivity; discriminate Q).
  assert (NLK : m <> MLeaks) by (intros ->; discriminate Q).
  destruct (handle_qmop _ _ _ _ Q H) as [QP HC].
  assert (PD : existsb is_de pre = false) by (destruct QP as [QA _]; apply (work_plain _ QA)).
  rewrite (bde_app _ _ PD) in B. destruct (before_de k0) as [w0|] eqn:E; [|discriminate]. simpl in B. inversion B; subst w; clear B.
  destruct (D (m :: w0)) as (A & L & X).
  { cbn [before_de]. rewrite ND, E. reflexivity. }
  simpl in A. apply andb_prop in A as [_ A]. split; [|split].
  - rewrite forallb_app, (quiet_qmop _ QP), A. reflexivity.
  - destruct (r_lit _ _ (handle_R _ _ _ _ NP NLK H) (XN_nocore _ X)) as (L1 & L2 & L3). eapply LE_same; eauto.
  - unfold XN in *. destruct HC as [O|c M C P S|fr rest M FR P S].
    + destruct O as [EF _|s1 loc EF -> _].
      * rewrite (eff_ctxs _ _ EF). exact X.
      * cbn [push_frame frames set_frames map f_ctx]. constructor; [reflexivity|]. rewrite (eff_ctxs _ _ EF). exact X.
    + subst s'. exact X.
    + subst s'. rewrite FR in X. cbn [frames set_frames]. simpl in X. inversion X; subst. assumption.
Qed.

Lemma shape_tops_after m k0 : shape (m :: k0) -> (m = MDropFields \/ m = MDropEnd) -> tops k0 = true.
Proof.
  intros [p [PH _]] [->| ->]; unfold phase_of in PH; cbn [skip_work is_work] in PH; destruct (tops k0); auto; discriminate.
Qed.

Lemma fire_facts t s fired s2 : fire t s = (fired, s2) ->
  lazyq s2 = lazyq s /\ idleq s2 = idleq s /\ timers s2 = filter (fun x => negb (ti_due t x)) (timers s) /\
  mainq s2 = mainq s /\ alive s2 = alive s /\ dk s2 = dk s.
Proof. unfold fire. intros Q; inversion Q; subst. destruct (ambiguous _); repeat split; reflexivity. Qed.

(* the phase micro-ops *)
Lemma phase_step m k0 s pre s' : is_phase m = true -> handle m s = (pre, s') ->
  shape (m :: k0) -> FL (m :: k0) s -> MQ s -> AI s -> DI (m :: k0) s ->
  MQ s' /\ AI s' /\ DI (pre ++ k0) s' /\ dk s' = dk s /\
  (match m with MNew _ => alive s' = true | MDropEnd => alive s' = false | _ => alive s' = alive s end).
Proof.
  intros P H SH F M A D.
  assert (PRE : m <> MDropFields -> existsb is_de pre = false).
  { intros NF. apply (handle_pre _ _ _ _ H); [intros ->; discriminate P | intros t ->; discriminate P | exact NF]. }
  destruct m; try discriminate P; cbn [handle] in H.
  - (* MNew *)
    inversion H; subst. split; [|split; [|split; [|split]]]; try reflexivity.
    + intros G. discriminate G.
    + intros G. discriminate G.
    + match goal with D0 : DI (?m0 :: ?k1) ?s0 |- _ => apply (DI_nonq m0 k1 s0); [reflexivity | reflexivity | apply PRE; discriminate | exact D0] end.
  - (* MRunIdle *)
    assert (X : MQ s' /\ AI s' /\ dk s' = dk s /\ alive s' = alive s).
    { destruct idle; [destruct (idleq s) as [|c r] eqn:IQ|]; inversion H; subst; auto.
      split; [exact M|]. split; [|auto]. intros G. destruct (A G) as (_ & A2 & _). congruence. }
    destruct X as (X1 & X2 & X3 & X4). split; [|split; [|split; [|split]]]; auto.
    match goal with D0 : DI (?m0 :: ?k1) ?s0 |- _ => apply (DI_nonq m0 k1 s0); [reflexivity | reflexivity | apply PRE; discriminate | exact D0] end.
  - (* MRunMain *)
    assert (X : MQ s' /\ AI s' /\ dk s' = dk s /\ alive s' = alive s).
    { destruct (t >? now (set_mainq s [])).
      - destruct (fire t (set_now (set_mainq s []) t)) as [fired s2] eqn:FI. inversion H; subst.
        destruct (fire_facts _ _ _ _ FI) as (F1 & F2 & F3 & F4 & F5 & F6).
        cbn [lazyq idleq timers mainq alive dk set_now set_mainq] in F1, F2, F3, F4, F5, F6.
        split; [|split; [|split]]; auto.
        + intros G. rewrite F4 in G. discriminate G.
        + intros G. rewrite F5 in G. destruct (A G) as (A1 & A2 & A3). unfold LE. rewrite F1, F2, F3, A1, A2, A3. auto.
      - inversion H; subst. split; [intros G; discriminate G|]. split; [exact A|]. auto. }
    destruct X as (X1 & X2 & X3 & X4). split; [|split; [|split; [|split]]]; auto.
    match goal with D0 : DI (?m0 :: ?k1) ?s0 |- _ => apply (DI_nonq m0 k1 s0); [reflexivity | reflexivity | apply PRE; discriminate | exact D0] end.
  - (* MLoop *)
    assert (X : MQ s' /\ AI s' /\ dk s' = dk s /\ alive s' = alive s).
    { destruct (mainq s) as [|c l] eqn:MQE; [destruct (lazyq s) as [|c l] eqn:LQ|]; inversion H; subst.
      - destruct (t >? recreate s);
          (split; [intros G; change (has_real (mainq s) = true) in G; rewrite MQE in G; discriminate G
                  | split; [intros G; change (alive s = false) in G; destruct (A G) as (A1 & A2 & A3); unfold LE; cbn; auto
                           | split; reflexivity]]).
      - split; [exact (fun G => M G)|]. split; [|auto]. intros G. destruct (A G) as (A1 & A2 & A3). congruence.
      - split; [intros G; discriminate G|]. split; [exact A|]. auto. }
    destruct X as (X1 & X2 & X3 & X4). split; [|split; [|split; [|split]]]; auto.
    match goal with D0 : DI (?m0 :: ?k1) ?s0 |- _ => apply (DI_nonq m0 k1 s0); [reflexivity | reflexivity | apply PRE; discriminate | exact D0] end.
  - (* MDrain *)
    assert (X : MQ s' /\ AI s' /\ dk s' = dk s /\ alive s' = alive s).
    { destruct (i >=? TEARDOWN_ROUNDS).
      - inversion H; subst. destruct (is_nil (mainq s)); [auto|]. destruct (i >=? F4_CLASS_ROUNDS); auto.
      - destruct (mainq s) as [|c l] eqn:MQE; inversion H; subst; auto.
        split; [intros G; discriminate G|]. split; [exact A|]. auto. }
    destruct X as (X1 & X2 & X3 & X4). split; [|split; [|split; [|split]]]; auto.
    match goal with D0 : DI (?m0 :: ?k1) ?s0 |- _ => apply (DI_nonq m0 k1 s0); [reflexivity | reflexivity | apply PRE; discriminate | exact D0] end.
  - (* MDropFields *)
    pose proof (shape_tops_after _ _ SH (or_introl eq_refl)) as TP.
    assert (FR : frames s = []).
    { unfold FL in F. cbn [poppers filter is_popper] in F. fold (poppers k0) in F. rewrite (tops_poppers _ TP) in F.
      destruct (frames s); [reflexivity | discriminate F]. }
    inversion H; subst. split; [|split; [|split; [|split]]].
    + intros G. apply ssn_emit; [reflexivity|].
      destruct (ambiguous (timers s)); [apply ssn_emit; [reflexivity|] |]; apply M; exact G.
    + intros _. unfold LE. auto.
    + intros w B.
      match type of B with context [map MDropItem ?l ++ [MDropEnd]] =>
        assert (PD : existsb is_de (map MDropItem l) = false) by (apply (work_plain _ (work_map_dropitem l)));
        assert (QD : forallb qmop (map MDropItem l) = true) by (apply quiet_qmop, quiet_map_dropitem)
      end.
      rewrite <- app_assoc in B. rewrite (bde_app _ _ PD) in B. cbn [app before_de is_de option_map] in B.
      inversion B; subst w. rewrite app_nil_r. split; [exact QD|]. split; [unfold LE; auto|].
      unfold XN. destruct (ambiguous (timers s)); change (Forall (fun c => c = XNone) (map f_ctx (frames s))); rewrite FR; constructor.
    + destruct (ambiguous (timers s)); reflexivity.
    + destruct (ambiguous (timers s)); reflexivity.
  - (* MDropEnd *)
    pose proof (shape_tops_after _ _ SH (or_intror eq_refl)) as TP.
    inversion H; subst. destruct (D [] eq_refl) as (_ & L & _).
    split; [|split; [|split; [|split]]].
    + intros G. apply ssn_emit; [reflexivity|]. destruct (is_nil (mainq s)); [|apply ssn_emit; [reflexivity|]]; apply M; destruct (is_nil (mainq s)); exact G.
    + intros _. destruct (is_nil (mainq s)); exact L.
    + intros w B. simpl in B. rewrite (tops_bde _ TP) in B. discriminate.
    + destruct (is_nil (mainq s)); reflexivity.
    + reflexivity.
Qed.

Lemma Tail_epilogue k0 s : Tail (MEpilogue :: k0) s -> k0 = [].
Proof.
  intros T. destruct T as [w K NL|w K NL|K EN FR|K]; try discriminate.
  - destruct w as [|m' w]; simpl in K; inversion K; subst; [reflexivity|]. apply clean_cons in NL as [N1 _]. discriminate.
  - destruct w as [|m' w]; simpl in K; inversion K; subst. apply clean_cons in NL as [N1 _]. discriminate.
Qed.

Lemma EI_step m k0 s pre s' : handle m s = (pre, s') -> Tail (m :: k0) s -> EI (m :: k0) s ->
  (match m with MNew _ => alive s' = true | MDropEnd => alive s' = false | _ => alive s' = alive s end) ->
  EI (pre ++ k0) s'.
Proof.
  intros H T E AL NI.
  assert (ME : m = MEpilogue \/ m <> MEpilogue) by (destruct m; auto; right; discriminate).
  destruct ME as [->|NE].
  { rewrite (Tail_epilogue _ _ T). cbn [handle] in H. inversion H; subst. split; [intros _; reflexivity | reflexivity]. }
  assert (NI0 : ~ In MEpilogue (m :: k0)).
  { intros [X|X]; [apply NE; auto | apply NI, in_or_app; right; exact X]. }
  destruct (E NI0) as [E1 E2]. cbn [okseq] in E2. apply andb_prop in E2 as [E2 E3].
  assert (MT : (exists t, m = MTop (TNew t)) \/ forall t, m <> MTop (TNew t)).
  { destruct m; try (right; intros t0 Q; discriminate Q). destruct o; try (right; intros t0 Q; discriminate Q). left; eauto. }
  destruct MT as [[t ->]|NT].
  { cbn [handle do_top] in H. cbn [is_new] in E2. destruct (alive s) eqn:AS; inversion H; subst.
    - split; [intros _; reflexivity|]. cbn [app okseq is_new]. rewrite E2, E3. reflexivity.
    - split; [intros X; rewrite AL in X; congruence|]. cbn [app okseq is_new]. rewrite E2, E3. reflexivity. }
  destruct (handle_pre _ _ _ _ H NE NT) as (P1 & P2 & _).
  split; [|rewrite (okseq_app _ _ P1); exact E3].
  intros AS'. rewrite (pend_app _ _ P1).
  destruct m; try (rewrite AL in AS'; specialize (E1 AS'); cbn [pend is_td is_new] in E1; rewrite E1; apply orb_true_r).
  - (* MTop *)
    rewrite AL in AS'. specialize (E1 AS').
    destruct o; try (cbn [pend is_td is_new] in E1; rewrite E1; apply orb_true_r).
    + exfalso. eapply NT; reflexivity.
    + cbn [handle do_top] in H. rewrite AS' in H. inversion H; subst. reflexivity.
  - (* MNew *) cbn [is_new] in E2. rewrite E2. apply orb_true_r.
  - (* MDrain *)
    cbn [handle] in H. destruct (i >=? TEARDOWN_ROUNDS); [inversion H; subst; reflexivity|].
    destruct (mainq s) as [|c l]; inversion H; subst; [reflexivity|].
    change (MDropItem c :: map MDropItem l ++ [MDrain (i + 1)]) with (map MDropItem (c :: l) ++ [MDrain (i + 1)]).
    rewrite existsb_app. cbn [existsb is_td]. rewrite orb_true_r. reflexivity.
  - (* MDropFields *)
    cbn [handle] in H. inversion H; subst. rewrite existsb_app. cbn [existsb is_td]. rewrite orb_true_r. reflexivity.
  - (* MDropEnd *) congruence.
Qed.

(* when the leak report is due: no Stakker is alive, the lazy / idle queues and the timers are empty, and a closure
   instance still in the main queue was submitted after the last [Core::new] *)
Lemma SI_leaks s : SI [MLeaks] s -> alive s = false /\ LE s /\ MQ s.
Proof.
  intros [M A D E].
  assert (AL : alive s = false).
  { destruct (alive s) eqn:X; auto. destruct E as [E1 _]; [intros [Q|[]]; discriminate Q|]. specialize (E1 X). discriminate E1. }
  auto.
Qed.

Theorem step_SI k s k' s' : shape k -> FL k s -> Tail k s -> SI k s -> step k s = Some (k', s') -> SI k' s'.
Proof.
  intros SH F T [M A D E] ST. destruct k as [|m k0]; [discriminate|]. simpl in ST.
  destruct (handle m s) as [pre s1] eqn:H. inversion ST; subst; clear ST.
  destruct (is_phase m) eqn:P.
  - destruct (phase_step _ _ _ _ _ P H SH F M A D) as (M' & A' & D' & _ & AL).
    split; auto. eapply EI_step; eauto.
  - assert (ML : m = MLeaks \/ m <> MLeaks) by (destruct m; auto; right; discriminate).
    destruct ML as [->|NLK].
    { destruct (Tail_leaks _ _ T) as (-> & _ & _). destruct (SI_leaks _ (mkSI _ _ M A D E)) as (AL & L & _).
      cbn [handle] in H. inversion H; subst. split.
      - apply MQ_set_tr; [|apply (r_mq _ _ (R_class_flags _ _ (R_refl s)) M)].
        apply forallb_forall. intros e IN. apply in_rev in IN. unfold leaks in IN. apply in_map_iff in IN as (q & <- & _). reflexivity.
      - intros _. destruct (r_lit _ _ (R_class_flags _ _ (R_refl s))) as (L1 & L2 & L3); [unfold has_core; rewrite AL; reflexivity|].
        eapply LE_same; [| | |exact L]; assumption.
      - intros w B. discriminate B.
      - intros _. split; [|reflexivity]. intros X. cbn [alive set_tr] in X. rewrite (r_alive _ _ (R_class_flags _ _ (R_refl s))) in X. congruence. }
    pose proof (handle_R _ _ _ _ P NLK H) as RR.
    assert (AL : alive s' = alive s) by (apply (r_alive _ _ RR)).
    split.
    + apply (r_mq _ _ RR M).
    + intros G. rewrite AL in G. specialize (A G).
      assert (HC : has_core s = false) by (unfold has_core; rewrite G; reflexivity).
      destruct (r_lit _ _ RR HC) as (L1 & L2 & L3). eapply LE_same; eauto.
    + destruct (qmop m) eqn:Q.
      * eapply DI_q; eauto.
      * assert (ND : is_de m = false) by (destruct m; try reflexivity; discriminate P).
        apply (DI_nonq m k0 s); auto.
        assert (ME : m = MEpilogue \/ m <> MEpilogue) by (destruct m; auto; right; discriminate).
        destruct ME as [->|NE]; [cbn [handle] in H; inversion H; reflexivity|].
        assert (MT : (exists t, m = MTop (TNew t)) \/ forall t, m <> MTop (TNew t)).
        { destruct m; try (right; intros t0 Q0; discriminate Q0). destruct o; try (right; intros t0 Q0; discriminate Q0). left; eauto. }
        destruct MT as [[t ->]|NT]; [cbn [handle do_top] in H; destruct (alive s); inversion H; reflexivity|].
        apply (handle_pre _ _ _ _ H NE NT). intros ->; discriminate P.
    + eapply EI_step; eauto. destruct m; try exact AL; discriminate P.
Qed.

Lemma tops_prog p : tops (map MTop p ++ [MEpilogue]) = true.
Proof. unfold tops. rewrite forallb_app. simpl. rewrite andb_true_r. induction p; simpl; auto. Qed.

Lemma SI_init d p : SI (map MTop p ++ [MEpilogue]) (init d).
Proof.
  split.
  - intros G. discriminate G.
  - intros _. unfold LE. auto.
  - intros w B. rewrite (tops_bde _ (tops_prog p)) in B. discriminate.
  - intros NI. exfalso. apply NI, in_or_app. right. left. reflexivity.
Qed.

