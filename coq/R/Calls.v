(** Layer R proofs: what every handler does to the things the call monitors (C02, C06 calls conjunct) look at:
    the main queue, the actor cells (state, held queue, state bits of the packed strong count, notifier) and the
    events about calls and actor lifecycles.  One calculus [keff], every handler described once. *)
From Coq Require Import ZArith NArith List Bool Lia.
From Stk Require Import Lib.U Gen.SrcCount Gen.SrcCore Gen.SrcLog R.Syntax R.Rt R.Mon R.Shape R.Eff R.Tags R.Mono R.Count R.Nest R.C20Proofs.
Import ListNotations.
Local Open Scope Z_scope.

(* ------------------------------------------------------------------ *)
(** * State bits of the packed strong count *)

Definition srange (v : Z) : Prop := 0 <= v < 18446744073709551616.

Lemma srange_pack v : srange v -> v = pack (cnt v) (sta v) /\ 0 <= cnt v <= CMAX /\ 0 <= sta v < 4.
Proof. unfold srange, pack, cnt, sta, CMAX. intros H. repeat split; lia. Qed.

Lemma sta_inc v : srange v -> srange (oz (count_inc v)) /\ sta (oz (count_inc v)) = sta v.
Proof.
  intros H. unfold count_inc. destruct count_consts as (_ & I & M). rewrite M, I.
  destruct (v >=? 18446744073709551612) eqn:E; zb; simpl; [auto|].
  unfold cadd64. destruct (v + 4 <? 18446744073709551616) eqn:F; zb; [|unfold srange in H; lia]. simpl.
  unfold srange, sta in *. split; lia.
Qed.

Lemma sta_dec v r z : srange v -> count_dec v = Some (r, z) -> srange r /\ sta r = sta v.
Proof.
  intros H. unfold count_dec. destruct count_consts as (_ & I & M). rewrite M, I.
  destruct ((v <? 4) || (v >=? 18446744073709551612)) eqn:E.
  - intros Q; inversion Q; subst. auto.
  - apply orb_false_elim in E as [E1 E2]. zb. unfold csub. destruct (4 <=? v) eqn:G; zb; [|lia]. simpl.
    intros Q; inversion Q; subst. unfold srange, sta in *. split; lia.
Qed.

Lemma sta_set v st : srange v -> 0 <= st < 4 -> srange (oz (count_set_state v st)) /\ sta (oz (count_set_state v st)) = st.
Proof.
  intros H S. destruct (srange_pack _ H) as (E & C & T). rewrite E.
  rewrite count_set_state_spec by auto. simpl. unfold srange, pack, sta, CMAX in *. split; lia.
Qed.

Lemma is_prep_sta v : srange v -> ob (count_is_prep v) = (sta v =? 0).
Proof. intros H. destruct (srange_pack _ H) as (E & C & T). rewrite E at 1. rewrite is_prep_spec by auto. reflexivity. Qed.

Definition skind (sa : astate) : Z := match sa with SPrep _ => 0 | SReady _ _ _ => 1 | SZombie => 2 end.

(* ------------------------------------------------------------------ *)
(** * The calculus *)

Definition krel (e : ev) : bool :=
  match e with
  | ESub QMain _ _ | ERun _ _ _ | EMeth _ _ _ | EPrep _ _ _ | EDrop _ _ _ | EActor _ | EReady _
  | ENotify _ _ | ERunBegin _ _ | ERunRet _ | ENew _ | EDropBegin => true
  | _ => false
  end.

Definition kirr (s s' : st) : Prop := tr s' = tr s /\ mainq s' = mainq s /\ actors s' = actors s /\ dk s' = dk s.

Definition same_view (x y : actor) : Prop :=
  held_of x = held_of y /\ skind (a_state x) = skind (a_state y) /\ a_notify x = a_notify y /\
  (srange (a_strong y) -> srange (a_strong x) /\ sta (a_strong x) = sta (a_strong y)).

Definition callk (ci : citem) : Prop := match ci_kind ci with KMeth _ _ _ | KPrep _ _ _ => True | _ => False end.
Definition internalk (k : ckind) : Prop := match k with KSlabRm _ _ | KTerm _ | KKill _ _ => True | _ => False end.

Inductive keff : st -> st -> Prop :=
| ke_refl s : keff s s
| ke_emit s s1 e : keff s s1 -> krel e = false -> keff s (emit s1 e)
| ke_irr s s1 s2 : keff s s1 -> kirr s1 s2 -> keff s s2
| ke_upd s s1 a x y : keff s s1 -> aget (actors s1) a = Some y -> same_view x y -> keff s (upd_actor s1 a x)
| ke_new_actor s s1 a nt parent vis : keff s s1 -> aget (actors s1) a = None -> nshape a nt ->
    keff s (new_actor s1 a nt parent vis)
| ke_submit_call s s1 ci : keff s s1 -> callk ci -> iwf s1 ci -> ci_sq ci = None -> keff s (submit s1 QMain ci)
| ke_submit_plain s s1 q ci : keff s s1 -> ci_call ci = false -> iwf s1 ci -> keff s (submit s1 q ci)
| ke_push_internal s s1 k : keff s s1 -> internalk k -> keff s (push_main s1 (CI 0 0 k [] None))
| ke_drop_plain s s1 ci : keff s s1 -> ci_call ci = false -> iwf s1 ci -> keff s (emit s1 (EDrop (ci_uid ci) (ci_sq ci) false)).

Lemma keff_trans s1 s2 s3 : keff s1 s2 -> keff s2 s3 -> keff s1 s3.
Proof.
  intros A B. induction B.
  - exact A.
  - apply ke_emit; auto.
  - eapply ke_irr; [apply IHB; auto | auto].
  - eapply ke_upd; eauto.
  - apply ke_new_actor; auto.
  - apply ke_submit_call; auto.
  - apply ke_submit_plain; auto.
  - apply ke_push_internal; auto.
  - apply ke_drop_plain; auto.
Qed.

Ltac kirr_tac := repeat split; reflexivity.

Lemma keff_dk s s1 : keff s s1 -> dk s1 = dk s.
Proof.
  intros E. induction E; auto.
  - destruct H as (_ & _ & _ & D). congruence.
  - unfold new_actor, log_rec. destruct (_ && _); destruct vis; auto.
  - unfold submit. destruct q; auto.
Qed.

Lemma ke_set_env s0 s v : keff s0 s -> keff s0 (set_env s v). Proof. intros; eapply ke_irr; [eassumption | kirr_tac]. Qed.
Lemma ke_set_nuid s0 s v : keff s0 s -> keff s0 (set_nuid s v). Proof. intros; eapply ke_irr; [eassumption | kirr_tac]. Qed.
Lemma ke_set_fwds s0 s v : keff s0 s -> keff s0 (set_fwds s v). Proof. intros; eapply ke_irr; [eassumption | kirr_tac]. Qed.
Lemma ke_set_shut s0 s v : keff s0 s -> keff s0 (set_shut s v). Proof. intros; eapply ke_irr; [eassumption | kirr_tac]. Qed.
Lemma ke_set_tvars s0 s v : keff s0 s -> keff s0 (set_tvars s v). Proof. intros; eapply ke_irr; [eassumption | kirr_tac]. Qed.
Lemma ke_set_tnext s0 s v : keff s0 s -> keff s0 (set_tnext s v). Proof. intros; eapply ke_irr; [eassumption | kirr_tac]. Qed.
Lemma ke_set_timers s0 s v : keff s0 s -> keff s0 (set_timers s v). Proof. intros; eapply ke_irr; [eassumption | kirr_tac]. Qed.
Lemma ke_set_lazyq s0 s v : keff s0 s -> keff s0 (set_lazyq s v). Proof. intros; eapply ke_irr; [eassumption | kirr_tac]. Qed.
Lemma ke_set_idleq s0 s v : keff s0 s -> keff s0 (set_idleq s v). Proof. intros; eapply ke_irr; [eassumption | kirr_tac]. Qed.
Lemma ke_set_now s0 s v : keff s0 s -> keff s0 (set_now s v). Proof. intros; eapply ke_irr; [eassumption | kirr_tac]. Qed.
Lemma ke_set_recreate s0 s v : keff s0 s -> keff s0 (set_recreate s v). Proof. intros; eapply ke_irr; [eassumption | kirr_tac]. Qed.
Lemma ke_set_alive s0 s v : keff s0 s -> keff s0 (set_alive s v). Proof. intros; eapply ke_irr; [eassumption | kirr_tac]. Qed.
Lemma ke_set_logseq s0 s v : keff s0 s -> keff s0 (set_logseq s v). Proof. intros; eapply ke_irr; [eassumption | kirr_tac]. Qed.
Lemma ke_set_logfilter s0 s v : keff s0 s -> keff s0 (set_logfilter s v). Proof. intros; eapply ke_irr; [eassumption | kirr_tac]. Qed.
Lemma ke_set_haslogger s0 s v : keff s0 s -> keff s0 (set_haslogger s v). Proof. intros; eapply ke_irr; [eassumption | kirr_tac]. Qed.
Lemma ke_set_frames s0 s v : keff s0 s -> keff s0 (set_frames s v). Proof. intros; eapply ke_irr; [eassumption | kirr_tac]. Qed.
Lemma ke_push_frame s0 s c loc : keff s0 s -> keff s0 (push_frame s c loc). Proof. intros. unfold push_frame. apply ke_set_frames; auto. Qed.

Lemma ke_timer_add s0 s k v t ci : keff s0 s -> keff s0 (timer_add s k v t ci).
Proof.
  intros. unfold timer_add. apply ke_set_tvars, ke_set_tnext, ke_set_timers. apply ke_emit; auto. apply ke_emit; auto.
Qed.

Lemma same_view_refl x : same_view x x.
Proof. split; [|split; [|split]]; auto. Qed.

Lemma same_view_rc x v : same_view (with_rc x v) x.
Proof. split; [|split; [|split]]; auto. Qed.

Lemma same_view_strong_inc x : same_view (with_strong x (oz (count_inc (a_strong x)))) x.
Proof. split; [|split; [|split]]; auto. simpl. intros R. apply sta_inc; auto. Qed.

Lemma ke_ref_clone s0 s a : keff s0 s -> keff s0 (ref_clone s a).
Proof.
  intros H. unfold ref_clone. destruct (aget (actors s) a) as [x|] eqn:E.
  - destruct (a_freed x).
    + eapply ke_upd with (y := x); [apply ke_emit; auto | exact E | apply same_view_rc].
    + eapply ke_upd with (y := x); [auto | exact E | apply same_view_rc].
  - apply ke_emit; auto.
Qed.

Lemma ke_log_rec s0 s a b c d : keff s0 s -> keff s0 (log_rec s a b c d).
Proof. intros H. unfold log_rec. destruct (_ && _); auto. apply ke_emit; auto. Qed.

Lemma take_keff s0 s h o s' : keff s0 s -> take s h = (o, s') -> keff s0 s'.
Proof.
  intros H. unfold take. destruct (frames s) as [|fr rest] eqn:F.
  - destruct (aget (env s) h); intros E; inversion E; subst; auto. apply ke_set_env; auto.
  - destruct (aget (f_loc fr) h).
    + intros E; inversion E; subst. apply ke_set_frames; auto.
    + destruct (aget (env s) h); intros E; inversion E; subst; auto. apply ke_set_env; auto.
Qed.

Lemma take_caps_keff ids : forall s0 s l s', keff s0 s -> take_caps ids s = (l, s') -> keff s0 s'.
Proof.
  induction ids as [|h r IH]; simpl; intros s0 s l s' H E.
  - inversion E; subst; auto.
  - destruct (take s h) as [[v|] s1] eqn:T.
    + destruct (take_caps r s1) as [l2 s2] eqn:T2. inversion E; subst.
      eapply IH; [|eauto]. eapply take_keff; eauto.
    + eapply IH; [|eauto]. eapply take_keff; eauto.
Qed.

Lemma take_env_caps_keff ids : forall s0 s l s', keff s0 s -> take_env_caps ids s = (l, s') -> keff s0 s'.
Proof.
  induction ids as [|h r IH]; simpl; intros s0 s l s' H E.
  - inversion E; subst; auto.
  - destruct (aget (env s) h).
    + destruct (take_env_caps r (set_env s (adel (env s) h))) as [l2 s2] eqn:T2. inversion E; subst.
      eapply IH; [|eauto]. apply ke_set_env; auto.
    + eapply IH; eauto.
Qed.

Lemma inst_keff c mk s0 s ci s' : keff s0 s -> inst c mk s = (ci, s') -> keff s0 s' /\ ci_kind ci = mk (clo_body c) /\ ci_sq ci = None.
Proof.
  intros H. unfold inst. destruct (take_caps (clo_caps c) s) as [caps s1] eqn:T. intros E; inversion E; subst.
  split; [|split; reflexivity]. apply ke_emit; auto. apply ke_set_nuid. eapply take_caps_keff; eauto.
Qed.

Lemma inst_env_keff c mk s0 s ci s' : keff s0 s -> inst_env c mk s = (ci, s') -> keff s0 s' /\ ci_kind ci = mk (clo_body c).
Proof.
  intros H. unfold inst_env. destruct (take_env_caps (clo_caps c) s) as [caps s1] eqn:T. intros E; inversion E; subst.
  split; [|reflexivity]. apply ke_emit; auto. apply ke_set_nuid. eapply take_env_caps_keff; eauto.
Qed.

Lemma target_ev_keff s0 s ci : keff s0 s -> keff s0 (target_ev s ci).
Proof. intros H. unfold target_ev. destruct ci as [u i k caps q]. destruct k; auto; apply ke_emit; auto. Qed.

Lemma inst_call_keff c mk s0 s ci s' : keff s0 s -> inst_call c mk s = (ci, s') -> keff s0 s' /\ ci_kind ci = mk (clo_body c) /\ ci_sq ci = None.
Proof.
  intros H. unfold inst_call. destruct (inst c mk s) as [ci1 s1] eqn:I. intros E; inversion E; subst.
  destruct (inst_keff _ _ _ _ _ _ H I) as (A & B & C). split; [apply target_ev_keff; auto | auto].
Qed.

Lemma bind_keff s0 s h v l s' : keff s0 s -> bind s h v = (l, s') -> keff s0 s'.
Proof. intros H. unfold bind. destruct (aget (env s) h); intros E; inversion E; subst; apply ke_set_env; auto. Qed.

Lemma bad_keff s0 s c l s' : keff s0 s -> bad s c = (l, s') -> keff s0 s'.
Proof. intros H. unfold bad. intros E; inversion E; subst. apply ke_emit; auto. Qed.

Lemma tok_script_keff script : forall s0 s, QWF s -> keff s0 s -> keff s0 (tok_script s script).
Proof.
  unfold tok_script. induction script as [|c r IH]; simpl; intros s0 s HW H; auto.
  destruct (inst_env c KPlain s) as [ci s1] eqn:I.
  destruct (inst_env_wf _ _ _ _ HW I) as (H1 & _ & C1). destruct (inst_env_keff _ _ _ _ _ _ H I) as [A B].
  apply IH; [apply Q_submit; auto|]. apply ke_submit_plain; auto.
  - unfold ci_call. rewrite B. reflexivity.
  - apply cwf_iff in C1. apply C1.
Qed.

Lemma mk_notifier_keff s0 s a n r s' : keff s0 s -> mk_notifier s a n = (r, s') -> keff s0 s'.
Proof.
  intros H. unfold mk_notifier. destruct n as [[hp c]|].
  - destruct (lookup s hp) as [v|].
    + destruct (handle_actor v) as [p|].
      * destruct (inst_call c (fun b => KMeth p b None) (ref_clone s p)) as [ci s2] eqn:I.
        intros E; inversion E; subst. eapply inst_call_keff; [|eauto]. apply ke_ref_clone; auto.
      * intros E; inversion E; subst. apply ke_emit; auto.
    + intros E; inversion E; subst. apply ke_emit; auto.
  - intros E; inversion E; subst; auto.
Qed.

(* ------------------------------------------------------------------ *)
(** * Handlers *)

(* what the generic handlers push: no item to run, no call to drop, no notifier *)
Definition genm (m : mop) : Prop :=
  match m with
  | MRunItem _ | MToReady _ | MLogClose _ _ | MEndBody _ _ | MDropInner _ => False
  | MDropItem c => ci_call c = false
  | MRetInvoke r m0 => user_ret r /\ match m0 with Some (MCause _) => False | _ => True end
  | _ => True
  end.

Lemma gen_drops l : Forall genm (drops l).
Proof. induction l; simpl; constructor; simpl; auto. Qed.
Lemma gen_slab_drops l : Forall genm (slab_drops l).
Proof. induction l as [|[c|n] l IH]; simpl; auto. constructor; simpl; auto. Qed.

Lemma bind_gen s h v l s' : bind s h v = (l, s') -> Forall genm l.
Proof. unfold bind. destruct (aget (env s) h); intros E; inversion E; repeat constructor. Qed.
Lemma bad_gen s c l s' : bad s c = (l, s') -> Forall genm l.
Proof. unfold bad. intros E; inversion E; constructor. Qed.

Lemma inst_keff1 c mk s0 s ci s' : keff s0 s -> inst c mk s = (ci, s') -> keff s0 s'.
Proof. intros. eapply inst_keff; eauto. Qed.
Lemma inst_call_keff1 c mk s0 s ci s' : keff s0 s -> inst_call c mk s = (ci, s') -> keff s0 s'.
Proof. intros. eapply inst_call_keff; eauto. Qed.
Lemma inst_call_sq c mk s ci s' : inst_call c mk s = (ci, s') -> ci_sq ci = None.
Proof. intros. eapply (inst_call_keff c mk s s); eauto. apply ke_refl. Qed.
Lemma inst_sq c mk s ci s' : inst c mk s = (ci, s') -> ci_sq ci = None.
Proof. intros. eapply (inst_keff c mk s s); eauto. apply ke_refl. Qed.

Lemma inst_nocaps_keff c mk s0 s ci s' : keff s0 s -> inst_nocaps c mk s = (ci, s') -> keff s0 s'.
Proof. intros H. unfold inst_nocaps. intros E; inversion E; subst. apply ke_emit; auto. apply ke_set_nuid; auto. Qed.

Ltac callk_tac :=
  unfold callk;
  first [ erewrite inst_call_kind by eassumption | erewrite inst_nocaps_kind by eassumption ]; exact I.

Ltac keff_tac :=
  repeat first
    [ assumption
    | apply ke_refl
    | apply ke_emit; [ | reflexivity ]
    | apply ke_timer_add
    | apply ke_set_nuid | apply ke_set_env | apply ke_set_fwds | apply ke_set_shut | apply ke_set_frames
    | apply ke_set_tvars | apply ke_set_tnext | apply ke_set_timers | apply ke_push_frame
    | apply ke_ref_clone | apply target_ev_keff | apply ke_log_rec
    | (eapply ke_upd; [ | eassumption | first [ apply same_view_rc | apply same_view_strong_inc ] ])
    | eapply bind_keff; [ | eassumption ]
    | eapply bad_keff; [ | eassumption ]
    | eapply take_keff; [ | eassumption ]
    | eapply take_caps_keff; [ | eassumption ]
    | eapply inst_keff1; [ | eassumption ]
    | eapply inst_call_keff1; [ | eassumption ]
    | eapply inst_nocaps_keff; [ | eassumption ]
    | eapply mk_notifier_keff; [ | eassumption ] ].

Ltac kout_tac :=
  intros;
  match goal with
  | E : (_, _) = (_, _) |- _ => inversion E; subst; clear E
  | _ => idtac
  end;
  split; [ keff_tac
         | first [ solve [repeat constructor] | eapply bind_gen; eassumption | eapply bad_gen; eassumption ] ].

Lemma user_ret_of_lookup s h r : QWF s -> lookup s h = Some (HRet r) -> user_ret r.
Proof. intros H L. pose proof (lookup_wf _ _ _ H L) as V. inversion V; subst. assumption. Qed.

Lemma timer_plain s k v i k' e o ci0 : QTags s -> var_timer s k v = Some (TI i k' e o ci0) -> ci_call ci0 = false.
Proof.
  intros Q V. apply var_timer_in' in V. pose proof (qt_timers _ Q) as W. eapply Forall_forall in W; eauto. apply W.
Qed.

(* the state of existing actor cells survives reference counting and the creation of other actors *)
Definition spres (s s' : st) : Prop :=
  forall a x, aget (actors s) a = Some x -> exists x', aget (actors s') a = Some x' /\ a_state x' = a_state x.

Lemma spres_refl s : spres s s. Proof. intros a x H. eauto. Qed.
Lemma spres_trans a b c : spres a b -> spres b c -> spres a c.
Proof. intros H G x y A. destruct (H _ _ A) as (y1 & A1 & L1). destruct (G _ _ A1) as (y2 & A2 & L2). exists y2. split; auto. congruence. Qed.
Lemma spres_same s s' : actors s' = actors s -> spres s s'.
Proof. intros E a x H. rewrite E. eauto. Qed.

Lemma spres_ref_clone s a : spres s (ref_clone s a).
Proof.
  unfold ref_clone. destruct (aget (actors s) a) as [x|] eqn:E; [|apply spres_same; reflexivity].
  intros b y AY. destruct (a_freed x); unfold upd_actor; simpl.
  all: destruct (N.eq_dec a b) as [<-|NE]; [rewrite aget_aset_eq; exists (with_rc x (oz (minrc_clone (a_rc x)))); split; [reflexivity | simpl; congruence]
                                            | rewrite aget_aset_neq by auto; eauto].
Qed.

Lemma take_caps_actors ids : forall s l s', take_caps ids s = (l, s') -> actors s' = actors s.
Proof.
  induction ids as [|h r IH]; simpl; intros s l s' E.
  - inversion E; reflexivity.
  - destruct (take s h) as [[v|] s1] eqn:T.
    + destruct (take_caps r s1) as [l2 s2] eqn:T2. inversion E; subst. rewrite (IH _ _ _ T2). eapply C20Proofs.take_actors; eauto.
    + rewrite (IH _ _ _ E). eapply C20Proofs.take_actors; eauto.
Qed.

Lemma inst_call_actors c mk s ci s' : inst_call c mk s = (ci, s') -> actors s' = actors s.
Proof.
  unfold inst_call, inst. destruct (take_caps (clo_caps c) s) as [caps s1] eqn:T. intros E; inversion E; subst.
  unfold target_ev. destruct (mk (clo_body c)); simpl; eapply take_caps_actors; eauto.
Qed.

Lemma spres_mk_notifier s a n r s' : mk_notifier s a n = (r, s') -> spres s s'.
Proof.
  unfold mk_notifier. destruct n as [[hp c]|]; [|intros E; inversion E; apply spres_refl].
  destruct (lookup s hp) as [v|]; [|intros E; inversion E; apply spres_same; reflexivity].
  destruct (handle_actor v) as [p|]; [|intros E; inversion E; apply spres_same; reflexivity].
  destruct (inst_call _ _ _) as [ci s2] eqn:I. intros E; inversion E; subst.
  eapply spres_trans; [apply spres_ref_clone | apply spres_same; eapply inst_call_actors; eauto].
Qed.

Lemma spres_new_actor s a nt parent vis : aget (actors s) a = None -> spres s (new_actor s a nt parent vis).
Proof.
  intros N b y AY. assert (a <> b) by (intros <-; congruence). exists y. split; auto.
  unfold new_actor, log_rec. destruct (_ && _); destruct vis; unfold upd_actor; simpl; rewrite aget_aset_neq; auto.
Qed.

Lemma plain_submit_keff c s q ci s1 : QWF s -> inst c KPlain s = (ci, s1) -> keff s (submit s1 q ci).
Proof.
  intros HW I. destruct (inst_plain_wf _ _ _ _ HW I) as (H1 & _ & C1).
  apply ke_submit_plain; [eapply inst_keff1; [apply ke_refl | eauto] | kind_tac | apply cwf_iff in C1; apply C1].
Qed.

Lemma call_submit_keff c mk s a ci s2 :
  QWF s -> inst_call c mk (ref_clone s a) = (ci, s2) ->
  (forall b, match mk b with KMeth _ _ _ | KPrep _ _ _ => True | _ => False end) -> keff s (submit s2 QMain ci).
Proof.
  intros HW I MK. destruct (inst_call_wf0 _ _ _ _ _ (Q_ref_clone _ a HW) I) as (H2 & _ & C2 & K2 & Q2).
  apply ke_submit_call; [eapply inst_call_keff1; [apply ke_ref_clone, ke_refl | eauto] | | exact C2 | exact Q2].
  unfold callk. rewrite K2. apply MK.
Qed.

Lemma do_act_kout a s l s' : QWF s -> QTags s -> do_act a s = (l, s') -> keff s s' /\ Forall genm l.
Proof.
  intros HW HT. unfold do_act. destruct a.
  all: try solve [repeat dest_match; try solve [kout_tac]].
  - (* ADefer *) destruct (has_core s); [|kout_tac]. destruct (inst c KPlain s) as [ci s1] eqn:I. intros E; inversion E; subst.
    split; [eapply plain_submit_keff; eauto | constructor].
  - destruct (inst c KPlain s) as [ci s1] eqn:I. intros E; inversion E; subst.
    split; [eapply plain_submit_keff; eauto | constructor].
  - destruct (has_core s); [|kout_tac]. destruct (inst c KPlain s) as [ci s1] eqn:I. intros E; inversion E; subst.
    split; [eapply plain_submit_keff; eauto | constructor].
  - destruct (has_core s); [|kout_tac]. destruct (inst c KPlain s) as [ci s1] eqn:I. intros E; inversion E; subst.
    split; [eapply plain_submit_keff; eauto | constructor].
  - (* ATimerMac *)
    destruct (has_core s); [|kout_tac]. destruct k; [kout_tac| |].
    all: destruct (inst c KPlain s) as [ci s1] eqn:I; destruct (var_timer s1 _ v) as [[i k' e o ci0]|]; [|kout_tac].
    all: intros E; inversion E; subst; split; [keff_tac|]; constructor; [|constructor]; simpl; kind_tac.
  - (* ATimerDel *)
    destruct (has_core s); [|kout_tac]. destruct (var_timer s k v) as [[i k' e o ci0]|] eqn:V; [|kout_tac].
    intros E; inversion E; subst. split; [keff_tac|]. constructor; [|repeat constructor]. simpl.
    destruct ci0. simpl. eapply (timer_plain s) in V; eauto.
  - (* ANewActor *)
    destruct (has_core s) eqn:HC; [|kout_tac].
    destruct (aget (actors s) a) eqn:AA; [kout_tac|].
    destruct (mk_notifier s a n) as [nt s1] eqn:MK. intros E.
    split; [|eapply bind_gen; eauto]. eapply bind_keff; [|eauto]. apply ke_new_actor.
    + eapply mk_notifier_keff; eauto. apply ke_refl.
    + eapply lsame_none; eauto. eapply lsame_mk_notifier; eauto.
    + eapply mk_notifier_shape; eauto.
  - (* ACall *)
    destruct (lookup s h) as [v|]; [|kout_tac]. destruct (handle_actor v) as [a|]; [|kout_tac].
    destruct (inst_call c _ (ref_clone s a)) as [ci s2] eqn:I. intros E; inversion E; subst.
    split; [eapply call_submit_keff; eauto; intros b; exact Logic.I | constructor].
  - (* ACallPrep *)
    destruct (lookup s h) as [v|]; [|kout_tac]. destruct (handle_actor v) as [a|]; [|kout_tac].
    destruct (inst_call c _ (ref_clone s a)) as [ci s2] eqn:I. intros E; inversion E; subst.
    split; [eapply call_submit_keff; eauto; intros b; exact Logic.I | constructor].
  - (* AKillAsync *)
    repeat dest_match; try solve [kout_tac]. intros E; inversion E; subst. split; [|constructor].
    apply ke_push_internal; [|exact I]. keff_tac.
  - (* AStore *)
    repeat dest_match; try solve [kout_tac].
    intros E; inversion E; subst. split; [|constructor].
    match goal with H : aget (actors s) _ = Some ?y0 |- _ => apply (ke_upd s _ _ _ y0) end.
    + eapply take_keff; [apply ke_refl | eassumption].
    + erewrite C20Proofs.take_actors by eauto. eassumption.
    + match goal with H : a_state _ = SReady _ _ _ |- _ =>
        split; [unfold held_of; simpl; rewrite H; reflexivity | split; [simpl; rewrite H; reflexivity | split; [reflexivity | simpl; auto]]] end.
  - (* ASlabAdd *)
    destruct (cur_ctx s) as [|p pr|] eqn:CC; try kout_tac. destruct pr; try kout_tac.
    destruct (alive s); try kout_tac.
    destruct (aget (actors s) p) as [px|] eqn:AP; try kout_tac.
    destruct (aget (actors s) a) eqn:AA; try kout_tac.
    destruct (a_state px) eqn:SP; try kout_tac.
    destruct (mk_notifier s a n) as [inner s1] eqn:MK.
    destruct (slab_insert slab snext a) as [[slab' nx'] key] eqn:SI.
    intros E.
    pose proof (lsame_mk_notifier _ _ _ _ _ MK) as LS.
    pose proof (lsame_trans _ _ _ LS (lsame_ref_clone s1 p)) as LS2.
    split; [|eapply bind_gen; eauto]. eapply bind_keff; [|eauto]. apply ke_emit; [|reflexivity].
    assert (NA : keff s (ref_clone (new_actor (ref_clone s1 p) a (Ret a (RKSlab p key inner)) (a_logid px) false) a)).
    { apply ke_ref_clone. apply ke_new_actor.
      - apply ke_ref_clone. eapply mk_notifier_keff; eauto. apply ke_refl.
      - eapply lsame_none; eauto.
      - simpl. eapply mk_notifier_shape; eauto. }
    destruct (aget (actors (ref_clone (new_actor (ref_clone s1 p) a (Ret a (RKSlab p key inner)) (a_logid px) false) a)) p) as [px'|] eqn:AP'; [|exact NA].
    eapply ke_upd; [exact NA | exact AP' |].
    (* the parent is still Ready: its cell was only touched by reference counting *)
    assert (SP' : a_state px' = SReady sh slab snext).
    { assert (PR : spres s (ref_clone (new_actor (ref_clone s1 p) a (Ret a (RKSlab p key inner)) (a_logid px) false) a)).
      { eapply spres_trans; [eapply spres_mk_notifier; eauto|]. eapply spres_trans; [apply spres_ref_clone|].
        eapply spres_trans; [apply spres_new_actor; eapply lsame_none; eauto | apply spres_ref_clone]. }
      destruct (PR _ _ AP) as (y & AY & SY). congruence. }
    split; [unfold held_of; simpl; rewrite SP'; reflexivity | split; [simpl; rewrite SP'; reflexivity | split; [reflexivity | simpl; auto]]].
  - (* ARetSend *)
    destruct (lookup s h) as [[a|a|a|[rid rk]|f|t sc]|] eqn:LK; try kout_tac.
    destruct (take s h) as [o s1] eqn:T. intros E; inversion E; subst. split; [keff_tac|].
    constructor; [|constructor]. simpl. split; [exact (user_ret_of_lookup _ _ _ HW LK) | exact I].
  - (* AFwdSend *)
    destruct (lookup s h) as [[a|a|a|r|f|t sc]|]; try kout_tac.
    destruct (aget (fwds s) f) as [[rc [body|ht c] tg]|]; try kout_tac.
    destruct tg as [a|]; [|kout_tac].
    destruct (inst_nocaps c _ (ref_clone s a)) as [ci s2] eqn:I. intros E; inversion E; subst. split; [|constructor].
    destruct (inst_nocaps_wf0 _ _ _ _ _ (Q_ref_clone _ a HW) I) as (H2 & _ & C2 & K2).
    apply ke_submit_call; [apply target_ev_keff; eapply inst_nocaps_keff; [apply ke_ref_clone, ke_refl | eauto] | callk_tac | exact C2 |].
    unfold inst_nocaps in I. inversion I; reflexivity.
Qed.

Lemma same_view_strong_dec x v z : count_dec (a_strong x) = Some (v, z) -> same_view (with_strong x v) x.
Proof. intros D. split; [|split; [|split]]; auto. simpl. intros R. eapply sta_dec; eauto. Qed.

Lemma drop_val_kout v s l s' : QWF s -> vwf s v -> drop_val v s = (l, s') -> keff s s' /\ Forall genm l.
Proof.
  intros HW V. unfold drop_val. destruct v; repeat dest_match; try solve [kout_tac].
  - intros E; inversion E; subst. split; [apply ke_refl|]. constructor; [|constructor]. simpl. split; [|exact I].
    inversion V; subst. assumption.
  - intros E; inversion E; subst. split; [|constructor].
    apply tok_script_keff; [apply Q_emit; [reflexivity | exact HW] | apply ke_emit; [apply ke_refl | reflexivity]].
Qed.

Lemma drop_own_kout a b s l s' : drop_own a b s = (l, s') -> keff s s' /\ Forall genm l.
Proof.
  unfold drop_own.
  set (s0 := if b then emit s (EOwnDrop a) else s).
  assert (K0 : keff s s0) by (unfold s0; destruct b; [apply ke_emit; [apply ke_refl | reflexivity] | apply ke_refl]).
  destruct (aget (actors s0) a) as [x|] eqn:AX.
  - destruct (count_dec (a_strong x)) as [[v z]|] eqn:CD.
    + assert (K1 : keff s (upd_actor s0 a (with_strong x v))) by (eapply ke_upd; [exact K0 | exact AX | eapply same_view_strong_dec; eauto]).
      destruct z; intros E; inversion E; subst; (split; [|repeat constructor]); auto.
      apply ke_push_internal; [|exact I]. apply ke_ref_clone; auto.
    + intros E; inversion E; subst. split; [apply ke_emit; auto | repeat constructor].
  - intros E; inversion E; subst. split; [apply ke_emit; auto | constructor].
Qed.

(* the quiet work micro-ops whose handlers are plain effects for the call monitors *)
Definition kclass (m : mop) : bool :=
  match m with
  | MActs _ | MPopFrame | MDropVal _ | MDropOwn _ _ | MValDrop _ | MDelDone _ _ | MOrphNew _ | MOrphDrop _ => true
  | MDropItem c => negb (ci_call c)
  | _ => false
  end.

Lemma kclass_kout m k0 s pre s' : kclass m = true -> WF (m :: k0) s -> QTags s -> handle m s = (pre, s') ->
  keff s s' /\ Forall genm pre.
Proof.
  intros C [K H] T E. inversion K as [|? ? MW K0]; subst. destruct m; try discriminate C; simpl in E.
  - destruct l as [|a l].
    + inversion E; subst. split; [apply ke_refl | constructor].
    + destruct (do_act a s) as [p s1] eqn:DA. inversion E; subst. destruct (do_act_kout _ _ _ _ H T DA) as [A B].
      split; auto. apply Forall_app. split; auto. repeat constructor.
  - destruct (frames s) as [|fr rest]; inversion E; subst.
    + split; [apply ke_refl | constructor].
    + split; [apply ke_set_frames, ke_refl | apply gen_drops].
  - destruct c as [u i k caps q]. unfold ci_call in C. simpl in C. destruct k; try discriminate C. simpl in E. inversion E; subst.
    split; [|apply gen_drops]. apply (ke_drop_plain s s (CI u i (KPlain body) caps q)); [apply ke_refl | reflexivity|].
    apply cwf_iff in MW. apply MW.
  - eapply drop_val_kout; eauto.
  - eapply drop_own_kout; eauto.
  - inversion E; subst. split; [apply ke_emit; [apply ke_refl | reflexivity] | constructor].
  - inversion E; subst. split; [apply ke_emit; [apply ke_refl | reflexivity] | constructor].
  - inversion E; subst. split; [apply ke_emit; [apply ke_refl | reflexivity] | constructor].
  - inversion E; subst. split; [apply ke_emit; [apply ke_refl | reflexivity] | constructor].
Qed.
