(** Layer R proofs: no use of a cell that is not there.  From the reference census [J] (LinRef*.v): whoever clones or
    drops a reference, runs or holds a call, owns or terminates an actor has a counted holder of the cell in the
    configuration, hence the cell is in the table and not freed; a freed cell keeps the count 0.
    [no_uaf]: the model event [EModel M_UAF _] never occurs in a terminating run. *)
From Coq Require Import ZArith NArith List Bool Lia.
From Stk Require Import Lib.U Gen.SrcCount Gen.SrcCore Gen.SrcLog R.Syntax R.Rt R.Mon R.Shape R.Eff R.Count R.Own.
From Stk Require Import R.Lin R.LinEvs R.LinNin R.LinRef R.LinRefLaw R.LinRefStep R.LinRefInv.
Import ListNotations.
Local Open Scope Z_scope.

Arguments submit : simpl never.
Arguments push_main : simpl never.
Arguments timer_add : simpl never.
Arguments emit : simpl never.
Arguments upd_actor : simpl never.
Arguments ref_clone : simpl never.
Arguments new_actor : simpl never.
Arguments log_rec : simpl never.
Arguments tok_script : simpl never.
Arguments target_ev : simpl never.
Arguments push_frame : simpl never.

(* ------------------------------------------------------------------ *)
(** * Live cells; freed cells keep the count 0 *)

Definition live (s : st) (a : N) : Prop := exists y, aget (actors s) a = Some y /\ a_freed y = false.

Definition Fz (s : st) : Prop := forall a y, aget (actors s) a = Some y -> a_freed y = true -> a_rc y = 0.

(* existing cells stay, keep their freed flag, and a freed cell keeps its count; new cells are not freed *)
Definition fmono (s s' : st) : Prop :=
  (forall a y, aget (actors s) a = Some y ->
     exists y', aget (actors s') a = Some y' /\ a_freed y' = a_freed y /\ (a_freed y = true -> a_rc y' = a_rc y)) /\
  (forall a y', aget (actors s) a = None -> aget (actors s') a = Some y' -> a_freed y' = false).

Lemma fmono_refl s : fmono s s.
Proof. split; [intros a y H; exists y; auto | intros a y' H G; congruence]. Qed.

Lemma fmono_trans a b c : fmono a b -> fmono b c -> fmono a c.
Proof.
  intros [A1 A2] [B1 B2]. split.
  - intros x y H. destruct (A1 _ _ H) as (y1 & G1 & F1 & R1). destruct (B1 _ _ G1) as (y2 & G2 & F2 & R2).
    exists y2. split; [exact G2|]. split; [congruence|]. intros FR. rewrite R2 by congruence. auto.
  - intros x y' H G. destruct (aget (actors b) x) as [y1|] eqn:E.
    + destruct (B1 _ _ E) as (y2 & G2 & F2 & _). rewrite G in G2. inversion G2; subst y2. rewrite F2. eapply A2; eauto.
    + eapply B2; eauto.
Qed.

Lemma fmono_same s s' : actors s' = actors s -> fmono s s'.
Proof. intros E. split; [intros a y H; exists y; rewrite E; auto | intros a y' H G; rewrite E in G; congruence]. Qed.

Lemma aget_upd_any s a y b : aget (actors (upd_actor s a y)) b = if N.eqb a b then Some y else aget (actors s) b.
Proof.
  unfold upd_actor. cbn [actors set_actors]. destruct (N.eqb a b) eqn:Q.
  - apply N.eqb_eq in Q. subst b. apply Own.aget_aset_eq.
  - apply Own.aget_aset_neq. intros ->. rewrite N.eqb_refl in Q. discriminate.
Qed.

Lemma fmono_upd s a z y : aget (actors s) a = Some z -> a_freed y = a_freed z -> (a_freed z = true -> a_rc y = a_rc z) ->
  fmono s (upd_actor s a y).
Proof.
  intros A F R. split.
  - intros b w H. rewrite aget_upd_any. destruct (N.eqb a b) eqn:Q.
    + apply N.eqb_eq in Q. subst b. rewrite A in H. inversion H; subst w. exists y. auto.
    + exists w. auto.
  - intros b y' H G. rewrite aget_upd_any in G. destruct (N.eqb a b) eqn:Q; [apply N.eqb_eq in Q; subst b; congruence | congruence].
Qed.

Lemma fmono_live s s' a : fmono s s' -> live s a -> live s' a.
Proof. intros [A _] (y & H & F). destruct (A _ _ H) as (y' & G & F' & _). exists y'. split; [exact G | congruence]. Qed.

Lemma fmono_Fz s s' : fmono s s' -> Fz s -> Fz s'.
Proof.
  intros [A B] Z a y' G F. destruct (aget (actors s) a) as [y|] eqn:E.
  - destruct (A _ _ E) as (y2 & G2 & F2 & R2). rewrite G in G2. inversion G2; subst y2. rewrite F in F2. rewrite R2 by auto. eapply Z; eauto.
  - rewrite (B _ _ E G) in F. discriminate.
Qed.

Lemma fmono_ref_clone s a : live s a -> fmono s (ref_clone s a).
Proof.
  intros (y & A & F). unfold ref_clone. rewrite A, F. apply (fmono_upd s a y); [exact A | reflexivity | intros FR; congruence].
Qed.

Lemma fmono_new_actor s a nt p v : aget (actors s) a = None -> fmono s (new_actor s a nt p v).
Proof.
  intros AN. split.
  - intros b y H. assert (NE : a <> b) by (intros ->; congruence). exists y. rewrite (new_actor_other _ _ _ _ _ _ NE). auto.
  - intros b y' H G. destruct (N.eq_dec a b) as [<-|NE].
    + rewrite new_actor_actors_get in G. inversion G; subst. reflexivity.
    + rewrite (new_actor_other _ _ _ _ _ _ NE) in G. congruence.
Qed.

(* ------------------------------------------------------------------ *)
(** * The two passes: no M_UAF event; freed flags and counts of freed cells *)

Definition pbU (e : ev) : bool := match e with EModel c _ => negb (N.eqb c M_UAF) | _ => true end.

Lemma ei_ref_clone_U s0 s a : live s a -> evs_in pbU s0 s -> evs_in pbU s0 (ref_clone s a).
Proof.
  intros (y & A & F) H. unfold ref_clone. rewrite A, F. eapply ei_same; [exact H | reflexivity].
Qed.

Ltac live_side := first [ assumption | eassumption ].

Ltac eiU := repeat first [ (apply ei_ref_clone_U; [ live_side | ]) | ei_step ].

Lemma take_caps_actors' ids s l s' : take_caps ids s = (l, s') -> actors s' = actors s.
Proof. apply Lin.take_caps_actors. Qed.

Ltac fm_step :=
  lazymatch goal with
  | |- fmono ?s ?s => apply fmono_refl
  | |- fmono _ (emit ?s _) => apply (fmono_trans _ s); [ | apply fmono_same; apply actors_emit ]
  | |- fmono _ (submit ?s _ _) => apply (fmono_trans _ s); [ | apply fmono_same; apply submit_actors ]
  | |- fmono _ (push_main ?s _) => apply (fmono_trans _ s); [ | apply fmono_same; apply actors_push_main ]
  | |- fmono _ (timer_add ?s _ _ _ _) => apply (fmono_trans _ s); [ | apply fmono_same; apply timer_add_actors ]
  | |- fmono _ (push_frame ?s _ _) => apply (fmono_trans _ s); [ | apply fmono_same; apply actors_push_frame ]
  | |- fmono _ (target_ev ?s _) => apply (fmono_trans _ s); [ | apply fmono_same; apply Lin.target_ev_actors ]
  | |- fmono _ (tok_script ?s _) => apply (fmono_trans _ s); [ | apply fmono_same; apply tok_script_actors ]
  | |- fmono _ (log_rec ?s _ _ _ _) => apply (fmono_trans _ s); [ | apply fmono_same; apply Lin.log_rec_actors ]
  | |- fmono _ (ref_clone ?s _) => apply (fmono_trans _ s); [ | apply fmono_ref_clone; live_side ]
  | |- fmono _ (set_alive ?s _) => apply (fmono_trans _ s); [ | apply fmono_same; apply actors_set_alive ]
  | |- fmono _ (set_now ?s _) => apply (fmono_trans _ s); [ | apply fmono_same; apply actors_set_now ]
  | |- fmono _ (set_start ?s _) => apply (fmono_trans _ s); [ | apply fmono_same; apply actors_set_start ]
  | |- fmono _ (set_mainq ?s _) => apply (fmono_trans _ s); [ | apply fmono_same; apply actors_set_mainq ]
  | |- fmono _ (set_lazyq ?s _) => apply (fmono_trans _ s); [ | apply fmono_same; apply actors_set_lazyq ]
  | |- fmono _ (set_idleq ?s _) => apply (fmono_trans _ s); [ | apply fmono_same; apply actors_set_idleq ]
  | |- fmono _ (set_timers ?s _) => apply (fmono_trans _ s); [ | apply fmono_same; apply actors_set_timers ]
  | |- fmono _ (set_tnext ?s _) => apply (fmono_trans _ s); [ | apply fmono_same; apply actors_set_tnext ]
  | |- fmono _ (set_tvars ?s _) => apply (fmono_trans _ s); [ | apply fmono_same; apply actors_set_tvars ]
  | |- fmono _ (set_recreate ?s _) => apply (fmono_trans _ s); [ | apply fmono_same; apply actors_set_recreate ]
  | |- fmono _ (set_fwds ?s _) => apply (fmono_trans _ s); [ | apply fmono_same; apply actors_set_fwds ]
  | |- fmono _ (set_env ?s _) => apply (fmono_trans _ s); [ | apply fmono_same; apply actors_set_env ]
  | |- fmono _ (set_frames ?s _) => apply (fmono_trans _ s); [ | apply fmono_same; apply actors_set_frames ]
  | |- fmono _ (set_nuid ?s _) => apply (fmono_trans _ s); [ | apply fmono_same; apply actors_set_nuid ]
  | |- fmono _ (set_logseq ?s _) => apply (fmono_trans _ s); [ | apply fmono_same; apply actors_set_logseq ]
  | |- fmono _ (set_logfilter ?s _) => apply (fmono_trans _ s); [ | apply fmono_same; apply actors_set_logfilter ]
  | |- fmono _ (set_haslogger ?s _) => apply (fmono_trans _ s); [ | apply fmono_same; apply actors_set_haslogger ]
  | |- fmono _ (set_shut ?s _) => apply (fmono_trans _ s); [ | apply fmono_same; apply actors_set_shut ]
  | |- fmono _ (set_tr ?s _) => apply (fmono_trans _ s); [ | apply fmono_same; reflexivity ]
  | |- fmono _ (if ?b then _ else _) => destruct b
  | |- fmono _ (upd_actor ?s ?a (with_rc ?y _)) =>
      match goal with A : aget (actors s) a = Some y, F : a_freed y = false |- _ =>
        apply (fmono_trans _ s); [ | apply (fmono_upd s a y); [ exact A | reflexivity | intros FR; rewrite F in FR; discriminate FR ] ] end
  | |- fmono _ (upd_actor ?s ?a (with_strong ?y _)) =>
      match goal with A : aget (actors s) a = Some y |- _ => apply (fmono_trans _ s); [ | apply (fmono_upd s a y); [ exact A | reflexivity | reflexivity ] ] end
  | |- fmono _ (upd_actor ?s ?a (with_state ?y _)) =>
      match goal with A : aget (actors s) a = Some y |- _ => apply (fmono_trans _ s); [ | apply (fmono_upd s a y); [ exact A | reflexivity | reflexivity ] ] end
  | |- fmono _ (upd_actor ?s ?a (mkActor _ _ (a_rc ?y) _ _ (a_freed ?y))) =>
      match goal with A : aget (actors s) a = Some y |- _ => apply (fmono_trans _ s); [ | apply (fmono_upd s a y); [ exact A | reflexivity | reflexivity ] ] end
  | |- fmono _ ?s' =>
      match goal with
      | H : take _ _ = (_, s') |- _ => eapply fmono_trans; [ | apply fmono_same; exact (Lin.take_actors _ _ _ _ H) ]
      | H : take_caps _ _ = (_, s') |- _ => eapply fmono_trans; [ | apply fmono_same; exact (Lin.take_caps_actors _ _ _ _ H) ]
      | H : bind _ _ _ = (_, s') |- _ => eapply fmono_trans; [ | apply fmono_same; exact (bind_actors _ _ _ _ _ H) ]
      | H : bad _ _ = (_, s') |- _ => eapply fmono_trans; [ | apply fmono_same; exact (bad_actors _ _ _ _ H) ]
      | H : inst _ _ _ = (_, s') |- _ => eapply fmono_trans; [ | apply fmono_same; exact (Lin.inst_actors _ _ _ _ _ H) ]
      | H : inst_call _ _ _ = (_, s') |- _ => eapply fmono_trans; [ | apply fmono_same; exact (Lin.inst_call_actors _ _ _ _ _ H) ]
      | H : inst_nocaps _ _ _ = (_, s') |- _ => eapply fmono_trans; [ | apply fmono_same; exact (inst_nocaps_actors _ _ _ _ _ H) ]
      | _ => is_var s'; apply fmono_refl
      end
  end.

Ltac fm_tac := repeat fm_step.

Definition uok (s s' : st) : Prop := evs_in pbU s s' /\ fmono s s'.

Definition LIVE (s : st) : Prop := forall a, 1 <= hst (HR a) s -> live s a.

Ltac pose_live LV :=
  repeat match goal with
  | L : lookup ?s ?h = Some ?v, HA : handle_actor ?v = Some ?a |- _ =>
      lazymatch goal with
      | _ : live s a |- _ => fail
      | _ => assert (live s a) by (apply LV; pose proof (lookup_le (HR a) s h v L); pose proof (handle_actor_hv (HR a) v a HA); rewrite hind_refl in *; lia)
      end
  | L : lookup ?s ?h = Some (HOwn ?a) |- _ =>
      lazymatch goal with
      | _ : live s a |- _ => fail
      | _ => assert (live s a) by (apply LV; pose proof (lookup_le (HR a) s h _ L) as QQ; rewrite hv_own, hind_refl in QQ; pose proof (hind_range (HR a) (HO a)); lia)
      end
  | L : lookup ?s ?h = Some (HAct ?a) |- _ =>
      lazymatch goal with
      | _ : live s a |- _ => fail
      | _ => assert (live s a) by (apply LV; pose proof (lookup_le (HR a) s h _ L) as QQ; rewrite hv_act, hind_refl in QQ; lia)
      end
  end.

Ltac passU LV := intros Q; inj_R Q; subst; pose_live LV; (split; [eiU | fm_tac]).

Lemma uok_trans a b c : uok a b -> uok b c -> uok a c.
Proof. intros [A1 A2] [B1 B2]. split; [eapply ei_trans; eauto | eapply fmono_trans; eauto]. Qed.

Lemma live_upd s a z y : aget (actors s) a = Some z -> a_freed z = false -> a_freed y = false -> live (upd_actor s a y) a.
Proof. intros A F G. exists y. rewrite aget_upd_any, N.eqb_refl. auto. Qed.

Lemma live_get s a y : live s a -> aget (actors s) a = Some y -> a_freed y = false.
Proof. intros (z & A & F) E. rewrite E in A. inversion A; subst. exact F. Qed.

Lemma mk_notifier_U s a n nt s1 : LIVE s -> mk_notifier s a n = (nt, s1) -> uok s s1.
Proof.
  intros LV. unfold uok, mk_notifier. destruct n as [[hp c]|].
  - destruct (lookup s hp) as [v|] eqn:L; [destruct (handle_actor v) as [p|] eqn:HA|].
    + destruct (inst_call c (fun b => KMeth p b None) (ref_clone s p)) as [ci s2] eqn:I. passU LV.
    + passU LV.
    + passU LV.
  - passU LV.
Qed.

(* acts that clone a reference of a cell they have just touched, or through a Fwd object *)
Lemma own_clone_U s a y v : live s a -> aget (actors s) a = Some y -> uok s (ref_clone (upd_actor s a (with_strong y v)) a).
Proof.
  intros LA A. pose proof (live_get _ _ _ LA A) as F.
  assert (L1 : live (upd_actor s a (with_strong y v)) a) by (eapply live_upd; eauto).
  split; [eiU | fm_tac].
Qed.

Lemma newactor_U h a n s pre s' : LIVE s -> do_act (ANewActor h a n) s = (pre, s') -> uok s s'.
Proof.
  intros LV. unfold do_act. destruct (has_core s); [|unfold uok; passU LV].
  destruct (aget (actors s) a) as [y|] eqn:A; [unfold uok; passU LV|].
  destruct (mk_notifier s a n) as [nt s1] eqn:MK. pose proof (mk_notifier_U _ _ _ _ _ LV MK) as U1.
  assert (N1 : aget (actors s1) a = None) by (eapply mk_notifier_none; eauto).
  intros Q. eapply uok_trans; [exact U1|]. split.
  - eapply ei_bind; [|exact Q]. apply ei_new_actor; try (intros; reflexivity). apply ei_refl.
  - eapply fmono_trans; [apply fmono_new_actor; exact N1 | apply fmono_same; exact (bind_actors _ _ _ _ _ Q)].
Qed.

Lemma store_U h s pre s' : do_act (AStore h) s = (pre, s') -> uok s s'.
Proof.
  unfold do_act.
  destruct (cur_ctx s) as [|a prep|]; try (unfold uok; intros Q; inj_R Q; split; [eiU | fm_tac]; fail).
  destruct prep; [unfold uok; intros Q; inj_R Q; split; [eiU | fm_tac]|].
  destruct (aget (actors s) a) as [x|] eqn:A; [|unfold uok; intros Q; inj_R Q; split; [eiU | fm_tac]].
  destruct (a_state x) as [|sh slab nx|]; try (unfold uok; intros Q; inj_R Q; split; [eiU | fm_tac]; fail).
  destruct (take s h) as [[v|] s1] eqn:T; intros Q; inj_R Q; (split; [eiU|]).
  - eapply fmono_trans; [apply fmono_same; exact (Lin.take_actors _ _ _ _ T)|].
    apply (fmono_upd s1 a x); [rewrite (Lin.take_actors _ _ _ _ T); exact A | reflexivity | reflexivity].
  - apply fmono_same. exact (Lin.take_actors _ _ _ _ T).
Qed.

Lemma slabadd_U h a n s pre s' : LIVE s -> (forall p b, cur_ctx s = XCx p b -> live s p) -> do_act (ASlabAdd h a n) s = (pre, s') -> uok s s'.
Proof.
  intros LV CL. unfold do_act.
  assert (BAD : forall c, bad s c = (pre, s') -> uok s s') by (intros c; unfold uok; passU LV).
  destruct (cur_ctx s) as [|p prep|] eqn:CX; try (apply (BAD 22%N); fail).
  destruct prep; [apply (BAD 22%N)|]. destruct (alive s); [|apply (BAD 22%N)].
  destruct (aget (actors s) p) as [px|] eqn:AP; [|apply (BAD 22%N)].
  destruct (aget (actors s) a) as [y|] eqn:A; [apply (BAD 22%N)|].
  destruct (a_state px) as [|sh slab nx|] eqn:SP; try (apply (BAD 22%N); fail).
  destruct (mk_notifier s a n) as [inner s1] eqn:MK. pose proof (mk_notifier_U _ _ _ _ _ LV MK) as U1.
  destruct (slab_insert slab nx a) as [[slab' nx'] key] eqn:SI. cbv zeta.
  assert (NE : a <> p) by (intros ->; congruence).
  assert (LP1 : live s1 p) by (eapply fmono_live; [apply U1 | eapply CL; eauto]).
  assert (N1 : aget (actors s1) a = None) by (eapply mk_notifier_none; eauto).
  assert (N2 : aget (actors (ref_clone s1 p)) a = None) by (apply ref_clone_none; exact N1).
  set (s3 := new_actor (ref_clone s1 p) a (Ret a (RKSlab p key inner)) (a_logid px) false).
  assert (LA3 : live s3 a) by (eexists; split; [apply new_actor_actors_get | reflexivity]).
  assert (U3 : uok s1 (ref_clone s3 a)).
  { split.
    - apply ei_ref_clone_U; [exact LA3|]. unfold s3. apply ei_new_actor; try (intros; reflexivity). apply ei_ref_clone_U; [exact LP1 | apply ei_refl].
    - eapply fmono_trans; [|apply fmono_ref_clone; exact LA3]. unfold s3.
      eapply fmono_trans; [apply fmono_ref_clone; exact LP1 | apply fmono_new_actor; exact N2]. }
  intros Q. eapply uok_trans; [exact U1|]. eapply uok_trans; [exact U3|].
  destruct (aget (actors (ref_clone s3 a)) p) as [px'|] eqn:AP4.
  - split.
    + eapply ei_bind; [|exact Q]. apply ei_emit; [|reflexivity]. eapply ei_same; [apply ei_refl | reflexivity].
    + eapply fmono_trans; [|apply fmono_same; exact (bind_actors _ _ _ _ _ Q)].
      eapply fmono_trans; [|apply fmono_same; apply actors_emit]. apply (fmono_upd _ p px'); [exact AP4 | reflexivity | reflexivity].
  - split.
    + eapply ei_bind; [|exact Q]. apply ei_emit; [apply ei_refl | reflexivity].
    + eapply fmono_trans; [|apply fmono_same; exact (bind_actors _ _ _ _ _ Q)]. apply fmono_same. apply actors_emit.
Qed.

Lemma fwdsend_U h v s pre s' : LIVE s -> PJ (fun _ => 0) s -> do_act (AFwdSend h v) s = (pre, s') -> uok s s'.
Proof.
  intros LV P. unfold do_act. destruct (lookup s h) as [[a|a|a|r|f|t sc]|] eqn:L; try (unfold uok; passU LV; fail).
  destruct (aget (fwds s) f) as [[rc k tg]|] eqn:F; [|unfold uok; passU LV].
  destruct k as [body|ht c]; [unfold uok; passU LV|]. destruct tg as [a|]; [|unfold uok; passU LV].
  destruct (fwd_live s f h P L _ _ _ F) as [RC1 RC2].
  assert (LA : live s a).
  { apply LV. pose proof (hfw_le (HR a) s f _ F) as FL. cbn [hfw] in FL. assert (T : (0 <? rc) = true) by (apply Z.ltb_lt; lia).
    rewrite T, hind_refl in FL. exact FL. }
  destruct (inst_nocaps c (fun b => KMeth a b (Some v)) (ref_clone s a)) as [ci s2] eqn:I. unfold uok. passU LV.
Qed.

Definition CTXL (s : st) : Prop := forall p b, cur_ctx s = XCx p b -> live s p.

Lemma do_act_U a s pre s' : LIVE s -> CTXL s -> PJ (fun _ => 0) s -> do_act a s = (pre, s') -> uok s s'.
Proof.
  intros LV CL P H.
  assert (SPEC : match a with ANewActor _ _ _ | ASlabAdd _ _ _ | AStore _ | AFwdSend _ _ | AKillAsync _ _ | AOwned _ _ => True | _ => False end \/
                 match a with ANewActor _ _ _ | ASlabAdd _ _ _ | AStore _ | AFwdSend _ _ | AKillAsync _ _ | AOwned _ _ => False | _ => True end)
    by (destruct a; auto).
  destruct SPEC as [SP|SP].
  - destruct a; try contradiction.
    + eapply newactor_U; eauto.
    + (* AKillAsync *) revert H. unfold do_act. destruct (lookup s h) as [[a| | | | |]|] eqn:L; try (unfold uok; passU LV; fail).
      destruct (aget (actors s) a) as [y|] eqn:A; [|unfold uok; passU LV]. intros Q; inj_R Q. pose_live LV.
      eapply uok_trans; [apply (own_clone_U s a y (oz (count_inc (a_strong y)))); auto|]. split; [eiU | fm_tac].
    + (* AOwned *) revert H. unfold do_act. destruct (lookup s h) as [[a| | | | |]|] eqn:L; try (unfold uok; passU LV; fail).
      destruct (aget (actors s) a) as [y|] eqn:A; [|unfold uok; passU LV]. pose_live LV. intros Q.
      eapply uok_trans; [apply (own_clone_U s a y (oz (count_inc (a_strong y)))); auto|]. split; [eiU | fm_tac].
    + eapply store_U; eauto.
    + eapply slabadd_U; eauto.
    + eapply fwdsend_U; eauto.
  - revert H. unfold uok, do_act. destruct a; try contradiction; repeat dest_match; passU LV.
Qed.

(* ------------------------------------------------------------------ *)
(** * A counted holder means a live cell *)

Lemma live_census k s a : J k s -> Fz s -> 1 <= hmops (HR a) k + hst (HR a) s -> live s a.
Proof.
  intros JJ Z L. destruct (J_ref_live _ _ _ JJ L) as (x & A & R & _). exists x. split; [exact A|].
  destruct (a_freed x) eqn:F; [|reflexivity]. rewrite (Z _ _ A F) in R. lia.
Qed.

Lemma J_LIVE k s : J k s -> Fz s -> LIVE s.
Proof. intros JJ Z a L. eapply live_census; eauto. pose proof (hmops_nn (HR a) k). lia. Qed.

Lemma J_PJ m k0 s : J (m :: k0) s -> PJ (fun x => hmop x m) s.
Proof. intros JJ y RY. destruct (JJ y RY) as [R0 J0]. split; [exact R0|]. cbn [hmops] in J0. pose proof (hmops_nn y k0). lia. Qed.

Lemma live_head m k0 s a : J (m :: k0) s -> Fz s -> 1 <= hmop (HR a) m -> live s a.
Proof.
  intros JJ Z L. eapply live_census; eauto. cbn [hmops]. pose proof (hmops_nn (HR a) k0). pose proof (hst_nn (HR a) s). lia.
Qed.

(* ------------------------------------------------------------------ *)
(** * The micro-ops *)

Definition nouaf (s s' : st) : Prop := evs_in pbU s s' /\ Fz s'.

Lemma uok_nouaf s s' : Fz s -> uok s s' -> nouaf s s'.
Proof. intros Z [A B]. split; [exact A | eapply fmono_Fz; eauto]. Qed.

Lemma runitem_U c k0 s pre s' : J (MRunItem c :: k0) s -> Fz s -> run_item c s = (pre, s') -> uok s s'.
Proof.
  intros JJ Z. unfold run_item. destruct c as [u i kd caps q].
  assert (LH : forall a, 1 <= hkind (HR a) kd -> live s a).
  { intros a L. apply (live_head _ _ _ _ JJ Z). cbn [hmop]. rewrite hci_eq. pose proof (henv_nn (HR a) caps). destruct (rkb kd); lia. }
  destruct kd as [body|a body arg|a body ready|p key|a|a e].
  - intros Q; inj_R Q. split; [eiU | fm_tac].
  - assert (LA : live s a) by (apply LH; cbn [hkind]; rewrite hind_refl; lia). destruct LA as (x & A & F). rewrite A.
    destruct (a_state x); intros Q; inj_R Q; (split; [eiU | fm_tac]).
  - assert (LA : live s a) by (apply LH; cbn [hkind]; rewrite hind_refl; lia). destruct LA as (x & A & F). rewrite A.
    destruct (ob (count_is_prep (a_strong x))); intros Q; inj_R Q; (split; [eiU | fm_tac]).
  - assert (LA : live s p) by (apply LH; cbn [hkind]; rewrite hind_refl; lia). destruct LA as (x & A & F). rewrite A.
    destruct (a_state x) as [held|sh slab nx|]; [| destruct (nth_error slab (N.to_nat key)) as [[child|n0]|] |]; intros Q; inj_R Q; (split; [eiU | fm_tac]).
  - intros Q; inj_R Q. split; [eiU | fm_tac].
  - intros Q; inj_R Q. split; [eiU | fm_tac].
Qed.

Lemma dropown_U a lg k0 s pre s' : J (MDropOwn a lg :: k0) s -> Fz s -> drop_own a lg s = (pre, s') -> uok s s'.
Proof.
  intros JJ Z. assert (LA : live s a).
  { apply (live_head _ _ _ _ JJ Z). cbn [hmop]. rewrite hind_refl. pose proof (hind_range (HR a) (HO a)). lia. }
  destruct LA as (x & A & F). unfold drop_own.
  set (s0 := if lg then emit s (EOwnDrop a) else s).
  assert (A0 : aget (actors s0) a = Some x) by (unfold s0; destruct lg; exact A).
  assert (U0 : uok s s0) by (unfold s0; destruct lg; (split; [eiU | fm_tac])).
  rewrite A0. destruct (count_dec (a_strong x)) as [[v z]|].
  - destruct z; intros Q; inj_R Q; (eapply uok_trans; [exact U0|]).
    + assert (L1 : live (upd_actor s0 a (with_strong x v)) a) by (eapply live_upd; eauto). split; [eiU | fm_tac].
    + split; [eiU | fm_tac].
  - intros Q; inj_R Q. eapply uok_trans; [exact U0|]. split; [eiU | fm_tac].
Qed.

Lemma dropref_U a k0 s pre s' : J (MDropRef a :: k0) s -> Fz s -> drop_ref a s = (pre, s') -> nouaf s s'.
Proof.
  intros JJ Z. assert (LA : live s a) by (apply (live_head _ _ _ _ JJ Z); cbn [hmop]; rewrite hind_refl; lia).
  destruct LA as (x & A & F). unfold drop_ref. rewrite A, F.
  destruct (minrc_drop (a_rc x)) as [[v z]|] eqn:MD.
  - destruct z.
    + destruct (state_drops a (a_state x) _) as [dl s2] eqn:SD. destruct (state_drops_h (HR a) _ _ _ _ _ SD) as [-> _].
      intros Q; inj_R Q. split; [eiU|].
      assert (V0 : v = 0).
      { pose proof (rc_range _ _ _ _ (J_PJ _ _ _ JJ) A) as RR. destruct (drop_cases _ _ _ RR MD) as [(_ & E & _)|(D & _)]; [exact E | discriminate D]. }
      subst v. intros b y' G FR. change (actors (emit ?s0 ?e)) with (actors s0) in G. rewrite aget_upd_any in G. destruct (N.eqb a b) eqn:E.
      * inversion G; subst y'. reflexivity.
      * eapply Z; eauto.
    + intros Q; inj_R Q. apply uok_nouaf; [exact Z|]. split; [eiU | fm_tac].
  - intros Q; inj_R Q. apply uok_nouaf; [exact Z|]. split; [eiU | fm_tac].
Qed.

Lemma retinvoke_U r m0 k0 s pre s' : J (MRetInvoke r m0 :: k0) s -> Fz s -> ret_invoke r m0 s = (pre, s') -> uok s s'.
Proof.
  intros JJ Z. unfold ret_invoke. destruct r as [rid k].
  destruct k as [caps body|a ci|a ci|a inner|p key inner]; try (repeat dest_match; intros Q; inj_R Q; (split; [eiU | fm_tac]); fail).
  assert (LP : live s p).
  { apply (live_head _ _ _ _ JJ Z). cbn [hmop]. rewrite hret_eq, hrk_slab, hind_refl. pose proof (hret_nn (HR p) inner). lia. }
  destruct m0; intros Q; inj_R Q; (split; [eiU | fm_tac]).
Qed.

Lemma terminate_U a c s pre s' : live s a -> terminate a c s = (pre, s') -> uok s s'.
Proof.
  intros (x & A & F). unfold terminate. rewrite A, F.
  destruct (state_drops a (a_state x) _) as [dl s2] eqn:SD. destruct (state_drops_h (HR a) _ _ _ _ _ SD) as [-> _].
  destruct (a_notify x); intros Q; inj_R Q; (split; [eiU|]);
    (apply (fmono_upd s a x); [exact A | cbn [a_freed]; symmetry; exact F | intros FR; rewrite F in FR; discriminate FR]).
Qed.

Lemma toready_U a s pre s' : live s a -> handle (MToReady a) s = (pre, s') -> uok s s'.
Proof.
  intros (x & A & F). cbn [handle]. rewrite A. destruct (a_state x); intros Q; inj_R Q; (split; [eiU|]); try (apply fmono_same; reflexivity).
  eapply fmono_trans; [|apply fmono_same; apply actors_emit]. apply (fmono_upd s a x); [exact A | reflexivity | reflexivity].
Qed.

Lemma class_flag_U all p e : class_flag all p = Some e -> pbU e = true.
Proof.
  unfold class_flag. destruct (a_freed (snd p)); [discriminate|].
  destruct (a_state (snd p)) as [[|c hl]| |]; try discriminate.
  - intros E; inversion E. reflexivity.
  - destruct (existsb _ _); [|discriminate]. intros E; inversion E. reflexivity.
Qed.

Lemma fold_flags_U (f : N * actor -> option ev) (FU : forall p e, f p = Some e -> pbU e = true) l : forall s,
  exists fl, tr (fold_left (fun s0 p => emit_opt s0 (f p)) l s) = fl ++ tr s /\ forallb pbU fl = true /\
             actors (fold_left (fun s0 p => emit_opt s0 (f p)) l s) = actors s.
Proof.
  induction l as [|p l IH]; simpl; intros s; [exists []; auto|].
  destruct (IH (emit_opt s (f p))) as (fl & TR & PF & AC). unfold emit_opt in *. destruct (f p) as [e|] eqn:E.
  - exists (fl ++ [e]). rewrite TR, AC. split; [rewrite <- app_assoc; reflexivity|]. split; [|reflexivity].
    rewrite forallb_app, PF. simpl. rewrite (FU _ _ E). reflexivity.
  - exists fl. auto.
Qed.

Lemma class_flags_U s : exists fl, tr (class_flags s) = fl ++ tr s /\ forallb pbU fl = true.
Proof.
  unfold class_flags. destruct (fold_flags_U (class_flag (actors s)) (class_flag_U (actors s)) (actors s) s) as (fl & A & B & _). eauto.
Qed.
Lemma actors_class_flags s : actors (class_flags s) = actors s.
Proof.
  unfold class_flags. destruct (fold_flags_U (class_flag (actors s)) (class_flag_U (actors s)) (actors s) s) as (fl & _ & _ & C). exact C.
Qed.

(* the micro-ops that touch no cell count and emit no model event about cells *)
Lemma plain_U m s pre s' :
  match m with MActs _ | MRunItem _ | MDropOwn _ _ | MDropRef _ | MRetInvoke _ _ | MTerminate _ _ | MToReady _ => False | _ => True end ->
  handle m s = (pre, s') -> uok s s'.
Proof.
  intros SP. assert (LV : LIVE s -> True) by auto. unfold uok.
  destruct m; try contradiction; cbn [handle].
  - unfold do_top. destruct o; repeat dest_match; intros Q; inj_R Q; (split; [eiU | fm_tac]).
  - destruct (frames s); intros Q; inj_R Q; (split; [eiU | fm_tac]).
  - destruct (frames s); intros Q; inj_R Q; (split; [eiU | fm_tac]).
  - unfold drop_item. destruct c as [u i kd caps q]. destruct kd; intros Q; inj_R Q; (split; [eiU | fm_tac]).
  - intros Q; inj_R Q; (split; [eiU | fm_tac]).
  - unfold drop_val. destruct v; repeat dest_match; intros Q; inj_R Q; (split; [eiU | fm_tac]).
  - intros Q; inj_R Q; (split; [eiU | fm_tac]).
  - intros Q; inj_R Q; (split; [eiU | fm_tac]).
  - intros Q; inj_R Q; (split; [eiU | fm_tac]).
  - intros Q; inj_R Q; (split; [eiU | fm_tac]).
  - destruct (aget (actors s) a); intros Q; inj_R Q; (split; [eiU | fm_tac]).
  - unfold fresh_stakker. intros Q; inj_R Q; (split; [eiU | fm_tac]).
  - destruct idle; [destruct (idleq s)|]; intros Q; inj_R Q; (split; [eiU | fm_tac]).
  - destruct (t >? now (set_mainq s [])).
    + destruct (fire t _) as [fired s2] eqn:FI. unfold fire in FI. injection FI as ? ?; subst. intros Q; inj_R Q.
      destruct (ambiguous _); (split; [eiU | fm_tac]).
    + intros Q; inj_R Q; (split; [eiU | fm_tac]).
  - repeat dest_match; intros Q; inj_R Q; (split; [eiU | fm_tac]).
  - repeat dest_match; intros Q; inj_R Q; (split; [eiU | fm_tac]).
  - cbv zeta. destruct (ambiguous (timers s)); intros Q; inj_R Q; (split; [eiU | fm_tac]).
  - repeat dest_match; intros Q; inj_R Q; (split; [eiU | fm_tac]).
  - repeat dest_match; intros Q; inj_R Q; (split; [eiU | fm_tac]).
  - intros Q; inj_R Q; (split; [eiU | fm_tac]).
  - (* MLeaks *) intros Q; inj_R Q. split.
    + destruct (class_flags_U s) as (fl & TR1 & PF).
      exists (rev (leaks (rev (tr (class_flags s)))) ++ fl). split.
      * change (tr (set_tr ?x ?v)) with v. rewrite TR1 at 2. rewrite app_assoc. reflexivity.
      * rewrite forallb_app, PF, andb_true_r. apply forallb_forall. intros e IN. apply in_rev in IN. unfold leaks in IN.
        apply in_map_iff in IN as (p & <- & _). reflexivity.
    + apply fmono_same. cbn [actors set_tr]. apply actors_class_flags.
Qed.
