(** Layer R proofs: C04, slab clauses, part 4: the slab children of a terminated parent are terminated when run returns.

    [RUNAL]: inside run a Stakker is alive.  [NZ]: a notified actor is a Zombie.  [SU]: a slab child has one parent.
    [KP]: a slab child that is neither notified nor in the slab of its parent has a Zombie parent.
    [K2]: for every slab child the monitor still lists, the termination is under way ([Ob] of C04B2.v) - or its parent
    is notified and the Stakker is being / has been dropped (the case in which the deferred terminate is discarded). *)
From Coq Require Import ZArith NArith List Bool Lia.
From Stk Require Import R.LinEvs R.LinC03K R.Lin R.LinAct R.LinLaw R.LinStep R.LinNin R.LinC03L R.C06cProofs R.C02Proofs R.Dkind R.DkindSim.
From Stk Require Import Lib.U Gen.SrcCount Gen.SrcCore Gen.SrcLog R.Syntax R.Rt R.Mon R.Shape R.Eff R.Tags R.Mono R.Count
  R.Nest R.C15Proofs R.C20Proofs R.Calls R.CallInv R.Own R.OwnLaw R.OwnVis R.C04Mon R.C04Base R.C04A R.C04Ceq R.C04SK R.C04A2 R.C04A3
  R.C04B R.C04B2 R.C04T R.C04N R.C04W R.C04W2 R.C04K.
Import ListNotations.
Local Open Scope Z_scope.

Arguments submit : simpl never.
Arguments push_main : simpl never.
Arguments timer_add : simpl never.
Arguments emit : simpl never.
Arguments upd_actor : simpl never.
Arguments ref_clone : simpl never.
Arguments new_actor : simpl never.
Arguments log_rec : simpl never.
Arguments tok_script : simpl never.
Arguments target_ev : simpl never.
Arguments push_frame : simpl never.

(* ------------------------------------------------------------------ *)
(** * Phases *)

Definition runphase (k : list mop) : Prop :=
  match phase_of k with Some p => is_run p = true | None => False end.

Lemma norun_top w r : forallb is_work w = true -> tops r = true -> ~ runphase (w ++ r).
Proof. intros W T. unfold runphase. rewrite phase_of_work, tops_phase; auto. simpl. discriminate. Qed.

Lemma norun_tear k : teardown k -> ~ runphase k.
Proof. unfold teardown, runphase. intros T R. destruct (phase_of k) as [[]|]; simpl in *; try contradiction; discriminate. Qed.

Lemma teardown_dec k : teardown k \/ ~ teardown k.
Proof. unfold teardown. destruct (phase_of k) as [[]|]; try (left; exact I); right; intros []. Qed.

Lemma run_enter m k0 s pre s' :
  shape (m :: k0) -> handle m s = (pre, s') -> runphase (pre ++ k0) ->
  runphase (m :: k0) \/ (exists t idle, m = MTop (TRun t idle) /\ alive s = true).
Proof.
  intros [p [PH _]] E RP. destruct (is_work m) eqn:W.
  { left. destruct (handle_work _ _ _ _ W E) as [A _]. destruct (work_step_phase m k0 pre W A) as [X _].
    unfold runphase in *. rewrite <- X. exact RP. }
  unfold phase_of in PH. simpl in PH. rewrite W in PH.
  destruct m; try discriminate W; simpl in E.
  - (* MTop *)
    simpl in PH. destruct (tops k0) eqn:TP; [|discriminate].
    unfold do_top in E. destruct o.
    + exfalso. destruct (alive s); inversion E; subst; revert RP; unfold runphase, phase_of; simpl; rewrite TP; simpl; discriminate.
    + destruct (alive s) eqn:AL; [right; eauto|]. exfalso. unfold bad in E. inversion E; subst. revert RP. apply (norun_top []); auto.
    + exfalso. inversion E; subst. revert RP. apply (norun_top [MActs l; MPopFrame]); auto.
    + exfalso. destruct (alive s) eqn:AL; inversion E; subst; revert RP; [|apply (norun_top []); auto].
      unfold runphase, phase_of. simpl. rewrite TP. simpl. discriminate.
    + exfalso. inversion E; subst. revert RP. unfold runphase, phase_of; simpl; rewrite TP; simpl; discriminate.
    + exfalso. destruct (alive s); [|unfold bad in E]; inversion E; subst; revert RP; apply (norun_top []); auto.
    + exfalso. destruct (alive s); [|unfold bad in E]; inversion E; subst; revert RP; apply (norun_top []); auto.
  - (* MNew *)
    simpl in PH. destruct (tops k0) eqn:TP; [|discriminate]. exfalso. inversion E; subst. revert RP.
    apply norun_top; auto. apply work_map_dropitem.
  - (* MRunIdle *)
    left. destruct k0 as [|m1 k1]; [discriminate|]. destruct m1; try discriminate PH.
    destruct k1 as [|m2 k2]; [discriminate|]. destruct m2; try discriminate PH.
    destruct ((t =? t0) && tops k2) eqn:TP; [|discriminate].
    unfold runphase, phase_of. simpl. rewrite TP. reflexivity.
  - (* MRunMain *)
    left. destruct k0 as [|m1 k1]; [discriminate|]. destruct m1; try discriminate PH.
    destruct ((t =? t0) && tops k1) eqn:TP; [|discriminate].
    unfold runphase, phase_of. simpl. rewrite TP. reflexivity.
  - (* MLoop *)
    left. destruct (tops k0) eqn:TP; [|discriminate]. unfold runphase, phase_of. simpl. rewrite TP. reflexivity.
  - (* MDrain *)
    exfalso. destruct (tops k0) eqn:TP; [|discriminate].
    assert (T1 : teardown (MDropFields :: k0)) by (unfold teardown, phase_of; simpl; rewrite TP; exact I).
    assert (T2 : forall l j, teardown (map MDropItem l ++ MDrain j :: k0)).
    { intros l j. unfold teardown. rewrite phase_of_work by apply work_map_dropitem. unfold phase_of. simpl. rewrite TP. exact I. }
    destruct (i >=? TEARDOWN_ROUNDS); [inversion E; subst; exact (norun_tear _ T1 RP)|].
    destruct (mainq s) as [|c l]; inversion E; subst; [exact (norun_tear _ T1 RP)|].
    revert RP. apply norun_tear.
    replace ((MDropItem c :: map MDropItem l ++ [MDrain (i + 1)]) ++ k0) with (map MDropItem (c :: l) ++ MDrain (i + 1) :: k0)
      by (simpl; rewrite <- app_assoc; reflexivity). apply T2.
  - (* MDropFields *)
    exfalso. destruct (tops k0) eqn:TP; [|discriminate]. inversion E; subst. revert RP. apply norun_tear.
    rewrite <- app_assoc. unfold teardown. rewrite phase_of_work by apply work_map_dropitem. unfold phase_of. simpl. rewrite TP. exact I.
  - (* MDropEnd *)
    exfalso. destruct (tops k0) eqn:TP; [|discriminate]. inversion E; subst. revert RP. apply (norun_top []); auto.
  - exfalso. simpl in PH. destruct (tops k0) eqn:TP; [|discriminate].
    destruct (amin (env s)) as [[h v]|]; inversion E; subst; revert RP.
    + apply (norun_top [MDropVal v]); simpl; auto.
    + apply (norun_top []); auto.
  - exfalso. simpl in PH. destruct (tops k0) eqn:TP; [|discriminate]. inversion E; subst. revert RP.
    apply (norun_top []); simpl; auto.
  - exfalso. simpl in PH. destruct (tops k0) eqn:TP; [|discriminate]. inversion E; subst. revert RP.
    apply (norun_top []); auto.
Qed.

Lemma teardown_leave m k0 s pre s' :
  shape (m :: k0) -> handle m s = (pre, s') -> teardown (m :: k0) -> ~ teardown (pre ++ k0) -> m = MDropEnd.
Proof.
  intros [p [PH _]] E TD NT. destruct (is_work m) eqn:W.
  { exfalso. apply NT. destruct (handle_work _ _ _ _ W E) as [A _]. apply (teardown_work m k0 pre W A). exact TD. }
  unfold teardown, phase_of in TD. simpl in TD. rewrite W in TD.
  destruct m; try discriminate W; simpl in E; simpl in TD.
  - destruct (tops k0); destruct TD.
  - destruct (tops k0); destruct TD.
  - destruct k0 as [|m1 k1]; [destruct TD|]. destruct m1; try (destruct TD; fail).
    destruct k1 as [|m2 k2]; [destruct TD|]. destruct m2; try (destruct TD; fail). destruct ((t =? t0) && tops k2); destruct TD.
  - destruct k0 as [|m1 k1]; [destruct TD|]. destruct m1; try (destruct TD; fail). destruct ((t =? t0) && tops k1); destruct TD.
  - destruct (tops k0); destruct TD.
  - (* MDrain *)
    exfalso. apply NT. destruct (tops k0) eqn:TP; [|destruct TD].
    assert (T1 : teardown (MDropFields :: k0)) by (unfold teardown, phase_of; simpl; rewrite TP; exact I).
    destruct (i >=? TEARDOWN_ROUNDS); [inversion E; subst; exact T1|].
    destruct (mainq s) as [|c l]; inversion E; subst; [exact T1|].
    replace ((MDropItem c :: map MDropItem l ++ [MDrain (i + 1)]) ++ k0) with (map MDropItem (c :: l) ++ MDrain (i + 1) :: k0)
      by (simpl; rewrite <- app_assoc; reflexivity).
    unfold teardown. rewrite phase_of_work by apply work_map_dropitem. unfold phase_of. simpl. rewrite TP. exact I.
  - (* MDropFields *)
    exfalso. apply NT. destruct (tops k0) eqn:TP; [|destruct TD]. inversion E; subst.
    rewrite <- app_assoc. unfold teardown. rewrite phase_of_work by apply work_map_dropitem. unfold phase_of. simpl. rewrite TP. exact I.
  - reflexivity.
  - destruct (tops k0); destruct TD.
  - destruct (tops k0); destruct TD.
  - destruct (tops k0); destruct TD.
Qed.

(* inside run a Stakker is alive *)
Definition RUNAL (k : list mop) (s : st) : Prop := runphase k -> alive s = true.

Lemma RUNAL_init d p : RUNAL (map MTop p ++ [MEpilogue]) (init d).
Proof.
  intros R. exfalso. revert R. apply (norun_top []); [reflexivity|].
  unfold tops. rewrite forallb_app. simpl. rewrite andb_true_r. induction p; simpl; auto.
Qed.

Lemma step_RUNAL m k0 s pre s' : shape (m :: k0) -> handle m s = (pre, s') -> RUNAL (m :: k0) s -> RUNAL (pre ++ k0) s'.
Proof.
  intros SH E R RP. destruct (run_enter _ _ _ _ _ SH E RP) as [R0|(t & idle & -> & AL)].
  - rewrite (handle_alive _ _ _ _ E); [apply R; exact R0|].
    destruct m; try reflexivity; exfalso; destruct SH as [p [PH _]]; unfold runphase, phase_of in R0; simpl in R0;
      destruct (tops k0); simpl in R0; try discriminate R0; destruct R0.
  - rewrite (handle_alive _ _ _ _ E); [exact AL | reflexivity].
Qed.

(* ------------------------------------------------------------------ *)
(** * A notified actor is a Zombie *)

Definition NZ (s : st) : Prop := forall a, In a (o_notified (st04 (tr s))) -> zombie s a.

Lemma NZ_init d : NZ (init d). Proof. intros a H. destruct H. Qed.

Lemma notif_pbX evs a cc : forallb pbX evs = true -> ~ In (ENotify a cc) evs.
Proof. intros F IN. rewrite forallb_forall in F. specialize (F _ IN). discriminate F. Qed.

Lemma step_NZ m k0 s pre s' : WF (m :: k0) s -> QTags s -> KI (m :: k0) s -> handle m s = (pre, s') -> NZ s -> NZ s'.
Proof.
  intros W QT KI0 E N a H. destruct (handle_KI _ _ _ _ _ W QT KI0 E) as [_ ZM]. apply st04_notified in H as (cc & H).
  destruct (handle_evX _ _ _ _ E) as [(evs & TE & FE)|(b & rid & inner & mm & -> & (evs & TE & FE))].
  - rewrite TE in H. apply in_app_or in H as [H|H]; [exfalso; eapply notif_pbX; eauto|].
    apply ZM, N. apply st04_notified. eauto.
  - rewrite TE in H. apply in_app_or in H as [H|H]; [exfalso; eapply notif_pbX; eauto|].
    unfold emit in H. cbn [tr set_tr] in H. destruct H as [H|H].
    + inversion H; subst. apply ZM. destruct KI0 as [_ MOK]. inversion MOK as [|? ? MK _]; subst. apply MK. reflexivity.
    + apply ZM, N. apply st04_notified. eauto.
Qed.

(* ------------------------------------------------------------------ *)
(** * A slab child has one parent *)

Definition SU (s : st) : Prop :=
  (forall p c, In (ESlabAdd p c) (tr s) -> exists y, aget (actors s) c = Some y) /\
  (forall p q c, In (ESlabAdd p c) (tr s) -> In (ESlabAdd q c) (tr s) -> p = q).

Lemma SU_init d : SU (init d). Proof. split; [intros p c H | intros p q c H]; destruct H. Qed.

Lemma slabadd_pbB evs p c : forallb pbB evs = true -> ~ In (ESlabAdd p c) evs.
Proof. intros F IN. rewrite forallb_forall in F. specialize (F _ IN). discriminate F. Qed.

Lemma slabadd_cell h a n s pre s' : do_act (ASlabAdd h a n) s = (pre, s') ->
  (tr s' = EBad 22 :: tr s) \/ exists y, aget (actors s') a = Some y.
Proof.
  unfold do_act.
  destruct (cur_ctx s) as [|p pr|] eqn:CC; try solve [intros Q; injp Q; left; reflexivity]. destruct pr; try solve [intros Q; injp Q; left; reflexivity].
  destruct (alive s); try solve [intros Q; injp Q; left; reflexivity].
  destruct (aget (actors s) p) as [px|] eqn:AP; try solve [intros Q; injp Q; left; reflexivity].
  destruct (aget (actors s) a) eqn:AA; try solve [intros Q; injp Q; left; reflexivity].
  destruct (a_state px) eqn:SP; try solve [intros Q; injp Q; left; reflexivity].
  destruct (mk_notifier s a n) as [inner s1] eqn:MK.
  destruct (slab_insert slab snext a) as [[slab' nx'] key] eqn:SI.
  intros Q. right. rewrite (bind_actors_eq _ _ _ _ _ Q).
  assert (NE : a <> p) by (intros ->; congruence).
  set (s3 := new_actor (ref_clone s1 p) a (Ret a (RKSlab p key inner)) (a_logid px) false).
  destruct (new_actor_get (ref_clone s1 p) a (Ret a (RKSlab p key inner)) (a_logid px) false) as (ya & AYA & _). fold s3 in AYA.
  destruct (opres_some _ _ _ _ (opres_ref_clone s3 a) AYA) as (ya4 & AYA4 & _).
  destruct (aget (actors (ref_clone s3 a)) p) as [yp|]; [|cbn [actors emit set_tr]; eauto].
  unfold emit, upd_actor. cbn [actors set_tr set_actors]. rewrite aget_aset_neq by auto. eauto.
Qed.

Lemma step_SU m s pre s' : handle m s = (pre, s') -> SU s -> SU s'.
Proof.
  intros E [S1 S2].
  assert (TAB : forall c y, aget (actors s) c = Some y -> exists y', aget (actors s') c = Some y') by (intros c y; eapply handle_tab; eauto).
  destruct (handle_evB _ _ _ _ E) as [(evs & TE & FE)|(e & PE & (s1 & (evs1 & T1 & F1) & (evs2 & T2 & F2)) & EV)].
  - assert (OLD : forall p c, In (ESlabAdd p c) (tr s') -> In (ESlabAdd p c) (tr s)).
    { intros p c H. rewrite TE in H. apply in_app_or in H as [H|H]; [exfalso; eapply slabadd_pbB; [|exact H]; assumption | exact H]. }
    split.
    + intros p c H. destruct (S1 _ _ (OLD _ _ H)) as (y & AY). eauto.
    + intros p q c H1 H2. eapply S2; eauto.
  - assert (TE : tr s' = evs2 ++ e :: evs1 ++ tr s) by (rewrite T2; unfold emit; cbn [tr set_tr]; rewrite T1; reflexivity).
    assert (OLD : forall p c, In (ESlabAdd p c) (tr s') -> In (ESlabAdd p c) (tr s) \/ e = ESlabAdd p c).
    { intros p c H. rewrite TE in H. apply in_app_or in H as [H|[H|H]]; [exfalso; eapply slabadd_pbB; [|exact H]; assumption | right; auto |].
      apply in_app_or in H as [H|H]; [exfalso; eapply slabadd_pbB; [|exact H]; assumption | left; exact H]. }
    assert (NEW : forall p c, e = ESlabAdd p c -> aget (actors s) c = None /\ exists y, aget (actors s') c = Some y).
    { intros p c ->. cbn [evok] in EV. destruct EV as (h & n & l & -> & AN). split; [exact AN|].
      cbn [handle] in E. destruct (do_act (ASlabAdd h c n) s) as [p0 s0] eqn:DA. injp E.
      destruct (slabadd_cell _ _ _ _ _ _ DA) as [TB|G]; [exfalso | exact G].
      rewrite TB in TE. assert (IN : In (ESlabAdd p c) (EBad 22 :: tr s)) by (rewrite TE; apply in_or_app; right; left; reflexivity).
      destruct IN as [Q|IN]; [discriminate Q|]. destruct (S1 _ _ IN) as (y & AY). congruence. }
    split.
    + intros p c H. destruct (OLD _ _ H) as [H0|H0]; [destruct (S1 _ _ H0) as (y & AY); eauto | exact (proj2 (NEW _ _ H0))].
    + intros p q c H1 H2. destruct (OLD _ _ H1) as [A|A], (OLD _ _ H2) as [B|B].
      * eapply S2; eauto.
      * exfalso. destruct (NEW _ _ B) as [N _]. destruct (S1 _ _ A) as (y & AY). congruence.
      * exfalso. destruct (NEW _ _ A) as [N _]. destruct (S1 _ _ B) as (y & AY). congruence.
      * rewrite A in B. inversion B; reflexivity.
Qed.

(* slabadd fails as a whole or does everything *)
Lemma slabadd_spec h a n s pre s' : do_act (ASlabAdd h a n) s = (pre, s') -> tr s' = EBad 22 :: tr s \/ slabadd_ok s s' a.
Proof.
  intros DA. pose proof DA as DA0. revert DA. unfold do_act.
  destruct (cur_ctx s) as [|p pr|] eqn:CC; try solve [intros Q; injp Q; left; reflexivity]. destruct pr; try solve [intros Q; injp Q; left; reflexivity].
  destruct (alive s); try solve [intros Q; injp Q; left; reflexivity].
  destruct (aget (actors s) p) as [px|] eqn:AP; try solve [intros Q; injp Q; left; reflexivity].
  destruct (aget (actors s) a) eqn:AA; try solve [intros Q; injp Q; left; reflexivity].
  destruct (a_state px) eqn:SP; try solve [intros Q; injp Q; left; reflexivity].
  destruct (mk_notifier s a n) as [inner s1] eqn:MK.
  destruct (slab_insert slab snext a) as [[slab' nx'] key] eqn:SI.
  intros Q. right.
  destruct (mk_notifier_O 0 _ _ _ _ _ MK) as (_ & _ & MP).
  destruct (mk_notifier_shape _ _ _ _ _ MK) as (rid & inn & EI).
  pose proof (opres_trans _ _ _ MP (opres_ref_clone s1 p)) as P2.
  set (s3 := new_actor (ref_clone s1 p) a (Ret a (RKSlab p key inner)) (a_logid px) false) in *.
  assert (NE : a <> p) by (intros ->; congruence).
  destruct (opres_some _ _ _ _ P2 AP) as (y2 & A2 & V2).
  assert (A3 : aget (actors s3) p = Some y2) by (unfold s3; rewrite new_actor_other by auto; exact A2).
  destruct (opres_some _ _ _ _ (opres_ref_clone s3 a) A3) as (y4 & A4 & V4).
  rewrite A4 in Q.
  assert (AS : actors s' = actors (upd_actor (ref_clone s3 a) p (with_state y4 (SReady sh slab' nx')))).
  { revert Q. unfold bind. repeat dest_match; intros Q; inversion Q; reflexivity. }
  exists p, px, sh, slab, snext, inner, slab', nx', key, rid, inn.
  repeat (split; [solve [auto]|]).
  destruct (new_actor_get (ref_clone s1 p) a (Ret a (RKSlab p key inner)) (a_logid px) false) as (ya & AYA & SYA & NYA).
  fold s3 in AYA.
  destruct (opres_some _ _ _ _ (opres_ref_clone s3 a) AYA) as (ya4 & AYA4 & VA4).
  destruct V2 as (_ & S2 & N2 & _), V4 as (_ & S4 & N4 & _), VA4 as (_ & SA4 & NA4 & _).
  split; [|split].
  + exists ya4. rewrite AS. unfold upd_actor. cbn [actors set_actors]. rewrite aget_aset_neq by auto.
    split; [exact AYA4|]. split; congruence.
  + eexists. rewrite AS. unfold upd_actor. cbn [actors set_actors]. rewrite aget_aset_eq. split; [reflexivity|].
    cbn [a_state a_notify with_state]. split; [reflexivity | congruence].
  + intros c NA NP. rewrite AS. unfold upd_actor. cbn [actors set_actors]. rewrite aget_aset_neq by auto.
    pose proof (P2 c) as PC. destruct (aget (actors s) c) as [y|] eqn:AC.
    * destruct PC as (yc & AC2 & (_ & SC & NC & _)).
      assert (AC3 : aget (actors s3) c = Some yc) by (unfold s3; rewrite new_actor_other by auto; exact AC2).
      destruct (opres_some _ _ _ _ (opres_ref_clone s3 a) AC3) as (yc4 & AC4 & (_ & SC4 & NC4 & _)).
      exists yc4. split; [exact AC4|]. split; congruence.
    * assert (AC3 : aget (actors s3) c = None) by (unfold s3; rewrite new_actor_other by auto; exact PC).
      apply (opres_none _ _ _ (opres_ref_clone s3 a) AC3).
Qed.

(* ------------------------------------------------------------------ *)
(** * The kids table of the monitor *)

Definition kidin (m : s04) (p c : N) : Prop := exists l, In (p, l) (o_kids m) /\ In c l.
Definition kidof (t : list ev) (p c : N) : Prop := kidin (st04 t) p c.

Lemma in_nset {X} (L : list (N * X)) p v q l : In (q, l) (nset L p v) -> (q = p /\ l = v) \/ In (q, l) L.
Proof.
  induction L as [|[j y] r IH]; simpl.
  - intros [Q|[]]. inversion Q; auto.
  - destruct (N.eqb p j) eqn:E; simpl.
    + intros [Q|H]; [inversion Q; auto | auto].
    + intros [Q|H]; [auto | destruct (IH H); auto].
Qed.
Lemma nget_in {X} (L : list (N * X)) p v : nget L p = Some v -> In (p, v) L.
Proof.
  induction L as [|[j y] r IH]; simpl; [discriminate|]. destruct (N.eqb p j) eqn:E.
  - apply N.eqb_eq in E. subst. intros Q; inversion Q; auto.
  - auto.
Qed.

Definition newdrop (e : ev) : bool := match e with ENew _ | EDropBegin => true | _ => false end.

Lemma upd04_kids s0 e : o_kids (upd04 s0 e) =
  match e with
  | ENew _ | EDropBegin => live_kids s0
  | ESlabAdd p a => nset (o_kids s0) p (a :: lst_of (o_kids s0) p)
  | _ => o_kids s0
  end.
Proof. destruct e; cbn [upd04]; dmatch. Qed.

Lemma kidin_upd s0 e p c : kidin (upd04 s0 e) p c ->
  (kidin s0 p c /\ (newdrop e = true -> ~ In p (o_notified s0))) \/ e = ESlabAdd p c.
Proof.
  intros (l & IN & CL). rewrite upd04_kids in IN.
  assert (SAME : In (p, l) (o_kids s0) -> newdrop e = false ->
                 (kidin s0 p c /\ (newdrop e = true -> ~ In p (o_notified s0))) \/ e = ESlabAdd p c).
  { intros Q ND. left. split; [exists l; auto | rewrite ND; discriminate]. }
  assert (LIVE : In (p, l) (live_kids s0) -> (kidin s0 p c /\ (newdrop e = true -> ~ In p (o_notified s0))) \/ e = ESlabAdd p c).
  { intros Q. left. unfold live_kids in Q. apply filter_In in Q as [Q F]. cbn [fst] in F.
    split; [exists l; auto|]. intros _ NP. apply nmem_In in NP. rewrite NP in F. discriminate F. }
  destruct e; try (apply SAME; [exact IN | reflexivity]); try (apply LIVE; exact IN).
  (* ESlabAdd *)
  apply in_nset in IN as [[-> ->]|IN].
  + destruct CL as [<-|CL]; [right; reflexivity|]. left. split; [|discriminate].
    unfold lst_of in CL. destruct (nget (o_kids s0) p0) as [l0|] eqn:G; [|destruct CL]. exists l0. split; [apply nget_in; auto | exact CL].
  + left. split; [exists l; auto | discriminate].
Qed.

Lemma upd04_kids_neutral s0 e : pbB e = true -> o_kids (upd04 s0 e) = o_kids s0.
Proof. destruct e; try discriminate; intros _; cbn [upd04]; dmatch. Qed.

Lemma st04_kids_neutral evs t : forallb pbB evs = true -> o_kids (st04 (evs ++ t)) = o_kids (st04 t).
Proof.
  induction evs as [|e evs IH]; intros F; [reflexivity|]. simpl in F. apply andb_prop in F as [F1 F2].
  cbn [app st04]. rewrite upd04_kids_neutral by auto. auto.
Qed.

Lemma kidof_neutral evs t p c : forallb pbB evs = true -> (kidof (evs ++ t) p c <-> kidof t p c).
Proof. intros F. unfold kidof, kidin. rewrite (st04_kids_neutral _ _ F). tauto. Qed.

Lemma kidof_one evs2 e evs1 t p c : forallb pbB evs1 = true -> forallb pbB evs2 = true ->
  kidof (evs2 ++ e :: evs1 ++ t) p c ->
  (kidof t p c /\ (newdrop e = true -> ~ In p (o_notified (st04 t)))) \/ e = ESlabAdd p c.
Proof.
  intros F1 F2 K. apply (kidof_neutral evs2 (e :: evs1 ++ t) p c F2) in K. unfold kidof in K. cbn [st04] in K.
  destruct (kidin_upd _ _ _ _ K) as [[K0 ND]|Q]; [left | right; exact Q].
  split; [apply (kidof_neutral evs1 t p c F1); exact K0|]. intros NDE NP. apply (ND NDE). apply notified_mono. exact NP.
Qed.

Lemma kidof_slabadd t : forall p c, kidof t p c -> In (ESlabAdd p c) t.
Proof.
  induction t as [|e t IH]; intros p c K.
  - destruct K as (l & [] & _).
  - unfold kidof in K. cbn [st04] in K. destruct (kidin_upd _ _ _ _ K) as [[K0 _]|Q]; [right; apply IH; exact K0 | left; auto].
Qed.

(* ------------------------------------------------------------------ *)
(** * Notified or being notified *)

Definition PN (a : N) (k : list mop) (s : st) : Prop := In a (o_notified (st04 (tr s))) \/ pn a k.

Lemma PN_step a m k0 s pre s' : handle m s = (pre, s') -> PN a (m :: k0) s -> PN a (pre ++ k0) s'.
Proof.
  intros E [N|P].
  - left. eapply notified_ext; [eapply handle_ext; eauto | exact N].
  - destruct (qmop m) eqn:QM; [|exfalso; eapply pn_nq; eauto].
    pose proof (qmop_quiet_pre _ _ _ _ QM E) as QP.
    assert (D : (exists r mm, m = MRetInvoke r mm /\ nshape a r) \/ forall r mm, m = MRetInvoke r mm -> ~ nshape a r).
    { destruct m; try (right; intros ? ? Q; discriminate Q). destruct (nshape_dec a r) as [Y|NY]; [left; eauto|].
      right. intros r0 mm Q. inversion Q; subst. exact NY. }
    destruct D as [(r & mm & -> & NS)|D]; [|right; eapply pn_step; eauto].
    cbn [handle] in E. destruct r as [rid k]. destruct k as [caps b|p ci|p ci|p inner|p key inner]; try (destruct NS; fail).
    + simpl in NS. subst p. left. apply st04_notified. eexists. eapply ret_invoke_notifies; eauto.
    + simpl in NS. right. unfold ret_invoke in E. destruct mm as [mm|]; injp E.
      * eapply (pn_push a k0 _ inner (Some mm)); [exact QP | left; reflexivity | exact NS].
      * eapply (pn_push a k0 _ inner None); [exact QP | right; left; reflexivity | exact NS].
Qed.

Lemma post_PN c k s : post c k s -> PN c k s.
Proof. intros [N|(rid & inn & mm & IN)]; [left; exact N | right; exists (Ret rid (RKNotify c inn)), mm; split; [exact IN | reflexivity]]. Qed.

(* a Zombie is notified or being notified *)
Lemma zombie_PN k s a : I2 k s -> zombie s a -> PN a k s.
Proof.
  intros (_ & m2 & MM & JJ) (x & AX & SX). pose proof (o_ph _ _ _ JJ a x AX) as PH. rewrite SX in PH.
  destruct PH as [PH|PH]; [left | right; exact PH]. apply st04_notified. eapply mph3_notified; eauto.
Qed.

(* ------------------------------------------------------------------ *)
(** * Where the children are *)

Lemma inslab_occ s p c : In (SOcc c) (slab_of s p) -> exists key, occ s p key c.
Proof. intros H. apply In_nth_error in H as (n & H). exists (N.of_nat n). unfold occ. rewrite Nat2N.id. exact H. Qed.
Lemma occ_inslab s p key c : occ s p key c -> In (SOcc c) (slab_of s p).
Proof. unfold occ. apply nth_error_In. Qed.

Definition KP (k : list mop) (s : st) : Prop :=
  forall p c, kidof (tr s) p c -> In c (o_notified (st04 (tr s))) \/ In (SOcc c) (slab_of s p) \/ zombie s p.

Lemma KP_init d p : KP (map MTop p ++ [MEpilogue]) (init d).
Proof. intros q c (l & [] & _). Qed.

Lemma step_KP m k0 s pre s' :
  TI (m :: k0) s -> SU s -> SK s' -> SU s' -> handle m s = (pre, s') -> KP (m :: k0) s -> KP (pre ++ k0) s'.
Proof.
  intros TT U0 K' U' E KP0.
  assert (OMO : (exists ci, m = MRunItem ci /\ slabrm_ok ci s pre s') \/ omono s s').
  { destruct (handle_afr _ _ _ _ E) as [F|[(h & a & n & l & -> & SA)|(ci & -> & SR)]];
      [right; apply afr_omono; exact F | right; eapply slabadd_omono; exact SA | left; eauto]. }
  assert (OLD : forall p c, kidof (tr s) p c -> In c (o_notified (st04 (tr s'))) \/ In (SOcc c) (slab_of s' p) \/ zombie s' p).
  { intros p c KD. destruct (KP0 p c KD) as [P|[IS|Z]].
    - left. eapply notified_ext; [eapply handle_ext; eauto | exact P].
    - destruct (inslab_occ _ _ _ IS) as (key & O).
      destruct OMO as [(ci & -> & SR)|[_ OM]].
      + destruct (slabrm_mono _ _ _ _ SR) as (p1 & key1 & CK & _ & _ & _ & OM & NZ & _).
        destruct (OM _ _ _ O) as [[-> ->]|O']; [|right; left; eapply occ_inslab; eauto].
        left. destruct (TT p1 key1) as [Z|[Z|(_ & c' & O2 & PO)]]; [contradiction | |].
        * exfalso. unfold tK in Z. cbn [tmops tmop] in Z. rewrite (tci_rm _ _ _ CK) in Z.
          pose proof (tmops_nn (p1, key1) k0). pose proof (T_nn (p1, key1) s). lia.
        * rewrite (occ_fun _ _ _ _ _ O2 O) in PO. destruct PO as [N|(rid0 & inn0 & mm0 & IN)]; [|destruct IN].
          eapply notified_ext; [eapply handle_ext; eauto | exact N].
      + destruct (OM _ _ _ O) as [Z'|O']; [right; right; exact Z' | right; left; eapply occ_inslab; eauto].
    - right. right. destruct OMO as [(ci & -> & SR)|[ZM _]]; [|auto].
      destruct (slabrm_mono _ _ _ _ SR) as (p1 & key1 & _ & _ & _ & ZM & _). auto. }
  destruct (handle_evB _ _ _ _ E) as [(evs & TE & FE)|(e & PE & (s1 & (evs1 & T1 & F1) & (evs2 & T2 & F2)) & EV)].
  - intros p c KD. rewrite TE in KD. apply (kidof_neutral evs (tr s) p c FE) in KD. auto.
  - assert (TE : tr s' = evs2 ++ e :: evs1 ++ tr s) by (rewrite T2; unfold emit; cbn [tr set_tr]; rewrite T1; reflexivity).
    intros p c KD. rewrite TE in KD. destruct (kidof_one _ _ _ _ _ _ F1 F2 KD) as [[KD0 _]|EQE]; [auto|]. subst e.
    (* the new child is in the slab of its parent *)
    cbn [evok] in EV. destruct EV as (h & n & l & -> & AN). cbn [handle] in E.
    destruct (do_act (ASlabAdd h c n) s) as [p0 s0] eqn:DA. injp E.
    destruct (slabadd_spec _ _ _ _ _ _ DA) as [TB|SA].
    { exfalso. rewrite TB in TE. assert (IN : In (ESlabAdd p c) (EBad 22 :: tr s)) by (rewrite TE; apply in_or_app; right; left; reflexivity).
      destruct IN as [Q|IN]; [discriminate Q|].
      destruct (proj1 U0 _ _ IN) as (y & AY). congruence. }
    destruct SA as (p1 & px & sh & slab & nx & inner & slab' & nx' & key & rid & inn & _ & _ & _ & _ & _ & SI & _ & _ & (yp & AYP & SYP & _) & _).
    assert (O' : occ s' p1 key c) by (unfold occ, slab_of; rewrite AYP, SYP; simpl; eapply slab_insert_nth; eauto).
    pose proof (occ_inslab _ _ _ _ O') as IS. right. left.
    assert (EQ : p = p1).
    { apply (proj2 U' p p1 c); [rewrite TE; apply in_or_app; right; left; reflexivity | apply K'; exact IS]. }
    rewrite EQ. exact IS.
Qed.

(* ------------------------------------------------------------------ *)
(** * Owner counts of slab children *)

Lemma fresh_vis k s a : OI k s -> aget (actors s) a = None -> vis a (tr s) = 0.
Proof.
  intros OO AN. pose proof (OI_visible _ _ a OO) as V. pose proof (OI_census _ _ a OO) as C.
  assert (Z : ctr (HO a) s = 0) by (unfold ctr; rewrite AN; reflexivity). rewrite Z in *.
  pose proof (imops_le a k). pose proof (ist_le a s). pose proof (imops_nn a k). pose proof (ist_nn a s).
  pose proof (hmops_nn (HO a) k). pose proof (hst_nn (HO a) s). lia.
Qed.

Lemma islab_in c l : In (SOcc c) l -> 1 <= islab c l.
Proof.
  induction l as [|[x|n] l IH]; simpl; [intros [] | |].
  - intros [Q|H]; [inversion Q; subst; unfold ib; rewrite N.eqb_refl; pose proof (islab_nn c l); lia|].
    specialize (IH H). pose proof (ib_range c x). lia.
  - intros [Q|H]; [discriminate Q | auto].
Qed.

Lemma islab_pos a l : islab a l <> 0 -> In (SOcc a) l.
Proof.
  induction l as [|[x|n] l IH]; simpl; [congruence | |].
  - unfold ib. destruct (N.eqb a x) eqn:E; [apply N.eqb_eq in E; subst; auto | intros H; right; apply IH; lia].
  - intros H. right. apply IH. exact H.
Qed.

Lemma ist_inslab s p c : In (SOcc c) (slab_of s p) -> 1 <= ist c s.
Proof.
  unfold slab_of. destruct (aget (actors s) p) as [y|] eqn:AY; [|intros []]. intros IN.
  pose proof (iacts_aget_le c _ _ _ AY) as LE. unfold slab_st in IN. destruct (a_state y) eqn:SA; try (destruct IN; fail).
  cbn [istate] in LE. pose proof (islab_in _ _ IN). unfold ist.
  pose proof (iq_nn c (mainq s)). pose proof (iq_nn c (lazyq s)). pose proof (iq_nn c (idleq s)). pose proof (itim_nn c (timers s)). lia.
Qed.

Lemma inslab_ctr k s p c : OI k s -> vis c (tr s) = 0 -> In (SOcc c) (slab_of s p) -> 1 <= ctr (HO c) s.
Proof.
  intros OO V IN. pose proof (OI_visible _ _ c OO) as E. pose proof (ist_inslab _ _ _ IN). pose proof (imops_nn c k). lia.
Qed.

(* at a point where nothing is queued, an invisible owner in the state is a slab entry *)
Lemma ist_slab a s : KS s -> QTags s -> mainq s = [] -> lazyq s = [] -> 1 <= ist a s -> exists q, In (SOcc a) (slab_of s q).
Proof.
  intros KK QT MQ LQ POS. unfold ist in POS. rewrite MQ, LQ in POS. cbn [iq] in POS.
  assert (I1 : iq a (idleq s) = 0).
  { apply iq_zero. eapply Forall_impl; [|apply (qt_idle _ QT)]. intros c [C _]. apply plain_ici; auto. }
  assert (I2' : itim a (timers s) = 0).
  { rewrite <- iq_map_ti. apply iq_zero. eapply Forall_impl; [|apply (qt_timers _ QT)]. intros c [C _]. apply plain_ici; auto. }
  assert (I3 : forall l, (forall p y, In (p, y) l -> aget (actors s) p = Some y) -> 1 <= iacts a l -> exists q, In (SOcc a) (slab_of s q)).
  { induction l as [|[p y] l IH]; intros H P; simpl in P; [lia|].
    pose proof (H p y (or_introl eq_refl)) as AY.
    destruct (ks_act _ KK _ _ AY) as (_ & _ & _ & _ & HK).
    destruct (Z.eq_dec (istate a (a_state y)) 0) as [Z0|NZ].
    - apply IH; [intros; apply H; right; auto | lia].
    - exists p. unfold slab_of. rewrite AY. destruct (a_state y) eqn:SA; simpl in *.
      + exfalso. apply NZ. unfold held_of in HK. rewrite SA in HK. apply iq_zero. eapply Forall_impl; [|exact HK]. intros c. apply hok_ici.
      + apply islab_pos. exact NZ.
      + congruence. }
  rewrite I1, I2' in POS. apply (I3 (actors s)); [|lia]. intros p y IN. apply aget_in; auto. apply (ks_keys _ KK).
Qed.

(* ------------------------------------------------------------------ *)
(** * The obligations of the slab children *)

Definition chkR2 (s : s04) (e : ev) : bool :=
  match e with
  | ERunRet _ => forallb (fun pk => negb (nmem (fst pk) (o_notified s)) || subset (snd pk) (o_notified s)) (o_kids s)
  | _ => true
  end.

Lemma chkR_split s e : chkR s e = chkR1 s e && chkR2 s e.
Proof. destruct e; reflexivity. Qed.

Lemma chkR2_pb s e : pbB e = true -> chkR2 s e = true.
Proof. destruct e; try reflexivity. discriminate. Qed.

Lemma okx_one2 evs2 e evs1 t : forallb pbB evs1 = true -> forallb pbB evs2 = true ->
  okx chkR2 (evs2 ++ e :: evs1 ++ t) = chkR2 (st04 (evs1 ++ t)) e && okx chkR2 t.
Proof.
  intros F1 F2. rewrite okx_app by (intros x m IN; apply chkR2_pb; rewrite forallb_forall in F2; auto).
  cbn [okx]. f_equal. apply okx_app. intros x m IN. apply chkR2_pb. rewrite forallb_forall in F1. auto.
Qed.

(* the deferred terminate may have been discarded: the parent is notified, the Stakker is being / has been dropped *)
Definition ESC (p : N) (k : list mop) (s : st) : Prop :=
  In p (o_notified (st04 (tr s))) /\ (teardown k \/ alive s = false).

Definition K2 (k : list mop) (s : st) : Prop :=
  forall p c, kidof (tr s) p c ->
    vis c (tr s) = 0 /\ (exists y, aget (actors s) c = Some y) /\ (Ob c k s \/ ESC p k s).

Lemma K2_init d p : K2 (map MTop p ++ [MEpilogue]) (init d).
Proof. intros q c (l & [] & _). Qed.

Lemma ESC_step p m k0 s pre s' :
  shape (m :: k0) -> handle m s = (pre, s') -> (forall t, m <> MNew t) -> ESC p (m :: k0) s -> ESC p (pre ++ k0) s'.
Proof.
  intros SH E NN [N TA]. split; [eapply notified_ext; [eapply handle_ext; eauto | exact N]|].
  assert (DE : m = MDropEnd -> alive s' = false).
  { intros ->. cbn [handle] in E. injp E. reflexivity. }
  destruct TA as [TD|AL].
  - destruct (teardown_dec (pre ++ k0)) as [T'|NT']; [left; exact T'|]. right. apply DE. eapply teardown_leave; eauto.
  - right. destruct (alive_op m) eqn:AO; [|rewrite (handle_alive _ _ _ _ E AO); exact AL].
    destruct m; try discriminate AO; [exfalso; eapply NN; reflexivity | apply DE; reflexivity].
Qed.

Lemma shape_tops_drain i k0 : shape (MDrain i :: k0) -> tops k0 = true.
Proof. intros [p [PH _]]. unfold phase_of in PH. simpl in PH. destruct (tops k0); [reflexivity | discriminate]. Qed.
Lemma shape_tops_new t k0 : shape (MNew t :: k0) -> tops k0 = true.
Proof. intros [p [PH _]]. unfold phase_of in PH. simpl in PH. destruct (tops k0); [reflexivity | discriminate]. Qed.

(* what an obligation becomes when the main queue is discarded (teardown rounds, a new Stakker) *)
Lemma Ob_discard m k0 s pre s' p c :
  (exists i, m = MDrain i) \/ (exists t, m = MNew t) -> shape (m :: k0) ->
  KS s -> OI (m :: k0) s -> I2 (m :: k0) s -> KP (m :: k0) s -> handle m s = (pre, s') ->
  kidof (tr s) p c -> vis c (tr s) = 0 -> Ob c (m :: k0) s ->
  Ob c (pre ++ k0) s' \/ In p (o_notified (st04 (tr s))).
Proof.
  intros DM SH KK OO II KP0 E KD V0 OB.
  assert (QM : qmop m = false) by (destruct DM as [[i ->]|[t ->]]; reflexivity).
  assert (TP : tops k0 = true) by (destruct DM as [[i ->]|[t ->]]; [eapply shape_tops_drain | eapply shape_tops_new]; eauto).
  assert (SR : forall a y, aget (actors s) a = Some y -> srange (a_strong y)) by (intros a y A; exact (proj1 (ks_act _ KK a y A))).
  assert (CTR : 1 <= ctr (HO c) s -> Ob c (pre ++ k0) s').
  { intros C. right. right. right. right.
    assert (ND : forall a lg, m <> MDropOwn a lg) by (intros a lg Q; destruct DM as [[i ->]|[t ->]]; discriminate Q).
    destruct (handle_ceq _ _ _ _ SR ND E c) as [CE|(act & l & Q & _)]; [|destruct DM as [[i ->]|[t ->]]; discriminate Q].
    unfold ctr in *. destruct (aget (actors s) c) as [y|] eqn:AY; [|lia].
    destruct (CE y AY) as (y' & AY' & EQ). rewrite AY', EQ. exact C. }
  destruct OB as [N|[P|[T|[K|C]]]].
  - left. left. eapply notified_ext; [eapply handle_ext; eauto | exact N].
  - exfalso. eapply pn_nq; eauto.
  - exfalso. destruct T as (cc & IN). rewrite calmpre_nq in IN by auto. destruct IN.
  - destruct (KP0 p c KD) as [N|[IS|Z]].
    + left. left. eapply notified_ext; [eapply handle_ext; eauto | exact N].
    + left. apply CTR. eapply inslab_ctr; eauto.
    + right. destruct (zombie_PN _ _ _ II Z) as [N|P]; [exact N | exfalso; eapply pn_nq; eauto].
  - left. apply CTR. exact C.
Qed.

Theorem step_K2 m k0 s pre s' :
  shape (m :: k0) -> KS s -> QTags s -> SK s -> OI (m :: k0) s -> I2 (m :: k0) s ->
  Z.of_nat (length (tr s)) < CMAX - 1 ->
  KP (m :: k0) s -> RUNAL (m :: k0) s -> NZ s -> SU s ->
  OI (pre ++ k0) s' -> SU s' ->
  handle m s = (pre, s') -> K2 (m :: k0) s -> okx chkR2 (tr s) = true ->
  K2 (pre ++ k0) s' /\ okx chkR2 (tr s') = true.
Proof.
  intros SH KK QT K OO II LEN KP0 RA NZ0 U0 OO' U' E KK2 OK.
  pose proof (OI_prem _ _ _ KK OO LEN) as [SR HB LIM].
  pose proof (handle_ext _ _ _ _ E) as EX.
  (* an old child, when the step is not one that discards the main queue *)
  assert (KEEP : forall p c, kidof (tr s) p c -> (forall i, m <> MDrain i) -> (forall t, m <> MNew t) ->
                 (exists y, aget (actors s') c = Some y) /\ (Ob c (pre ++ k0) s' \/ ESC p (pre ++ k0) s')).
  { intros p c KD ND NN. destruct (KK2 p c KD) as (V0 & (y & AY) & OE). split; [eapply handle_tab; eauto|].
    destruct OE as [OB|ES]; [left | right; eapply ESC_step; eauto].
    eapply Ob_step; eauto. intros ->. eapply novis_dropown; eauto. }
  destruct (handle_evB _ _ _ _ E) as [(evs & TE & FE)|(e & PE & (s1 & (evs1 & T1 & F1) & (evs2 & T2 & F2)) & EV)].
  - (* no event that moves the table *)
    destruct (st04_neutral evs (tr s) FE) as (_ & _ & _ & VI). rewrite <- TE in VI.
    assert (NN : forall t, m <> MNew t).
    { intros t ->. cbn [handle] in E. injp E. unfold fresh_stakker, emit in TE. cbn [tr set_tr set_mainq set_alive set_now set_start set_tvars set_recreate set_logseq set_logfilter set_haslogger set_shut] in TE.
      assert (IN : In (ENew t) evs) by (apply (app_tail_in evs [] (ENew t) (tr s)); symmetry; exact TE). exact (neutral_not evs (ENew t) FE eq_refl IN). }
    split.
    + intros p c KD. rewrite TE in KD. apply (kidof_neutral evs (tr s) p c FE) in KD.
      destruct (KK2 p c KD) as (V0 & (y & AY) & OE). rewrite VI. split; [exact V0|]. split; [eapply handle_tab; eauto|].
      assert (DD : (exists i, m = MDrain i) \/ forall i, m <> MDrain i).
      { destruct m; try (right; intros i0 Q; discriminate Q). left; eauto. }
      destruct DD as [[i ->]|ND]; [|exact (proj2 (KEEP p c KD ND NN))].
      destruct OE as [OB|ES]; [|right; eapply ESC_step; eauto].
      destruct (Ob_discard _ _ _ _ _ p c (or_introl (ex_intro _ i eq_refl)) SH KK OO II KP0 E KD V0 OB) as [OB'|NP]; [left; exact OB'|].
      right. eapply ESC_step; eauto. split; [exact NP | left; apply shape_drain; exact SH].
    + rewrite (okx_evs_in chkR2 pbB s s' chkR2_pb); [exact OK | exists evs; auto].
  - (* one event that moves it *)
    assert (TE : tr s' = evs2 ++ e :: evs1 ++ tr s) by (rewrite T2; unfold emit; cbn [tr set_tr]; rewrite T1; reflexivity).
    destruct (st04_one evs2 e evs1 (tr s) F1 F2) as (_ & _ & _ & _ & _ & _ & _ & VI). rewrite <- TE in VI.
    assert (OKX : okx chkR2 (tr s') = chkR2 (st04 (evs1 ++ tr s)) e) by (rewrite TE, (okx_one2 evs2 e evs1 (tr s) F1 F2), OK, andb_true_r; reflexivity).
    rewrite OKX. clear OKX.
    assert (KDS : forall p c, kidof (tr s') p c -> (kidof (tr s) p c /\ (newdrop e = true -> ~ In p (o_notified (st04 (tr s))))) \/ e = ESlabAdd p c).
    { intros p c KD. rewrite TE in KD. exact (kidof_one _ _ _ _ _ _ F1 F2 KD). }
    destruct e; try discriminate PE; cbn [evok] in EV.
    + (* ENew: the surviving entries have a parent that is not notified *)
      subst m. split; [|reflexivity]. intros p c KD. destruct (KDS p c KD) as [[KD0 NP]|Q]; [|discriminate Q].
      specialize (NP eq_refl). destruct (KK2 p c KD0) as (V0 & (y & AY) & OE).
      rewrite VI. cbn [vis1]. split; [lia|]. split; [eapply handle_tab; eauto|].
      destruct OE as [OB|[N _]]; [|contradiction].
      destruct (Ob_discard _ _ _ _ _ p c (or_intror (ex_intro _ t eq_refl)) SH KK OO II KP0 E KD0 V0 OB) as [OB'|N]; [left; exact OB' | contradiction].
    + (* ERunRet: the children of notified parents are notified *)
      destruct EV as (t & -> & MQ & LQ). destruct (shape_loop _ _ SH) as [TP NT].
      split.
      * intros p c KD. destruct (KDS p c KD) as [[KD0 _]|Q]; [|discriminate Q].
        destruct (KK2 p c KD0) as (V0 & _ & _). rewrite VI. cbn [vis1]. split; [lia|].
        apply KEEP; auto; intros ? Q; discriminate Q.
      * cbn [chkR2]. apply forallb_forall. intros [p l] IN. cbn [fst snd].
        destruct (nmem p (o_notified (st04 (evs1 ++ tr s)))) eqn:NP; [|reflexivity]. cbn [negb orb].
        apply subset_In. intros c CL.
        assert (KD1 : kidof (evs1 ++ tr s) p c) by (exists l; auto).
        apply (kidof_neutral evs1 (tr s) p c F1) in KD1.
        apply notified_mono.
        destruct (KK2 p c KD1) as (V0 & (y & AY) & OE).
        assert (AL : alive s = true).
        { apply RA. unfold runphase, phase_of. simpl. rewrite TP. reflexivity. }
        destruct OE as [OB|[_ [TD|AF]]]; [|contradiction | congruence].
        destruct OB as [N|[P|[T|[KT|C]]]]; [exact N | exfalso; eapply (pn_nq c (MLoop t)); eauto; reflexivity | | |].
        -- exfalso. destruct T as (cc & INC). rewrite calmpre_nq in INC by reflexivity. destruct INC.
        -- exfalso. destruct KT as [(ci & INC & _)|(ci & INC & _)]; [|rewrite MQ in INC; destruct INC].
           destruct INC as [Q|INC]; [discriminate Q | eapply tops_norun; eauto].
        -- exfalso. pose proof (OI_visible _ _ c OO) as VV. rewrite V0 in VV. cbn [imops imop] in VV.
           rewrite (tops_imops c _ TP) in VV.
           destruct (ist_slab c s KK QT MQ LQ ltac:(lia)) as (q & IS).
           pose proof (K _ _ IS) as EQ. pose proof (kidof_slabadd _ _ _ KD1) as EP.
           rewrite (proj2 U0 _ _ _ EP EQ) in *.
           (* the parent is notified, hence a Zombie, hence its slab is empty *)
           apply nmem_In in NP. apply st04_notified in NP as (cc & NP).
           assert (NPS : In q (o_notified (st04 (tr s)))).
           { apply st04_notified. apply in_app_or in NP as [NP|NP]; [|eauto].
             exfalso. cbn [handle] in E. rewrite MQ, LQ in E. injp E.
             (* the step emitted nothing before its runret event *)
             assert (TS : exists b', evs2 ++ ERunRet b :: evs1 ++ tr s = ERunRet b' :: tr s).
             { rewrite <- TE. destruct (t >? recreate s); eexists; reflexivity. }
             destruct TS as (b' & TS).
             assert (Q : (evs2 ++ ERunRet b :: evs1) ++ tr s = [ERunRet b'] ++ tr s) by (rewrite <- app_assoc; exact TS).
             apply app_inv_tail in Q. destruct evs2 as [|e2 evs2]; simpl in Q.
             - inversion Q; subst. destruct NP.
             - inversion Q as [[Q1 Q2]]. destruct evs2; discriminate Q2. }
           destruct (inslab_occ _ _ _ IS) as (key & O). exact (occ_not_zombie _ _ _ _ O (NZ0 _ NPS)).
    + (* EDropBegin *)
      subst m. split; [|reflexivity]. intros p c KD. destruct (KDS p c KD) as [[KD0 _]|Q]; [|discriminate Q].
      destruct (KK2 p c KD0) as (V0 & _ & _). rewrite VI. cbn [vis1]. split; [lia|].
      apply KEEP; auto; intros ? Q; discriminate Q.
    + (* EOwnNew *)
      split; [|reflexivity]. intros p c KD. destruct (KDS p c KD) as [[KD0 _]|Q]; [|discriminate Q].
      destruct (KK2 p c KD0) as (V0 & (y & AY) & _).
      assert (NE : c <> a).
      { intros ->. destruct EV as (l & [(h & n & _ & AN)|(h & h2 & _ & L)]); [congruence | exact (novis_lookup _ _ _ _ OO V0 L)]. }
      rewrite VI. cbn [vis1]. unfold vb. replace (N.eqb c a) with false by (symmetry; apply N.eqb_neq; exact NE). split; [lia|].
      apply KEEP; auto; intros ? ->; destruct EV as (l & [(h & n & Q & _)|(h & h2 & Q & _)]); discriminate Q.
    + (* EOwnDrop *)
      subst m. split; [|reflexivity]. intros p c KD. destruct (KDS p c KD) as [[KD0 _]|Q]; [|discriminate Q].
      destruct (KK2 p c KD0) as (V0 & (y & AY) & _).
      assert (NE : c <> a) by (intros ->; eapply novis_dropown; eauto).
      rewrite VI. cbn [vis1]. unfold vb. replace (N.eqb c a) with false by (symmetry; apply N.eqb_neq; exact NE). split; [lia|].
      apply KEEP; auto; intros ? Q; discriminate Q.
    + (* ESlabAdd *)
      destruct EV as (h & n & l & -> & AN). split; [|reflexivity]. intros q c KD.
      destruct (KDS q c KD) as [[KD0 _]|Q].
      * destruct (KK2 q c KD0) as (V0 & (y & AY) & _). rewrite VI. cbn [vis1]. split; [lia|].
        apply KEEP; auto; intros ? Q; discriminate Q.
      * inversion Q; subst q c. clear Q.
        assert (VA : vis a (tr s') = 0) by (rewrite VI; cbn [vis1]; rewrite (fresh_vis _ _ _ OO AN); lia).
        split; [exact VA|].
        assert (INE : In (ESlabAdd p a) (tr s')) by (rewrite TE; apply in_or_app; right; left; reflexivity).
        split; [exact (proj1 U' _ _ INE)|]. left. right. right. right. right.
        cbn [handle] in E. destruct (do_act (ASlabAdd h a n) s) as [p0 s0] eqn:DA. injp E.
        destruct (slabadd_spec _ _ _ _ _ _ DA) as [TB|SA].
        { exfalso. rewrite TB in INE. destruct INE as [Q|IN]; [discriminate Q|]. destruct (proj1 U0 _ _ IN) as (y & AY). congruence. }
        destruct SA as (p1 & px & sh & slab & nx & inner & slab' & nx' & key & rid & inn & _ & _ & _ & _ & _ & SI & _ & _ & (yp & AYP & SYP & _) & _).
        assert (O' : occ s' p1 key a) by (unfold occ, slab_of; rewrite AYP, SYP; simpl; eapply slab_insert_nth; eauto).
        eapply inslab_ctr; [exact OO' | exact VA | eapply occ_inslab; exact O'].
Qed.

Print Assumptions step_K2.

(* ------------------------------------------------------------------ *)
(** * The theorem *)

Definition INV2 (k : list mop) (s : st) : Prop :=
  INV k s /\ EAI s /\ WA k s /\ TI k s /\ RUNAL k s /\ NZ s /\ SU s /\ KP k s /\ K2 k s /\ okx chkR2 (tr s) = true.

Lemma INV2_init p : INV2 (map MTop p ++ [MEpilogue]) (init DGlobal).
Proof.
  split; [apply INV_init|]. split; [apply EAI_init|]. destruct (WT_init DGlobal p) as [W T]. split; [exact W|]. split; [exact T|].
  split; [apply RUNAL_init|]. split; [apply NZ_init|]. split; [apply SU_init|]. split; [apply KP_init|]. split; [apply K2_init | reflexivity].
Qed.

Theorem step_INV2 k s k' s' :
  Z.of_nat (length (tr s)) < CMAX - 1 -> INV2 k s -> step k s = Some (k', s') -> INV2 k' s'.
Proof.
  intros LEN (IV & EA & WW & TT & RA & NZ0 & U0 & KP0 & KK2 & OK) ST.
  pose proof (step_INV _ _ _ _ LEN IV ST) as IV'.
  pose proof (step_EAI _ _ _ _ EA ST) as EA'.
  pose proof IV as (((SH & T & W & KK & LN & II & OO & F & MM & OKN) & K & BB & OKR) & _).
  pose proof IV' as (((_ & _ & _ & _ & _ & _ & OO' & _) & K' & _) & _).
  pose proof T as T0. apply Tags_split in T0 as [QT _].
  assert (D : dk s = DGlobal) by (destruct II; auto).
  destruct k as [|m k0]; [discriminate|]. simpl in ST. destruct (handle m s) as [pre s1] eqn:E. inversion ST; subst.
  destruct (step_WT _ _ _ _ _ KK LN EA D WW TT E) as [WW' TT'].
  pose proof (step_RUNAL _ _ _ _ _ SH E RA) as RA'.
  pose proof (step_NZ _ _ _ _ _ W QT KK E NZ0) as NZ'.
  pose proof (step_SU _ _ _ _ E U0) as U'.
  pose proof (step_KP _ _ _ _ _ TT U0 K' U' E KP0) as KP'.
  destruct (step_K2 _ _ _ _ _ SH (proj1 KK) QT K OO II LEN KP0 RA NZ0 U0 OO' U' E KK2 OK) as [KK2' OK'].
  repeat (split; [assumption|]). exact OK'.
Qed.

Lemma run_INV2 fuel : forall k s t,
  INV2 k s -> run fuel k s = Done t -> Z.of_nat (length t) < CMAX - 1 -> okx chkR2 (rev t) = true.
Proof.
  induction fuel as [|f IH]; intros k s t I H LEN; simpl in H.
  - destruct k; [|discriminate]. inversion H; subst. rewrite rev_involutive. apply I.
  - destruct (step k s) as [[k' s']|] eqn:ST.
    + eapply IH; [|exact H | exact LEN]. eapply step_INV2; [|exact I | exact ST].
      pose proof (run_len _ _ _ _ H) as L1. pose proof (ext_len _ _ (step_ext _ _ _ _ ST)). lia.
    + inversion H; subst. rewrite rev_involutive. apply I.
Qed.

(** Whenever run returns, the slab children of every notified parent (still listed by the monitor) are notified too:
    for every program and fuel, global / thread-local deferrer, below saturation. *)
Theorem C04_slab_children_terminate_proved : forall (p : list top) (fuel : nat) (t : list ev),
  exec DGlobal fuel p = Done t -> Z.of_nat (length t) < CMAX - 1 -> okx chkR2 (rev t) = true.
Proof. intros p fuel t H LEN. unfold exec in H. eapply run_INV2; [apply INV2_init | exact H | exact LEN]. Qed.

Lemma chkR_okx t : okx chkR t = okx chkR1 t && okx chkR2 t.
Proof.
  rewrite <- okx_and. induction t as [|e r IH]; [reflexivity|]. cbn [okx]. rewrite IH. f_equal. apply chkR_split.
Qed.

(* the whole check made when run returns *)
Theorem C04_runret_check_proved : forall (p : list top) (fuel : nat) (t : list ev),
  exec DGlobal fuel p = Done t -> Z.of_nat (length t) < CMAX - 1 -> okx chkR (rev t) = true.
Proof.
  intros p fuel t H LEN. rewrite chkR_okx, (C04_last_owner_terminates_proved p fuel t H LEN), (C04_slab_children_terminate_proved p fuel t H LEN). reflexivity.
Qed.

Print Assumptions C04_runret_check_proved.
