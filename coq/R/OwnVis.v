(** Layer R proofs: the HANDLE census, part 3: visible and invisible owners.

    The C04 monitor counts the owners it can see in the trace ([EOwnNew a] / [EOwnDrop a]: [HOwn] / [HAnon] values).
    The others are: occupied slab entries, queued kill! items and pending un-logged owner drops; they sit at the
    surface of the configuration only (queues, held queues, slabs, the continuation), never inside a value.
    [ist a s + imops a k] counts them.  The law of this file:
        imops a pre + V a s' = imop a m + V a s      where  V a s = ist a s + vcr a (tr s) - ctr (HO a) s
    ([vcr a t] = number of [EOwnNew a] minus number of [EOwnDrop a] in t): the stored count of a cell is the number of
    its invisible owners plus the owners visible in the trace. *)
From Coq Require Import ZArith NArith List Bool Lia.
From Stk Require Import Lib.U Gen.SrcCount Gen.SrcCore Gen.SrcLog R.Syntax R.Rt R.Shape R.Count R.Own R.OwnLaw.
Import ListNotations.
Local Open Scope Z_scope.

Arguments submit : simpl never.
Arguments push_main : simpl never.
Arguments timer_add : simpl never.
Arguments emit : simpl never.
Arguments upd_actor : simpl never.
Arguments ref_clone : simpl never.
Arguments new_actor : simpl never.
Arguments log_rec : simpl never.
Arguments tok_script : simpl never.
Arguments target_ev : simpl never.
Arguments push_frame : simpl never.

Definition ib (a c : N) : Z := if N.eqb a c then 1 else 0.

Definition ikind (a : N) (k : ckind) : Z := match k with KKill c _ => ib a c | _ => 0 end.
Definition ici (a : N) (c : citem) : Z := ikind a (ci_kind c).
Fixpoint iq (a : N) (l : list citem) : Z := match l with [] => 0 | c :: r => ici a c + iq a r end.
Fixpoint itim (a : N) (l : list titem) : Z := match l with [] => 0 | t :: r => ici a (ti_ci t) + itim a r end.
Fixpoint islab (a : N) (l : list sentry) : Z :=
  match l with [] => 0 | SOcc c :: r => ib a c + islab a r | SVac _ :: r => islab a r end.
Definition istate (a : N) (sa : astate) : Z :=
  match sa with SPrep held => iq a held | SReady _ slab _ => islab a slab | SZombie => 0 end.
Fixpoint iacts (a : N) (l : list (N * actor)) : Z :=
  match l with [] => 0 | p :: r => istate a (a_state (snd p)) + iacts a r end.
Definition ist (a : N) (s : st) : Z :=
  iq a (mainq s) + iq a (lazyq s) + iq a (idleq s) + itim a (timers s) + iacts a (actors s).
Definition imop (a : N) (m : mop) : Z :=
  match m with
  | MRunItem c | MDropItem c => ici a c
  | MDropOwn c false => ib a c
  | _ => 0
  end.
Fixpoint imops (a : N) (l : list mop) : Z := match l with [] => 0 | m :: r => imop a m + imops a r end.

Definition vc1 (a : N) (e : ev) : Z :=
  match e with EOwnNew c => ib a c | EOwnDrop c => - ib a c | _ => 0 end.
Fixpoint vcr (a : N) (t : list ev) : Z := match t with [] => 0 | e :: r => vc1 a e + vcr a r end.

Definition V (a : N) (s : st) : Z := ist a s + vcr a (tr s) - ctr (HO a) s.

(* ------------------------------------------------------------------ *)
(** * Lists *)

Lemma ib_range a c : 0 <= ib a c <= 1. Proof. unfold ib. destruct (N.eqb a c); lia. Qed.
Lemma ici_nn a c : 0 <= ici a c.
Proof. unfold ici, ikind. destruct (ci_kind c); try lia. apply ib_range. Qed.
Lemma iq_nn a l : 0 <= iq a l.
Proof. induction l as [|c l IH]; simpl; [lia|]. pose proof (ici_nn a c). lia. Qed.
Lemma itim_nn a l : 0 <= itim a l.
Proof. induction l as [|c l IH]; simpl; [lia|]. pose proof (ici_nn a (ti_ci c)). lia. Qed.
Lemma islab_nn a l : 0 <= islab a l.
Proof. induction l as [|[c|n] l IH]; simpl; try lia. pose proof (ib_range a c). lia. Qed.
Lemma istate_nn a sa : 0 <= istate a sa.
Proof. destruct sa; simpl; [apply iq_nn | apply islab_nn | lia]. Qed.
Lemma iacts_nn a l : 0 <= iacts a l.
Proof. induction l as [|p l IH]; simpl; [lia|]. pose proof (istate_nn a (a_state (snd p))). lia. Qed.
Lemma ist_nn a s : 0 <= ist a s.
Proof.
  unfold ist. pose proof (iq_nn a (mainq s)). pose proof (iq_nn a (lazyq s)). pose proof (iq_nn a (idleq s)).
  pose proof (itim_nn a (timers s)). pose proof (iacts_nn a (actors s)). lia.
Qed.
Lemma imop_nn a m : 0 <= imop a m.
Proof. destruct m; simpl; try lia; try apply ici_nn. destruct logged; [lia | apply ib_range]. Qed.
Lemma imops_nn a l : 0 <= imops a l.
Proof. induction l as [|m l IH]; simpl; [lia|]. pose proof (imop_nn a m). lia. Qed.

Lemma iq_app a x y : iq a (x ++ y) = iq a x + iq a y. Proof. induction x; simpl; lia. Qed.
Lemma itim_app a x y : itim a (x ++ y) = itim a x + itim a y. Proof. induction x; simpl; lia. Qed.
Lemma imops_app a x y : imops a (x ++ y) = imops a x + imops a y. Proof. induction x; simpl; lia. Qed.
Lemma islab_app a x y : islab a (x ++ y) = islab a x + islab a y. Proof. induction x as [|[c|n] x IH]; simpl; lia. Qed.
Lemma vcr_app a x y : vcr a (x ++ y) = vcr a x + vcr a y. Proof. induction x; simpl; lia. Qed.

Lemma imops_drops a l : imops a (drops l) = 0.
Proof. unfold drops. induction l as [|p l IH]; simpl; lia. Qed.
Lemma imops_slab_drops a l : imops a (slab_drops l) = islab a l.
Proof. induction l as [|[c|n] l IH]; simpl; lia. Qed.
Lemma imops_runitems a l : imops a (map MRunItem l) = iq a l. Proof. induction l; simpl; lia. Qed.
Lemma imops_dropitems a l : imops a (map MDropItem l) = iq a l. Proof. induction l; simpl; lia. Qed.
Lemma iq_map_ti a l : iq a (map ti_ci l) = itim a l. Proof. induction l; simpl; lia. Qed.

Lemma iacts_aset_some a l p y z : aget l p = Some z ->
  iacts a (aset l p y) + istate a (a_state z) = iacts a l + istate a (a_state y).
Proof.
  induction l as [|[j u] l IH]; simpl; [discriminate|]. destruct (N.eqb p j) eqn:E.
  - intros F; inversion F; subst. simpl. lia.
  - intros F. specialize (IH F). simpl. lia.
Qed.
Lemma iacts_aset_none a l p y : aget l p = None -> iacts a (aset l p y) = iacts a l + istate a (a_state y).
Proof.
  induction l as [|[j u] l IH]; simpl; [intros _; lia|]. destruct (N.eqb p j); [discriminate|].
  intros F. specialize (IH F). simpl. lia.
Qed.
Lemma iacts_aget_le a l p z : aget l p = Some z -> istate a (a_state z) <= iacts a l.
Proof.
  induction l as [|[j u] l IH]; simpl; [discriminate|]. destruct (N.eqb p j) eqn:E.
  - intros F; inversion F; subst. pose proof (iacts_nn a l). lia.
  - intros F. specialize (IH F). pose proof (istate_nn a (a_state u)). lia.
Qed.

Lemma itim_insert a y l : itim a (ti_insert y l) = ici a (ti_ci y) + itim a l.
Proof. induction l as [|z l IH]; simpl; [lia|]. destruct (ti_le y z); simpl; lia. Qed.
Lemma itim_sort a l : itim a (ti_sort l) = itim a l.
Proof. unfold ti_sort. induction l as [|z l IH]; simpl; [lia|]. rewrite itim_insert. lia. Qed.
Lemma itim_filter a f l : itim a (filter f l) + itim a (filter (fun y => negb (f y)) l) = itim a l.
Proof. induction l as [|z l IH]; simpl; [lia|]. destruct (f z); simpl; lia. Qed.
Lemma itim_remove a l i t : ti_find l i = Some t -> itim a (ti_remove l i) + ici a (ti_ci t) = itim a l.
Proof.
  induction l as [|z l IH]; simpl; [discriminate|]. destruct (N.eqb (ti_tid z) i).
  - intros E; inversion E; subst. lia.
  - intros E. specialize (IH E). simpl. lia.
Qed.
Lemma itim_update a l i t f : ti_find l i = Some t -> ti_ci (f t) = ti_ci t -> itim a (ti_update l i f) = itim a l.
Proof.
  induction l as [|z l IH]; simpl; [discriminate|]. destruct (N.eqb (ti_tid z) i).
  - intros E F; inversion E; subst. simpl. rewrite F. lia.
  - intros E F. specialize (IH E F). simpl. lia.
Qed.

Lemma ck_setq c q : ci_kind (ci_setq c q) = ci_kind c. Proof. destruct c; reflexivity. Qed.
Lemma ck_unq c : ci_kind (ci_unq c) = ci_kind c. Proof. destruct c; reflexivity. Qed.
Lemma ici_setq a c q : ici a (ci_setq c q) = ici a c. Proof. destruct c; reflexivity. Qed.
Lemma ici_unq a c : ici a (ci_unq c) = ici a c. Proof. destruct c; reflexivity. Qed.
Lemma ici_as_call a p c arg : ici a (as_call p c arg) = 0. Proof. destruct c; reflexivity. Qed.
Lemma ikind_as_call a p c arg : ikind a (ci_kind (as_call p c arg)) = 0. Proof. destruct c; reflexivity. Qed.

Lemma islab_list_set_vac a l i n old : nth_error l i = Some old ->
  islab a (list_set l i (SVac n)) + islab a [old] = islab a l.
Proof.
  revert i. induction l as [|e l IH]; intros i; destruct i; simpl; try discriminate.
  - intros Q; inversion Q; subst. destruct old; simpl; lia.
  - intros Q. specialize (IH _ Q). destruct e; simpl in *; lia.
Qed.
Lemma islab_list_set_occ a l i c old : nth_error l i = Some old ->
  islab a (list_set l i (SOcc c)) + islab a [old] = islab a l + ib a c.
Proof.
  revert i. induction l as [|e l IH]; intros i; destruct i; simpl; try discriminate.
  - intros Q; inversion Q; subst. destruct old; simpl; lia.
  - intros Q. specialize (IH _ Q). destruct e; simpl in *; lia.
Qed.
Lemma islab_insert a l nx c l' nx' key : slab_insert l nx c = (l', nx', key) -> islab a l' = islab a l + ib a c.
Proof.
  unfold slab_insert. destruct (nth_error l (N.to_nat nx)) as [[c0|n]|] eqn:E; intros Q; inversion Q; subst.
  - rewrite islab_app. simpl. lia.
  - pose proof (islab_list_set_occ a _ _ c _ E) as G0. simpl in G0. lia.
  - rewrite islab_app. simpl. lia.
Qed.

(* ------------------------------------------------------------------ *)
(** * State operations *)

Lemma V_same a s s' :
  mainq s' = mainq s -> lazyq s' = lazyq s -> idleq s' = idleq s -> timers s' = timers s -> actors s' = actors s ->
  tr s' = tr s -> V a s' = V a s.
Proof. intros A B C D E F. unfold V, ist, ctr. rewrite A, B, C, D, E, F. reflexivity. Qed.

Lemma V_emit a s e : V a (emit s e) = V a s + vc1 a e.
Proof. unfold V, ist, ctr, emit. stsimp. simpl vcr. lia. Qed.

Lemma V_set_alive a s v : V a (set_alive s v) = V a s. Proof. reflexivity. Qed.
Lemma V_set_now a s v : V a (set_now s v) = V a s. Proof. reflexivity. Qed.
Lemma V_set_start a s v : V a (set_start s v) = V a s. Proof. reflexivity. Qed.
Lemma V_set_tnext a s v : V a (set_tnext s v) = V a s. Proof. reflexivity. Qed.
Lemma V_set_tvars a s v : V a (set_tvars s v) = V a s. Proof. reflexivity. Qed.
Lemma V_set_recreate a s v : V a (set_recreate s v) = V a s. Proof. reflexivity. Qed.
Lemma V_set_nuid a s v : V a (set_nuid s v) = V a s. Proof. reflexivity. Qed.
Lemma V_set_logseq a s v : V a (set_logseq s v) = V a s. Proof. reflexivity. Qed.
Lemma V_set_logfilter a s v : V a (set_logfilter s v) = V a s. Proof. reflexivity. Qed.
Lemma V_set_haslogger a s v : V a (set_haslogger s v) = V a s. Proof. reflexivity. Qed.
Lemma V_set_shut a s v : V a (set_shut s v) = V a s. Proof. reflexivity. Qed.
Lemma V_set_env a s v : V a (set_env s v) = V a s. Proof. reflexivity. Qed.
Lemma V_set_frames a s v : V a (set_frames s v) = V a s. Proof. reflexivity. Qed.
Lemma V_set_fwds a s v : V a (set_fwds s v) = V a s. Proof. reflexivity. Qed.
Lemma V_push_frame a s c loc : V a (push_frame s c loc) = V a s. Proof. reflexivity. Qed.

Lemma V_set_mainq a s v : V a (set_mainq s v) = V a s - iq a (mainq s) + iq a v.
Proof. unfold V, ist, ctr. stsimp. lia. Qed.
Lemma V_set_lazyq a s v : V a (set_lazyq s v) = V a s - iq a (lazyq s) + iq a v.
Proof. unfold V, ist, ctr. stsimp. lia. Qed.
Lemma V_set_idleq a s v : V a (set_idleq s v) = V a s - iq a (idleq s) + iq a v.
Proof. unfold V, ist, ctr. stsimp. lia. Qed.
Lemma V_set_timers a s v : V a (set_timers s v) = V a s - itim a (timers s) + itim a v.
Proof. unfold V, ist, ctr. stsimp. lia. Qed.

Lemma V_push_main a s ci : V a (push_main s ci) = V a s + ici a ci.
Proof. unfold push_main. rewrite V_set_mainq, iq_app. simpl. lia. Qed.

Lemma V_submit a s q ci : q <> QTimer -> V a (submit s q ci) = V a s + ici a ci.
Proof.
  intros NQ. unfold submit. destruct q; try congruence.
  - rewrite V_push_main, V_emit, ici_setq. simpl. lia.
  - rewrite V_set_lazyq, iq_app, V_emit. unfold emit. stsimp. simpl. rewrite ici_setq. lia.
  - rewrite V_set_idleq, iq_app, V_emit. unfold emit. stsimp. simpl. rewrite ici_setq. lia.
Qed.

Lemma V_timer_add a s k v t ci : V a (timer_add s k v t ci) = V a s + ici a ci.
Proof.
  unfold timer_add. rewrite V_set_tvars, V_set_tnext, V_set_timers, itim_app, !V_emit. unfold emit. stsimp. simpl.
  rewrite ici_setq. lia.
Qed.

Lemma V_upd_some a s p y z : aget (actors s) p = Some z ->
  V a (upd_actor s p y) = V a s - istate a (a_state z) + istate a (a_state y) + cact (HO a) p z - cact (HO a) p y.
Proof.
  intros E. unfold V. rewrite (ctr_upd_some (HO a) s p y z E). unfold ist, upd_actor. stsimp.
  pose proof (iacts_aset_some a _ _ y _ E). lia.
Qed.
Lemma V_upd_none a s p y : aget (actors s) p = None ->
  V a (upd_actor s p y) = V a s + istate a (a_state y) - cact (HO a) p y.
Proof.
  intros E. unfold V. rewrite (ctr_upd_none (HO a) s p y E). unfold ist, upd_actor. stsimp.
  pose proof (iacts_aset_none a _ _ y E). lia.
Qed.

Lemma V_log_rec a s x b c d : V a (log_rec s x b c d) = V a s.
Proof. unfold log_rec. destruct (allows s b && haslogger s); [rewrite V_emit; simpl; lia | reflexivity]. Qed.
Lemma V_target_ev a s ci : V a (target_ev s ci) = V a s.
Proof. unfold target_ev. destruct ci as [u i kd caps q]. destruct kd; auto; rewrite V_emit; simpl; lia. Qed.

Lemma V_ref_clone a s p : V a (ref_clone s p) = V a s.
Proof.
  unfold ref_clone. destruct (aget (actors s) p) as [y|] eqn:E.
  - destruct (a_freed y).
    + rewrite (V_upd_some a _ p _ y) by (unfold emit; stsimp; exact E). rewrite V_emit. simpl.
      unfold ib. destruct (N.eqb a p); lia.
    + rewrite (V_upd_some a _ p _ y) by exact E. simpl. destruct (N.eqb a p); lia.
  - rewrite V_emit. simpl. lia.
Qed.

Lemma take_V a s h o s' : take s h = (o, s') -> V a s' = V a s.
Proof.
  unfold take. destruct (frames s) as [|fr rest].
  - destruct (aget (env s) h); intros Q; inversion Q; reflexivity.
  - destruct (aget (f_loc fr) h); [intros Q; inversion Q; reflexivity|].
    destruct (aget (env s) h); intros Q; inversion Q; reflexivity.
Qed.
Lemma take_caps_V a ids : forall s l s', take_caps ids s = (l, s') -> V a s' = V a s.
Proof.
  induction ids as [|h r IH]; simpl; intros s l s' E.
  - inversion E; reflexivity.
  - destruct (take s h) as [[v|] s1] eqn:T.
    + destruct (take_caps r s1) as [l2 s2] eqn:T2. inversion E; subst. rewrite (IH _ _ _ T2). eapply take_V; eauto.
    + rewrite (IH _ _ _ E). eapply take_V; eauto.
Qed.
Lemma take_env_caps_V a ids : forall s l s', take_env_caps ids s = (l, s') -> V a s' = V a s.
Proof.
  induction ids as [|h r IH]; simpl; intros s l s' E.
  - inversion E; reflexivity.
  - destruct (aget (env s) h).
    + destruct (take_env_caps r (set_env s (adel (env s) h))) as [l2 s2] eqn:T2. inversion E; subst. rewrite (IH _ _ _ T2). reflexivity.
    + eapply IH; eauto.
Qed.
Lemma bind_V a s h v l s' : bind s h v = (l, s') -> V a s' = V a s /\ imops a l = 0.
Proof. unfold bind. destruct (aget (env s) h) as [old|]; intros Q; inversion Q; split; reflexivity. Qed.
Lemma bad_V a s c l s' : bad s c = (l, s') -> V a s' = V a s /\ imops a l = 0.
Proof. unfold bad. intros Q; inversion Q; subst. rewrite V_emit. simpl. split; [lia | reflexivity]. Qed.

Lemma inst_V a c mk s ci s' : inst c mk s = (ci, s') -> V a s' = V a s /\ ci_kind ci = mk (clo_body c).
Proof.
  unfold inst. destruct (take_caps (clo_caps c) s) as [caps s1] eqn:T. intros Q; inversion Q; subst.
  rewrite V_emit, V_set_nuid, (take_caps_V a _ _ _ _ T). simpl. split; [lia | reflexivity].
Qed.
Lemma inst_call_V a c mk s ci s' : inst_call c mk s = (ci, s') -> V a s' = V a s /\ ci_kind ci = mk (clo_body c).
Proof.
  unfold inst_call. destruct (inst c mk s) as [ci1 s1] eqn:I. intros Q; inversion Q; subst.
  rewrite V_target_ev. eapply inst_V; eauto.
Qed.
Lemma inst_nocaps_V a c mk s ci s' : inst_nocaps c mk s = (ci, s') -> V a s' = V a s /\ ci_kind ci = mk (clo_body c).
Proof. unfold inst_nocaps. intros Q; inversion Q; subst. rewrite V_emit, V_set_nuid. simpl. split; [lia | reflexivity]. Qed.
Lemma inst_env_V a c mk s ci s' : inst_env c mk s = (ci, s') -> V a s' = V a s /\ ci_kind ci = mk (clo_body c).
Proof.
  unfold inst_env. destruct (take_env_caps (clo_caps c) s) as [caps s1] eqn:T. intros Q; inversion Q; subst.
  rewrite V_emit, V_set_nuid, (take_env_caps_V a _ _ _ _ T). simpl. split; [lia | reflexivity].
Qed.

Lemma V_tok_script a script : forall s, V a (tok_script s script) = V a s.
Proof.
  unfold tok_script. induction script as [|c r IH]; intros s; [reflexivity|]. cbn [fold_left].
  destruct (inst_env c KPlain s) as [ci s1] eqn:I. rewrite IH, V_submit by discriminate.
  destruct (inst_env_V a _ _ _ _ _ I) as [A B]. unfold ici. rewrite B. simpl. lia.
Qed.

Lemma mk_notifier_V a s p n nt s' : mk_notifier s p n = (nt, s') -> V a s' = V a s.
Proof.
  unfold mk_notifier. destruct n as [[hp c]|].
  - destruct (lookup s hp) as [v|].
    + destruct (handle_actor v) as [q|].
      * destruct (inst_call c (fun b0 => KMeth q b0 None) (ref_clone s q)) as [ci s2] eqn:I.
        intros Q; inversion Q; subst. destruct (inst_call_V a _ _ _ _ _ I) as [A _]. rewrite A. apply V_ref_clone.
      * intros Q; inversion Q; subst. rewrite V_emit. simpl. lia.
    + intros Q; inversion Q; subst. rewrite V_emit. simpl. lia.
  - intros Q; inversion Q; subst. reflexivity.
Qed.

Lemma V_new_actor a s p nt parent vis : aget (actors s) p = None ->
  V a (new_actor s p nt parent vis) = V a s - (if vis then 0 else ib a p).
Proof.
  intros E. unfold new_actor.
  set (id := oz (log_id_next (logseq s))).
  set (s2 := log_rec (set_logseq s id) id LOGLEVEL_OPEN parent 0).
  assert (A2 : aget (actors s2) p = None) by (unfold s2; rewrite log_rec_actors; exact E).
  assert (V2 : V a s2 = V a s) by (unfold s2; rewrite V_log_rec; reflexivity).
  destruct cnt_new as [_ CN].
  assert (VA : V a (emit (upd_actor s2 p (mkActor (SPrep []) (oz (count_inc (oz count_new))) MINRC_INIT (Some nt) id false)) (EActor p)) = V a s - ib a p).
  { rewrite V_emit, (V_upd_none a s2 p _ A2), V2. cbn [cact istate a_state a_strong iq vc1]. rewrite CN. unfold ib. destruct (N.eqb a p); lia. }
  destruct vis.
  - rewrite V_emit, VA. simpl. lia.
  - exact VA.
Qed.

Lemma state_drops_i a p sa s l s' : state_drops p sa s = (l, s') -> s' = s /\ imops a l = istate a sa.
Proof.
  unfold state_drops. destruct sa; intros Q; inversion Q; subst; split; auto; simpl.
  - apply imops_dropitems.
  - rewrite imops_app, imops_drops, imops_slab_drops. lia.
Qed.

Lemma V_fire a t s l s' : fire t s = (l, s') -> iq a l + V a s' = V a s.
Proof.
  unfold fire. intros Q; inversion Q; subst. rewrite iq_map_ti, itim_sort, V_set_timers.
  pose proof (itim_filter a (ti_due t) (timers s)).
  destruct (ambiguous _); [rewrite V_emit; unfold emit; stsimp; simpl|]; lia.
Qed.

Global Opaque V.

(* ------------------------------------------------------------------ *)
(** * The law *)

Definition lawV (a : N) (w : Z) (s : st) (pre : list mop) (s' : st) : Prop := imops a pre + V a s' = w + V a s.

Ltac vsimp :=
  cbn [imops imop ikind istate iq islab itim vc1 cact a_strong a_rc a_state a_notify with_strong with_rc with_state
       with_notify snd fst ti_ci ci_kind] in *;
  unfold ici in *; cbn [ikind ci_kind] in *.

Ltac ibs := unfold ib in *; eqb_split.

Ltac vpose a :=
  repeat match goal with
  | E : take _ _ = (_, _) |- _ => pp (take_V a _ _ _ _ E); revert E
  | E : take_caps _ _ = (_, _) |- _ => pp (take_caps_V a _ _ _ _ E); revert E
  | E : bind _ _ _ = (_, _) |- _ => let A := fresh "BV" in let B := fresh "BI" in destruct (bind_V a _ _ _ _ _ E) as [A B]; revert E
  | E : bad _ _ = (_, _) |- _ => let A := fresh "BV" in let B := fresh "BI" in destruct (bad_V a _ _ _ _ E) as [A B]; revert E
  | E : inst _ _ _ = (_, _) |- _ => let A := fresh "IV" in let B := fresh "IK" in destruct (inst_V a _ _ _ _ _ E) as [A B]; revert E
  | E : inst_call _ _ _ = (_, _) |- _ => let A := fresh "IV" in let B := fresh "IK" in destruct (inst_call_V a _ _ _ _ _ E) as [A B]; revert E
  | E : inst_nocaps _ _ _ = (_, _) |- _ => let A := fresh "IV" in let B := fresh "IK" in destruct (inst_nocaps_V a _ _ _ _ _ E) as [A B]; revert E
  | E : mk_notifier _ _ _ = (_, _) |- _ => pp (mk_notifier_V a _ _ _ _ _ E); revert E
  | E : var_timer _ _ _ = Some _ |- _ =>
      let i := fresh "i" in let F := fresh "F" in let E2 := fresh "E" in
      destruct (var_timer_find _ _ _ _ E) as (i & F & E2); cbn [ti_tid] in E2; subst i;
      pp (itim_remove a _ _ _ F); revert E
  end; intros.

Ltac Vrw :=
  repeat (progress (
    rewrite ?V_emit, ?V_push_main, ?V_timer_add, ?V_push_frame, ?V_ref_clone, ?V_log_rec, ?V_target_ev, ?V_tok_script,
            ?V_set_shut, ?V_set_nuid, ?V_set_tvars, ?V_set_tnext, ?V_set_logseq, ?V_set_logfilter, ?V_set_haslogger,
            ?V_set_recreate, ?V_set_now, ?V_set_start, ?V_set_alive, ?V_set_frames, ?V_set_env, ?V_set_fwds, ?V_set_timers in *;
    rewrite ?V_submit in * by discriminate));
  repeat match goal with
  | |- context [itim _ (ti_update _ _ _)] => erewrite itim_update by (first [ eassumption | reflexivity ])
  end.

Ltac vfin :=
  repeat (progress (
    try match goal with E : ci_kind ?c = _ |- _ => rewrite E in * end;
    unfold ici in *; vsimp;
    rewrite ?imops_app, ?imops_drops, ?imops_slab_drops, ?imops_runitems, ?imops_dropitems, ?ici_unq, ?ici_setq,
            ?ici_as_call, ?ikind_as_call, ?ck_setq, ?ck_unq, ?iq_app in *));
  unfold lawV in *; try lia;
  try (repeat match goal with E : context [ib _ _] |- _ => revert E end; ibs; intros; lia).

Ltac vlaw a := intros; unfold lawV in *; vpose a; Vrw; vfin.

Lemma owned_V a s p y : aget (actors s) p = Some y -> srange (a_strong y) -> cnt (a_strong y) < CMAX ->
  V a (upd_actor s p (with_strong y (oz (count_inc (a_strong y))))) = V a s - ib a p.
Proof.
  intros E SR C. destruct (cnt_inc _ SR C) as [_ CI].
  rewrite (V_upd_some _ _ _ _ _ E). vsimp. rewrite CI. ibs; lia.
Qed.

Lemma do_act_V b act l s pre s' :
  PremO (MActs (act :: l)) s -> do_act act s = (pre, s') -> lawV b 0 s pre s'.
Proof.
  intros [SR HB LIM]. unfold do_act, lawV. destruct act.
  all: try solve [repeat dest_match; intros Q; try injp Q; vlaw b].
  - (* ANewActor *)
    destruct (has_core s); [|intros Q; try injp Q; vlaw b].
    destruct (aget (actors s) a) eqn:AA; [intros Q; try injp Q; vlaw b|].
    destruct (mk_notifier s a n) as [nt s1] eqn:MK. intros Q.
    destruct (mk_notifier_O b _ _ _ _ _ MK) as (_ & _ & MP).
    pose proof (mk_notifier_V b _ _ _ _ _ MK) as MV.
    pose proof (V_new_actor b s1 a nt (ctx_logid s) true (opres_none _ _ _ MP AA)) as NV.
    destruct (bind_V b _ _ _ _ _ Q) as [BV BI]. cbn [ib] in NV. lia.
  - (* AKillAsync *)
    destruct (lookup s h) as [[p|p|p|r|f|t sc]|] eqn:LK; try solve [intros Q; try injp Q; vlaw b].
    destruct (aget (actors s) p) as [y|] eqn:AY; [|intros Q; try injp Q; vlaw b].
    intros Q; injp Q.
    assert (C : cnt (a_strong y) < CMAX). { pose proof (LIM p) as L. unfold ctr in L. rewrite AY in L. lia. }
    Vrw. rewrite (owned_V b s p y AY (SR _ _ AY) C). vfin.
  - (* AOwned *)
    destruct (lookup s h) as [[p|p|p|r|f|t sc]|] eqn:LK; try solve [intros Q; try injp Q; vlaw b].
    destruct (aget (actors s) p) as [y|] eqn:AY; [|intros Q; try injp Q; vlaw b].
    intros Q.
    assert (C : cnt (a_strong y) < CMAX). { pose proof (LIM p) as L. unfold ctr in L. rewrite AY in L. lia. }
    destruct (bind_V b _ _ _ _ _ Q) as [BV BI]. revert BV. Vrw. rewrite (owned_V b s p y AY (SR _ _ AY) C). vfin.
  - (* AStore *)
    destruct (cur_ctx s) as [|p pr|]; try solve [intros Q; try injp Q; vlaw b]. destruct pr; try solve [intros Q; try injp Q; vlaw b].
    destruct (aget (actors s) p) as [y|] eqn:AY; [|intros Q; try injp Q; vlaw b].
    destruct (a_state y) eqn:SA; try solve [intros Q; try injp Q; vlaw b].
    destruct (take s h) as [[v|] s1] eqn:T; intros Q; injp Q; [|vlaw b].
    destruct (take_same _ _ _ _ T) as (TA & _ & _).
    assert (AY1 : aget (actors s1) p = Some y) by (rewrite TA; exact AY).
    pose proof (take_V b _ _ _ _ T) as TV.
    rewrite (V_upd_some _ _ _ _ _ AY1), SA. vsimp. ibs; lia.
  - (* ASlabAdd *)
    destruct (cur_ctx s) as [|p pr|] eqn:CC; try solve [intros Q; try injp Q; vlaw b]. destruct pr; try solve [intros Q; try injp Q; vlaw b].
    destruct (alive s); try solve [intros Q; try injp Q; vlaw b].
    destruct (aget (actors s) p) as [px|] eqn:AP; try solve [intros Q; try injp Q; vlaw b].
    destruct (aget (actors s) a) eqn:AA; try solve [intros Q; try injp Q; vlaw b].
    destruct (a_state px) eqn:SP; try solve [intros Q; try injp Q; vlaw b].
    destruct (mk_notifier s a n) as [inner s1] eqn:MK.
    destruct (slab_insert slab snext a) as [[slab' nx'] key] eqn:SI.
    intros Q.
    destruct (mk_notifier_O b _ _ _ _ _ MK) as (_ & _ & MP).
    pose proof (mk_notifier_V b _ _ _ _ _ MK) as MV.
    pose proof (opres_trans _ _ _ MP (opres_ref_clone s1 p)) as P2.
    pose proof (V_new_actor b (ref_clone s1 p) a (Ret a (RKSlab p key inner)) (a_logid px) false (opres_none _ _ _ P2 AA)) as NV.
    set (s3 := new_actor (ref_clone s1 p) a (Ret a (RKSlab p key inner)) (a_logid px) false) in *.
    assert (NE : a <> p) by (intros ->; congruence).
    destruct (opres_some _ _ _ _ P2 AP) as (y2 & A2 & V2).
    assert (A3 : aget (actors s3) p = Some y2) by (unfold s3; rewrite new_actor_other by auto; exact A2).
    destruct (opres_some _ _ _ _ (opres_ref_clone s3 a) A3) as (y4 & A4 & V4).
    rewrite A4 in Q.
    destruct (bind_V b _ _ _ _ _ Q) as [BV BI]. revert BV.
    rewrite V_emit, (V_upd_some _ _ _ _ _ A4), V_ref_clone, NV, V_ref_clone, MV.
    destruct V2 as (S2 & T2 & N2 & _), V4 as (S4 & T4 & N4 & _).
    assert (ST4 : a_state y4 = SReady sh slab snext) by congruence.
    rewrite ST4. pose proof (islab_insert b _ _ _ _ _ _ SI) as IS. vsimp. rewrite IS. ibs; lia.
Qed.

Lemma drop_own_V a p lg s pre s' :
  (forall c y, aget (actors s) c = Some y -> srange (a_strong y)) -> 0 < ctr (HO p) s < CMAX ->
  drop_own p lg s = (pre, s') -> lawV a (if lg then 0 else ib a p) s pre s'.
Proof.
  intros SR C. unfold drop_own, lawV.
  set (s0 := if lg then emit s (EOwnDrop p) else s).
  assert (A0 : actors s0 = actors s) by (unfold s0; destruct lg; reflexivity).
  assert (V0 : V a s0 = V a s - (if lg then ib a p else 0)) by (unfold s0; destruct lg; [rewrite V_emit; simpl; lia | lia]).
  destruct (ctr_pos_in s p ltac:(lia)) as (y & AY & CY). rewrite A0, AY.
  assert (AY0 : aget (actors s0) p = Some y) by (rewrite A0; exact AY).
  destruct (count_dec (a_strong y)) as [[v z]|] eqn:CD.
  - destruct (cnt_dec _ _ _ (SR _ _ AY) ltac:(lia) CD) as (SV & CV & ZZ).
    destruct z; intros Q; injp Q.
    + rewrite V_push_main, V_ref_clone, (V_upd_some _ _ _ _ _ AY0), V0. vsimp. unfold ici. vsimp. destruct lg; ibs; lia.
    + rewrite (V_upd_some _ _ _ _ _ AY0), V0. vsimp. destruct lg; ibs; lia.
  - exfalso. unfold count_dec in CD. destruct (a_strong y <? COUNT_INC) eqn:L; [discriminate|].
    destruct (a_strong y >=? COUNT_MASK); [discriminate|]. cbn [orb] in CD.
    unfold csub in CD. destruct (COUNT_INC <=? a_strong y) eqn:L2; [discriminate|]. zb. lia.
Qed.

Lemma drop_val_V a v s pre s' : drop_val v s = (pre, s') -> lawV a 0 s pre s'.
Proof.
  unfold drop_val, lawV. destruct v as [p|p|p|r|f|t sc]; try solve [intros Q; injp Q; vlaw a].
  repeat dest_match; intros Q; injp Q; vlaw a.
Qed.

Lemma zombie_V a s p y st' rc fr : aget (actors s) p = Some y -> srange (a_strong y) -> 0 <= st' < 4 ->
  V a (upd_actor s p (mkActor SZombie (oz (count_set_state (a_strong y) st')) rc None (a_logid y) fr)) = V a s - istate a (a_state y).
Proof.
  intros E SR ST. destruct (cnt_set _ _ SR ST) as [_ CS].
  rewrite (V_upd_some _ _ _ _ _ E). vsimp. rewrite CS. ibs; lia.
Qed.

Lemma drop_ref_V a p s pre s' :
  (forall c y, aget (actors s) c = Some y -> srange (a_strong y)) ->
  drop_ref p s = (pre, s') -> lawV a 0 s pre s'.
Proof.
  intros SR. unfold drop_ref, lawV. destruct (aget (actors s) p) as [y|] eqn:A.
  2:{ intros Q; injp Q. vlaw a. }
  destruct (a_freed y). { intros Q; injp Q. vlaw a. }
  destruct (minrc_drop (a_rc y)) as [[v z]|].
  2:{ intros Q; injp Q. vlaw a. }
  destruct z.
  - destruct (state_drops p (a_state y) _) as [dl s2] eqn:SD.
    intros Q; injp Q.
    destruct (state_drops_i a _ _ _ _ _ SD) as [-> CD].
    rewrite imops_app, CD, V_emit, (zombie_V a s p y STATE_ZOMBIE v true A (SR _ _ A) (proj1 state_range)).
    destruct (a_notify y) as [nt|]; vsimp; lia.
  - intros Q; injp Q. rewrite (V_upd_some _ _ _ _ _ A). vsimp. ibs; lia.
Qed.

Lemma terminate_V a p c s pre s' :
  (forall c0 y, aget (actors s) c0 = Some y -> srange (a_strong y)) ->
  terminate p c s = (pre, s') -> lawV a 0 s pre s'.
Proof.
  intros SR. unfold terminate, lawV. destruct (aget (actors s) p) as [y|] eqn:A.
  2:{ intros Q; injp Q. vlaw a. }
  set (s0 := if a_freed y then emit s (EModel M_UAF p) else s).
  assert (A0 : aget (actors s0) p = Some y) by (unfold s0; destruct (a_freed y); exact A).
  assert (V0 : V a s0 = V a s) by (unfold s0; destruct (a_freed y); [rewrite V_emit; simpl; lia | reflexivity]).
  destruct (state_drops p (a_state y) _) as [dl s1] eqn:SD.
  destruct (state_drops_i a _ _ _ _ _ SD) as [-> CD].
  pose proof (zombie_V a s0 p y STATE_ZOMBIE (a_rc y) (a_freed y) A0 (SR _ _ A) (proj1 state_range)) as ZV.
  destruct (a_notify y) as [nt|] eqn:NT; intros Q; injp Q; rewrite ZV, V0; rewrite ?imops_app, CD; vsimp; lia.
Qed.

Lemma run_item_V a c s pre s' : run_item c s = (pre, s') -> lawV a (ici a c) s pre s'.
Proof.
  unfold run_item, lawV, ici. destruct c as [u i kd caps q]. cbn [ci_kind]. destruct kd; vsimp.
  - intros Q; injp Q. vlaw a.
  - destruct (aget (actors s) a0) as [y|] eqn:A.
    + destruct (a_state y) eqn:SA; intros Q; injp Q.
      * rewrite (V_upd_some _ _ _ _ _ A), SA. vsimp. rewrite iq_app. unfold ici. vsimp. ibs; lia.
      * vlaw a.
      * vlaw a.
    + intros Q; injp Q. vlaw a.
  - destruct (aget (actors s) a0) as [y|] eqn:A.
    + destruct (ob (count_is_prep (a_strong y))); intros Q; injp Q; vlaw a.
    + intros Q; injp Q. vlaw a.
  - destruct (aget (actors s) p) as [y|] eqn:A.
    + destruct (a_state y) eqn:SA.
      * intros Q; injp Q. rewrite (V_upd_some _ _ _ _ _ A), SA. vsimp. rewrite iq_app. unfold ici. vsimp. ibs; lia.
      * destruct (nth_error slab (N.to_nat key)) as [[child|nx]|] eqn:NE; intros Q; injp Q.
        -- rewrite (V_upd_some _ _ _ _ _ A), SA. pose proof (islab_list_set_vac a _ _ snext _ NE) as SL. vsimp. ibs; lia.
        -- vlaw a.
        -- vlaw a.
      * intros Q; injp Q. vlaw a.
    + intros Q; injp Q. vlaw a.
  - intros Q; injp Q. vlaw a.
  - intros Q; injp Q. vlaw a.
Qed.

Lemma drop_item_V a c s pre s' : drop_item c s = (pre, s') -> lawV a (ici a c) s pre s'.
Proof.
  unfold drop_item, lawV, ici. destruct c as [u i kd caps q]. cbn [ci_kind]. destruct kd; intros Q; injp Q; vlaw a.
Qed.

Lemma ret_invoke_V a r m0 s pre s' : ret_invoke r m0 s = (pre, s') -> lawV a 0 s pre s'.
Proof.
  destruct r as [rid k]. unfold ret_invoke, lawV.
  destruct k as [caps bd|p ci|p ci|p inner|p key inner]; repeat dest_match; intros Q; injp Q; vlaw a.
Qed.

Lemma do_top_V a o s pre s' : do_top o s = (pre, s') -> lawV a 0 s pre s'.
Proof. unfold do_top, lawV. destruct o; repeat dest_match; intros Q; try injp Q; vlaw a. Qed.

Lemma class_flag_vc a all p e : class_flag all p = Some e -> vc1 a e = 0.
Proof.
  unfold class_flag. destruct (a_freed (snd p)); [discriminate|].
  destruct (a_state (snd p)) as [[|c h]|sh slab nx|]; try discriminate.
  - intros Q; inversion Q; reflexivity.
  - destruct (existsb _ _); [|discriminate]. intros Q; inversion Q; reflexivity.
Qed.

Lemma V_class_flags a s : V a (class_flags s) = V a s.
Proof.
  unfold class_flags. generalize (actors s) at 1 as all. intros all.
  generalize (actors s) at 1 as l. intros l. revert s. induction l as [|p l IH]; intros s; simpl; auto.
  rewrite IH. unfold emit_opt. destruct (class_flag all p) as [e|] eqn:CF; [|auto].
  rewrite V_emit, (class_flag_vc a _ _ _ CF). lia.
Qed.

Lemma vcr_leaks a l : vcr a (map (fun p : N * N => ELeak (fst p) (snd p)) l) = 0.
Proof. induction l; simpl; lia. Qed.

Lemma handle_V a m s pre s' :
  PremO m s -> (forall t, m <> MNew t) -> handle m s = (pre, s') -> lawV a (imop a m) s pre s'.
Proof.
  intros PR NN. pose proof PR as [SR HB LIM]. destruct m; cbn [handle]; try (cbn [imop]).
  - apply do_top_V.
  - destruct l as [|act l]; [intros Q; injp Q; vlaw a|].
    destruct (do_act act s) as [p s1] eqn:E. intros Q; injp Q.
    pose proof (do_act_V a _ _ _ _ _ PR E) as A. unfold lawV in *. rewrite imops_app. simpl. lia.
  - destruct (frames s) as [|fr rest] eqn:F; intros Q; injp Q; vlaw a.
  - destruct (frames s) as [|fr rest] eqn:F; [intros Q; injp Q; vlaw a|].
    intros Q; injp Q. unfold lawV. rewrite imops_app, imops_drops.
    assert (T : forall l, l = match f with
            | FNone => []
            | FMeth a0 => match f_die fr with Some c => [MTerminate a0 c] | None => [] end
            | FPrep a0 ready => match f_die fr with
                | Some c => if ready then [MOrphNew a0; MTerminate a0 c; MOrphDrop a0] else [MTerminate a0 c]
                | None => if ready then [MToReady a0] else [] end end -> imops a l = 0).
    { intros l ->. destruct f; try destruct (f_die fr); try destruct ready; reflexivity. }
    rewrite (T _ eq_refl), V_set_frames, V_emit. simpl. lia.
  - apply run_item_V.
  - apply drop_item_V.
  - intros Q; injp Q. vlaw a.
  - apply drop_val_V.
  - intros Q. pose proof (HB a0) as HA. cbn [hmop] in HA. rewrite hind_refl in HA. pose proof (hst_nn (HO a0) s).
    pose proof (LIM a0). pose proof (hind_range (HO a0) (HR a0)).
    pose proof (drop_own_V a a0 logged s pre s' SR ltac:(lia) Q) as L. exact L.
  - intros Q. exact (drop_ref_V a a0 s pre s' SR Q).
  - apply ret_invoke_V.
  - intros Q; injp Q; vlaw a.
  - intros Q; injp Q; vlaw a.
  - intros Q; injp Q; vlaw a.
  - intros Q; injp Q; vlaw a.
  - apply terminate_V; auto.
  - destruct (aget (actors s) a0); intros Q; injp Q; vlaw a.
  - destruct (aget (actors s) a0) as [y|] eqn:A; [|intros Q; injp Q; vlaw a].
    destruct (a_state y) eqn:SA; try solve [intros Q; injp Q; vlaw a].
    intros Q; injp Q. unfold lawV. destruct (cnt_set _ _ (SR _ _ A) (proj2 state_range)) as [_ CS].
    rewrite imops_runitems, V_emit, (V_upd_some _ _ _ _ _ A), SA. vsimp. rewrite CS. ibs; lia.
  - exfalso. eapply NN; reflexivity.
  - destruct idle; [destruct (idleq s) as [|c r] eqn:IQ|]; intros Q; injp Q; try solve [vlaw a].
    unfold lawV. rewrite V_set_idleq, IQ. vsimp. lia.
  - destruct (t >? now (set_mainq s [])).
    + destruct (fire t (set_now (set_mainq s []) t)) as [fired s2] eqn:FI. intros Q; injp Q.
      pose proof (V_fire a _ _ _ _ FI) as A. rewrite V_set_now, V_set_mainq in A.
      unfold lawV. rewrite imops_runitems, iq_app. vsimp. lia.
    + intros Q; injp Q. unfold lawV. rewrite imops_runitems, V_set_mainq. vsimp. lia.
  - destruct (mainq s) as [|c l] eqn:MQ.
    + destruct (lazyq s) as [|c l] eqn:LQ.
      * intros Q; injp Q. destruct (t >? recreate s); vlaw a.
      * intros Q; injp Q. unfold lawV. cbn [map app imops imop]. rewrite imops_app, imops_runitems, V_set_lazyq, LQ. vsimp. lia.
    + intros Q; injp Q. unfold lawV. cbn [map app imops imop]. rewrite imops_app, imops_runitems, V_set_mainq, MQ. vsimp. lia.
  - destruct (i >=? TEARDOWN_ROUNDS).
    + intros Q; injp Q. destruct (is_nil (mainq s)); vlaw a.
    + destruct (mainq s) as [|c l] eqn:MQ; intros Q; injp Q; [vlaw a|].
      unfold lawV. cbn [map app imops imop]. rewrite imops_app, imops_dropitems, V_set_mainq, MQ. vsimp. lia.
  - intros Q; injp Q.
    set (s0 := if ambiguous (timers s) then emit s (EModel M_AMBIG 1) else s).
    assert (V0 : V a s0 = V a s) by (unfold s0; destruct (ambiguous (timers s)); [rewrite V_emit; simpl; lia | reflexivity]).
    assert (Q0 : lazyq s0 = lazyq s /\ idleq s0 = idleq s /\ timers s0 = timers s) by (unfold s0; destruct (ambiguous (timers s)); auto).
    destruct Q0 as (Q1 & Q2 & Q3).
    unfold lawV. rewrite imops_app, imops_dropitems, !iq_app, iq_map_ti, itim_sort, V_emit, V_set_tvars,
      V_set_timers, V_set_idleq, V_set_lazyq, V0.
    stsimp. rewrite Q1, Q2, Q3. vsimp. lia.
  - intros Q; injp Q. destruct (is_nil (mainq s)); vlaw a.
  - destruct (amin (env s)) as [[h v]|] eqn:AM; intros Q; injp Q; vlaw a.
  - intros Q; injp Q; vlaw a.
  - intros Q; injp Q. unfold lawV. rewrite <- (V_class_flags a s).
    Transparent V. unfold V at 1. unfold ist, ctr. cbn [mainq lazyq idleq timers actors tr set_tr]. rewrite vcr_app. unfold leaks. rewrite <- map_rev, vcr_leaks.
    unfold V, ist, ctr. vsimp. lia. Opaque V.
Qed.

Lemma new_V a t s pre s' : dk s = DGlobal -> handle (MNew t) s = (pre, s') -> lawV a 0 s pre s'.
Proof.
  cbn [handle]. intros D Q; injp Q. rewrite D. unfold lawV, fresh_stakker.
  Vrw. rewrite imops_dropitems, V_set_mainq, V_emit. change (mainq (emit s (ENew t))) with (mainq s). cbn [iq vc1]. lia.
Qed.

Print Assumptions handle_V.
