(** Layer R proofs: a pending timer deletion ([MDelDone], pushed by [ATimerDel] behind the drop of the timer's
    closure) is reached without Core access: every micro-op in front of it is a quiet drop micro-op, every frame
    pushed meanwhile is a Core-less frame (Ret / Fwd handler), and acts only run inside such frames. *)
From Coq Require Import ZArith NArith List Bool Lia.
From Stk Require Import Lib.U Gen.SrcCount Gen.SrcCore Gen.SrcLog R.Syntax R.Rt R.Shape R.Eff R.LinEvs.
Import ListNotations.
Local Open Scope Z_scope.

Definition is_del (m : mop) : bool := match m with MDelDone _ _ => true | _ => false end.
Definition is_acts (m : mop) : bool := match m with MActs _ => true | _ => false end.

(* ------------------------------------------------------------------ *)
(** * Which handlers push [MDelDone] and [MActs] *)

Lemma del_app a b : existsb is_del (a ++ b) = existsb is_del a || existsb is_del b.
Proof. apply existsb_app. Qed.
Lemma del_drops l : existsb is_del (drops l) = false.
Proof. unfold drops. induction l; simpl; auto. Qed.
Lemma del_slab_drops l : existsb is_del (slab_drops l) = false.
Proof. induction l as [|[c|n] l IH]; simpl; auto. Qed.
Lemma del_dropitems l : existsb is_del (map MDropItem l) = false.
Proof. induction l; simpl; auto. Qed.
Lemma del_runitems l : existsb is_del (map MRunItem l) = false.
Proof. induction l; simpl; auto. Qed.
Lemma bind_del s h v l s' : bind s h v = (l, s') -> existsb is_del l = false /\ existsb is_acts l = false.
Proof. unfold bind. destruct (aget (env s) h); intros Q; inversion Q; split; reflexivity. Qed.
Lemma bad_del s c l s' : bad s c = (l, s') -> existsb is_del l = false /\ existsb is_acts l = false.
Proof. unfold bad. intros Q; inversion Q; split; reflexivity. Qed.

Lemma acts_app a b : existsb is_acts (a ++ b) = existsb is_acts a || existsb is_acts b.
Proof. apply existsb_app. Qed.
Lemma acts_drops l : existsb is_acts (drops l) = false.
Proof. unfold drops. induction l; simpl; auto. Qed.
Lemma acts_slab_drops l : existsb is_acts (slab_drops l) = false.
Proof. induction l as [|[c|n] l IH]; simpl; auto. Qed.
Lemma acts_dropitems l : existsb is_acts (map MDropItem l) = false.
Proof. induction l; simpl; auto. Qed.

Lemma state_drops_del a sa s l s' : state_drops a sa s = (l, s') -> existsb is_del l = false /\ existsb is_acts l = false.
Proof.
  unfold state_drops. destruct sa; intros Q; inversion Q; subst; split; try reflexivity.
  - apply del_dropitems.
  - apply acts_dropitems.
  - simpl. rewrite del_app, del_drops, del_slab_drops. reflexivity.
  - simpl. rewrite acts_app, acts_drops, acts_slab_drops. reflexivity.
Qed.

Ltac del_tac :=
  first [ reflexivity
        | (eapply bind_del; eassumption)
        | (eapply bad_del; eassumption)
        | (cbn [map app existsb is_del is_acts orb]; rewrite ?del_app, ?del_drops, ?del_slab_drops, ?del_dropitems, ?del_runitems,
             ?acts_app, ?acts_drops, ?acts_slab_drops, ?acts_dropitems; reflexivity) ].

Ltac inj_pair Q :=
  match type of Q with
  | (_, _) = (_, _) => injection Q as ? ?; subst
  | _ => idtac
  end.

(* an act pushes [MDelDone] only as [MDropItem c; MDelDone k v] (timer deletion), and [MActs] only as
   [MActs b; MPopFrame; ...] (a Fwd handler) or [MActs l1; MActs l2] (repetition) *)
Inductive act_pre : list mop -> Prop :=
| ap_plain p : existsb is_del p = false -> existsb is_acts p = false -> act_pre p
| ap_del c k v : act_pre [MDropItem c; MDelDone k v]
| ap_fwd b v : act_pre [MActs b; MPopFrame; MDropVal v]
| ap_rep l1 l2 : act_pre [MActs l1; MActs l2].

Lemma do_act_pre a s pre s' : do_act a s = (pre, s') -> act_pre pre.
Proof.
  unfold do_act. destruct a; repeat dest_match; intros Q; inj_pair Q;
    try solve [apply ap_plain; del_tac | apply ap_del | apply ap_fwd | apply ap_rep
              | apply ap_plain; [eapply bind_del; eassumption | eapply bind_del; eassumption]
              | apply ap_plain; [eapply bad_del; eassumption | eapply bad_del; eassumption] ].
Qed.

Inductive work_pre : list mop -> Prop :=
| wp_plain p : existsb is_del p = false -> existsb is_acts p = false -> work_pre p
| wp_body b : work_pre [MActs b; MPopFrame].

Ltac wp_tac := first [ apply wp_body | apply wp_plain; del_tac ].

Lemma qmop_pre mo s pre s' :
  handle mo s = (pre, s') -> qmop mo = true -> is_acts mo = false -> work_pre pre.
Proof.
  intros H Q NA. destruct mo; try discriminate Q; try discriminate NA; cbn [handle] in H; revert H.
  - destruct (frames s); intros Q0; inj_pair Q0; wp_tac.
  - unfold drop_item. destruct c as [u i kd caps q]. destruct kd; intros Q0; inj_pair Q0; wp_tac.
  - intros Q0; inj_pair Q0; wp_tac.
  - unfold drop_val. destruct v; repeat dest_match; intros Q0; inj_pair Q0; wp_tac.
  - unfold drop_own. destruct logged; repeat dest_match; intros Q0; inj_pair Q0; wp_tac.
  - unfold drop_ref. destruct (aget (actors s) a) as [y|]; [|intros Q0; inj_pair Q0; wp_tac].
    destruct (a_freed y); [intros Q0; inj_pair Q0; wp_tac|]. destruct (minrc_drop (a_rc y)) as [[v z]|]; [|intros Q0; inj_pair Q0; wp_tac].
    destruct z; [|intros Q0; inj_pair Q0; wp_tac].
    destruct (state_drops a (a_state y) _) as [dl s2] eqn:SD. destruct (state_drops_del _ _ _ _ _ SD) as [D1 D2].
    intros Q0; inj_pair Q0. apply wp_plain; rewrite ?del_app, ?acts_app, ?D1, ?D2; destruct (a_notify y); reflexivity.
  - unfold ret_invoke. destruct r as [rid k]. destruct k; repeat dest_match; intros Q0; inj_pair Q0; wp_tac.
  - intros Q0; inj_pair Q0; wp_tac.
  - intros Q0; inj_pair Q0; wp_tac.
  - intros Q0; inj_pair Q0; wp_tac.
  - intros Q0; inj_pair Q0; wp_tac.
  - unfold terminate. destruct (aget (actors s) a) as [y|]; [|intros Q0; inj_pair Q0; wp_tac].
    destruct (state_drops a (a_state y) _) as [dl s2] eqn:SD. destruct (state_drops_del _ _ _ _ _ SD) as [D1 D2].
    destruct (a_notify y); intros Q0; inj_pair Q0; apply wp_plain; rewrite ?del_app, ?acts_app, ?D1, ?D2; reflexivity.
  - destruct (aget (actors s) a); intros Q0; inj_pair Q0; wp_tac.
Qed.

(* ------------------------------------------------------------------ *)
(** * The invariant *)

Definition acts_closed (w : list mop) : Prop :=
  forall a l b, w = a ++ MActs l :: b -> poppers b <> [].

Record DP (w : list mop) (s : st) : Prop := mkDP {
  dp_q : forallb qmop w = true;
  dp_fr : exists fs fs', frames s = fs ++ fs' /\ length fs = length (poppers w) /\ Forall (fun f => f_ctx f = XNone) fs;
  dp_ac : acts_closed w }.

Definition DD (k : list mop) (s : st) : Prop :=
  forall w kk vv rest, k = w ++ MDelDone kk vv :: rest -> DP w s.

Lemma eff_ctxs s s' : eff s s' -> map f_ctx (frames s') = map f_ctx (frames s).
Proof.
  intros E. induction E; auto; try (rewrite <- IHE; reflexivity).
  - rewrite <- IHE. unfold submit. destruct q; reflexivity.
  - rewrite <- IHE. exact H.
Qed.

Lemma app_split {X} (pre k0 w : list X) x rest :
  pre ++ k0 = w ++ x :: rest ->
  (exists w0, k0 = w0 ++ x :: rest /\ w = pre ++ w0) \/ (exists p2, pre = w ++ x :: p2 /\ rest = p2 ++ k0).
Proof.
  revert w. induction pre as [|y pre IH]; simpl; intros w H.
  - left. exists w. auto.
  - destruct w as [|z w]; simpl in H; inversion H; subst.
    + right. exists pre. auto.
    + destruct (IH w H2) as [(w0 & A & B)|(p2 & A & B)].
      * left. exists w0. subst. auto.
      * right. exists p2. subst. auto.
Qed.

Lemma acts_closed_nil_acts w : existsb is_acts w = false -> acts_closed w.
Proof.
  intros H a l b E. exfalso. subst. rewrite existsb_app in H. simpl in H. rewrite orb_true_r in H. discriminate.
Qed.

Lemma poppers_nil_of p : poppers p = [] -> forall a x b, p = a ++ x :: b -> is_popper x = false.
Proof. intros H a x b ->. rewrite poppers_app in H. simpl in H. destruct (is_popper x); auto. apply app_eq_nil in H as [_ H]. discriminate. Qed.

(* replacing the head by [pre]: closedness *)
Lemma acts_closed_step m w pre :
  acts_closed (m :: w) ->
  (is_acts m = true \/ existsb is_acts pre = false \/ exists b, pre = [MActs b; MPopFrame]) ->
  (is_acts m = true -> forall a l b, pre = a ++ MActs l :: b -> True) ->
  acts_closed (pre ++ w).
Proof.
  intros AC CASE _ a l b E.
  destruct (app_split pre w a (MActs l) b E) as [(w0 & A & B)|(p2 & A & B)].
  - (* the act is in the old part *)
    subst. specialize (AC (m :: w0) l b eq_refl). exact AC.
  - subst b. rewrite poppers_app. destruct CASE as [MA|[NA|(bd & ->)]].
    + destruct m; try discriminate MA. specialize (AC [] l0 w eq_refl). intros Q. apply app_eq_nil in Q as [_ Q]. auto.
    + exfalso. subst pre. rewrite existsb_app in NA. simpl in NA. rewrite orb_true_r in NA. discriminate.
    + destruct a as [|y a]; simpl in A; inversion A; subst; [discriminate|].
      destruct a as [|y' a]; simpl in H1; inversion H1; subst. destruct a; discriminate.
Qed.

Lemma nonq_pre mo s pre s' : handle mo s = (pre, s') -> qmop mo = false -> existsb is_del pre = false.
Proof.
  intros H Q. destruct mo; try discriminate Q; cbn [handle] in H; revert H.
  - unfold do_top. destruct o; repeat dest_match; intros Q0; inj_pair Q0; del_tac.
  - destruct (frames s) as [|fr rest]; intros Q0; inj_pair Q0; [reflexivity|].
    rewrite del_app, del_drops. destruct f; try destruct (f_die fr); try destruct ready; reflexivity.
  - unfold run_item. destruct c as [u i kd caps q]. destruct kd; repeat dest_match; intros Q0; inj_pair Q0; del_tac.
  - destruct (aget (actors s) a) as [y|]; [destruct (a_state y)|]; intros Q0; inj_pair Q0; del_tac.
  - intros Q0; inj_pair Q0. apply del_dropitems.
  - destruct idle; [destruct (idleq s)|]; intros Q0; inj_pair Q0; del_tac.
  - destruct (t >? now (set_mainq s [])); [destruct (fire t _) as [f s2]|]; intros Q0; inj_pair Q0; apply del_runitems.
  - repeat dest_match; intros Q0; inj_pair Q0; del_tac.
  - repeat dest_match; intros Q0; inj_pair Q0; del_tac.
  - intros Q0; inj_pair Q0. rewrite del_app, del_dropitems. reflexivity.
  - repeat dest_match; intros Q0; inj_pair Q0; del_tac.
  - repeat dest_match; intros Q0; inj_pair Q0; del_tac.
  - intros Q0; inj_pair Q0; del_tac.
  - intros Q0; inj_pair Q0; del_tac.
Qed.

Lemma poppers_cons m k : poppers (m :: k) = if is_popper m then m :: poppers k else poppers k.
Proof. reflexivity. Qed.

Lemma quiet_qmops l : quiet l -> forallb qmop l = true.
Proof.
  intros [A B]. induction l as [|m l IH]; simpl in *; auto.
  apply andb_prop in A as [A1 A2]. apply orb_false_elim in B as [B1 B2].
  rewrite IH; auto. unfold qmop. rewrite A1, B1. reflexivity.
Qed.

Lemma ctxs_split l' fs fs' :
  map f_ctx l' = map f_ctx (fs ++ fs') -> Forall (fun f => f_ctx f = XNone) fs ->
  exists gs gs', l' = gs ++ gs' /\ length gs = length fs /\ Forall (fun f => f_ctx f = XNone) gs.
Proof.
  revert l'. induction fs as [|f fs IH]; simpl; intros l' E F.
  - exists [], l'. auto.
  - destruct l' as [|g l']; [discriminate|]. simpl in E. inversion E. inversion F; subst.
    destruct (IH l' H1 H4) as (gs & gs' & A & B & C). exists (g :: gs), gs'. subst. simpl. repeat split; auto.
    constructor; auto. congruence.
Qed.

Lemma in_split_del pre : existsb is_del pre = false -> forall w kk vv p2, pre = w ++ MDelDone kk vv :: p2 -> False.
Proof. intros H w kk vv p2 ->. rewrite existsb_app in H. simpl in H. rewrite orb_true_r in H. discriminate. Qed.

Theorem step_DD k s k' s' : DD k s -> step k s = Some (k', s') -> DD k' s'.
Proof.
  intros D H. destruct k as [|mo k0]; [discriminate|]. simpl in H.
  destruct (handle mo s) as [pre s1] eqn:E. inversion H; subst; clear H.
  intros w' kk vv rest' SPL.
  destruct (app_split pre k0 w' (MDelDone kk vv) rest' SPL) as [(w0 & K0 & ->)|(p2 & PRE & _)].
  - (* the deletion was already pending *)
    assert (OLD : DP (mo :: w0) s) by (apply (D (mo :: w0) kk vv rest'); rewrite K0; reflexivity).
    destruct OLD as [OQ (fs & fs' & FR & LN & FX) OA]. simpl in OQ. apply andb_prop in OQ as [QM OQ].
    destruct (handle_qmop _ _ _ _ QM E) as [QP HC].
    assert (NQ : forallb qmop (pre ++ w0) = true) by (rewrite forallb_app, (quiet_qmops _ QP), OQ; reflexivity).
    assert (AC : acts_closed (pre ++ w0)).
    { apply (acts_closed_step mo w0 pre OA); [|auto].
      destruct (is_acts mo) eqn:IA; [left; reflexivity | right].
      destruct (qmop_pre _ _ _ _ E QM IA) as [p D1 D2|b]; [left; exact D2 | right; eauto]. }
    split; auto.
    destruct HC as [O|c M C P S|fr rs M F P S].
    + assert (NP : is_popper mo = false).
      { destruct mo; try reflexivity; try discriminate QM. exfalso. simpl in LN. cbn [handle] in E.
        destruct (frames s) as [|f0 r0] eqn:F0.
        - destruct fs; simpl in *; [discriminate | discriminate].
        - inversion E; subst. destruct O as [EF PP|s2 loc EF X PP].
          + apply eff_ctxs in EF. simpl in EF. rewrite F0 in EF. simpl in EF. apply (f_equal (@length ctx)) in EF. simpl in EF. rewrite !map_length in EF. lia.
          + rewrite poppers_drops in PP. discriminate. }
      rewrite poppers_cons, NP in LN.
      destruct O as [EF PP|s2 loc EF X PP].
      * destruct (ctxs_split (frames s') fs fs') as (gs & gs' & A & B & C); [rewrite (eff_ctxs _ _ EF), FR; reflexivity | exact FX |].
        exists gs, gs'. rewrite poppers_app, PP. simpl. repeat split; auto. lia.
      * destruct (ctxs_split (frames s2) fs fs') as (gs & gs' & A & B & C); [rewrite (eff_ctxs _ _ EF), FR; reflexivity | exact FX |].
        subst s'. exists (mkFrame XNone loc None :: gs), gs'. rewrite poppers_app, PP. unfold push_frame. simpl. rewrite A.
        repeat split; auto. simpl. lia.
    + subst. exists fs, fs'. rewrite poppers_app, poppers_drops. simpl in *. repeat split; auto.
    + subst. simpl in LN. rewrite F in FR. destruct fs as [|f0 fs]; simpl in *; [discriminate|]. inversion FR; subst.
      inversion FX; subst. exists fs, fs'. rewrite poppers_app, poppers_drops. simpl. repeat split; auto.
  - (* the deletion is requested by this step *)
    assert (W1 : exists c, w' = [MDropItem c]).
    { destruct (qmop mo) eqn:QM.
      - destruct (is_acts mo) eqn:IA.
        + destruct mo; try discriminate IA. cbn [handle] in E. destruct l as [|a l]; [injection E as EP ES; rewrite <- EP in PRE; destruct w'; discriminate|].
          destruct (do_act a s) as [p s2] eqn:DA. injection E as EP ES. rewrite <- EP in PRE. pose proof (do_act_pre _ _ _ _ DA) as AP.
          inversion AP as [p0 D1 D2 EQ|c k v EQ|b v EQ|l1 l2 EQ]; subst.
          * exfalso. eapply (in_split_del (p ++ [MActs l])); [rewrite del_app, D1; reflexivity | eauto].
          * destruct w' as [|x w']; simpl in PRE; inversion PRE; subst. destruct w' as [|y w']; simpl in H1; inversion H1; subst; [eauto|].
            destruct w'; simpl in H2; inversion H2. destruct w'; discriminate.
          * exfalso. eapply (in_split_del ([MActs b; MPopFrame; MDropVal v] ++ [MActs l])); [reflexivity | eauto].
          * exfalso. eapply (in_split_del ([MActs l1; MActs l2] ++ [MActs l])); [reflexivity | eauto].
        + exfalso. destruct (qmop_pre _ _ _ _ E QM IA) as [p D1 D2|b]; [eapply in_split_del; eauto|].
          eapply (in_split_del [MActs b; MPopFrame]); [reflexivity | eauto].
      - exfalso. eapply in_split_del; [eapply nonq_pre; eauto | eauto]. }
    destruct W1 as [c ->]. split.
    + reflexivity.
    + exists [], (frames s'). simpl. auto.
    + apply acts_closed_nil_acts. reflexivity.
Qed.

Lemma DD_init d p : DD (map MTop p ++ [MEpilogue]) (init d).
Proof.
  intros w kk vv rest H. exfalso.
  assert (IN : In (MDelDone kk vv) (map MTop p ++ [MEpilogue])) by (rewrite H; apply in_or_app; right; left; reflexivity).
  apply in_app_or in IN as [IN|[IN|[]]]; [|discriminate IN]. apply in_map_iff in IN as (o & Q & _). discriminate Q.
Qed.

(** while a deletion is pending, the acts run without Core access *)
Lemma DD_nocore l k0 s : DD (MActs l :: k0) s -> existsb is_del k0 = true -> has_core s = false.
Proof.
  intros D H. apply existsb_exists in H as (x & IN & ID). destruct x; try discriminate ID.
  (* the first pending deletion *)
  assert (SP : exists w rest kk vv, k0 = w ++ MDelDone kk vv :: rest).
  { apply in_split in IN as (a & b & ->). eauto. }
  destruct SP as (w & rest & kk & vv & ->).
  destruct (D (MActs l :: w) kk vv rest eq_refl) as [_ (fs & fs' & FR & LN & FX) AC].
  specialize (AC [] l w eq_refl). simpl in LN.
  destruct fs as [|f fs]; [destruct (poppers w); [congruence | discriminate]|].
  unfold has_core, cur_ctx. rewrite FR. simpl. inversion FX; subst. rewrite H1. apply andb_false_r.
Qed.
