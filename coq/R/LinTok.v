(** Layer R proofs: the TOKEN census: a copy of the handle census of Own.v (layerR2) with one more resource, [HT t] =
    the [HTok t _] values (drop tokens); the other resources are kept so that the statements and proofs carry over
    unchanged (their counters are irrelevant here).  [hmops (HT t) k + hst (HT t) s] counts the token values with id t
    in the whole configuration. *)
From Coq Require Import ZArith NArith List Bool Lia.
From Stk Require Import Lib.U Gen.SrcCount Gen.SrcCore Gen.SrcLog R.Syntax R.Rt R.Shape R.Count.
Import ListNotations.
Local Open Scope Z_scope.

(* ------------------------------------------------------------------ *)
(** * Resources *)

Inductive hres := HO (a : N) | HR (a : N) | HF (f : N) | HT (t : N).

Definition hres_eqb (x y : hres) : bool :=
  match x, y with
  | HO a, HO b | HR a, HR b | HF a, HF b | HT a, HT b => N.eqb a b
  | _, _ => false
  end.

Definition hind (x y : hres) : Z := if hres_eqb x y then 1 else 0.

Lemma hind_range x y : 0 <= hind x y <= 1.
Proof. unfold hind. destruct (hres_eqb x y); lia. Qed.

Lemma hres_eqb_eq x y : hres_eqb x y = true <-> x = y.
Proof.
  destruct x, y; simpl; try (split; [discriminate | intros E; discriminate E]);
    rewrite N.eqb_eq; split; [intros ->; reflexivity | intros E; inversion E; reflexivity
                             | intros ->; reflexivity | intros E; inversion E; reflexivity
                             | intros ->; reflexivity | intros E; inversion E; reflexivity
                             | intros ->; reflexivity | intros E; inversion E; reflexivity].
Qed.

Lemma hind_refl x : hind x x = 1.
Proof. unfold hind. destruct (hres_eqb x x) eqn:E; auto. assert (H : x = x) by reflexivity. apply hres_eqb_eq in H. congruence. Qed.

Lemma hind_neq x y : x <> y -> hind x y = 0.
Proof. unfold hind. destruct (hres_eqb x y) eqn:E; auto. apply hres_eqb_eq in E. congruence. Qed.

(* ------------------------------------------------------------------ *)
(** * Census of values *)

Definition hkind (x : hres) (k : ckind) : Z :=
  match k with
  | KPlain _ => 0
  | KMeth a _ _ | KPrep a _ _ | KSlabRm a _ | KTerm a => hind x (HR a)
  | KKill a _ => hind x (HO a) + hind x (HR a)
  end.

Fixpoint hv (x : hres) (v : hval) {struct v} : Z :=
  match v with
  | HOwn a | HAnon a => hind x (HO a) + hind x (HR a)
  | HAct a => hind x (HR a)
  | HRet r => hret x r
  | HFwd f => hind x (HF f)
  | HTok t _ => hind x (HT t)
  end
with hret (x : hres) (r : ret) {struct r} : Z :=
  match r with Ret _ k => hrk x k end
with hrk (x : hres) (k : rkind) {struct k} : Z :=
  match k with
  | RKClos caps _ =>
      (fix go (l : list (N * hval)) : Z := match l with [] => 0 | p :: l' => match p with (_, v) => hv x v + go l' end end) caps
  | RKTo a ci | RKSomeTo a ci => hind x (HR a) + hcc x ci
  | RKNotify _ inner => match inner with Some (p, ci) => hind x (HR p) + hcc x ci | None => 0 end
  | RKSlab p _ inner => hind x (HR p) + hret x inner
  end
(* the captures of a closure (without the reference its kind stands for) *)
with hcc (x : hres) (c : citem) {struct c} : Z :=
  match c with
  | CI _ _ _ caps _ =>
      (fix go (l : list (N * hval)) : Z := match l with [] => 0 | p :: l' => match p with (_, v) => hv x v + go l' end end) caps
  end.

(* internal items ([KSlabRm], [KTerm], [KKill]) are made without captures; whatever captures such an item might carry
   is ignored by the machine, hence not counted *)
Definition rkb (k : ckind) : bool :=
  match k with KPlain _ | KMeth _ _ _ | KPrep _ _ _ => true | _ => false end.

Definition hci (x : hres) (c : citem) : Z := hkind x (ci_kind c) + (if rkb (ci_kind c) then hcc x c else 0).

Fixpoint henv (x : hres) (l : list (N * hval)) : Z :=
  match l with [] => 0 | p :: l' => hv x (snd p) + henv x l' end.

Lemma go_henv x caps :
  (fix go (l : list (N * hval)) : Z := match l with [] => 0 | p :: l' => match p with (_, v) => hv x v + go l' end end) caps
  = henv x caps.
Proof. induction caps as [|[h v] l IH]; simpl; auto. rewrite IH. reflexivity. Qed.

Lemma hv_eq x v : hv x v = match v with
  | HOwn a | HAnon a => hind x (HO a) + hind x (HR a)
  | HAct a => hind x (HR a)
  | HRet r => hret x r
  | HFwd f => hind x (HF f)
  | HTok t _ => hind x (HT t) end.
Proof. destruct v; reflexivity. Qed.
Lemma hv_own x a : hv x (HOwn a) = hind x (HO a) + hind x (HR a). Proof. reflexivity. Qed.
Lemma hv_anon x a : hv x (HAnon a) = hind x (HO a) + hind x (HR a). Proof. reflexivity. Qed.
Lemma hv_act x a : hv x (HAct a) = hind x (HR a). Proof. reflexivity. Qed.
Lemma hv_ret x r : hv x (HRet r) = hret x r. Proof. reflexivity. Qed.
Lemma hv_fwd x f : hv x (HFwd f) = hind x (HF f). Proof. reflexivity. Qed.
Lemma hv_tok x t sc : hv x (HTok t sc) = hind x (HT t). Proof. reflexivity. Qed.
Lemma hret_eq x rid k : hret x (Ret rid k) = hrk x k. Proof. reflexivity. Qed.
Lemma hrk_clos x caps b : hrk x (RKClos caps b) = henv x caps.
Proof. simpl. apply go_henv. Qed.
Lemma hrk_to x a ci : hrk x (RKTo a ci) = hind x (HR a) + hcc x ci. Proof. reflexivity. Qed.
Lemma hrk_someto x a ci : hrk x (RKSomeTo a ci) = hind x (HR a) + hcc x ci. Proof. reflexivity. Qed.
Lemma hrk_notify x a inner : hrk x (RKNotify a inner) =
  match inner with Some (p, ci) => hind x (HR p) + hcc x ci | None => 0 end.
Proof. reflexivity. Qed.
Lemma hrk_slab x p key inner : hrk x (RKSlab p key inner) = hind x (HR p) + hret x inner. Proof. reflexivity. Qed.
Lemma hcc_eq x u i kd caps q : hcc x (CI u i kd caps q) = henv x caps.
Proof. simpl. apply go_henv. Qed.
Lemma hcc_caps x c : hcc x c = henv x (ci_caps c).
Proof. destruct c. apply hcc_eq. Qed.
Lemma hci_eq x u i kd caps q : hci x (CI u i kd caps q) = hkind x kd + (if rkb kd then henv x caps else 0).
Proof. unfold hci. rewrite hcc_eq. reflexivity. Qed.

Lemma hkind_nn x k : 0 <= hkind x k.
Proof.
  destruct k; simpl; try lia; try apply hind_range.
  pose proof (hind_range x (HO a)). pose proof (hind_range x (HR a)). lia.
Qed.

Fixpoint hv_nn (x : hres) (v : hval) {struct v} : 0 <= hv x v
with hret_nn (x : hres) (r : ret) {struct r} : 0 <= hret x r
with hrk_nn (x : hres) (k : rkind) {struct k} : 0 <= hrk x k
with hcc_nn (x : hres) (c : citem) {struct c} : 0 <= hcc x c.
Proof.
  - destruct v; simpl; try apply hret_nn; try apply hind_range; try (clear; lia).
    + pose proof (hind_range x (HO a)). pose proof (hind_range x (HR a)). lia.
    + pose proof (hind_range x (HO a)). pose proof (hind_range x (HR a)). lia.
  - destruct r as [rid k]. simpl. apply hrk_nn.
  - destruct k as [caps b|a ci|a ci|a inner|p key inner].
    + simpl. induction caps as [|[h v] l IH]; [lia|]. pose proof (hv_nn x v). lia.
    + simpl. pose proof (hind_range x (HR a)). pose proof (hcc_nn x ci). lia.
    + simpl. pose proof (hind_range x (HR a)). pose proof (hcc_nn x ci). lia.
    + simpl. destruct inner as [[p ci]|]; [|lia]. pose proof (hind_range x (HR p)). pose proof (hcc_nn x ci). lia.
    + simpl. pose proof (hind_range x (HR p)). pose proof (hret_nn x inner). lia.
  - destruct c as [u i kd caps q]. simpl.
    induction caps as [|[h v] l IH]; [lia|]. pose proof (hv_nn x v). lia.
Qed.

Lemma hci_nn x c : 0 <= hci x c.
Proof. unfold hci. pose proof (hkind_nn x (ci_kind c)). pose proof (hcc_nn x c). destruct (rkb (ci_kind c)); lia. Qed.

Lemma henv_nn x l : 0 <= henv x l.
Proof. induction l as [|p l IH]; simpl; [lia|]. pose proof (hv_nn x (snd p)). lia. Qed.

Global Opaque hv hret hrk hcc.

(* ------------------------------------------------------------------ *)
(** * Census of the state *)

Definition hopt (x : hres) (o : option hval) : Z := match o with Some v => hv x v | None => 0 end.

Fixpoint hq (x : hres) (l : list citem) : Z :=
  match l with [] => 0 | c :: r => hci x c + hq x r end.

Fixpoint htim (x : hres) (l : list titem) : Z :=
  match l with [] => 0 | t :: r => hci x (ti_ci t) + htim x r end.

Fixpoint hfrs (x : hres) (l : list frame) : Z :=
  match l with [] => 0 | f :: r => henv x (f_loc f) + hfrs x r end.

Fixpoint hslab (x : hres) (l : list sentry) : Z :=
  match l with
  | [] => 0
  | SOcc c :: r => hind x (HO c) + hind x (HR c) + hslab x r
  | SVac _ :: r => hslab x r
  end.

Definition hstate (x : hres) (sa : astate) : Z :=
  match sa with
  | SPrep held => hq x held
  | SReady sh slab _ => henv x sh + hslab x slab
  | SZombie => 0
  end.

Definition hnotopt (x : hres) (o : option ret) : Z := match o with Some nt => hret x nt | None => 0 end.

Definition hactor (x : hres) (y : actor) : Z := hstate x (a_state y) + hnotopt x (a_notify y).

Fixpoint hacts (x : hres) (l : list (N * actor)) : Z :=
  match l with [] => 0 | p :: r => hactor x (snd p) + hacts x r end.

(* a live Fwd::to_actor object holds one reference to its target *)
Definition hfw (x : hres) (o : fwdobj) : Z :=
  match o with
  | FwdObj rc (FTo _ _) (Some a) => if 0 <? rc then hind x (HR a) else 0
  | _ => 0
  end.

Fixpoint hfwds (x : hres) (l : list (N * fwdobj)) : Z :=
  match l with [] => 0 | p :: r => hfw x (snd p) + hfwds x r end.

Definition hst (x : hres) (s : st) : Z :=
  hq x (mainq s) + hq x (lazyq s) + hq x (idleq s) + htim x (timers s) + hacts x (actors s) +
  henv x (env s) + hfrs x (frames s) + hfwds x (fwds s).

Definition hmop (x : hres) (m : mop) : Z :=
  match m with
  | MRunItem c | MDropItem c => hci x c
  | MDropInner c => hcc x c
  | MDropVal v => hv x v
  | MDropOwn a _ => hind x (HO a) + hind x (HR a)
  | MDropRef a => hind x (HR a)
  | MRetInvoke r _ => hret x r
  | _ => 0
  end.

Fixpoint hmops (x : hres) (l : list mop) : Z :=
  match l with [] => 0 | m :: r => hmop x m + hmops x r end.

(* the counters *)
Definition frc (o : fwdobj) : Z := match o with FwdObj rc _ _ => rc end.

Definition ctr (x : hres) (s : st) : Z :=
  match x with
  | HO a => match aget (actors s) a with Some y => cnt (a_strong y) | None => 0 end
  | HR a => match aget (actors s) a with Some y => a_rc y | None => 0 end
  | HF f => match aget (fwds s) f with Some o => frc o | None => 0 end
  | HT _ => 0
  end.

(* the part of the counters that lives in cell [a] / Fwd object [f] *)
Definition cact (x : hres) (a : N) (y : actor) : Z :=
  match x with
  | HO b => if N.eqb b a then cnt (a_strong y) else 0
  | HR b => if N.eqb b a then a_rc y else 0
  | HF _ | HT _ => 0
  end.

Definition cfw (x : hres) (f : N) (o : fwdobj) : Z :=
  match x with HF g => if N.eqb g f then frc o else 0 | _ => 0 end.

Definition H (x : hres) (s : st) : Z := hst x s - ctr x s.

(* owner increments are visible in the trace: creation of the actor, owned(), kill! *)
Definition cred1 (x : hres) (e : ev) : Z :=
  match e with
  | EActor a | EOwnNew a | EReq a (CKill _) => hind x (HO a)
  | _ => 0
  end.
Fixpoint cred (x : hres) (t : list ev) : Z := match t with [] => 0 | e :: r => cred1 x e + cred x r end.

(* ------------------------------------------------------------------ *)
(** * Lists *)

Lemma hq_app x a b : hq x (a ++ b) = hq x a + hq x b.
Proof. induction a; simpl; lia. Qed.
Lemma henv_app x a b : henv x (a ++ b) = henv x a + henv x b.
Proof. induction a; simpl; lia. Qed.
Lemma htim_app x a b : htim x (a ++ b) = htim x a + htim x b.
Proof. induction a; simpl; lia. Qed.
Lemma hmops_app x a b : hmops x (a ++ b) = hmops x a + hmops x b.
Proof. induction a; simpl; lia. Qed.
Lemma hslab_app x a b : hslab x (a ++ b) = hslab x a + hslab x b.
Proof. induction a as [|[c|n] a IH]; simpl; lia. Qed.
Lemma hq_nn x l : 0 <= hq x l.
Proof. induction l as [|c l IH]; simpl; [lia|]. pose proof (hci_nn x c). lia. Qed.
Lemma htim_nn x l : 0 <= htim x l.
Proof. induction l as [|c l IH]; simpl; [lia|]. pose proof (hci_nn x (ti_ci c)). lia. Qed.
Lemma hfrs_nn x l : 0 <= hfrs x l.
Proof. induction l as [|c l IH]; simpl; [lia|]. pose proof (henv_nn x (f_loc c)). lia. Qed.
Lemma hslab_nn x l : 0 <= hslab x l.
Proof.
  induction l as [|[c|n] l IH]; simpl; try lia.
  pose proof (hind_range x (HO c)). pose proof (hind_range x (HR c)). lia.
Qed.
Lemma hstate_nn x sa : 0 <= hstate x sa.
Proof. destruct sa; simpl; [apply hq_nn | | lia]. pose proof (henv_nn x sh). pose proof (hslab_nn x slab). lia. Qed.
Lemma hnotopt_nn x o : 0 <= hnotopt x o.
Proof. destruct o as [nt|]; simpl; [apply hret_nn | lia]. Qed.
Lemma hactor_nn x y : 0 <= hactor x y.
Proof. unfold hactor. pose proof (hstate_nn x (a_state y)). pose proof (hnotopt_nn x (a_notify y)). lia. Qed.
Lemma hacts_nn x l : 0 <= hacts x l.
Proof. induction l as [|p l IH]; simpl; [lia|]. pose proof (hactor_nn x (snd p)). lia. Qed.
Lemma hfw_nn x o : 0 <= hfw x o.
Proof. destruct o as [rc [b|h c] [a|]]; simpl; try lia. destruct (0 <? rc); [apply hind_range | lia]. Qed.
Lemma hfwds_nn x l : 0 <= hfwds x l.
Proof. induction l as [|p l IH]; simpl; [lia|]. pose proof (hfw_nn x (snd p)). lia. Qed.
Lemma hst_nn x s : 0 <= hst x s.
Proof.
  unfold hst. pose proof (hq_nn x (mainq s)). pose proof (hq_nn x (lazyq s)). pose proof (hq_nn x (idleq s)).
  pose proof (htim_nn x (timers s)). pose proof (hacts_nn x (actors s)). pose proof (henv_nn x (env s)).
  pose proof (hfrs_nn x (frames s)). pose proof (hfwds_nn x (fwds s)). lia.
Qed.
Lemma hmop_nn x m : 0 <= hmop x m.
Proof.
  destruct m; simpl; try lia; try apply hci_nn; try apply hcc_nn; try apply hv_nn; try apply hret_nn; try apply hind_range.
  pose proof (hind_range x (HO a)). pose proof (hind_range x (HR a)). lia.
Qed.
Lemma hmops_nn x l : 0 <= hmops x l.
Proof. induction l as [|m l IH]; simpl; [lia|]. pose proof (hmop_nn x m). lia. Qed.

Lemma hmops_drops x l : hmops x (drops l) = henv x l.
Proof. unfold drops. induction l as [|p l IH]; simpl; lia. Qed.
Lemma hmops_slab_drops x l : hmops x (slab_drops l) = hslab x l.
Proof. induction l as [|[c|n] l IH]; simpl; lia. Qed.
Lemma hmops_runitems x l : hmops x (map MRunItem l) = hq x l.
Proof. induction l; simpl; lia. Qed.
Lemma hmops_dropitems x l : hmops x (map MDropItem l) = hq x l.
Proof. induction l; simpl; lia. Qed.
Lemma hq_map_ti x l : hq x (map ti_ci l) = htim x l.
Proof. induction l; simpl; lia. Qed.

(* association lists *)
Lemma henv_aget x l h v : aget l h = Some v -> henv x (adel l h) + hv x v = henv x l.
Proof.
  induction l as [|[j w] l IH]; simpl; [discriminate|]. destruct (N.eqb h j).
  - intros E; inversion E; subst. lia.
  - intros E. specialize (IH E). simpl. lia.
Qed.

Lemma henv_aget_le x l h v : aget l h = Some v -> hv x v <= henv x l.
Proof. intros E. pose proof (henv_aget x _ _ _ E). pose proof (henv_nn x (adel l h)). lia. Qed.

Lemma henv_aset_some x l h v w : aget l h = Some w -> henv x (aset l h v) + hv x w = henv x l + hv x v.
Proof.
  induction l as [|[j u] l IH]; simpl; [discriminate|]. destruct (N.eqb h j).
  - intros E; inversion E; subst. simpl. lia.
  - intros E. specialize (IH E). simpl. lia.
Qed.

Lemma henv_aset_none x l h v : aget l h = None -> henv x (aset l h v) = henv x l + hv x v.
Proof.
  induction l as [|[j u] l IH]; simpl; [intros _; lia|]. destruct (N.eqb h j); [discriminate|].
  intros E. specialize (IH E). simpl. lia.
Qed.

Lemma hacts_aset_some x l a y z : aget l a = Some z -> hacts x (aset l a y) + hactor x z = hacts x l + hactor x y.
Proof.
  induction l as [|[j u] l IH]; simpl; [discriminate|]. destruct (N.eqb a j) eqn:E.
  - intros F; inversion F; subst. simpl. lia.
  - intros F. specialize (IH F). simpl. lia.
Qed.

Lemma hacts_aset_none x l a y : aget l a = None -> hacts x (aset l a y) = hacts x l + hactor x y.
Proof.
  induction l as [|[j u] l IH]; simpl; [intros _; lia|]. destruct (N.eqb a j); [discriminate|].
  intros F. specialize (IH F). simpl. lia.
Qed.

Lemma hacts_aget_le x l a z : aget l a = Some z -> hactor x z <= hacts x l.
Proof.
  induction l as [|[j u] l IH]; simpl; [discriminate|]. destruct (N.eqb a j) eqn:E.
  - intros F; inversion F; subst. pose proof (hacts_nn x l). lia.
  - intros F. specialize (IH F). pose proof (hactor_nn x u). lia.
Qed.

Lemma hfwds_aset_some x l f o z : aget l f = Some z -> hfwds x (aset l f o) + hfw x z = hfwds x l + hfw x o.
Proof.
  induction l as [|[j u] l IH]; simpl; [discriminate|]. destruct (N.eqb f j) eqn:E.
  - intros F; inversion F; subst. simpl. lia.
  - intros F. specialize (IH F). simpl. lia.
Qed.

Lemma hfwds_aset_none x l f o : aget l f = None -> hfwds x (aset l f o) = hfwds x l + hfw x o.
Proof.
  induction l as [|[j u] l IH]; simpl; [intros _; lia|]. destruct (N.eqb f j); [discriminate|].
  intros F. specialize (IH F). simpl. lia.
Qed.

Lemma hfwds_aget_le x l f z : aget l f = Some z -> hfw x z <= hfwds x l.
Proof.
  induction l as [|[j u] l IH]; simpl; [discriminate|]. destruct (N.eqb f j) eqn:E.
  - intros F; inversion F; subst. pose proof (hfwds_nn x l). lia.
  - intros F. specialize (IH F). pose proof (hfw_nn x u). lia.
Qed.

Lemma aget_aset_eq {X} (l : list (N * X)) i x : aget (aset l i x) i = Some x.
Proof. induction l as [|[j y] r IH]; simpl; [rewrite N.eqb_refl; auto|]. destruct (N.eqb i j) eqn:E; simpl; rewrite ?N.eqb_refl, ?E; auto. Qed.
Lemma aget_aset_neq {X} (l : list (N * X)) i j x : i <> j -> aget (aset l i x) j = aget l j.
Proof.
  intros NE. induction l as [|[k y] r IH]; simpl.
  - destruct (N.eqb j i) eqn:E; auto. apply N.eqb_eq in E. congruence.
  - destruct (N.eqb i k) eqn:E; simpl.
    + apply N.eqb_eq in E. subst k. destruct (N.eqb j i) eqn:F; auto. apply N.eqb_eq in F. congruence.
    + destruct (N.eqb j k); auto.
Qed.

Lemma amin_aget {X} (l : list (N * X)) h v : amin l = Some (h, v) -> aget l h = Some v.
Proof.
  revert h v. induction l as [|[j u] l IH]; simpl; [discriminate|]. intros h v.
  destruct (amin l) as [[j' x']|] eqn:A.
  - destruct (N.ltb j' j) eqn:L; intros E; inversion E; subst.
    + apply N.ltb_lt in L. destruct (N.eqb h j) eqn:Q; [apply N.eqb_eq in Q; lia|]. apply IH. reflexivity.
    + rewrite N.eqb_refl. reflexivity.
  - intros E; inversion E; subst. rewrite N.eqb_refl. reflexivity.
Qed.

(* timers *)
Lemma htim_insert x y l : htim x (ti_insert y l) = hci x (ti_ci y) + htim x l.
Proof. induction l as [|z l IH]; simpl; [lia|]. destruct (ti_le y z); simpl; lia. Qed.
Lemma htim_sort x l : htim x (ti_sort l) = htim x l.
Proof. unfold ti_sort. induction l as [|z l IH]; simpl; [lia|]. rewrite htim_insert. lia. Qed.
Lemma htim_filter x f l : htim x (filter f l) + htim x (filter (fun y => negb (f y)) l) = htim x l.
Proof. induction l as [|z l IH]; simpl; [lia|]. destruct (f z); simpl; lia. Qed.
Lemma htim_remove x l i t : ti_find l i = Some t -> htim x (ti_remove l i) + hci x (ti_ci t) = htim x l.
Proof.
  induction l as [|z l IH]; simpl; [discriminate|]. destruct (N.eqb (ti_tid z) i).
  - intros E; inversion E; subst. lia.
  - intros E. specialize (IH E). simpl. lia.
Qed.
Lemma htim_update x l i t f : ti_find l i = Some t -> ti_ci (f t) = ti_ci t -> htim x (ti_update l i f) = htim x l.
Proof.
  induction l as [|z l IH]; simpl; [discriminate|]. destruct (N.eqb (ti_tid z) i).
  - intros E F; inversion E; subst. simpl. rewrite F. lia.
  - intros E F. specialize (IH E F). simpl. lia.
Qed.

Lemma hci_setq x c q : hci x (ci_setq c q) = hci x c.
Proof. destruct c as [u i kd caps q0]. unfold ci_setq. rewrite !hci_eq. reflexivity. Qed.
Lemma hci_unq x c : hci x (ci_unq c) = hci x c.
Proof. destruct c as [u i kd caps q0]. unfold ci_unq. rewrite !hci_eq. reflexivity. Qed.
Lemma hci_as_call x a ci arg : hci x (as_call a ci arg) = hind x (HR a) + hcc x ci.
Proof. destruct ci as [u i kd caps q]. unfold as_call. rewrite hci_eq, hcc_eq. reflexivity. Qed.
Lemma hci_real x c : rkb (ci_kind c) = true -> hci x c = hkind x (ci_kind c) + hcc x c.
Proof. unfold hci. intros ->. reflexivity. Qed.

(* slabs *)
Lemma hslab_list_set_occ x l i c old :
  nth_error l i = Some old ->
  hslab x (list_set l i (SOcc c)) + hslab x [old] = hslab x l + hind x (HO c) + hind x (HR c).
Proof.
  revert i. induction l as [|e l IH]; intros i; destruct i; simpl; try discriminate.
  - intros Q; inversion Q; subst. destruct old; simpl; lia.
  - intros Q. specialize (IH _ Q). destruct e; simpl in *; lia.
Qed.

Lemma hslab_list_set_vac x l i n old :
  nth_error l i = Some old ->
  hslab x (list_set l i (SVac n)) + hslab x [old] = hslab x l.
Proof.
  revert i. induction l as [|e l IH]; intros i; destruct i; simpl; try discriminate.
  - intros Q; inversion Q; subst. destruct old; simpl; lia.
  - intros Q. specialize (IH _ Q). destruct e; simpl in *; lia.
Qed.

Lemma hslab_insert x l nx c l' nx' key :
  slab_insert l nx c = (l', nx', key) -> hslab x l' = hslab x l + hind x (HO c) + hind x (HR c).
Proof.
  unfold slab_insert. destruct (nth_error l (N.to_nat nx)) as [[c0|n]|] eqn:E; intros Q; inversion Q; subst.
  - rewrite hslab_app. simpl. lia.
  - pose proof (hslab_list_set_occ x _ _ c _ E) as G. simpl in G. lia.
  - rewrite hslab_app. simpl. lia.
Qed.

(* ------------------------------------------------------------------ *)
(** * Census of the state operations *)

Ltac stsimp :=
  cbn [dk alive now start mainq lazyq idleq timers tnext tvars recreate actors fwds env frames nuid logseq
       logfilter haslogger shut tr
       set_alive set_now set_start set_mainq set_lazyq set_idleq set_timers set_tnext set_tvars set_recreate
       set_actors set_fwds set_env set_frames set_nuid set_logseq set_logfilter set_haslogger set_shut set_tr
       emit push_frame push_main upd_actor f_loc f_ctx f_die] in *.

Definition G (x : hres) (s : st) : Z := cred x (tr s) - ctr x s.

Lemma ctr_same x s s' : actors s' = actors s -> fwds s' = fwds s -> ctr x s' = ctr x s.
Proof. intros A B. unfold ctr. rewrite A, B. reflexivity. Qed.

Lemma H_same x s s' :
  mainq s' = mainq s -> lazyq s' = lazyq s -> idleq s' = idleq s -> timers s' = timers s -> actors s' = actors s ->
  env s' = env s -> frames s' = frames s -> fwds s' = fwds s -> H x s' = H x s.
Proof. intros A B C D E F G0 I. unfold H, hst. rewrite (ctr_same x s s' E I), A, B, C, D, E, F, G0, I. reflexivity. Qed.

Lemma G_same x s s' : tr s' = tr s -> actors s' = actors s -> fwds s' = fwds s -> G x s' = G x s.
Proof. intros A B C. unfold G. rewrite (ctr_same x s s' B C), A. reflexivity. Qed.

Lemma H_emit x s e : H x (emit s e) = H x s. Proof. reflexivity. Qed.
Lemma G_emit x s e : G x (emit s e) = G x s + cred1 x e.
Proof. unfold G. rewrite (ctr_same x s (emit s e)) by reflexivity. stsimp. simpl cred. lia. Qed.

Lemma H_set_alive x s v : H x (set_alive s v) = H x s. Proof. reflexivity. Qed.
Lemma H_set_now x s v : H x (set_now s v) = H x s. Proof. reflexivity. Qed.
Lemma H_set_start x s v : H x (set_start s v) = H x s. Proof. reflexivity. Qed.
Lemma H_set_tnext x s v : H x (set_tnext s v) = H x s. Proof. reflexivity. Qed.
Lemma H_set_tvars x s v : H x (set_tvars s v) = H x s. Proof. reflexivity. Qed.
Lemma H_set_recreate x s v : H x (set_recreate s v) = H x s. Proof. reflexivity. Qed.
Lemma H_set_nuid x s v : H x (set_nuid s v) = H x s. Proof. reflexivity. Qed.
Lemma H_set_logseq x s v : H x (set_logseq s v) = H x s. Proof. reflexivity. Qed.
Lemma H_set_logfilter x s v : H x (set_logfilter s v) = H x s. Proof. reflexivity. Qed.
Lemma H_set_haslogger x s v : H x (set_haslogger s v) = H x s. Proof. reflexivity. Qed.
Lemma H_set_shut x s v : H x (set_shut s v) = H x s. Proof. reflexivity. Qed.

Lemma G_set_alive x s v : G x (set_alive s v) = G x s. Proof. reflexivity. Qed.
Lemma G_set_now x s v : G x (set_now s v) = G x s. Proof. reflexivity. Qed.
Lemma G_set_start x s v : G x (set_start s v) = G x s. Proof. reflexivity. Qed.
Lemma G_set_tnext x s v : G x (set_tnext s v) = G x s. Proof. reflexivity. Qed.
Lemma G_set_tvars x s v : G x (set_tvars s v) = G x s. Proof. reflexivity. Qed.
Lemma G_set_recreate x s v : G x (set_recreate s v) = G x s. Proof. reflexivity. Qed.
Lemma G_set_nuid x s v : G x (set_nuid s v) = G x s. Proof. reflexivity. Qed.
Lemma G_set_logseq x s v : G x (set_logseq s v) = G x s. Proof. reflexivity. Qed.
Lemma G_set_logfilter x s v : G x (set_logfilter s v) = G x s. Proof. reflexivity. Qed.
Lemma G_set_haslogger x s v : G x (set_haslogger s v) = G x s. Proof. reflexivity. Qed.
Lemma G_set_shut x s v : G x (set_shut s v) = G x s. Proof. reflexivity. Qed.
Lemma G_set_mainq x s v : G x (set_mainq s v) = G x s. Proof. reflexivity. Qed.
Lemma G_set_lazyq x s v : G x (set_lazyq s v) = G x s. Proof. reflexivity. Qed.
Lemma G_set_idleq x s v : G x (set_idleq s v) = G x s. Proof. reflexivity. Qed.
Lemma G_set_timers x s v : G x (set_timers s v) = G x s. Proof. reflexivity. Qed.
Lemma G_set_env x s v : G x (set_env s v) = G x s. Proof. reflexivity. Qed.
Lemma G_set_frames x s v : G x (set_frames s v) = G x s. Proof. reflexivity. Qed.
Lemma G_push_frame x s c loc : G x (push_frame s c loc) = G x s. Proof. reflexivity. Qed.
Lemma G_push_main x s ci : G x (push_main s ci) = G x s. Proof. reflexivity. Qed.

Lemma H_set_mainq x s v : H x (set_mainq s v) = H x s - hq x (mainq s) + hq x v.
Proof. unfold H, hst. rewrite (ctr_same x s (set_mainq s v)) by reflexivity. stsimp. lia. Qed.
Lemma H_set_lazyq x s v : H x (set_lazyq s v) = H x s - hq x (lazyq s) + hq x v.
Proof. unfold H, hst. rewrite (ctr_same x s (set_lazyq s v)) by reflexivity. stsimp. lia. Qed.
Lemma H_set_idleq x s v : H x (set_idleq s v) = H x s - hq x (idleq s) + hq x v.
Proof. unfold H, hst. rewrite (ctr_same x s (set_idleq s v)) by reflexivity. stsimp. lia. Qed.
Lemma H_set_timers x s v : H x (set_timers s v) = H x s - htim x (timers s) + htim x v.
Proof. unfold H, hst. rewrite (ctr_same x s (set_timers s v)) by reflexivity. stsimp. lia. Qed.
Lemma H_set_env x s v : H x (set_env s v) = H x s - henv x (env s) + henv x v.
Proof. unfold H, hst. rewrite (ctr_same x s (set_env s v)) by reflexivity. stsimp. lia. Qed.
Lemma H_set_frames x s v : H x (set_frames s v) = H x s - hfrs x (frames s) + hfrs x v.
Proof. unfold H, hst. rewrite (ctr_same x s (set_frames s v)) by reflexivity. stsimp. lia. Qed.

Lemma H_push_frame x s c loc : H x (push_frame s c loc) = H x s + henv x loc.
Proof. unfold push_frame. rewrite H_set_frames. simpl. lia. Qed.
Lemma H_push_main x s ci : H x (push_main s ci) = H x s + hci x ci.
Proof. unfold push_main. rewrite H_set_mainq, hq_app. simpl. lia. Qed.

Lemma H_submit x s q ci : q <> QTimer -> H x (submit s q ci) = H x s + hci x ci.
Proof.
  intros NQ. unfold submit. destruct q; try congruence.
  - rewrite H_push_main, H_emit, hci_setq. lia.
  - rewrite H_set_lazyq, hq_app, H_emit. stsimp. simpl. rewrite hci_setq. lia.
  - rewrite H_set_idleq, hq_app, H_emit. stsimp. simpl. rewrite hci_setq. lia.
Qed.
Lemma G_submit x s q ci : G x (submit s q ci) = G x s.
Proof. unfold submit. destruct q; unfold G; reflexivity. Qed.

Lemma H_timer_add x s k v t ci : H x (timer_add s k v t ci) = H x s + hci x ci.
Proof.
  unfold timer_add. rewrite H_set_tvars, H_set_tnext, H_set_timers, htim_app, !H_emit. stsimp. simpl.
  rewrite hci_setq. lia.
Qed.
Lemma G_timer_add x s k v t ci : G x (timer_add s k v t ci) = G x s.
Proof. unfold timer_add, G. reflexivity. Qed.

(* actor cells *)
Lemma ctr_upd_some x s a y z : aget (actors s) a = Some z -> ctr x (upd_actor s a y) = ctr x s - cact x a z + cact x a y.
Proof.
  intros E. unfold ctr, cact, upd_actor. stsimp. destruct x as [b|b|g|tt]; try lia.
  - destruct (N.eqb b a) eqn:Q.
    + apply N.eqb_eq in Q. subst b. rewrite aget_aset_eq, E. lia.
    + rewrite aget_aset_neq by (intros ->; rewrite N.eqb_refl in Q; discriminate). lia.
  - destruct (N.eqb b a) eqn:Q.
    + apply N.eqb_eq in Q. subst b. rewrite aget_aset_eq, E. lia.
    + rewrite aget_aset_neq by (intros ->; rewrite N.eqb_refl in Q; discriminate). lia.
Qed.

Lemma ctr_upd_none x s a y : aget (actors s) a = None -> ctr x (upd_actor s a y) = ctr x s + cact x a y.
Proof.
  intros E. unfold ctr, cact, upd_actor. stsimp. destruct x as [b|b|g|tt]; try lia.
  - destruct (N.eqb b a) eqn:Q.
    + apply N.eqb_eq in Q. subst b. rewrite aget_aset_eq, E. lia.
    + rewrite aget_aset_neq by (intros ->; rewrite N.eqb_refl in Q; discriminate). lia.
  - destruct (N.eqb b a) eqn:Q.
    + apply N.eqb_eq in Q. subst b. rewrite aget_aset_eq, E. lia.
    + rewrite aget_aset_neq by (intros ->; rewrite N.eqb_refl in Q; discriminate). lia.
Qed.

Lemma H_upd_some x s a y z : aget (actors s) a = Some z ->
  H x (upd_actor s a y) = H x s - hactor x z + hactor x y + cact x a z - cact x a y.
Proof.
  intros E. unfold H. rewrite (ctr_upd_some x s a y z E). unfold hst, upd_actor. stsimp.
  pose proof (hacts_aset_some x _ _ y _ E). lia.
Qed.
Lemma H_upd_none x s a y : aget (actors s) a = None ->
  H x (upd_actor s a y) = H x s + hactor x y - cact x a y.
Proof.
  intros E. unfold H. rewrite (ctr_upd_none x s a y E). unfold hst, upd_actor. stsimp.
  pose proof (hacts_aset_none x _ _ y E). lia.
Qed.
Lemma G_upd_some x s a y z : aget (actors s) a = Some z -> G x (upd_actor s a y) = G x s + cact x a z - cact x a y.
Proof. intros E. unfold G. rewrite (ctr_upd_some x s a y z E). stsimp. lia. Qed.
Lemma G_upd_none x s a y : aget (actors s) a = None -> G x (upd_actor s a y) = G x s - cact x a y.
Proof. intros E. unfold G. rewrite (ctr_upd_none x s a y E). stsimp. lia. Qed.

(* Fwd objects *)
Lemma ctr_fwd_some x s f o z : aget (fwds s) f = Some z ->
  ctr x (set_fwds s (aset (fwds s) f o)) = ctr x s - cfw x f z + cfw x f o.
Proof.
  intros E. unfold ctr, cfw. stsimp. destruct x as [b|b|g|tt]; try lia.
  destruct (N.eqb g f) eqn:Q.
  - apply N.eqb_eq in Q. subst g. rewrite aget_aset_eq, E. lia.
  - rewrite aget_aset_neq by (intros ->; rewrite N.eqb_refl in Q; discriminate). lia.
Qed.
Lemma ctr_fwd_none x s f o : aget (fwds s) f = None ->
  ctr x (set_fwds s (aset (fwds s) f o)) = ctr x s + cfw x f o.
Proof.
  intros E. unfold ctr, cfw. stsimp. destruct x as [b|b|g|tt]; try lia.
  destruct (N.eqb g f) eqn:Q.
  - apply N.eqb_eq in Q. subst g. rewrite aget_aset_eq, E. lia.
  - rewrite aget_aset_neq by (intros ->; rewrite N.eqb_refl in Q; discriminate). lia.
Qed.
Lemma H_fwd_some x s f o z : aget (fwds s) f = Some z ->
  H x (set_fwds s (aset (fwds s) f o)) = H x s - hfw x z + hfw x o + cfw x f z - cfw x f o.
Proof.
  intros E. unfold H. rewrite (ctr_fwd_some x s f o z E). unfold hst. stsimp.
  pose proof (hfwds_aset_some x _ _ o _ E). lia.
Qed.
Lemma H_fwd_none x s f o : aget (fwds s) f = None ->
  H x (set_fwds s (aset (fwds s) f o)) = H x s + hfw x o - cfw x f o.
Proof.
  intros E. unfold H. rewrite (ctr_fwd_none x s f o E). unfold hst. stsimp.
  pose proof (hfwds_aset_none x _ _ o E). lia.
Qed.
Lemma G_fwd_some x s f o z : aget (fwds s) f = Some z ->
  G x (set_fwds s (aset (fwds s) f o)) = G x s + cfw x f z - cfw x f o.
Proof. intros E. unfold G. rewrite (ctr_fwd_some x s f o z E). stsimp. lia. Qed.
Lemma G_fwd_none x s f o : aget (fwds s) f = None ->
  G x (set_fwds s (aset (fwds s) f o)) = G x s - cfw x f o.
Proof. intros E. unfold G. rewrite (ctr_fwd_none x s f o E). stsimp. lia. Qed.

Lemma hactor_with_rc x y v : hactor x (with_rc y v) = hactor x y. Proof. reflexivity. Qed.
Lemma hactor_with_strong x y v : hactor x (with_strong y v) = hactor x y. Proof. reflexivity. Qed.
Lemma hactor_with_state x y st' : hactor x (with_state y st') = hstate x st' + hnotopt x (a_notify y). Proof. reflexivity. Qed.
Lemma hactor_unf x y sa : a_state y = sa -> hactor x y = hstate x sa + hnotopt x (a_notify y).
Proof. intros <-. reflexivity. Qed.

Lemma H_log_rec x s a b c d : H x (log_rec s a b c d) = H x s.
Proof. unfold log_rec. destruct (allows s b && haslogger s); reflexivity. Qed.
Lemma G_log_rec x s a b c d : G x (log_rec s a b c d) = G x s.
Proof. unfold log_rec. destruct (allows s b && haslogger s); [rewrite G_emit; simpl; lia | reflexivity]. Qed.
Lemma log_rec_actors s a b c d : actors (log_rec s a b c d) = actors s.
Proof. unfold log_rec. destruct (allows s b && haslogger s); reflexivity. Qed.
Lemma log_rec_fwds s a b c d : fwds (log_rec s a b c d) = fwds s.
Proof. unfold log_rec. destruct (allows s b && haslogger s); reflexivity. Qed.

Lemma H_target_ev x s ci : H x (target_ev s ci) = H x s.
Proof. unfold target_ev. destruct ci as [u i kd caps q]. destruct kd; reflexivity. Qed.
Lemma G_target_ev x s ci : G x (target_ev s ci) = G x s.
Proof. unfold target_ev. destruct ci as [u i kd caps q]. destruct kd; auto; rewrite G_emit; simpl; lia. Qed.

(* cloning a reference: one more reference, if the cell is in the table *)
Lemma H_ref_clone x s a y : aget (actors s) a = Some y ->
  H x (ref_clone s a) = H x s - (cact x a (with_rc y (oz (minrc_clone (a_rc y)))) - cact x a y).
Proof.
  intros E. unfold ref_clone. rewrite E. destruct (a_freed y).
  - rewrite (H_upd_some x _ a _ y) by (stsimp; exact E). rewrite H_emit, hactor_with_rc. lia.
  - rewrite (H_upd_some x _ a _ y) by exact E. rewrite hactor_with_rc. lia.
Qed.
Lemma G_ref_clone x s a y : aget (actors s) a = Some y ->
  G x (ref_clone s a) = G x s - (cact x a (with_rc y (oz (minrc_clone (a_rc y)))) - cact x a y).
Proof.
  intros E. unfold ref_clone. rewrite E. destruct (a_freed y).
  - rewrite (G_upd_some x _ a _ y) by (stsimp; exact E). rewrite G_emit. simpl. lia.
  - rewrite (G_upd_some x _ a _ y) by exact E. lia.
Qed.
Lemma H_ref_clone_none x s a : aget (actors s) a = None -> H x (ref_clone s a) = H x s.
Proof. intros E. unfold ref_clone. rewrite E. reflexivity. Qed.
Lemma G_ref_clone_none x s a : aget (actors s) a = None -> G x (ref_clone s a) = G x s.
Proof. intros E. unfold ref_clone. rewrite E. rewrite G_emit. simpl. lia. Qed.

(* scopes *)
Lemma take_H x s h o s' : take s h = (o, s') -> H x s' + hopt x o = H x s.
Proof.
  unfold take. destruct (frames s) as [|fr rest] eqn:F.
  - destruct (aget (env s) h) as [v|] eqn:E; intros Q; inversion Q; subst; simpl; [|lia].
    rewrite H_set_env. pose proof (henv_aget x _ _ _ E). lia.
  - destruct (aget (f_loc fr) h) as [v|] eqn:L.
    + intros Q; inversion Q; subst. simpl. rewrite H_set_frames, F. simpl.
      pose proof (henv_aget x _ _ _ L). lia.
    + destruct (aget (env s) h) as [v|] eqn:E; intros Q; inversion Q; subst; simpl; [|lia].
      rewrite H_set_env. pose proof (henv_aget x _ _ _ E). lia.
Qed.
Lemma take_G x s h o s' : take s h = (o, s') -> G x s' = G x s.
Proof.
  unfold take. destruct (frames s) as [|fr rest].
  - destruct (aget (env s) h); intros Q; inversion Q; reflexivity.
  - destruct (aget (f_loc fr) h); [intros Q; inversion Q; reflexivity|].
    destruct (aget (env s) h); intros Q; inversion Q; reflexivity.
Qed.
Lemma take_same s h o s' : take s h = (o, s') -> actors s' = actors s /\ fwds s' = fwds s /\ tr s' = tr s.
Proof.
  unfold take. destruct (frames s) as [|fr rest].
  - destruct (aget (env s) h); intros Q; inversion Q; auto.
  - destruct (aget (f_loc fr) h); [intros Q; inversion Q; auto|].
    destruct (aget (env s) h); intros Q; inversion Q; auto.
Qed.

Lemma take_lookup s h : fst (take s h) = lookup s h.
Proof.
  unfold take, lookup. destruct (frames s) as [|fr rest].
  - destruct (aget (env s) h); reflexivity.
  - destruct (aget (f_loc fr) h); [reflexivity|]. destruct (aget (env s) h); reflexivity.
Qed.

(* a value in scope is counted in the state *)
Lemma lookup_le x s h v : lookup s h = Some v -> hv x v <= hst x s.
Proof.
  unfold lookup, hst. pose proof (hq_nn x (mainq s)). pose proof (hq_nn x (lazyq s)). pose proof (hq_nn x (idleq s)).
  pose proof (htim_nn x (timers s)). pose proof (hacts_nn x (actors s)). pose proof (henv_nn x (env s)).
  pose proof (hfrs_nn x (frames s)). pose proof (hfwds_nn x (fwds s)).
  destruct (frames s) as [|fr rest] eqn:F.
  - intros E. pose proof (henv_aget_le x _ _ _ E). lia.
  - destruct (aget (f_loc fr) h) as [w|] eqn:L.
    + intros Q; inversion Q; subst. pose proof (henv_aget_le x _ _ _ L). simpl in *. pose proof (hfrs_nn x rest). lia.
    + intros E. pose proof (henv_aget_le x _ _ _ E). lia.
Qed.

Lemma take_caps_H x ids : forall s l s', take_caps ids s = (l, s') -> H x s' + henv x l = H x s.
Proof.
  induction ids as [|h r IH]; simpl; intros s l s' E.
  - inversion E; subst. simpl. lia.
  - destruct (take s h) as [[v|] s1] eqn:T.
    + destruct (take_caps r s1) as [l2 s2] eqn:T2. inversion E; subst.
      pose proof (IH _ _ _ T2). pose proof (take_H x _ _ _ _ T). simpl in *. lia.
    + pose proof (IH _ _ _ E). pose proof (take_H x _ _ _ _ T). simpl in *. lia.
Qed.
Lemma take_caps_same ids : forall s l s', take_caps ids s = (l, s') -> actors s' = actors s /\ fwds s' = fwds s /\ tr s' = tr s.
Proof.
  induction ids as [|h r IH]; simpl; intros s l s' E.
  - inversion E; auto.
  - destruct (take s h) as [[v|] s1] eqn:T.
    + destruct (take_caps r s1) as [l2 s2] eqn:T2. inversion E; subst.
      destruct (IH _ _ _ T2) as (A & B & C). destruct (take_same _ _ _ _ T) as (A1 & B1 & C1). repeat split; congruence.
    + destruct (IH _ _ _ E) as (A & B & C). destruct (take_same _ _ _ _ T) as (A1 & B1 & C1). repeat split; congruence.
Qed.
Lemma take_caps_G x ids s l s' : take_caps ids s = (l, s') -> G x s' = G x s.
Proof. intros E. destruct (take_caps_same _ _ _ _ E) as (A & B & C). apply G_same; auto. Qed.

Lemma take_env_caps_H x ids : forall s l s', take_env_caps ids s = (l, s') -> H x s' + henv x l = H x s.
Proof.
  induction ids as [|h r IH]; simpl; intros s l s' E.
  - inversion E; subst. simpl. lia.
  - destruct (aget (env s) h) as [v|] eqn:A.
    + destruct (take_env_caps r (set_env s (adel (env s) h))) as [l2 s2] eqn:T2. inversion E; subst.
      pose proof (IH _ _ _ T2) as G0. rewrite H_set_env in G0. pose proof (henv_aget x _ _ _ A). simpl. lia.
    + eapply IH; eauto.
Qed.
Lemma take_env_caps_same ids : forall s l s', take_env_caps ids s = (l, s') -> actors s' = actors s /\ fwds s' = fwds s /\ tr s' = tr s.
Proof.
  induction ids as [|h r IH]; simpl; intros s l s' E.
  - inversion E; auto.
  - destruct (aget (env s) h) as [v|].
    + destruct (take_env_caps r (set_env s (adel (env s) h))) as [l2 s2] eqn:T2. inversion E; subst.
      destruct (IH _ _ _ T2) as (A & B & C). auto.
    + eapply IH; eauto.
Qed.

Lemma bind_H x s h v l s' : bind s h v = (l, s') -> hmops x l + H x s' = H x s + hv x v.
Proof.
  unfold bind. destruct (aget (env s) h) as [old|] eqn:E; intros Q; inversion Q; subst; simpl; rewrite H_set_env.
  - pose proof (henv_aset_some x _ _ v _ E). lia.
  - pose proof (henv_aset_none x _ _ v E). lia.
Qed.
Lemma bind_G x s h v l s' : bind s h v = (l, s') -> G x s' = G x s.
Proof. unfold bind. destruct (aget (env s) h); intros Q; inversion Q; reflexivity. Qed.

Lemma bad_H x s c l s' : bad s c = (l, s') -> hmops x l + H x s' = H x s.
Proof. unfold bad. intros Q; inversion Q; subst. rewrite H_emit. simpl. lia. Qed.
Lemma bad_G x s c l s' : bad s c = (l, s') -> G x s' = G x s.
Proof. unfold bad. intros Q; inversion Q; subst. rewrite G_emit. simpl. lia. Qed.

(* closure instances *)
Lemma inst_H x c mk s ci s' : inst c mk s = (ci, s') -> hcc x ci + H x s' = H x s /\ ci_kind ci = mk (clo_body c).
Proof.
  unfold inst. destruct (take_caps (clo_caps c) s) as [caps s1] eqn:T. intros Q; inversion Q; subst.
  rewrite hcc_eq, H_emit, H_set_nuid. pose proof (take_caps_H x _ _ _ _ T). split; [lia | reflexivity].
Qed.
Lemma inst_G x c mk s ci s' : inst c mk s = (ci, s') -> G x s' = G x s.
Proof.
  unfold inst. destruct (take_caps (clo_caps c) s) as [caps s1] eqn:T. intros Q; inversion Q; subst.
  rewrite G_emit, G_set_nuid, (take_caps_G x _ _ _ _ T). simpl. lia.
Qed.
Lemma inst_same c mk s ci s' : inst c mk s = (ci, s') -> actors s' = actors s /\ fwds s' = fwds s.
Proof.
  unfold inst. destruct (take_caps (clo_caps c) s) as [caps s1] eqn:T. intros Q; inversion Q; subst.
  destruct (take_caps_same _ _ _ _ T) as (A & B & _). stsimp. auto.
Qed.

Lemma target_ev_same s ci : actors (target_ev s ci) = actors s /\ fwds (target_ev s ci) = fwds s.
Proof. unfold target_ev. destruct ci as [u i kd caps q]. destruct kd; auto. Qed.

Lemma inst_call_H x c mk s ci s' : inst_call c mk s = (ci, s') -> hcc x ci + H x s' = H x s /\ ci_kind ci = mk (clo_body c).
Proof.
  unfold inst_call. destruct (inst c mk s) as [ci1 s1] eqn:I. intros Q; inversion Q; subst.
  rewrite H_target_ev. eapply inst_H; eauto.
Qed.
Lemma inst_call_G x c mk s ci s' : inst_call c mk s = (ci, s') -> G x s' = G x s.
Proof.
  unfold inst_call. destruct (inst c mk s) as [ci1 s1] eqn:I. intros Q; inversion Q; subst.
  rewrite G_target_ev. eapply inst_G; eauto.
Qed.
Lemma inst_call_same c mk s ci s' : inst_call c mk s = (ci, s') -> actors s' = actors s /\ fwds s' = fwds s.
Proof.
  unfold inst_call. destruct (inst c mk s) as [ci1 s1] eqn:I. intros Q; inversion Q; subst.
  destruct (target_ev_same s1 ci) as [A B]. destruct (inst_same _ _ _ _ _ I) as [A1 B1]. split; congruence.
Qed.

Lemma inst_nocaps_H x c mk s ci s' : inst_nocaps c mk s = (ci, s') -> hcc x ci = 0 /\ H x s' = H x s /\ ci_kind ci = mk (clo_body c).
Proof. unfold inst_nocaps. intros Q; inversion Q; subst. rewrite hcc_eq. repeat split. Qed.
Lemma inst_nocaps_G x c mk s ci s' : inst_nocaps c mk s = (ci, s') -> G x s' = G x s.
Proof. unfold inst_nocaps. intros Q; inversion Q; subst. rewrite G_emit, G_set_nuid. simpl. lia. Qed.
Lemma inst_nocaps_same c mk s ci s' : inst_nocaps c mk s = (ci, s') -> actors s' = actors s /\ fwds s' = fwds s.
Proof. unfold inst_nocaps. intros Q; inversion Q; subst. auto. Qed.

Lemma inst_env_H x c mk s ci s' : inst_env c mk s = (ci, s') -> hcc x ci + H x s' = H x s /\ ci_kind ci = mk (clo_body c).
Proof.
  unfold inst_env. destruct (take_env_caps (clo_caps c) s) as [caps s1] eqn:T. intros Q; inversion Q; subst.
  rewrite hcc_eq, H_emit, H_set_nuid. pose proof (take_env_caps_H x _ _ _ _ T). split; [lia | reflexivity].
Qed.
Lemma inst_env_G x c mk s ci s' : inst_env c mk s = (ci, s') -> G x s' = G x s.
Proof.
  unfold inst_env. destruct (take_env_caps (clo_caps c) s) as [caps s1] eqn:T. intros Q; inversion Q; subst.
  destruct (take_env_caps_same _ _ _ _ T) as (A & B & C).
  rewrite G_emit, G_set_nuid, (G_same x s s1) by auto. simpl. lia.
Qed.

Lemma H_tok_script x script : forall s, H x (tok_script s script) = H x s.
Proof.
  unfold tok_script. induction script as [|c r IH]; intros s; [reflexivity|]. cbn [fold_left].
  destruct (inst_env c KPlain s) as [ci s1] eqn:I. rewrite IH, H_submit by discriminate.
  destruct (inst_env_H x _ _ _ _ _ I) as [A B]. unfold hci. rewrite B. simpl. lia.
Qed.
Lemma G_tok_script x script : forall s, G x (tok_script s script) = G x s.
Proof.
  unfold tok_script. induction script as [|c r IH]; intros s; [reflexivity|]. cbn [fold_left].
  destruct (inst_env c KPlain s) as [ci s1] eqn:I. rewrite IH, G_submit. eapply inst_env_G; eauto.
Qed.

Lemma state_drops_h x a sa s l s' : state_drops a sa s = (l, s') -> s' = s /\ hmops x l = hstate x sa.
Proof.
  unfold state_drops. destruct sa; intros Q; inversion Q; subst; split; auto; simpl.
  - apply hmops_dropitems.
  - rewrite hmops_app, hmops_drops, hmops_slab_drops. lia.
Qed.

Lemma var_timer_find s k v t : var_timer s k v = Some t -> exists i, ti_find (timers s) i = Some t /\ ti_tid t = i.
Proof.
  unfold var_timer. destruct (vget (tvars s) k v) as [i|]; [|discriminate]. intros E. exists i. split; auto.
  revert E. induction (timers s) as [|z l IH]; simpl; [discriminate|].
  destruct (N.eqb (ti_tid z) i) eqn:Q; [intros R; inversion R; subst; apply N.eqb_eq; auto | auto].
Qed.

Lemma H_fire x t s l s' : fire t s = (l, s') -> hq x l + H x s' = H x s.
Proof.
  unfold fire. intros Q; inversion Q; subst. rewrite hq_map_ti, htim_sort, H_set_timers.
  pose proof (htim_filter x (ti_due t) (timers s)).
  destruct (ambiguous _); [rewrite H_emit; stsimp|]; lia.
Qed.
Lemma G_fire x t s l s' : fire t s = (l, s') -> G x s' = G x s.
Proof.
  unfold fire. intros Q; inversion Q; subst. rewrite G_set_timers.
  destruct (ambiguous _); [rewrite G_emit; simpl; lia | reflexivity].
Qed.

