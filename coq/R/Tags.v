(** Layer R proofs, part 3: every closure instance sits where its tag says.

    [Tags k s]: plain closures in the main / lazy / idle queues and in the timer set carry the tag of that
    queue; calls held for a Prep actor are calls; and the items the continuation is about to run carry the
    tags allowed in the current phase of [Stakker::run] (before the main batch: at most the single idle
    item; in the loop: main, lazy and timer items, never an idle one). *)
From Coq Require Import ZArith NArith List Bool Lia.
From Stk Require Import Lib.U Gen.SrcCount Gen.SrcCore Gen.SrcLog R.Syntax R.Rt R.Shape R.Eff.
Import ListNotations.
Local Open Scope Z_scope.

Definition tagged (q : qk) (c : citem) : Prop := ci_call c = false /\ ci_sq c = Some q.
Definition main_ok (c : citem) : Prop := ci_call c = false -> ci_sq c = Some QMain.
Definition is_callb (c : citem) : Prop := ci_call c = true.

Definition loop_item (c : citem) : Prop :=
  ci_call c = false -> ci_sq c = Some QMain \/ ci_sq c = Some QLazy \/ ci_sq c = Some QTimer.

Definition loop_mop (m : mop) : Prop := match m with MRunItem c => loop_item c | _ => True end.

(* the work in front of [MRunMain]: the idle item not yet started / running / finished or absent *)
Inductive idle_work : list mop -> Prop :=
| iw_item c : tagged QIdle c -> idle_work [MRunItem c]
| iw_body u w1 w2 : quiet w1 -> quiet w2 -> idle_work (w1 ++ MEndBody u FNone :: w2)
| iw_quiet w : quiet w -> idle_work w.

Definition work_tags (k : list mop) : Prop :=
  match phase_of k with
  | Some (PRunMain _) => idle_work (work_of k)
  | Some (PLoop _) => Forall loop_mop (work_of k)
  | _ => True
  end.

Record Tags (k : list mop) (s : st) : Prop := mkTags {
  tg_main : Forall main_ok (mainq s);
  tg_lazy : Forall (tagged QLazy) (lazyq s);
  tg_idle : Forall (tagged QIdle) (idleq s);
  tg_timers : Forall (tagged QTimer) (map ti_ci (timers s));
  tg_held : forall a x, aget (actors s) a = Some x -> Forall is_callb (held_of x);
  tg_work : work_tags k }.

(* the state part *)
Record QTags (s : st) : Prop := mkQTags {
  qt_main : Forall main_ok (mainq s);
  qt_lazy : Forall (tagged QLazy) (lazyq s);
  qt_idle : Forall (tagged QIdle) (idleq s);
  qt_timers : Forall (tagged QTimer) (map ti_ci (timers s));
  qt_held : forall a x, aget (actors s) a = Some x -> Forall is_callb (held_of x) }.

Lemma Tags_split k s : Tags k s <-> QTags s /\ work_tags k.
Proof. split. intros [A B C D E F]. split; [constructor|]; auto. intros [[A B C D E] F]. constructor; auto. Qed.

(* ------------------------------------------------------------------ *)
(** * Association-list facts *)

Lemma aget_aset_eq {X} (l : list (N * X)) i x : aget (aset l i x) i = Some x.
Proof. induction l as [|[j y] r IH]; simpl. rewrite N.eqb_refl; auto. destruct (N.eqb i j) eqn:E; simpl; rewrite ?N.eqb_refl, ?E; auto. Qed.

Lemma aget_aset_neq {X} (l : list (N * X)) i j x : i <> j -> aget (aset l i x) j = aget l j.
Proof.
  intros H. induction l as [|[k y] r IH]; simpl.
  - destruct (N.eqb j i) eqn:E; auto. apply N.eqb_eq in E. congruence.
  - destruct (N.eqb i k) eqn:E; simpl.
    + apply N.eqb_eq in E; subst. destruct (N.eqb j k) eqn:E2; auto.
      apply N.eqb_eq in E2. congruence.
    + destruct (N.eqb j k); auto.
Qed.

(* ------------------------------------------------------------------ *)
(** * Effects preserve the state part *)

Lemma tagged_setq c q : ci_call c = false -> tagged q (ci_setq c q).
Proof. destruct c as [u i k caps sq]. unfold tagged, ci_call; simpl. auto. Qed.

Lemma call_setq c q : ci_call (ci_setq c q) = ci_call c.
Proof. destruct c; reflexivity. Qed.

Lemma eff_qtags s s' : eff s s' -> QTags s -> QTags s'.
Proof.
  intros E Q. induction E; auto; specialize (IHE Q); destruct IHE as [A B C D HH].
  - constructor; auto.
  - constructor; auto.
  - constructor; auto.
  - (* submit plain *)
    destruct q; try congruence; unfold submit; constructor; simpl; auto.
    + apply Forall_app; split; auto. constructor; auto. intros _. apply tagged_setq; auto.
    + apply Forall_app; split; auto. constructor; auto. apply tagged_setq; auto.
    + apply Forall_app; split; auto. constructor; auto. apply tagged_setq; auto.
  - (* submit call *)
    unfold submit; constructor; simpl; auto.
    apply Forall_app; split; auto. constructor; auto. intros X. rewrite call_setq in X. congruence.
  - (* push_main *)
    unfold push_main; constructor; simpl; auto.
    apply Forall_app; split; auto. constructor; auto. intros X. congruence.
  - (* timer_add *)
    unfold timer_add; constructor; simpl; auto.
    rewrite map_app. apply Forall_app; split; auto. simpl. constructor; auto. apply tagged_setq; auto.
  - (* set_timers *)
    constructor; simpl; auto.
    rewrite Forall_forall in *. intros x Hx. apply D. apply H. exact Hx.
  - constructor; auto.
  - constructor; auto.
  - constructor; auto.
  - constructor; auto.
  - constructor; auto.
  - constructor; auto.
  - constructor; auto.
  - constructor; auto.
  - (* upd_actor *)
    constructor; simpl; auto.
    intros b y G. unfold upd_actor in G. simpl in G.
    destruct (N.eq_dec a b) as [->|NE].
    + rewrite aget_aset_eq in G. inversion G; subst.
      rewrite Forall_forall. intros c Hc. destruct (H c Hc) as [X|[z [Z1 Z2]]]; auto.
      specialize (HH _ _ Z1). rewrite Forall_forall in HH. apply HH; auto.
    + rewrite aget_aset_neq in G; auto. eapply HH; eauto.
Qed.

(* ------------------------------------------------------------------ *)
(** * The work part *)

Lemma quiet_loop l : quiet l -> Forall loop_mop l.
Proof.
  intros [A B]. induction l as [|m l IH]; constructor.
  - destruct m; simpl; auto. simpl in B. discriminate.
  - apply IH. simpl in A. apply andb_prop in A as [_ A]. auto.
    simpl in B. apply orb_false_elim in B as [_ B]. auto.
Qed.

Lemma quiet_inv m l : quiet (m :: l) -> is_work m = true /\ runish m = false /\ quiet l.
Proof.
  intros [A B]. simpl in *. apply andb_prop in A as [A1 A2]. apply orb_false_elim in B as [B1 B2].
  repeat split; auto.
Qed.

Lemma idle_work_step m w pre :
  qmop m = true -> quiet pre -> idle_work (m :: w) -> idle_work (pre ++ w).
Proof.
  intros Q P H. apply andb_prop in Q as [Q1 Q2]. apply negb_true_iff in Q2.
  inversion H; subst.
  - simpl in Q2. discriminate.
  - destruct w1 as [|x w1]; simpl in H0; inversion H0; subst.
    + simpl in Q2. discriminate.
    + rewrite app_assoc. apply iw_body; auto. apply quiet_app; auto.
      apply quiet_inv in H1 as [_ [_ X]]. exact X.
  - apply iw_quiet. apply quiet_app; auto. apply quiet_inv in H0 as [_ [_ X]]. exact X.
Qed.

Lemma quiet_no_runish l m : quiet l -> In m l -> runish m = false.
Proof.
  intros [_ B] H. destruct (runish m) eqn:R; auto.
  assert (existsb runish l = true) by (apply existsb_exists; exists m; auto). congruence.
Qed.

Lemma idle_work_runitem c w :
  idle_work (MRunItem c :: w) -> w = [] /\ tagged QIdle c.
Proof.
  intros H. inversion H; subst; auto.
  - exfalso. destruct w1 as [|x w1]; simpl in H0; inversion H0; subst.
    apply quiet_inv in H1 as [_ [X _]]. discriminate.
  - exfalso. apply quiet_inv in H0 as [_ [X _]]. discriminate.
Qed.

Lemma idle_work_endbody u f w :
  idle_work (MEndBody u f :: w) -> f = FNone /\ quiet w.
Proof.
  intros H. inversion H; subst.
  - destruct w1 as [|x w1]; simpl in H0; inversion H0; subst; auto.
    exfalso. apply quiet_inv in H1 as [_ [X _]]. discriminate.
  - exfalso. apply quiet_inv in H0 as [_ [X _]]. discriminate.
Qed.

Lemma idle_work_toready a w : idle_work (MToReady a :: w) -> False.
Proof.
  intros H. inversion H; subst.
  - destruct w1 as [|x w1]; simpl in H0; inversion H0; subst.
    apply quiet_inv in H1 as [_ [X _]]. discriminate.
  - apply quiet_inv in H0 as [_ [X _]]. discriminate.
Qed.

(* phase and work of the continuation after a work micro-op *)
Lemma work_step_phase m k0 pre :
  is_work m = true -> forallb is_work pre = true ->
  phase_of (pre ++ k0) = phase_of (m :: k0) /\
  work_of (m :: k0) = m :: work_of k0 /\ work_of (pre ++ k0) = pre ++ work_of k0.
Proof.
  intros W P. repeat split.
  - rewrite phase_of_work; auto. unfold phase_of. simpl. rewrite W. reflexivity.
  - simpl. rewrite W. reflexivity.
  - apply work_of_app; auto.
Qed.

Lemma work_tags_qmop m k0 pre :
  qmop m = true -> quiet pre -> work_tags (m :: k0) -> work_tags (pre ++ k0).
Proof.
  intros Q P H. pose proof Q as Q'. apply andb_prop in Q' as [W _].
  destruct P as [P1 P2].
  destruct (work_step_phase m k0 pre W P1) as [A [B C]].
  unfold work_tags in *. rewrite A, C. rewrite B in H.
  destruct (phase_of (m :: k0)) as [[]|]; auto.
  - eapply idle_work_step; eauto. split; auto.
  - inversion H; subst. apply Forall_app; split; auto. apply quiet_loop. split; auto.
Qed.

(* ------------------------------------------------------------------ *)
(** * Preservation *)

Lemma hcase_qtags m s pre s' : hcase m s pre s' -> QTags s -> QTags s'.
Proof.
  intros [O|c M C P S|fr rest M F P S] Q.
  - destruct O as [E _|s1 loc E X _].
    + eapply eff_qtags; eauto.
    + subst. pose proof (eff_qtags _ _ E Q) as [A B C D H]. constructor; auto.
  - subst. destruct Q as [A B C' D H]. constructor; auto.
  - subst. destruct Q as [A B C D H]. constructor; auto.
Qed.

Lemma Forall_ti_insert (P : titem -> Prop) x l : P x -> Forall P l -> Forall P (ti_insert x l).
Proof.
  intros Hx Hl. induction l as [|y r IH]; simpl; auto.
  destruct (ti_le x y); auto. inversion Hl; subst. constructor; auto.
Qed.

Lemma Forall_ti_sort (P : titem -> Prop) l : Forall P l -> Forall P (ti_sort l).
Proof.
  unfold ti_sort. induction l as [|x r IH]; simpl; intros H; auto.
  inversion H; subst. apply Forall_ti_insert; auto.
Qed.

Lemma Forall_filter {X} (P : X -> Prop) f l : Forall P l -> Forall P (filter f l).
Proof.
  induction l as [|x r IH]; simpl; intros H; auto. inversion H; subst.
  destruct (f x); auto.
Qed.

Lemma tagged_loop q c : tagged q c -> q <> QIdle -> loop_item c.
Proof. intros [A B] N _. destruct q; auto; congruence. Qed.

Lemma main_ok_loop c : main_ok c -> loop_item c.
Proof. intros H X. left. auto. Qed.

Lemma call_loop c : is_callb c -> loop_item c.
Proof. intros H X. unfold is_callb in H. congruence. Qed.

Lemma Forall_loop_runitems (P : citem -> Prop) l :
  (forall c, P c -> loop_item c) -> Forall P l -> Forall loop_mop (map MRunItem l).
Proof. intros H F. induction F; simpl; constructor; auto. simpl. auto. Qed.

Lemma qtags_set_frames s v : QTags s -> QTags (set_frames s v).
Proof. intros [A B C D H]. constructor; auto. Qed.
Lemma qtags_emit s e : QTags s -> QTags (emit s e).
Proof. intros [A B C D H]. constructor; auto. Qed.
Lemma qtags_push_frame s c l : QTags s -> QTags (push_frame s c l).
Proof. intros [A B C D H]. constructor; auto. Qed.

Lemma qtags_upd_actor s a x :
  QTags s -> Forall is_callb (held_of x) -> QTags (upd_actor s a x).
Proof.
  intros [A B C D H] G. constructor; auto. intros b y E. unfold upd_actor in E. simpl in E.
  destruct (N.eq_dec a b) as [->|NE].
  - rewrite aget_aset_eq in E. inversion E; subst. auto.
  - rewrite aget_aset_neq in E; eauto.
Qed.

Lemma run_item_qtags c s pre s' : run_item c s = (pre, s') -> QTags s -> QTags s'.
Proof.
  unfold run_item. destruct c as [u i k caps q]. destruct k; repeat dest_match; intros E Q; inversion E; subst; clear E;
    repeat first [ assumption | apply qtags_push_frame | apply qtags_emit ].
  all: apply qtags_upd_actor; auto; unfold held_of; simpl; try solve [constructor].
  all: match goal with
       | Q0 : QTags ?st, H : aget (actors ?st) ?a = Some ?x, H2 : a_state ?x = SPrep ?held |- Forall is_callb (?held ++ _) =>
           let G := fresh "G" in
           pose proof (qt_held _ Q0 _ _ H) as G; unfold held_of in G; rewrite H2 in G; apply Forall_app; split; auto
       end.
  all: constructor; [reflexivity | constructor].
Qed.

Definition same_q (s s' : st) : Prop :=
  mainq s' = mainq s /\ lazyq s' = lazyq s /\ idleq s' = idleq s /\ timers s' = timers s /\ actors s' = actors s.

Lemma qtags_same s s' : QTags s -> same_q s s' -> QTags s'.
Proof. intros [A B C D H] (E1 & E2 & E3 & E4 & E5). constructor; rewrite ?E1, ?E2, ?E3, ?E4, ?E5; auto. Qed.

Ltac same_tac := eapply qtags_same; [eassumption | repeat split; repeat dest_match; reflexivity].

Lemma work_tags_top w r : forallb is_work w = true -> tops r = true -> work_tags (w ++ r).
Proof. intros W T. unfold work_tags. rewrite phase_of_work; auto. rewrite tops_phase; auto. Qed.

Lemma work_tags_tops r : tops r = true -> work_tags r.
Proof. intros T. apply (work_tags_top [] r); auto. Qed.

Lemma qtags_queues s mq lq iq tm :
  QTags s -> Forall main_ok mq -> Forall (tagged QLazy) lq -> Forall (tagged QIdle) iq ->
  Forall (tagged QTimer) (map ti_ci tm) ->
  QTags (set_timers (set_idleq (set_lazyq (set_mainq s mq) lq) iq) tm).
Proof. intros [A B C D H] **. constructor; auto. Qed.

Lemma Forall_tl {X} (P : X -> Prop) x l : Forall P (x :: l) -> Forall P l.
Proof. intros H. inversion H; auto. Qed.

Lemma tags_idle_pop s c r : QTags s -> idleq s = c :: r -> QTags (set_idleq s r) /\ tagged QIdle c.
Proof. intros [A B C D H] E. rewrite E in C. inversion C; subst. split; auto. constructor; auto. Qed.

Lemma qtags_mainq_nil s : QTags s -> QTags (set_mainq s []).
Proof. intros [A B C D H]. constructor; simpl; auto. Qed.
Lemma qtags_lazyq_nil s : QTags s -> QTags (set_lazyq s []).
Proof. intros [A B C D H]. constructor; simpl; auto. Qed.

Lemma tags_phase m k0 s pre s' :
  shape (m :: k0) -> is_work m = false -> QTags s -> handle m s = (pre, s') ->
  QTags s' /\ work_tags (pre ++ k0).
Proof.
  intros [p [PH _]] W Q E. unfold phase_of in PH. simpl in PH. rewrite W in PH.
  destruct m; try discriminate W; simpl in E.
  - (* MTop *)
    simpl in PH. destruct (tops k0) eqn:T; [|discriminate].
    unfold do_top in E. destruct o.
    + destruct (alive s); inversion E; subst; (split; [auto | apply work_tags_tops; simpl; auto]).
    + destruct (alive s); [|unfold bad in E]; inversion E; subst.
      * split; auto using qtags_emit. unfold work_tags, phase_of. simpl. rewrite Z.eqb_refl, T. simpl. exact I.
      * split; auto using qtags_emit. apply work_tags_tops; auto.
    + inversion E; subst. split; auto using qtags_push_frame. apply work_tags_top; auto.
    + destruct (alive s); inversion E; subst; split; auto using qtags_emit.
      * unfold work_tags, phase_of. simpl. rewrite T. exact I.
      * apply work_tags_tops; auto.
    + inversion E; subst. split; auto. apply work_tags_tops; simpl; auto.
    + destruct (alive s); [|unfold bad in E]; inversion E; subst; (split; [|apply work_tags_tops; auto]).
      * same_tac.
      * same_tac.
    + destruct (alive s); [|unfold bad in E]; inversion E; subst; (split; [|apply work_tags_tops; auto]).
      * same_tac.
      * same_tac.
  - (* MNew *)
    simpl in PH. destruct (tops k0) eqn:T; [|discriminate]. inversion E; subst. split.
    + destruct Q as [A B C D H]. constructor; auto. simpl. constructor.
    + apply work_tags_top; auto. apply work_map_dropitem.
  - (* MRunIdle *)
    destruct k0 as [|m1 k1]; [discriminate|]. destruct m1; try discriminate PH.
    destruct k1 as [|m2 k2]; [discriminate|]. destruct m2; try discriminate PH.
    destruct ((t =? t0) && tops k2) eqn:T; [|discriminate].
    destruct idle; [destruct (idleq s) as [|c r] eqn:IQ|]; inversion E; subst.
    + split; auto. unfold work_tags, phase_of. simpl. rewrite T. simpl. apply iw_quiet, quiet_nil.
    + destruct (tags_idle_pop _ _ _ Q IQ) as [Q' TC]. split; auto.
      unfold work_tags, phase_of. simpl. rewrite T. simpl. apply iw_item; auto.
    + split; auto. unfold work_tags, phase_of. simpl. rewrite T. simpl. apply iw_quiet, quiet_nil.
  - (* MRunMain *)
    destruct k0 as [|m1 k1]; [discriminate|]. destruct m1; try discriminate PH.
    destruct ((t =? t0) && tops k1) eqn:T; [|discriminate]. apply andb_prop in T as [_ T].
    assert (L : forall l, Forall loop_item l -> work_tags (map MRunItem l ++ MLoop t0 :: k1)).
    { intros l F. unfold work_tags. rewrite phase_of_work by apply work_map_runitem.
      unfold phase_of. simpl. rewrite T. rewrite work_of_app by apply work_map_runitem. simpl. rewrite app_nil_r.
      eapply Forall_loop_runitems; [|exact F]. auto. }
    pose proof Q as [A B C D H].
    destruct (t >? now s); inversion E; subst; clear E.
    + split.
      * destruct (ambiguous (filter (ti_due t) (timers s))); constructor; simpl; auto;
          rewrite Forall_map in *; apply Forall_filter; auto.
      * apply L. apply Forall_app; split.
        -- eapply Forall_impl; [|exact A]. apply main_ok_loop.
        -- rewrite Forall_map in *. apply Forall_ti_sort, Forall_filter.
           eapply Forall_impl; [|exact D]. intros a X. eapply tagged_loop; [exact X | discriminate].
    + split; [apply qtags_mainq_nil; auto|]. apply L. eapply Forall_impl; [|exact A]. apply main_ok_loop.
  - (* MLoop *)
    destruct (tops k0) eqn:T; [|discriminate].
    assert (L : forall l, Forall loop_item l -> work_tags ((map MRunItem l ++ [MLoop t]) ++ k0)).
    { intros l F. rewrite <- app_assoc. simpl. unfold work_tags. rewrite phase_of_work by apply work_map_runitem.
      unfold phase_of. simpl. rewrite T. rewrite work_of_app by apply work_map_runitem. simpl. rewrite app_nil_r.
      eapply Forall_loop_runitems; [|exact F]. auto. }
    pose proof Q as [A B C D H].
    destruct (mainq s) as [|c l] eqn:M.
    + destruct (lazyq s) as [|c l] eqn:LQ.
      * inversion E; subst. split; [same_tac | apply work_tags_tops; auto].
      * inversion E; subst. split; [apply qtags_lazyq_nil; auto|].
        apply (L (c :: l)). eapply Forall_impl; [|exact B]. intros a X. eapply tagged_loop; [exact X | discriminate].
    + inversion E; subst. split; [apply qtags_mainq_nil; auto|].
      apply (L (c :: l)). eapply Forall_impl; [|exact A]. apply main_ok_loop.
  - (* MDrain *)
    destruct (tops k0) eqn:T; [|discriminate]. pose proof Q as [A B C D H].
    destruct (i >=? TEARDOWN_ROUNDS).
    + inversion E; subst. split; [same_tac|].
      unfold work_tags, phase_of. simpl. rewrite T. exact I.
    + destruct (mainq s) as [|c l] eqn:M; inversion E; subst.
      * split; auto. unfold work_tags, phase_of. simpl. rewrite T. exact I.
      * split; [apply qtags_mainq_nil; auto|].
        match goal with |- work_tags ?k => replace k with (map MDropItem (c :: l) ++ MDrain (i + 1) :: k0)
          by (simpl; rewrite <- app_assoc; reflexivity) end.
        unfold work_tags. rewrite phase_of_work by apply work_map_dropitem.
        unfold phase_of. simpl. rewrite T. exact I.
  - (* MDropFields *)
    destruct (tops k0) eqn:T; [|discriminate]. pose proof Q as [A B C D H].
    inversion E; subst. split.
    + destruct (ambiguous (timers s)); apply qtags_emit; constructor; simpl; auto.
    + rewrite <- app_assoc. simpl. unfold work_tags. rewrite phase_of_work by apply work_map_dropitem.
      unfold phase_of. simpl. rewrite T. exact I.
  - (* MDropEnd *)
    destruct (tops k0) eqn:T; [|discriminate]. inversion E; subst. split.
    + same_tac.
    + apply work_tags_tops; auto.
  - (* MDropAll *)
    simpl in PH. destruct (tops k0) eqn:T; [|discriminate].
    destruct (amin (env s)) as [[h v]|]; inversion E; subst.
    + split; [same_tac|].
      apply (work_tags_top [MDropVal v] (MDropAll :: k0)); auto.
    + split; auto. apply work_tags_tops; auto.
  - (* MEpilogue *)
    simpl in PH. destruct (tops k0) eqn:T; [|discriminate]. inversion E; subst.
    split; auto using qtags_emit. apply work_tags_tops; simpl; auto.
  - (* MLeaks *)
    simpl in PH. destruct (tops k0) eqn:T; [|discriminate]. inversion E; subst. split.
    + assert (QC : QTags (class_flags s)).
      { clear E. unfold class_flags.
        assert (G : forall (f : N * actor -> option ev) l s0, QTags s0 -> QTags (fold_left (fun s1 p0 => emit_opt s1 (f p0)) l s0)).
        { intros f l. induction l as [|p0 l IH]; simpl; intros s0 Q0; auto.
          apply IH. unfold emit_opt. destruct (f p0); auto using qtags_emit. }
        apply G; auto. }
      destruct QC as [A B C D H]. constructor; auto.
    + apply work_tags_tops; auto.
Qed.

Lemma endbody_qtags u f s pre s' : handle (MEndBody u f) s = (pre, s') -> QTags s -> QTags s'.
Proof.
  simpl. destruct (frames s) as [|fr rest]; intros E Q; inversion E; subst; auto using qtags_emit, qtags_set_frames.
Qed.

Lemma endbody_loop u f s pre s' : handle (MEndBody u f) s = (pre, s') -> Forall loop_mop pre.
Proof.
  simpl. destruct (frames s) as [|fr rest]; intros E; inversion E; subst; [constructor|].
  apply Forall_app; split. apply quiet_loop, quiet_drops.
  destruct f; [constructor | destruct (f_die fr); repeat constructor | destruct (f_die fr); destruct ready; repeat constructor ].
Qed.

Lemma endbody_none_quiet u s pre s' : handle (MEndBody u FNone) s = (pre, s') -> quiet pre.
Proof.
  simpl. destruct (frames s) as [|fr rest]; intros E; inversion E; subst; [apply quiet_nil|].
  rewrite app_nil_r. apply quiet_drops.
Qed.

Lemma run_item_loop c s pre s' : run_item c s = (pre, s') -> Forall loop_mop pre.
Proof.
  unfold run_item. destruct c as [u i kd caps q]. destruct kd; repeat dest_match;
    intros E; inversion E; subst; repeat constructor.
Qed.

Lemma toready_qtags a s pre s' : handle (MToReady a) s = (pre, s') -> QTags s -> QTags s'.
Proof.
  simpl. destruct (aget (actors s) a) as [x|] eqn:AX; [destruct (a_state x) eqn:SX|]; intros E Q; inversion E; subst;
    auto using qtags_emit. apply qtags_emit, qtags_upd_actor; auto; constructor.
Qed.

Lemma toready_loop a s pre s' : handle (MToReady a) s = (pre, s') -> QTags s -> Forall loop_mop pre.
Proof.
  simpl. destruct (aget (actors s) a) as [x|] eqn:AX; [destruct (a_state x) eqn:SX|]; intros E Q; inversion E; subst;
    try constructor.
  pose proof (qt_held _ Q _ _ AX) as G. unfold held_of in G. rewrite SX in G.
  eapply Forall_loop_runitems; [|exact G]. apply call_loop.
Qed.

Lemma tags_runish m k0 s pre s' :
  is_work m = true -> runish m = true -> QTags s -> work_tags (m :: k0) -> handle m s = (pre, s') ->
  QTags s' /\ work_tags (pre ++ k0).
Proof.
  intros W R Q WT E.
  destruct (handle_work _ _ _ _ W E) as [PW _].
  destruct (work_step_phase m k0 pre W PW) as [A [B C]].
  unfold work_tags in WT |- *. rewrite A, C. rewrite B in WT.
  destruct m; try discriminate R.
  - (* MEndBody *)
    split; [eapply endbody_qtags; eauto|].
    destruct (phase_of (MEndBody uid f :: k0)) as [[]|] eqn:PH; auto.
    + apply idle_work_endbody in WT as [-> QW]. apply iw_quiet. apply quiet_app; auto.
      eapply endbody_none_quiet; eauto.
    + inversion WT; subst. apply Forall_app; split; auto. eapply endbody_loop; eauto.
  - (* MRunItem *)
    simpl in E. split; [eapply run_item_qtags; eauto|].
    destruct (phase_of (MRunItem c :: k0)) as [[]|] eqn:PH; auto.
    + apply idle_work_runitem in WT as [-> [TC TQ]].
      destruct c as [u i kd caps q]. unfold ci_call in TC; simpl in TC. destruct kd; try discriminate TC.
      simpl in E. inversion E; subst. simpl.
      change [MActs body; MEndBody u FNone] with ([MActs body] ++ MEndBody u FNone :: []).
      apply iw_body; quiet_tac.
    + inversion WT; subst. apply Forall_app; split; auto. eapply run_item_loop; eauto.
  - (* MToReady *)
    split; [eapply toready_qtags; eauto|].
    destruct (phase_of (MToReady a :: k0)) as [[]|] eqn:PH; auto.
    + exfalso. eapply idle_work_toready; eauto.
    + inversion WT; subst. apply Forall_app; split; auto. eapply toready_loop; eauto.
Qed.

Theorem step_tags k s k' s' : shape k -> Tags k s -> step k s = Some (k', s') -> Tags k' s'.
Proof.
  intros SH T H. apply Tags_split in T as [Q WT]. apply Tags_split.
  destruct k as [|m k0]; [discriminate|]. simpl in H.
  destruct (handle m s) as [pre s1] eqn:E. inversion H; subst; clear H.
  destruct (qmop m) eqn:QM.
  { destruct (handle_qmop _ _ _ _ QM E) as [QP HC]. split.
    - eapply hcase_qtags; eauto.
    - eapply work_tags_qmop; eauto. }
  destruct (is_work m) eqn:W.
  { assert (R : runish m = true). { unfold qmop in QM. rewrite W in QM. simpl in QM. apply negb_false_iff in QM. auto. }
    eapply tags_runish; eauto. }
  eapply tags_phase; eauto.
Qed.

Lemma tags_init d p : Tags (map MTop p ++ [MEpilogue]) (init d).
Proof.
  apply Tags_split. split.
  - constructor; simpl; auto. intros a x H. discriminate.
  - apply work_tags_tops. unfold tops. rewrite forallb_app. simpl. rewrite andb_true_r. induction p; simpl; auto.
Qed.
