(** Layer R proofs: C20 (one Open and one Close record per actor, LogIDs fresh, parent ids, filter respected).

    [C20_proved]: for every program, fuel and deferrer kind, [C20_ok] holds of the observable part of the trace
    of a terminated execution of the model (the events printed with a leading '~' exist only on the model side
    and are removed: [observable]), provided the execution emits fewer than 2^64 - 1 events (LogIDs are
    [u64] and wrap after that many actors in the code as well).

    Structure: (1) the monitor in a "rest" state treats every event outside a small set as a no-op;
    (2) a calculus [leff] of the state changes that matter to logging, every handler described once;
    (3) the invariant: logger state, ids and parent ids agree with the model, frames and body markers agree,
    every pending termination notification sits right behind its Close record in the continuation. *)
From Coq Require Import ZArith NArith List Bool Lia.
From Stk Require Import Lib.U Gen.SrcCount Gen.SrcCore Gen.SrcLog R.Syntax R.Rt R.Mon R.Shape R.Eff R.Tags R.Mono R.Count R.C15Proofs.
Import ListNotations.
Local Open Scope Z_scope.

(* ------------------------------------------------------------------ *)
(** * Observable events *)

Definition is_model (e : ev) : bool := match e with EModel _ _ | EDropFields => true | _ => false end.

Definition observable (t : list ev) : list ev := filter (fun e => negb (is_model e)) t.

Lemma observable_app a b : observable (a ++ b) = observable a ++ observable b.
Proof. apply filter_app. Qed.

Lemma observable_rev t : observable (rev t) = rev (observable t).
Proof.
  induction t as [|e r IH]; simpl; auto. rewrite observable_app, IH. simpl.
  destruct (negb (is_model e)); simpl; auto. rewrite app_nil_r. reflexivity.
Qed.

Definition mon20 (t : list ev) : option s20 := monr step20 i20 (observable t).

Lemma mon20_model e t : is_model e = true -> mon20 (e :: t) = mon20 t.
Proof. unfold mon20. simpl. intros ->. reflexivity. Qed.

Lemma mon20_obs e t : is_model e = false ->
  mon20 (e :: t) = match mon20 t with Some m => step20 m e | None => None end.
Proof. unfold mon20. simpl. intros ->. reflexivity. Qed.

(* ------------------------------------------------------------------ *)
(** * The monitor at rest *)

Definition deliver20 (m : s20) (lvl : Z) : bool := l_has m && allows20 m lvl.

(* no obligation is pending: the previous event is not an Open/Close record waiting for its actor event, and
   not a Core::log call whose record is still due *)
Definition rest20 (m : s20) : Prop :=
  l_span m = false /\ forall id lvl, l_prev m = Some (ELogReq id lvl) -> deliver20 m lvl = false.

(* events that leave every component but [l_prev] alone *)
Definition q20 (e : ev) : bool :=
  match e with
  | ENew _ | ESetLogger _ | ESetFilter _ | EMeth _ _ _ | EPrep _ _ _ | ERun _ _ _ | EEnd _ | ELog _ _ _ _
  | EActor _ | ENotify _ (Some _) | ELogCheck _ _ | ELogReq _ _ => false
  | _ => true
  end.

Definition clr (m : s20) : s20 := mk20 (l_has m) (l_filt m) (l_ids m) (l_last m) (l_body m) None false.

Lemma notlog_dec e : (forall a b c d, e <> ELog a b c d) \/ exists a b c d, e = ELog a b c d.
Proof. destruct e; try (left; intros; discriminate). right; eauto. Qed.

(* at rest, the previous event does not matter for an event that is not a log record *)
Lemma step20_rest m e : rest20 m -> (forall a b c d, e <> ELog a b c d) -> step20 m e = step20 (clr m) e.
Proof.
  intros [LS LR] NL. unfold step20, clr. simpl. rewrite LS.
  destruct (l_prev m) as [p|] eqn:LP.
  - destruct p; try (destruct e; try reflexivity; exfalso; eapply NL; reflexivity).
    specialize (LR _ _ eq_refl). unfold deliver20 in LR.
    destruct e; simpl; rewrite ?LR; simpl; try reflexivity. exfalso; eapply NL; reflexivity.
  - reflexivity.
Qed.

(* ... nor for a record that the filter lets through, or the marker record of set_logger *)
Lemma step20_rest_log m id lvl par mk : rest20 m -> deliver20 m lvl = true \/ mk <> 0%N ->
  step20 m (ELog id lvl par mk) = step20 (clr m) (ELog id lvl par mk).
Proof.
  intros [LS LR] D. unfold step20, clr. simpl. rewrite LS.
  destruct (l_prev m) as [p|] eqn:LP; [|reflexivity].
  destruct p; try reflexivity.
  specialize (LR _ _ eq_refl). unfold deliver20 in LR, D.
  destruct par; try (simpl; rewrite LR; reflexivity).
  destruct mk; try (simpl; rewrite LR; reflexivity).
  destruct D as [D|D]; [|congruence].
  destruct ((id0 =? id) && (lvl0 =? lvl)) eqn:U.
  - apply andb_prop in U as [_ U]. apply Z.eqb_eq in U. subst. congruence.
  - simpl. rewrite LR. reflexivity.
Qed.

Lemma step20_q m e : rest20 m -> q20 e = true -> is_model e = false ->
  step20 m e = Some (mk20 (l_has m) (l_filt m) (l_ids m) (l_last m) (l_body m) (Some e) false).
Proof.
  intros R Q M. rewrite step20_rest; auto.
  - destruct e; try discriminate Q; try discriminate M; try reflexivity. destruct c; [discriminate Q | reflexivity].
  - intros a b c d ->. discriminate Q.
Qed.

Lemma rest20_mk h f i l b e : (forall id lvl, e <> ELogReq id lvl) -> rest20 (mk20 h f i l b (Some e) false).
Proof. intros N. split; [reflexivity|]. simpl. intros id lvl E. inversion E. subst. exfalso. eapply N; reflexivity. Qed.

Lemma rest20_after m e :
  (forall id lvl, e <> ELogReq id lvl) ->
  rest20 (mk20 (l_has m) (l_filt m) (l_ids m) (l_last m) (l_body m) (Some e) false).
Proof. intros N. split; [reflexivity|]. simpl. intros id lvl E. inversion E. subst. exfalso. eapply N; reflexivity. Qed.

(* ------------------------------------------------------------------ *)
(** * Notifier shape, frame contexts *)

Fixpoint nshape (a : N) (r : ret) {struct r} : Prop :=
  match r with
  | Ret _ k => match k with
               | RKNotify a' _ => a' = a
               | RKSlab _ _ inner => nshape a inner
               | _ => False
               end
  end.

Definition ctxs (s : st) : list ctx := map f_ctx (frames s).

Fixpoint nested_ok (cs : list ctx) : Prop :=
  match cs with
  | [] => True
  | c :: r => match r with [] => True | _ => c = XNone /\ nested_ok r end
  end.

Fixpoint body_of (cs : list ctx) : option N :=
  match cs with
  | [] => None
  | c :: r => match r with
              | [] => match c with XCx a _ => Some a | _ => None end
              | _ => body_of r
              end
  end.

Lemma body_of_push cs : body_of (XNone :: cs) = body_of cs.
Proof. destruct cs; reflexivity. Qed.

Lemma nested_push cs : nested_ok cs -> nested_ok (XNone :: cs).
Proof. destruct cs; simpl; auto. Qed.

Lemma cur_ctx_ctxs s : cur_ctx s = match ctxs s with c :: _ => c | [] => XNone end.
Proof. unfold cur_ctx, ctxs. destruct (frames s); reflexivity. Qed.

(* a frame with Core access is the only frame *)
Lemma nested_top cs c r : nested_ok cs -> cs = c :: r -> c <> XNone -> r = [].
Proof. intros N -> C. destruct r; auto. simpl in N. destruct N; congruence. Qed.

(* ------------------------------------------------------------------ *)
(** * What matters to logging in a state change *)

Definition pers (s s' : st) : Prop :=
  forall a x, aget (actors s) a = Some x -> exists x', aget (actors s') a = Some x' /\ a_logid x' = a_logid x.

Lemma pers_refl s : pers s s.
Proof. intros a x H. eauto. Qed.

Lemma pers_trans a b c : pers a b -> pers b c -> pers a c.
Proof. intros H G x y A. destruct (H _ _ A) as (y1 & A1 & L1). destruct (G _ _ A1) as (y2 & A2 & L2). exists y2. split; auto. congruence. Qed.

Lemma pers_same s s' : actors s' = actors s -> pers s s'.
Proof. intros E a x H. rewrite E. eauto. Qed.

(* all fields the log monitor depends on are equal *)
Definition irr (s s' : st) : Prop :=
  tr s' = tr s /\ actors s' = actors s /\ ctxs s' = ctxs s /\ haslogger s' = haslogger s /\
  logfilter s' = logfilter s /\ logseq s' = logseq s.

Inductive leff : st -> st -> Prop :=
| le_refl s : leff s s
| le_emit s s1 e : leff s s1 -> q20 e = true -> leff s (emit s1 e)
| le_irr s s1 s2 : leff s s1 -> irr s1 s2 -> leff s s2
| le_upd s s1 a x y : leff s s1 -> aget (actors s1) a = Some y -> a_logid x = a_logid y ->
    (a_notify x = a_notify y \/ a_notify x = None) -> leff s (upd_actor s1 a x)
| le_new_actor s s1 a nt parent vis : leff s s1 -> aget (actors s1) a = None -> nshape a nt ->
    parent = ctx_logid s1 -> cur_ctx s1 <> XNone -> leff s (new_actor s1 a nt parent vis)
| le_log s s1 lvl : leff s s1 -> leff s (log_rec (emit s1 (ELogReq (ctx_logid s1) lvl)) (ctx_logid s1) lvl 0 0)
| le_logcheck s s1 lvl : leff s s1 -> leff s (emit s1 (ELogCheck lvl (allows s1 lvl))).

Lemma leff_trans s1 s2 s3 : leff s1 s2 -> leff s2 s3 -> leff s1 s3.
Proof.
  intros A B. induction B.
  - exact A.
  - apply le_emit; auto.
  - eapply le_irr; [apply IHB; auto | auto].
  - eapply le_upd; eauto.
  - apply le_new_actor; auto.
  - apply le_log; auto.
  - apply le_logcheck; auto.
Qed.

Lemma irr_refl s : irr s s.
Proof. repeat split. Qed.

Ltac irr_tac := repeat split; reflexivity.

Lemma leff_ctxs s s1 : leff s s1 -> ctxs s1 = ctxs s.
Proof.
  intros E. induction E; auto.
  - destruct H as (_ & _ & C & _). congruence.
  - unfold new_actor, log_rec. rewrite <- IHE. repeat (destruct (_ && _) || destruct vis); reflexivity.
  - unfold log_rec. rewrite <- IHE. destruct (_ && _); reflexivity.
Qed.

Lemma leff_ext s s1 : leff s s1 -> ext s s1.
Proof.
  intros E. induction E; try apply ext_refl; try (eapply ext_trans; [exact IHE|]).
  - apply ext_emit.
  - apply ext_same. apply H.
  - apply ext_same. reflexivity.
  - unfold new_actor, log_rec. destruct (_ && _); destruct vis; first [ eexists [_]; reflexivity | eexists [_; _]; reflexivity | eexists [_; _; _]; reflexivity ].
  - unfold log_rec. destruct (_ && _); [eexists [_; _]; reflexivity | eexists [_]; reflexivity].
  - apply ext_emit.
Qed.

Lemma ext_len s s' : ext s s' -> (length (tr s) <= length (tr s'))%nat.
Proof. intros [evs E]. rewrite E, app_length. lia. Qed.

(* ------------------------------------------------------------------ *)
(** * The data invariant *)

Definition BOUND : Z := 18446744073709551615.

Record J (m : s20) (s : st) : Prop := mkJ {
  j_has : l_has m = haslogger s;
  j_filt : l_filt m = logfilter s;
  j_last : 0 <= l_last m <= logseq s;
  j_seq : logseq s <= Z.of_nat (length (tr s));
  j_ids : forall a id, nget (l_ids m) a = Some id -> exists x, aget (actors s) a = Some x /\ a_logid x = id;
  j_shape : forall a x nt, aget (actors s) a = Some x -> a_notify x = Some nt -> nshape a nt;
  j_body : l_body m = body_of (ctxs s);
  j_nest : nested_ok (ctxs s) }.

Lemma allows_20 m s lvl : l_filt m = logfilter s -> allows20 m lvl = allows s lvl.
Proof. unfold allows20, allows, ob. intros ->. reflexivity. Qed.

Lemma nget_nset_eq {X} (l : list (N * X)) i x : nget (nset l i x) i = Some x.
Proof. induction l as [|[j y] r IH]; simpl. rewrite N.eqb_refl; auto. destruct (N.eqb i j) eqn:E; simpl; rewrite ?N.eqb_refl, ?E; auto. Qed.

Lemma nget_nset_neq {X} (l : list (N * X)) i j x : i <> j -> nget (nset l i x) j = nget l j.
Proof.
  intros H. induction l as [|[k y] r IH]; simpl.
  - destruct (N.eqb j i) eqn:E; auto. apply N.eqb_eq in E. congruence.
  - destruct (N.eqb i k) eqn:E; simpl.
    + apply N.eqb_eq in E; subst. destruct (N.eqb j k) eqn:E2; auto.
      apply N.eqb_eq in E2. congruence.
    + destruct (N.eqb j k); auto.
Qed.

Lemma levels_ne : (LOGLEVEL_CLOSE =? LOGLEVEL_OPEN) = false.
Proof. reflexivity. Qed.

Definition same20 (m m' : s20) : Prop :=
  l_has m' = l_has m /\ l_filt m' = l_filt m /\ l_ids m' = l_ids m /\ l_last m' = l_last m /\ l_body m' = l_body m.

Lemma same20_refl m : same20 m m. Proof. repeat split. Qed.

Lemma J_emit m m' s e : J m s -> same20 m m' -> J m' (emit s e).
Proof.
  intros [A B C D E F G H] (S1 & S2 & S3 & S4 & S5). constructor.
  - rewrite S1. exact A.
  - rewrite S2. exact B.
  - rewrite S4. exact C.
  - simpl. change (length (e :: tr s)) with (S (length (tr s))). lia.
  - rewrite S3. exact E.
  - exact F.
  - rewrite S5. exact G.
  - exact H.
Qed.

Lemma J_irr m s s' : J m s -> irr s s' -> J m s'.
Proof.
  intros [A B C D E F G H] (I1 & I2 & I3 & I4 & I5 & I6). constructor.
  - rewrite I4. exact A.
  - rewrite I5. exact B.
  - rewrite I6. exact C.
  - rewrite I6, I1. exact D.
  - rewrite I2. exact E.
  - rewrite I2. exact F.
  - rewrite I3. exact G.
  - rewrite I3. exact H.
Qed.

Lemma par_ok_lemma m s : J m s -> cur_ctx s <> XNone ->
  match l_body m with
  | Some p => match nget (l_ids m) p with Some pid => ctx_logid s =? pid | None => true end
  | None => ctx_logid s =? 0
  end = true.
Proof.
  intros [A B C D E F G H] NX. unfold ctx_logid. rewrite cur_ctx_ctxs in *. rewrite G.
  destruct (ctxs s) as [|c r] eqn:CS; [congruence|].
  assert (r = []) by (eapply nested_top; eauto). subst r. simpl.
  destruct c; try congruence; try reflexivity.
  destruct (nget (l_ids m) a) as [pid|] eqn:NG; auto.
  destruct (E _ _ NG) as (x & AX & LX). rewrite AX. apply Z.eqb_eq. auto.
Qed.

Lemma deliver_J m s lvl : J m s -> deliver20 m lvl = allows s lvl && haslogger s.
Proof. intros [A B _ _ _ _ _ _]. unfold deliver20. rewrite A, (allows_20 _ _ _ B). apply andb_comm. Qed.

Lemma marker_same c : marker20 c = marker_of c.
Proof. destruct c; reflexivity. Qed.

Ltac norm_allows m :=
  repeat match goal with
         | |- context [allows20 ?r ?l] =>
             lazymatch r with m => fail | _ => change (allows20 r l) with (allows20 m l) end
         end.

Lemma leff_J s s1 : leff s s1 -> forall m, mon20 (tr s) = Some m -> J m s -> rest20 m ->
  Z.of_nat (length (tr s1)) < BOUND ->
  exists m1, mon20 (tr s1) = Some m1 /\ J m1 s1 /\ rest20 m1 /\ pers s s1.
Proof.
  intros E. induction E; intros m MM JJ RR BB.
  - exists m. split; [exact MM|]. split; [exact JJ|]. split; [exact RR|]. apply pers_refl.
  - (* a quiet event *)
    assert (B1 : Z.of_nat (length (tr s1)) < BOUND) by (simpl in BB; lia).
    destruct (IHE m MM JJ RR B1) as (m1 & M1 & J1 & R1 & P1).
    destruct (is_model e) eqn:IM.
    + exists m1. split. simpl. rewrite mon20_model; auto. split. eapply J_emit; eauto. apply same20_refl. split; auto.
    + eexists. split. simpl. rewrite mon20_obs, M1; auto. apply step20_q; auto.
      split. eapply J_emit; eauto. repeat split.
      split. apply rest20_after. intros id lvl ->. discriminate H. exact P1.
  - (* irrelevant fields *)
    assert (B1 : Z.of_nat (length (tr s1)) < BOUND) by (destruct H as (T & _); rewrite T in BB; exact BB).
    destruct (IHE m MM JJ RR B1) as (m1 & M1 & J1 & R1 & P1).
    exists m1. pose proof H as (T & A & _). split. rewrite T; auto. split. eapply J_irr; eauto.
    split; auto. eapply pers_trans; eauto. apply pers_same; auto.
  - (* an actor cell updated in place *)
    destruct (IHE m MM JJ RR BB) as (m1 & M1 & J1 & R1 & P1).
    exists m1. split; [exact M1|]. split; [|split; auto].
    + destruct J1 as [A B C D F G K L]. constructor; auto.
      * intros a' id NG. destruct (F _ _ NG) as (x' & AX & LX). unfold upd_actor; simpl.
        destruct (N.eq_dec a a') as [<-|NE].
        -- rewrite aget_aset_eq. exists x. split; auto. congruence.
        -- rewrite aget_aset_neq by auto. eauto.
      * intros a' x' nt. unfold upd_actor; simpl. destruct (N.eq_dec a a') as [<-|NE].
        -- rewrite aget_aset_eq. intros EQ; inversion EQ; subst x'. intros NT.
           destruct H1 as [H1|H1]; [|congruence]. eapply G; eauto. congruence.
        -- rewrite aget_aset_neq by auto. apply G.
    + eapply pers_trans; eauto. intros a' x' AX. unfold upd_actor; simpl. destruct (N.eq_dec a a') as [<-|NE].
      * rewrite aget_aset_eq. exists x. split; auto. congruence.
      * rewrite aget_aset_neq by auto. eauto.
  - (* a new actor *)
    assert (B1 : Z.of_nat (length (tr s1)) < BOUND).
    { pose proof (ext_len _ _ (leff_ext _ _ (le_new_actor _ _ a nt parent vis (le_refl s1) H H0 H1 H2))). lia. }
    destruct (IHE m MM JJ RR B1) as (m1 & M1 & J1 & R1 & P1).
    pose proof (par_ok_lemma _ _ J1 H2) as PO. rewrite <- H1 in PO.
    pose proof (deliver_J _ _ LOGLEVEL_OPEN J1) as DL.
    pose proof J1 as [A B C D F G K L].
    assert (SEQ : 0 <= logseq s1 < BOUND).
    { assert (length (tr s1) < length (tr (new_actor s1 a nt parent vis)))%nat.
      { unfold new_actor, log_rec. destruct (_ && _); destruct vis; simpl; lia. }
      lia. }
    assert (ID : oz (log_id_next (logseq s1)) = logseq s1 + 1) by (rewrite log_id_next_spec; auto).
    assert (PE : pers s1 (new_actor s1 a nt parent vis)).
    { intros a' x' AX. unfold new_actor, log_rec. exists x'. split; auto.
      assert (a <> a') by (intros <-; congruence).
      destruct (_ && _); destruct vis; unfold upd_actor; simpl; rewrite aget_aset_neq; auto. }
    set (x0 := mkActor (SPrep []) (oz (count_inc (oz count_new))) MINRC_INIT (Some nt) (logseq s1 + 1) false).
    assert (JN : forall m2 s2, same20 (mk20 (l_has m1) (l_filt m1) (l_ids m2) (l_last m2) (l_body m1) None false) m2 ->
                 actors s2 = aset (actors s1) a x0 -> ctxs s2 = ctxs s1 -> haslogger s2 = haslogger s1 ->
                 logfilter s2 = logfilter s1 -> logseq s2 = logseq s1 + 1 -> (length (tr s1) < length (tr s2))%nat ->
                 (0 <= l_last m2 <= logseq s1 + 1) ->
                 (forall a' id, nget (l_ids m2) a' = Some id -> (a' = a /\ id = logseq s1 + 1) \/ (a' <> a /\ nget (l_ids m1) a' = Some id)) ->
                 J m2 s2).
    { intros m2 s2 (S1 & S2 & S3 & S4 & S5) AC CX HL LF LS LEN LAST IDS. simpl in S1, S2, S5. constructor.
      - congruence.
      - congruence.
      - rewrite LS. exact LAST.
      - rewrite LS. lia.
      - intros a' id NG. rewrite AC. destruct (IDS _ _ NG) as [[-> ->]|[NE NG1]].
        + rewrite aget_aset_eq. exists x0. split; reflexivity.
        + rewrite aget_aset_neq by auto. eauto.
      - intros a' x' nt'. rewrite AC. destruct (N.eq_dec a a') as [<-|NE].
        + rewrite aget_aset_eq. intros EQ; inversion EQ; subst x'. simpl. intros EQ2; inversion EQ2; subst. auto.
        + rewrite aget_aset_neq by auto. apply G.
      - rewrite S5, CX. exact K.
      - rewrite CX. exact L. }
    assert (OLD : forall a' id, nget (l_ids m1) a' = Some id -> a' <> a).
    { intros a' id NG <-. destruct (F _ _ NG) as (x' & AX & _). congruence. }
    unfold new_actor, log_rec. rewrite ID. simpl haslogger. simpl logfilter.
    change (allows (set_logseq s1 (logseq s1 + 1)) LOGLEVEL_OPEN) with (allows s1 LOGLEVEL_OPEN).
    change (haslogger (set_logseq s1 (logseq s1 + 1))) with (haslogger s1).
    destruct (allows s1 LOGLEVEL_OPEN && haslogger s1) eqn:DV.
    + (* the Open record is delivered *)
      assert (ST1 : step20 m1 (ELog (logseq s1 + 1) LOGLEVEL_OPEN parent 0) =
                    Some (mk20 (l_has m1) (l_filt m1) (l_ids m1) (logseq s1 + 1) (l_body m1)
                               (Some (ELog (logseq s1 + 1) LOGLEVEL_OPEN parent 0)) true)).
      { rewrite step20_rest_log; auto. unfold step20, clr. simpl. norm_allows m1.
        change (l_has m1 && allows20 m1 LOGLEVEL_OPEN) with (deliver20 m1 LOGLEVEL_OPEN). rewrite DL. simpl.
        assert (X1 : negb (logseq s1 + 1 =? 0) = true) by (apply negb_true_iff, Z.eqb_neq; lia).
        assert (X2 : (l_last m1 <? logseq s1 + 1) = true) by (apply Z.ltb_lt; lia).
        rewrite X1, X2, PO. reflexivity. }
      set (m2 := mk20 (l_has m1) (l_filt m1) (nset (l_ids m1) a (logseq s1 + 1)) (logseq s1 + 1) (l_body m1) (Some (EActor a)) false).
      assert (ST2 : step20 (mk20 (l_has m1) (l_filt m1) (l_ids m1) (logseq s1 + 1) (l_body m1)
                               (Some (ELog (logseq s1 + 1) LOGLEVEL_OPEN parent 0)) true) (EActor a) = Some m2) by reflexivity.
      assert (J2 : forall s2, actors s2 = aset (actors s1) a x0 -> ctxs s2 = ctxs s1 -> haslogger s2 = haslogger s1 ->
                     logfilter s2 = logfilter s1 -> logseq s2 = logseq s1 + 1 -> (length (tr s1) < length (tr s2))%nat -> J m2 s2).
      { intros s2 AC CX HL LF LS LEN. eapply JN; eauto; simpl; try lia. repeat split.
        intros a' id NG. destruct (N.eq_dec a a') as [<-|NE].
        - rewrite nget_nset_eq in NG. inversion NG. auto.
        - rewrite nget_nset_neq in NG by auto. right. split; auto. }
      destruct vis.
      * eexists. split.
        { simpl tr. rewrite mon20_obs by reflexivity. rewrite mon20_obs by reflexivity. rewrite mon20_obs by reflexivity.
          rewrite M1, ST1, ST2. apply step20_q; try reflexivity. unfold m2. apply rest20_after. intros; discriminate. }
        split. { eapply (J_emit m2); [|repeat split]. apply J2; try reflexivity. simpl. lia. }
        split. { apply rest20_after. intros; discriminate. }
        eapply pers_trans; eauto.
        unfold new_actor, log_rec in PE. rewrite ID in PE. simpl haslogger in PE.
        change (allows (set_logseq s1 (logseq s1 + 1)) LOGLEVEL_OPEN) with (allows s1 LOGLEVEL_OPEN) in PE. rewrite DV in PE. exact PE.
      * exists m2. split.
        { simpl tr. rewrite mon20_obs by reflexivity. rewrite mon20_obs by reflexivity. rewrite M1, ST1, ST2. reflexivity. }
        split. { apply J2; try reflexivity. simpl. lia. }
        split. { apply rest20_after. intros; discriminate. }
        eapply pers_trans; eauto.
        unfold new_actor, log_rec in PE. rewrite ID in PE. simpl haslogger in PE.
        change (allows (set_logseq s1 (logseq s1 + 1)) LOGLEVEL_OPEN) with (allows s1 LOGLEVEL_OPEN) in PE. rewrite DV in PE. exact PE.
    + (* no record *)
      set (m2 := mk20 (l_has m1) (l_filt m1) (l_ids m1) (l_last m1) (l_body m1) (Some (EActor a)) false).
      assert (ST2 : step20 m1 (EActor a) = Some m2).
      { rewrite step20_rest by (auto; intros; discriminate). unfold step20, clr. simpl. norm_allows m1.
        change (l_has m1 && allows20 m1 LOGLEVEL_OPEN) with (deliver20 m1 LOGLEVEL_OPEN). rewrite DL. reflexivity. }
      assert (J2 : forall s2, actors s2 = aset (actors s1) a x0 -> ctxs s2 = ctxs s1 -> haslogger s2 = haslogger s1 ->
                     logfilter s2 = logfilter s1 -> logseq s2 = logseq s1 + 1 -> (length (tr s1) < length (tr s2))%nat -> J m2 s2).
      { intros s2 AC CX HL LF LS LEN. eapply JN; eauto; simpl; try lia. repeat split.
        all: try (intros a' id NG; right; split; auto; eapply OLD; eauto). }
      destruct vis.
      * eexists. split.
        { simpl tr. rewrite mon20_obs by reflexivity. rewrite mon20_obs by reflexivity.
          rewrite M1, ST2. apply step20_q; try reflexivity. unfold m2. apply rest20_after. intros; discriminate. }
        split. { eapply (J_emit m2); [|repeat split]. apply J2; try reflexivity. simpl. lia. }
        split. { apply rest20_after. intros; discriminate. }
        eapply pers_trans; eauto.
        unfold new_actor, log_rec in PE. rewrite ID in PE. simpl haslogger in PE.
        change (allows (set_logseq s1 (logseq s1 + 1)) LOGLEVEL_OPEN) with (allows s1 LOGLEVEL_OPEN) in PE. rewrite DV in PE. exact PE.
      * exists m2. split.
        { simpl tr. rewrite mon20_obs by reflexivity. rewrite M1, ST2. reflexivity. }
        split. { apply J2; try reflexivity. simpl. lia. }
        split. { apply rest20_after. intros; discriminate. }
        eapply pers_trans; eauto.
        unfold new_actor, log_rec in PE. rewrite ID in PE. simpl haslogger in PE.
        change (allows (set_logseq s1 (logseq s1 + 1)) LOGLEVEL_OPEN) with (allows s1 LOGLEVEL_OPEN) in PE. rewrite DV in PE. exact PE.
  - (* Core::log *)
    assert (B1 : Z.of_nat (length (tr s1)) < BOUND).
    { pose proof (ext_len _ _ (leff_ext _ _ (le_log _ _ lvl (le_refl s1)))). lia. }
    destruct (IHE m MM JJ RR B1) as (m1 & M1 & J1 & R1 & P1).
    pose proof (deliver_J _ _ lvl J1) as DL.
    set (id := ctx_logid s1).
    assert (ST1 : step20 m1 (ELogReq id lvl) = Some (mk20 (l_has m1) (l_filt m1) (l_ids m1) (l_last m1) (l_body m1) (Some (ELogReq id lvl)) false)).
    { rewrite step20_rest by (auto; intros; discriminate). reflexivity. }
    unfold log_rec.
    change (allows (emit s1 (ELogReq id lvl)) lvl) with (allows s1 lvl).
    change (haslogger (emit s1 (ELogReq id lvl))) with (haslogger s1).
    destruct (allows s1 lvl && haslogger s1) eqn:DV.
    + eexists. split.
      { simpl tr. rewrite mon20_obs by reflexivity. rewrite mon20_obs by reflexivity. rewrite M1, ST1.
        unfold step20. simpl. rewrite !Z.eqb_refl. simpl. norm_allows m1.
        change (l_has m1 && allows20 m1 lvl) with (deliver20 m1 lvl). rewrite DL. simpl. reflexivity. }
      split. { eapply J_emit; [|repeat split]. eapply J_emit; eauto. repeat split. }
      split. { apply rest20_after. intros; discriminate. }
      eapply pers_trans; eauto. apply pers_same. reflexivity.
    + eexists. split.
      { simpl tr. rewrite mon20_obs by reflexivity. rewrite M1, ST1. reflexivity. }
      split. { eapply J_emit; eauto. repeat split. }
      split. { split; [reflexivity|]. simpl. intros id' lvl' EQ. inversion EQ; subst. exact DL. }
      eapply pers_trans; eauto. apply pers_same. reflexivity.
  - (* log filter query *)
    assert (B1 : Z.of_nat (length (tr s1)) < BOUND) by (simpl in BB; lia).
    destruct (IHE m MM JJ RR B1) as (m1 & M1 & J1 & R1 & P1).
    eexists. split.
    { simpl tr. rewrite mon20_obs by reflexivity. rewrite M1. rewrite step20_rest by (auto; intros; discriminate).
      unfold step20, clr. simpl. norm_allows m1. rewrite (allows_20 _ _ _ (j_filt _ _ J1)), eqb_reflx. reflexivity. }
    split. { eapply J_emit; eauto. repeat split. }
    split. { apply rest20_after. intros; discriminate. }
    eapply pers_trans; eauto. apply pers_same. reflexivity.
Qed.

(* ------------------------------------------------------------------ *)
(** * The helper functions of Rt.v in the calculus *)

Lemma le_set_env s0 s v : leff s0 s -> leff s0 (set_env s v). Proof. intros; eapply le_irr; [eassumption | irr_tac]. Qed.
Lemma le_set_nuid s0 s v : leff s0 s -> leff s0 (set_nuid s v). Proof. intros; eapply le_irr; [eassumption | irr_tac]. Qed.
Lemma le_set_fwds s0 s v : leff s0 s -> leff s0 (set_fwds s v). Proof. intros; eapply le_irr; [eassumption | irr_tac]. Qed.
Lemma le_set_shut s0 s v : leff s0 s -> leff s0 (set_shut s v). Proof. intros; eapply le_irr; [eassumption | irr_tac]. Qed.
Lemma le_set_tvars s0 s v : leff s0 s -> leff s0 (set_tvars s v). Proof. intros; eapply le_irr; [eassumption | irr_tac]. Qed.
Lemma le_set_tnext s0 s v : leff s0 s -> leff s0 (set_tnext s v). Proof. intros; eapply le_irr; [eassumption | irr_tac]. Qed.
Lemma le_set_timers s0 s v : leff s0 s -> leff s0 (set_timers s v). Proof. intros; eapply le_irr; [eassumption | irr_tac]. Qed.
Lemma le_set_mainq s0 s v : leff s0 s -> leff s0 (set_mainq s v). Proof. intros; eapply le_irr; [eassumption | irr_tac]. Qed.
Lemma le_set_lazyq s0 s v : leff s0 s -> leff s0 (set_lazyq s v). Proof. intros; eapply le_irr; [eassumption | irr_tac]. Qed.
Lemma le_set_idleq s0 s v : leff s0 s -> leff s0 (set_idleq s v). Proof. intros; eapply le_irr; [eassumption | irr_tac]. Qed.
Lemma le_set_now s0 s v : leff s0 s -> leff s0 (set_now s v). Proof. intros; eapply le_irr; [eassumption | irr_tac]. Qed.
Lemma le_set_recreate s0 s v : leff s0 s -> leff s0 (set_recreate s v). Proof. intros; eapply le_irr; [eassumption | irr_tac]. Qed.
Lemma le_set_alive s0 s v : leff s0 s -> leff s0 (set_alive s v). Proof. intros; eapply le_irr; [eassumption | irr_tac]. Qed.

Lemma le_set_frames s0 s fs : leff s0 s -> map f_ctx fs = ctxs s -> leff s0 (set_frames s fs).
Proof. intros E H. eapply le_irr; [eassumption|]. repeat split. exact H. Qed.

Lemma le_push_main s0 s ci : leff s0 s -> leff s0 (push_main s ci).
Proof. intros. unfold push_main. apply le_set_mainq; auto. Qed.

Lemma le_submit s0 s q ci : leff s0 s -> leff s0 (submit s q ci).
Proof.
  intros. unfold submit. destruct q.
  - apply le_push_main. apply le_emit; auto.
  - apply le_set_lazyq. apply le_emit; auto.
  - apply le_set_idleq. apply le_emit; auto.
  - apply le_emit; auto.
Qed.

Lemma le_timer_add s0 s k v t ci : leff s0 s -> leff s0 (timer_add s k v t ci).
Proof.
  intros. unfold timer_add. apply le_set_tvars, le_set_tnext, le_set_timers. apply le_emit; auto. apply le_emit; auto.
Qed.

Lemma le_ref_clone s0 s a : leff s0 s -> leff s0 (ref_clone s a).
Proof.
  intros H. unfold ref_clone. destruct (aget (actors s) a) as [x|] eqn:E.
  - destruct (a_freed x).
    + eapply le_upd with (y := x); auto. apply le_emit; auto.
    + eapply le_upd with (y := x); auto.
  - apply le_emit; auto.
Qed.

Lemma take_leff s0 s h o s' : leff s0 s -> take s h = (o, s') -> leff s0 s'.
Proof.
  intros H. unfold take. destruct (frames s) as [|fr rest] eqn:F.
  - destruct (aget (env s) h); intros E; inversion E; subst; auto. apply le_set_env; auto.
  - destruct (aget (f_loc fr) h).
    + intros E; inversion E; subst. apply le_set_frames; auto. unfold ctxs. rewrite F. reflexivity.
    + destruct (aget (env s) h); intros E; inversion E; subst; auto. apply le_set_env; auto.
Qed.

Lemma take_caps_leff ids : forall s0 s l s', leff s0 s -> take_caps ids s = (l, s') -> leff s0 s'.
Proof.
  induction ids as [|h r IH]; simpl; intros s0 s l s' H E.
  - inversion E; subst; auto.
  - destruct (take s h) as [[v|] s1] eqn:T.
    + destruct (take_caps r s1) as [l2 s2] eqn:T2. inversion E; subst.
      eapply IH; [|eauto]. eapply take_leff; eauto.
    + eapply IH; [|eauto]. eapply take_leff; eauto.
Qed.

Lemma take_env_caps_leff ids : forall s0 s l s', leff s0 s -> take_env_caps ids s = (l, s') -> leff s0 s'.
Proof.
  induction ids as [|h r IH]; simpl; intros s0 s l s' H E.
  - inversion E; subst; auto.
  - destruct (aget (env s) h).
    + destruct (take_env_caps r (set_env s (adel (env s) h))) as [l2 s2] eqn:T2. inversion E; subst.
      eapply IH; [|eauto]. apply le_set_env; auto.
    + eapply IH; eauto.
Qed.

Lemma inst_leff c mk s0 s ci s' : leff s0 s -> inst c mk s = (ci, s') -> leff s0 s'.
Proof.
  intros H. unfold inst. destruct (take_caps (clo_caps c) s) as [caps s1] eqn:T. intros E; inversion E; subst.
  apply le_emit; auto. apply le_set_nuid. eapply take_caps_leff; eauto.
Qed.

Lemma inst_env_leff c mk s0 s ci s' : leff s0 s -> inst_env c mk s = (ci, s') -> leff s0 s'.
Proof.
  intros H. unfold inst_env. destruct (take_env_caps (clo_caps c) s) as [caps s1] eqn:T. intros E; inversion E; subst.
  apply le_emit; auto. apply le_set_nuid. eapply take_env_caps_leff; eauto.
Qed.

Lemma inst_nocaps_leff c mk s0 s ci s' : leff s0 s -> inst_nocaps c mk s = (ci, s') -> leff s0 s'.
Proof. intros H. unfold inst_nocaps. intros E; inversion E; subst. apply le_emit; auto. apply le_set_nuid; auto. Qed.

Lemma target_ev_leff s0 s ci : leff s0 s -> leff s0 (target_ev s ci).
Proof. intros H. unfold target_ev. destruct ci as [u i k caps q]. destruct k; auto; apply le_emit; auto. Qed.

Lemma inst_call_leff c mk s0 s ci s' : leff s0 s -> inst_call c mk s = (ci, s') -> leff s0 s'.
Proof.
  intros H. unfold inst_call. destruct (inst c mk s) as [ci1 s1] eqn:I. intros E; inversion E; subst.
  apply target_ev_leff. eapply inst_leff; eauto.
Qed.

Lemma bind_leff s0 s h v l s' : leff s0 s -> bind s h v = (l, s') -> leff s0 s'.
Proof. intros H. unfold bind. destruct (aget (env s) h); intros E; inversion E; subst; apply le_set_env; auto. Qed.

Lemma bad_leff s0 s c l s' : leff s0 s -> bad s c = (l, s') -> leff s0 s'.
Proof. intros H. unfold bad. intros E; inversion E; subst. apply le_emit; auto. Qed.

Lemma tok_script_leff script : forall s0 s, leff s0 s -> leff s0 (tok_script s script).
Proof.
  unfold tok_script. induction script as [|c r IH]; simpl; intros s0 s H; auto.
  destruct (inst_env c KPlain s) as [ci s1] eqn:I. apply IH. apply le_submit. eapply inst_env_leff; eauto.
Qed.

Lemma mk_notifier_leff s0 s a n r s' : leff s0 s -> mk_notifier s a n = (r, s') -> leff s0 s'.
Proof.
  intros H. unfold mk_notifier. destruct n as [[hp c]|].
  - destruct (lookup s hp) as [v|].
    + destruct (handle_actor v) as [p|].
      * destruct (inst_call c (fun b => KMeth p b None) (ref_clone s p)) as [ci s2] eqn:I.
        intros E; inversion E; subst. eapply inst_call_leff; [|eauto]. apply le_ref_clone; auto.
      * intros E; inversion E; subst. apply le_emit; auto.
    + intros E; inversion E; subst. apply le_emit; auto.
  - intros E; inversion E; subst; auto.
Qed.

Lemma mk_notifier_shape s a n r s' : mk_notifier s a n = (r, s') -> nshape a r.
Proof.
  unfold mk_notifier. destruct n as [[hp c]|]; [|intros E; inversion E; reflexivity].
  destruct (lookup s hp) as [v|]; [|intros E; inversion E; reflexivity].
  destruct (handle_actor v) as [p|]; [|intros E; inversion E; reflexivity].
  destruct (inst_call _ _ _). intros E; inversion E; reflexivity.
Qed.

(* states that agree on the log id of every actor cell and on the frame contexts *)
Definition lsame (s s' : st) : Prop :=
  ctxs s' = ctxs s /\ forall a, option_map a_logid (aget (actors s') a) = option_map a_logid (aget (actors s) a).

Lemma lsame_refl s : lsame s s. Proof. split; auto. Qed.
Lemma lsame_trans a b c : lsame a b -> lsame b c -> lsame a c.
Proof. intros [A1 A2] [B1 B2]. split; [congruence|]. intros x. rewrite B2. apply A2. Qed.

Lemma lsame_irr s s' : irr s s' -> lsame s s'.
Proof. intros (_ & A & C & _). split; auto. intros a. rewrite A. reflexivity. Qed.

Lemma lsame_emit s e : lsame s (emit s e). Proof. split; reflexivity. Qed.

Lemma lsame_ref_clone s a : lsame s (ref_clone s a).
Proof.
  unfold ref_clone. destruct (aget (actors s) a) as [x|] eqn:E; [|apply lsame_emit].
  split. destruct (a_freed x); reflexivity.
  intros b. destruct (a_freed x); unfold upd_actor; simpl.
  all: destruct (N.eq_dec a b) as [<-|NE]; [rewrite aget_aset_eq, E; reflexivity | rewrite aget_aset_neq by auto; reflexivity].
Qed.

Lemma lsame_take s h o s' : take s h = (o, s') -> lsame s s'.
Proof.
  unfold take. destruct (frames s) as [|fr rest] eqn:F.
  - destruct (aget (env s) h); intros E; inversion E; subst; try apply lsame_refl. split; reflexivity.
  - destruct (aget (f_loc fr) h).
    + intros E; inversion E; subst. split; [|reflexivity]. unfold ctxs. simpl. rewrite F. reflexivity.
    + destruct (aget (env s) h); intros E; inversion E; subst; try apply lsame_refl. split; reflexivity.
Qed.

Lemma lsame_take_caps ids : forall s l s', take_caps ids s = (l, s') -> lsame s s'.
Proof.
  induction ids as [|h r IH]; simpl; intros s l s' E.
  - inversion E; subst. apply lsame_refl.
  - destruct (take s h) as [[v|] s1] eqn:T.
    + destruct (take_caps r s1) as [l2 s2] eqn:T2. inversion E; subst.
      eapply lsame_trans; [eapply lsame_take; eauto | eapply IH; eauto].
    + eapply lsame_trans; [eapply lsame_take; eauto | eapply IH; eauto].
Qed.

Lemma lsame_inst_call c mk s ci s' : inst_call c mk s = (ci, s') -> lsame s s'.
Proof.
  unfold inst_call, inst. destruct (take_caps (clo_caps c) s) as [caps s1] eqn:T. intros E; inversion E; subst.
  eapply lsame_trans; [eapply lsame_take_caps; eauto|].
  unfold target_ev. destruct (mk (clo_body c)); split; reflexivity.
Qed.

Lemma lsame_mk_notifier s a n r s' : mk_notifier s a n = (r, s') -> lsame s s'.
Proof.
  unfold mk_notifier. destruct n as [[hp c]|]; [|intros E; inversion E; apply lsame_refl].
  destruct (lookup s hp) as [v|]; [|intros E; inversion E; apply lsame_emit].
  destruct (handle_actor v) as [p|]; [|intros E; inversion E; apply lsame_emit].
  destruct (inst_call _ _ _) as [ci s2] eqn:I. intros E; inversion E; subst.
  eapply lsame_trans; [apply lsame_ref_clone | eapply lsame_inst_call; eauto].
Qed.

Lemma lsame_ctx_logid s s' : lsame s s' -> ctx_logid s' = ctx_logid s.
Proof.
  intros [C A]. unfold ctx_logid. rewrite !cur_ctx_ctxs, C. destruct (ctxs s) as [|c r]; auto.
  destruct c; auto. specialize (A a). destruct (aget (actors s') a), (aget (actors s) a); simpl in A; congruence.
Qed.

Lemma lsame_cur_ctx s s' : lsame s s' -> cur_ctx s' = cur_ctx s.
Proof. intros [C _]. rewrite !cur_ctx_ctxs, C. reflexivity. Qed.

Lemma lsame_none s s' a : lsame s s' -> aget (actors s) a = None -> aget (actors s') a = None.
Proof. intros [_ A] H. specialize (A a). rewrite H in A. destruct (aget (actors s') a); simpl in A; congruence. Qed.

Lemma lsame_some s s' a x : lsame s s' -> aget (actors s) a = Some x -> exists x', aget (actors s') a = Some x' /\ a_logid x' = a_logid x.
Proof. intros [_ A] H. specialize (A a). rewrite H in A. destruct (aget (actors s') a) as [x'|]; simpl in A; inversion A. eauto. Qed.

Lemma has_core_ctx s : has_core s = true -> cur_ctx s <> XNone.
Proof. unfold has_core. intros H C. rewrite C in H. rewrite andb_false_r in H. discriminate. Qed.

(* ------------------------------------------------------------------ *)
(** * Handlers *)

(* micro-ops other than a Close record and the termination notification behind it *)
Definition plain20 (m : mop) : bool :=
  match m with
  | MLogClose _ _ => false
  | MRetInvoke _ (Some (MCause _)) => false
  | _ => true
  end.

Lemma plain_drops l : forallb plain20 (drops l) = true.
Proof. induction l; simpl; auto. Qed.
Lemma plain_slab_drops l : forallb plain20 (slab_drops l) = true.
Proof. induction l as [|[c|n] l IH]; simpl; auto. Qed.
Lemma plain_map_dropitem l : forallb plain20 (map MDropItem l) = true.
Proof. induction l; simpl; auto. Qed.
Lemma plain_map_runitem l : forallb plain20 (map MRunItem l) = true.
Proof. induction l; simpl; auto. Qed.

Inductive lout (s : st) (pre : list mop) (s' : st) : Prop :=
| lo_eff : leff s s' -> poppers pre = [] -> forallb plain20 pre = true -> lout s pre s'
| lo_push s1 loc : leff s s1 -> s' = push_frame s1 XNone loc -> poppers pre = [MPopFrame] ->
                   forallb plain20 pre = true -> lout s pre s'.

Ltac leff_tac :=
  repeat first
    [ assumption
    | apply le_refl
    | apply le_emit; [ | reflexivity ]
    | apply le_submit | apply le_push_main | apply le_timer_add
    | apply le_set_nuid | apply le_set_env | apply le_set_fwds | apply le_set_shut
    | apply le_set_tvars | apply le_set_tnext | apply le_set_timers
    | apply le_ref_clone | apply tok_script_leff | apply target_ev_leff
    | apply le_set_frames; [ | solve [ unfold ctxs; match goal with H : frames _ = _ |- _ => simpl; rewrite H; reflexivity end ] ]
    | apply le_log | apply le_logcheck
    | (eapply le_upd; [ | eassumption | reflexivity | first [ left; reflexivity | right; reflexivity ] ])
    | eapply bind_leff; [ | eassumption ]
    | eapply bad_leff; [ | eassumption ]
    | eapply take_leff; [ | eassumption ]
    | eapply take_caps_leff; [ | eassumption ]
    | eapply inst_leff; [ | eassumption ]
    | eapply inst_call_leff; [ | eassumption ]
    | eapply inst_nocaps_leff; [ | eassumption ]
    | eapply mk_notifier_leff; [ | eassumption ] ].

Lemma bind_plain s h v l s' : bind s h v = (l, s') -> forallb plain20 l = true.
Proof. unfold bind. destruct (aget (env s) h); intros E; inversion E; reflexivity. Qed.
Lemma bad_plain s c l s' : bad s c = (l, s') -> forallb plain20 l = true.
Proof. unfold bad. intros E; inversion E; reflexivity. Qed.

Ltac lout_tac :=
  intros;
  match goal with
  | E : (_, _) = (_, _) |- _ => inversion E; subst; clear E
  | _ => idtac
  end;
  first
    [ apply lo_eff; [ leff_tac
                    | first [ reflexivity | eapply bind_poppers; eassumption | eapply bad_poppers; eassumption ]
                    | first [ reflexivity | eapply bind_plain; eassumption | eapply bad_plain; eassumption ] ]
    | eapply lo_push; [ | reflexivity | reflexivity | reflexivity ]; leff_tac ].

Lemma take_actors s h o s' : take s h = (o, s') -> actors s' = actors s.
Proof.
  unfold take. destruct (frames s) as [|fr rest].
  - destruct (aget (env s) h); intros E; inversion E; subst; reflexivity.
  - destruct (aget (f_loc fr) h); [intros E; inversion E; subst; reflexivity|].
    destruct (aget (env s) h); intros E; inversion E; subst; reflexivity.
Qed.

Lemma do_act_lout a s l s' : do_act a s = (l, s') -> lout s l s'.
Proof.
  unfold do_act. destruct a.
  all: try solve [repeat dest_match; try solve [lout_tac]].
  - (* ANewActor *)
    destruct (has_core s) eqn:HC; [|lout_tac].
    destruct (aget (actors s) a) eqn:AA; [lout_tac|].
    destruct (mk_notifier s a n) as [nt s1] eqn:MK. intros E.
    pose proof (lsame_mk_notifier _ _ _ _ _ MK) as LS.
    apply lo_eff; [|eapply bind_poppers; eauto | eapply bind_plain; eauto].
    eapply bind_leff; [|eauto]. apply le_new_actor.
    + eapply mk_notifier_leff; eauto. apply le_refl.
    + eapply lsame_none; eauto.
    + eapply mk_notifier_shape; eauto.
    + symmetry. apply lsame_ctx_logid; auto.
    + rewrite (lsame_cur_ctx _ _ LS). apply has_core_ctx; auto.
  - (* AStore *)
    repeat dest_match; try solve [lout_tac].
    intros E; inversion E; subst. apply lo_eff; try reflexivity.
    match goal with H : aget (actors s) _ = Some ?y0 |- _ =>
      eapply le_upd with (y := y0); [eapply take_leff; eauto; apply le_refl | | reflexivity | left; reflexivity] end.
    erewrite take_actors by eauto. eassumption.
  - (* ASlabAdd *)
    destruct (cur_ctx s) as [|p pr|] eqn:CC; try lout_tac. destruct pr; try lout_tac.
    destruct (alive s); try lout_tac.
    destruct (aget (actors s) p) as [px|] eqn:AP; try lout_tac.
    destruct (aget (actors s) a) eqn:AA; try lout_tac.
    destruct (a_state px) eqn:SP; try lout_tac.
    destruct (mk_notifier s a n) as [inner s1] eqn:MK.
    destruct (slab_insert slab snext a) as [[slab' nx'] key] eqn:SI.
    intros E.
    pose proof (lsame_mk_notifier _ _ _ _ _ MK) as LS.
    pose proof (lsame_trans _ _ _ LS (lsame_ref_clone s1 p)) as LS2.
    apply lo_eff; [|eapply bind_poppers; eauto | eapply bind_plain; eauto].
    eapply bind_leff; [|eauto]. apply le_emit; [|reflexivity].
    assert (NA : leff s (ref_clone (new_actor (ref_clone s1 p) a (Ret a (RKSlab p key inner)) (a_logid px) false) a)).
    { apply le_ref_clone. apply le_new_actor.
      - apply le_ref_clone. eapply mk_notifier_leff; eauto. apply le_refl.
      - eapply lsame_none; eauto.
      - simpl. eapply mk_notifier_shape; eauto.
      - rewrite (lsame_ctx_logid _ _ LS2). unfold ctx_logid. rewrite CC, AP. reflexivity.
      - rewrite (lsame_cur_ctx _ _ LS2), CC. discriminate. }
    destruct (aget (actors (ref_clone (new_actor (ref_clone s1 p) a (Ret a (RKSlab p key inner)) (a_logid px) false) a)) p) as [px'|] eqn:AP'.
    + eapply le_upd; [exact NA | exact AP' | reflexivity | left; reflexivity].
    + exact NA.
Qed.

Lemma state_drops_plain a sa s l s' : state_drops a sa s = (l, s') -> s' = s /\ poppers l = [] /\ forallb plain20 l = true.
Proof.
  unfold state_drops. destruct sa; intros E; inversion E; subst; repeat split; auto.
  - apply poppers_map_dropitem.
  - apply plain_map_dropitem.
  - simpl. rewrite poppers_app, poppers_drops, poppers_slab_drops. reflexivity.
  - simpl. rewrite forallb_app, plain_drops, plain_slab_drops. reflexivity.
Qed.

Lemma drop_val_lout v s l s' : drop_val v s = (l, s') -> lout s l s'.
Proof. unfold drop_val. destruct v; repeat dest_match; try solve [lout_tac]. Qed.

Lemma drop_own_lout a b s l s' : drop_own a b s = (l, s') -> lout s l s'.
Proof. unfold drop_own. repeat dest_match; try solve [lout_tac]. Qed.

Ltac use_state_drops20 :=
  match goal with
  | H : state_drops _ _ _ = (_, _) |- _ => apply state_drops_plain in H; destruct H as (? & ? & ?); subst
  end.

Lemma drop_ref_lout a s l s' : drop_ref a s = (l, s') -> lout s l s'.
Proof.
  unfold drop_ref. repeat dest_match; try solve [lout_tac].
  all: intros E; inversion E; subst; clear E; use_state_drops20.
  all: apply lo_eff; [ leff_tac | rewrite ?poppers_app; simpl; auto | rewrite ?forallb_app; simpl; auto ].
Qed.

Lemma terminate_l a c s pre s' : terminate a c s = (pre, s') ->
  leff s s' /\
  ((poppers pre = [] /\ forallb plain20 pre = true) \/
   (exists dl x nt, pre = dl ++ [MLogClose a c; MRetInvoke nt (Some (MCause c))] /\ poppers dl = [] /\
                    forallb plain20 dl = true /\ aget (actors s) a = Some x /\ a_notify x = Some nt)).
Proof.
  unfold terminate. destruct (aget (actors s) a) as [x|] eqn:AX.
  - destruct (state_drops a (a_state x) _) as [dl s1] eqn:SD. use_state_drops20.
    assert (L : leff s (upd_actor (if a_freed x then emit s (EModel M_UAF a) else s) a
                          (mkActor SZombie (oz (count_set_state (a_strong x) STATE_ZOMBIE)) (a_rc x) None (a_logid x) (a_freed x)))).
    { destruct (a_freed x); leff_tac. }
    destruct (a_notify x) as [nt|] eqn:NT; intros E; inversion E; subst; split; auto.
    right. exists dl, x, nt. repeat split; auto.
  - intros E; inversion E; subst. split; [leff_tac | left; split; reflexivity].
Qed.

Lemma ret_invoke_plain r m s pre s' : (forall c, m <> Some (MCause c)) -> ret_invoke r m s = (pre, s') -> lout s pre s'.
Proof.
  intros NC. unfold ret_invoke. destruct r as [rid k]. destruct k.
  - lout_tac.
  - lout_tac.
  - destruct m; lout_tac.
  - assert (Q : q20 (ENotify a (msg_cause m)) = true).
    { destruct m as [[v|c]|]; try reflexivity. exfalso. eapply NC; reflexivity. }
    destruct inner as [[p ci]|]; intros E; inversion E; subst; apply lo_eff; try reflexivity.
    + apply le_submit. apply le_emit; auto. apply le_refl.
    + apply le_emit; auto. apply le_refl.
  - destruct m as [[v|c]|]; try lout_tac. exfalso. eapply NC; reflexivity.
Qed.

(* ------------------------------------------------------------------ *)
(** * Frames and frame pops in the continuation *)

Definition calm (m : mop) : bool :=
  is_work m && match m with MRunItem _ | MToReady _ => false | _ => true end.

Inductive endm : fin -> ctx -> Prop :=
| em_none : endm FNone XStk
| em_meth a : endm (FMeth a) (XCx a false)
| em_prep a r : endm (FPrep a r) (XCx a true).

(* the frame pops of the continuation, top first, against the frame contexts: nested frames have no Core access;
   the bottom one belongs to a running item or to a top-level [do] *)
Inductive fr_ok : list mop -> list ctx -> Prop :=
| fo_nil : fr_ok [] []
| fo_end u f c : endm f c -> fr_ok [MEndBody u f] [c]
| fo_do : fr_ok [MPopFrame] [XStk]
| fo_nest ps cs : fr_ok ps cs -> fr_ok (MPopFrame :: ps) (XNone :: cs).

Definition FK (k : list mop) (cs : list ctx) : Prop :=
  exists w1 w2, k = w1 ++ w2 /\ forallb calm w1 = true /\ poppers w2 = [] /\ fr_ok (poppers w1) cs.

Lemma fr_ok_nested ps cs : fr_ok ps cs -> nested_ok cs.
Proof. intros H. induction H; simpl; auto. destruct cs; auto. Qed.

Lemma calm_not_popper_pre pre : forallb calm pre = true -> True. Proof. auto. Qed.

Lemma quiet_calm l : quiet l -> forallb calm l = true.
Proof.
  intros [A B]. induction l as [|m l IH]; simpl in *; auto.
  apply andb_prop in A as [A1 A2]. apply orb_false_elim in B as [B1 B2].
  rewrite IH; auto. unfold calm. rewrite A1. destruct m; simpl in *; auto; discriminate.
Qed.

(* the head is replaced by calm micro-ops without frame pops, frames unchanged *)
Lemma FK_eff m k0 cs pre :
  FK (m :: k0) cs -> is_popper m = false -> forallb calm pre = true -> poppers pre = [] -> FK (pre ++ k0) cs.
Proof.
  intros (w1 & w2 & E & C & P & F) NP CP PP. destruct w1 as [|x w1]; simpl in E.
  - subst w2. exists pre, k0. split; auto. split; auto. split.
    + simpl in P. rewrite NP in P. exact P.
    + rewrite PP. exact F.
  - inversion E; subst. exists (pre ++ w1), w2. rewrite app_assoc. split; auto.
    simpl in C. apply andb_prop in C as [_ C]. split. rewrite forallb_app, CP, C. reflexivity.
    split; auto. rewrite poppers_app, PP. simpl in F. rewrite NP in F. exact F.
Qed.

(* ... one nested frame pushed *)
Lemma FK_push m k0 cs pre :
  FK (m :: k0) cs -> is_popper m = false -> forallb calm pre = true -> poppers pre = [MPopFrame] ->
  FK (pre ++ k0) (XNone :: cs).
Proof.
  intros (w1 & w2 & E & C & P & F) NP CP PP. destruct w1 as [|x w1]; simpl in E.
  - subst w2. exists pre, k0. split; auto. split; auto. split.
    + simpl in P. rewrite NP in P. exact P.
    + rewrite PP. apply fo_nest. exact F.
  - inversion E; subst. exists (pre ++ w1), w2. rewrite app_assoc. split; auto.
    simpl in C. apply andb_prop in C as [_ C]. split. rewrite forallb_app, CP, C. reflexivity.
    split; auto. rewrite poppers_app, PP. simpl. apply fo_nest. simpl in F. rewrite NP in F. exact F.
Qed.

(* a micro-op that is not calm sits below every frame *)
Lemma FK_flat m k0 cs : FK (m :: k0) cs -> calm m = false -> cs = [] /\ poppers k0 = [] /\ is_popper m = false.
Proof.
  intros (w1 & w2 & E & C & P & F) NC. destruct w1 as [|x w1]; simpl in E.
  - subst w2. simpl in F. inversion F; subst. simpl in P. destruct (is_popper m); [discriminate|]. auto.
  - inversion E; subst. simpl in C. rewrite NC in C. discriminate.
Qed.

Lemma FK_of_flat k : poppers k = [] -> FK k [].
Proof. intros P. exists [], k. repeat split; auto. constructor. Qed.

Lemma FK_flat_push m k0 cs pre : FK (m :: k0) cs -> calm m = false -> poppers pre = [] -> FK (pre ++ k0) [].
Proof.
  intros F NC PP. destruct (FK_flat _ _ _ F NC) as (_ & P & _). apply FK_of_flat. rewrite poppers_app, PP, P. reflexivity.
Qed.

Lemma fr_ok_pop_inv ps cs : fr_ok (MPopFrame :: ps) cs ->
  (ps = [] /\ cs = [XStk]) \/ (exists cs', cs = XNone :: cs' /\ fr_ok ps cs').
Proof. intros H. inversion H; subst; eauto. Qed.

Lemma fr_ok_end_inv u f ps cs : fr_ok (MEndBody u f :: ps) cs -> ps = [] /\ exists c, cs = [c] /\ endm f c.
Proof. intros H. inversion H; subst; eauto. Qed.

(* a frame pop at the head *)
Lemma FK_pop k0 cs : FK (MPopFrame :: k0) cs ->
  exists c cs', cs = c :: cs' /\ (c = XNone \/ (c = XStk /\ cs' = [])) /\
               (forall pre, forallb calm pre = true -> poppers pre = [] -> FK (pre ++ k0) cs').
Proof.
  intros (w1 & w2 & E & C & P & F). destruct w1 as [|x w1]; simpl in E.
  - subst w2. simpl in P. discriminate.
  - inversion E; subst. simpl in F. simpl in C.
    apply fr_ok_pop_inv in F as [[PW ->]|(cs' & -> & F)].
    + exists XStk, []. split; auto. split; auto. intros pre CP PP. exists (pre ++ w1), w2. rewrite app_assoc. split; auto.
      split. rewrite forallb_app, CP, C. reflexivity. split; auto. rewrite poppers_app, PP, PW. constructor.
    + exists XNone, cs'. split; auto. split; auto. intros pre CP PP. exists (pre ++ w1), w2. rewrite app_assoc. split; auto.
      split. rewrite forallb_app, CP, C. reflexivity. split; auto. rewrite poppers_app, PP. exact F.
Qed.

(* the end of a body at the head: its frame is the only one *)
Lemma FK_end u f k0 cs : FK (MEndBody u f :: k0) cs -> exists c, cs = [c] /\ endm f c /\ poppers k0 = [].
Proof.
  intros (w1 & w2 & E & C & P & F). destruct w1 as [|x w1]; simpl in E.
  - subst w2. simpl in P. discriminate.
  - inversion E; subst. simpl in F. apply fr_ok_end_inv in F as [PW (c & -> & EM)].
    exists c. repeat split; auto. rewrite poppers_app, P, PW. reflexivity.
Qed.

(* ------------------------------------------------------------------ *)
(** * Termination notifications sit right behind their Close record *)

Inductive guarded (s : st) : list mop -> Prop :=
| g_nil : guarded s []
| g_pair a c r k x : nshape a r -> aget (actors s) a = Some x -> guarded s k ->
    guarded s (MLogClose a c :: MRetInvoke r (Some (MCause c)) :: k)
| g_other m k : plain20 m = true -> guarded s k -> guarded s (m :: k).

Lemma guarded_app s pre k : forallb plain20 pre = true -> guarded s k -> guarded s (pre ++ k).
Proof.
  induction pre as [|m pre IH]; simpl; auto. intros H G. apply andb_prop in H as [H1 H2]. apply g_other; auto.
Qed.

Lemma guarded_pers s s' k : pers s s' -> guarded s k -> guarded s' k.
Proof.
  intros P G. induction G.
  - constructor.
  - destruct (P _ _ H0) as (x' & A & _). eapply g_pair; eauto.
  - apply g_other; auto.
Qed.

Lemma guarded_tail s m k : plain20 m = true -> guarded s (m :: k) -> guarded s k.
Proof. intros P G. inversion G; subst; auto. discriminate. Qed.

Lemma guarded_app_inv s pre k : guarded s (pre ++ k) -> forallb plain20 pre = true -> guarded s k.
Proof.
  induction pre as [|m pre IH]; simpl; auto. intros G H. apply andb_prop in H as [H1 H2].
  apply IH; auto. eapply guarded_tail; eauto.
Qed.

(* after the Close record: the notification is the very next observable event *)
Definition pend (m : s20) (a : N) (c : cause) : Prop :=
  if deliver20 m LOGLEVEL_CLOSE
  then l_span m = true /\ exists id par, l_prev m = Some (ELog id LOGLEVEL_CLOSE par (marker_of c)) /\
                                         forall i, nget (l_ids m) a = Some i -> i = id
  else rest20 m.

Definition G20 (m : s20) (k : list mop) (s : st) : Prop :=
  (guarded s k /\ rest20 m) \/
  (exists a c r k', k = MRetInvoke r (Some (MCause c)) :: k' /\ nshape a r /\ guarded s k' /\ pend m a c).

Definition I20 (k : list mop) (s : st) : Prop :=
  exists m, mon20 (tr s) = Some m /\ J m s /\ FK k (ctxs s) /\ G20 m k s.

(* ------------------------------------------------------------------ *)
(** * Steps *)

Lemma lout_app s p s' l : lout s p s' -> poppers l = [] -> forallb plain20 l = true -> lout s (p ++ l) s'.
Proof.
  intros [E P Q|s1 loc E X P Q] PL QL.
  - apply lo_eff; auto. rewrite poppers_app, P, PL; reflexivity. rewrite forallb_app, Q, QL; reflexivity.
  - eapply lo_push; eauto. rewrite poppers_app, P, PL; reflexivity. rewrite forallb_app, Q, QL; reflexivity.
Qed.

Lemma J_push m s loc : J m s -> J m (push_frame s XNone loc).
Proof.
  intros [A B C D E F G H]. constructor; auto.
  - change (ctxs (push_frame s XNone loc)) with (XNone :: ctxs s). rewrite body_of_push. exact G.
  - change (ctxs (push_frame s XNone loc)) with (XNone :: ctxs s). apply nested_push. exact H.
Qed.

(* the quiet work micro-ops whose handlers are plain effects *)
Definition lclass (m : mop) : bool :=
  match m with
  | MActs _ | MDropItem _ | MDropInner _ | MDropVal _ | MDropOwn _ _ | MDropRef _
  | MValDrop _ | MDelDone _ _ | MOrphNew _ | MOrphDrop _ => true
  | MRetInvoke _ (Some (MCause _)) => false
  | MRetInvoke _ _ => true
  | _ => false
  end.

Lemma lclass_lout m s pre s' : lclass m = true -> handle m s = (pre, s') -> lout s pre s'.
Proof.
  intros C H. destruct m; try discriminate C; simpl in H.
  - destruct l as [|a l].
    + inversion H; subst. apply lo_eff; try reflexivity. apply le_refl.
    + destruct (do_act a s) as [p s1] eqn:E. inversion H; subst. apply lout_app; try reflexivity. eapply do_act_lout; eauto.
  - destruct c as [u i k caps q]. destruct k; simpl in H; inversion H; subst; apply lo_eff; try reflexivity; try apply le_refl.
    + apply le_emit; [apply le_refl | reflexivity].
    + apply poppers_drops.
    + apply plain_drops.
  - inversion H; subst. apply lo_eff; [apply le_emit; [apply le_refl | reflexivity] | apply poppers_drops | apply plain_drops].
  - eapply drop_val_lout; eauto.
  - eapply drop_own_lout; eauto.
  - eapply drop_ref_lout; eauto.
  - eapply ret_invoke_plain; eauto. intros c0 ->. destruct r. discriminate C.
  - inversion H; subst. apply lo_eff; try reflexivity. apply le_emit; [apply le_refl | reflexivity].
  - inversion H; subst. apply lo_eff; try reflexivity. apply le_emit; [apply le_refl | reflexivity].
  - inversion H; subst. apply lo_eff; try reflexivity. apply le_emit; [apply le_refl | reflexivity].
  - inversion H; subst. apply lo_eff; try reflexivity. apply le_emit; [apply le_refl | reflexivity].
Qed.

Lemma lclass_facts m : lclass m = true -> qmop m = true /\ plain20 m = true /\ is_popper m = false.
Proof.
  destruct m; try discriminate; intros H; repeat split; auto.
Qed.

Lemma qmop_calm_pre m s pre s' : qmop m = true -> handle m s = (pre, s') -> forallb calm pre = true.
Proof. intros Q H. apply quiet_calm. eapply handle_qmop; eauto. Qed.

Lemma ctxs_push s c loc : ctxs (push_frame s c loc) = c :: ctxs s.
Proof. reflexivity. Qed.

Lemma I20_lout mo k0 s pre s' m :
  plain20 mo = true -> is_popper mo = false -> forallb calm pre = true -> lout s pre s' ->
  mon20 (tr s) = Some m -> J m s -> FK (mo :: k0) (ctxs s) -> guarded s (mo :: k0) -> rest20 m ->
  Z.of_nat (length (tr s')) < BOUND -> I20 (pre ++ k0) s'.
Proof.
  intros PL NP CP LO MM JJ FF GG RR BB.
  destruct LO as [E P Q|s1 loc E X P Q].
  - destruct (leff_J _ _ E m MM JJ RR BB) as (m1 & M1 & J1 & R1 & P1).
    exists m1. split; auto. split; auto. split.
    + rewrite (leff_ctxs _ _ E). eapply FK_eff; eauto.
    + left. split; auto. apply guarded_app; auto. eapply guarded_pers; eauto. eapply guarded_tail; eauto.
  - subst s'. assert (B1 : Z.of_nat (length (tr s1)) < BOUND) by exact BB.
    destruct (leff_J _ _ E m MM JJ RR B1) as (m1 & M1 & J1 & R1 & P1).
    exists m1. split; auto. split. apply J_push; auto. split.
    + rewrite ctxs_push, (leff_ctxs _ _ E). eapply FK_push; eauto.
    + left. split; auto. apply guarded_app; auto. eapply guarded_pers with (s := s1).
      * apply pers_same. reflexivity.
      * eapply guarded_pers; eauto. eapply guarded_tail; eauto.
Qed.

(* MTerminate: effects, then the Close record micro-op with the notification right behind it *)
Lemma I20_terminate a c k0 s pre s' m :
  terminate a c s = (pre, s') ->
  mon20 (tr s) = Some m -> J m s -> FK (MTerminate a c :: k0) (ctxs s) -> guarded s (MTerminate a c :: k0) -> rest20 m ->
  Z.of_nat (length (tr s')) < BOUND -> I20 (pre ++ k0) s'.
Proof.
  intros H MM JJ FF GG RR BB.
  assert (CP : forallb calm pre = true) by (eapply (qmop_calm_pre (MTerminate a c)); eauto).
  destruct (terminate_l _ _ _ _ _ H) as [E [[P Q]|(dl & x & nt & -> & P & Q & AX & NT)]].
  - apply (I20_lout (MTerminate a c) k0 s pre s' m); auto. apply lo_eff; auto.
  - destruct (leff_J _ _ E m MM JJ RR BB) as (m1 & M1 & J1 & R1 & P1).
    exists m1. split; auto. split; auto. split.
    + rewrite (leff_ctxs _ _ E). eapply FK_eff; eauto. rewrite poppers_app, P. reflexivity.
    + left. split; auto. rewrite <- app_assoc. apply guarded_app; auto.
      destruct (P1 _ _ AX) as (x' & AX' & _). simpl.
      eapply g_pair; eauto. eapply (j_shape _ _ JJ); eauto.
      eapply guarded_pers; eauto. eapply guarded_tail; eauto. reflexivity.
Qed.

Lemma rest_not_span m : rest20 m -> l_span m = false. Proof. intros [A _]. exact A. Qed.

(* MLogClose: the Close record (if the filter lets it through); the notification is next *)
Lemma I20_logclose a c r k1 s pre s' m :
  handle (MLogClose a c) s = (pre, s') ->
  mon20 (tr s) = Some m -> J m s -> FK (MLogClose a c :: MRetInvoke r (Some (MCause c)) :: k1) (ctxs s) ->
  guarded s (MLogClose a c :: MRetInvoke r (Some (MCause c)) :: k1) -> rest20 m ->
  I20 (pre ++ MRetInvoke r (Some (MCause c)) :: k1) s'.
Proof.
  intros H MM JJ FF GG RR. simpl in H.
  inversion GG as [|a0 c0 r0 k x NS AX G1|m0 k PL G1]; subst; [|discriminate PL].
  rewrite AX in H. inversion H; subst. clear H. simpl.
  pose proof (deliver_J _ _ LOGLEVEL_CLOSE JJ) as DL.
  assert (FK' : FK (MRetInvoke r (Some (MCause c)) :: k1) (ctxs s)).
  { change (MRetInvoke r (Some (MCause c)) :: k1) with ([] ++ MRetInvoke r (Some (MCause c)) :: k1). eapply FK_eff; eauto. }
  unfold log_rec. destruct (allows s LOGLEVEL_CLOSE && haslogger s) eqn:DV.
  - (* delivered *)
    set (e := ELog (a_logid x) LOGLEVEL_CLOSE 0 (marker_of c)).
    assert (ST : step20 m e = Some (mk20 (l_has m) (l_filt m) (l_ids m) (l_last m) (l_body m) (Some e) true)).
    { unfold e. rewrite step20_rest_log; auto. unfold step20, clr. simpl. norm_allows m.
      change (l_has m && allows20 m LOGLEVEL_CLOSE) with (deliver20 m LOGLEVEL_CLOSE). rewrite DL.
      destruct c; reflexivity. }
    eexists. split. { simpl tr. rewrite mon20_obs by reflexivity. rewrite MM. exact ST. }
    split. { eapply J_emit; eauto. repeat split. }
    split. { exact FK'. }
    right. exists a, c, r, k1. split; auto. split; auto. split.
    { eapply guarded_pers; [|exact G1]. apply pers_same. reflexivity. }
    unfold pend, deliver20. simpl. norm_allows m.
    change (l_has m && allows20 m LOGLEVEL_CLOSE) with (deliver20 m LOGLEVEL_CLOSE). rewrite DL.
    split; auto. exists (a_logid x), 0. split; auto.
    intros i NG. destruct (j_ids _ _ JJ _ _ NG) as (x' & AX' & LX). congruence.
  - exists m. split; auto. split; auto. split; auto. right. exists a, c, r, k1. repeat split; auto.
    unfold pend. rewrite DL. exact RR.
Qed.

Lemma ref_clone_fields s a :
  haslogger (ref_clone s a) = haslogger s /\ logfilter (ref_clone s a) = logfilter s /\ logseq (ref_clone s a) = logseq s /\
  (length (tr s) <= length (tr (ref_clone s a)))%nat.
Proof.
  unfold ref_clone. destruct (aget (actors s) a) as [x|]; [destruct (a_freed x)|]; simpl; repeat split; auto; lia.
Qed.

(* the notification behind a Close record *)
Lemma I20_pending a c r k1 s pre s' m :
  ret_invoke r (Some (MCause c)) s = (pre, s') ->
  mon20 (tr s) = Some m -> J m s -> FK (MRetInvoke r (Some (MCause c)) :: k1) (ctxs s) ->
  nshape a r -> guarded s k1 -> pend m a c ->
  Z.of_nat (length (tr s')) < BOUND -> I20 (pre ++ k1) s'.
Proof.
  intros H MM JJ FF NS G1 PD BB.
  assert (CP : forallb calm pre = true) by (eapply (qmop_calm_pre (MRetInvoke r (Some (MCause c)))); eauto).
  destruct r as [rid rk]. destruct rk; simpl in NS; try contradiction; simpl in H.
  - (* the notifier itself *)
    subst a0.
    set (e := ENotify a (Some c)).
    assert (ST : exists m1, step20 m e = Some m1 /\ same20 m m1 /\ rest20 m1).
    { exists (mk20 (l_has m) (l_filt m) (l_ids m) (l_last m) (l_body m) (Some e) false).
      split; [|split; [repeat split | apply rest20_after; unfold e; intros; discriminate]].
      unfold pend in PD. destruct (deliver20 m LOGLEVEL_CLOSE) eqn:DL.
      - destruct PD as (SP & id & par & LP & IDS).
        unfold step20, e. rewrite LP, SP. simpl. replace (marker_of c =? marker20 c)%N with true by (destruct c; reflexivity). simpl.
        destruct (nget (l_ids m) a) as [i|] eqn:NG.
        + rewrite (IDS _ eq_refl), Z.eqb_refl. reflexivity.
        + reflexivity.
      - unfold e. rewrite step20_rest by (auto; intros; discriminate). unfold step20, clr. simpl. norm_allows m.
        change (l_has m && allows20 m LOGLEVEL_CLOSE) with (deliver20 m LOGLEVEL_CLOSE). rewrite DL. reflexivity. }
    destruct ST as (m1 & ST & SM & R1).
    assert (M1 : mon20 (tr (emit s e)) = Some m1) by (simpl tr; rewrite mon20_obs by reflexivity; rewrite MM; exact ST).
    assert (J1 : J m1 (emit s e)) by (eapply J_emit; eauto).
    assert (FK1 : FK (MRetInvoke (Ret rid (RKNotify a inner)) (Some (MCause c)) :: k1) (ctxs (emit s e))) by exact FF.
    assert (GG1 : guarded (emit s e) (MDropRef 0 :: k1)).
    { apply g_other; auto. eapply guarded_pers; [|exact G1]. apply pers_same. reflexivity. }
    assert (FK2 : FK (MDropRef 0 :: k1) (ctxs (emit s e))).
    { change (MDropRef 0 :: k1) with ([MDropRef 0] ++ k1). eapply FK_eff; eauto. }
    destruct inner as [[p ci]|]; inversion H; subst; clear H.
    + eapply (I20_lout (MDropRef 0)); eauto. apply lo_eff; try reflexivity. apply le_submit, le_refl.
    + eapply (I20_lout (MDropRef 0)); eauto. apply lo_eff; try reflexivity. apply le_refl.
  - (* the wrapper of a slab child: unwrap, still pending *)
    inversion H; subst; clear H.
    assert (E : leff s (push_main (ref_clone s p) (CI 0 0 (KSlabRm p key) [] None))) by (apply le_push_main, le_ref_clone, le_refl).
    assert (OB : observable (tr (push_main (ref_clone s p) (CI 0 0 (KSlabRm p key) [] None))) = observable (tr s)).
    { unfold push_main, ref_clone. destruct (aget (actors s) p) as [x|]; [destruct (a_freed x)|]; reflexivity. }
    assert (M1 : mon20 (tr (push_main (ref_clone s p) (CI 0 0 (KSlabRm p key) [] None))) = Some m).
    { unfold mon20. rewrite OB. exact MM. }
    assert (PE : pers s (push_main (ref_clone s p) (CI 0 0 (KSlabRm p key) [] None))).
    { intros b y AY. destruct (lsame_some _ _ _ _ (lsame_ref_clone s p) AY) as (y' & AY' & LY). exists y'. split; auto. }
    assert (J1 : J m (push_main (ref_clone s p) (CI 0 0 (KSlabRm p key) [] None))).
    { pose proof (lsame_ref_clone s p) as [LC LA]. destruct (ref_clone_fields s p) as (RF1 & RF2 & RF3 & RF4).
      destruct JJ as [A B C D F G K L]. constructor.
      - change (haslogger (push_main (ref_clone s p) (CI 0 0 (KSlabRm p key) [] None))) with (haslogger (ref_clone s p)). congruence.
      - change (logfilter (push_main (ref_clone s p) (CI 0 0 (KSlabRm p key) [] None))) with (logfilter (ref_clone s p)). congruence.
      - change (logseq (push_main (ref_clone s p) (CI 0 0 (KSlabRm p key) [] None))) with (logseq (ref_clone s p)). rewrite RF3. exact C.
      - change (logseq (push_main (ref_clone s p) (CI 0 0 (KSlabRm p key) [] None))) with (logseq (ref_clone s p)).
        change (tr (push_main (ref_clone s p) (CI 0 0 (KSlabRm p key) [] None))) with (tr (ref_clone s p)). rewrite RF3. lia.
      - intros b id NG. destruct (F _ _ NG) as (y & AY & LY). destruct (PE _ _ AY) as (y' & AY' & LY'). exists y'. split; auto. congruence.
      - intros b y nt AY NT. unfold push_main, ref_clone in AY. simpl in AY.
        destruct (aget (actors s) p) as [x|] eqn:AP; [|eapply G; eauto].
        assert (AY2 : aget (aset (actors s) p (with_rc x (oz (minrc_clone (a_rc x))))) b = Some y) by (destruct (a_freed x); exact AY).
        destruct (N.eq_dec p b) as [<-|NE].
        + rewrite aget_aset_eq in AY2. inversion AY2; subst y. simpl in NT. eapply G; eauto.
        + rewrite aget_aset_neq in AY2 by auto. eapply G; eauto.
      - change (ctxs (push_main (ref_clone s p) (CI 0 0 (KSlabRm p key) [] None))) with (ctxs (ref_clone s p)). rewrite LC. exact K.
      - change (ctxs (push_main (ref_clone s p) (CI 0 0 (KSlabRm p key) [] None))) with (ctxs (ref_clone s p)). rewrite LC. exact L. }
    exists m. split; auto. split; auto. split.
    + change (ctxs (push_main (ref_clone s p) (CI 0 0 (KSlabRm p key) [] None))) with (ctxs (ref_clone s p)).
      rewrite (proj1 (lsame_ref_clone s p)). eapply FK_eff; eauto.
    + right. exists a, c, inner, (MDropRef p :: k1). split; auto. split; auto. split; auto.
      apply g_other; auto. eapply guarded_pers; eauto.
Qed.

Lemma nested_tail c cs : nested_ok (c :: cs) -> nested_ok cs.
Proof. destruct cs; simpl; auto. intros [_ H]. exact H. Qed.

Lemma calm_drops l : forallb calm (drops l) = true.
Proof. apply quiet_calm, quiet_drops. Qed.

(* MPopFrame *)
Lemma I20_pop k0 s pre s' m :
  handle MPopFrame s = (pre, s') ->
  mon20 (tr s) = Some m -> J m s -> FK (MPopFrame :: k0) (ctxs s) -> guarded s (MPopFrame :: k0) -> rest20 m ->
  I20 (pre ++ k0) s'.
Proof.
  intros H MM JJ FF GG RR. simpl in H.
  destruct (FK_pop _ _ FF) as (c & cs' & CS & CC & FP).
  destruct (frames s) as [|fr rest] eqn:FR; [unfold ctxs in CS; rewrite FR in CS; discriminate|].
  inversion H; subst; clear H.
  assert (CX : ctxs (set_frames s rest) = cs').
  { unfold ctxs in *. simpl. rewrite FR in CS. simpl in CS. inversion CS; reflexivity. }
  exists m. split; auto. split.
  - destruct JJ as [A B C D F G K L]. constructor; auto.
    + rewrite CX. rewrite K, CS. destruct CC as [->|[-> ->]]; [apply body_of_push | reflexivity].
    + rewrite CX. rewrite CS in L. eapply nested_tail; eauto.
  - split.
    + rewrite CX. apply FP. apply calm_drops. apply poppers_drops.
    + left. split; auto. apply guarded_app. apply plain_drops.
      eapply guarded_pers with (s := s); [apply pers_same; reflexivity|]. eapply guarded_tail; eauto. reflexivity.
Qed.

Lemma endbody_tail_facts f fr :
  let tail := match f with
              | FNone => []
              | FMeth a => match f_die fr with Some c => [MTerminate a c] | None => [] end
              | FPrep a ready =>
                  match f_die fr with
                  | Some c => if ready then [MOrphNew a; MTerminate a c; MOrphDrop a] else [MTerminate a c]
                  | None => if ready then [MToReady a] else []
                  end
              end in
  poppers tail = [] /\ forallb plain20 tail = true.
Proof. destruct f; simpl; auto; destruct (f_die fr); try destruct ready; simpl; auto. Qed.

(* MEndBody *)
Lemma I20_endbody u f k0 s pre s' m :
  handle (MEndBody u f) s = (pre, s') ->
  mon20 (tr s) = Some m -> J m s -> FK (MEndBody u f :: k0) (ctxs s) -> guarded s (MEndBody u f :: k0) -> rest20 m ->
  I20 (pre ++ k0) s'.
Proof.
  intros H MM JJ FF GG RR. simpl in H.
  destruct (FK_end _ _ _ _ FF) as (c & CS & EM & PK).
  destruct (frames s) as [|fr rest] eqn:FR; [unfold ctxs in CS; rewrite FR in CS; discriminate|].
  assert (rest = []).
  { unfold ctxs in CS. rewrite FR in CS. simpl in CS. inversion CS. destruct rest; [reflexivity | discriminate]. }
  subst rest. inversion H; subst; clear H.
  destruct (endbody_tail_facts f fr) as [PT QT].
  eexists. split.
  { simpl tr. rewrite mon20_obs by reflexivity. rewrite MM. rewrite step20_rest by (auto; intros; discriminate). reflexivity. }
  split.
  { destruct JJ as [A B C D F G K L]. constructor; simpl; auto.
    change (length (EEnd u :: tr s)) with (S (length (tr s))). lia. }
  split.
  { apply FK_of_flat. rewrite !poppers_app, poppers_drops, PT, PK. reflexivity. }
  left. split; [|apply rest20_after; intros; discriminate].
  apply guarded_app. rewrite forallb_app, plain_drops, QT. reflexivity.
  eapply guarded_pers with (s := s); [apply pers_same; reflexivity|]. eapply guarded_tail; eauto. reflexivity.
Qed.

(* MRunItem: a body starts (one frame with Core access is pushed), or effects only *)
Inductive rcase (s : st) (pre : list mop) (s' : st) : Prop :=
| rc_run e cx f u body tailm loc :
    pre = MActs body :: MEndBody u f :: tailm -> poppers tailm = [] -> forallb plain20 tailm = true ->
    forallb calm tailm = true -> endm f cx -> s' = push_frame (emit s e) cx loc ->
    ((exists n q, e = ERun u n q /\ cx = XStk) \/ (exists a n, e = EMeth a u n /\ cx = XCx a false) \/
     (exists a n, e = EPrep a u n /\ cx = XCx a true)) -> rcase s pre s'
| rc_eff : leff s s' -> poppers pre = [] -> forallb plain20 pre = true -> forallb calm pre = true -> rcase s pre s'.

Lemma run_item_rcase c s pre s' : run_item c s = (pre, s') -> rcase s pre s'.
Proof.
  unfold run_item. destruct c as [u i kd caps q]. destruct kd.
  - intros E; inversion E; subst. eapply rc_run with (tailm := []); try reflexivity. constructor. left. eauto.
  - destruct (aget (actors s) a) as [x|] eqn:AX.
    + destruct (a_state x) eqn:SX; intros E; inversion E; subst.
      * apply rc_eff; try reflexivity. eapply le_upd; [apply le_refl | exact AX | reflexivity | left; reflexivity].
      * eapply rc_run with (tailm := [MDropRef a]); try reflexivity. constructor. right; left. eauto.
      * apply rc_eff; try reflexivity. apply le_refl.
    + intros E; inversion E; subst. apply rc_eff; try reflexivity. apply le_emit; [apply le_refl | reflexivity].
  - destruct (aget (actors s) a) as [x|] eqn:AX.
    + destruct (ob (count_is_prep (a_strong x))); intros E; inversion E; subst.
      * eapply rc_run with (tailm := [MDropRef a]); try reflexivity. constructor. right; right. eauto.
      * apply rc_eff; try reflexivity. apply le_refl.
    + intros E; inversion E; subst. apply rc_eff; try reflexivity. apply le_emit; [apply le_refl | reflexivity].
  - destruct (aget (actors s) p) as [x|] eqn:AX.
    + destruct (a_state x) eqn:SX.
      * intros E; inversion E; subst. apply rc_eff; try reflexivity.
        eapply le_upd; [apply le_refl | exact AX | reflexivity | left; reflexivity].
      * destruct (nth_error slab (N.to_nat key)) as [[child|nx]|]; intros E; inversion E; subst; apply rc_eff; try reflexivity.
        -- eapply le_upd; [apply le_refl | exact AX | reflexivity | left; reflexivity].
        -- apply le_emit; [apply le_refl | reflexivity].
        -- apply le_emit; [apply le_refl | reflexivity].
      * intros E; inversion E; subst. apply rc_eff; try reflexivity. apply le_refl.
    + intros E; inversion E; subst. apply rc_eff; try reflexivity. apply le_emit; [apply le_refl | reflexivity].
  - intros E; inversion E; subst. apply rc_eff; try reflexivity. apply le_refl.
  - intros E; inversion E; subst. apply rc_eff; try reflexivity. apply le_refl.
Qed.

Lemma ctxs_nil_frames s : ctxs s = [] -> frames s = [].
Proof. unfold ctxs. destruct (frames s); [auto | discriminate]. Qed.

Lemma I20_flat_eff mo k0 s pre s' m :
  calm mo = false -> plain20 mo = true -> leff s s' -> poppers pre = [] -> forallb plain20 pre = true ->
  mon20 (tr s) = Some m -> J m s -> FK (mo :: k0) (ctxs s) -> guarded s (mo :: k0) -> rest20 m ->
  Z.of_nat (length (tr s')) < BOUND -> I20 (pre ++ k0) s'.
Proof.
  intros NC PL E P Q MM JJ FF GG RR BB.
  destruct (leff_J _ _ E m MM JJ RR BB) as (m1 & M1 & J1 & R1 & P1).
  destruct (FK_flat _ _ _ FF NC) as (CS & PK & _).
  exists m1. split; auto. split; auto. split.
  - rewrite (leff_ctxs _ _ E), CS. apply FK_of_flat. rewrite poppers_app, P, PK. reflexivity.
  - left. split; auto. apply guarded_app; auto. eapply guarded_pers; eauto. eapply guarded_tail; eauto.
Qed.

Lemma I20_runitem c k0 s pre s' m :
  run_item c s = (pre, s') ->
  mon20 (tr s) = Some m -> J m s -> FK (MRunItem c :: k0) (ctxs s) -> guarded s (MRunItem c :: k0) -> rest20 m ->
  Z.of_nat (length (tr s')) < BOUND -> I20 (pre ++ k0) s'.
Proof.
  intros H MM JJ FF GG RR BB.
  destruct (run_item_rcase _ _ _ _ H) as [e cx f u body tailm loc -> PT QT CT EM -> EV|E P Q CP].
  - destruct (FK_flat _ _ _ FF eq_refl) as (CS & PK & _).
    assert (ST : step20 m e = Some (mk20 (l_has m) (l_filt m) (l_ids m) (l_last m) (body_of [cx]) (Some e) false)).
    { destruct EV as [(n & q & -> & ->)|[(a & n & -> & ->)|(a & n & -> & ->)]];
        (rewrite step20_rest by (auto; intros; discriminate)); reflexivity. }
    eexists. split. { simpl tr. rewrite mon20_obs. rewrite MM. exact ST.
                      destruct EV as [(n & q & -> & ->)|[(a & n & -> & ->)|(a & n & -> & ->)]]; reflexivity. }
    assert (CX : ctxs (push_frame (emit s e) cx loc) = [cx]).
    { rewrite ctxs_push. change (ctxs (emit s e)) with (ctxs s). rewrite CS. reflexivity. }
    split.
    { destruct JJ as [A B C D F G K L]. constructor.
      - exact A.
      - exact B.
      - exact C.
      - simpl. change (length (e :: tr s)) with (S (length (tr s))). lia.
      - exact F.
      - exact G.
      - rewrite CX. reflexivity.
      - rewrite CX. exact I. }
    split.
    { rewrite CX. exists (MActs body :: MEndBody u f :: tailm), k0. split; [reflexivity|]. split.
      - simpl. exact CT.
      - split; auto. simpl. rewrite PT. constructor. exact EM. }
    left. split.
    { change (MActs body :: MEndBody u f :: tailm) with ([MActs body; MEndBody u f] ++ tailm). rewrite <- app_assoc.
      apply guarded_app; [reflexivity|]. apply guarded_app; auto.
      eapply guarded_pers with (s := s); [apply pers_same; reflexivity|]. eapply guarded_tail; eauto. reflexivity. }
    apply rest20_after. destruct EV as [(n & q & -> & ->)|[(a & n & -> & ->)|(a & n & -> & ->)]]; intros; discriminate.
  - eapply (I20_flat_eff (MRunItem c)); eauto.
Qed.

Lemma I20_toready a k0 s pre s' m :
  handle (MToReady a) s = (pre, s') ->
  mon20 (tr s) = Some m -> J m s -> FK (MToReady a :: k0) (ctxs s) -> guarded s (MToReady a :: k0) -> rest20 m ->
  Z.of_nat (length (tr s')) < BOUND -> I20 (pre ++ k0) s'.
Proof.
  intros H MM JJ FF GG RR BB. simpl in H.
  assert (X : leff s s' /\ poppers pre = [] /\ forallb plain20 pre = true).
  { destruct (aget (actors s) a) as [x|] eqn:AX.
    - destruct (a_state x) eqn:SX; inversion H; subst; repeat split; try reflexivity.
      + apply le_emit; [|reflexivity]. eapply le_upd; [apply le_refl | exact AX | reflexivity | left; reflexivity].
      + apply poppers_map_runitem.
      + apply plain_map_runitem.
      + apply le_emit; [apply le_refl | reflexivity].
      + apply le_emit; [apply le_refl | reflexivity].
    - inversion H; subst. repeat split; try reflexivity. apply le_emit; [apply le_refl | reflexivity]. }
  destruct X as (E & P & Q). eapply (I20_flat_eff (MToReady a)); eauto.
Qed.

(* ------------------------------------------------------------------ *)
(** * Phase and top-level micro-ops *)

Lemma fold_emit_opt_leff (f : N * actor -> option ev) l :
  (forall p e, f p = Some e -> q20 e = true) -> forall s0 s, leff s0 s -> leff s0 (fold_left (fun x p => emit_opt x (f p)) l s).
Proof.
  intros Q. induction l as [|p l IH]; simpl; intros s0 s H; auto.
  apply IH. unfold emit_opt. destruct (f p) as [e|] eqn:F; auto. apply le_emit; auto. eapply Q; eauto.
Qed.

Lemma class_flags_leff s0 s : leff s0 s -> leff s0 (class_flags s).
Proof.
  intros H. unfold class_flags. apply fold_emit_opt_leff; auto.
  intros p e F. destruct (class_flag_model _ _ _ F) as (c & a & -> & _). reflexivity.
Qed.

Lemma emit_list_leff l : Forall (fun e => q20 e = true) l -> forall s0 s, leff s0 s -> leff s0 (set_tr s (l ++ tr s)).
Proof.
  intros F. induction F as [|e l Q F IH]; intros s0 s H.
  - simpl. eapply le_irr; [exact H|]. destruct s; repeat split.
  - change (set_tr s ((e :: l) ++ tr s)) with (emit (set_tr s (l ++ tr s)) e). apply le_emit; auto.
Qed.

Lemma leaks_quiet t : Forall (fun e => q20 e = true) (rev (leaks t)).
Proof.
  apply Forall_rev. unfold leaks. apply Forall_forall. intros e H. apply in_map_iff in H as (p & <- & _). reflexivity.
Qed.

Lemma fire_leff t s fired s2 : fire t s = (fired, s2) -> leff s s2.
Proof.
  unfold fire. intros E; inversion E; subst. apply le_set_timers.
  destruct (ambiguous _); [apply le_emit; [apply le_refl | reflexivity] | apply le_refl].
Qed.

Lemma filter20_of lvls : filter20 lvls = filter_of lvls.
Proof. reflexivity. Qed.

Lemma J_fields m m' s s' :
  J m s -> l_has m' = haslogger s' -> l_filt m' = logfilter s' -> 0 <= l_last m' <= logseq s' ->
  logseq s' <= logseq s -> (length (tr s) <= length (tr s'))%nat -> l_ids m' = l_ids m -> actors s' = actors s ->
  l_body m' = body_of (ctxs s') -> nested_ok (ctxs s') -> J m' s'.
Proof.
  intros [A B C D F G K L] H1 H2 H3 H4 H4' H5 H6 H7 H8. constructor; auto.
  - lia.
  - rewrite H5, H6. exact F.
  - rewrite H6. exact G.
Qed.

Ltac pp_tac :=
  simpl; rewrite ?poppers_app, ?forallb_app, ?poppers_map_runitem, ?plain_map_runitem, ?poppers_map_dropitem, ?plain_map_dropitem;
  reflexivity.

Lemma I20_phase mo k0 s pre s' m :
  is_work mo = false -> handle mo s = (pre, s') ->
  mon20 (tr s) = Some m -> J m s -> FK (mo :: k0) (ctxs s) -> guarded s (mo :: k0) -> rest20 m ->
  Z.of_nat (length (tr s')) < BOUND -> I20 (pre ++ k0) s'.
Proof.
  intros W H MM JJ FF GG RR BB.
  assert (NC : calm mo = false) by (unfold calm; rewrite W; reflexivity).
  assert (PL : plain20 mo = true) by (destruct mo; try discriminate W; reflexivity).
  destruct (FK_flat _ _ _ FF NC) as (CS & PK & _).
  assert (GT : guarded s k0) by (eapply guarded_tail; eauto).
  assert (EFF : forall pre0 s0, leff s s0 -> poppers pre0 = [] -> forallb plain20 pre0 = true ->
                 Z.of_nat (length (tr s0)) < BOUND -> I20 (pre0 ++ k0) s0).
  { intros pre0 s0 E P Q B0. eapply (I20_flat_eff mo); eauto. }
  destruct mo; try discriminate W; simpl in H.
  - (* MTop *)
    unfold do_top in H. destruct o.
    + destruct (alive s); inversion H; subst; apply EFF; auto; apply le_refl.
    + destruct (alive s); [|unfold bad in H]; inversion H; subst; apply EFF; auto; apply le_emit; try reflexivity; apply le_refl.
    + (* TDo *)
      inversion H; subst; clear H.
      set (c := if alive s then XStk else XNone).
      assert (CX : ctxs (push_frame s c []) = [c]) by (rewrite ctxs_push, CS; reflexivity).
      exists m. split; auto. split.
      { pose proof JJ as [A B C D F G K L]. apply (J_fields m m s _ JJ); auto.
        - simpl. lia.
        - rewrite CX. rewrite K, CS. unfold c. destruct (alive s); reflexivity.
        - rewrite CX. exact I. }
      split.
      { rewrite CX. exists [MActs l; MPopFrame], k0. repeat split; auto. simpl. unfold c.
        destruct (alive s); [apply fo_do | apply fo_nest, fo_nil]. }
      left. split; auto. apply (guarded_app _ [MActs l; MPopFrame]); auto.
      eapply guarded_pers with (s := s); [apply pers_same; reflexivity | exact GT].
    + destruct (alive s); inversion H; subst; apply EFF; auto; try apply le_refl. apply le_emit; try reflexivity; apply le_refl.
    + inversion H; subst. apply EFF; auto. apply le_refl.
    + (* TSetLogger *)
      destruct (alive s); [|unfold bad in H; inversion H; subst; apply EFF; auto; apply le_emit; try reflexivity; apply le_refl].
      inversion H; subst; clear H.
      eexists. split.
      { simpl tr. rewrite mon20_obs by reflexivity. rewrite MM. rewrite step20_rest by (auto; intros; discriminate). reflexivity. }
      split.
      { pose proof JJ as [A B C D F G K L]. apply (J_fields m _ s _ JJ); simpl; auto; lia. }
      split. { match goal with |- FK _ (ctxs ?x) => change (ctxs x) with (ctxs s); rewrite CS end. apply FK_of_flat. exact PK. }
      left. split. { eapply guarded_pers with (s := s); [apply pers_same; reflexivity | exact GT]. }
      apply rest20_mk. intros; discriminate.
    + (* TSetFilter *)
      destruct (alive s); [|unfold bad in H; inversion H; subst; apply EFF; auto; apply le_emit; try reflexivity; apply le_refl].
      inversion H; subst; clear H.
      change (haslogger (emit s (ESetFilter lvls))) with (haslogger s).
      assert (ST1 : step20 m (ESetFilter lvls) =
                    Some (mk20 (l_has m) (filter_of lvls) (l_ids m) (l_last m) (l_body m) (Some (ESetFilter lvls)) false)).
      { rewrite step20_rest by (auto; intros; discriminate). reflexivity. }
      destruct (haslogger s) eqn:HL.
      * eexists. split.
        { simpl tr. rewrite mon20_obs by reflexivity. rewrite mon20_obs by reflexivity. rewrite MM, ST1.
          assert (LH : l_has m = true) by (rewrite (j_has _ _ JJ); exact HL).
          unfold step20. simpl. rewrite LH. reflexivity. }
        split.
        { pose proof JJ as [A B C D F G K L]. apply (J_fields m _ s _ JJ); simpl; auto; lia. }
        split. { match goal with |- FK _ (ctxs ?x) => change (ctxs x) with (ctxs s); rewrite CS end. apply FK_of_flat. exact PK. }
        left. split. { eapply guarded_pers with (s := s); [apply pers_same; reflexivity | exact GT]. }
        apply rest20_mk. intros; discriminate.
      * eexists. split.
        { simpl tr. rewrite mon20_obs by reflexivity. rewrite MM. exact ST1. }
        split.
        { pose proof JJ as [A B C D F G K L]. apply (J_fields m _ s _ JJ); simpl; auto; try lia; try congruence. }
        split. { match goal with |- FK _ (ctxs ?x) => change (ctxs x) with (ctxs s); rewrite CS end. apply FK_of_flat. exact PK. }
        left. split. { eapply guarded_pers with (s := s); [apply pers_same; reflexivity | exact GT]. }
        apply rest20_mk. intros; discriminate.
  - (* MNew *)
    inversion H; subst; clear H.
    eexists. split.
    { simpl tr. rewrite mon20_obs by reflexivity. rewrite MM. rewrite step20_rest by (auto; intros; discriminate). reflexivity. }
    split.
    { pose proof JJ as [A B C D F G K L]. apply (J_fields m _ s _ JJ); try (simpl; auto; lia).
      all: change (ctxs (fresh_stakker (set_mainq (emit s (ENew t)) []) t)) with (ctxs s); rewrite CS; first [reflexivity | exact I]. }
    split.
    { change (ctxs (fresh_stakker (set_mainq (emit s (ENew t)) []) t)) with (ctxs s). rewrite CS.
      apply FK_of_flat. rewrite poppers_app, poppers_map_dropitem, PK. reflexivity. }
    left. split; [|apply rest20_mk; intros; discriminate].
    apply guarded_app. apply plain_map_dropitem.
    eapply guarded_pers with (s := s); [apply pers_same; reflexivity | exact GT].
  - (* MRunIdle *)
    destruct idle; [destruct (idleq s)|]; inversion H; subst; apply EFF; auto; try apply le_refl. apply le_set_idleq, le_refl.
  - (* MRunMain *)
    destruct (t >? now s).
    + inversion H; subst. apply EFF; auto.
      * apply le_set_timers. destruct (ambiguous _); [apply le_emit; [|reflexivity]|]; apply le_set_now, le_set_mainq, le_refl.
      * apply poppers_map_runitem.
      * apply plain_map_runitem.
    + inversion H; subst. apply EFF; auto. apply le_set_mainq, le_refl. apply poppers_map_runitem. apply plain_map_runitem.
  - (* MLoop *)
    destruct (mainq s) as [|c l] eqn:MQ.
    + destruct (lazyq s) as [|c l] eqn:LQ.
      * inversion H; subst. apply EFF; auto. apply le_emit; [|reflexivity].
        destruct (t >? recreate s); [apply le_set_recreate|]; apply le_refl.
      * inversion H; subst. apply EFF; auto. apply le_set_lazyq, le_refl.
        pp_tac.
        pp_tac.
    + inversion H; subst. apply EFF; auto. apply le_set_mainq, le_refl.
      pp_tac.
      pp_tac.
  - (* MDrain *)
    destruct (i >=? TEARDOWN_ROUNDS).
    + inversion H; subst. apply EFF; auto. destruct (is_nil (mainq s)); [apply le_refl | apply le_emit; [apply le_refl | reflexivity]].
    + destruct (mainq s) as [|c l] eqn:MQ; inversion H; subst; apply EFF; auto; try apply le_refl.
      * apply le_set_mainq, le_refl.
      * pp_tac.
      * pp_tac.
  - (* MDropFields *)
    inversion H; subst. apply EFF; auto.
    + apply le_emit; [|reflexivity]. apply le_set_tvars, le_set_timers, le_set_idleq, le_set_lazyq.
      destruct (ambiguous (timers s)); [apply le_emit; [apply le_refl | reflexivity] | apply le_refl].
    + pp_tac.
    + pp_tac.
  - (* MDropEnd *)
    inversion H; subst. apply EFF; auto. apply le_emit; [|reflexivity]. apply le_set_alive.
    destruct (is_nil (mainq s)); [apply le_refl | apply le_emit; [apply le_refl | reflexivity]].
  - (* MDropAll *)
    destruct (amin (env s)) as [[h v]|]; inversion H; subst; apply EFF; auto; try apply le_refl. apply le_set_env, le_refl.
  - (* MEpilogue *)
    inversion H; subst. apply EFF; auto. apply le_emit; [apply le_refl | reflexivity].
  - (* MLeaks *)
    inversion H; subst. apply EFF; auto. apply emit_list_leff. apply leaks_quiet. apply class_flags_leff, le_refl.
Qed.

(* ------------------------------------------------------------------ *)
(** * The theorem *)

Theorem step_I20 k s k' s' :
  I20 k s -> step k s = Some (k', s') -> Z.of_nat (length (tr s')) < BOUND -> I20 k' s'.
Proof.
  intros (m & MM & JJ & FF & GG) H BB. destruct k as [|mo k0]; [discriminate|]. simpl in H.
  destruct (handle mo s) as [pre s1] eqn:E. inversion H; subst; clear H.
  destruct GG as [[GG RR]|(a & c & r & k1 & EQ & NS & G1 & PD)].
  2:{ inversion EQ; subst. simpl in E. eapply I20_pending; eauto. }
  destruct (lclass mo) eqn:LC.
  { destruct (lclass_facts _ LC) as (Q & PL & NP).
    eapply (I20_lout mo); eauto. eapply qmop_calm_pre; eauto. eapply lclass_lout; eauto. }
  destruct (is_work mo) eqn:W.
  2:{ eapply I20_phase; eauto. }
  destruct mo; try discriminate W; try discriminate LC; simpl in E.
  - eapply I20_pop; eauto.
  - eapply I20_endbody; eauto.
  - eapply I20_runitem; eauto.
  - (* MRetInvoke with a cause: only behind its Close record *)
    destruct m0 as [[v|c]|]; try (destruct r; discriminate LC). inversion GG; subst. discriminate.
  - eapply I20_terminate; eauto.
  - (* MLogClose *)
    inversion GG as [|a0 c0 r0 k x NS AX G1|m1 k PL G1]; subst; [|discriminate PL].
    eapply I20_logclose; eauto.
  - eapply I20_toready; eauto.
Qed.

Lemma I20_init d p : I20 (map MTop p ++ [MEpilogue]) (init d).
Proof.
  exists i20. split; [reflexivity|]. split.
  - constructor; simpl; auto; try lia. intros a id H. discriminate. intros a x nt H. discriminate.
  - split.
    + apply FK_of_flat. rewrite poppers_app. simpl. rewrite app_nil_r. induction p; simpl; auto.
    + left. split; [|split; [reflexivity | intros id lvl H; discriminate]].
      apply guarded_app; [|apply g_other; [reflexivity | constructor]]. induction p; simpl; auto.
Qed.

Lemma run_inv20 fuel : forall k s t,
  (BOUND <= Z.of_nat (length (tr s)) \/ I20 k s) -> run fuel k s = Done t ->
  exists s', t = rev (tr s') /\ (BOUND <= Z.of_nat (length (tr s')) \/ I20 [] s').
Proof.
  induction fuel as [|f IH]; intros k s t I H; simpl in H.
  - destruct k; [|discriminate]. inversion H; subst. eauto.
  - destruct (step k s) as [[k' s']|] eqn:ST.
    + eapply IH; [|exact H]. destruct I as [B|I].
      * left. pose proof (ext_len _ _ (step_ext _ _ _ _ ST)). lia.
      * destruct (Z_lt_le_dec (Z.of_nat (length (tr s'))) BOUND) as [LT|GE]; [right|left; auto].
        eapply step_I20; eauto.
    + destruct k; [|simpl in ST; destruct (handle m s); discriminate]. inversion H; subst. eauto.
Qed.

(** C20 for every program, every amount of fuel and either deferrer kind, on the observable part of the trace;
    the execution must emit fewer than 2^64 - 1 events (LogIDs are 64-bit counters). *)
Theorem C20_proved : forall (d : dkind) (p : list top) (fuel : nat) (t : list ev),
  exec d fuel p = Done t -> Z.of_nat (length t) < 18446744073709551615 -> C20_ok (observable t) = true.
Proof.
  intros d p fuel t H BB. unfold exec in H.
  destruct (run_inv20 fuel _ _ _ (or_intror (I20_init d p)) H) as (s' & -> & [B|I]).
  - rewrite rev_length in BB. unfold BOUND in B. lia.
  - destruct I as (m & MM & JJ & FF & GG). unfold C20_ok. rewrite observable_rev, fold_mon_rev.
    unfold mon20 in MM. rewrite MM.
    destruct GG as [[_ [LS LR]]|(a & c & r & k1 & EQ & _)]; [|discriminate EQ].
    unfold fin20. destruct (l_prev m) as [e|] eqn:LP; auto. destruct e; auto.
    + rewrite LS. reflexivity.
    + specialize (LR _ _ eq_refl). unfold deliver20 in LR. rewrite LR. reflexivity.
Qed.

(* the hypotheses are satisfiable by a program that logs: a parent and a child actor, an Open record with a parent
   id, Close records, user records filtered *)
Example C20_nontrivial :
  exists t, exec DGlobal 600
    [TNew 0; TSetLogger [2; 6; 7];
     TDo [ANewActor 1 1 None; ACallPrep 1 (Clo 1 0 0 [] [ALog 2; ALog 1]) true;
          ACall 1 (Clo 2 0 0 [] [ANewActor 2 2 None; ACallPrep 2 (Clo 3 0 0 [] []) true; AStop])];
     TRun 2 false] = Done t
    /\ Z.of_nat (length t) < 18446744073709551615
    /\ In (ELog 1 LOGLEVEL_OPEN 0 0) t /\ In (ELog 2 LOGLEVEL_OPEN 1 0) t /\ In (ELog 1 LOGLEVEL_CLOSE 0 0) t
    /\ In (ELog 1 LOGLEVEL_INFO 0 0) t /\ ~ In (ELog 1 LOGLEVEL_DEBUG 0 0) t.
Proof.
  eexists. split; [vm_compute; reflexivity|]. split; [vm_compute; reflexivity|].
  repeat split; try (simpl; tauto).
  intros H. simpl in H. repeat (destruct H as [H|H]; [discriminate H|]). exact H.
Qed.
