(** Layer R proofs: the trace only grows. *)
From Coq Require Import ZArith NArith List Bool Lia.
From Stk Require Import Lib.U Gen.SrcCount Gen.SrcCore Gen.SrcLog R.Syntax R.Rt R.Shape R.Eff R.Tags.
Import ListNotations.
Local Open Scope Z_scope.

Definition ext (s s' : st) : Prop := exists evs, tr s' = evs ++ tr s.

Lemma ext_refl s : ext s s. Proof. exists []. reflexivity. Qed.
Lemma ext_trans a b c : ext a b -> ext b c -> ext a c.
Proof. intros [x X] [y Y]. exists (y ++ x). rewrite Y, X, app_assoc. reflexivity. Qed.
Lemma ext_emit s e : ext s (emit s e). Proof. exists [e]. reflexivity. Qed.
Lemma ext_same s s' : tr s' = tr s -> ext s s'. Proof. intros H. exists []. auto. Qed.

Lemma eff_ext s s1 : eff s s1 -> ext s s1.
Proof.
  intros E. induction E; try apply ext_refl; try (eapply ext_trans; [exact IHE|]).
  all: try (apply ext_same; reflexivity).
  - apply ext_emit.
  - apply ext_emit.
  - apply ext_emit.
  - unfold submit. destruct q; eexists [_]; reflexivity.
  - unfold submit. eexists [_]; reflexivity.
  - unfold timer_add. eexists [_; _]; reflexivity.
Qed.

Lemma hcase_ext mo s pre s' : hcase mo s pre s' -> ext s s'.
Proof.
  intros [O|c M C P S|fr rest M F P S].
  - destruct O as [E _|s1 loc E X _]; [apply eff_ext; auto|]. subst. eapply ext_trans; [apply eff_ext; eauto|]. apply ext_same. reflexivity.
  - subst. apply ext_emit.
  - subst. apply ext_same. reflexivity.
Qed.

Lemma fold_emit_opt_ext (f : N * actor -> option ev) l : forall s, ext s (fold_left (fun s0 p => emit_opt s0 (f p)) l s).
Proof.
  induction l as [|p0 l IH]; simpl; intros s; [apply ext_refl|].
  eapply ext_trans; [|apply IH]. unfold emit_opt. destruct (f p0); [apply ext_emit | apply ext_refl].
Qed.

Ltac ext_tac :=
  repeat first
    [ apply ext_refl
    | apply ext_emit
    | (eapply ext_trans; [ | apply ext_emit ])
    | (apply ext_same; reflexivity) ].

Lemma handle_ext mo s pre s' : handle mo s = (pre, s') -> ext s s'.
Proof.
  intros H. destruct (qmop mo) eqn:Q.
  { destruct (handle_qmop _ _ _ _ Q H) as [_ HC]. eapply hcase_ext; eauto. }
  destruct mo; try discriminate Q; simpl in H.
  - (* MTop *)
    unfold do_top in H. destruct o; repeat (revert H; dest_match; intros H); unfold bad in *; inversion H; subst; ext_tac.
    all: try (eexists [_]; reflexivity).
    all: try (eexists [_; _]; reflexivity).
  - destruct (frames s); inversion H; subst; [eexists [_; _]; reflexivity | ext_tac].
  - revert H. unfold run_item. destruct c as [u i kd caps q]. destruct kd; repeat dest_match; intros H; inversion H; subst;
      first [ apply ext_refl | (apply ext_same; reflexivity) | (eexists [_]; reflexivity) ].
  - destruct (aget (actors s) a) as [x|]; [destruct (a_state x)|]; inversion H; subst; eexists [_]; reflexivity.
  - inversion H; subst. eexists [_]; reflexivity.
  - destruct idle; [destruct (idleq s)|]; inversion H; subst; first [apply ext_refl | apply ext_same; reflexivity].
  - destruct (t >? now s); inversion H; subst; [|apply ext_same; reflexivity].
    destruct (ambiguous _); [eexists [_]; reflexivity | apply ext_same; reflexivity].
  - destruct (mainq s); [destruct (lazyq s)|]; inversion H; subst; try (apply ext_same; reflexivity).
    destruct (t >? recreate s); eexists [_]; reflexivity.
  - destruct (i >=? TEARDOWN_ROUNDS).
    + inversion H; subst. destruct (is_nil (mainq s)); [apply ext_refl | apply ext_emit].
    + destruct (mainq s); inversion H; subst; [apply ext_refl | apply ext_same; reflexivity].
  - inversion H; subst. destruct (ambiguous (timers s)); [eexists [_; _]; reflexivity | eexists [_]; reflexivity].
  - inversion H; subst. destruct (is_nil (mainq s)); [eexists [_]; reflexivity | eexists [_; _]; reflexivity].
  - destruct (amin (env s)) as [[h v]|]; inversion H; subst; [apply ext_same; reflexivity | apply ext_refl].
  - inversion H; subst. apply ext_emit.
  - inversion H; subst. unfold class_flags.
    destruct (fold_emit_opt_ext (class_flag (actors s)) (actors s) s) as [evs E].
    eexists (_ ++ evs). simpl. rewrite E. rewrite app_assoc. reflexivity.
Qed.

Lemma step_ext k s k' s' : step k s = Some (k', s') -> ext s s'.
Proof.
  destruct k as [|mo k0]; [discriminate|]. simpl. destruct (handle mo s) as [pre s1] eqn:E.
  intros H; inversion H; subst. eapply handle_ext; eauto.
Qed.

Lemma ext_in s s' e : ext s s' -> In e (tr s) -> In e (tr s').
Proof. intros [evs E] H. rewrite E. apply in_or_app. auto. Qed.
