(** Layer R proofs: C15 (virtual time is monotone and uniform within a run).

    Main theorem [C15_time]: for every program, fuel and deferrer kind, if the machine terminates with
    trace [tr] then [C15_ok tr = true]. *)
From Coq Require Import ZArith NArith List Bool Lia.
From Stk Require Import Lib.U Gen.SrcCount Gen.SrcCore Gen.SrcLog R.Syntax R.Rt R.Mon R.Shape R.Eff R.Tags.
Import ListNotations.
Local Open Scope Z_scope.

(* ------------------------------------------------------------------ *)
(** * Monitors on the reversed trace *)

Fixpoint monr {S} (step : S -> ev -> option S) (init : S) (t : list ev) : option S :=
  match t with
  | [] => Some init
  | e :: r => match monr step init r with Some s => step s e | None => None end
  end.

Lemma fold_mon_snoc {S} (step : S -> ev -> option S) t e acc :
  fold_left (fun a x => match a with Some s => step s x | None => None end) (t ++ [e]) acc =
  match fold_left (fun a x => match a with Some s => step s x | None => None end) t acc with
  | Some s => step s e | None => None end.
Proof. rewrite fold_left_app. reflexivity. Qed.

Lemma monr_fold {S} (step : S -> ev -> option S) init t :
  fold_left (fun a x => match a with Some s => step s x | None => None end) (rev t) (Some init) = monr step init t.
Proof.
  induction t as [|e r IH]; simpl; auto. rewrite fold_mon_snoc, IH. reflexivity.
Qed.

Lemma fold_mon_rev {S} (step : S -> ev -> option S) fin init t :
  fold_mon step fin init (rev t) = match monr step init t with Some s => fin s | None => false end.
Proof. unfold fold_mon. rewrite monr_fold. reflexivity. Qed.

(* ------------------------------------------------------------------ *)
(** * The relation between the monitor state and the machine *)

Definition idle15 (m : s15) (w : list mop) : Prop :=
  (exists c, w = [MRunItem c] /\ tagged QIdle c /\ t_idleok m = true /\ t_inidle m = None) \/
  (exists u w1 w2, w = w1 ++ MEndBody u FNone :: w2 /\ quiet w1 /\ quiet w2 /\ t_inidle m = Some u) \/
  (quiet w /\ t_inidle m = None).

Definition timer_mop (m : s15) (mo : mop) : Prop :=
  match mo with
  | MRunItem c => ci_call c = false -> ci_sq c = Some QTimer -> t_adv m = true
  | _ => True
  end.

Definition R15 (m : s15) (k : list mop) (s : st) : Prop :=
  t_start m = start s /\
  match phase_of k with
  | Some (PRunIdle b t) =>
      t_next m = Some (Z.max (now s) t) /\ t_cur m = now s /\ t_idleok m = b /\ t_inidle m = None /\
      t_adv m = (t >? now s) /\ work_of k = []
  | Some (PRunMain t) =>
      t_next m = Some (Z.max (now s) t) /\ t_cur m = now s /\ t_adv m = (t >? now s) /\ idle15 m (work_of k)
  | Some (PLoop t) =>
      t_inidle m = None /\ ((t_next m = None /\ t_cur m = now s) \/ t_next m = Some (now s)) /\
      Forall (timer_mop m) (work_of k)
  | Some _ => t_next m = None /\ t_cur m = now s /\ t_inidle m = None
  | None => False
  end.

Definition I15 (k : list mop) (s : st) : Prop :=
  exists m, monr step15 i15 (tr s) = Some m /\ R15 m k s.

(* what the effects need: Core::now() observed now passes the monitor *)
Definition P15 (m : s15) (s : st) : Prop :=
  t_start m = start s /\
  match t_inidle m, t_next m with
  | None, Some tn => t_cur m = now s \/ tn = now s
  | _, _ => t_cur m = now s
  end.

Lemma R15_P15 m k s : R15 m k s -> P15 m s.
Proof.
  intros [S R]. split; auto. destruct (phase_of k) as [[]|]; try contradiction.
  - destruct R as (A & B & C). rewrite A, C. auto.
  - destruct R as (A & B & C & D & E & F). rewrite A, D. auto.
  - destruct R as (A & B & C & D). rewrite A. destruct (t_inidle m); auto.
  - destruct R as (A & [[B C]|B] & D); rewrite A, B; auto.
  - destruct R as (A & B & C). rewrite A, C. auto.
  - destruct R as (A & B & C). rewrite A, C. auto.
  - destruct R as (A & B & C). rewrite A, C. auto.
Qed.

Lemma step15_quiet m e : quiet_ev e = true -> step15 m e = Some m.
Proof. destruct e; simpl; try discriminate; auto. Qed.

Lemma step15_sub m q u c : step15 m (ESub q u c) = Some m.
Proof. reflexivity. Qed.

Lemma step15_drop m u q c : step15 m (EDrop u q c) = Some m.
Proof. reflexivity. Qed.

Lemma step15_now m s : P15 m s -> step15 m (ENum TAG_NOW (now s)) = Some m.
Proof.
  intros [_ P]. simpl. unfold guard. revert P. destruct (t_inidle m), (t_next m); simpl; intros P.
  - rewrite P, Z.eqb_refl. reflexivity.
  - rewrite P, Z.eqb_refl. reflexivity.
  - destruct P as [P|P]; rewrite P, Z.eqb_refl; simpl; rewrite ?orb_true_r; reflexivity.
  - rewrite P, Z.eqb_refl. reflexivity.
Qed.

Lemma step15_start m s : P15 m s -> step15 m (ENum TAG_START (start s)) = Some m.
Proof. intros [P _]. simpl. unfold guard. rewrite P, Z.eqb_refl. reflexivity. Qed.

(* effects leave the monitor state, now and start unchanged *)
Lemma eff_mon15 s s1 m :
  eff s s1 -> P15 m s -> monr step15 i15 (tr s) = Some m ->
  monr step15 i15 (tr s1) = Some m /\ now s1 = now s /\ start s1 = start s.
Proof.
  intros E P M. induction E; auto.
  all: destruct (IHE P M) as (A & B & C).
  all: try solve [repeat split; simpl; auto].
  - unfold emit; simpl. rewrite A. split; auto. apply step15_quiet; auto.
  - unfold emit; simpl. rewrite A. split; auto. apply step15_now. unfold P15 in *. rewrite B, C. exact P.
  - unfold emit; simpl. rewrite A. split; auto. apply step15_start. unfold P15 in *. rewrite B, C. exact P.
  - unfold submit, emit. destruct q; simpl; rewrite A; auto.
  - unfold submit, emit. simpl; rewrite A; auto.
  - unfold timer_add, emit. simpl. rewrite A. auto.
Qed.

Lemma hcase_mon15 mo s pre s' m :
  hcase mo s pre s' -> P15 m s -> monr step15 i15 (tr s) = Some m ->
  monr step15 i15 (tr s') = Some m /\ now s' = now s /\ start s' = start s.
Proof.
  intros [O|c M C P S|fr rest M F P S] PP MM.
  - destruct O as [E _|s1 loc E X _].
    + eapply eff_mon15; eauto.
    + subst. destruct (eff_mon15 _ _ _ E PP MM) as (A & B & C). auto.
  - subst. unfold emit; simpl. rewrite MM. auto.
  - subst. simpl. auto.
Qed.

(* ------------------------------------------------------------------ *)
(** * Step preservation *)

Lemma timer_mop_adv m m' mo : t_adv m' = t_adv m -> timer_mop m mo -> timer_mop m' mo.
Proof. intros E. destruct mo; simpl; auto. rewrite E. auto. Qed.

Lemma Forall_timer_adv m m' l : t_adv m' = t_adv m -> Forall (timer_mop m) l -> Forall (timer_mop m') l.
Proof. intros E F. eapply Forall_impl; [|exact F]. intros a. apply timer_mop_adv; auto. Qed.

Lemma quiet_timer m l : quiet l -> Forall (timer_mop m) l.
Proof.
  intros Q. apply Forall_forall. intros x Hx. pose proof (quiet_no_runish _ _ Q Hx) as R.
  destruct x; simpl; auto; discriminate.
Qed.

Lemma norun_timer m l : (forall x, In x l -> match x with MRunItem _ => False | _ => True end) -> Forall (timer_mop m) l.
Proof. intros H. apply Forall_forall. intros x Hx. specialize (H x Hx). destruct x; simpl; auto; contradiction. Qed.

Lemma idle15_step m mo w pre :
  qmop mo = true -> quiet pre -> idle15 m (mo :: w) -> idle15 m (pre ++ w).
Proof.
  intros Q P H. apply andb_prop in Q as [Q1 Q2]. apply negb_true_iff in Q2.
  destruct H as [(c & E & _)|[(u & w1 & w2 & E & A & B & C)|(A & B)]].
  - inversion E; subst. simpl in Q2. discriminate.
  - right; left. destruct w1 as [|x w1]; simpl in E; inversion E; subst.
    + simpl in Q2. discriminate.
    + exists u, (pre ++ w1), w2. rewrite app_assoc. split; [reflexivity|]. split; [|split; auto].
      apply quiet_app; auto. apply quiet_inv in A as [_ [_ X]]. exact X.
  - right; right. split; auto. apply quiet_app; auto. apply quiet_inv in A as [_ [_ X]]. exact X.
Qed.

Lemma I15_qmop mo k0 s pre s' :
  qmop mo = true -> handle mo s = (pre, s') -> I15 (mo :: k0) s -> I15 (pre ++ k0) s'.
Proof.
  intros Q E (m & MM & R).
  destruct (handle_qmop _ _ _ _ Q E) as [QP HC].
  pose proof (R15_P15 _ _ _ R) as P.
  destruct (hcase_mon15 _ _ _ _ _ HC P MM) as (A & B & C).
  exists m. split; auto.
  pose proof Q as Q'. apply andb_prop in Q' as [W _]. destruct QP as [P1 P2].
  destruct (work_step_phase mo k0 pre W P1) as [X [Y Z]].
  destruct R as [RS R]. split. congruence.
  rewrite X, Z. rewrite Y in R. rewrite B.
  destruct (phase_of (mo :: k0)) as [[]|]; auto.
  - destruct R as (R1 & R2 & R3 & R4 & R5 & R6). discriminate R6.
  - destruct R as (R1 & R2 & R3 & R4). repeat split; auto. eapply idle15_step; eauto. split; auto.
  - destruct R as (R1 & R2 & R3). repeat split; auto. inversion R3; subst.
    apply Forall_app; split; auto. apply quiet_timer. split; auto.
Qed.

(* the events of running one item *)
Inductive start_ev (c : citem) (s : st) : list ev -> Prop :=
| se_none : start_ev c s []
| se_quiet e : quiet_ev e = true -> start_ev c s [e]
| se_run : ci_call c = false ->
           start_ev c s [ERun (ci_uid c) (now s) (match ci_sq c with Some q => q | None => QMain end)]
| se_meth a : ci_call c = true -> start_ev c s [EMeth a (ci_uid c) (now s)]
| se_prep a : ci_call c = true -> start_ev c s [EPrep a (ci_uid c) (now s)].

Lemma run_item_ev c s pre s' :
  run_item c s = (pre, s') ->
  now s' = now s /\ start s' = start s /\ exists evs, tr s' = evs ++ tr s /\ start_ev c s evs.
Proof.
  unfold run_item. destruct c as [u i kd caps q]. destruct kd; repeat dest_match; intros E; inversion E; subst; clear E;
    (split; [reflexivity | split; [reflexivity|]]).
  all: try (exists []; split; [reflexivity | constructor]).
  all: try (eexists [_]; split; [reflexivity | first [ apply se_run; reflexivity | apply se_meth; reflexivity | apply se_prep; reflexivity | apply se_quiet; reflexivity ] ]).
Qed.

Lemma run_item_norun c s pre s' x : run_item c s = (pre, s') -> In x pre -> match x with MRunItem _ => False | _ => True end.
Proof.
  unfold run_item. destruct c as [u i kd caps q]. destruct kd; repeat dest_match; intros E; inversion E; subst; clear E;
    simpl; intros H; repeat (destruct H as [H|H]); subst; simpl; auto; try contradiction; try discriminate.
Qed.

Lemma upd15_cur m s :
  t_inidle m = None -> ((t_next m = None /\ t_cur m = now s) \/ t_next m = Some (now s)) ->
  t_cur (upd15 m) = now s /\ t_next (upd15 m) = None /\ t_inidle (upd15 m) = None /\ t_adv (upd15 m) = t_adv m /\
  t_start (upd15 m) = t_start m.
Proof.
  intros I [[A B]|A]; unfold upd15; rewrite A; simpl; auto.
Qed.

Lemma I15_runitem c k0 s pre s' :
  shape (MRunItem c :: k0) -> Tags (MRunItem c :: k0) s ->
  run_item c s = (pre, s') -> I15 (MRunItem c :: k0) s -> I15 (pre ++ k0) s'.
Proof.
  intros SH T E (m & MM & R).
  assert (HW : handle (MRunItem c) s = (pre, s')) by exact E.
  destruct (handle_work (MRunItem c) _ _ _ eq_refl HW) as [PW _].
  destruct (work_step_phase (MRunItem c) k0 pre eq_refl PW) as [X [Y Z]].
  destruct (run_item_ev _ _ _ _ E) as (N & S & evs & TR & SE).
  pose proof (tg_work _ _ T) as WT. unfold work_tags in WT. rewrite Y in WT.
  destruct R as [RS R]. rewrite Y in R.
  destruct SH as [p [PH RU]]. rewrite Y in RU. simpl in RU. specialize (RU eq_refl).
  unfold I15, R15. rewrite X, Z. rewrite PH in *.
  destruct p; try discriminate RU.
  - (* before the idle item: impossible, there is no work yet *)
    destruct R as (_ & _ & _ & _ & _ & R6). discriminate R6.
  - (* the idle item starts *)
    destruct R as (R1 & R2 & R3 & R4).
    destruct R4 as [(c0 & E0 & TC & IO & II)|[(u & w1 & w2 & E0 & A & B & C)|(A & B)]].
    + inversion E0; subst c0. rewrite H1 in *. clear E0 H1.
      destruct TC as [TC TQ]. destruct c as [u i kd caps q]. unfold ci_call in TC; simpl in TC, TQ.
      destruct kd; try discriminate TC. subst q. simpl in E. inversion E; subst.
      exists (mk15 (t_cur m) (t_start m) (t_next m) false (Some u) (t_adv m)). split.
      * simpl. rewrite MM. simpl. unfold guard. rewrite IO, R2, Z.eqb_refl. reflexivity.
      * simpl. split; auto. split; auto. split; auto. split; auto.
        right; left. exists u, [MActs body], []. simpl. split; auto. split. quiet_tac. split. quiet_tac. reflexivity.
    + exfalso. destruct w1 as [|x w1]; simpl in E0; inversion E0; subst.
      apply quiet_inv in A as [_ [A _]]. discriminate.
    + exfalso. apply quiet_inv in A as [_ [A _]]. discriminate.
  - (* in the loop *)
    rewrite TR, N, S.
    destruct R as (R1 & R2 & R3). inversion R3 as [|? ? TM R3']; subst. inversion WT as [|? ? LI WT']; subst.
    destruct (upd15_cur m s R1 R2) as (U1 & U2 & U3 & U4 & U5).
    assert (NR : Forall (timer_mop m) pre /\ Forall (timer_mop (upd15 m)) pre).
    { split; apply norun_timer; intros x Hx; eapply run_item_norun; eauto. }
    destruct NR as [NR1 NR2].
    inversion SE; subst; simpl.
    + exists m. rewrite MM. repeat split; auto. apply Forall_app; split; auto.
    + exists m. rewrite MM. split. apply step15_quiet; auto. repeat split; auto. apply Forall_app; split; auto.
    + (* a plain closure starts *)
      exists (upd15 m). rewrite MM.
      assert (Q : match ci_sq c with Some q => q | None => QMain end <> QIdle).
      { destruct (LI H) as [L|[L|L]]; rewrite L; discriminate. }
      split.
      * simpl. destruct (match ci_sq c with Some q => q | None => QMain end) eqn:QE; try congruence;
          unfold guard; rewrite U1, Z.eqb_refl; simpl; auto.
        rewrite U4. simpl in TM. rewrite TM; auto. destruct (ci_sq c) as [[]|]; try discriminate QE; reflexivity.
      * split. congruence. repeat split; auto. apply Forall_app; split; auto.
        eapply Forall_timer_adv; [|exact R3']. auto.
    + exists (upd15 m). rewrite MM. split.
      * simpl. unfold guard. rewrite U1, Z.eqb_refl. reflexivity.
      * split. congruence. repeat split; auto. apply Forall_app; split; auto.
        eapply Forall_timer_adv; [|exact R3']. auto.
    + exists (upd15 m). rewrite MM. split.
      * simpl. unfold guard. rewrite U1, Z.eqb_refl. reflexivity.
      * split. congruence. repeat split; auto. apply Forall_app; split; auto.
        eapply Forall_timer_adv; [|exact R3']. auto.
Qed.

Lemma endbody_ev u f s pre s' :
  handle (MEndBody u f) s = (pre, s') ->
  now s' = now s /\ start s' = start s /\
  (tr s' = EEnd u :: tr s \/ tr s' = EEnd u :: EBad 60 :: tr s).
Proof.
  simpl. destruct (frames s) as [|fr rest]; intros E; inversion E; subst; repeat split; auto.
Qed.

Lemma endbody_norun u f s pre s' x : handle (MEndBody u f) s = (pre, s') -> In x pre -> match x with MRunItem _ => False | _ => True end.
Proof.
  simpl. destruct (frames s) as [|fr rest]; intros E; inversion E; subst; clear E; simpl; [contradiction|].
  intros H. apply in_app_or in H as [H|H].
  - unfold drops in H. apply in_map_iff in H as [y [Y _]]. subst. exact I.
  - destruct f; simpl in H; try contradiction; destruct (f_die fr); try destruct ready; simpl in H;
      repeat (destruct H as [H|H]); subst; simpl; auto; try contradiction.
Qed.

Lemma I15_endbody u f k0 s pre s' :
  shape (MEndBody u f :: k0) -> handle (MEndBody u f) s = (pre, s') ->
  I15 (MEndBody u f :: k0) s -> I15 (pre ++ k0) s'.
Proof.
  intros SH E (m & MM & R).
  destruct (handle_work (MEndBody u f) _ _ _ eq_refl E) as [PW _].
  destruct (work_step_phase (MEndBody u f) k0 pre eq_refl PW) as [X [Y Z]].
  destruct (endbody_ev _ _ _ _ _ E) as (N & S & TR).
  destruct R as [RS R]. rewrite Y in R.
  destruct SH as [p [PH RU]]. rewrite Y in RU. simpl in RU. specialize (RU eq_refl).
  unfold I15, R15. rewrite X, Z, N, S. rewrite PH in *.
  destruct p; try discriminate RU.
  - destruct R as (_ & _ & _ & _ & _ & R6). discriminate R6.
  - (* the idle item ends *)
    destruct R as (R1 & R2 & R3 & R4).
    destruct R4 as [(c0 & E0 & _)|[(v & w1 & w2 & E0 & A & B & C)|(A & B)]].
    + inversion E0.
    + destruct w1 as [|x w1]; simpl in E0; inversion E0; subst.
      2:{ exfalso. apply quiet_inv in A as [_ [A _]]. discriminate. }
      assert (QP : quiet pre) by (eapply endbody_none_quiet; eauto).
      destruct TR as [TR|TR]; rewrite TR; simpl; rewrite MM; simpl;
        exists (mk15 (t_cur m) (t_start m) (t_next m) false None (t_adv m)); (split;
          [ simpl; rewrite C, N.eqb_refl; reflexivity
          | simpl; repeat split; auto; right; right; split; auto; apply quiet_app; auto ]).
    + exfalso. apply quiet_inv in A as [_ [A _]]. discriminate.
  - destruct R as (R1 & R2 & R3). inversion R3 as [|? ? TM R3']; subst.
    assert (NR : Forall (timer_mop m) pre).
    { apply norun_timer; intros x Hx; eapply endbody_norun; eauto. }
    destruct TR as [TR|TR]; rewrite TR; simpl; rewrite MM; simpl; exists m;
      (split; [ simpl; rewrite R1; reflexivity | repeat split; auto; apply Forall_app; split; auto ]).
Qed.

Lemma I15_toready a k0 s pre s' :
  shape (MToReady a :: k0) -> Tags (MToReady a :: k0) s -> handle (MToReady a) s = (pre, s') ->
  I15 (MToReady a :: k0) s -> I15 (pre ++ k0) s'.
Proof.
  intros SH T E (m & MM & R).
  destruct (handle_work (MToReady a) _ _ _ eq_refl E) as [PW _].
  destruct (work_step_phase (MToReady a) k0 pre eq_refl PW) as [X [Y Z]].
  destruct R as [RS R]. rewrite Y in R.
  destruct SH as [p [PH RU]]. rewrite Y in RU. simpl in RU. specialize (RU eq_refl).
  apply Tags_split in T as [Q WT].
  assert (EV : now s' = now s /\ start s' = start s /\ exists e, tr s' = e :: tr s /\ quiet_ev e = true).
  { simpl in E. destruct (aget (actors s) a) as [x|]; [destruct (a_state x)|]; inversion E; subst;
      repeat split; auto; eexists; split; reflexivity. }
  destruct EV as (N & S & e & TR & QE).
  unfold I15, R15. rewrite X, Z, N, S, TR. rewrite PH in *. simpl. rewrite MM.
  exists m. split. apply step15_quiet; auto. split; auto.
  destruct p; try discriminate RU.
  - destruct R as (_ & _ & _ & _ & _ & R6). discriminate R6.
  - destruct R as (R1 & R2 & R3 & R4). exfalso.
    destruct R4 as [(c0 & E0 & _)|[(v & w1 & w2 & E0 & A & B & C)|(A & B)]].
    + inversion E0.
    + destruct w1 as [|x w1]; simpl in E0; inversion E0; subst. apply quiet_inv in A as [_ [A _]]. discriminate.
    + apply quiet_inv in A as [_ [A _]]. discriminate.
  - destruct R as (R1 & R2 & R3). inversion R3 as [|? ? TM R3']; subst. repeat split; auto.
    apply Forall_app; split; auto.
    (* the held calls are calls: never timer closures *)
    simpl in E. destruct (aget (actors s) a) as [x|] eqn:AX; [destruct (a_state x) eqn:SX|]; inversion E; subst; try constructor.
    pose proof (qt_held _ Q _ _ AX) as G. unfold held_of in G. rewrite SX in G.
    clear - G. induction G; simpl; constructor; auto. simpl. intros C. unfold is_callb in H. congruence.
Qed.

Lemma max_now t s : (if t >? now s then t else now s) = Z.max (now s) t.
Proof. destruct (t >? now s) eqn:E; lia. Qed.

(* a batch of events all ignored by the monitor *)
Lemma monr_ignored (P : ev -> Prop) m evs t :
  (forall e, P e -> step15 m e = Some m) -> Forall P evs ->
  monr step15 i15 t = Some m -> monr step15 i15 (evs ++ t) = Some m.
Proof.
  intros H F M. induction F; simpl; auto. rewrite IHF. auto.
Qed.

Lemma plain_main_not_timer c : main_ok c -> ci_call c = false -> ci_sq c = Some QTimer -> False.
Proof. intros M C S. rewrite (M C) in S. discriminate. Qed.

Lemma class_flag_model all p e : class_flag all p = Some e -> exists c a, e = EModel c a /\ c <> M_DRAINLEFT.
Proof.
  unfold class_flag. destruct (a_freed (snd p)); [discriminate|].
  destruct (a_state (snd p)) as [[|c hl]| |]; try discriminate.
  - intros E; inversion E. eexists _, _. split; eauto. discriminate.
  - destruct (existsb _ _); [|discriminate]. intros E; inversion E. eexists _, _. split; eauto. discriminate.
Qed.

Lemma fold_emit_opt (f : N * actor -> option ev) l : forall s,
  exists evs, tr (fold_left (fun s0 p => emit_opt s0 (f p)) l s) = evs ++ tr s /\
              Forall (fun e => exists p, f p = Some e) evs /\
              now (fold_left (fun s0 p => emit_opt s0 (f p)) l s) = now s /\
              start (fold_left (fun s0 p => emit_opt s0 (f p)) l s) = start s.
Proof.
  induction l as [|p0 l IH]; simpl; intros s.
  - exists []. repeat split; auto.
  - destruct (IH (emit_opt s (f p0))) as (evs & A & B & C & D). rewrite A, C, D.
    unfold emit_opt. destruct (f p0) as [e|] eqn:F.
    + exists (evs ++ [e]). rewrite <- app_assoc. repeat split; auto.
      apply Forall_app; split; auto. constructor; auto. eauto.
    + exists evs. repeat split; auto.
Qed.

Lemma class_flags_tr s : exists evs, tr (class_flags s) = evs ++ tr s /\ Forall (fun e => exists c a, e = EModel c a /\ c <> M_DRAINLEFT) evs
                         /\ now (class_flags s) = now s /\ start (class_flags s) = start s.
Proof.
  unfold class_flags. destruct (fold_emit_opt (class_flag (actors s)) (actors s) s) as (evs & A & B & C & D).
  exists evs. repeat split; auto. eapply Forall_impl; [|exact B]. intros e [p F]. eapply class_flag_model; eauto.
Qed.

Lemma I15_phase mo k0 s pre s' :
  shape (mo :: k0) -> Tags (mo :: k0) s -> is_work mo = false -> handle mo s = (pre, s') ->
  I15 (mo :: k0) s -> I15 (pre ++ k0) s'.
Proof.
  intros SH T W E (m & MM & [RS R]).
  apply Tags_split in T as [Q _].
  destruct SH as [p [PH _]]. rewrite PH in R.
  unfold phase_of in PH. simpl in PH. rewrite W in PH.
  unfold I15, R15.
  destruct mo; try discriminate W; simpl in E.
  - (* MTop *)
    simpl in PH. destruct (tops k0) eqn:T; [|discriminate]. inversion PH; subst p. destruct R as (R1 & R2 & R3).
    unfold do_top in E. destruct o.
    + destruct (alive s); inversion E; subst; exists m; (split; [auto|]); split; auto;
        rewrite tops_phase by (simpl; auto); auto.
    + destruct (alive s); [|unfold bad in E]; inversion E; subst.
      * exists (mk15 (t_cur m) (t_start m) (Some (Z.max (t_cur m) t)) idle None (t >? t_cur m)).
        split. simpl. rewrite MM. reflexivity.
        split; auto. unfold phase_of. simpl. rewrite Z.eqb_refl, T. simpl. rewrite R2. repeat split; auto.
      * exists m. split. simpl. rewrite MM. reflexivity. split; auto. simpl. rewrite tops_phase; auto.
    + inversion E; subst. exists m. split; auto. split; auto.
      rewrite (phase_of_work [MActs l; MPopFrame]) by reflexivity. rewrite tops_phase; auto.
    + destruct (alive s); inversion E; subst; exists m.
      * split. simpl. rewrite MM. reflexivity. split; auto. unfold phase_of. simpl. rewrite T. auto.
      * split; auto. split; auto. simpl. rewrite tops_phase; auto.
    + inversion E; subst. exists m. split; auto. split; auto. rewrite tops_phase by (simpl; auto). auto.
    + destruct (alive s); [|unfold bad in E]; inversion E; subst; exists m;
        (split; [simpl; rewrite MM; reflexivity|]); split; auto; simpl; rewrite tops_phase; auto.
    + destruct (alive s); [|unfold bad in E]; inversion E; subst; exists m.
      * simpl. rewrite tops_phase by auto.
        match goal with |- context [if ?b then _ else _] => destruct b end; simpl; rewrite MM; simpl; auto.
      * split. simpl; rewrite MM; reflexivity. split; auto. simpl. rewrite tops_phase; auto.
  - (* MNew *)
    simpl in PH. destruct (tops k0) eqn:T; [|discriminate]. inversion PH; subst p. inversion E; subst.
    exists (mk15 t t None false None false). split. simpl. rewrite MM. reflexivity.
    split; auto. rewrite phase_of_work by apply work_map_dropitem. rewrite tops_phase; auto.
  - (* MRunIdle *)
    destruct k0 as [|m1 k1]; [discriminate|]. destruct m1; try discriminate PH.
    destruct k1 as [|m2 k2]; [discriminate|]. destruct m2; try discriminate PH.
    destruct ((t =? t0) && tops k2) eqn:T; [|discriminate]. inversion PH; subst p.
    destruct R as (R1 & R2 & R3 & R4 & R5 & R6).
    assert (PP : forall w, forallb is_work w = true -> phase_of (w ++ MRunMain t :: MLoop t0 :: k2) = Some (PRunMain t)).
    { intros w Hw. rewrite phase_of_work; auto. unfold phase_of. simpl. rewrite T. reflexivity. }
    exists m. destruct idle; [destruct (idleq s) as [|c r] eqn:IQ|]; inversion E; subst; (split; [auto|]); split; auto.
    + rewrite (PP []) by reflexivity. simpl. repeat split; auto. right; right. split; auto. apply quiet_nil.
    + rewrite (PP [MRunItem c]) by reflexivity. simpl. repeat split; auto. left. exists c. repeat split; auto.
      * destruct (tags_idle_pop _ _ _ Q IQ) as [_ [X _]]. exact X.
      * destruct (tags_idle_pop _ _ _ Q IQ) as [_ [_ X]]. exact X.
    + rewrite (PP []) by reflexivity. simpl. repeat split; auto. right; right. split; auto. apply quiet_nil.
  - (* MRunMain *)
    destruct k0 as [|m1 k1]; [discriminate|]. destruct m1; try discriminate PH.
    destruct ((t =? t0) && tops k1) eqn:T; [|discriminate]. apply andb_prop in T as [_ T]. inversion PH; subst p.
    destruct R as (R1 & R2 & R3 & R4). simpl in R4.
    assert (II : t_inidle m = None).
    { destruct R4 as [(c0 & E0 & _)|[(v & w1 & w2 & E0 & _)|(_ & B)]]; auto.
      - inversion E0. - destruct w1; inversion E0. }
    assert (PP : forall l, phase_of (map MRunItem l ++ MLoop t0 :: k1) = Some (PLoop t0) /\
                           work_of (map MRunItem l ++ MLoop t0 :: k1) = map MRunItem l).
    { intros l. split. rewrite phase_of_work by apply work_map_runitem. unfold phase_of. simpl. rewrite T. reflexivity.
      rewrite work_of_app by apply work_map_runitem. simpl. apply app_nil_r. }
    pose proof Q as [QA QB QC QD QH].
    assert (MQ : Forall (timer_mop m) (map MRunItem (mainq s))).
    { clear - QA. induction QA; simpl; constructor; auto. simpl. intros C S. exfalso. eapply plain_main_not_timer; eauto. }
    destruct (t >? now s) eqn:GT; inversion E; subst; clear E.
    + exists m. split.
      * destruct (ambiguous (filter (ti_due t) (timers s))); simpl; rewrite MM; reflexivity.
      * split. destruct (ambiguous _); auto.
        destruct (PP (mainq s ++ map ti_ci (ti_sort (filter (ti_due t) (timers s))))) as [P1 P2]. rewrite P1, P2.
        assert (NW : forall z, now (set_timers (if ambiguous (filter (ti_due t) (timers s)) then emit (set_now (set_mainq s []) t) (EModel M_AMBIG 0) else set_now (set_mainq s []) t) z) = t).
        { intros z. destruct (ambiguous _); reflexivity. }
        rewrite NW. split; auto. split.
        -- right. rewrite R1. f_equal. apply Z.gtb_lt in GT. lia.
        -- rewrite map_app. apply Forall_app; split; auto.
           apply Forall_forall. intros x Hx. apply in_map_iff in Hx as [c [<- _]]. simpl. intros _ _. rewrite R3. reflexivity.
    + exists m. split; auto. split; auto.
      destruct (PP (mainq s)) as [P1 P2]. rewrite P1, P2. simpl. split; auto. split; auto.
      right. rewrite R1. f_equal. rewrite Z.gtb_ltb in GT. apply Z.ltb_ge in GT. lia.
  - (* MLoop *)
    destruct (tops k0) eqn:T; [|discriminate]. inversion PH; subst p.
    destruct R as (R1 & R2 & R3).
    assert (PP : forall l, phase_of ((map MRunItem l ++ [MLoop t]) ++ k0) = Some (PLoop t) /\
                           work_of ((map MRunItem l ++ [MLoop t]) ++ k0) = map MRunItem l).
    { intros l. rewrite <- app_assoc. simpl. split. rewrite phase_of_work by apply work_map_runitem. unfold phase_of. simpl. rewrite T. reflexivity.
      rewrite work_of_app by apply work_map_runitem. simpl. apply app_nil_r. }
    pose proof Q as [QA QB QC QD QH].
    destruct (mainq s) as [|c l] eqn:M.
    + destruct (lazyq s) as [|c l] eqn:LQ.
      * inversion E; subst. exists (upd15 m).
        destruct (upd15_cur m s R1 R2) as (U1 & U2 & U3 & U4 & U5).
        split. destruct (t >? recreate s); simpl; rewrite MM; reflexivity.
        split. rewrite U5. destruct (t >? recreate s); auto.
        simpl. rewrite tops_phase; auto. repeat split; auto. destruct (t >? recreate s); auto.
      * inversion E; subst. exists m. split; auto. split; auto.
        change (MRunItem c :: map MRunItem l ++ [MLoop t]) with (map MRunItem (c :: l) ++ [MLoop t]).
        destruct (PP (c :: l)) as [P1 P2]. rewrite P1, P2. repeat split; auto.
        change (Forall (timer_mop m) (map MRunItem (c :: l))).
        clear - QB. induction QB; simpl; constructor; auto. simpl. intros C S. destruct H as [_ H]. congruence.
    + inversion E; subst. exists m. split; auto. split; auto.
      change (MRunItem c :: map MRunItem l ++ [MLoop t]) with (map MRunItem (c :: l) ++ [MLoop t]).
      destruct (PP (c :: l)) as [P1 P2]. rewrite P1, P2. repeat split; auto.
      change (Forall (timer_mop m) (map MRunItem (c :: l))).
      clear - QA. induction QA; simpl; constructor; auto. simpl. intros C S. exfalso. eapply plain_main_not_timer; eauto.
  - (* MDrain *)
    destruct (tops k0) eqn:T; [|discriminate]. inversion PH; subst p. destruct R as (R1 & R2 & R3).
    destruct (i >=? TEARDOWN_ROUNDS).
    + inversion E; subst. exists m. split. destruct (is_nil (mainq s)); auto. simpl. rewrite MM. reflexivity.
      split. destruct (is_nil (mainq s)); auto.
      unfold phase_of. simpl. rewrite T. destruct (is_nil (mainq s)); auto.
    + destruct (mainq s) as [|c l] eqn:M; inversion E; subst; exists m; (split; [auto|]); split; auto.
      * unfold phase_of. simpl. rewrite T. auto.
      * match goal with |- context [phase_of ?k] => replace k with (map MDropItem (c :: l) ++ MDrain (i + 1) :: k0)
          by (simpl; rewrite <- app_assoc; reflexivity) end.
        rewrite phase_of_work by apply work_map_dropitem. unfold phase_of. simpl. rewrite T. auto.
  - (* MDropFields *)
    destruct (tops k0) eqn:T; [|discriminate]. inversion PH; subst p. destruct R as (R1 & R2 & R3).
    inversion E; subst. exists m. split.
    + destruct (ambiguous (timers s)); simpl; rewrite MM; reflexivity.
    + split. destruct (ambiguous (timers s)); auto.
      rewrite <- app_assoc. simpl. rewrite phase_of_work by apply work_map_dropitem. unfold phase_of. simpl. rewrite T.
      destruct (ambiguous (timers s)); auto.
  - (* MDropEnd *)
    destruct (tops k0) eqn:T; [|discriminate]. inversion PH; subst p. destruct R as (R1 & R2 & R3).
    inversion E; subst. exists m. split.
    + destruct (is_nil (mainq s)); simpl; rewrite MM; reflexivity.
    + split. destruct (is_nil (mainq s)); auto. simpl. rewrite tops_phase; auto. destruct (is_nil (mainq s)); auto.
  - (* MDropAll *)
    simpl in PH. destruct (tops k0) eqn:T; [|discriminate]. inversion PH; subst p.
    destruct (amin (env s)) as [[h v]|]; inversion E; subst; exists m; (split; [auto|]); split; auto.
    + simpl app. change (MDropVal v :: MDropAll :: k0) with ([MDropVal v] ++ (MDropAll :: k0)).
      rewrite (phase_of_work [MDropVal v] (MDropAll :: k0)) by reflexivity. rewrite tops_phase by (simpl; auto). auto.
    + simpl. rewrite tops_phase; auto.
  - (* MEpilogue *)
    simpl in PH. destruct (tops k0) eqn:T; [|discriminate]. inversion PH; subst p. inversion E; subst.
    exists m. split. simpl. rewrite MM. reflexivity. split; auto. simpl. rewrite tops_phase by (simpl; auto). auto.
  - (* MLeaks *)
    simpl in PH. destruct (tops k0) eqn:T; [|discriminate]. inversion PH; subst p. inversion E; subst.
    destruct (class_flags_tr s) as (evs & A & B & C & D).
    exists m. split.
    + simpl. eapply monr_ignored with (P := fun e => exists k i, e = ELeak k i).
      * intros e (k & i & ->). reflexivity.
      * unfold leaks. rewrite <- map_rev. apply Forall_forall. intros x Hx. apply in_map_iff in Hx as [y [<- _]]. eauto.
      * rewrite A. eapply monr_ignored with (P := fun e => exists c a, e = EModel c a /\ c <> M_DRAINLEFT); eauto.
        intros e (c & a & -> & _). reflexivity.
    + simpl. rewrite C, D. split; auto. rewrite tops_phase; auto.
Qed.

(* ------------------------------------------------------------------ *)
(** * The theorem *)

Theorem step_I15 k s k' s' :
  shape k -> Tags k s -> I15 k s -> step k s = Some (k', s') -> I15 k' s'.
Proof.
  intros SH T I H. destruct k as [|mo k0]; [discriminate|]. simpl in H.
  destruct (handle mo s) as [pre s1] eqn:E. inversion H; subst; clear H.
  destruct (qmop mo) eqn:QM. { eapply I15_qmop; eauto. }
  destruct (is_work mo) eqn:W.
  - assert (R : runish mo = true). { unfold qmop in QM. rewrite W in QM. simpl in QM. apply negb_false_iff in QM. auto. }
    destruct mo; try discriminate R.
    + eapply I15_endbody; eauto.
    + eapply I15_runitem; eauto.
    + eapply I15_toready; eauto.
  - eapply I15_phase; eauto.
Qed.

Lemma I15_init d p : I15 (map MTop p ++ [MEpilogue]) (init d).
Proof.
  exists i15. split; [reflexivity|]. split; [reflexivity|].
  rewrite tops_phase. simpl. auto.
  unfold tops. rewrite forallb_app. simpl. rewrite andb_true_r. induction p; simpl; auto.
Qed.

Lemma run_inv fuel : forall k s t,
  shape k -> Tags k s -> I15 k s -> run fuel k s = Done t ->
  exists s', t = rev (tr s') /\ exists m, monr step15 i15 (tr s') = Some m.
Proof.
  induction fuel as [|f IH]; intros k s t SH T I H; simpl in H.
  - destruct k; [|discriminate]. inversion H; subst. destruct I as (m & MM & _). eauto.
  - destruct (step k s) as [[k' s']|] eqn:ST.
    + eapply IH; [ eapply step_shape; eauto | eapply step_tags; eauto | eapply step_I15; eauto | exact H ].
    + inversion H; subst. destruct I as (m & MM & _). eauto.
Qed.

(** C15, for every program, every amount of fuel and either deferrer kind. *)
Theorem C15_time_proved : forall (d : dkind) (p : list top) (fuel : nat) (t : list ev),
  exec d fuel p = Done t -> C15_ok t = true.
Proof.
  intros d p fuel t H. unfold exec in H.
  destruct (run_inv fuel _ _ _ (shape_init p) (tags_init d p) (I15_init d p) H) as (s' & -> & m & MM).
  unfold C15_ok. rewrite fold_mon_rev, MM. reflexivity.
Qed.

(* the hypotheses are satisfiable by a non-trivial program: one that defers, idles, runs twice *)
Example C15_nontrivial :
  exists t, exec DGlobal 200 [TNew 0; TDo [ADefer (Clo 1 0 0 [] [ANow]); AIdle (Clo 2 0 0 [] [ANow])]; TRun 5 false; TRun 9 true] = Done t
            /\ In (ERun 2%N 5 QIdle) t /\ In (ENum TAG_NOW 5) t.
Proof. eexists. split; [vm_compute; reflexivity|]. split; simpl; tauto. Qed.
