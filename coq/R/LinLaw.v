(** Layer R proofs: LINEARITY, part 2b: the conservation law of every handler.

    [handle m s = (pre, s')] implies, for every resource x,
       cmops x pre + W x s' + emb x m = cmop x m + W x s
    (nothing is duplicated, nothing is lost) for every micro-op except [MNew] with the inline deferrer, which
    forgets the previous main queue ([<=]).  [emb] is the slack of the pair objects [REmb]: invoking a
    ret_to!-style Ret separates the Ret from its call closure, and no event names both. *)
From Coq Require Import ZArith NArith List Bool Lia.
From Stk Require Import Lib.U Gen.SrcCount Gen.SrcCore Gen.SrcLog R.Syntax R.Rt R.Shape R.Lin R.LinAct.
Import ListNotations.
Local Open Scope Z_scope.

(* ------------------------------------------------------------------ *)
(** * Well-kindedness read off the census of [RBad] *)

Lemma nb_real b : badif RBad b = 0 -> b = true.
Proof. destruct b; auto. unfold badif. rewrite ind_refl. discriminate. Qed.

Lemma res_dec (x y : res) : {x = y} + {x <> y}.
Proof. destruct (res_eqb x y) eqn:E; [left; apply res_eqb_eq; auto | right; intros H; apply res_eqb_eq in H; congruence]. Qed.

Lemma cci_as_call x a ci arg : realk (ci_kind ci) = true -> cci x (as_call a ci arg) = cci x ci.
Proof. destruct ci as [u i kd caps q]. simpl. intros H. rewrite !cci_eq, H. reflexivity. Qed.

(* the slack of the pair objects: invoking the Ret separates it from its call closure *)
Definition emb (x : res) (m : mop) : Z :=
  match m with
  | MRetInvoke (Ret rid (RKTo _ ci)) _ => ind x (REmb rid (ci_uid ci) false)
  | MRetInvoke (Ret rid (RKSomeTo _ ci)) _ => ind x (REmb rid (ci_uid ci) true)
  | _ => 0
  end.

Definition NB (m : mop) (s : st) : Prop := cmop RBad m + cst RBad s = 0.

Lemma NB_mop m s : NB m s -> cmop RBad m = 0.
Proof. unfold NB. pose proof (cmop_nn RBad m). pose proof (cst_nn RBad s). lia. Qed.

Lemma NB_actor m s a y : NB m s -> aget (actors s) a = Some y -> cactor RBad a y = 0.
Proof.
  unfold NB, cst. intros H G. pose proof (cacts_aget_le RBad _ _ _ G). pose proof (cactor_nn RBad a y).
  pose proof (cmop_nn RBad m). pose proof (cq_nn RBad (mainq s)). pose proof (cq_nn RBad (lazyq s)). pose proof (cq_nn RBad (idleq s)).
  pose proof (ctim_nn RBad (timers s)). pose proof (cenv_nn RBad (env s)). pose proof (cfrs_nn RBad (frames s)). pose proof (cnu_nn RBad (nuid s)). lia.
Qed.

Lemma NB_notify m s a y nt : NB m s -> aget (actors s) a = Some y -> a_notify y = Some nt -> nkind nt = true.
Proof.
  intros H G E. pose proof (NB_actor _ _ _ _ H G) as C. unfold cactor in C. rewrite E in C. simpl in C.
  pose proof (cstate_nn RBad a (a_state y)). pose proof (cret_nn RBad nt). pose proof (badif_nn RBad (nkind nt)).
  apply nb_real. lia.
Qed.

(* ------------------------------------------------------------------ *)
(** * The handlers *)

Ltac inj_tac x :=
  let Q := fresh "Q" in intros Q; injection Q as ? ?; subst; law_tac x.

Lemma run_item_law c s pre s' x : run_item c s = (pre, s') -> cmops x pre + W x s' = cci x c + W x s.
Proof.
  unfold run_item. destruct c as [u i kd caps q]. destruct kd; repeat dest_match; intros Q;
    injection Q as Q1 Q2; subst pre s'; law_tac x.
Qed.

Lemma drop_item_law c s pre s' x : drop_item c s = (pre, s') -> cmops x pre + W x s' = cci x c + W x s.
Proof.
  unfold drop_item. destruct c as [u i kd caps q]. destruct kd; intros Q;
    injection Q as Q1 Q2; subst pre s'; law_tac x.
Qed.


Lemma drop_val_law v s pre s' x :
  (forall r, v = HRet r -> ukind r = true) ->
  drop_val v s = (pre, s') -> cmops x pre + W x s' = cv x v + W x s.
Proof.
  intros U. unfold drop_val. destruct v; repeat dest_match; intros Q; injection Q as Q1 Q2; subst pre s';
    law_tac x.
  rewrite (U _ eq_refl). fin_tac.
Qed.

Lemma drop_own_law a lg s pre s' x : drop_own a lg s = (pre, s') -> cmops x pre + W x s' = W x s.
Proof.
  unfold drop_own. destruct lg; repeat dest_match; intros Q; injection Q as Q1 Q2; subst pre s'; stsimp; law_tac x.
Qed.

Lemma W_upd_zombie x s a y st' rc fr : aget (actors s) a = Some y ->
  W x (upd_actor s a (mkActor SZombie st' rc None (a_logid y) fr)) = W x s - cactor x a y.
Proof. intros H. rewrite (W_upd_some x s a _ y H). unfold cactor at 2. simpl. lia. Qed.

Lemma drop_ref_law a s pre s' x :
  (forall y nt, aget (actors s) a = Some y -> a_notify y = Some nt -> nkind nt = true) ->
  drop_ref a s = (pre, s') -> cmops x pre + W x s' = W x s.
Proof.
  intros NK. unfold drop_ref. destruct (aget (actors s) a) as [y|] eqn:A; [|solve [inj_tac x]].
  destruct (a_freed y); [solve [inj_tac x]|].
  destruct (minrc_drop (a_rc y)) as [[v z]|]; [|solve [inj_tac x]].
  destruct z; [|solve [inj_tac x]].
  destruct (state_drops a (a_state y) _) as [dl s2] eqn:SD.
  intros Q; injection Q as Q1 Q2; subst pre s'.
  destruct (state_drops_c x _ _ _ _ _ SD) as [-> CD].
  rewrite cmops_app, CD, W_emit, (W_upd_zombie x s a y _ _ _ A). unfold cactor.
  destruct (a_notify y) as [nt|] eqn:E; fin_tac.
  rewrite (NK _ _ eq_refl E). fin_tac.
Qed.

Lemma terminate_law a c s pre s' x : terminate a c s = (pre, s') -> cmops x pre + W x s' = W x s.
Proof.
  unfold terminate. destruct (aget (actors s) a) as [y|] eqn:A; [|solve [inj_tac x]].
  set (s0 := if a_freed y then emit s (EModel M_UAF a) else s).
  assert (A0 : aget (actors s0) a = Some y) by (unfold s0; destruct (a_freed y); exact A).
  assert (W0 : W x s0 = W x s) by (unfold s0; destruct (a_freed y); [rewrite W_emit; simpl; lia | reflexivity]).
  destruct (state_drops a (a_state y) _) as [dl s1] eqn:SD.
  destruct (state_drops_c x _ _ _ _ _ SD) as [-> CD].
  destruct (a_notify y) as [nt|] eqn:E; intros Q; injection Q as Q1 Q2; subst pre s';
    rewrite (W_upd_zombie x s0 a y _ _ _ A0), W0; unfold cactor; rewrite E; fin_tac.
Qed.

Lemma ret_invoke_law r m0 s pre s' x :
  cmop RBad (MRetInvoke r m0) = 0 ->
  ret_invoke r m0 s = (pre, s') -> cmops x pre + W x s' + emb x (MRetInvoke r m0) = cmop x (MRetInvoke r m0) + W x s.
Proof.
  intros NBM. destruct r as [rid k]. unfold ret_invoke. cbn [cmop emb] in *. rewrite cret_eq in *.
  destruct k as [caps b|a ci|a ci|a inner|p key inner].
  - (* RKClos *)
    rewrite crk_clos in *.
    assert (M0 : cmsg x (Ret rid (RKClos caps b)) m0 = 0).
    { destruct m0 as [[v|c]|]; simpl in *; auto. exfalso. rewrite ind_refl in NBM.
      pose proof (ind_range RBad (RRet rid)). pose proof (cenv_nn RBad caps). lia. }
    intros Q; injection Q as Q1 Q2; subst pre s'. rewrite M0. law_tac x.
  - (* RKTo *)
    rewrite crk_to in *.
    assert (R : realk (ci_kind ci) = true).
    { apply nb_real. pose proof (cmsg_nn RBad (Ret rid (RKTo a ci)) m0). pose proof (ind_range RBad (RRet rid)).
      pose proof (ind_range RBad (REmb rid (ci_uid ci) false)). pose proof (cci_nn RBad ci).
      pose proof (badif_nn RBad (realk (ci_kind ci))). lia. }
    assert (M0 : cmsg x (Ret rid (RKTo a ci)) m0 = 0).
    { destruct m0 as [[v|c]|]; simpl in *; auto. exfalso. rewrite ind_refl in NBM.
      pose proof (ind_range RBad (RRet rid)). pose proof (ind_range RBad (REmb rid (ci_uid ci) false)).
      pose proof (cci_nn RBad ci). pose proof (badif_nn RBad (realk (ci_kind ci))). lia. }
    intros Q; injection Q as Q1 Q2; subst pre s'. rewrite M0, R. rewrite W_submit by discriminate.
    rewrite cci_as_call by exact R. law_tac x.
  - (* RKSomeTo *)
    rewrite crk_someto in *.
    assert (R : realk (ci_kind ci) = true).
    { apply nb_real. pose proof (cmsg_nn RBad (Ret rid (RKSomeTo a ci)) m0). pose proof (ind_range RBad (RRet rid)).
      pose proof (ind_range RBad (REmb rid (ci_uid ci) true)). pose proof (cci_nn RBad ci).
      pose proof (badif_nn RBad (realk (ci_kind ci))). lia. }
    assert (M0 : cmsg x (Ret rid (RKSomeTo a ci)) m0 = 0).
    { destruct m0 as [[v|c]|]; simpl in *; auto. exfalso. rewrite ind_refl in NBM.
      pose proof (ind_range RBad (RRet rid)). pose proof (ind_range RBad (REmb rid (ci_uid ci) true)).
      pose proof (cci_nn RBad ci). pose proof (badif_nn RBad (realk (ci_kind ci))). lia. }
    destruct m0 as [m1|]; intros Q; injection Q as Q1 Q2; subst pre s'; rewrite ?M0, R.
    + rewrite W_submit by discriminate. rewrite cci_as_call by exact R. law_tac x.
    + law_tac x. rewrite R. fin_tac.
  - (* RKNotify *)
    rewrite crk_notify in *.
    assert (M0 : cmsg x (Ret rid (RKNotify a inner)) m0 = 0).
    { destruct m0 as [[v|c]|]; simpl in *; auto. exfalso. rewrite ind_refl in NBM.
      pose proof (ind_range RBad (RNot a)).
      destruct inner as [[p ci]|]; [pose proof (cci_nn RBad ci); pose proof (badif_nn RBad (realk (ci_kind ci)))|]; lia. }
    rewrite M0. destruct inner as [[p ci]|]; intros Q; injection Q as Q1 Q2; subst pre s'.
    + assert (R : realk (ci_kind ci) = true).
      { apply nb_real. pose proof (cmsg_nn RBad (Ret rid (RKNotify a (Some (p, ci)))) m0). pose proof (ind_range RBad (RNot a)).
        pose proof (cci_nn RBad ci). pose proof (badif_nn RBad (realk (ci_kind ci))). lia. }
      rewrite R. rewrite W_submit by discriminate. rewrite cci_as_call by exact R. law_tac x.
    + law_tac x.
  - (* RKSlab *)
    rewrite crk_slab in *.
    destruct m0 as [[v|c]|]; intros Q; injection Q as Q1 Q2; subst pre s'.
    + exfalso. simpl in NBM. rewrite ind_refl in NBM. pose proof (cret_nn RBad inner). lia.
    + law_tac x.
    + law_tac x.
Qed.

Lemma do_top_law o s pre s' x : do_top o s = (pre, s') -> cmops x pre + W x s' = W x s.
Proof.
  unfold do_top. destruct o; repeat dest_match; try solve [inj_tac x].
  all: intros Q; injection Q as Q1 Q2; subst pre s'; law_tac x.
Qed.

Lemma conT_leaks x l : conT x (map (fun p : N * N => ELeak (fst p) (snd p)) l) = 0 /\ creT x (map (fun p : N * N => ELeak (fst p) (snd p)) l) = 0.
Proof. induction l as [|p l [A B]]; simpl; split; lia. Qed.

Lemma conT_app x a b : conT x (a ++ b) = conT x a + conT x b.
Proof. induction a; simpl; lia. Qed.
Lemma creT_app x a b : creT x (a ++ b) = creT x a + creT x b.
Proof. induction a; simpl; lia. Qed.
Lemma conT_rev x a : conT x (rev a) = conT x a.
Proof. induction a; simpl; auto. rewrite conT_app. simpl. lia. Qed.
Lemma creT_rev x a : creT x (rev a) = creT x a.
Proof. induction a; simpl; auto. rewrite creT_app. simpl. lia. Qed.

Lemma class_flag_tok x all p e : class_flag all p = Some e -> con1 x e = 0 /\ cre1 x e = 0.
Proof.
  unfold class_flag. destruct (a_freed (snd p)); [discriminate|].
  destruct (a_state (snd p)) as [[|c h]|sh slab nx|]; try discriminate.
  - intros Q; inversion Q; split; reflexivity.
  - destruct (existsb _ _); [|discriminate]. intros Q; inversion Q; split; reflexivity.
Qed.

Lemma W_class_flags x s : W x (class_flags s) = W x s.
Proof.
  unfold class_flags. generalize (actors s) at 1 as all. intros all.
  generalize (actors s) at 1 as l. intros l. revert s. induction l as [|p l IH]; intros s; simpl; auto.
  rewrite IH. unfold emit_opt. destruct (class_flag all p) as [e|] eqn:CF; [|reflexivity].
  destruct (class_flag_tok x _ _ _ CF) as [A B]. rewrite W_emit, A, B. lia.
Qed.

Lemma handle_law m s pre s' x :
  NB m s -> (forall t, m <> MNew t) -> handle m s = (pre, s') ->
  cmops x pre + W x s' + emb x m = cmop x m + W x s.
Proof.
  intros NBH NN. destruct m; cbn [handle emb]; try (cbn [cmop]).
  - (* MTop *) intros H. pose proof (do_top_law _ _ _ _ x H). lia.
  - (* MActs *)
    destruct l as [|a l]; [inj_tac x|].
    destruct (do_act a s) as [p s1] eqn:E. intros Q; injection Q as Q1 Q2; subst pre s'.
    pose proof (do_act_law _ _ _ _ x E). rewrite cmops_app. simpl. lia.
  - (* MPopFrame *)
    destruct (frames s) as [|fr rest] eqn:F; inj_tac x.
  - (* MEndBody *)
    destruct (frames s) as [|fr rest] eqn:F; [inj_tac x|].
    intros Q; injection Q as Q1 Q2; subst pre s'. rewrite cmops_app, cmops_drops.
    assert (T : forall l, l = match f with
            | FNone => []
            | FMeth a => match f_die fr with Some c => [MTerminate a c] | None => [] end
            | FPrep a ready => match f_die fr with
                | Some c => if ready then [MOrphNew a; MTerminate a c; MOrphDrop a] else [MTerminate a c]
                | None => if ready then [MToReady a] else [] end end -> cmops x l = 0).
    { intros l ->. destruct f; try destruct (f_die fr); try destruct ready; reflexivity. }
    rewrite (T _ eq_refl). law_tac x.
    replace (frames (emit s (EEnd uid))) with (frames s) by reflexivity. rewrite F. simpl. lia.
  - (* MRunItem *) intros H. pose proof (run_item_law _ _ _ _ x H). lia.
  - (* MDropItem *) intros H. pose proof (drop_item_law _ _ _ _ x H). lia.
  - (* MDropInner *)
    assert (R : realk (ci_kind c) = true).
    { apply nb_real. pose proof (NB_mop _ _ NBH) as G. simpl in G. pose proof (cci_nn RBad c).
      pose proof (badif_nn RBad (realk (ci_kind c))). lia. }
    intros Q; injection Q as Q1 Q2; subst pre s'. rewrite R, (cci_real x c R). law_tac x.
  - (* MDropVal *)
    intros H. assert (U : forall r, v = HRet r -> ukind r = true).
    { intros r ->. apply nb_real. pose proof (NB_mop _ _ NBH) as G. simpl in G. rewrite cv_ret in G.
      pose proof (cret_nn RBad r). pose proof (badif_nn RBad (ukind r)). lia. }
    pose proof (drop_val_law _ _ _ _ x U H). lia.
  - intros H. pose proof (drop_own_law _ _ _ _ _ x H). lia.
  - intros H. assert (NK : forall y nt, aget (actors s) a = Some y -> a_notify y = Some nt -> nkind nt = true).
    { intros y nt A E. eapply NB_notify; eauto. }
    pose proof (drop_ref_law _ _ _ _ x NK H). lia.
  - intros H. pose proof (ret_invoke_law _ _ _ _ _ x (NB_mop _ _ NBH) H). cbn [cmop emb] in *. lia.
  - inj_tac x.
  - inj_tac x.
  - inj_tac x.
  - inj_tac x.
  - intros H. pose proof (terminate_law _ _ _ _ _ x H). lia.
  - destruct (aget (actors s) a); inj_tac x.
  - (* MToReady *)
    destruct (aget (actors s) a) as [y|] eqn:A; [|inj_tac x].
    destruct (a_state y) eqn:SA; try solve [inj_tac x].
    intros Q; injection Q as Q1 Q2; subst pre s'. rewrite cmops_runitems, W_emit, (W_upd_some x s a _ y A).
    rewrite (cactor_unf x a y _ SA). unfold cactor. simpl. lia.
  - (* MNew *) exfalso. eapply NN; reflexivity.
  - (* MRunIdle *)
    destruct idle; [destruct (idleq s) as [|c r] eqn:IQ|]; intros Q; injection Q as Q1 Q2; subst pre s'; try solve [law_tac x].
    rewrite W_set_idleq, IQ. simpl. lia.
  - (* MRunMain *)
    destruct (t >? now (set_mainq s [])).
    + destruct (fire t (set_now (set_mainq s []) t)) as [fired s2] eqn:FI. intros Q; injection Q as Q1 Q2; subst pre s'.
      pose proof (W_fire x _ _ _ _ FI) as G. rewrite W_set_now, W_set_mainq in G. rewrite cmops_runitems, cq_app. simpl in *. lia.
    + intros Q; injection Q as Q1 Q2; subst pre s'. rewrite cmops_runitems, W_set_mainq. simpl. lia.
  - (* MLoop *)
    destruct (mainq s) as [|c l] eqn:MQ.
    + destruct (lazyq s) as [|c l] eqn:LQ.
      * intros Q; injection Q as Q1 Q2; subst pre s'. destruct (t >? recreate s); law_tac x.
      * intros Q; injection Q as Q1 Q2; subst pre s'. cbn [map app cmops cmop]. rewrite cmops_app, cmops_runitems, W_set_lazyq, LQ. simpl. lia.
    + intros Q; injection Q as Q1 Q2; subst pre s'. cbn [map app cmops cmop]. rewrite cmops_app, cmops_runitems, W_set_mainq, MQ. simpl. lia.
  - (* MDrain *)
    destruct (i >=? TEARDOWN_ROUNDS).
    + intros Q; injection Q as Q1 Q2; subst pre s'. destruct (is_nil (mainq s)); law_tac x.
    + destruct (mainq s) as [|c l] eqn:MQ; intros Q; injection Q as Q1 Q2; subst pre s'; [law_tac x|].
      cbn [map app cmops cmop]. rewrite cmops_app, cmops_dropitems, W_set_mainq, MQ. simpl. lia.
  - (* MDropFields *)
    intros Q; injection Q as Q1 Q2; subst pre s'.
    set (s0 := if ambiguous (timers s) then emit s (EModel M_AMBIG 1) else s).
    assert (W0 : W x s0 = W x s) by (unfold s0; destruct (ambiguous (timers s)); [rewrite W_emit; simpl; lia | reflexivity]).
    rewrite cmops_app, cmops_dropitems, !cq_app, cq_map_ti, ctim_sort, W_emit, W_set_tvars, W_set_timers, W_set_idleq, W_set_lazyq.
    stsimp. cbn [cmops cmop con1 cre1 cq ctim]. fold s0. lia.
  - (* MDropEnd *)
    intros Q; injection Q as Q1 Q2; subst pre s'. destruct (is_nil (mainq s)); law_tac x.
  - (* MDropAll *)
    destruct (amin (env s)) as [[h v]|] eqn:AM; intros Q; injection Q as Q1 Q2; subst pre s'; [|law_tac x].
    rewrite W_set_env. pose proof (cenv_aget x _ _ _ (amin_aget _ _ _ AM)). simpl. lia.
  - (* MEpilogue *) inj_tac x.
  - (* MLeaks *)
    intros Q; injection Q as Q1 Q2; subst pre s'. simpl. rewrite <- (W_class_flags x s).
    unfold W at 1, cst. stsimp. rewrite conT_app, creT_app. unfold leaks. rewrite <- map_rev.
    destruct (conT_leaks x (rev (live_after (rev (tr (class_flags s))) []))) as [A B]. rewrite A, B.
    unfold W, cst. lia.
Qed.
