(** Layer R proofs: C03, the hypothesis monitor F ("no cell is freed while one of its own methods runs") reduced to a
    refcount fact.  [okF_of_inv]: for ANY step-invariant [I] of the machine under which a reference drop that frees
    the cell of a never has another [MDropRef a] pending behind it, every terminating run satisfies [okF].
    Structural part proved here: the end of a method / init body is directly followed by the drop of the body's own
    reference ([EB]); the monitor state is the actor of the pending body end ([RF]). *)
From Coq Require Import ZArith NArith List Bool Lia.
From Stk Require Import Lib.U Gen.SrcCount Gen.SrcCore Gen.SrcLog R.Syntax R.Rt R.Mon R.Shape R.Eff R.Tags R.Mono R.C15Proofs R.Count.
From Stk Require Import R.Nest R.C20Proofs R.Calls R.CallInv.
From Stk Require Import R.Lin R.LinAct R.LinLaw R.LinStep R.LinEvs R.LinTail R.LinLive R.LinNin R.LinDel R.LinBody R.LinC05A R.LinC05Core R.LinC05B.
From Stk Require Import R.LinC03Mon R.LinC03L R.LinC03K R.LinC03S.
Import ListNotations.
Local Open Scope Z_scope.

Definition pbF (e : ev) : bool :=
  match e with
  | EMeth _ _ _ | EPrep _ _ _ | ERun _ _ _ | EEnd _ => false
  | EModel c _ => negb (N.eqb c M_FREE_ACTOR)
  | _ => true
  end.

Lemma stepF_neutralF b e : pbF e = true -> stepF b e = Some b.
Proof. destruct e; simpl; try discriminate; auto. intros H. apply negb_true_iff in H. rewrite H. reflexivity. Qed.

Lemma monF_blockF evs : forall t b, forallb pbF evs = true -> monr stepF None t = Some b -> monr stepF None (evs ++ t) = Some b.
Proof.
  induction evs as [|e l IH]; simpl; intros t b F M; auto. apply andb_prop in F as [F1 F2].
  rewrite (IH t b F2 M). apply stepF_neutralF; auto.
Qed.

Lemma pbK_pbF e : pbK e = true -> pbF e = true.
Proof. destruct e; simpl; auto. Qed.

Lemma evs_KF s s' : evs_in pbK s s' -> evs_in pbF s s'.
Proof.
  intros (evs & TR & PB). exists evs. split; auto. apply forallb_forall. intros e IN. apply pbK_pbF.
  rewrite forallb_forall in PB. auto.
Qed.

Lemma ei_ref_clone_F s0 s a : evs_in pbF s0 s -> evs_in pbF s0 (ref_clone s a).
Proof.
  intros H. unfold ref_clone. destruct (aget (actors s) a) as [x|].
  - destruct (a_freed x); (eapply ei_same; [|reflexivity]); [apply ei_emit; [exact H | reflexivity] | exact H].
  - apply ei_emit; [exact H | reflexivity].
Qed.

Ltac eiF := repeat first [ apply ei_ref_clone_F | ei_step ].

Ltac passF := intros Q; inj_pairK Q; (split; [eiF | endb_tac]).

Definition neutralF (s : st) (pre : list mop) (s' : st) : Prop := evs_in pbF s s' /\ existsb is_endb pre = false.

Lemma do_act_F a s pre s' : do_act a s = (pre, s') -> neutralF s pre s'.
Proof.
  intros H. destruct (reqact a) eqn:RA.
  - revert H. destruct a; try discriminate RA; unfold do_act; repeat dest_match; passF.
  - destruct (specialK_act a) eqn:SA.
    + destruct (do_act_K2 _ _ _ _ H) as (A & _ & C & _); [destruct a; try discriminate SA; try discriminate RA; exact I|].
      split; [apply evs_KF; exact A | exact C].
    + destruct (do_act_K _ _ _ _ H SA) as (A & _ & C & _). split; [apply evs_KF; exact A | exact C].
Qed.

Definition specialF (m : mop) : bool :=
  match m with MRunItem _ | MEndBody _ _ | MDropRef _ | MLeaks => true | _ => false end.

Lemma handle_F m s pre s' : handle m s = (pre, s') -> specialF m = false -> neutralF s pre s'.
Proof.
  intros H SP. destruct (specialK m) eqn:SK.
  - destruct m; try discriminate SK; try discriminate SP; cbn [handle] in H.
    + destruct l as [|a l]; [discriminate SK|]. destruct (do_act a s) as [p s1] eqn:E. inversion H; subst.
      destruct (do_act_F _ _ _ _ E) as [A B]. split; [exact A | rewrite endb_app, B; reflexivity].
    + destruct (ret_invoke_K _ _ _ _ _ H) as [(A & _ & C & _)|[NS|SS]].
      * split; [apply evs_KF; exact A | exact C].
      * destruct NS as (rid & a & inner & evs & -> & -> & TR & PB & _). split; [|reflexivity].
        eexists (evs ++ [ENotify a _]). split; [rewrite TR, <- app_assoc; reflexivity|].
        rewrite forallb_app. simpl. rewrite andb_true_r. apply forallb_forall. intros e IN. apply pbK_pbF. rewrite forallb_forall in PB. auto.
      * destruct SS as (rid & p & key & inner & mm & -> & -> & -> & EV & _). split; [apply evs_KF; exact EV | reflexivity].
    + inversion H; subst. split; [eiF | reflexivity].
    + revert H. unfold terminate. destruct (aget (actors s) a) as [y|] eqn:A; [|passF].
      destruct (state_drops a (a_state y) _) as [dl s2] eqn:SD. destruct (state_drops_K _ _ _ _ _ SD) as (-> & DE & _).
      destruct (a_notify y); intros Q; inj_pairK Q; (split; [eiF | rewrite ?endb_app, DE; reflexivity]).
  - destruct (handle_K _ _ _ _ H SK) as (A & _ & C & _). split; [apply evs_KF; exact A | exact C].
Qed.

(* ------------------------------------------------------------------ *)
(** * The end of a method / init body is followed by the drop of the body's reference *)

Definition EB (k : list mop) : Prop :=
  forall w u f rest a, k = w ++ MEndBody u f :: rest -> fin_actor f = Some a -> exists rest', rest = MDropRef a :: rest'.

Lemma EB_tail mo k0 : EB (mo :: k0) -> EB k0.
Proof. intros E w u f rest a K FA. apply (E (mo :: w) u f rest a); [rewrite K; reflexivity | exact FA]. Qed.

Lemma EB_pre pre k0 : existsb is_endb pre = false -> EB k0 -> EB (pre ++ k0).
Proof.
  induction pre as [|x pre IH]; simpl; intros NE E; auto. apply orb_false_elim in NE as [N1 N2].
  intros w u f rest a K FA. destruct w as [|y w]; simpl in K; inversion K; subst.
  - discriminate N1.
  - apply (IH N2 E w u f rest a); auto.
Qed.

Lemma EB_init p : EB (map MTop p ++ [MEpilogue]).
Proof.
  intros w u f rest a K _. exfalso.
  assert (IN : In (MEndBody u f) (map MTop p ++ [MEpilogue])) by (rewrite K; apply in_or_app; right; left; reflexivity).
  apply in_app_or in IN as [IN|[E|[]]]; [|discriminate E]. apply in_map_iff in IN as (o & E & _). discriminate E.
Qed.

Lemma EB_fbody k a : EB k -> fbody k = Some a -> exists w u f rest, k = w ++ MEndBody u f :: MDropRef a :: rest.
Proof.
  intros E FB. unfold fbody in FB. destruct (endb k) as [[u f]|] eqn:EN; [|discriminate].
  assert (G : forall k0, endb k0 = Some (u, f) -> exists w rest, k0 = w ++ MEndBody u f :: rest).
  { induction k0 as [|x k0 IH]; simpl; [discriminate|]. intros H.
    destruct x; try (destruct (IH H) as (w & rest & ->); eexists (_ :: w), rest; reflexivity).
    inversion H; subst. exists [], k0. reflexivity. }
  destruct (G k EN) as (w & rest & K). destruct (E w u f rest a K FB) as (rest' & ->). exists w, u, f, rest'. exact K.
Qed.

Theorem step_EB k s k' s' : step k s = Some (k', s') -> EB k -> EB k'.
Proof.
  intros ST E. destruct k as [|mo k0]; [discriminate|]. simpl in ST. destruct (handle mo s) as [pre s1] eqn:H. inversion ST; subst k' s1; clear ST.
  pose proof (EB_tail _ _ E) as E0.
  destruct (specialF mo) eqn:SP.
  - destruct mo; try discriminate SP; cbn [handle] in H.
    + (* MEndBody *) apply EB_pre; auto. destruct (frames s) as [|fr rest]; inversion H; subst; [reflexivity|].
      fold (end_tail f (f_die fr)). destruct (end_tail_facts f (f_die fr)) as (T1 & _). rewrite endb_app, endb_drops, T1. reflexivity.
    + (* MRunItem *) destruct (run_item_K _ _ _ _ H) as [(_ & _ & C & _)|[BS|TS]].
      * apply EB_pre; auto.
      * destruct BS as (body & f & cx & e & tail & -> & _ & EM & TE & _ & _ & FE).
        intros w u0 f0 rest a K FA. destruct w as [|y w]; simpl in K; inversion K; subst; clear K.
        destruct w as [|y w]; simpl in H2; inversion H2; subst; clear H2.
        -- revert H. unfold run_item. destruct c as [uid cid kd caps sq]. simpl. destruct kd; repeat dest_match; intros Q; inversion Q; subst; simpl in FA; inversion FA; subst; simpl; eauto.
        -- apply (EB_pre tail k0 TE E0 w u0 f0 rest a); auto.
      * destruct TS as (a & cc & x & _ & -> & _ & XE & _). apply EB_pre; auto. simpl. rewrite XE. reflexivity.
    + (* MDropRef *) apply EB_pre; auto. destruct (drop_ref_K _ _ _ _ H) as [(_ & _ & C & _)|(evs & _ & _ & _ & _ & C & _)]; exact C.
    + (* MLeaks *) inversion H; subst. exact E0.
  - apply EB_pre; auto. apply (handle_F _ _ _ _ H SP).
Qed.

(* ------------------------------------------------------------------ *)
(** * The monitor state is the actor of the pending body end *)

Definition RF (k : list mop) (s : st) : Prop := monr stepF None (tr s) = Some (fbody k).

Lemma fbody_pre pre mo k0 : existsb is_endb pre = false -> is_endb mo = false -> fbody (pre ++ k0) = fbody (mo :: k0).
Proof. intros A B. unfold fbody. rewrite (endb_pre _ _ A), (endb_cons _ _ B). reflexivity. Qed.

Definition no_self_free (I : list mop -> st -> Prop) : Prop :=
  forall a k0 s x v, I (MDropRef a :: k0) s -> aget (actors s) a = Some x -> a_freed x = false ->
    minrc_drop (a_rc x) = Some (v, true) -> ~ In (MDropRef a) k0.

Lemma leaks_F s pre s' b :
  handle MLeaks s = (pre, s') -> monr stepF None (tr s) = Some b -> pre = [] /\ monr stepF None (tr s') = Some b.
Proof.
  intros H MF. cbn [handle] in H. inversion H; subst pre s'; clear H. split; [reflexivity|].
  unfold class_flags. destruct (fold_emit_opt (class_flag (actors s)) (actors s) s) as (fl & TR1 & FM & _).
  fold (class_flags s) in TR1.
  assert (PF : forallb pbF fl = true).
  { apply forallb_forall. intros e IN. rewrite Forall_forall in FM. destruct (FM e IN) as (p & CF). apply pbK_pbF. eapply class_flag_pbK; eauto. }
  fold (class_flags s).
  assert (TR : tr (set_tr (class_flags s) (rev (leaks (rev (tr (class_flags s)))) ++ tr (class_flags s))) =
               (rev (leaks (rev (tr (class_flags s)))) ++ fl) ++ tr s).
  { change (tr (set_tr ?x ?v)) with v. rewrite TR1 at 2. rewrite app_assoc. reflexivity. }
  rewrite TR. apply monF_blockF; [|exact MF].
  rewrite forallb_app, PF, andb_true_r. apply forallb_forall. intros e IN. apply in_rev in IN. unfold leaks in IN.
  apply in_map_iff in IN as (p & <- & _). reflexivity.
Qed.

Theorem step_RF (I : list mop -> st -> Prop) k s k' s' :
  no_self_free I -> I k s -> FK k (ctxs s) -> EB k -> Tail k s -> step k s = Some (k', s') -> RF k s -> RF k' s'.
Proof.
  intros NSF II F E TL ST R. destruct k as [|mo k0]; [discriminate|]. simpl in ST. destruct (handle mo s) as [pre s1] eqn:H.
  inversion ST; subst k' s1; clear ST. unfold RF in *.
  assert (NEUT : neutralF s pre s' -> is_endb mo = false -> monr stepF None (tr s') = Some (fbody (pre ++ k0))).
  { intros ((evs & TR & PB) & NE) EM. rewrite TR, (fbody_pre _ _ _ NE EM). apply monF_blockF; auto. }
  destruct (specialF mo) eqn:SP.
  - destruct mo; try discriminate SP; cbn [handle] in H.
    + (* MEndBody *)
      destruct (FK_endbody _ _ _ _ F) as (fr & FR & EM & EB0). rewrite FR in H. fold (end_tail f (f_die fr)) in H. inversion H; subst pre s'.
      destruct (end_tail_facts f (f_die fr)) as (T1 & _).
      assert (EP : existsb is_endb (drops (f_loc fr) ++ end_tail f (f_die fr)) = false) by (rewrite endb_app, endb_drops, T1; reflexivity).
      unfold fbody. rewrite (endb_pre _ _ EP), EB0. change (tr (set_frames (emit s (EEnd uid)) [])) with (EEnd uid :: tr s).
      cbn [monr]. rewrite R. reflexivity.
    + (* MRunItem *)
      destruct (run_item_K _ _ _ _ H) as [(A & _ & C & _)|[BS|TS]].
      * apply NEUT; [split; [apply evs_KF; exact A | exact C] | reflexivity].
      * destruct BS as (body & f & cx & e & tail & -> & -> & EM & TE & _ & _ & FE).
        change (tr (push_frame (emit s e) cx (ci_caps c))) with (e :: tr s). cbn [monr]. rewrite R.
        unfold fbody. simpl endb. destruct f; simpl in FE.
        -- destruct FE as (t & q & ->). reflexivity.
        -- destruct FE as ((t & ->) & _). reflexivity.
        -- destruct FE as ((t & ->) & _). reflexivity.
      * destruct TS as (a & cc & x & -> & -> & _ & XE & _). rewrite R. unfold fbody. simpl. destruct x; try discriminate XE; reflexivity.
    + (* MDropRef *)
      destruct (drop_ref_K _ _ _ _ H) as [(A & _ & C & _)|FS].
      * apply NEUT; [split; [apply evs_KF; exact A | exact C] | reflexivity].
      * destruct FS as (evs & TR & PB & _ & _ & DE & _).
        rewrite TR, (fbody_pre pre (MDropRef a) k0 DE eq_refl). cbn [monr].
        assert (PBF : forallb pbF evs = true).
        { apply forallb_forall. intros e IN. apply pbK_pbF. rewrite forallb_forall in PB. auto. }
        rewrite (monF_blockF _ _ _ PBF R). cbn [stepF]. rewrite N.eqb_refl. simpl andb.
        destruct (fbody (MDropRef a :: k0)) as [x|] eqn:FB; [|reflexivity].
        destruct (N.eqb x a) eqn:Q; [|reflexivity]. exfalso. apply N.eqb_eq in Q. subst x.
        assert (FB0 : fbody k0 = Some a) by exact FB.
        destruct (EB_fbody _ _ (EB_tail _ _ E) FB0) as (w & u & f & rest & K).
        revert H. unfold drop_ref. destruct (aget (actors s) a) as [y|] eqn:A.
        -- destruct (a_freed y) eqn:FRD.
           { intros Q; inversion Q; subst. change (tr (emit s (EModel M_UAF a))) with (EModel M_UAF a :: tr s) in TR.
             injection TR as E1 E2. discriminate E1. }
           destruct (minrc_drop (a_rc y)) as [[v z]|] eqn:MD.
           ++ destruct z.
              ** intros _. apply (NSF a k0 s y v II A FRD MD). rewrite K. apply in_or_app. right. right. left. reflexivity.
              ** intros Q; inversion Q; subst. change (tr (upd_actor s a (with_rc y v))) with (tr s) in TR.
                 apply (f_equal (@length ev)) in TR. simpl in TR. rewrite app_length in TR. lia.
           ++ intros Q; inversion Q; subst. change (tr (emit s (EBad 42))) with (EBad 42 :: tr s) in TR.
              inversion TR.
        -- intros Q; inversion Q; subst. change (tr (emit s (EModel M_UAF a))) with (EModel M_UAF a :: tr s) in TR.
           injection TR as E1 E2. discriminate E1.
    + (* MLeaks *)
      destruct (Tail_leaks _ _ TL) as (-> & _). destruct (leaks_F _ _ _ _ H R) as (-> & R'). exact R'.
  - apply NEUT; [apply (handle_F _ _ _ _ H SP) | destruct mo; try reflexivity; discriminate SP].
Qed.

Lemma RF_init d p : RF (map MTop p ++ [MEpilogue]) (init d).
Proof.
  unfold RF. assert (NE : forall l, fbody (map MTop l ++ [MEpilogue]) = None) by (induction l; simpl; auto).
  rewrite NE. destruct d; reflexivity.
Qed.

Lemma run_invF (I : list mop -> st -> Prop) :
  no_self_free I -> (forall k s k' s', I k s -> step k s = Some (k', s') -> I k' s') ->
  forall fuel k s t, I k s -> FK k (ctxs s) -> EB k -> FL k s -> Tail k s -> RF k s -> run fuel k s = Done t ->
  exists s' b, t = rev (tr s') /\ monr stepF None (tr s') = Some b.
Proof.
  intros NSF IS. induction fuel as [|f IH]; intros k s t II F E FL_ TL R H; simpl in H.
  - destruct k; [|discriminate]. inversion H; subst. exists s, (fbody []). split; auto.
  - destruct (step k s) as [[k' s']|] eqn:ST.
    + eapply IH; [ eapply IS; eauto | eapply step_FK; eauto | eapply step_EB; eauto | eapply step_FL; eauto | eapply step_Tail; eauto
                 | eapply step_RF; eauto | exact H ].
    + inversion H; subst. exists s, (fbody k). split; auto.
Qed.

(** [okF] holds for every terminating run, given any step-invariant of the machine that excludes freeing the cell
    of a while another reference drop for a is pending *)
Theorem okF_of_inv (I : list mop -> st -> Prop) :
  no_self_free I ->
  (forall d p, I (map MTop p ++ [MEpilogue]) (init d)) ->
  (forall k s k' s', I k s -> step k s = Some (k', s') -> I k' s') ->
  forall (d : dkind) (p : list top) (fuel : nat) (t : list ev), exec d fuel p = Done t -> okF t = true.
Proof.
  intros NSF I0 IS d p fuel t H. unfold exec in H.
  destruct (run_invF I NSF IS fuel _ _ _ (I0 d p) (FK_init d p) (EB_init p) (FL_init d p) (Tail_init d p) (RF_init d p) H)
    as (s' & b & -> & M).
  unfold okF. rewrite fold_mon_rev, M. reflexivity.
Qed.

Print Assumptions okF_of_inv.
