(** Layer R proofs: C04, second clause (first half), part 2: the obligation invariant and the theorem
    "everything that lost its last visible owner while a Stakker is up is terminated when the run returns". *)
From Coq Require Import ZArith NArith List Bool Lia.
From Stk Require Import R.LinEvs R.LinC03K R.Lin R.LinAct R.LinLaw R.LinStep R.C06cProofs R.C02Proofs.
From Stk Require Import Lib.U Gen.SrcCount Gen.SrcCore Gen.SrcLog R.Syntax R.Rt R.Mon R.Shape R.Eff R.Tags R.Mono R.Count
  R.Nest R.C15Proofs R.C20Proofs R.Calls R.CallInv R.Own R.OwnLaw R.OwnVis R.C04Mon R.C04Base R.C04A R.C04Ceq R.C04SK R.C04A2 R.C04A3 R.C04B.
Import ListNotations.
Local Open Scope Z_scope.

Arguments submit : simpl never.
Arguments push_main : simpl never.
Arguments timer_add : simpl never.
Arguments emit : simpl never.
Arguments upd_actor : simpl never.
Arguments ref_clone : simpl never.
Arguments new_actor : simpl never.
Arguments log_rec : simpl never.
Arguments tok_script : simpl never.
Arguments target_ev : simpl never.
Arguments push_frame : simpl never.

(* ------------------------------------------------------------------ *)
(** * Entering the teardown phase *)

Lemma teardown_enter m k0 s pre s' :
  shape (m :: k0) -> handle m s = (pre, s') -> teardown (pre ++ k0) ->
  teardown (m :: k0) \/ (m = MTop TDropStakker /\ alive s = true).
Proof.
  intros [p [PH _]] E TD. destruct (is_work m) eqn:W.
  { left. destruct (handle_work _ _ _ _ W E) as [A _]. apply (teardown_work m k0 pre W A). exact TD. }
  unfold phase_of in PH. simpl in PH. rewrite W in PH.
  destruct m; try discriminate W; simpl in E.
  - (* MTop *)
    simpl in PH. destruct (tops k0) eqn:TP; [|discriminate].
    unfold do_top in E. destruct o.
    + exfalso. destruct (alive s); inversion E; subst; revert TD; unfold teardown, phase_of; simpl; rewrite TP; auto.
    + exfalso. destruct (alive s); [|unfold bad in E]; inversion E; subst; revert TD.
      * unfold teardown, phase_of. simpl. rewrite Z.eqb_refl, TP. auto.
      * apply (notear_top []); auto.
    + exfalso. inversion E; subst. revert TD. apply (notear_top [MActs l; MPopFrame]); auto.
    + destruct (alive s) eqn:AL; inversion E; subst; [right; auto|]. exfalso. revert TD. apply (notear_top []); auto.
    + exfalso. inversion E; subst. revert TD. unfold teardown, phase_of; simpl; rewrite TP; auto.
    + exfalso. destruct (alive s); [|unfold bad in E]; inversion E; subst; revert TD; apply (notear_top []); auto.
    + exfalso. destruct (alive s); [|unfold bad in E]; inversion E; subst; revert TD; apply (notear_top []); auto.
  - (* MNew *)
    simpl in PH. destruct (tops k0) eqn:TP; [|discriminate]. exfalso. inversion E; subst. revert TD.
    apply notear_top; auto. apply work_map_dropitem.
  - (* MRunIdle *)
    exfalso. destruct k0 as [|m1 k1]; [discriminate|]. destruct m1; try discriminate PH.
    destruct k1 as [|m2 k2]; [discriminate|]. destruct m2; try discriminate PH.
    destruct ((t =? t0) && tops k2) eqn:TP; [|discriminate].
    assert (NT : forall w, forallb is_work w = true -> ~ teardown (w ++ MRunMain t :: MLoop t0 :: k2)).
    { intros w Hw. unfold teardown. rewrite phase_of_work; auto. unfold phase_of. simpl. rewrite TP. auto. }
    destruct idle; [destruct (idleq s)|]; inversion E; subst; revert TD; [apply (NT []) | apply (NT [MRunItem c]) | apply (NT [])]; reflexivity.
  - (* MRunMain *)
    exfalso. destruct k0 as [|m1 k1]; [discriminate|]. destruct m1; try discriminate PH.
    destruct ((t =? t0) && tops k1) eqn:TP; [|discriminate]. apply andb_prop in TP as [_ TP].
    assert (NT : forall l, ~ teardown (map MRunItem l ++ MLoop t0 :: k1)).
    { intros l. unfold teardown. rewrite phase_of_work by apply work_map_runitem. unfold phase_of. simpl. rewrite TP. auto. }
    destruct (t >? now s); inversion E; subst; revert TD; apply NT.
  - (* MLoop *)
    exfalso. destruct (tops k0) eqn:TP; [|discriminate].
    assert (NT : forall l, ~ teardown (map MRunItem l ++ MLoop t :: k0)).
    { intros l. unfold teardown. rewrite phase_of_work by apply work_map_runitem. unfold phase_of. simpl. rewrite TP. auto. }
    destruct (mainq s) as [|c l] eqn:MQ; [destruct (lazyq s) as [|c l] eqn:LQ|]; inversion E; subst; revert TD.
    + apply (notear_top []); auto.
    + replace ((MRunItem c :: map MRunItem l ++ [MLoop t]) ++ k0) with (map MRunItem (c :: l) ++ MLoop t :: k0)
        by (simpl; rewrite <- app_assoc; reflexivity). apply NT.
    + replace ((MRunItem c :: map MRunItem l ++ [MLoop t]) ++ k0) with (map MRunItem (c :: l) ++ MLoop t :: k0)
        by (simpl; rewrite <- app_assoc; reflexivity). apply NT.
  - left. destruct (tops k0) eqn:TP; [|discriminate]. unfold teardown, phase_of. simpl. rewrite TP. exact I.
  - left. destruct (tops k0) eqn:TP; [|discriminate]. unfold teardown, phase_of. simpl. rewrite TP. exact I.
  - left. destruct (tops k0) eqn:TP; [|discriminate]. unfold teardown, phase_of. simpl. rewrite TP. exact I.
  - exfalso. simpl in PH. destruct (tops k0) eqn:TP; [|discriminate].
    destruct (amin (env s)) as [[h v]|]; inversion E; subst; revert TD.
    + apply (notear_top [MDropVal v]); simpl; auto.
    + apply (notear_top []); auto.
  - exfalso. simpl in PH. destruct (tops k0) eqn:TP; [|discriminate]. inversion E; subst. revert TD.
    apply (notear_top []); simpl; auto.
  - exfalso. simpl in PH. destruct (tops k0) eqn:TP; [|discriminate]. inversion E; subst. revert TD.
    apply (notear_top []); auto.
Qed.

(* ------------------------------------------------------------------ *)
(** * Invisible owners are owners *)

Lemma ici_le a c : ici a c <= hci (HO a) c.
Proof.
  unfold ici, hci. pose proof (hcc_nn (HO a) c). destruct (ci_kind c); cbn [ikind hkind rkb]; rewrite ?hindO_R, ?hindO_O; unfold ib; try lia.
Qed.
Lemma iq_le a l : iq a l <= hq (HO a) l.
Proof. induction l as [|c l IH]; simpl; [lia|]. pose proof (ici_le a c). lia. Qed.
Lemma itim_le a l : itim a l <= htim (HO a) l.
Proof. induction l as [|c l IH]; simpl; [lia|]. pose proof (ici_le a (ti_ci c)). lia. Qed.
Lemma islab_eq a l : islab a l = hslab (HO a) l.
Proof. induction l as [|[c|n] l IH]; simpl; rewrite ?hindO_R, ?hindO_O; unfold ib; lia. Qed.
Lemma istate_le a sa : istate a sa <= hstate (HO a) sa.
Proof. destruct sa; simpl; [apply iq_le | rewrite islab_eq; pose proof (henv_nn (HO a) sh); lia | lia]. Qed.
Lemma iacts_le a l : iacts a l <= hacts (HO a) l.
Proof.
  induction l as [|p l IH]; simpl; [lia|]. unfold hactor. pose proof (istate_le a (a_state (snd p))).
  pose proof (hnotopt_nn (HO a) (a_notify (snd p))). lia.
Qed.
Lemma imop_le a m : imop a m <= hmop (HO a) m.
Proof.
  destruct m; simpl; try lia; try apply ici_le; try apply hci_nn; try apply hcc_nn; try apply hv_nn; try apply hret_nn;
    rewrite ?hindO_R, ?hindO_O; unfold ib; try lia.
  destruct logged; destruct (N.eqb a a0); lia.
Qed.
Lemma imops_le a k : imops a k <= hmops (HO a) k.
Proof. induction k as [|m k IH]; simpl; [lia|]. pose proof (imop_le a m). lia. Qed.

Lemma ist_le_lookup a s h v : lookup s h = Some v -> ist a s + hv (HO a) v <= hst (HO a) s.
Proof.
  intros L. unfold ist, hst.
  pose proof (iq_le a (mainq s)). pose proof (iq_le a (lazyq s)). pose proof (iq_le a (idleq s)).
  pose proof (itim_le a (timers s)). pose proof (iacts_le a (actors s)). pose proof (hfwds_nn (HO a) (fwds s)).
  assert (hv (HO a) v <= henv (HO a) (env s) + hfrs (HO a) (frames s)).
  { unfold lookup in L. pose proof (henv_nn (HO a) (env s)). pose proof (hfrs_nn (HO a) (frames s)).
    destruct (frames s) as [|fr rest] eqn:F.
    - pose proof (henv_aget_le (HO a) _ _ _ L). lia.
    - destruct (aget (f_loc fr) h) as [w|] eqn:LL.
      + inversion L; subst. pose proof (henv_aget_le (HO a) _ _ _ LL). simpl in *. pose proof (hfrs_nn (HO a) rest). lia.
      + pose proof (henv_aget_le (HO a) _ _ _ L). lia. }
  lia.
Qed.
Lemma ist_le a s : ist a s <= hst (HO a) s.
Proof.
  unfold ist, hst.
  pose proof (iq_le a (mainq s)). pose proof (iq_le a (lazyq s)). pose proof (iq_le a (idleq s)).
  pose proof (itim_le a (timers s)). pose proof (iacts_le a (actors s)). pose proof (hfwds_nn (HO a) (fwds s)).
  pose proof (henv_nn (HO a) (env s)). pose proof (hfrs_nn (HO a) (frames s)). lia.
Qed.

(* no visible owner: no owner handle of a is in scope, no logged owner drop of a is pending *)
Lemma novis_lookup k s a h : OI k s -> vis a (tr s) = 0 -> lookup s h = Some (HOwn a) -> False.
Proof.
  intros OO V L. pose proof (OI_visible _ _ a OO) as E. pose proof (OI_census _ _ a OO) as C.
  pose proof (ist_le_lookup a _ _ _ L) as D. rewrite hv_own, hindO_R, hindO_O, N.eqb_refl in D.
  pose proof (imops_le a k). lia.
Qed.
Lemma novis_dropown k0 s a : OI (MDropOwn a true :: k0) s -> vis a (tr s) = 0 -> False.
Proof.
  intros OO V. pose proof (OI_visible _ _ a OO) as E. pose proof (OI_census _ _ a OO) as C.
  cbn [imops imop hmops hmop] in *. rewrite hindO_R, hindO_O, N.eqb_refl in C.
  pose proof (imops_le a k0). pose proof (ist_le a s). lia.
Qed.

(* ------------------------------------------------------------------ *)
(** * The main queue only grows, except when a run takes its batch or a Stakker drops / replaces it *)

Definition mqs (s s' : st) : Prop := forall c, In c (mainq s) -> In c (mainq s').

Lemma mqs_refl s : mqs s s. Proof. intros c H; auto. Qed.
Lemma mqs_trans s1 s2 s3 : mqs s1 s2 -> mqs s2 s3 -> mqs s1 s3.
Proof. intros A B c H. auto. Qed.
Lemma mqs_same s s' : mainq s' = mainq s -> mqs s s'.
Proof. intros E c H. rewrite E. auto. Qed.
Lemma mqs_push s c : mqs s (push_main s c).
Proof. intros d H. unfold push_main. cbn [mainq set_mainq]. apply in_or_app. auto. Qed.
Lemma mqs_submit s q c : mqs s (submit s q c).
Proof.
  unfold submit. destruct q; try (apply mqs_same; reflexivity).
  intros d H. unfold push_main. cbn [mainq set_mainq]. apply in_or_app. left. exact H.
Qed.
Lemma mqs_tok_script script : forall s0 s, mqs s0 s -> mqs s0 (tok_script s script).
Proof.
  unfold tok_script. induction script as [|c r IH]; intros s0 s H; [exact H|]. cbn [fold_left].
  destruct (inst_env c KPlain s) as [ci s1] eqn:I. apply IH.
  apply (mqs_trans _ s1); [|apply mqs_submit].
  apply (mqs_trans _ s); [exact H|]. apply mqs_same.
  unfold inst_env in I. destruct (take_env_caps (clo_caps c) s) as [caps s2] eqn:T. inversion I; subst.
  rewrite mainq_emit, mainq_set_nuid. eapply mainq_take_env_caps; eauto.
Qed.

Ltac mqs_tac :=
  repeat first
    [ match goal with |- mqs ?x ?y => constr_eq x y; apply mqs_refl end
    | match goal with C : mqs ?x ?y |- mqs ?x2 ?y2 => constr_eq x x2; constr_eq y y2; exact C end
    | match goal with
      | |- mqs _ (emit ?s _) => apply (mqs_trans _ s); [ | apply mqs_same; apply mainq_emit ]
      | |- mqs _ (push_main ?s _) => apply (mqs_trans _ s); [ | apply mqs_push ]
      | |- mqs _ (submit ?s _ _) => apply (mqs_trans _ s); [ | apply mqs_submit ]
      | |- mqs _ (push_frame ?s _ _) => apply (mqs_trans _ s); [ | apply mqs_same; apply mainq_push_frame ]
      | |- mqs _ (timer_add ?s _ _ _ _) => apply (mqs_trans _ s); [ | apply mqs_same; apply mainq_timer_add ]
      | |- mqs _ (target_ev ?s _) => apply (mqs_trans _ s); [ | apply mqs_same; apply mainq_target_ev ]
      | |- mqs _ (log_rec ?s _ _ _ _) => apply (mqs_trans _ s); [ | apply mqs_same; apply mainq_log_rec ]
      | |- mqs _ (ref_clone ?s _) => apply (mqs_trans _ s); [ | apply mqs_same; apply mainq_ref_clone ]
      | |- mqs _ (new_actor ?s _ _ _ _) => apply (mqs_trans _ s); [ | apply mqs_same; apply mainq_new_actor ]
      | |- mqs _ (upd_actor ?s _ _) => apply (mqs_trans _ s); [ | apply mqs_same; apply mainq_upd_actor ]
      | |- mqs _ (tok_script ?s _) => apply mqs_tok_script
      | |- mqs _ (set_alive ?s _) => apply (mqs_trans _ s); [ | apply mqs_same; apply mainq_set_alive ]
      | |- mqs _ (set_now ?s _) => apply (mqs_trans _ s); [ | apply mqs_same; apply mainq_set_now ]
      | |- mqs _ (set_start ?s _) => apply (mqs_trans _ s); [ | apply mqs_same; apply mainq_set_start ]
      | |- mqs _ (set_lazyq ?s _) => apply (mqs_trans _ s); [ | apply mqs_same; apply mainq_set_lazyq ]
      | |- mqs _ (set_idleq ?s _) => apply (mqs_trans _ s); [ | apply mqs_same; apply mainq_set_idleq ]
      | |- mqs _ (set_timers ?s _) => apply (mqs_trans _ s); [ | apply mqs_same; apply mainq_set_timers ]
      | |- mqs _ (set_tnext ?s _) => apply (mqs_trans _ s); [ | apply mqs_same; apply mainq_set_tnext ]
      | |- mqs _ (set_tvars ?s _) => apply (mqs_trans _ s); [ | apply mqs_same; apply mainq_set_tvars ]
      | |- mqs _ (set_recreate ?s _) => apply (mqs_trans _ s); [ | apply mqs_same; apply mainq_set_recreate ]
      | |- mqs _ (set_fwds ?s _) => apply (mqs_trans _ s); [ | apply mqs_same; apply mainq_set_fwds ]
      | |- mqs _ (set_env ?s _) => apply (mqs_trans _ s); [ | apply mqs_same; apply mainq_set_env ]
      | |- mqs _ (set_frames ?s _) => apply (mqs_trans _ s); [ | apply mqs_same; apply mainq_set_frames ]
      | |- mqs _ (set_nuid ?s _) => apply (mqs_trans _ s); [ | apply mqs_same; apply mainq_set_nuid ]
      | |- mqs _ (set_logseq ?s _) => apply (mqs_trans _ s); [ | apply mqs_same; apply mainq_set_logseq ]
      | |- mqs _ (set_logfilter ?s _) => apply (mqs_trans _ s); [ | apply mqs_same; apply mainq_set_logfilter ]
      | |- mqs _ (set_haslogger ?s _) => apply (mqs_trans _ s); [ | apply mqs_same; apply mainq_set_haslogger ]
      | |- mqs _ (set_shut ?s _) => apply (mqs_trans _ s); [ | apply mqs_same; apply mainq_set_shut ]
      | |- mqs _ (set_tr ?s _) => apply (mqs_trans _ s); [ | apply mqs_same; apply mainq_set_tr ]
      | |- mqs _ (if ?b then _ else _) => destruct b
      | |- mqs _ (match ?b with Some _ => _ | None => _ end) => destruct b
      | |- mqs _ ?s' =>
          match goal with
          | E : take ?s _ = (_, s') |- _ => apply (mqs_trans _ s); [ | apply mqs_same; apply (mainq_take _ _ _ _ E) ]
          | E : take_caps _ ?s = (_, s') |- _ => apply (mqs_trans _ s); [ | apply mqs_same; apply (mainq_take_caps _ _ _ _ E) ]
          | E : bind ?s _ _ = (_, s') |- _ => apply (mqs_trans _ s); [ | apply mqs_same; apply (mainq_bind _ _ _ _ _ E) ]
          | E : bad ?s _ = (_, s') |- _ => apply (mqs_trans _ s); [ | apply mqs_same; apply (mainq_bad _ _ _ _ E) ]
          | E : inst _ _ ?s = (_, s') |- _ => apply (mqs_trans _ s); [ | apply mqs_same; apply (mainq_inst _ _ _ _ _ E) ]
          | E : inst_call _ _ ?s = (_, s') |- _ => apply (mqs_trans _ s); [ | apply mqs_same; apply (mainq_inst_call _ _ _ _ _ E) ]
          | E : inst_nocaps _ _ ?s = (_, s') |- _ => apply (mqs_trans _ s); [ | apply mqs_same; apply (mainq_inst_nocaps _ _ _ _ _ E) ]
          | E : mk_notifier ?s _ _ = (_, s') |- _ => apply (mqs_trans _ s); [ | apply mqs_same; apply (mainq_mk_notifier _ _ _ _ _ E) ]
          end
      end ].


Ltac mqs_all := solve [intros Q; try injp Q; mqs_tac].

Lemma do_act_mqs act s pre s' : do_act act s = (pre, s') -> mqs s s'.
Proof. unfold do_act. destruct act; try solve [repeat dest_match; mqs_all]. Qed.

Lemma handle_mqs m s pre s' :
  (forall i, m <> MDrain i) -> (forall t, m <> MNew t) -> handle m s = (pre, s') ->
  forall c, In c (mainq s) -> In c (mainq s') \/ In (MRunItem c) pre.
Proof.
  intros ND NN. destruct m; cbn [handle].
  - intros Q c H. left. revert c H. change (mqs s s'). revert Q. unfold do_top. destruct o; repeat dest_match; mqs_all.
  - intros Q c H. left. revert c H. change (mqs s s'). revert Q. destruct l as [|act l]; [mqs_all|].
    destruct (do_act act s) as [p s1] eqn:E. intros Q; injp Q. eapply do_act_mqs; eauto.
  - intros Q c H. left. revert c H. change (mqs s s'). revert Q. destruct (frames s) as [|fr rest]; mqs_all.
  - intros Q c H. left. revert c H. change (mqs s s'). revert Q. destruct (frames s) as [|fr rest]; mqs_all.
  - intros Q c0 H. left. revert c0 H. change (mqs s s'). revert Q. unfold run_item. destruct c as [u i kd caps q]. destruct kd; repeat dest_match; mqs_all.
  - intros Q c0 H. left. revert c0 H. change (mqs s s'). revert Q. unfold drop_item. destruct c as [u i kd caps q]. destruct kd; mqs_all.
  - intros Q c0 H. left. revert c0 H. change (mqs s s'). revert Q. mqs_all.
  - intros Q c H. left. revert c H. change (mqs s s'). revert Q. unfold drop_val. destruct v; repeat dest_match; mqs_all.
  - intros Q c H. left. revert c H. change (mqs s s'). revert Q. unfold drop_own. repeat dest_match; mqs_all.
  - intros Q c H. left. revert c H. change (mqs s s'). revert Q.
    unfold drop_ref. destruct (aget (actors s) a) as [y|] eqn:A; [|mqs_all].
    destruct (a_freed y); [mqs_all|]. destruct (minrc_drop (a_rc y)) as [[v z]|]; [|mqs_all].
    destruct z; [|mqs_all].
    destruct (state_drops a (a_state y) _) as [dl s2] eqn:SD. intros Q; injp Q.
    destruct (state_drops_h (HO 0) _ _ _ _ _ SD) as [-> _]. mqs_tac.
  - intros Q c H. left. revert c H. change (mqs s s'). revert Q. unfold ret_invoke. destruct r as [rid k]. destruct k; repeat dest_match; mqs_all.
  - intros Q c H. left. revert c H. change (mqs s s'). revert Q. mqs_all.
  - intros Q c H. left. revert c H. change (mqs s s'). revert Q. mqs_all.
  - intros Q c H. left. revert c H. change (mqs s s'). revert Q. mqs_all.
  - intros Q c H. left. revert c H. change (mqs s s'). revert Q. mqs_all.
  - intros Q c0 H. left. revert c0 H. change (mqs s s'). revert Q.
    unfold terminate. destruct (aget (actors s) a) as [y|] eqn:A; [|mqs_all].
    destruct (state_drops a (a_state y) _) as [dl s1] eqn:SD.
    destruct (state_drops_h (HO 0) _ _ _ _ _ SD) as [-> _].
    destruct (a_notify y); intros Q; injp Q; mqs_tac.
  - intros Q c0 H. left. revert c0 H. change (mqs s s'). revert Q. destruct (aget (actors s) a); mqs_all.
  - intros Q c H. left. revert c H. change (mqs s s'). revert Q. destruct (aget (actors s) a) as [y|] eqn:A; [|mqs_all]. destruct (a_state y); mqs_all.
  - exfalso. eapply NN; reflexivity.
  - intros Q c H. left. revert c H. change (mqs s s'). revert Q. destruct idle; [destruct (idleq s)|]; mqs_all.
  - (* MRunMain *)
    intros Q c H. right. destruct (t >? now (set_mainq s [])).
    + destruct (fire t (set_now (set_mainq s []) t)) as [fired s2] eqn:FI. injp Q. rewrite map_app. apply in_or_app. left. apply in_map. exact H.
    + injp Q. apply in_map. exact H.
  - (* MLoop *)
    intros Q c H. destruct (mainq s) as [|c0 l] eqn:MQ; [destruct H|]. injp Q. right. apply in_or_app. left. apply in_map. exact H.
  - exfalso. eapply ND; reflexivity.
  - intros Q c H. left. revert c H. change (mqs s s'). revert Q. cbv zeta. mqs_all.
  - intros Q c H. left. revert c H. change (mqs s s'). revert Q. repeat dest_match; mqs_all.
  - intros Q c H. left. revert c H. change (mqs s s'). revert Q. repeat dest_match; mqs_all.
  - intros Q c H. left. revert c H. change (mqs s s'). revert Q. mqs_all.
  - intros Q c H. left. revert c H. change (mqs s s'). revert Q. intros Q; injp Q. apply mqs_same. cbn [mainq set_tr]. apply C04A.mainq_class_flags.
Qed.

(* ------------------------------------------------------------------ *)
(** * Small facts *)

(* the last un-logged owner drop queues the deferred terminate; other cells keep their count *)
Lemma drop_own_push a lg s pre s' :
  (forall c y, aget (actors s) c = Some y -> srange (a_strong y)) -> 0 < ctr (HO a) s < CMAX ->
  drop_own a lg s = (pre, s') -> ctr (HO a) s' = 0 -> exists c, In c (mainq s') /\ ci_kind c = KTerm a.
Proof.
  intros SR C. unfold drop_own.
  set (s0 := if lg then emit s (EOwnDrop a) else s).
  assert (A0 : actors s0 = actors s) by (unfold s0; destruct lg; reflexivity).
  destruct (ctr_pos_in s a ltac:(lia)) as (y & AY & CY). rewrite A0, AY.
  assert (AY0 : aget (actors s0) a = Some y) by (rewrite A0; exact AY).
  destruct (count_dec (a_strong y)) as [[v z]|] eqn:CD.
  - destruct (cnt_dec _ _ _ (SR _ _ AY) ltac:(lia) CD) as (SV & CV & ZZ).
    destruct z; intros Q; injp Q; intros Z.
    + eexists. split; [unfold push_main; cbn [mainq set_mainq]; apply in_or_app; right; left; reflexivity | reflexivity].
    + exfalso. rewrite (ctr_upd_some _ _ _ _ _ AY0) in Z. unfold ctr in Z at 1. rewrite A0, AY in Z.
      cbn [cact a_strong with_strong] in Z. rewrite N.eqb_refl in Z. symmetry in ZZ. apply Z.eqb_neq in ZZ. lia.
  - exfalso. unfold count_dec in CD. destruct (a_strong y <? COUNT_INC) eqn:L; [discriminate|].
    destruct (a_strong y >=? COUNT_MASK); [discriminate|]. cbn [orb] in CD.
    unfold csub in CD. destruct (COUNT_INC <=? a_strong y) eqn:L2; [discriminate|]. zb. lia.
Qed.

Lemma ctr_same_actors a s s' : (forall y, aget (actors s) a = Some y -> exists y', aget (actors s') a = Some y' /\ cnt (a_strong y') = cnt (a_strong y)) ->
  (aget (actors s) a = None -> True) -> (exists y, aget (actors s) a = Some y) -> ctr (HO a) s' = ctr (HO a) s.
Proof. intros C _ (y & AY). destruct (C y AY) as (y' & AY' & E). unfold ctr. rewrite AY, AY', E. reflexivity. Qed.

Lemma drop_own_other a b lg s pre s' : a <> b -> drop_own a lg s = (pre, s') -> ceq1 b s s'.
Proof.
  intros NE. unfold drop_own. set (s0 := if lg then emit s (EOwnDrop a) else s).
  assert (C0 : ceq s s0) by (unfold s0; destruct lg; ceq_tac).
  destruct (aget (actors s0) a) as [y|] eqn:AY.
  - destruct (count_dec (a_strong y)) as [[v z]|].
    + assert (C1 : ceq1 b s (upd_actor s0 a (with_strong y v))).
      { eapply ceq1_trans; [apply C0 | apply ceq1_other; exact NE]. }
      destruct z; intros Q; injp Q; [|exact C1].
      eapply ceq1_trans; [exact C1|]. apply (ceq_trans _ (ref_clone (upd_actor s0 a (with_strong y v)) a)); [apply ceq_opres; apply opres_ref_clone | apply ceq_same; reflexivity].
    + intros Q; injp Q. eapply ceq1_trans; [apply C0|]. apply ceq_same. reflexivity.
  - intros Q; injp Q. eapply ceq1_trans; [apply C0|]. apply ceq_same. reflexivity.
Qed.

(* phase 3 of the call monitor means a notification event *)
Lemma mph3_notified t : forall m2 a, mon2 t = Some m2 -> mph m2 a = 3%N -> exists c, In (ENotify a c) t.
Proof.
  unfold mon2. induction t as [|e t IH]; simpl; intros m2 a H P.
  - inversion H; subst. discriminate P.
  - destruct (monr step02 i02 t) as [m0|] eqn:M0; [|discriminate].
    assert (D : mph m2 a = mph m0 a \/ (exists c, e = ENotify a c) \/ mph m2 a <> 3%N).
    { revert H. unfold step02, guard. destruct e; simpl; case_all; intros H; inversion H; subst; auto; unfold mph; cbn [c_phase].
      - rewrite mph_nset. destruct (N.eqb a0 a); [right; right; discriminate | left; reflexivity].
      - rewrite mph_nset. destruct (N.eqb a0 a); [right; right; discriminate | left; reflexivity].
      - rewrite mph_nset. destruct (N.eqb a0 a) eqn:Q; [apply N.eqb_eq in Q; subst; right; left; eauto | left; reflexivity]. }
    destruct D as [D|[(c & ->)|D]].
    + rewrite D in P. destruct (IH m0 a eq_refl P) as (c & IN). exists c. right. exact IN.
    + exists c. left. reflexivity.
    + contradiction.
Qed.

(* invoking the notifier of a emits its notification *)
Lemma ret_invoke_notifies rid a inner mm s pre s' :
  ret_invoke (Ret rid (RKNotify a inner)) mm s = (pre, s') -> In (ENotify a (msg_cause mm)) (tr s').
Proof.
  unfold ret_invoke. destruct inner as [[p ci]|]; intros Q; injp Q.
  - unfold submit. cbn [tr push_main set_mainq emit set_tr]. right. left. reflexivity.
  - left. reflexivity.
Qed.

(* ------------------------------------------------------------------ *)
(** * Obligations *)

Definition tm (a : N) (k : list mop) : Prop := exists c, In (MTerminate a c) (calmpre k).

Definition kterm (a : N) (k : list mop) (s : st) : Prop :=
  (exists c, In (MRunItem c) k /\ ci_kind c = KTerm a) \/ (exists c, In c (mainq s) /\ ci_kind c = KTerm a).

(* the termination of a is under way: notified, or the notifier invocation / the termination itself is pending in the
   quiet prefix, or the deferred terminate(Dropped) is queued, or an (invisible) owner is still there *)
Definition Ob (a : N) (k : list mop) (s : st) : Prop :=
  In a (o_notified (st04 (tr s))) \/ pn a k \/ tm a k \/ kterm a k s \/ 1 <= ctr (HO a) s.

Fixpoint nshape_dec (a : N) (r : ret) {struct r} : {nshape a r} + {~ nshape a r}.
Proof.
  destruct r as [rid k]. destruct k as [caps b|p ci|p ci|p inner|p key inner]; simpl; try solve [right; intros []].
  - destruct (N.eq_dec p a); [left; auto | right; auto].
  - apply nshape_dec.
Defined.

Lemma notified_ext s s' a : ext s s' -> In a (o_notified (st04 (tr s))) -> In a (o_notified (st04 (tr s'))).
Proof. intros [evs E] H. rewrite E. apply notified_mono. exact H. Qed.

Lemma Ob_step a m k0 s pre s' y :
  KS s -> OI (m :: k0) s -> I2 (m :: k0) s -> Z.of_nat (length (tr s)) < CMAX - 1 ->
  aget (actors s) a = Some y -> vis a (tr s) = 0 ->
  (forall i, m <> MDrain i) -> (forall t, m <> MNew t) -> m <> MDropOwn a true ->
  handle m s = (pre, s') -> Ob a (m :: k0) s -> Ob a (pre ++ k0) s'.
Proof.
  intros KK OO (DK & m2 & MM & JJ) LEN AY V0 ND NN NO E OB.
  pose proof (handle_ext _ _ _ _ E) as EX.
  pose proof (OI_prem _ _ _ KK OO LEN) as [SR HB LIM].
  destruct OB as [N|[P|[T|[K|C]]]].
  - left. eapply notified_ext; eauto.
  - (* the notifier invocation is pending *)
    destruct (qmop m) eqn:QM; [|exfalso; eapply pn_nq; eauto].
    pose proof (qmop_quiet_pre _ _ _ _ QM E) as QP.
    assert (D : (exists r mm, m = MRetInvoke r mm /\ nshape a r) \/ forall r mm, m = MRetInvoke r mm -> ~ nshape a r).
    { destruct m; try (right; intros ? ? Q; discriminate Q). destruct (nshape_dec a r) as [Y|NY]; [left; eauto|].
      right. intros r0 mm Q. inversion Q; subst. exact NY. }
    destruct D as [(r & mm & -> & NS)|D]; [|right; left; eapply pn_step; eauto].
    cbn [handle] in E. destruct r as [rid k]. destruct k as [caps b|p ci|p ci|p inner|p key inner]; try (destruct NS; fail).
    + simpl in NS. subst p. left. apply st04_notified. eexists. eapply ret_invoke_notifies; eauto.
    + simpl in NS. right. left. unfold ret_invoke in E. destruct mm as [mm|]; injp E.
      * eapply (pn_push a k0 _ inner (Some mm)); [exact QP | left; reflexivity | exact NS].
      * eapply (pn_push a k0 _ inner None); [exact QP | right; left; reflexivity | exact NS].
  - (* the termination itself is pending *)
    destruct (qmop m) eqn:QM; [|destruct T as (c & IN); rewrite calmpre_nq in IN by auto; destruct IN].
    pose proof (qmop_quiet_pre _ _ _ _ QM E) as QP.
    destruct T as (c & IN). rewrite calmpre_q in IN by auto. destruct IN as [->|IN].
    + cbn [handle] in E. unfold terminate in E. rewrite AY in E.
      destruct (state_drops a (a_state y) _) as [dl s1] eqn:SD.
      destruct (ks_act _ KK _ _ AY) as (_ & _ & SH & ZB & _).
      destruct (a_notify y) as [nt|] eqn:NT; injp E.
      * right. left. eapply (pn_push a k0 _ nt (Some (MCause c))); [exact QP | apply in_or_app; right; right; left; reflexivity | apply SH; reflexivity].
      * pose proof (o_ph _ _ _ JJ a y AY) as PH. rewrite (ZB eq_refl) in PH. destruct PH as [PH|PH].
        -- left. eapply notified_ext; [exact EX|]. apply st04_notified. eapply mph3_notified; eauto.
        -- right. left. eapply pn_step; eauto. intros r mm Q. discriminate Q.
    + right. right. left. exists c. rewrite calmpre_app by auto. apply in_or_app. right. exact IN.
  - (* the deferred terminate(Dropped) is queued *)
    destruct K as [(c & IN & CK)|(c & IN & CK)].
    + destruct IN as [->|IN].
      * cbn [handle] in E. unfold run_item in E. destruct c as [u i kd caps q]. simpl in CK. subst kd. injp E.
        right. right. left. exists CDrop. cbn [app calmpre qmop is_work runish andb negb]. left. reflexivity.
      * right. right. right. left. left. exists c. split; [apply in_or_app; right; exact IN | exact CK].
    + destruct (handle_mqs _ _ _ _ ND NN E c IN) as [H|H].
      * right. right. right. left. right. eauto.
      * right. right. right. left. left. exists c. split; [apply in_or_app; left; exact H | exact CK].
  - (* an owner is still there *)
    assert (D : (exists a0 lg, m = MDropOwn a0 lg) \/ forall a0 lg, m <> MDropOwn a0 lg).
    { destruct m; try (right; intros ? ? Q; discriminate Q). left; eauto. }
    destruct D as [(a0 & lg & ->)|D].
    + cbn [handle] in E. destruct (N.eq_dec a0 a) as [->|NE].
      * destruct lg; [exfalso; apply NO; reflexivity|].
        assert (B : 0 < ctr (HO a) s < CMAX) by (pose proof (LIM a); lia).
        destruct (drop_own_mq _ _ _ _ _ SR B E) as (C1 & _ & _).
        destruct (Z.eq_dec (ctr (HO a) s') 0) as [Z|NZ].
        -- right. right. right. left. right. eapply drop_own_push; eauto.
        -- right. right. right. right. lia.
      * right. right. right. right. destruct (drop_own_other _ _ _ _ _ _ NE E y AY) as (y' & AY' & EQ).
        unfold ctr in *. rewrite AY in C. rewrite AY', EQ. exact C.
    + right. right. right. right. destruct (handle_ceq _ _ _ _ SR D E a) as [CE|(act & l & -> & R)].
      * destruct (CE y AY) as (y' & AY' & EQ). unfold ctr in *. rewrite AY in C. rewrite AY', EQ. exact C.
      * exfalso. assert (L : exists h, lookup s h = Some (HOwn a)) by (destruct act; try contradiction; eauto).
        destruct L as (h & L). eapply novis_lookup; eauto.
Qed.

(* ------------------------------------------------------------------ *)
(** * The invariant *)

Definition chkR1 (s : s04) (e : ev) : bool :=
  match e with ERunRet _ => subset (o_must s) (o_notified s) | _ => true end.

Record B1 (k : list mop) (s : st) : Prop := mkB1 {
  b_al : teardown k -> o_alive (st04 (tr s)) = false;
  b_ob : forall a, In a (o_must (st04 (tr s))) ->
           vis a (tr s) = 0 /\ ~ In a (o_slabkid (st04 (tr s))) /\ (exists y, aget (actors s) a = Some y) /\ Ob a k s }.

Lemma nmem_In x l : nmem x l = true <-> In x l.
Proof.
  induction l as [|y l IH]; simpl; [split; [discriminate | contradiction]|].
  rewrite orb_true_iff, IH, N.eqb_eq. split; intros [H|H]; auto.
Qed.

Lemma subset_In a b : (forall x, In x a -> In x b) -> subset a b = true.
Proof. intros H. unfold subset. apply forallb_forall. intros x Hx. apply nmem_In. auto. Qed.

Lemma chkR1_pb s e : pbB e = true -> chkR1 s e = true.
Proof. destruct e; try reflexivity. discriminate. Qed.

Lemma tops_imops a k : tops k = true -> imops a k = 0.
Proof.
  induction k as [|m k IH]; simpl; auto. intros T. apply andb_prop in T as [T1 T2]. rewrite IH by auto.
  destruct m; try discriminate T1; reflexivity.
Qed.
Lemma tops_norun k c : tops k = true -> ~ In (MRunItem c) k.
Proof. intros T IN. unfold tops in T. rewrite forallb_forall in T. specialize (T _ IN). discriminate T. Qed.

Lemma plain_ici a c : ci_call c = false -> ici a c = 0.
Proof. unfold ci_call, ici. destruct (ci_kind c); try discriminate; reflexivity. Qed.
Lemma hok_ici p a c : hok p c -> ici a c = 0.
Proof. unfold ici. intros [(b & arg & E & _)|(key & E & _)]; rewrite E; reflexivity. Qed.
Lemma iq_zero a l : Forall (fun c => ici a c = 0) l -> iq a l = 0.
Proof. induction 1; simpl; lia. Qed.

(* at a point where nothing is queued, an actor that is not a slab child has no invisible owner in the state *)
Lemma ist_quiescent a s : KS s -> QTags s -> SK s -> mainq s = [] -> lazyq s = [] ->
  ~ In a (o_slabkid (st04 (tr s))) -> ist a s = 0.
Proof.
  intros KK QT K MQ LQ NS. unfold ist. rewrite MQ, LQ. cbn [iq].
  assert (I1 : iq a (idleq s) = 0).
  { apply iq_zero. eapply Forall_impl; [|apply (qt_idle _ QT)]. intros c [C _]. apply plain_ici; auto. }
  assert (I2 : itim a (timers s) = 0).
  { rewrite <- iq_map_ti. apply iq_zero. eapply Forall_impl; [|apply (qt_timers _ QT)]. intros c [C _]. apply plain_ici; auto. }
  assert (I3 : forall l, (forall p y, In (p, y) l -> aget (actors s) p = Some y) -> iacts a l = 0).
  { induction l as [|[p y] l IH]; intros H; simpl; auto. rewrite IH by (intros; apply H; right; auto).
    pose proof (H p y (or_introl eq_refl)) as AY.
    destruct (ks_act _ KK _ _ AY) as (_ & _ & _ & _ & HK).
    destruct (a_state y) eqn:SA; simpl.
    - unfold held_of in HK. rewrite SA in HK. rewrite iq_zero; auto. eapply Forall_impl; [|exact HK]. intros c. apply hok_ici.
    - rewrite islab_zero; auto. intros c IN ->. apply NS. eapply (SK_slabkid s p); eauto.
      unfold slab_of. rewrite AY, SA. exact IN.
    - reflexivity. }
  rewrite I1, I2, (I3 (actors s)); [lia|]. intros p y IN. apply aget_in; auto. apply (ks_keys _ KK).
Qed.

Lemma app_tail_in {X} (evs evs' : list X) e t : evs ++ t = evs' ++ e :: t -> In e evs.
Proof.
  intros E. assert (Q : evs ++ t = (evs' ++ [e]) ++ t) by (rewrite <- app_assoc; exact E).
  apply app_inv_tail in Q. subst. apply in_or_app. right. left. reflexivity.
Qed.

Lemma neutral_not evs e : forallb pbB evs = true -> pbB e = false -> ~ In e evs.
Proof. intros F P IN. rewrite forallb_forall in F. rewrite (F _ IN) in P. discriminate. Qed.

(* shape of the continuation in front of phase micro-ops *)
Lemma shape_drain i k0 : shape (MDrain i :: k0) -> teardown (MDrain i :: k0).
Proof.
  intros [p [PH _]]. unfold phase_of in PH. simpl in PH. destruct (tops k0) eqn:TP; [|discriminate].
  unfold teardown, phase_of. simpl. rewrite TP. exact I.
Qed.
Lemma shape_loop t k0 : shape (MLoop t :: k0) -> tops k0 = true /\ ~ teardown (MLoop t :: k0).
Proof.
  intros [p [PH _]]. unfold phase_of in PH. simpl in PH. destruct (tops k0) eqn:TP; [|discriminate].
  split; auto. unfold teardown, phase_of. simpl. rewrite TP. auto.
Qed.
Lemma shape_new t k0 : shape (MNew t :: k0) -> ~ teardown (MNew t :: k0).
Proof.
  intros [p [PH _]]. unfold phase_of in PH. simpl in PH. destruct (tops k0) eqn:TP; [|discriminate].
  unfold teardown, phase_of. simpl. rewrite TP. auto.
Qed.

Lemma st04_one evs2 e evs1 t : forallb pbB evs1 = true -> forallb pbB evs2 = true ->
  let s1 := st04 (evs1 ++ t) in
  o_must s1 = o_must (st04 t) /\ o_alive s1 = o_alive (st04 t) /\ o_slabkid s1 = o_slabkid (st04 t) /\
  (forall a, cnt_of s1 a = vis a t) /\
  o_must (st04 (evs2 ++ e :: evs1 ++ t)) = o_must (upd04 s1 e) /\
  o_alive (st04 (evs2 ++ e :: evs1 ++ t)) = o_alive (upd04 s1 e) /\
  o_slabkid (st04 (evs2 ++ e :: evs1 ++ t)) = o_slabkid (upd04 s1 e) /\
  (forall a, vis a (evs2 ++ e :: evs1 ++ t) = vis a t + vis1 a e).
Proof.
  intros F1 F2 s1. destruct (st04_neutral evs1 t F1) as (A1 & B1' & C1 & D1).
  destruct (st04_neutral evs2 (e :: evs1 ++ t) F2) as (A2 & B2 & C2 & D2).
  repeat split; auto.
  - intros a. unfold s1. rewrite st04_cnt. apply D1.
  - intros a. rewrite D2. cbn [vis]. rewrite D1. lia.
Qed.

Lemma okx_one evs2 e evs1 t : forallb pbB evs1 = true -> forallb pbB evs2 = true ->
  okx chkR1 (evs2 ++ e :: evs1 ++ t) = chkR1 (st04 (evs1 ++ t)) e && okx chkR1 t.
Proof.
  intros F1 F2. rewrite okx_app by (intros x m IN; apply chkR1_pb; rewrite forallb_forall in F2; auto).
  cbn [okx]. f_equal. apply okx_app. intros x m IN. apply chkR1_pb. rewrite forallb_forall in F1. auto.
Qed.

Lemma cle_in_table m s pre s' a y k0 :
  (forall c z, aget (actors s) c = Some z -> srange (a_strong z)) -> OI (m :: k0) s -> vis a (tr s) = 0 ->
  handle m s = (pre, s') -> aget (actors s) a = Some y -> exists y', aget (actors s') a = Some y'.
Proof.
  intros SR OO V E AY. destruct (handle_cle _ _ _ _ SR E a) as [C|(act & l & -> & R)].
  - destruct (C y AY) as (y' & AY' & _). eauto.
  - exfalso. assert (L : exists h, lookup s h = Some (HOwn a)) by (destruct act; try contradiction; eauto).
    destruct L as (h & L). eapply novis_lookup; eauto.
Qed.

Theorem step_B1 m k0 s pre s' :
  shape (m :: k0) -> KS s -> QTags s -> SK s -> OI (m :: k0) s -> I2 (m :: k0) s ->
  Z.of_nat (length (tr s)) < CMAX - 1 ->
  handle m s = (pre, s') -> B1 (m :: k0) s -> okx chkR1 (tr s) = true ->
  B1 (pre ++ k0) s' /\ okx chkR1 (tr s') = true.
Proof.
  intros SH KK QT K OO II LEN E [AL OBS] OK.
  pose proof (OI_prem _ _ _ KK OO LEN) as [SR HB LIM].
  (* what an old obligation becomes, when the step is not one that discards the main queue *)
  assert (KEEP : forall a, In a (o_must (st04 (tr s))) -> (forall i, m <> MDrain i) -> (forall t, m <> MNew t) -> m <> MDropOwn a true ->
                 (exists y, aget (actors s') a = Some y) /\ Ob a (pre ++ k0) s').
  { intros a IN ND NN NO. destruct (OBS a IN) as (V0 & NS & (y & AY) & OB). split.
    - eapply cle_in_table; eauto.
    - eapply Ob_step; eauto. }
  destruct (handle_evB _ _ _ _ E) as [(evs & TE & FE)|(e & PE & (s1 & (evs1 & T1 & F1) & (evs2 & T2 & F2)) & EV)].
  - (* no event that moves the obligations *)
    destruct (st04_neutral evs (tr s) FE) as (MU & ALV & SKD & VI). rewrite <- TE in MU, ALV, SKD, VI.
    assert (NEU : forall e0 evs', pbB e0 = false -> tr s' = evs' ++ e0 :: tr s -> False).
    { intros e0 evs' P Q. rewrite TE in Q. apply app_tail_in in Q. eapply neutral_not; eauto. }
    split; [constructor|].
    + intros TD. rewrite ALV. destruct (teardown_enter _ _ _ _ _ SH E TD) as [T0|[-> ALI]]; [auto|].
      exfalso. cbn [handle] in E. unfold do_top in E. rewrite ALI in E. injp E. eapply (NEU EDropBegin []); reflexivity.
    + intros a IN. rewrite MU in IN. destruct (OBS a IN) as (V0 & NS & _ & _).
      assert (ND : forall i, m <> MDrain i).
      { intros i ->. pose proof (AL (shape_drain _ _ SH)) as A. rewrite (must_alive _ A) in IN. destruct IN. }
      assert (NN : forall t, m <> MNew t).
      { intros t ->. cbn [handle] in E. injp E. eapply (NEU (ENew t) []); reflexivity. }
      assert (NO : m <> MDropOwn a true).
      { intros ->. eapply novis_dropown; eauto. }
      destruct (KEEP a IN ND NN NO) as (G1 & G2). rewrite VI, SKD. auto.
    + rewrite (okx_evs_in chkR1 pbB s s' chkR1_pb); [exact OK | exists evs; auto].
  - (* one event that moves them *)
    assert (TE : tr s' = evs2 ++ e :: evs1 ++ tr s) by (rewrite T2; unfold emit; cbn [tr set_tr]; rewrite T1; reflexivity).
    destruct (st04_one evs2 e evs1 (tr s) F1 F2) as (M1 & A1 & S1 & C1 & MU & ALV & SKD & VI). rewrite <- TE in MU, ALV, SKD, VI.
    assert (OKX : okx chkR1 (tr s') = chkR1 (st04 (evs1 ++ tr s)) e) by (rewrite TE, (okx_one evs2 e evs1 (tr s) F1 F2), OK, andb_true_r; reflexivity).
    rewrite OKX. clear OKX.
    destruct e; try discriminate PE; cbn [evok] in EV.
    + (* ENew *)
      subst m. cbn [upd04 o_must o_alive] in MU, ALV. split; [constructor|reflexivity].
      * intros TD. exfalso. destruct (teardown_enter _ _ _ _ _ SH E TD) as [T0|[Q _]]; [exact (shape_new _ _ SH T0) | discriminate Q].
      * intros a IN. rewrite MU in IN. destruct IN.
    + (* ERunRet: every obligation is discharged *)
      destruct EV as (t & -> & MQ & LQ). destruct (shape_loop _ _ SH) as [TP NT].
      cbn [upd04 o_must o_alive] in MU, ALV. split; [constructor|].
      * intros TD. exfalso. destruct (teardown_enter _ _ _ _ _ SH E TD) as [T0|[Q _]]; [exact (NT T0) | discriminate Q].
      * intros a IN. rewrite MU in IN. destruct IN.
      * cbn [chkR1]. rewrite M1. apply subset_In. intros a IN.
        destruct (OBS a IN) as (V0 & NS & (y & AY) & OB).
        assert (NM : In a (o_notified (st04 (tr s)))).
        { destruct OB as [N|[P|[T|[KT|C]]]]; [exact N | exfalso; eapply (pn_nq a (MLoop t)); eauto; reflexivity | | |].
          - exfalso. destruct T as (c & INC). rewrite calmpre_nq in INC by reflexivity. destruct INC.
          - exfalso. destruct KT as [(c & INC & _)|(c & INC & _)]; [|rewrite MQ in INC; destruct INC].
            destruct INC as [Q|INC]; [discriminate Q | eapply tops_norun; eauto].
          - exfalso. pose proof (OI_visible _ _ a OO) as VV. rewrite V0 in VV. cbn [imops imop] in VV.
            rewrite (tops_imops a _ TP), (ist_quiescent a s KK QT K MQ LQ NS) in VV. lia. }
        apply notified_mono. exact NM.
    + (* EDropBegin *)
      cbn [upd04 o_must o_alive] in MU, ALV. split; [constructor|reflexivity].
      * intros _. exact ALV.
      * intros a IN. rewrite MU in IN. destruct IN.
    + (* EOwnNew *)
      cbn [upd04 o_must o_alive o_slabkid] in MU, ALV, SKD. rewrite M1 in MU. rewrite A1 in ALV. rewrite S1 in SKD.
      split; [constructor|reflexivity].
      * intros TD. rewrite ALV. destruct (teardown_enter _ _ _ _ _ SH E TD) as [T0|[Q _]]; [auto|].
        exfalso. destruct EV as (l & [(h & n & Q' & _)|(h & h2 & Q' & _)]); rewrite Q' in Q; discriminate Q.
      * intros b IN. rewrite MU in IN. destruct (OBS b IN) as (V0 & NS & (y & AY) & _).
        assert (NE : b <> a).
        { intros ->. destruct EV as (l & [(h & n & _ & AN)|(h & h2 & _ & L)]); [congruence | eapply novis_lookup; eauto]. }
        assert (ND : forall i, m <> MDrain i) by (intros i ->; destruct EV as (l & [(h & n & Q & _)|(h & h2 & Q & _)]); discriminate Q).
        assert (NN : forall t, m <> MNew t) by (intros t ->; destruct EV as (l & [(h & n & Q & _)|(h & h2 & Q & _)]); discriminate Q).
        assert (NO : m <> MDropOwn b true) by (intros ->; destruct EV as (l & [(h & n & Q & _)|(h & h2 & Q & _)]); discriminate Q).
        destruct (KEEP b IN ND NN NO) as (G1 & G2). rewrite VI, SKD. cbn [vis1]. unfold vb.
        replace (N.eqb b a) with false by (symmetry; apply N.eqb_neq; exact NE). repeat split; auto. lia.
    + (* EOwnDrop: possibly a new obligation *)
      subst m. cbn [handle] in E.
      cbn [upd04 o_must o_alive o_slabkid] in MU, ALV, SKD. rewrite M1, A1, S1, C1 in MU. rewrite A1 in ALV. rewrite S1 in SKD.
      assert (B : 0 < ctr (HO a) s < CMAX).
      { pose proof (HB a) as HA. cbn [hmop] in HA. rewrite hind_refl in HA. pose proof (hst_nn (HO a) s). pose proof (LIM a).
        pose proof (hind_range (HO a) (HR a)). lia. }
      destruct (drop_own_mq _ _ _ _ _ SR B E) as (CT & G1 & _).
      split; [constructor|reflexivity].
      * intros TD. rewrite ALV. destruct (teardown_enter _ _ _ _ _ SH E TD) as [T0|[Q _]]; [auto | discriminate Q].
      * intros b IN. rewrite MU in IN.
        assert (OLD : In b (o_must (st04 (tr s))) -> vis b (tr s') = 0 /\ ~ In b (o_slabkid (st04 (tr s'))) /\
                      (exists y, aget (actors s') b = Some y) /\ Ob b (pre ++ k0) s').
        { intros INB. destruct (OBS b INB) as (V0 & NS & _ & _).
          assert (NE : b <> a) by (intros ->; eapply novis_dropown; eauto).
          assert (ND : forall i, MDropOwn a true <> MDrain i) by (intros i Q; discriminate Q).
          assert (NN : forall t, MDropOwn a true <> MNew t) by (intros t Q; discriminate Q).
          assert (NO : MDropOwn a true <> MDropOwn b true) by (intros Q; inversion Q; congruence).
          destruct (KEEP b INB ND NN NO) as (G2 & G3). rewrite VI, SKD. cbn [vis1]. unfold vb.
          replace (N.eqb b a) with false by (symmetry; apply N.eqb_neq; exact NE). repeat split; auto. lia. }
        destruct (((vis a (tr s) - 1 =? 0) && negb (nmem a (o_slabkid (st04 (tr s))))) && o_alive (st04 (tr s))) eqn:ZA; [|auto].
        destruct IN as [<-|IN]; [|auto].
        apply andb_prop in ZA as [ZA _]. apply andb_prop in ZA as [Z1 Z2]. apply Z.eqb_eq in Z1.
        rewrite VI, SKD. cbn [vis1]. unfold vb. rewrite N.eqb_refl. split; [lia|]. split.
        { intros INS. apply nmem_In in INS. rewrite INS in Z2. discriminate Z2. }
        split; [exact G1|].
        destruct (Z.eq_dec (ctr (HO a) s') 0) as [Z|NZ].
        -- right. right. right. left. right. eapply drop_own_push; eauto.
        -- right. right. right. right. lia.
    + (* ESlabAdd *)
      cbn [upd04 o_must o_alive o_slabkid] in MU, ALV, SKD. rewrite M1 in MU. rewrite A1 in ALV. rewrite S1 in SKD.
      destruct EV as (h & n & l & -> & AN).
      split; [constructor|reflexivity].
      * intros TD. rewrite ALV. destruct (teardown_enter _ _ _ _ _ SH E TD) as [T0|[Q _]]; [auto | discriminate Q].
      * intros b IN. rewrite MU in IN. destruct (OBS b IN) as (V0 & NS & (y & AY) & _).
        assert (NE : b <> a) by (intros ->; congruence).
        assert (ND : forall i, MActs (ASlabAdd h a n :: l) <> MDrain i) by (intros i Q; discriminate Q).
        assert (NN : forall t, MActs (ASlabAdd h a n :: l) <> MNew t) by (intros t Q; discriminate Q).
        assert (NO : MActs (ASlabAdd h a n :: l) <> MDropOwn b true) by (intros Q; discriminate Q).
        destruct (KEEP b IN ND NN NO) as (G1 & G2). rewrite VI, SKD. cbn [vis1]. repeat split; auto; [lia|].
        intros [Q|Q]; [congruence | auto].
Qed.

(* ------------------------------------------------------------------ *)
(** * The theorem *)

Definition IB (k : list mop) (s : st) : Prop := IA k s /\ SK s /\ B1 k s /\ okx chkR1 (tr s) = true.

Lemma IB_init p : IB (map MTop p ++ [MEpilogue]) (init DGlobal).
Proof.
  split; [apply IA_init|]. split; [apply SK_init|]. split; [|reflexivity]. constructor.
  - intros TD. exfalso. revert TD. apply (notear_top []); [reflexivity|].
    unfold tops. rewrite forallb_app. simpl. rewrite andb_true_r. induction p; simpl; auto.
  - intros a IN. destruct IN.
Qed.

Theorem step_IB k s k' s' :
  Z.of_nat (length (tr s)) < CMAX - 1 -> IB k s -> step k s = Some (k', s') -> IB k' s'.
Proof.
  intros LEN (IAA & K & BB & OK) ST.
  pose proof (step_IA _ _ _ _ LEN IAA ST) as IAA'.
  pose proof (step_SK _ _ _ _ K ST) as K'.
  destruct IAA as (SH & T & W & KK & LN & II & OO & F & MM & OKN).
  apply Tags_split in T as [QT _].
  destruct k as [|m k0]; [discriminate|]. simpl in ST. destruct (handle m s) as [pre s1] eqn:E. inversion ST; subst.
  destruct (step_B1 _ _ _ _ _ SH (proj1 KK) QT K OO II LEN E BB OK) as [BB' OK'].
  split; [exact IAA'|]. split; [exact K'|]. split; [exact BB' | exact OK'].
Qed.

Lemma run_IB fuel : forall k s t,
  IB k s -> run fuel k s = Done t -> Z.of_nat (length t) < CMAX - 1 -> okx chkR1 (rev t) = true.
Proof.
  induction fuel as [|f IH]; intros k s t I H LEN; simpl in H.
  - destruct k; [|discriminate]. inversion H; subst. rewrite rev_involutive. apply I.
  - destruct (step k s) as [[k' s']|] eqn:ST.
    + eapply IH; [|exact H | exact LEN]. eapply step_IB; [|exact I | exact ST].
      pose proof (run_len _ _ _ _ H) as L1. pose proof (ext_len _ _ (step_ext _ _ _ _ ST)). lia.
    + inversion H; subst. rewrite rev_involutive. apply I.
Qed.

(** Whenever run returns, every actor that lost its last visible owner since the Stakker was created (and outside its
    teardown) has been notified: for every program and fuel, global / thread-local deferrer, below saturation. *)
Theorem C04_last_owner_terminates_proved : forall (p : list top) (fuel : nat) (t : list ev),
  exec DGlobal fuel p = Done t -> Z.of_nat (length t) < CMAX - 1 -> okx chkR1 (rev t) = true.
Proof. intros p fuel t H LEN. unfold exec in H. eapply run_IB; [apply IB_init | exact H | exact LEN]. Qed.

Print Assumptions C04_last_owner_terminates_proved.
