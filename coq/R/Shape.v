(** Layer R proofs, part 1: the shape of the continuation.

    The continuation [k] of the machine always has the form  W ++ P ++ T  where
      W  "work": the linearised body of the Rust call in progress (acts, frame pops, item runs and drops,
                 value drops, ret invocations, terminations ...),
      P  the phase marker of the top-level operation in progress (inside [Stakker::run]: before the idle
         item, before the main batch, in the loop; inside [Stakker::drop]: draining, dropping fields, done),
      T  the rest of the top-level program.
    Items are run ([MRunItem], [MEndBody], [MToReady]) only while P is a run phase.  This is the
    continuation-shape invariant every data invariant of the other proof files rests on (lesson of the
    design spike: a data invariant alone is not inductive). *)
From Coq Require Import ZArith NArith List Bool Lia.
From Stk Require Import Lib.U Gen.SrcCount Gen.SrcCore Gen.SrcLog R.Syntax R.Rt.
Import ListNotations.
Local Open Scope Z_scope.

Definition is_work (m : mop) : bool :=
  match m with
  | MActs _ | MPopFrame | MEndBody _ _ | MRunItem _ | MDropItem _ | MDropInner _ | MDropVal _
  | MDropOwn _ _ | MDropRef _ | MRetInvoke _ _ | MValDrop _ | MDelDone _ _ | MOrphNew _ | MOrphDrop _
  | MTerminate _ _ | MLogClose _ _ | MToReady _ => true
  | _ => false
  end.

Definition is_top (m : mop) : bool :=
  match m with MTop _ | MNew _ | MDropAll | MEpilogue | MLeaks => true | _ => false end.

(* micro-ops that exist only inside Stakker::run *)
Definition runish (m : mop) : bool :=
  match m with MRunItem _ | MEndBody _ _ | MToReady _ => true | _ => false end.

Inductive phase :=
| PTop | PRunIdle (b : bool) (t : Z) | PRunMain (t : Z) | PLoop (t : Z)
| PDrain (i : Z) | PFields | PDropEnd.

Definition is_run (p : phase) : bool :=
  match p with PRunIdle _ _ | PRunMain _ | PLoop _ => true | _ => false end.

Fixpoint skip_work (k : list mop) : list mop :=
  match k with
  | m :: r => if is_work m then skip_work r else k
  | [] => []
  end.

Fixpoint work_of (k : list mop) : list mop :=
  match k with
  | m :: r => if is_work m then m :: work_of r else []
  | [] => []
  end.

Definition tops (r : list mop) : bool := forallb is_top r.

Definition phase_of (k : list mop) : option phase :=
  match skip_work k with
  | MRunIdle b :: MRunMain t :: MLoop t' :: r => if (t =? t') && tops r then Some (PRunIdle b t) else None
  | MRunMain t :: MLoop t' :: r => if (t =? t') && tops r then Some (PRunMain t) else None
  | MLoop t :: r => if tops r then Some (PLoop t) else None
  | MDrain i :: r => if tops r then Some (PDrain i) else None
  | MDropFields :: r => if tops r then Some PFields else None
  | MDropEnd :: r => if tops r then Some PDropEnd else None
  | r => if tops r then Some PTop else None
  end.

Definition shape (k : list mop) : Prop :=
  exists p, phase_of k = Some p /\ (existsb runish (work_of k) = true -> is_run p = true).

(* ------------------------------------------------------------------ *)
(** * List lemmas *)

Lemma skip_work_app w k : forallb is_work w = true -> skip_work (w ++ k) = skip_work k.
Proof. induction w as [|m w IH]; simpl; auto. intros H. apply andb_prop in H as [H1 H2]. rewrite H1. auto. Qed.

Lemma work_of_app w k : forallb is_work w = true -> work_of (w ++ k) = w ++ work_of k.
Proof. induction w as [|m w IH]; simpl; auto. intros H. apply andb_prop in H as [H1 H2]. rewrite H1. f_equal; auto. Qed.

Lemma forallb_map {X} (f : X -> mop) (p : mop -> bool) l :
  (forall x, p (f x) = true) -> forallb p (map f l) = true.
Proof. intros H. induction l; simpl; auto. rewrite H, IHl. reflexivity. Qed.

Lemma existsb_map_false {X} (f : X -> mop) (p : mop -> bool) l :
  (forall x, p (f x) = false) -> existsb p (map f l) = false.
Proof. intros H. induction l; simpl; auto. rewrite H, IHl. reflexivity. Qed.

Lemma existsb_app_false {X} (p : X -> bool) a b : existsb p a = false -> existsb p b = false -> existsb p (a ++ b) = false.
Proof. intros. rewrite existsb_app, H, H0. reflexivity. Qed.

Lemma work_drops l : forallb is_work (drops l) = true.
Proof. apply forallb_map. reflexivity. Qed.
Lemma norun_drops l : existsb runish (drops l) = false.
Proof. apply existsb_map_false. reflexivity. Qed.

Lemma work_slab_drops l : forallb is_work (slab_drops l) = true.
Proof. induction l as [|[c|n] l IH]; simpl; auto. Qed.
Lemma norun_slab_drops l : existsb runish (slab_drops l) = false.
Proof. induction l as [|[c|n] l IH]; simpl; auto. Qed.

Lemma work_map_dropitem l : forallb is_work (map MDropItem l) = true.
Proof. apply forallb_map. reflexivity. Qed.
Lemma norun_map_dropitem l : existsb runish (map MDropItem l) = false.
Proof. apply existsb_map_false. reflexivity. Qed.
Lemma work_map_runitem l : forallb is_work (map MRunItem l) = true.
Proof. apply forallb_map. reflexivity. Qed.

(* "all work, nothing run-only" *)
Definition quiet (l : list mop) : Prop := forallb is_work l = true /\ existsb runish l = false.

Lemma quiet_nil : quiet []. Proof. split; reflexivity. Qed.
Lemma quiet_app a b : quiet a -> quiet b -> quiet (a ++ b).
Proof. intros [A1 A2] [B1 B2]. split. rewrite forallb_app, A1, B1; reflexivity. apply existsb_app_false; auto. Qed.
Lemma quiet_cons m l : is_work m = true -> runish m = false -> quiet l -> quiet (m :: l).
Proof. intros A B [C D]. split; simpl; rewrite ?A, ?B, ?C, ?D; reflexivity. Qed.
Lemma quiet_drops l : quiet (drops l).
Proof. split; [apply work_drops | apply norun_drops]. Qed.
Lemma quiet_slab_drops l : quiet (slab_drops l).
Proof. split; [apply work_slab_drops | apply norun_slab_drops]. Qed.
Lemma quiet_map_dropitem l : quiet (map MDropItem l).
Proof. split; [apply work_map_dropitem | apply norun_map_dropitem]. Qed.

#[export] Hint Resolve quiet_nil quiet_app quiet_drops quiet_slab_drops quiet_map_dropitem : shape.

Ltac quiet_tac :=
  repeat first
    [ apply quiet_nil | apply quiet_drops | apply quiet_slab_drops | apply quiet_map_dropitem
    | apply quiet_app | (apply quiet_cons; [reflexivity | reflexivity | ]) ].

(* ------------------------------------------------------------------ *)
(** * What each handler pushes *)

Lemma state_drops_quiet a sa s l s' : state_drops a sa s = (l, s') -> quiet l.
Proof.
  unfold state_drops. destruct sa; intros E; inversion E; subst; clear E; quiet_tac.
Qed.

Lemma bind_quiet s h v l s' : bind s h v = (l, s') -> quiet l.
Proof. unfold bind. destruct (aget (env s) h); intros E; inversion E; subst; quiet_tac. Qed.

Lemma bad_quiet s c l s' : bad s c = (l, s') -> quiet l.
Proof. unfold bad. intros E; inversion E; subst; quiet_tac. Qed.

Ltac dest_match :=
  match goal with
  | |- context [match ?x with _ => _ end] => destruct x eqn:?
  | |- context [if ?x then _ else _] => destruct x eqn:?
  | |- context [let '(_, _) := ?x in _] => destruct x eqn:?
  end.

Ltac solve_quiet :=
  intros;
  match goal with
  | E : (_, _) = (_, _) |- _ => inversion E; subst; clear E; try solve [quiet_tac]
  | E : bind _ _ _ = (_, _) |- _ => eapply bind_quiet; exact E
  | E : bad _ _ = (_, _) |- _ => eapply bad_quiet; exact E
  | E : state_drops _ _ _ = (_, _) |- _ => eapply state_drops_quiet; exact E
  end.

Lemma do_act_quiet a s l s' : do_act a s = (l, s') -> quiet l.
Proof.
  unfold do_act. destruct a; repeat dest_match; try solve [solve_quiet].
Qed.

Lemma drop_item_quiet c s l s' : drop_item c s = (l, s') -> quiet l.
Proof. unfold drop_item. destruct c as [u i k caps q]; destruct k; intros E; inversion E; subst; quiet_tac. Qed.

Lemma ret_invoke_quiet r m s l s' : ret_invoke r m s = (l, s') -> quiet l.
Proof.
  unfold ret_invoke. destruct r as [rid k]. destruct k; repeat dest_match; try solve [solve_quiet].
Qed.

Lemma terminate_quiet a c s l s' : terminate a c s = (l, s') -> quiet l.
Proof.
  unfold terminate. repeat dest_match; intros E; inversion E; subst; clear E; try solve [quiet_tac];
  match goal with H : state_drops _ _ _ = (_, _) |- _ => apply state_drops_quiet in H end; quiet_tac; auto.
Qed.

Lemma drop_own_quiet a b s l s' : drop_own a b s = (l, s') -> quiet l.
Proof. unfold drop_own. repeat dest_match; try solve [solve_quiet]. Qed.

Lemma drop_ref_quiet a s l s' : drop_ref a s = (l, s') -> quiet l.
Proof.
  unfold drop_ref. repeat dest_match; intros E; inversion E; subst; clear E; try solve [quiet_tac];
  match goal with H : state_drops _ _ _ = (_, _) |- _ => apply state_drops_quiet in H end; quiet_tac; auto.
Qed.

Lemma drop_val_quiet v s l s' : drop_val v s = (l, s') -> quiet l.
Proof. unfold drop_val. destruct v; repeat dest_match; try solve [solve_quiet]. Qed.

(* running an item pushes work; run-only micro-ops may appear *)
Lemma run_item_work c s l s' : run_item c s = (l, s') -> forallb is_work l = true.
Proof.
  unfold run_item. destruct c as [u i k caps q]; destruct k; repeat dest_match;
    intros E; inversion E; subst; reflexivity.
Qed.

Lemma handle_work m s pre s' :
  is_work m = true -> handle m s = (pre, s') ->
  forallb is_work pre = true /\ (existsb runish pre = true -> runish m = true).
Proof.
  intros W H. destruct m; try discriminate W; simpl in H.
  - (* MActs *)
    destruct l as [|a l].
    + inversion H; subst. split; [reflexivity | discriminate].
    + destruct (do_act a s) as [p s1] eqn:E. inversion H; subst. apply do_act_quiet in E as [E1 E2].
      split. rewrite forallb_app, E1. reflexivity. rewrite existsb_app, E2. simpl. discriminate.
  - (* MPopFrame *)
    destruct (frames s); inversion H; subst; split; try reflexivity; try discriminate.
    apply work_drops. rewrite norun_drops. discriminate.
  - (* MEndBody *)
    split; [|reflexivity].
    destruct (frames s) as [|fr rest]; inversion H; subst; [reflexivity|].
    rewrite forallb_app, work_drops. destruct f; try reflexivity; destruct (f_die fr); try reflexivity;
    destruct ready; reflexivity.
  - (* MRunItem *) split; [eapply run_item_work; eauto | reflexivity].
  - apply drop_item_quiet in H as [A B]. split; auto. rewrite B; discriminate.
  - inversion H; subst. split. apply work_drops. rewrite norun_drops; discriminate.
  - apply drop_val_quiet in H as [A B]. split; auto. rewrite B; discriminate.
  - apply drop_own_quiet in H as [A B]. split; auto. rewrite B; discriminate.
  - apply drop_ref_quiet in H as [A B]. split; auto. rewrite B; discriminate.
  - apply ret_invoke_quiet in H as [A B]. split; auto. rewrite B; discriminate.
  - inversion H; subst. split; [reflexivity | discriminate].
  - inversion H; subst. split; [reflexivity | discriminate].
  - inversion H; subst. split; [reflexivity | discriminate].
  - inversion H; subst. split; [reflexivity | discriminate].
  - apply terminate_quiet in H as [A B]. split; auto. rewrite B; discriminate.
  - destruct (aget (actors s) a); inversion H; subst; split; try reflexivity; discriminate.
  - (* MToReady *)
    split; [|reflexivity].
    destruct (aget (actors s) a) as [x|]; [destruct (a_state x)|]; inversion H; subst; try reflexivity.
    apply work_map_runitem.
Qed.

(* ------------------------------------------------------------------ *)
(** * Preservation of the shape *)

Lemma phase_of_work w k : forallb is_work w = true -> phase_of (w ++ k) = phase_of k.
Proof. intros H. unfold phase_of. rewrite skip_work_app; auto. Qed.

Lemma shape_intro w k p :
  forallb is_work w = true -> phase_of k = Some p -> work_of k = [] ->
  (existsb runish w = true -> is_run p = true) -> shape (w ++ k).
Proof.
  intros W P K R. exists p. split. rewrite phase_of_work; auto.
  rewrite work_of_app, K, app_nil_r; auto.
Qed.

Lemma shape_quiet w k p : quiet w -> phase_of k = Some p -> work_of k = [] -> shape (w ++ k).
Proof. intros [A B] P K. eapply shape_intro; eauto. rewrite B. discriminate. Qed.

Lemma tops_work_of r : tops r = true -> work_of r = [].
Proof. destruct r as [|m r]; simpl; auto. intros H. apply andb_prop in H as [H _]. destruct m; try discriminate H; reflexivity. Qed.

Lemma tops_phase r : tops r = true -> phase_of r = Some PTop.
Proof.
  intros H. unfold phase_of. destruct r as [|m r]; simpl in *; auto.
  apply andb_prop in H as [H1 H2]. destruct m; try discriminate H1; simpl; rewrite H2; reflexivity.
Qed.

Lemma tops_skip r : tops r = true -> skip_work r = r.
Proof. destruct r as [|m r]; simpl; auto. intros H. apply andb_prop in H as [H _]. destruct m; try discriminate H; reflexivity. Qed.

Lemma shape_tops r : tops r = true -> shape r.
Proof. intros T. exists PTop. split. apply tops_phase; auto. rewrite (tops_work_of _ T). discriminate. Qed.

Lemma do_top_shape o s pre s' r :
  tops r = true -> do_top o s = (pre, s') -> shape (pre ++ r).
Proof.
  intros T H. unfold do_top in H. destruct o.
  - destruct (alive s); inversion H; subst; simpl; apply shape_tops; simpl; auto.
  - destruct (alive s); [|unfold bad in H]; inversion H; subst; simpl.
    + exists (PRunIdle idle t). unfold phase_of. simpl. rewrite Z.eqb_refl, T. split; [reflexivity|discriminate].
    + apply shape_tops; auto.
  - inversion H; subst.
    eapply shape_quiet; [quiet_tac | apply tops_phase; auto | apply tops_work_of; auto].
  - destruct (alive s); inversion H; subst; simpl.
    + exists (PDrain 0). unfold phase_of. simpl. rewrite T. split; [reflexivity|discriminate].
    + apply shape_tops; auto.
  - inversion H; subst; simpl. apply shape_tops; simpl; auto.
  - destruct (alive s); [|unfold bad in H]; inversion H; subst; simpl; apply shape_tops; auto.
  - destruct (alive s); [|unfold bad in H]; inversion H; subst; simpl; apply shape_tops; auto.
Qed.

Lemma shape_items_loop l t r :
  tops r = true -> shape (map MRunItem l ++ MLoop t :: r).
Proof.
  intros T. eapply shape_intro with (p := PLoop t).
  - apply work_map_runitem.
  - unfold phase_of. simpl. rewrite T. reflexivity.
  - reflexivity.
  - reflexivity.
Qed.

Theorem step_shape k s k' s' : shape k -> step k s = Some (k', s') -> shape k'.
Proof.
  intros [p [P R]] H. destruct k as [|m k0]; [discriminate|]. simpl in H.
  destruct (handle m s) as [pre s1] eqn:E. inversion H; subst; clear H.
  destruct (is_work m) eqn:W.
  - (* work *)
    destruct (handle_work _ _ _ _ W E) as [A B].
    exists p. split.
    + rewrite phase_of_work; auto. unfold phase_of in *. simpl in P. rewrite W in P. exact P.
    + rewrite work_of_app; auto. simpl in R. rewrite W in R. simpl in R.
      rewrite existsb_app. intros X. apply orb_prop in X as [X|X].
      * apply R. rewrite (B X). reflexivity.
      * apply R. rewrite X. apply orb_true_r.
  - (* phase or top micro-op at the head *)
    unfold phase_of in P. simpl in P. rewrite W in P.
    destruct m; try discriminate W; simpl in E.
    + (* MTop *)
      simpl in P. destruct (tops k0) eqn:T; [|discriminate]. eapply do_top_shape; eauto.
    + (* MNew *)
      simpl in P. destruct (tops k0) eqn:T; [|discriminate].
      inversion E; subst. eapply shape_quiet; [apply quiet_map_dropitem | apply tops_phase; auto | apply tops_work_of; auto].
    + (* MRunIdle *)
      destruct k0 as [|m1 k1]; [discriminate|]. destruct m1; try discriminate P.
      destruct k1 as [|m2 k2]; [discriminate|]. destruct m2; try discriminate P.
      destruct ((t =? t0) && tops k2) eqn:T; [|discriminate]. apply andb_prop in T as [T1 T2].
      assert (PH : phase_of (MRunMain t :: MLoop t0 :: k2) = Some (PRunMain t)).
      { unfold phase_of. simpl. rewrite T1, T2. reflexivity. }
      destruct idle; [destruct (idleq s)|]; inversion E; subst; simpl.
      * exists (PRunMain t); split; [exact PH | simpl; discriminate].
      * change (MRunItem c :: MRunMain t :: MLoop t0 :: k2) with ([MRunItem c] ++ MRunMain t :: MLoop t0 :: k2).
        eapply shape_intro; [reflexivity | exact PH | reflexivity | reflexivity].
      * exists (PRunMain t); split; [exact PH | simpl; discriminate].
    + (* MRunMain *)
      destruct k0 as [|m1 k1]; [discriminate|]. destruct m1; try discriminate P.
      destruct ((t =? t0) && tops k1) eqn:T; [|discriminate]. apply andb_prop in T as [T1 T2].
      destruct (t >? now s); inversion E; subst; apply shape_items_loop; auto.
    + (* MLoop *)
      destruct (tops k0) eqn:T; [|discriminate].
      destruct (mainq s) as [|c l] eqn:M.
      * destruct (lazyq s) as [|c l] eqn:L.
        -- inversion E; subst. simpl. apply shape_tops; auto.
        -- inversion E; subst.
           match goal with |- shape ?k => replace k with (map MRunItem (c :: l) ++ MLoop t :: k0)
             by (simpl; rewrite <- app_assoc; reflexivity) end.
           apply shape_items_loop; auto.
      * inversion E; subst.
        match goal with |- shape ?k => replace k with (map MRunItem (c :: l) ++ MLoop t :: k0)
          by (simpl; rewrite <- app_assoc; reflexivity) end.
        apply shape_items_loop; auto.
    + (* MDrain *)
      destruct (tops k0) eqn:T; [|discriminate].
      destruct (i >=? TEARDOWN_ROUNDS).
      * inversion E; subst. simpl. exists PFields. unfold phase_of. simpl. rewrite T. split; [reflexivity|discriminate].
      * destruct (mainq s) as [|c l] eqn:M; inversion E; subst.
        -- simpl. exists PFields. unfold phase_of. simpl. rewrite T. split; [reflexivity|discriminate].
        -- match goal with |- shape ?k => replace k with (map MDropItem (c :: l) ++ MDrain (i + 1) :: k0)
             by (simpl; rewrite <- app_assoc; reflexivity) end.
           eapply shape_quiet with (p := PDrain (i + 1)); [apply quiet_map_dropitem | | reflexivity].
           unfold phase_of. simpl. rewrite T. reflexivity.
    + (* MDropFields *)
      destruct (tops k0) eqn:T; [|discriminate].
      inversion E; subst. rewrite <- app_assoc. simpl.
      eapply shape_quiet with (p := PDropEnd); [apply quiet_map_dropitem | | reflexivity].
      unfold phase_of. simpl. rewrite T. reflexivity.
    + (* MDropEnd *)
      destruct (tops k0) eqn:T; [|discriminate].
      inversion E; subst. simpl. apply shape_tops; auto.
    + (* MDropAll *)
      simpl in P. destruct (tops k0) eqn:T; [|discriminate].
      destruct (amin (env s)) as [[h v]|]; inversion E; subst; simpl.
      * change (MDropVal v :: MDropAll :: k0) with ([MDropVal v] ++ MDropAll :: k0).
        eapply shape_quiet; [quiet_tac | apply tops_phase; simpl; auto | apply tops_work_of; simpl; auto].
      * apply shape_tops; auto.
    + (* MEpilogue *)
      simpl in P. destruct (tops k0) eqn:T; [|discriminate].
      inversion E; subst. simpl. apply shape_tops; simpl; auto.
    + (* MLeaks *)
      simpl in P. destruct (tops k0) eqn:T; [|discriminate].
      inversion E; subst. simpl. apply shape_tops; auto.
Qed.

Lemma shape_init p : shape (map MTop p ++ [MEpilogue]).
Proof.
  apply shape_tops. unfold tops. rewrite forallb_app. simpl. rewrite andb_true_r. induction p; simpl; auto.
Qed.
