(** Layer R proofs: C03, monitor K (cause): the cause notified is the first stop / fail of the body that asked for it,
    a kill that was requested, or Dropped; the value of an actor is not dropped while one of its methods runs. *)
From Coq Require Import ZArith NArith List Bool Lia.
From Stk Require Import Lib.U Gen.SrcCount Gen.SrcCore Gen.SrcLog R.Syntax R.Rt R.Mon R.Shape R.Eff R.Tags R.Mono R.C15Proofs R.Count.
From Stk Require Import R.Nest R.C20Proofs R.Calls R.CallInv.
From Stk Require Import R.Lin R.LinAct R.LinLaw R.LinStep R.LinEvs R.LinTail R.LinLive R.LinNin R.LinDel R.LinBody R.LinC05A R.LinC05Core R.LinC05B.
From Stk Require Import R.LinC03Mon R.LinC03L.
Import ListNotations.
Local Open Scope Z_scope.

(* ------------------------------------------------------------------ *)
(** * The hypothesis on the trace: no cell is freed while one of its own methods runs *)

Definition stepF (b : option N) (e : ev) : option (option N) :=
  match e with
  | EMeth a _ _ | EPrep a _ _ => Some (Some a)
  | ERun _ _ _ | EEnd _ => Some None
  | EModel c a => if N.eqb c M_FREE_ACTOR && match b with Some x => N.eqb x a | None => false end then None else Some b
  | _ => Some b
  end.

Definition okF (t : list ev) : bool := fold_mon stepF (fun _ => true) None t.

(* ------------------------------------------------------------------ *)
(** * The dies of the frames *)

Definition fd (f : frame) : ctx * option cause := (f_ctx f, f_die f).
Definition dies (s : st) : list (ctx * option cause) := map fd (frames s).

Lemma dies_emit s e : dies (emit s e) = dies s. Proof. reflexivity. Qed.
Lemma dies_push_main s c : dies (push_main s c) = dies s. Proof. reflexivity. Qed.
Lemma dies_upd_actor s a x : dies (upd_actor s a x) = dies s. Proof. reflexivity. Qed.
Lemma dies_push_frame s c l : dies (push_frame s c l) = (c, None) :: dies s. Proof. reflexivity. Qed.
Lemma dies_submit s q c : dies (submit s q c) = dies s. Proof. unfold submit. destruct q; reflexivity. Qed.
Lemma dies_timer_add s k v t c : dies (timer_add s k v t c) = dies s. Proof. reflexivity. Qed.
Lemma dies_set_alive s v : dies (set_alive s v) = dies s. Proof. reflexivity. Qed.
Lemma dies_set_now s v : dies (set_now s v) = dies s. Proof. reflexivity. Qed.
Lemma dies_set_start s v : dies (set_start s v) = dies s. Proof. reflexivity. Qed.
Lemma dies_set_mainq s v : dies (set_mainq s v) = dies s. Proof. reflexivity. Qed.
Lemma dies_set_lazyq s v : dies (set_lazyq s v) = dies s. Proof. reflexivity. Qed.
Lemma dies_set_idleq s v : dies (set_idleq s v) = dies s. Proof. reflexivity. Qed.
Lemma dies_set_timers s v : dies (set_timers s v) = dies s. Proof. reflexivity. Qed.
Lemma dies_set_tnext s v : dies (set_tnext s v) = dies s. Proof. reflexivity. Qed.
Lemma dies_set_tvars s v : dies (set_tvars s v) = dies s. Proof. reflexivity. Qed.
Lemma dies_set_recreate s v : dies (set_recreate s v) = dies s. Proof. reflexivity. Qed.
Lemma dies_set_actors s v : dies (set_actors s v) = dies s. Proof. reflexivity. Qed.
Lemma dies_set_fwds s v : dies (set_fwds s v) = dies s. Proof. reflexivity. Qed.
Lemma dies_set_env s v : dies (set_env s v) = dies s. Proof. reflexivity. Qed.
Lemma dies_set_nuid s v : dies (set_nuid s v) = dies s. Proof. reflexivity. Qed.
Lemma dies_set_logseq s v : dies (set_logseq s v) = dies s. Proof. reflexivity. Qed.
Lemma dies_set_logfilter s v : dies (set_logfilter s v) = dies s. Proof. reflexivity. Qed.
Lemma dies_set_haslogger s v : dies (set_haslogger s v) = dies s. Proof. reflexivity. Qed.
Lemma dies_set_shut s v : dies (set_shut s v) = dies s. Proof. reflexivity. Qed.
Lemma dies_ref_clone s a : dies (ref_clone s a) = dies s.
Proof. unfold ref_clone. destruct (aget (actors s) a) as [y|]; [destruct (a_freed y)|]; reflexivity. Qed.
Lemma dies_log_rec s a b c d : dies (log_rec s a b c d) = dies s.
Proof. unfold log_rec. destruct (allows s b && haslogger s); reflexivity. Qed.
Lemma dies_target_ev s ci : dies (target_ev s ci) = dies s.
Proof. unfold target_ev. destruct ci as [u i kd caps q]. destruct kd; reflexivity. Qed.
Lemma dies_new_actor s a nt p v : dies (new_actor s a nt p v) = dies s.
Proof. unfold new_actor, log_rec. destruct (allows _ _ && haslogger _); destruct v; reflexivity. Qed.
Lemma dies_take s h o s' : take s h = (o, s') -> dies s' = dies s.
Proof.
  unfold take, dies. destruct (frames s) as [|fr rest] eqn:F.
  - destruct (aget (env s) h); intros Q; inversion Q; subst; simpl; rewrite ?F; reflexivity.
  - destruct (aget (f_loc fr) h); [intros Q; inversion Q; subst; reflexivity|].
    destruct (aget (env s) h); intros Q; inversion Q; subst; simpl; rewrite ?F; reflexivity.
Qed.
Lemma dies_take_caps ids : forall s l s', take_caps ids s = (l, s') -> dies s' = dies s.
Proof.
  induction ids as [|h r IH]; simpl; intros s l s' E.
  - inversion E; reflexivity.
  - destruct (take s h) as [[v|] s1] eqn:T.
    + destruct (take_caps r s1) as [l2 s2] eqn:T2. inversion E; subst. rewrite (IH _ _ _ T2). eapply dies_take; eauto.
    + rewrite (IH _ _ _ E). eapply dies_take; eauto.
Qed.
Lemma dies_take_env_caps ids : forall s l s', take_env_caps ids s = (l, s') -> dies s' = dies s.
Proof.
  induction ids as [|h r IH]; simpl; intros s l s' E.
  - inversion E; reflexivity.
  - destruct (aget (env s) h).
    + destruct (take_env_caps r (set_env s (adel (env s) h))) as [l2 s2] eqn:T2. inversion E; subst. rewrite (IH _ _ _ T2). reflexivity.
    + eapply IH; eauto.
Qed.
Lemma dies_bind s h v l s' : bind s h v = (l, s') -> dies s' = dies s.
Proof. unfold bind. destruct (aget (env s) h); intros Q; inversion Q; reflexivity. Qed.
Lemma dies_bad s c l s' : bad s c = (l, s') -> dies s' = dies s.
Proof. unfold bad. intros Q; inversion Q; reflexivity. Qed.
Lemma dies_inst c mk s ci s' : inst c mk s = (ci, s') -> dies s' = dies s.
Proof.
  unfold inst. destruct (take_caps (clo_caps c) s) as [caps s1] eqn:T. intros Q; inversion Q; subst.
  rewrite dies_emit, dies_set_nuid. eapply dies_take_caps; eauto.
Qed.
Lemma dies_inst_call c mk s ci s' : inst_call c mk s = (ci, s') -> dies s' = dies s.
Proof.
  unfold inst_call. destruct (inst c mk s) as [ci1 s1] eqn:I. intros Q; inversion Q; subst. rewrite dies_target_ev. eapply dies_inst; eauto.
Qed.
Lemma dies_inst_nocaps c mk s ci s' : inst_nocaps c mk s = (ci, s') -> dies s' = dies s.
Proof. unfold inst_nocaps. intros Q; inversion Q; reflexivity. Qed.
Lemma dies_tok_script script : forall s, dies (tok_script s script) = dies s.
Proof.
  unfold tok_script. induction script as [|c r IH]; intros s; [reflexivity|]. cbn [fold_left].
  destruct (inst_env c KPlain s) as [ci s1] eqn:I. rewrite IH, dies_submit.
  unfold inst_env in I. destruct (take_env_caps (clo_caps c) s) as [caps s2] eqn:T. inversion I; subst.
  rewrite dies_emit, dies_set_nuid. eapply dies_take_env_caps; eauto.
Qed.
Lemma dies_mk_notifier s a n r s' : mk_notifier s a n = (r, s') -> dies s' = dies s.
Proof.
  unfold mk_notifier. destruct n as [[hp c]|].
  - destruct (lookup s hp) as [v|]; [destruct (handle_actor v) as [p|]|].
    + destruct (inst_call c (fun b => KMeth p b None) (ref_clone s p)) as [ci s2] eqn:I.
      intros Q; inversion Q; subst. rewrite (dies_inst_call _ _ _ _ _ I). apply dies_ref_clone.
    + intros Q; inversion Q; subst. reflexivity.
    + intros Q; inversion Q; subst. reflexivity.
  - intros Q; inversion Q; subst. reflexivity.
Qed.

Ltac dies_rw :=
  repeat first
    [ rewrite dies_emit | rewrite dies_push_main | rewrite dies_upd_actor | rewrite dies_submit | rewrite dies_timer_add
    | rewrite dies_ref_clone | rewrite dies_log_rec | rewrite dies_target_ev | rewrite dies_new_actor | rewrite dies_tok_script
    | rewrite dies_set_alive
    | rewrite dies_set_now
    | rewrite dies_set_start
    | rewrite dies_set_mainq
    | rewrite dies_set_lazyq
    | rewrite dies_set_idleq
    | rewrite dies_set_timers
    | rewrite dies_set_tnext
    | rewrite dies_set_tvars
    | rewrite dies_set_recreate
    | rewrite dies_set_actors
    | rewrite dies_set_fwds
    | rewrite dies_set_env
    | rewrite dies_set_nuid
    | rewrite dies_set_logseq
    | rewrite dies_set_logfilter
    | rewrite dies_set_haslogger
    | rewrite dies_set_shut
    | match goal with
      | H : take _ _ = (_, ?s') |- context [dies ?s'] => rewrite (dies_take _ _ _ _ H)
      | H : take_caps _ _ = (_, ?s') |- context [dies ?s'] => rewrite (dies_take_caps _ _ _ _ H)
      | H : bind _ _ _ = (_, ?s') |- context [dies ?s'] => rewrite (dies_bind _ _ _ _ _ H)
      | H : bad _ _ = (_, ?s') |- context [dies ?s'] => rewrite (dies_bad _ _ _ _ H)
      | H : inst _ _ _ = (_, ?s') |- context [dies ?s'] => rewrite (dies_inst _ _ _ _ _ H)
      | H : inst_call _ _ _ = (_, ?s') |- context [dies ?s'] => rewrite (dies_inst_call _ _ _ _ _ H)
      | H : inst_nocaps _ _ _ = (_, ?s') |- context [dies ?s'] => rewrite (dies_inst_nocaps _ _ _ _ _ H)
      | H : mk_notifier _ _ _ = (_, ?s') |- context [dies ?s'] => rewrite (dies_mk_notifier _ _ _ _ _ H)
      end ].

(* ------------------------------------------------------------------ *)
(** * Events and the monitors K, F over neutral blocks *)

Definition pbK (e : ev) : bool :=
  match e with
  | EReq _ _ | EMeth _ _ _ | EPrep _ _ _ | ERun _ _ _ | EEnd _ | ENotify _ _ | EValDrop _ => false
  | EModel c _ => negb (N.eqb c M_FREE_ACTOR)
  | _ => true
  end.

Lemma stepK_neutral m e : pbK e = true -> stepK m e = Some m.
Proof. destruct e; simpl; try discriminate; auto. Qed.
Lemma stepF_neutral b e : pbK e = true -> stepF b e = Some b.
Proof. destruct e; simpl; try discriminate; auto. intros H. apply negb_true_iff in H. rewrite H. reflexivity. Qed.

Lemma monK_block evs : forall t m, forallb pbK evs = true -> monr stepK iK t = Some m -> monr stepK iK (evs ++ t) = Some m.
Proof.
  induction evs as [|e l IH]; simpl; intros t m F M; auto. apply andb_prop in F as [F1 F2].
  rewrite (IH t m F2 M). apply stepK_neutral; auto.
Qed.
Lemma monF_block evs : forall t b, forallb pbK evs = true -> monr stepF None t = Some b -> monr stepF None (evs ++ t) = Some b.
Proof.
  induction evs as [|e l IH]; simpl; intros t b F M; auto. apply andb_prop in F as [F1 F2].
  rewrite (IH t b F2 M). apply stepF_neutral; auto.
Qed.

Lemma pbK_req evs a c : forallb pbK evs = true -> ~ In (EReq a c) evs.
Proof. intros F IN. rewrite forallb_forall in F. specialize (F _ IN). discriminate. Qed.

(* ------------------------------------------------------------------ *)
(** * Notifiers of the existing cells stay or are taken *)

Definition nmono (s s' : st) : Prop :=
  forall a x, aget (actors s) a = Some x -> exists x', aget (actors s') a = Some x' /\ (a_notify x' = a_notify x \/ a_notify x' = None).

Lemma nmono_refl s : nmono s s. Proof. intros a x H. exists x. auto. Qed.
Lemma nmono_trans a b c : nmono a b -> nmono b c -> nmono a c.
Proof.
  intros A B x y H. destruct (A _ _ H) as (y1 & G1 & C1). destruct (B _ _ G1) as (y2 & G2 & C2). exists y2. split; auto.
  destruct C2 as [C2|C2]; [|right; exact C2]. destruct C1 as [C1|C1]; [left | right]; congruence.
Qed.
Lemma amono_nmono s s' : amono s s' -> nmono s s'.
Proof. intros [A _] a x H. destruct (A _ _ H) as (x' & G & [[_ N]|[_ N]]); exists x'; auto. Qed.
Lemma nmono_same s s' : actors s' = actors s -> nmono s s'.
Proof. intros E a x H. rewrite E. exists x. auto. Qed.
Lemma nmono_new_actor s a nt p v : aget (actors s) a = None -> nmono s (new_actor s a nt p v).
Proof.
  intros AN b x H. assert (NE : a <> b) by (intros ->; congruence). exists x. rewrite (new_actor_other _ _ _ _ _ _ NE). auto.
Qed.

Lemma ei_ref_clone_K s0 s a : evs_in pbK s0 s -> evs_in pbK s0 (ref_clone s a).
Proof.
  intros H. unfold ref_clone. destruct (aget (actors s) a) as [x|].
  - destruct (a_freed x); (eapply ei_same; [|reflexivity]); [apply ei_emit; [exact H | reflexivity] | exact H].
  - apply ei_emit; [exact H | reflexivity].
Qed.

Ltac eiK := repeat first [ apply ei_ref_clone_K | ei_step ].

Definition is_endb (m : mop) : bool := match m with MEndBody _ _ => true | _ => false end.

Lemma endb_app a b : existsb is_endb (a ++ b) = existsb is_endb a || existsb is_endb b.
Proof. apply existsb_app. Qed.
Lemma endb_drops l : existsb is_endb (drops l) = false.
Proof. unfold drops. induction l; simpl; auto. Qed.
Lemma endb_slab_drops l : existsb is_endb (slab_drops l) = false.
Proof. induction l as [|[c|n] l IH]; simpl; auto. Qed.
Lemma endb_dropitems l : existsb is_endb (map MDropItem l) = false.
Proof. induction l; simpl; auto. Qed.
Lemma endb_runitems l : existsb is_endb (map MRunItem l) = false.
Proof. induction l; simpl; auto. Qed.
Lemma bind_endb s h v l s' : bind s h v = (l, s') -> existsb is_endb l = false /\ existsb dly l = false.
Proof. unfold bind. destruct (aget (env s) h); intros Q; inversion Q; split; reflexivity. Qed.
Lemma bad_endb s c l s' : bad s c = (l, s') -> existsb is_endb l = false /\ existsb dly l = false.
Proof. unfold bad. intros Q; inversion Q; split; reflexivity. Qed.

Ltac endb_tac :=
  first [ reflexivity
        | (eapply bind_endb; eassumption)
        | (eapply bad_endb; eassumption)
        | (cbn [map app existsb is_endb dly orb]; rewrite ?endb_app, ?endb_drops, ?endb_slab_drops, ?endb_dropitems, ?endb_runitems,
             ?dly_app, ?dly_drops, ?dly_slab_drops, ?dly_dropitems, ?dly_runitems; reflexivity) ].

Definition noncx (c : ctx) : Prop := match c with XCx _ _ => False | _ => True end.

Definition dstep (s s' : st) : Prop :=
  dies s' = dies s \/ (exists c, noncx c /\ dies s' = (c, None) :: dies s) \/ exists d, dies s = d :: dies s'.

Ltac dies_tac :=
  first [ left; dies_rw; reflexivity
        | right; left; eexists; split; cycle 1; [dies_rw; rewrite ?dies_push_frame; dies_rw; reflexivity | simpl; try (destruct (alive _)); exact I] ].

Definition specialK_act (a : act) : bool :=
  match a with
  | AStop | AFail _ | AKill _ _ | AKillAsync _ _ | ANewActor _ _ _ | ASlabAdd _ _ _ | AStore _ => true
  | _ => false
  end.

Ltac inj_pairK Q :=
  match type of Q with
  | (_, _) = (_, _) => injection Q as ? ?; subst
  | _ => idtac
  end.

Ltac passK := intros Q; inj_pairK Q; (split; [eiK | split; [apply amono_nmono; am_tac | split; [endb_tac | split; [endb_tac | dies_tac]]]]).

Lemma do_act_K a s pre s' : do_act a s = (pre, s') -> specialK_act a = false ->
  evs_in pbK s s' /\ nmono s s' /\ existsb is_endb pre = false /\ existsb dly pre = false /\ dstep s s'.
Proof.
  intros H SP. destruct a; try discriminate SP; clear SP; revert H; unfold do_act; repeat dest_match; passK.
Qed.

Lemma mk_notifier_K s a n nt s1 : mk_notifier s a n = (nt, s1) -> evs_in pbK s s1 /\ nmono s s1 /\ dies s1 = dies s.
Proof.
  intros H. split; [|split; [|eapply dies_mk_notifier; eauto]].
  - revert H. unfold mk_notifier. destruct n as [[hp c]|].
    + destruct (lookup s hp) as [v|]; [destruct (handle_actor v) as [p|]|].
      * destruct (inst_call c (fun b => KMeth p b None) (ref_clone s p)) as [ci s2] eqn:I. intros Q; inversion Q; subst. eiK.
      * intros Q; inversion Q; subst. eiK.
      * intros Q; inversion Q; subst. eiK.
    + intros Q; inversion Q; subst. eiK.
  - apply amono_nmono. eapply mk_notifier_am; eauto.
Qed.

Lemma ei_new_actor_K s0 s a nt p v : evs_in pbK s0 s -> evs_in pbK s0 (new_actor s a nt p v).
Proof. intros H. apply ei_new_actor; auto; intros; reflexivity. Qed.

(* the acts that create an actor or store a handle: no event of the cause monitor, notifiers of existing cells untouched *)
Lemma do_act_K2 a s pre s' : do_act a s = (pre, s') ->
  match a with ANewActor _ _ _ | ASlabAdd _ _ _ | AStore _ => True | _ => False end ->
  evs_in pbK s s' /\ nmono s s' /\ existsb is_endb pre = false /\ existsb dly pre = false /\ dstep s s'.
Proof.
  intros DA SP.
  assert (BAD : forall n, bad s n = (pre, s') -> evs_in pbK s s' /\ nmono s s' /\ existsb is_endb pre = false /\ existsb dly pre = false /\ dstep s s').
  { intros n Q. unfold bad in Q. inversion Q; subst. split; [eiK | split; [apply nmono_same; reflexivity | split; [reflexivity | split; [reflexivity | left; reflexivity]]]]. }
  destruct a; try contradiction; unfold do_act in DA.
  - (* ANewActor *)
    destruct (has_core s); [|apply (BAD 10%N); auto]. destruct (aget (actors s) a) as [y|] eqn:A; [apply (BAD 10%N); auto|].
    destruct (mk_notifier s a n) as [nt s1] eqn:MK. destruct (mk_notifier_K _ _ _ _ _ MK) as (EV1 & NM1 & D1).
    assert (A1 : aget (actors s1) a = None) by (eapply mk_notifier_none; eauto).
    split; [eapply ei_bind; [apply ei_new_actor_K; exact EV1 | exact DA]|].
    split; [eapply nmono_trans; [exact NM1|]; eapply nmono_trans; [apply nmono_new_actor; exact A1 | apply nmono_same; exact (bind_actors _ _ _ _ _ DA)]|].
    split; [eapply bind_endb; eauto|]. split; [eapply bind_endb; eauto|].
    left. rewrite (dies_bind _ _ _ _ _ DA), dies_new_actor. exact D1.
  - (* AStore *)
    destruct (cur_ctx s) as [|a prep|] eqn:CX; try (apply (BAD 21%N); auto; fail).
    destruct prep; [apply (BAD 21%N); auto|].
    destruct (aget (actors s) a) as [x|] eqn:A; [|apply (BAD 21%N); auto].
    destruct (a_state x) as [|sh slab nx|] eqn:SA; try (apply (BAD 21%N); auto; fail).
    destruct (take s h) as [[v|] s1] eqn:T; inversion DA; subst pre s'.
    + split; [eiK|]. split.
      * intros b y H. rewrite aget_upd. rewrite (take_actors _ _ _ _ T). destruct (N.eqb a b) eqn:Q.
        -- apply N.eqb_eq in Q. subst b. rewrite A in H. inversion H; subst y. eexists. split; [reflexivity | left; reflexivity].
        -- exists y. auto.
      * split; [reflexivity|]. split; [reflexivity|]. left. rewrite dies_upd_actor. eapply dies_take; eauto.
    + split; [eiK|]. split; [apply nmono_same; eapply take_actors; eauto|]. split; [reflexivity|]. split; [reflexivity|].
      left. eapply dies_take; eauto.
  - (* ASlabAdd *)
    destruct (cur_ctx s) as [|a1 prep|] eqn:CX; try (apply (BAD 22%N); auto; fail).
    destruct prep; [apply (BAD 22%N); auto|]. destruct (alive s); [|apply (BAD 22%N); auto].
    destruct (aget (actors s) a1) as [px|] eqn:AP; [|apply (BAD 22%N); auto].
    destruct (aget (actors s) a) as [y|] eqn:A; [apply (BAD 22%N); auto|].
    destruct (a_state px) as [|sh slab nx|] eqn:SP1; try (apply (BAD 22%N); auto; fail).
    destruct (mk_notifier s a n) as [inner s1] eqn:MK. destruct (mk_notifier_K _ _ _ _ _ MK) as (EV1 & NM1 & D1).
    destruct (slab_insert slab nx a) as [[slab' nx'] key] eqn:SI. cbv zeta in DA.
    assert (A1 : aget (actors (ref_clone s1 a1)) a = None) by (apply ref_clone_none; eapply mk_notifier_none; eauto).
    set (s3 := new_actor (ref_clone s1 a1) a (Ret a (RKSlab a1 key inner)) (a_logid px) false) in *.
    set (s4 := ref_clone s3 a) in *.
    assert (EV4 : evs_in pbK s s4) by (unfold s4, s3; apply ei_ref_clone_K, ei_new_actor_K, ei_ref_clone_K; exact EV1).
    assert (NM4 : nmono s s4).
    { eapply nmono_trans; [exact NM1|]. eapply nmono_trans; [apply amono_nmono; apply amono_ref_clone|].
      eapply nmono_trans; [apply nmono_new_actor; exact A1|]. apply amono_nmono. apply amono_ref_clone. }
    assert (D4 : dies s4 = dies s) by (unfold s4, s3; rewrite dies_ref_clone, dies_new_actor, dies_ref_clone; exact D1).
    split; [|split; [|split; [eapply bind_endb; eauto | split; [eapply bind_endb; eauto|]]]].
    + eapply ei_bind; [|exact DA]. apply ei_emit; [|reflexivity]. destruct (aget (actors s4) a1); [apply (ei_same _ _ s4); [exact EV4 | reflexivity] | exact EV4].
    + eapply nmono_trans; [|apply nmono_same; exact (bind_actors _ _ _ _ _ DA)].
      eapply nmono_trans; [|apply nmono_same; apply actors_emit]. eapply nmono_trans; [exact NM4|].
      destruct (aget (actors s4) a1) as [px'|] eqn:AP2; [|apply nmono_refl].
      intros b x H. rewrite aget_upd. destruct (N.eqb a1 b) eqn:Q.
      * apply N.eqb_eq in Q. subst b. rewrite AP2 in H. inversion H; subst x. eexists. split; [reflexivity | left; reflexivity].
      * exists x. auto.
    + left. rewrite (dies_bind _ _ _ _ _ DA), dies_emit. destruct (aget (actors s4) a1); [rewrite dies_upd_actor|]; exact D4.
Qed.

(* ------------------------------------------------------------------ *)
(** * The internal kill items of the main queue *)

Definition iskill (c : citem) : bool := match ci_kind c with KKill _ _ => true | _ => false end.
Definition kl (s : st) : list citem := filter iskill (mainq s).

Lemma iskill_setq c q : iskill (ci_setq c q) = iskill c. Proof. destruct c; reflexivity. Qed.
Lemma kl_push_main s c : kl (push_main s c) = kl s ++ (if iskill c then [c] else []).
Proof. unfold kl, push_main. cbn [mainq set_mainq]. rewrite filter_app. cbn [filter]. destruct (iskill c); reflexivity. Qed.
Lemma kl_push_main_nk s c : iskill c = false -> kl (push_main s c) = kl s.
Proof. intros H. rewrite kl_push_main, H, app_nil_r. reflexivity. Qed.
Lemma kl_push_frame s c l : kl (push_frame s c l) = kl s. Proof. reflexivity. Qed.
Lemma kl_set_frames s v : kl (set_frames s v) = kl s. Proof. reflexivity. Qed.
Lemma kl_submit s q c : iskill c = false -> kl (submit s q c) = kl s.
Proof.
  intros H. unfold submit. destruct q; try reflexivity. rewrite kl_push_main_nk; [reflexivity | rewrite iskill_setq; exact H].
Qed.
Lemma inst_kind c mk s ci s' : inst c mk s = (ci, s') -> ci_kind ci = mk (clo_body c).
Proof. unfold inst. destruct (take_caps (clo_caps c) s). intros Q; inversion Q; reflexivity. Qed.
Lemma inst_call_kind c mk s ci s' : inst_call c mk s = (ci, s') -> ci_kind ci = mk (clo_body c).
Proof. unfold inst_call. destruct (inst c mk s) as [ci1 s1] eqn:I. intros Q; inversion Q; subst. eapply inst_kind; eauto. Qed.
Lemma inst_nocaps_kind c mk s ci s' : inst_nocaps c mk s = (ci, s') -> ci_kind ci = mk (clo_body c).
Proof. unfold inst_nocaps. intros Q; inversion Q; reflexivity. Qed.
Lemma iskill_as_call a ci n : iskill (as_call a ci n) = false. Proof. destruct ci; reflexivity. Qed.

Ltac nokill_tac :=
  first [ reflexivity
        | apply iskill_as_call
        | match goal with
          | H : inst _ _ _ = (?ci, _) |- iskill ?ci = false => unfold iskill; rewrite (inst_kind _ _ _ _ _ H); reflexivity
          | H : inst_call _ _ _ = (?ci, _) |- iskill ?ci = false => unfold iskill; rewrite (inst_call_kind _ _ _ _ _ H); reflexivity
          | H : inst_nocaps _ _ _ = (?ci, _) |- iskill ?ci = false => unfold iskill; rewrite (inst_nocaps_kind _ _ _ _ _ H); reflexivity
          end ].

Lemma kl_emit s e : kl (emit s e) = kl s. Proof. reflexivity. Qed.
Lemma kl_upd_actor s a x : kl (upd_actor s a x) = kl s. Proof. reflexivity. Qed.
Lemma kl_timer_add s k v t c : kl (timer_add s k v t c) = kl s. Proof. reflexivity. Qed.
Lemma kl_set_alive s v : kl (set_alive s v) = kl s. Proof. reflexivity. Qed.
Lemma kl_set_now s v : kl (set_now s v) = kl s. Proof. reflexivity. Qed.
Lemma kl_set_start s v : kl (set_start s v) = kl s. Proof. reflexivity. Qed.
Lemma kl_set_lazyq s v : kl (set_lazyq s v) = kl s. Proof. reflexivity. Qed.
Lemma kl_set_idleq s v : kl (set_idleq s v) = kl s. Proof. reflexivity. Qed.
Lemma kl_set_timers s v : kl (set_timers s v) = kl s. Proof. reflexivity. Qed.
Lemma kl_set_tnext s v : kl (set_tnext s v) = kl s. Proof. reflexivity. Qed.
Lemma kl_set_tvars s v : kl (set_tvars s v) = kl s. Proof. reflexivity. Qed.
Lemma kl_set_recreate s v : kl (set_recreate s v) = kl s. Proof. reflexivity. Qed.
Lemma kl_set_actors s v : kl (set_actors s v) = kl s. Proof. reflexivity. Qed.
Lemma kl_set_fwds s v : kl (set_fwds s v) = kl s. Proof. reflexivity. Qed.
Lemma kl_set_env s v : kl (set_env s v) = kl s. Proof. reflexivity. Qed.
Lemma kl_set_nuid s v : kl (set_nuid s v) = kl s. Proof. reflexivity. Qed.
Lemma kl_set_logseq s v : kl (set_logseq s v) = kl s. Proof. reflexivity. Qed.
Lemma kl_set_logfilter s v : kl (set_logfilter s v) = kl s. Proof. reflexivity. Qed.
Lemma kl_set_haslogger s v : kl (set_haslogger s v) = kl s. Proof. reflexivity. Qed.
Lemma kl_set_shut s v : kl (set_shut s v) = kl s. Proof. reflexivity. Qed.
Lemma kl_ref_clone s a : kl (ref_clone s a) = kl s.
Proof. unfold ref_clone. destruct (aget (actors s) a) as [y|]; [destruct (a_freed y)|]; reflexivity. Qed.
Lemma kl_log_rec s a b c d : kl (log_rec s a b c d) = kl s.
Proof. unfold log_rec. destruct (allows s b && haslogger s); reflexivity. Qed.
Lemma kl_target_ev s ci : kl (target_ev s ci) = kl s.
Proof. unfold target_ev. destruct ci as [u i kd caps q]. destruct kd; reflexivity. Qed.
Lemma kl_new_actor s a nt p v : kl (new_actor s a nt p v) = kl s.
Proof. unfold new_actor, log_rec. destruct (allows _ _ && haslogger _); destruct v; reflexivity. Qed.
Lemma kl_take s h o s' : take s h = (o, s') -> kl s' = kl s.
Proof.
  unfold take, kl. destruct (frames s) as [|fr rest] eqn:F.
  - destruct (aget (env s) h); intros Q; inversion Q; subst; simpl; rewrite ?F; reflexivity.
  - destruct (aget (f_loc fr) h); [intros Q; inversion Q; subst; reflexivity|].
    destruct (aget (env s) h); intros Q; inversion Q; subst; simpl; rewrite ?F; reflexivity.
Qed.
Lemma kl_take_caps ids : forall s l s', take_caps ids s = (l, s') -> kl s' = kl s.
Proof.
  induction ids as [|h r IH]; simpl; intros s l s' E.
  - inversion E; reflexivity.
  - destruct (take s h) as [[v|] s1] eqn:T.
    + destruct (take_caps r s1) as [l2 s2] eqn:T2. inversion E; subst. rewrite (IH _ _ _ T2). eapply kl_take; eauto.
    + rewrite (IH _ _ _ E). eapply kl_take; eauto.
Qed.
Lemma kl_take_env_caps ids : forall s l s', take_env_caps ids s = (l, s') -> kl s' = kl s.
Proof.
  induction ids as [|h r IH]; simpl; intros s l s' E.
  - inversion E; reflexivity.
  - destruct (aget (env s) h).
    + destruct (take_env_caps r (set_env s (adel (env s) h))) as [l2 s2] eqn:T2. inversion E; subst. rewrite (IH _ _ _ T2). reflexivity.
    + eapply IH; eauto.
Qed.
Lemma kl_bind s h v l s' : bind s h v = (l, s') -> kl s' = kl s.
Proof. unfold bind. destruct (aget (env s) h); intros Q; inversion Q; reflexivity. Qed.
Lemma kl_bad s c l s' : bad s c = (l, s') -> kl s' = kl s.
Proof. unfold bad. intros Q; inversion Q; reflexivity. Qed.
Lemma kl_inst c mk s ci s' : inst c mk s = (ci, s') -> kl s' = kl s.
Proof.
  unfold inst. destruct (take_caps (clo_caps c) s) as [caps s1] eqn:T. intros Q; inversion Q; subst.
  rewrite kl_emit, kl_set_nuid. eapply kl_take_caps; eauto.
Qed.
Lemma kl_inst_call c mk s ci s' : inst_call c mk s = (ci, s') -> kl s' = kl s.
Proof.
  unfold inst_call. destruct (inst c mk s) as [ci1 s1] eqn:I. intros Q; inversion Q; subst. rewrite kl_target_ev. eapply kl_inst; eauto.
Qed.
Lemma kl_inst_nocaps c mk s ci s' : inst_nocaps c mk s = (ci, s') -> kl s' = kl s.
Proof. unfold inst_nocaps. intros Q; inversion Q; reflexivity. Qed.
Lemma kl_tok_script script : forall s, kl (tok_script s script) = kl s.
Proof.
  unfold tok_script. induction script as [|c r IH]; intros s; [reflexivity|]. cbn [fold_left].
  destruct (inst_env c KPlain s) as [ci s1] eqn:I. rewrite IH.
  unfold inst_env in I. destruct (take_env_caps (clo_caps c) s) as [caps s2] eqn:T. inversion I; subst.
  rewrite kl_submit by reflexivity. rewrite kl_emit, kl_set_nuid. eapply kl_take_env_caps; eauto.
Qed.
Lemma kl_mk_notifier s a n r s' : mk_notifier s a n = (r, s') -> kl s' = kl s.
Proof.
  unfold mk_notifier. destruct n as [[hp c]|].
  - destruct (lookup s hp) as [v|]; [destruct (handle_actor v) as [p|]|].
    + destruct (inst_call c (fun b => KMeth p b None) (ref_clone s p)) as [ci s2] eqn:I.
      intros Q; inversion Q; subst. rewrite (kl_inst_call _ _ _ _ _ I). apply kl_ref_clone.
    + intros Q; inversion Q; subst. reflexivity.
    + intros Q; inversion Q; subst. reflexivity.
  - intros Q; inversion Q; subst. reflexivity.
Qed.

Ltac kl_rw :=
  repeat first
    [ rewrite kl_push_frame | rewrite kl_set_frames | (rewrite kl_submit by nokill_tac) | (rewrite kl_push_main_nk by nokill_tac) | rewrite kl_emit | rewrite kl_upd_actor | rewrite kl_timer_add
    | rewrite kl_ref_clone | rewrite kl_log_rec | rewrite kl_target_ev | rewrite kl_new_actor | rewrite kl_tok_script
    | rewrite kl_set_alive
    | rewrite kl_set_now
    | rewrite kl_set_start
    | rewrite kl_set_lazyq
    | rewrite kl_set_idleq
    | rewrite kl_set_timers
    | rewrite kl_set_tnext
    | rewrite kl_set_tvars
    | rewrite kl_set_recreate
    | rewrite kl_set_actors
    | rewrite kl_set_fwds
    | rewrite kl_set_env
    | rewrite kl_set_nuid
    | rewrite kl_set_logseq
    | rewrite kl_set_logfilter
    | rewrite kl_set_haslogger
    | rewrite kl_set_shut
    | match goal with
      | H : take _ _ = (_, ?s') |- context [kl ?s'] => rewrite (kl_take _ _ _ _ H)
      | H : take_caps _ _ = (_, ?s') |- context [kl ?s'] => rewrite (kl_take_caps _ _ _ _ H)
      | H : bind _ _ _ = (_, ?s') |- context [kl ?s'] => rewrite (kl_bind _ _ _ _ _ H)
      | H : bad _ _ = (_, ?s') |- context [kl ?s'] => rewrite (kl_bad _ _ _ _ H)
      | H : inst _ _ _ = (_, ?s') |- context [kl ?s'] => rewrite (kl_inst _ _ _ _ _ H)
      | H : inst_call _ _ _ = (_, ?s') |- context [kl ?s'] => rewrite (kl_inst_call _ _ _ _ _ H)
      | H : inst_nocaps _ _ _ = (_, ?s') |- context [kl ?s'] => rewrite (kl_inst_nocaps _ _ _ _ _ H)
      | H : mk_notifier _ _ _ = (_, ?s') |- context [kl ?s'] => rewrite (kl_mk_notifier _ _ _ _ _ H)
      end ].


Definition is_runm (m : mop) : bool := match m with MRunItem _ => true | _ => false end.
Lemma runm_app a b : existsb is_runm (a ++ b) = existsb is_runm a || existsb is_runm b.
Proof. apply existsb_app. Qed.
Lemma runm_drops l : existsb is_runm (drops l) = false.
Proof. unfold drops. induction l; simpl; auto. Qed.
Lemma runm_slab_drops l : existsb is_runm (slab_drops l) = false.
Proof. induction l as [|[c|n] l IH]; simpl; auto. Qed.
Lemma runm_dropitems l : existsb is_runm (map MDropItem l) = false.
Proof. induction l; simpl; auto. Qed.
Lemma bind_runm s h v l s' : bind s h v = (l, s') -> existsb is_runm l = false.
Proof. unfold bind. destruct (aget (env s) h); intros Q; inversion Q; reflexivity. Qed.
Lemma bad_runm s c l s' : bad s c = (l, s') -> existsb is_runm l = false.
Proof. unfold bad. intros Q; inversion Q; reflexivity. Qed.

Ltac runm_tac :=
  first [ reflexivity
        | (eapply bind_runm; eassumption)
        | (eapply bad_runm; eassumption)
        | (cbn [map app existsb is_runm orb]; rewrite ?runm_app, ?runm_drops, ?runm_slab_drops, ?runm_dropitems; reflexivity) ].

Ltac passQ := intros Q; inj_pairK Q; (split; [kl_rw; reflexivity | runm_tac]).

Lemma do_act_Q a s pre s' : do_act a s = (pre, s') -> match a with AKillAsync _ _ => False | _ => True end ->
  kl s' = kl s /\ existsb is_runm pre = false.
Proof.
  intros H SP. destruct a; try contradiction; clear SP; revert H; unfold do_act; repeat dest_match; passQ.
Qed.

(* ------------------------------------------------------------------ *)
(** * The handle-level passes *)

Definition reqact (a : act) : bool :=
  match a with AStop | AFail _ | AKill _ _ | AKillAsync _ _ => true | _ => false end.

Definition specialK (m : mop) : bool :=
  match m with
  | MActs (a :: _) => reqact a
  | MEndBody _ _ | MRunItem _ | MDropRef _ | MRetInvoke _ _ | MValDrop _ | MTerminate _ _ | MLeaks => true
  | _ => false
  end.

Definition neutralK (s : st) (pre : list mop) (s' : st) : Prop :=
  evs_in pbK s s' /\ nmono s s' /\ existsb is_endb pre = false /\ existsb dly pre = false /\ dstep s s'.

Lemma handle_K m s pre s' : handle m s = (pre, s') -> specialK m = false -> neutralK s pre s'.
Proof.
  unfold neutralK. intros H SP. destruct m; try discriminate SP; cbn [handle] in H.
  - revert H. unfold do_top. destruct o; repeat dest_match; passK.
  - destruct l as [|a l]; [revert H; passK|]. destruct (do_act a s) as [p s1] eqn:E. inversion H; subst.
    assert (G : neutralK s p s').
    { destruct (specialK_act a) eqn:SA; [|eapply do_act_K; eauto]. eapply do_act_K2; eauto.
      destruct a; try discriminate SA; try discriminate SP; exact I. }
    destruct G as (A & B & C & D & F). split; [exact A | split; [exact B | split; [|split; [|exact F]]]].
    + rewrite endb_app, C. reflexivity.
    + rewrite dly_app, D. reflexivity.
  - revert H. destruct (frames s) as [|fr rest] eqn:FR; [passK|]. intros Q; inj_pairK Q.
    split; [eiK | split; [apply nmono_same; reflexivity | split; [apply endb_drops | split; [apply dly_drops|]]]].
    right; right. exists (fd fr). unfold dies. rewrite FR. reflexivity.
  - revert H. unfold drop_item. destruct c as [u i kd caps q]. destruct kd; passK.
  - revert H. passK.
  - revert H. unfold drop_val. destruct v; repeat dest_match; passK.
  - revert H. unfold drop_own. destruct logged; repeat dest_match; passK.
  - revert H. passK.
  - revert H. passK.
  - revert H. passK.
  - revert H. destruct (aget (actors s) a); passK.
  - revert H. destruct (aget (actors s) a) as [y|] eqn:A; [destruct (a_state y) eqn:SA; [|passK|passK] | passK].
    intros Q; inj_pairK Q. split; [eiK | split; [|split; [apply endb_runitems | split; [apply dly_runitems | left; reflexivity]]]].
    intros b x H. rewrite aget_upd_emit. destruct (N.eqb a b) eqn:Q.
    + apply N.eqb_eq in Q. subst b. rewrite A in H. inversion H; subst x. eexists. split; [reflexivity | left; reflexivity].
    + exists x. auto.
  - revert H. unfold fresh_stakker. passK.
  - revert H. destruct idle; [destruct (idleq s)|]; passK.
  - revert H. destruct (t >? now (set_mainq s [])).
    + destruct (fire t _) as [fired s2] eqn:FI. unfold fire in FI. injection FI as ? ?; subst. destruct (ambiguous _); passK.
    + passK.
  - revert H. repeat dest_match; passK.
  - revert H. repeat dest_match; passK.
  - revert H. cbv zeta. destruct (ambiguous (timers s)); passK.
  - revert H. repeat dest_match; passK.
  - revert H. repeat dest_match; passK.
  - revert H. passK.
Qed.

Definition ksub (s : st) (pre : list mop) (s' : st) : Prop :=
  (forall ci, In ci (kl s') -> In ci (kl s)) /\ (forall ci, In (MRunItem ci) pre -> iskill ci = true -> In ci (kl s)).

Lemma runm_notin pre ci : existsb is_runm pre = false -> ~ In (MRunItem ci) pre.
Proof.
  intros H IN. assert (existsb is_runm pre = true) by (apply existsb_exists; exists (MRunItem ci); auto). congruence.
Qed.

Lemma Qeq s pre s' : kl s' = kl s -> existsb is_runm pre = false -> ksub s pre s'.
Proof. intros E R. split; [rewrite E; auto | intros ci IN; exfalso; eapply runm_notin; eauto]. Qed.

Lemma runm_in l rest ci : In (MRunItem ci) (map MRunItem l ++ rest) -> existsb is_runm rest = false -> In ci l.
Proof.
  intros IN R. apply in_app_or in IN as [IN|IN]; [|exfalso; eapply runm_notin; eauto].
  apply in_map_iff in IN as (c & E & IC). inversion E; subst. exact IC.
Qed.

Lemma kl_in s ci : In ci (mainq s) -> iskill ci = true -> In ci (kl s).
Proof. intros A B. unfold kl. apply filter_In. auto. Qed.

Lemma tagged_nokill q l ci : Forall (tagged q) l -> In ci l -> iskill ci = true -> False.
Proof.
  intros F IN K. rewrite Forall_forall in F. destruct (F _ IN) as [C _]. unfold ci_call, iskill in *. destruct (ci_kind ci); discriminate.
Qed.

Lemma state_drops_runm a sa s l s' : state_drops a sa s = (l, s') -> s' = s /\ existsb is_runm l = false.
Proof.
  unfold state_drops. destruct sa; intros Q; inversion Q; subst; split; auto.
  - apply runm_dropitems.
  - simpl. rewrite runm_app, runm_drops, runm_slab_drops. reflexivity.
Qed.

Lemma mainq_class_flags s : mainq (class_flags s) = mainq s.
Proof.
  unfold class_flags. generalize (class_flag (actors s)). intros f. generalize (actors s) as l. intros l. revert s.
  induction l as [|p l IH]; simpl; intros s; auto. rewrite IH. unfold emit_opt. destruct (f p); reflexivity.
Qed.

Lemma kl_nil s s' : mainq s' = [] -> forall ci, In ci (kl s') -> In ci (kl s).
Proof. intros E ci. unfold kl. rewrite E. simpl. contradiction. Qed.

Lemma handle_Q m s pre s' : QTags s -> KS s -> handle m s = (pre, s') ->
  match m with MActs (AKillAsync _ _ :: _) => False | _ => True end -> ksub s pre s'.
Proof.
  intros QT KS_ H SP. destruct m; cbn [handle] in H.
  - revert H. unfold do_top. destruct o; repeat dest_match; intros Q; inj_pairK Q; apply Qeq; first [kl_rw; reflexivity | runm_tac].
  - destruct l as [|a l]; [inversion H; subst; apply Qeq; reflexivity|]. destruct (do_act a s) as [p s1] eqn:E. inversion H; subst.
    assert (SA : match a with AKillAsync _ _ => False | _ => True end) by (destruct a; auto).
    destruct (do_act_Q _ _ _ _ E SA) as [A B]. apply Qeq; [exact A | rewrite runm_app, B; reflexivity].
  - revert H. destruct (frames s) as [|fr rest] eqn:FR; intros Q; inj_pairK Q; apply Qeq; try reflexivity. apply runm_drops.
  - revert H. destruct (frames s) as [|fr rest]; intros Q; inj_pairK Q; apply Qeq; try reflexivity.
    rewrite runm_app, runm_drops. destruct f; try destruct (f_die fr); try destruct ready; reflexivity.
  - revert H. unfold run_item. destruct c as [u i kd caps q]. destruct kd; repeat dest_match; intros Q; inj_pairK Q; apply Qeq; first [kl_rw; reflexivity | runm_tac].
  - revert H. unfold drop_item. destruct c as [u i kd caps q]. destruct kd; intros Q; inj_pairK Q; apply Qeq; first [kl_rw; reflexivity | runm_tac].
  - inversion H; subst. apply Qeq; [reflexivity | apply runm_drops].
  - revert H. unfold drop_val. destruct v; repeat dest_match; intros Q; inj_pairK Q; apply Qeq; first [kl_rw; reflexivity | runm_tac].
  - revert H. unfold drop_own. destruct logged; repeat dest_match; intros Q; inj_pairK Q; apply Qeq; first [kl_rw; reflexivity | runm_tac].
  - revert H. unfold drop_ref. destruct (aget (actors s) a) as [y|] eqn:A; [|intros Q; inj_pairK Q; apply Qeq; reflexivity].
    destruct (a_freed y); [intros Q; inj_pairK Q; apply Qeq; reflexivity|].
    destruct (minrc_drop (a_rc y)) as [[v z]|]; [|intros Q; inj_pairK Q; apply Qeq; reflexivity].
    destruct z; [|intros Q; inj_pairK Q; apply Qeq; reflexivity].
    destruct (state_drops a (a_state y) _) as [dl s2] eqn:SD. destruct (state_drops_runm _ _ _ _ _ SD) as [-> IS].
    intros Q; inj_pairK Q. apply Qeq; [reflexivity|]. rewrite runm_app, IS. destruct (a_notify y); reflexivity.
  - revert H. unfold ret_invoke. destruct r as [rid k]. destruct k; repeat dest_match; intros Q; inj_pairK Q; apply Qeq; first [kl_rw; reflexivity | runm_tac].
  - inversion H; subst. apply Qeq; reflexivity.
  - inversion H; subst. apply Qeq; reflexivity.
  - inversion H; subst. apply Qeq; reflexivity.
  - inversion H; subst. apply Qeq; reflexivity.
  - revert H. unfold terminate. destruct (aget (actors s) a) as [y|] eqn:A; [|intros Q; inj_pairK Q; apply Qeq; reflexivity].
    destruct (state_drops a (a_state y) _) as [dl s2] eqn:SD. destruct (state_drops_runm _ _ _ _ _ SD) as [-> IS].
    destruct (a_notify y); intros Q; inj_pairK Q; (apply Qeq; [destruct (a_freed y); reflexivity|]); [rewrite runm_app, IS; reflexivity | exact IS].
  - revert H. destruct (aget (actors s) a); intros Q; inj_pairK Q; apply Qeq; first [kl_rw; reflexivity | runm_tac].
  - revert H. destruct (aget (actors s) a) as [y|] eqn:A; [destruct (a_state y) eqn:SA|]; intros Q; inj_pairK Q; try (apply Qeq; reflexivity).
    split; [auto|]. intros ci IN K. exfalso. apply in_map_iff in IN as (c & E & IC). inversion E; subst c.
    destruct (ks_act _ KS_ _ _ A) as (_ & _ & _ & _ & HK). unfold held_of in HK. rewrite SA in HK. rewrite Forall_forall in HK.
    unfold iskill in K. destruct (HK _ IC) as [(b & arg & E1 & _)|(key & E1 & _)]; rewrite E1 in K; discriminate.
  - inversion H; subst. split; [apply kl_nil; reflexivity|]. intros ci IN. exfalso. eapply runm_notin; [apply runm_dropitems | eauto].
  - revert H. destruct idle; [destruct (idleq s) as [|c r] eqn:IQ|]; intros Q; inj_pairK Q; try (apply Qeq; reflexivity).
    split; [auto|]. intros ci [E|[]] K. inversion E; subst c. exfalso. eapply (tagged_nokill QIdle (idleq s)); [apply QT | rewrite IQ; left; reflexivity | exact K].
  - revert H. destruct (t >? now (set_mainq s [])).
    + destruct (fire t _) as [fired s2] eqn:FI. unfold fire in FI. injection FI as ? ?; subst. intros Q; inj_pairK Q.
      split; [apply kl_nil; destruct (ambiguous _); reflexivity|]. intros ci IN K. rewrite <- (app_nil_r (map MRunItem _)) in IN.
      apply runm_in in IN; [|reflexivity]. apply in_app_or in IN as [IN|IN]; [apply kl_in; auto|]. exfalso.
      apply in_map_iff in IN as (ti & E & IT). apply ti_sort_in in IT.
      eapply (tagged_nokill QTimer (map ti_ci (timers s))); [apply QT | | exact K]. apply in_map_iff. exists ti. split; auto.
      eapply (proj1 (filter_In _ _ _)). exact IT.
    + intros Q; inj_pairK Q. split; [apply kl_nil; reflexivity|]. intros ci IN K. rewrite <- (app_nil_r (map MRunItem _)) in IN.
      apply runm_in in IN; [|reflexivity]. apply kl_in; auto.
  - revert H. destruct (mainq s) as [|c0 r0] eqn:MQ.
    + destruct (lazyq s) as [|c1 r1] eqn:LQ.
      * intros Q; inj_pairK Q. apply Qeq; [destruct (t >? recreate s); reflexivity | reflexivity].
      * intros Q; inj_pairK Q. split; [auto|]. intros ci IN K. apply (runm_in (c1 :: r1)) in IN; [|reflexivity]. exfalso.
        eapply (tagged_nokill QLazy (lazyq s)); [apply QT | rewrite LQ; exact IN | exact K].
    + intros Q; inj_pairK Q. split; [apply kl_nil; reflexivity|]. intros ci IN K. apply (runm_in (c0 :: r0)) in IN; [|reflexivity]. apply kl_in; [rewrite MQ; exact IN | exact K].
  - revert H. destruct (i >=? TEARDOWN_ROUNDS).
    + intros Q; inj_pairK Q. apply Qeq; [destruct (is_nil (mainq s)); reflexivity | reflexivity].
    + destruct (mainq s) as [|c0 r0] eqn:MQ; intros Q; inj_pairK Q; [apply Qeq; reflexivity|].
      split; [apply kl_nil; reflexivity|]. intros ci IN. exfalso. eapply runm_notin; [|exact IN]. cbn [existsb is_runm orb]. rewrite runm_app, runm_dropitems. reflexivity.
  - revert H. cbv zeta. destruct (ambiguous (timers s)); intros Q; inj_pairK Q; (apply Qeq; [reflexivity | rewrite runm_app, runm_dropitems; reflexivity]).
  - inversion H; subst. apply Qeq; [destruct (is_nil (mainq s)); reflexivity | reflexivity].
  - revert H. destruct (amin (env s)) as [[h v]|]; intros Q; inj_pairK Q; apply Qeq; reflexivity.
  - inversion H; subst. apply Qeq; reflexivity.
  - inversion H; subst. apply Qeq; [|reflexivity]. unfold kl. cbn [mainq set_tr]. rewrite mainq_class_flags. reflexivity.
Qed.

(* ------------------------------------------------------------------ *)
(** * Facts about the monitor state that follow from the trace alone *)

Lemma cause_eqb_refl c : cause_eqb c c = true.
Proof. destruct c; simpl; auto; apply N.eqb_refl. Qed.
Lemma cause_eqb_eq c d : cause_eqb c d = true -> c = d.
Proof. destruct c, d; simpl; intros H; try discriminate; auto; apply N.eqb_eq in H; subst; reflexivity. Qed.

Lemma has_req_in l a c : In (a, c) l -> has_req l a c = true.
Proof.
  induction l as [|[b d] r IH]; simpl; [contradiction|]. intros [E|IN].
  - inversion E; subst. rewrite N.eqb_refl, cause_eqb_refl. reflexivity.
  - rewrite (IH IN). apply orb_true_r.
Qed.
Lemma has_req_cons l b d a c : has_req l a c = true -> has_req ((b, d) :: l) a c = true.
Proof. simpl. intros ->. apply orb_true_r. Qed.

Definition stopfail (c : cause) : Prop := match c with CStop | CFail _ => True | _ => False end.

Record KF (m : sK) (t : list ev) : Prop := mkKF {
  kf_req : forall a c, In (EReq a c) t -> has_req (k_reqs m) a c = true;
  kf_body : forall a u c, k_body m = Some (a, u, Some c) -> has_req (k_reqs m) a c = true /\ stopfail c }.

Lemma monK_facts t : forall m, monr stepK iK t = Some m -> KF m t.
Proof.
  induction t as [|e t IH]; simpl; intros m M.
  - inversion M; subst. split; simpl; [contradiction | discriminate].
  - destruct (monr stepK iK t) as [m0|]; [|discriminate]. destruct (IH m0 eq_refl) as [F1 F2].
    assert (G : forall b (x : sK), guard b x = Some m -> b = true /\ m = x).
    { intros b x. unfold guard. destruct b; intros Q; inversion Q; auto. }
    assert (SAME : m = m0 -> (forall a c, e <> EReq a c) -> KF m (e :: t)).
    { intros -> NE. split; [|exact F2]. intros a c [E|IN]; [exfalso; eapply NE; eauto | auto]. }
    destruct e; simpl in M; try (apply SAME; [congruence | intros; discriminate]).
    + (* ERun *) inversion M; subst. split; cbn [k_reqs k_body]; [intros b c [E|IN]; [discriminate | auto] | intros b v c E; discriminate].
    + (* EMeth *) inversion M; subst. split; cbn [k_reqs k_body]; [intros b c [E|IN]; [discriminate | auto] | intros b v c E; discriminate].
    + (* EPrep *) inversion M; subst. split; cbn [k_reqs k_body]; [intros b c [E|IN]; [discriminate | auto] | intros b v c E; discriminate].
    + (* EEnd *)
      destruct (k_body m0) as [[[b v] fr]|] eqn:B; [destruct (N.eqb uid v)|]; inversion M; subst.
      * split; cbn [k_reqs k_body]; [intros x c [E|IN]; [discriminate | auto] | intros x w c E; discriminate].
      * apply SAME; auto; intros; discriminate.
      * apply SAME; auto; intros; discriminate.
    + (* EReq *)
      inversion M; subst; clear M. split; cbn [k_reqs k_body].
      * intros b d [E|IN]; [inversion E; subst; apply has_req_in; left; reflexivity | apply has_req_cons; auto].
      * intros b v d E. destruct (k_body m0) as [[[b0 v0] [c0|]]|] eqn:B; try discriminate.
        -- inversion E; subst. destruct (F2 _ _ _ eq_refl) as [A S]. split; [apply has_req_cons; exact A | exact S].
        -- destruct (N.eqb a b0) eqn:Q.
           ++ apply N.eqb_eq in Q. subst b0. destruct c; inversion E; subst; (split; [apply has_req_in; left; reflexivity | exact I]).
           ++ discriminate.
    + (* ENotify *) apply G in M as [_ ->]. apply SAME; auto; intros; discriminate.
    + (* EValDrop *) apply G in M as [_ ->]. apply SAME; auto; intros; discriminate.
Qed.

(* ------------------------------------------------------------------ *)
(** * The relation between the monitor state and the configuration *)

Fixpoint endb (k : list mop) : option (N * fin) :=
  match k with [] => None | MEndBody u f :: _ => Some (u, f) | _ :: r => endb r end.

Definition fin_actor (f : fin) : option N := match f with FMeth a => Some a | FPrep a _ => Some a | FNone => None end.
Definition fbody (k : list mop) : option N := match endb k with Some (_, f) => fin_actor f | None => None end.
Definition lastdie (s : st) : option cause := last (map snd (dies s)) None.
Definition openbody (k : list mop) (s : st) : option (N * N * option cause) :=
  match endb k with
  | Some (u, f) => match fin_actor f with Some a => Some (a, u, lastdie s) | None => None end
  | None => None
  end.

Lemma endb_pre pre k : existsb is_endb pre = false -> endb (pre ++ k) = endb k.
Proof.
  induction pre as [|x pre IH]; simpl; auto. intros H. apply orb_false_elim in H as [H1 H2]. destruct x; try discriminate H1; auto.
Qed.
Lemma endb_cons x k : is_endb x = false -> endb (x :: k) = endb k.
Proof. destruct x; simpl; auto; discriminate. Qed.

Definition cok (m : sK) (a : N) (c : cause) : Prop :=
  match c with
  | CDrop => nget (k_expect m) a = None
  | _ => has_req (k_reqs m) a c = true /\ (nget (k_expect m) a = None \/ nget (k_expect m) a = Some c)
  end.

Definition gone (s : st) (a : N) : Prop := exists y, aget (actors s) a = Some y /\ a_notify y = None.

Definition pok (m : sK) (s : st) (x : mop) : Prop :=
  match x with
  | MTerminate a c => cok m a c \/ gone s a
  | MRetInvoke r (Some (MCause c)) => forall a, nshape a r -> cok m a c
  | _ => True
  end.

Definition tgt (x : mop) : option N := match x with MTerminate a _ | MValDrop a => Some a | _ => None end.

Definition kq (t : list ev) (c : citem) : Prop :=
  match ci_kind c with KKill a e => In (EReq a (CKill e)) t | _ => True end.

Record RK (m : sK) (b : option N) (k : list mop) (s : st) : Prop := mkRK {
  k_b : k_body m = openbody k s;
  k_f : b = fbody k;
  k_y : forall a c0, nget (k_expect m) a = Some c0 -> exists x, aget (actors s) a = Some x /\ (a_notify x = None \/ In (MTerminate a c0) k);
  k_p : forall x, In x k -> pok m s x;
  k_z : forall x a, In x k -> tgt x = Some a -> fbody k <> Some a;
  k_cx : forall a p d, In (XCx a p, d) (dies s) -> exists x, aget (actors s) a = Some x;
  k_ql : forall ci, In ci (kl s) -> kq (tr s) ci;
  k_qr : forall ci, In (MRunItem ci) k -> kq (tr s) ci }.

Definition BadF (t : list ev) : Prop := monr stepF None t = None.

Lemma BadF_ext evs t : BadF t -> BadF (evs ++ t).
Proof. unfold BadF. intros H. induction evs as [|e l IH]; simpl; auto. rewrite IH. reflexivity. Qed.

Definition IK (k : list mop) (s : st) : Prop :=
  BadF (tr s) \/ exists m b, monr stepK iK (tr s) = Some m /\ monr stepF None (tr s) = Some b /\ (k = [] \/ RK m b k s).

(* ------------------------------------------------------------------ *)
(** * Frames against the pending body end (from FK) *)

Lemma FK_pop k cs : FK k cs -> fr_ok (poppers k) cs.
Proof. intros (w1 & w2 & -> & _ & P & F). rewrite poppers_app, P, app_nil_r. exact F. Qed.

Lemma endb_poppers k : endb (poppers k) = endb k.
Proof.
  induction k as [|x k IH]; simpl; auto. unfold poppers in *. simpl. destruct x; simpl; auto.
Qed.

Lemma fr_ok_endb ps cs : fr_ok ps cs -> forall u f, endb ps = Some (u, f) -> exists c, last cs XNone = c /\ endm f c /\ cs <> [].
Proof.
  induction 1; simpl; intros u0 f0 E; try discriminate.
  - inversion E; subst. exists c. split; [reflexivity | split; [assumption | discriminate]].
  - destruct (IHfr_ok _ _ E) as (c & L & EM & NE). exists c. split; [|split; [exact EM | discriminate]].
    destruct cs; [contradiction NE; reflexivity | exact L].
Qed.

Lemma fr_ok_noend ps cs : fr_ok ps cs -> endb ps = None -> forall a p, ~ In (XCx a p) cs.
Proof.
  induction 1; simpl; intros E a p IN; try discriminate; try contradiction.
  - destruct IN as [Q|[]]. discriminate.
  - destruct IN as [Q|IN]; [discriminate|]. eapply IHfr_ok; eauto.
Qed.

Lemma FK_frames k s : FK k (ctxs s) -> endb k <> None -> dies s <> [].
Proof.
  intros F NE. apply FK_pop in F. destruct (endb k) as [[u f]|] eqn:E; [|contradiction NE; reflexivity].
  rewrite <- endb_poppers in E. destruct (fr_ok_endb _ _ F _ _ E) as (_ & _ & _ & N).
  unfold ctxs in N. unfold dies. destruct (frames s); [contradiction N; reflexivity | discriminate].
Qed.

(* a non-calm head: no frame, no body end pending *)
Lemma FK_flat mo k0 cs : FK (mo :: k0) cs -> calm mo = false -> cs = [] /\ endb k0 = None /\ poppers k0 = [].
Proof.
  intros (w1 & w2 & E & C & P & F) NC. destruct w1 as [|x w1].
  - simpl in E. subst w2. inversion F; subst. assert (PK : poppers k0 = []).
    { rewrite poppers_cons in P. destruct (is_popper mo); [discriminate | exact P]. }
    split; [reflexivity | split; [|exact PK]]. rewrite <- endb_poppers, PK. reflexivity.
  - simpl in E. inversion E; subst. simpl in C. rewrite NC in C. discriminate.
Qed.

Lemma ctxs_dies s : ctxs s = map fst (dies s).
Proof. unfold ctxs, dies. rewrite map_map. reflexivity. Qed.

(* the head is the end of the body: one frame, nothing else to pop *)
Lemma FK_endbody u f k0 s : FK (MEndBody u f :: k0) (ctxs s) ->
  exists fr, frames s = [fr] /\ endm f (f_ctx fr) /\ endb k0 = None.
Proof.
  intros F. apply FK_pop in F. rewrite poppers_cons in F. simpl in F.
  remember (MEndBody u f :: poppers k0) as ps eqn:EP. remember (ctxs s) as cs eqn:EC.
  destruct F as [|u1 f1 c EM| |ps cs F]; try discriminate EP.
  inversion EP; subst u1 f1. unfold ctxs in EC. destruct (frames s) as [|fr [|fr2 rest]]; try discriminate EC.
  simpl in EC. inversion EC; subst c. exists fr. split; [reflexivity | split; [exact EM|]].
  rewrite <- endb_poppers. rewrite <- H2. reflexivity.
Qed.

(* the top frame has Core access as an actor: it is the only frame, and the pending body end is the one of that actor *)
Lemma FK_cx k s a p loc die rest : FK k (ctxs s) -> frames s = mkFrame (XCx a p) loc die :: rest ->
  rest = [] /\ exists u f, endb k = Some (u, f) /\ fin_actor f = Some a.
Proof.
  intros F FR. apply FK_pop in F. unfold ctxs in F. rewrite FR in F. simpl in F.
  remember (poppers k) as ps eqn:EP. remember (XCx a p :: map f_ctx rest) as cs eqn:EC.
  destruct F as [|u1 f1 c EM| |ps cs F]; try discriminate EC.
  inversion EC; subst c. split; [destruct rest; [reflexivity | discriminate]|]. exists u1, f1.
  split; [rewrite <- endb_poppers, <- EP; reflexivity|]. inversion EM; subst; reflexivity.
Qed.

Lemma FK_stk k s : FK k (ctxs s) -> cur_ctx s = XStk -> fbody k = None.
Proof.
  intros F CX. apply FK_pop in F. unfold cur_ctx in CX. unfold ctxs in F. destruct (frames s) as [|fr rest]; [discriminate|].
  simpl in F. rewrite CX in F. unfold fbody. rewrite <- endb_poppers.
  remember (poppers k) as ps eqn:EP. remember (XStk :: map f_ctx rest) as cs eqn:EC.
  destruct F as [|u1 f1 c EM| |ps cs F]; try discriminate EC; simpl; auto.
  inversion EC; subst c. inversion EM; subst. reflexivity.
Qed.

Lemma lastdie_cons s s' x : dies s <> [] -> dies s' = x :: dies s -> lastdie s' = lastdie s.
Proof. unfold lastdie. intros NE ->. simpl. destruct (dies s); [contradiction NE; reflexivity | reflexivity]. Qed.

Lemma dstep_lastdie mo k0 s pre s' :
  FK (mo :: k0) (ctxs s) -> FK (pre ++ k0) (ctxs s') -> is_endb mo = false -> existsb is_endb pre = false ->
  dstep s s' -> endb k0 <> None -> lastdie s' = lastdie s.
Proof.
  intros F F' EM EP [D|[(c & _ & D)|(d & D)]] NE.
  - unfold lastdie. rewrite D. reflexivity.
  - eapply lastdie_cons; [|exact D]. apply (FK_frames _ _ F). rewrite (endb_cons _ _ EM). exact NE.
  - symmetry. eapply lastdie_cons; [|exact D]. apply (FK_frames _ _ F'). rewrite (endb_pre _ _ EP). exact NE.
Qed.

(* ------------------------------------------------------------------ *)
(** * Steps without an event of the cause monitor *)

Lemma kq_ext evs t ci : kq t ci -> kq (evs ++ t) ci.
Proof. unfold kq. destruct (ci_kind ci); auto. intros H. apply in_or_app. auto. Qed.

Lemma kq_nokill t ci : iskill ci = false -> kq t ci.
Proof. unfold kq, iskill. destruct (ci_kind ci); auto. discriminate. Qed.

Lemma pok_nodly m s x : dly x = false -> pok m s x.
Proof. destruct x; simpl; auto; try discriminate. destruct m0 as [[v|c]|]; auto. discriminate. Qed.

Lemma tgt_dly x a : tgt x = Some a -> dly x = true.
Proof. destruct x; simpl; try discriminate; auto. Qed.

Lemma nodly_in pre x : existsb dly pre = false -> In x pre -> dly x = false.
Proof.
  intros H IN. destruct (dly x) eqn:D; auto. assert (existsb dly pre = true) by (apply existsb_exists; eauto). congruence.
Qed.

Lemma gone_mono s s' a : nmono s s' -> gone s a -> gone s' a.
Proof. intros NM (y & A & G). destruct (NM _ _ A) as (y' & A' & [E|E]); exists y'; split; auto. congruence. Qed.

Lemma pok_mono m s s' x : nmono s s' -> pok m s x -> pok m s' x.
Proof. intros NM. destruct x; simpl; auto. intros [H|H]; [left; exact H | right; eapply gone_mono; eauto]. Qed.

Lemma RK_neutral m b mo k0 s pre s' :
  FK (mo :: k0) (ctxs s) -> FK (pre ++ k0) (ctxs s') ->
  neutralK s pre s' -> ksub s pre s' -> is_endb mo = false -> (forall a c, mo <> MTerminate a c) ->
  monr stepK iK (tr s) = Some m -> monr stepF None (tr s) = Some b -> RK m b (mo :: k0) s ->
  monr stepK iK (tr s') = Some m /\ monr stepF None (tr s') = Some b /\ RK m b (pre ++ k0) s'.
Proof.
  intros F F' ((evs & TR & PB) & NM & EP & DP_ & DS) [Q1 Q2] EM NT MK MF [Kb Kf Ky Kp Kz Kcx Kql Kqr].
  split; [rewrite TR; apply monK_block; auto|]. split; [rewrite TR; apply monF_block; auto|].
  assert (EB : endb (pre ++ k0) = endb (mo :: k0)) by (rewrite (endb_pre _ _ EP), (endb_cons _ _ EM); reflexivity).
  assert (FB : fbody (pre ++ k0) = fbody (mo :: k0)) by (unfold fbody; rewrite EB; reflexivity).
  constructor.
  - rewrite Kb. unfold openbody. rewrite EB. destruct (endb (mo :: k0)) as [[u f]|] eqn:E; [|reflexivity].
    destruct (fin_actor f); [|reflexivity]. rewrite (dstep_lastdie _ _ _ _ _ F F' EM EP DS); [reflexivity|].
    rewrite (endb_cons _ _ EM) in E. congruence.
  - rewrite FB. exact Kf.
  - intros a c0 H. destruct (Ky _ _ H) as (x & A & D). destruct (NM _ _ A) as (x' & A' & N'). exists x'. split; [exact A'|].
    destruct D as [D|D]; [left; destruct N' as [N'|N']; congruence|].
    destruct N' as [N'|N']; [|left; exact N']. right. apply in_or_app. right. destruct D as [D|D]; [exfalso; eapply NT; eauto | exact D].
  - intros x IN. apply in_app_or in IN as [IN|IN].
    + apply pok_nodly. eapply nodly_in; eauto.
    + eapply pok_mono; [exact NM|]. apply Kp. right. exact IN.
  - intros x a IN T. rewrite FB. apply in_app_or in IN as [IN|IN].
    + apply tgt_dly in T. rewrite (nodly_in _ _ DP_ IN) in T. discriminate.
    + apply (Kz x a); [right; exact IN | exact T].
  - intros a p d IN. assert (IN0 : In (XCx a p, d) (dies s)).
    { destruct DS as [D|[(c & NC & D)|(d0 & D)]].
      - rewrite <- D. exact IN.
      - rewrite D in IN. destruct IN as [E|IN]; [inversion E; subst; contradiction | exact IN].
      - rewrite D. right. exact IN. }
    destruct (Kcx _ _ _ IN0) as (x & A). destruct (NM _ _ A) as (x' & A' & _). eauto.
  - intros ci IN. rewrite TR. apply kq_ext. apply Kql. apply Q1. exact IN.
  - intros ci IN. rewrite TR. apply kq_ext. apply in_app_or in IN as [IN|IN].
    + destruct (iskill ci) eqn:K; [apply Kql; apply Q2; auto | apply kq_nokill; exact K].
    + apply Kqr. right. exact IN.
Qed.

(* ------------------------------------------------------------------ *)
(** * What carries over to the rest of the continuation when the monitor gains requests only *)

Lemma cok_mono m m' a c :
  (forall a c, has_req (k_reqs m) a c = true -> has_req (k_reqs m') a c = true) -> k_expect m' = k_expect m ->
  cok m a c -> cok m' a c.
Proof. intros R E. unfold cok. rewrite E. destruct c; auto; intros [H G]; split; auto. Qed.

Lemma pok_mono2 m m' s s' x :
  (forall a c, has_req (k_reqs m) a c = true -> has_req (k_reqs m') a c = true) -> k_expect m' = k_expect m -> nmono s s' ->
  pok m s x -> pok m' s' x.
Proof.
  intros R E NM. destruct x; simpl; auto.
  - destruct m0 as [[v|c]|]; auto. intros H a N. eapply cok_mono; eauto.
  - intros [H|H]; [left; eapply cok_mono; eauto | right; eapply gone_mono; eauto].
Qed.

Lemma RK_frame m m' b mo k0 s s' evs :
  tr s' = evs ++ tr s -> nmono s s' ->
  (forall a c, has_req (k_reqs m) a c = true -> has_req (k_reqs m') a c = true) -> k_expect m' = k_expect m ->
  RK m b (mo :: k0) s ->
  (forall x, In x k0 -> pok m' s' x) /\
  (forall ci, In (MRunItem ci) k0 -> kq (tr s') ci) /\
  (forall ci, In ci (kl s) -> kq (tr s') ci) /\
  (forall a c0, nget (k_expect m') a = Some c0 -> mo <> MTerminate a c0 ->
     exists x, aget (actors s') a = Some x /\ (a_notify x = None \/ In (MTerminate a c0) k0)) /\
  (forall x a, In x k0 -> tgt x = Some a -> fbody (mo :: k0) <> Some a) /\
  (forall a p d, In (XCx a p, d) (dies s) -> exists x, aget (actors s') a = Some x).
Proof.
  intros TR NM RQ EX [Kb Kf Ky Kp Kz Kcx Kql Kqr].
  split; [|split; [|split; [|split; [|split]]]].
  - intros x IN. eapply pok_mono2; eauto. apply Kp. right. exact IN.
  - intros ci IN. rewrite TR. apply kq_ext. apply Kqr. right. exact IN.
  - intros ci IN. rewrite TR. apply kq_ext. apply Kql. exact IN.
  - intros a c0 H NT. rewrite EX in H. destruct (Ky _ _ H) as (x & A & D). destruct (NM _ _ A) as (x' & A' & N'). exists x'. split; [exact A'|].
    destruct D as [D|D]; [left; destruct N' as [N'|N']; congruence|].
    destruct N' as [N'|N']; [|left; exact N']. right. destruct D as [D|D]; [exfalso; apply NT; exact D | exact D].
  - intros x a IN T. apply (Kz x a); [right; exact IN | exact T].
  - intros a p d IN. destruct (Kcx _ _ _ IN) as (x & A). destruct (NM _ _ A) as (x' & A' & _). eauto.
Qed.

(* ------------------------------------------------------------------ *)
(** * The special steps *)

Definition RKnext (k : list mop) (s : st) : Prop :=
  BadF (tr s) \/ exists m b, monr stepK iK (tr s) = Some m /\ monr stepF None (tr s) = Some b /\ RK m b k s.

Lemma has_req_grow m a c : forall a0 c0, has_req (k_reqs m) a0 c0 = true -> has_req ((a, c) :: k_reqs m) a0 c0 = true.
Proof. intros a0 c0 H. apply has_req_cons. exact H. Qed.

(* stop / fail inside the body of actor a *)
Lemma IK_stopfail m b mo c l k0 s a p loc die :
  stopfail c -> is_endb mo = false -> (forall a c, mo <> MTerminate a c) -> (forall ci, mo <> MRunItem ci) ->
  FK (mo :: k0) (ctxs s) -> frames s = [mkFrame (XCx a p) loc die] ->
  monr stepK iK (tr s) = Some m -> monr stepF None (tr s) = Some b -> RK m b (mo :: k0) s ->
  RKnext ([MActs l] ++ k0)
    (emit (set_frames s [mkFrame (XCx a p) loc (match die with Some d => Some d | None => Some c end)]) (EReq a c)).
Proof.
  intros SF EM NT NR F FR MK MF R. pose proof R as [Kb Kf Ky Kp Kz Kcx Kql Kqr].
  destruct (FK_cx _ _ _ _ _ _ _ F FR) as (_ & u & f & EB & FA).
  set (s' := emit (set_frames s [mkFrame (XCx a p) loc (match die with Some d => Some d | None => Some c end)]) (EReq a c)).
  assert (LD : lastdie s = die) by (unfold lastdie, dies; rewrite FR; reflexivity).
  assert (OB : k_body m = Some (a, u, die)) by (rewrite Kb; unfold openbody; rewrite EB, FA, LD; reflexivity).
  set (m' := mkK ((a, c) :: k_reqs m) (Some (a, u, match die with Some d => Some d | None => Some c end)) (k_expect m)).
  assert (MK' : monr stepK iK (tr s') = Some m').
  { change (tr s') with (EReq a c :: tr s). cbn [monr]. rewrite MK. cbn [stepK]. rewrite OB. unfold m'. destruct die as [d|]; [reflexivity|].
    rewrite N.eqb_refl. destruct c; try contradiction; reflexivity. }
  assert (MF' : monr stepF None (tr s') = Some b) by (change (tr s') with (EReq a c :: tr s); cbn [monr]; rewrite MF; reflexivity).
  right. exists m', b. split; [exact MK' | split; [exact MF'|]].
  assert (EB' : endb ([MActs l] ++ k0) = endb (mo :: k0)) by (rewrite (endb_cons _ _ EM); reflexivity).
  destruct (RK_frame m m' b mo k0 s s' [EReq a c] eq_refl (nmono_same _ _ eq_refl) (has_req_grow m a c) eq_refl R) as (P1 & P2 & P3 & P4 & P5 & P6).
  constructor.
  - unfold openbody. rewrite EB', EB, FA. reflexivity.
  - unfold fbody. rewrite EB'. exact Kf.
  - intros a0 c0 H. destruct (P4 _ _ H (NT _ _)) as (x & A & D). exists x. split; [exact A|]. destruct D as [D|D]; [left; exact D | right; right; exact D].
  - intros x [<-|IN]; [exact I | apply P1; exact IN].
  - intros x a0 [<-|IN] T; [discriminate T|]. unfold fbody. rewrite EB'. apply (P5 x a0 IN T).
  - intros a0 p0 d0 [E|[]]. inversion E; subst. eapply P6. unfold dies. rewrite FR. left. reflexivity.
  - intros ci IN. apply P3. exact IN.
  - intros ci [E|IN]; [discriminate E | apply P2; exact IN].
Qed.

Lemma monK_kreq t m a e : monr stepK iK t = Some m ->
  monr stepK iK (EReq a (CKill e) :: t) = Some (mkK ((a, CKill e) :: k_reqs m) (k_body m) (k_expect m)).
Proof.
  intros M. cbn [monr]. rewrite M. cbn [stepK]. destruct (k_body m) as [[[b0 u0] [c0|]]|]; try reflexivity.
  destruct (N.eqb a b0); reflexivity.
Qed.

(* kill from the Stakker context: the termination starts at once *)
Lemma IK_kill m b l0 l k0 s a e :
  FK (MActs l0 :: k0) (ctxs s) -> DT (MActs l0 :: k0) s -> cur_ctx s = XStk ->
  monr stepK iK (tr s) = Some m -> monr stepF None (tr s) = Some b -> RK m b (MActs l0 :: k0) s ->
  RKnext (([MTerminate a (CKill e)] ++ [MActs l]) ++ k0) (emit s (EReq a (CKill e))).
Proof.
  intros F D CX MK MF R. pose proof R as [Kb Kf Ky Kp Kz Kcx Kql Kqr].
  set (s' := emit s (EReq a (CKill e))).
  set (m' := mkK ((a, CKill e) :: k_reqs m) (k_body m) (k_expect m)).
  assert (ND : existsb dly k0 = false).
  { destruct (existsb dly k0) eqn:X; auto. rewrite (DT_ctx _ _ _ D X) in CX. discriminate. }
  assert (FB : fbody (MActs l0 :: k0) = None) by (eapply FK_stk; eauto).
  right. exists m', b. split; [apply monK_kreq; exact MK|]. split; [change (tr s') with (EReq a (CKill e) :: tr s); cbn [monr]; rewrite MF; reflexivity|].
  destruct (RK_frame m m' b _ k0 s s' [EReq a (CKill e)] eq_refl (nmono_same _ _ eq_refl) (has_req_grow m a (CKill e)) eq_refl R) as (P1 & P2 & P3 & P4 & P5 & P6).
  assert (EB' : endb (([MTerminate a (CKill e)] ++ [MActs l]) ++ k0) = endb (MActs l0 :: k0)) by reflexivity.
  constructor.
  - unfold openbody. rewrite EB'. exact Kb.
  - unfold fbody. rewrite EB'. exact Kf.
  - intros a0 c0 H. assert (NT : MActs l0 <> MTerminate a0 c0) by discriminate. destruct (P4 _ _ H NT) as (x & A & G). exists x. split; [exact A|].
    destruct G as [G|G]; [left; exact G | right; right; right; exact G].
  - intros x [<-|[<-|IN]]; [|exact I | apply P1; exact IN].
    simpl. destruct (nget (k_expect m) a) as [c0|] eqn:EX.
    + destruct (Ky _ _ EX) as (y & A & [G|[G|G]]).
      * right. exists y. auto.
      * discriminate G.
      * exfalso. assert (existsb dly k0 = true) by (apply existsb_exists; exists (MTerminate a c0); auto). congruence.
    + left. split; [simpl; rewrite N.eqb_refl, N.eqb_refl; reflexivity | left; reflexivity].
  - intros x a0 _ _. unfold fbody. rewrite EB'. fold (fbody (MActs l0 :: k0)). rewrite FB. discriminate.
  - intros a0 p0 d0 IN. apply (P6 a0 p0 d0). exact IN.
  - intros ci IN. apply P3. exact IN.
  - intros ci [E|[E|IN]]; [discriminate E | discriminate E | apply P2; exact IN].
Qed.

Lemma kl_ref_clone' s a : kl (ref_clone s a) = kl s. Proof. apply kl_ref_clone. Qed.

(* kill through the queue: an internal item carries it *)
Lemma IK_killasync m b l0 l k0 s a e x :
  aget (actors s) a = Some x ->
  monr stepK iK (tr s) = Some m -> monr stepF None (tr s) = Some b -> RK m b (MActs l0 :: k0) s ->
  RKnext ([MActs l] ++ k0)
    (push_main (emit (ref_clone (upd_actor s a (with_strong x (oz (count_inc (a_strong x))))) a) (EReq a (CKill e))) (CI 0 0 (KKill a e) [] None)).
Proof.
  intros A MK MF R. pose proof R as [Kb Kf Ky Kp Kz Kcx Kql Kqr].
  set (s1 := ref_clone (upd_actor s a (with_strong x (oz (count_inc (a_strong x))))) a).
  set (s' := push_main (emit s1 (EReq a (CKill e))) (CI 0 0 (KKill a e) [] None)).
  assert (EV : evs_in pbK s s1) by (unfold s1; eiK).
  destruct EV as (evs & TR1 & PB).
  assert (NM : nmono s s').
  { eapply nmono_trans; [|apply nmono_same; reflexivity]. eapply nmono_trans; [|apply amono_nmono; apply amono_ref_clone].
    intros b0 y H. rewrite aget_upd. destruct (N.eqb a b0) eqn:Q.
    - apply N.eqb_eq in Q. subst b0. rewrite A in H. inversion H; subst y. eexists. split; [reflexivity | left; reflexivity].
    - exists y. auto. }
  set (m' := mkK ((a, CKill e) :: k_reqs m) (k_body m) (k_expect m)).
  assert (TR : tr s' = (EReq a (CKill e) :: evs) ++ tr s) by (change (tr s') with (EReq a (CKill e) :: tr s1); rewrite TR1; reflexivity).
  right. exists m', b. split; [rewrite TR; simpl app; apply monK_kreq; apply monK_block; auto|].
  split; [rewrite TR; simpl app; cbn [monr]; rewrite (monF_block _ _ _ PB MF); reflexivity|].
  destruct (RK_frame m m' b _ k0 s s' _ TR NM (has_req_grow m a (CKill e)) eq_refl R) as (P1 & P2 & P3 & P4 & P5 & P6).
  assert (EB' : endb ([MActs l] ++ k0) = endb (MActs l0 :: k0)) by reflexivity.
  assert (DS : dies s' = dies s) by (unfold s', s1; dies_rw; reflexivity).
  constructor.
  - unfold openbody. rewrite EB'. unfold lastdie. rewrite DS. exact Kb.
  - unfold fbody. rewrite EB'. exact Kf.
  - intros a0 c0 H. assert (NT : MActs l0 <> MTerminate a0 c0) by discriminate. destruct (P4 _ _ H NT) as (y & AY & G). exists y. split; [exact AY|].
    destruct G as [G|G]; [left; exact G | right; right; exact G].
  - intros y [<-|IN]; [exact I | apply P1; exact IN].
  - intros y a0 [<-|IN] T; [discriminate T|]. unfold fbody. rewrite EB'. apply (P5 y a0 IN T).
  - intros a0 p0 d0 IN. rewrite DS in IN. apply (P6 a0 p0 d0). exact IN.
  - intros ci IN. unfold s' in IN. rewrite kl_push_main in IN. apply in_app_or in IN as [IN|IN].
    + apply P3. revert IN. unfold s1. kl_rw. auto.
    + simpl in IN. destruct IN as [<-|[]]. unfold kq. simpl. left. reflexivity.
  - intros ci [E|IN]; [discriminate E | apply P2; exact IN].
Qed.
