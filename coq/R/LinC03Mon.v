(** Layer R proofs: the C03 monitor is the product of two independent monitors
      L (lifecycle): Prep -> Ready -> Zombie / Prep -> Zombie, no method after the notification, exactly one
                     notification, the value dropped once, only after Ready and not after a notification with a
                     cause, is_zombie stable, nothing owed at the end;
      K (cause):     the cause notified is the first stop / fail of the body that asked for it, resp. a kill that
                     was requested, resp. Dropped only without such a request; the value is not dropped while a
                     method of the actor runs.
    [C03_split]: okL t = true -> okK t = true -> C03_ok t = true. *)
From Coq Require Import ZArith NArith List Bool Lia.
From Stk Require Import Lib.U R.Syntax R.Rt R.Mon R.C15Proofs.
Import ListNotations.
Local Open Scope Z_scope.

Record sL := mkL { l_phase : list (N * N); l_notified : list (N * bool); l_valdrop : list N }.
Record sK := mkK { k_reqs : list (N * cause); k_body : option (N * N * option cause); k_expect : list (N * cause) }.

Definition stepL (s : sL) (e : ev) : option sL :=
  match e with
  | EActor a => guard (N.eqb (phase_of (l_phase s) a) 0) (mkL (nset (l_phase s) a 1%N) (l_notified s) (l_valdrop s))
  | EReady a => guard (N.eqb (phase_of (l_phase s) a) 1) (mkL (nset (l_phase s) a 2%N) (l_notified s) (l_valdrop s))
  | EMeth a _ _ | EPrep a _ _ => guard (negb (N.eqb (phase_of (l_phase s) a) 3)) s
  | ENotify a c =>
      guard (match nget (l_notified s) a with Some _ => false | None => true end && negb (N.eqb (phase_of (l_phase s) a) 0))
            (mkL (nset (l_phase s) a 3%N) (nset (l_notified s) a (match c with Some _ => true | None => false end)) (l_valdrop s))
  | EValDrop a =>
      guard (negb (nmem a (l_valdrop s)) &&
             negb (N.eqb (phase_of (l_phase s) a) 0) && negb (N.eqb (phase_of (l_phase s) a) 1) &&
             match nget (l_notified s) a with Some true => false | _ => true end)
            (mkL (l_phase s) (l_notified s) (a :: l_valdrop s))
  | EIsZombie a b => guard (match nget (l_notified s) a with Some _ => b | None => true end) s
  | ELeak k _ => if N.eqb k LK_NOTIFY || N.eqb k LK_VAL then None else Some s
  | _ => Some s
  end.

Definition stepK (s : sK) (e : ev) : option sK :=
  match e with
  | EReq a c =>
      let body := match k_body s with
                  | Some (b, u, None) => if N.eqb a b then (match c with CStop | CFail _ => Some (b, u, Some c) | _ => k_body s end) else k_body s
                  | x => x
                  end in
      Some (mkK ((a, c) :: k_reqs s) body (k_expect s))
  | EMeth a u _ | EPrep a u _ => Some (mkK (k_reqs s) (Some (a, u, None)) (k_expect s))
  | ERun _ _ _ => Some (mkK (k_reqs s) None (k_expect s))
  | EEnd u =>
      match k_body s with
      | Some (a, v, fr) =>
          if N.eqb u v then
            let ex := match fr with Some c => nset (k_expect s) a c | None => k_expect s end in
            Some (mkK (k_reqs s) None ex)
          else Some s
      | None => Some s
      end
  | ENotify a c =>
      guard (match c with
             | Some CDrop => match nget (k_expect s) a with Some _ => false | None => true end
             | Some cc => has_req (k_reqs s) a cc &&
                          match nget (k_expect s) a with Some c0 => cause_eqb cc c0 | None => true end
             | None => true
             end) s
  | EValDrop a => guard (negb (match k_body s with Some (b, _, _) => N.eqb a b | None => false end)) s
  | _ => Some s
  end.

Definition iL : sL := mkL [] [] [].
Definition iK : sK := mkK [] None [].

Definition okL (t : list ev) : bool := fold_mon stepL (fun _ => true) iL t.
Definition okK (t : list ev) : bool := fold_mon stepK (fun _ => true) iK t.

Definition join3 (l : sL) (k : sK) : s03 :=
  mk03 (l_phase l) (l_notified l) (l_valdrop l) (k_reqs k) (k_body k) (k_expect k) [].

Lemma step03_join l k e :
  step03 (join3 l k) e =
    match stepL l e with
    | None => None
    | Some l' => match stepK k e with None => None | Some k' => Some (join3 l' k') end
    end.
Proof.
  destruct l as [ph nt vd]. destruct k as [rq bd ex].
  unfold step03, stepL, stepK, join3; cbn [z_phase z_notified z_valdrop z_reqs z_body z_expect z_live l_phase l_notified l_valdrop k_reqs k_body k_expect].
  destruct e; try reflexivity; unfold guard.
  - (* EMeth *) destruct (negb (N.eqb (phase_of ph a) 3)); reflexivity.
  - (* EPrep *) destruct (negb (N.eqb (phase_of ph a) 3)); reflexivity.
  - (* EEnd *) destruct bd as [[[a v] fr]|]; [|reflexivity]. destruct (N.eqb uid v); reflexivity.
  - (* EActor *) destruct (N.eqb (phase_of ph a) 0); reflexivity.
  - (* EReady *) destruct (N.eqb (phase_of ph a) 1); reflexivity.
  - (* ENotify *)
    destruct (match nget nt a with Some _ => false | None => true end); simpl; [|reflexivity].
    destruct (negb (N.eqb (phase_of ph a) 0)); simpl; [|reflexivity].
    destruct c as [[| | |]|]; simpl; repeat (match goal with |- context [if ?b then _ else _] => destruct b end); reflexivity.
  - (* EValDrop *)
    destruct (negb (nmem a vd)), (negb (N.eqb (phase_of ph a) 0)), (negb (N.eqb (phase_of ph a) 1)),
      (match nget nt a with Some true => false | _ => true end); simpl;
      destruct bd as [[[b u] fr]|]; simpl; try reflexivity; destruct (N.eqb a b); reflexivity.
  - (* EIsZombie *) destruct (match nget nt a with Some _ => b | None => true end); reflexivity.
  - (* ELeak *) destruct (N.eqb kind LK_NOTIFY || N.eqb kind LK_VAL); reflexivity.
Qed.

Lemma monr_join3 t : forall l k,
  monr stepL iL t = Some l -> monr stepK iK t = Some k -> monr step03 i03 t = Some (join3 l k).
Proof.
  induction t as [|e t IH]; simpl; intros l k HL HK.
  - inversion HL; inversion HK; subst. reflexivity.
  - destruct (monr stepL iL t) as [l0|]; [|discriminate]. destruct (monr stepK iK t) as [k0|]; [|discriminate].
    rewrite (IH l0 k0 eq_refl eq_refl), step03_join, HL, HK. reflexivity.
Qed.

Theorem C03_split t : okL t = true -> okK t = true -> C03_ok t = true.
Proof.
  unfold okL, okK, C03_ok. rewrite <- (rev_involutive t). rewrite !fold_mon_rev.
  destruct (monr stepL iL (rev t)) as [l|] eqn:HL; [|discriminate].
  destruct (monr stepK iK (rev t)) as [k|] eqn:HK; [|discriminate].
  rewrite (monr_join3 _ _ _ HL HK). auto.
Qed.
