(** Layer R proofs: C04, slab clauses, part 2: three passes over the handlers.

    [handle_ninv]: a notifier invocation pushed by a micro-op invokes a user Ret, or the notifier field of the actor
    being terminated / freed, or the inner notifier of the slab wrapper being invoked.
    [afr s s']: every cell of s' is a cell of s with the same notifier (or none) and the same slab (or Zombie), or a
    new cell with an empty slab and a plain notifier; every micro-op satisfies it except the act slabadd and the run
    of a slab-removal item, which are described exactly ([slabadd_spec], [slabrm_spec]).
    [handle_evX]: only the invocation of [RKNotify a _] emits [ENotify a _]. *)
From Coq Require Import ZArith NArith List Bool Lia.
From Stk Require Import R.LinEvs R.LinC03K R.Lin R.LinAct R.LinLaw R.LinStep R.LinNin.
From Stk Require Import Lib.U Gen.SrcCount Gen.SrcCore Gen.SrcLog R.Syntax R.Rt R.Mon R.Shape R.Eff R.Tags R.Mono R.Count
  R.Nest R.C15Proofs R.C20Proofs R.Calls R.CallInv R.Own R.OwnLaw R.OwnVis R.C04Mon R.C04Base R.C04A R.C04SK.
Import ListNotations.
Local Open Scope Z_scope.

Arguments submit : simpl never.
Arguments push_main : simpl never.
Arguments timer_add : simpl never.
Arguments emit : simpl never.
Arguments upd_actor : simpl never.
Arguments ref_clone : simpl never.
Arguments new_actor : simpl never.
Arguments log_rec : simpl never.
Arguments tok_script : simpl never.
Arguments target_ev : simpl never.
Arguments push_frame : simpl never.

(* ------------------------------------------------------------------ *)
(** * Where pushed notifier invocations come from *)

Definition nri (l : list mop) : bool := forallb (fun m => match m with MRetInvoke _ _ => false | _ => true end) l.

Lemma nri_app a b : nri (a ++ b) = nri a && nri b. Proof. apply forallb_app. Qed.
Lemma nri_drops l : nri (drops l) = true. Proof. unfold drops. induction l; simpl; auto. Qed.
Lemma nri_slab_drops l : nri (slab_drops l) = true. Proof. induction l as [|[c|n] l IH]; simpl; auto. Qed.
Lemma nri_runitems l : nri (map MRunItem l) = true. Proof. induction l; simpl; auto. Qed.
Lemma nri_dropitems l : nri (map MDropItem l) = true. Proof. induction l; simpl; auto. Qed.
Lemma nri_not l r mm : nri l = true -> ~ In (MRetInvoke r mm) l.
Proof. unfold nri. rewrite forallb_forall. intros F IN. specialize (F _ IN). discriminate F. Qed.
Lemma bind_nri s h v l s' : bind s h v = (l, s') -> nri l = true.
Proof. unfold bind. destruct (aget (env s) h); intros Q; inversion Q; reflexivity. Qed.
Lemma bad_nri s c l s' : bad s c = (l, s') -> nri l = true.
Proof. unfold bad. intros Q; inversion Q; reflexivity. Qed.
Lemma state_drops_nri a sa s l s' : state_drops a sa s = (l, s') -> nri l = true.
Proof.
  unfold state_drops. destruct sa; intros Q; inversion Q; subst; auto.
  - apply nri_dropitems.
  - simpl. rewrite nri_app, nri_drops, nri_slab_drops. reflexivity.
Qed.

Ltac nri_tac :=
  first [ reflexivity
        | (eapply bind_nri; eassumption)
        | (eapply bad_nri; eassumption)
        | (cbn [map app nri forallb]; rewrite ?nri_app, ?nri_drops, ?nri_slab_drops, ?nri_dropitems, ?nri_runitems; reflexivity) ].

Definition nsrc (m : mop) (s : st) (r : ret) (mm : option msg) : Prop :=
  ukind r = true \/
  (exists a c y, m = MTerminate a c /\ aget (actors s) a = Some y /\ a_notify y = Some r /\ mm = Some (MCause c)) \/
  (exists a y v, m = MDropRef a /\ aget (actors s) a = Some y /\ a_notify y = Some r /\ mm = None /\
                 a_freed y = false /\ minrc_drop (a_rc y) = Some (v, true)) \/
  (exists rid p key, m = MRetInvoke (Ret rid (RKSlab p key r)) mm).

Lemma do_act_ninv a s pre s' : cst RBad s = 0 -> do_act a s = (pre, s') ->
  forall r mm, In (MRetInvoke r mm) pre -> ukind r = true.
Proof.
  intros NBS. unfold do_act. destruct a; repeat dest_match; intros Q; inj_pair Q; intros r0 mm IN;
    try solve [exfalso; eapply (nri_not _ r0 mm); [|exact IN]; nri_tac].
  (* ARetSend *)
  destruct IN as [IN|[]]. inversion IN; subst. eapply lookup_ukind; eauto.
Qed.

Lemma handle_ninv mo s pre s' :
  NB mo s -> handle mo s = (pre, s') -> forall r mm, In (MRetInvoke r mm) pre -> nsrc mo s r mm.
Proof.
  intros NBH. pose proof (NB_state _ _ NBH) as NBS. pose proof (NB_mop _ _ NBH) as NBM.
  assert (NIL : nri pre = true -> forall r mm, In (MRetInvoke r mm) pre -> nsrc mo s r mm).
  { intros E r mm H. exfalso. eapply nri_not; eauto. }
  destruct mo; cbn [handle].
  - unfold do_top. destruct o; repeat dest_match; intros Q; inj_pair Q; apply NIL; nri_tac.
  - destruct l as [|a l]; [intros Q; inj_pair Q; apply NIL; nri_tac|]. destruct (do_act a s) as [p s1] eqn:E.
    intros Q; inversion Q; subst. intros r mm IN. apply in_app_or in IN as [IN|[IN|[]]]; [|discriminate IN].
    left. eapply do_act_ninv; eauto.
  - destruct (frames s); intros Q; inj_pair Q; apply NIL; nri_tac.
  - destruct (frames s) as [|fr rest]; intros Q; inj_pair Q; apply NIL; [nri_tac|].
    rewrite nri_app, nri_drops. destruct f; try destruct (f_die fr); try destruct ready; reflexivity.
  - unfold run_item. destruct c as [u0 i kd caps q]. destruct kd; repeat dest_match; intros Q; inj_pair Q; apply NIL; nri_tac.
  - unfold drop_item. destruct c as [u0 i kd caps q]. destruct kd; intros Q; inj_pair Q; apply NIL; nri_tac.
  - intros Q; inj_pair Q; apply NIL; nri_tac.
  - unfold drop_val. destruct v; repeat dest_match; intros Q; inj_pair Q; try (apply NIL; nri_tac).
    (* HRet: a user Ret *)
    intros r0 mm [IN|[]]. inversion IN; subst. left.
    apply nb_real. cbn [cmop] in NBM. rewrite cv_ret in NBM. pose proof (cret_nn RBad r0). pose proof (badif_nn RBad (ukind r0)). lia.
  - unfold drop_own. destruct logged; repeat dest_match; intros Q; inj_pair Q; apply NIL; nri_tac.
  - unfold drop_ref. destruct (aget (actors s) a) as [y|] eqn:A; [|intros Q; inj_pair Q; apply NIL; nri_tac].
    destruct (a_freed y) eqn:FR; [intros Q; inj_pair Q; apply NIL; nri_tac|].
    destruct (minrc_drop (a_rc y)) as [[v z]|] eqn:MD; [|intros Q; inj_pair Q; apply NIL; nri_tac].
    destruct z; [|intros Q; inj_pair Q; apply NIL; nri_tac].
    destruct (state_drops a (a_state y) _) as [dl s2] eqn:SD. pose proof (state_drops_nri _ _ _ _ _ SD) as ND.
    intros Q; inj_pair Q. intros r mm IN. apply in_app_or in IN as [IN|IN]; [|exfalso; eapply nri_not; eauto].
    destruct (a_notify y) as [nt|] eqn:NT; [|destruct IN]. destruct IN as [IN|[]]. inversion IN; subst.
    right. right. left. exists a, y, v. auto 8.
  - (* MRetInvoke *)
    unfold ret_invoke. destruct r as [rid k]. destruct k as [caps b|a ci|a ci|a inner|p key inner].
    + intros Q; inj_pair Q; apply NIL; nri_tac.
    + intros Q; inj_pair Q; apply NIL; nri_tac.
    + destruct m; intros Q; inj_pair Q; apply NIL; nri_tac.
    + destruct inner as [[p ci]|]; intros Q; inj_pair Q; apply NIL; nri_tac.
    + destruct m; intros Q; inj_pair Q; intros r mm IN; right; right; right.
      * destruct IN as [IN|[IN|[]]]; [|discriminate IN]. inversion IN; subst. eauto.
      * destruct IN as [IN|[IN|[]]]; [discriminate IN|]. inversion IN; subst. eauto.
  - intros Q; inj_pair Q; apply NIL; nri_tac.
  - intros Q; inj_pair Q; apply NIL; nri_tac.
  - intros Q; inj_pair Q; apply NIL; nri_tac.
  - intros Q; inj_pair Q; apply NIL; nri_tac.
  - (* MTerminate *)
    unfold terminate. destruct (aget (actors s) a) as [y|] eqn:A; [|intros Q; inj_pair Q; apply NIL; nri_tac].
    destruct (state_drops a (a_state y) _) as [dl s2] eqn:SD. pose proof (state_drops_nri _ _ _ _ _ SD) as ND.
    destruct (a_notify y) as [nt|] eqn:NT; intros Q; inj_pair Q; [|apply NIL; exact ND].
    intros r mm IN. apply in_app_or in IN as [IN|IN]; [exfalso; eapply nri_not; eauto|].
    destruct IN as [IN|[IN|[]]]; [discriminate IN|]. inversion IN; subst.
    right. left. exists a, c, y. auto.
  - destruct (aget (actors s) a); intros Q; inj_pair Q; apply NIL; nri_tac.
  - destruct (aget (actors s) a) as [y|] eqn:A; [destruct (a_state y)|]; intros Q; inj_pair Q; apply NIL; nri_tac.
  - intros Q; inj_pair Q; apply NIL; nri_tac.
  - destruct idle; [destruct (idleq s)|]; intros Q; inj_pair Q; apply NIL; nri_tac.
  - destruct (t >? now (set_mainq s [])).
    + destruct (fire t _) as [fired s2] eqn:FI. intros Q; inj_pair Q; apply NIL; nri_tac.
    + intros Q; inj_pair Q; apply NIL; nri_tac.
  - repeat dest_match; intros Q; inj_pair Q; apply NIL; nri_tac.
  - repeat dest_match; intros Q; inj_pair Q; apply NIL; nri_tac.
  - intros Q; inj_pair Q; apply NIL. rewrite nri_app, nri_dropitems. reflexivity.
  - repeat dest_match; intros Q; inj_pair Q; apply NIL; nri_tac.
  - repeat dest_match; intros Q; inj_pair Q; apply NIL; nri_tac.
  - intros Q; inj_pair Q; apply NIL; nri_tac.
  - intros Q; inj_pair Q; apply NIL; nri_tac.
Qed.

(* ------------------------------------------------------------------ *)
(** * The frame of notifier fields and slabs *)

Definition notrk (c : N) (o : option ret) : Prop := forall r, o = Some r -> exists rid inner, r = Ret rid (RKNotify c inner).

Definition akeep (y y' : actor) : Prop :=
  (a_notify y' = a_notify y \/ a_notify y' = None) /\
  (a_state y' = SZombie \/ (slab_st (a_state y') = slab_st (a_state y) /\ a_state y <> SZombie)).

Definition afr (s s' : st) : Prop :=
  forall c, match aget (actors s) c with
            | Some y => exists y', aget (actors s') c = Some y' /\ akeep y y'
            | None => forall y', aget (actors s') c = Some y' -> slab_st (a_state y') = [] /\ notrk c (a_notify y')
            end.

Lemma akeep_view y y' : a_notify y' = a_notify y -> a_state y' = a_state y -> akeep y y'.
Proof.
  intros A B. split; [left; exact A|]. rewrite B. destruct (a_state y); [right | right | left]; auto; split; auto; discriminate.
Qed.
Lemma akeep_refl y : akeep y y. Proof. apply akeep_view; reflexivity. Qed.
Lemma akeep_trans y1 y2 y3 : akeep y1 y2 -> akeep y2 y3 -> akeep y1 y3.
Proof.
  intros [N1 S1] [N2 S2]. split.
  - destruct N2 as [N2|N2]; [rewrite N2; exact N1 | right; exact N2].
  - destruct S2 as [S2|[S2 Z2]]; [left; exact S2|]. destruct S1 as [S1|[S1 Z1]]; [contradiction|].
    right. split; [congruence | exact Z1].
Qed.
Lemma akeep_new c y y' : slab_st (a_state y) = [] -> notrk c (a_notify y) -> akeep y y' ->
  slab_st (a_state y') = [] /\ notrk c (a_notify y').
Proof.
  intros S NK [NN SS]. split.
  - destruct SS as [SS|[SS _]]; [rewrite SS; reflexivity | congruence].
  - intros r E. destruct NN as [NN|NN]; [apply NK; congruence | congruence].
Qed.

Lemma afr_refl s : afr s s.
Proof. intros c. destruct (aget (actors s) c) as [y|]; [exists y; split; [reflexivity | apply akeep_refl] | intros y' Q; discriminate Q]. Qed.
Lemma afr_trans s1 s2 s3 : afr s1 s2 -> afr s2 s3 -> afr s1 s3.
Proof.
  intros A B c. specialize (A c). specialize (B c). destruct (aget (actors s1) c) as [y1|].
  - destruct A as (y2 & H2 & K2). rewrite H2 in B. destruct B as (y3 & H3 & K3).
    exists y3. split; [exact H3 | eapply akeep_trans; eauto].
  - intros y3 H3. destruct (aget (actors s2) c) as [y2|] eqn:H2.
    + destruct (A y2 eq_refl) as [S2 N2]. destruct B as (y3' & H3' & K3). rewrite H3 in H3'. inversion H3'; subst.
      eapply akeep_new; eauto.
    + apply B. exact H3.
Qed.
Lemma afr_same s s' : actors s' = actors s -> afr s s'.
Proof. intros E c. rewrite E. apply afr_refl. Qed.
Lemma afr_opres s s' : opres s s' -> afr s s'.
Proof.
  intros P c. specialize (P c). destruct (aget (actors s) c) as [y|].
  - destruct P as (y' & A' & (_ & S & NN & _)). exists y'. split; [exact A' | apply akeep_view; auto].
  - intros y' Q. congruence.
Qed.
Lemma afr_upd s p y z : aget (actors s) p = Some z -> akeep z y -> afr s (upd_actor s p y).
Proof.
  intros E K c. unfold upd_actor. cbn [actors set_actors]. destruct (N.eq_dec p c) as [<-|NE].
  - rewrite E, aget_aset_eq. exists y. auto.
  - rewrite aget_aset_neq by auto. destruct (aget (actors s) c) as [yc|]; [exists yc; split; [reflexivity | apply akeep_refl] | intros y' Q; discriminate Q].
Qed.
Lemma afr_fresh s p y : aget (actors s) p = None -> slab_st (a_state y) = [] -> notrk p (a_notify y) -> afr s (upd_actor s p y).
Proof.
  intros E S NK c. unfold upd_actor. cbn [actors set_actors]. destruct (N.eq_dec p c) as [<-|NE].
  - rewrite E, aget_aset_eq. intros y' Q; inversion Q; subst. auto.
  - rewrite aget_aset_neq by auto. destruct (aget (actors s) c) as [yc|]; [exists yc; split; [reflexivity | apply akeep_refl] | intros y' Q; discriminate Q].
Qed.
Lemma afr_new_actor s p nt parent vis : aget (actors s) p = None -> notrk p (Some nt) -> afr s (new_actor s p nt parent vis).
Proof.
  intros E NK c. destruct (N.eq_dec p c) as [<-|NE].
  - rewrite E. destruct (new_actor_get s p nt parent vis) as (y & A & S & NN). intros y' Q. rewrite A in Q. inversion Q; subst.
    rewrite S, NN. auto.
  - rewrite new_actor_other by auto. destruct (aget (actors s) c) as [yc|]; [exists yc; split; [reflexivity | apply akeep_refl] | intros y' Q; discriminate Q].
Qed.

Lemma mk_notifier_shape s a n nt s' : mk_notifier s a n = (nt, s') -> exists rid inner, nt = Ret rid (RKNotify a inner).
Proof. unfold mk_notifier. repeat dest_match; intros Q; inversion Q; eauto. Qed.

(* generic composition *)
Ltac afr_tac :=
  repeat first
    [ match goal with |- afr ?x ?y => constr_eq x y; apply afr_refl end
    | match goal with C : afr ?x ?y |- afr ?x2 ?y2 => constr_eq x x2; constr_eq y y2; exact C end
    | match goal with
      | |- afr _ (emit ?s _) => apply (afr_trans _ s); [ | apply afr_same; apply actors_emit ]
      | |- afr _ (push_main ?s _) => apply (afr_trans _ s); [ | apply afr_same; apply actors_push_main ]
      | |- afr _ (push_frame ?s _ _) => apply (afr_trans _ s); [ | apply afr_same; apply actors_push_frame ]
      | |- afr _ (submit ?s ?q _) => apply (afr_trans _ s); [ | apply afr_same; apply actors_submit ]
      | |- afr _ (timer_add ?s _ _ _ _) => apply (afr_trans _ s); [ | apply afr_same; apply actors_timer_add ]
      | |- afr _ (target_ev ?s _) => apply (afr_trans _ s); [ | apply afr_same; apply target_ev_same ]
      | |- afr _ (log_rec ?s _ _ _ _) => apply (afr_trans _ s); [ | apply afr_same; apply log_rec_actors ]
      | |- afr _ (ref_clone ?s _) => apply (afr_trans _ s); [ | apply afr_opres; apply opres_ref_clone ]
      | |- afr _ (set_alive ?s _) => apply (afr_trans _ s); [ | apply afr_same; apply actors_set_alive ]
      | |- afr _ (set_now ?s _) => apply (afr_trans _ s); [ | apply afr_same; apply actors_set_now ]
      | |- afr _ (set_start ?s _) => apply (afr_trans _ s); [ | apply afr_same; apply actors_set_start ]
      | |- afr _ (set_mainq ?s _) => apply (afr_trans _ s); [ | apply afr_same; apply actors_set_mainq ]
      | |- afr _ (set_lazyq ?s _) => apply (afr_trans _ s); [ | apply afr_same; apply actors_set_lazyq ]
      | |- afr _ (set_idleq ?s _) => apply (afr_trans _ s); [ | apply afr_same; apply actors_set_idleq ]
      | |- afr _ (set_timers ?s _) => apply (afr_trans _ s); [ | apply afr_same; apply actors_set_timers ]
      | |- afr _ (set_tnext ?s _) => apply (afr_trans _ s); [ | apply afr_same; apply actors_set_tnext ]
      | |- afr _ (set_tvars ?s _) => apply (afr_trans _ s); [ | apply afr_same; apply actors_set_tvars ]
      | |- afr _ (set_recreate ?s _) => apply (afr_trans _ s); [ | apply afr_same; apply actors_set_recreate ]
      | |- afr _ (set_fwds ?s _) => apply (afr_trans _ s); [ | apply afr_same; apply actors_set_fwds ]
      | |- afr _ (set_env ?s _) => apply (afr_trans _ s); [ | apply afr_same; apply actors_set_env ]
      | |- afr _ (set_frames ?s _) => apply (afr_trans _ s); [ | apply afr_same; apply actors_set_frames ]
      | |- afr _ (set_nuid ?s _) => apply (afr_trans _ s); [ | apply afr_same; apply actors_set_nuid ]
      | |- afr _ (set_logseq ?s _) => apply (afr_trans _ s); [ | apply afr_same; apply actors_set_logseq ]
      | |- afr _ (set_logfilter ?s _) => apply (afr_trans _ s); [ | apply afr_same; apply actors_set_logfilter ]
      | |- afr _ (set_haslogger ?s _) => apply (afr_trans _ s); [ | apply afr_same; apply actors_set_haslogger ]
      | |- afr _ (set_shut ?s _) => apply (afr_trans _ s); [ | apply afr_same; apply actors_set_shut ]
      | |- afr _ (set_tr ?s _) => apply (afr_trans _ s); [ | apply afr_same; apply actors_set_tr ]
      | |- afr _ (if ?b then _ else _) => destruct b
      | |- afr _ ?s' =>
          match goal with
          | E : take ?s _ = (_, s') |- _ => apply (afr_trans _ s); [ | apply afr_same; apply (take_same _ _ _ _ E) ]
          | E : take_caps _ ?s = (_, s') |- _ => apply (afr_trans _ s); [ | apply afr_same; apply (take_caps_same _ _ _ _ E) ]
          | E : bind ?s _ _ = (_, s') |- _ => apply (afr_trans _ s); [ | apply afr_same; revert E; unfold bind; repeat dest_match; intros Q; inversion Q; reflexivity ]
          | E : bad ?s _ = (_, s') |- _ => apply (afr_trans _ s); [ | apply afr_same; unfold bad in E; inversion E; reflexivity ]
          | E : inst _ _ ?s = (_, s') |- _ => apply (afr_trans _ s); [ | apply afr_same; apply (inst_same _ _ _ _ _ E) ]
          | E : inst_call _ _ ?s = (_, s') |- _ => apply (afr_trans _ s); [ | apply afr_same; apply (inst_call_same _ _ _ _ _ E) ]
          | E : inst_nocaps _ _ ?s = (_, s') |- _ => apply (afr_trans _ s); [ | apply afr_same; apply (inst_nocaps_same _ _ _ _ _ E) ]
          | E : mk_notifier ?s _ _ = (_, s') |- _ => apply (afr_trans _ s); [ | apply afr_opres; apply (mk_notifier_O 0 _ _ _ _ _ E) ]
          end
      end ].

Ltac af_all := solve [intros Q; try injp Q; afr_tac].
Ltac af_view := apply akeep_view; reflexivity.

(* what slabadd does, when it succeeds *)
Definition slabadd_ok (s s' : st) (a : N) : Prop :=
  exists p px sh slab nx inner slab' nx' key rid inn,
    cur_ctx s = XCx p false /\ aget (actors s) p = Some px /\ a_state px = SReady sh slab nx /\ aget (actors s) a = None /\
    a <> p /\ slab_insert slab nx a = (slab', nx', key) /\ inner = Ret rid (RKNotify a inn) /\
    (exists ya, aget (actors s') a = Some ya /\ a_notify ya = Some (Ret a (RKSlab p key inner)) /\ a_state ya = SPrep []) /\
    (exists yp, aget (actors s') p = Some yp /\ a_state yp = SReady sh slab' nx' /\ a_notify yp = a_notify px) /\
    (forall c, c <> a -> c <> p ->
       match aget (actors s) c with
       | Some y => exists y', aget (actors s') c = Some y' /\ a_notify y' = a_notify y /\ a_state y' = a_state y
       | None => aget (actors s') c = None
       end).

Lemma do_act_afr act s pre s' :
  do_act act s = (pre, s') -> afr s s' \/ (exists h a n, act = ASlabAdd h a n /\ slabadd_ok s s' a).
Proof.
  unfold do_act. destruct act.
  all: try (timeout 5 (solve [lft; repeat dest_match; af_all])).
  - (* ANewActor *)
    lft. destruct (has_core s); [|af_all].
    destruct (aget (actors s) a) eqn:AA; [af_all|].
    destruct (mk_notifier s a n) as [nt s1] eqn:MK. intros Q.
    destruct (mk_notifier_O 0 _ _ _ _ _ MK) as (_ & _ & MP).
    destruct (mk_notifier_shape _ _ _ _ _ MK) as (rid & inn & ->).
    apply (afr_trans _ s1); [apply afr_opres; exact MP|].
    apply (afr_trans _ (new_actor s1 a (Ret rid (RKNotify a inn)) (ctx_logid s) true)).
    { apply afr_new_actor; [apply (opres_none _ _ _ MP AA)|]. intros r E. inversion E; eauto. }
    apply afr_same. revert Q. unfold bind. repeat dest_match; intros Q; inversion Q; reflexivity.
  - (* AKillAsync *)
    lft. destruct (lookup s h) as [[p|p|p|r|f|t sc]|]; try af_all.
    destruct (aget (actors s) p) as [y|] eqn:AY; [|af_all].
    intros Q; injp Q. set (s1 := upd_actor s p (with_strong y (oz (count_inc (a_strong y))))).
    assert (C1 : afr s s1) by (apply (afr_upd _ _ _ y AY); af_view).
    afr_tac.
  - (* AOwned *)
    lft. destruct (lookup s h) as [[p|p|p|r|f|t sc]|]; try af_all.
    destruct (aget (actors s) p) as [y|] eqn:AY; [|af_all].
    intros Q. set (s1 := upd_actor s p (with_strong y (oz (count_inc (a_strong y))))) in *.
    assert (C1 : afr s s1) by (apply (afr_upd _ _ _ y AY); af_view).
    afr_tac.
  - (* AStore *)
    lft. destruct (cur_ctx s) as [|p pr|]; try af_all. destruct pr; try af_all.
    destruct (aget (actors s) p) as [y|] eqn:AY; [|af_all].
    destruct (a_state y) eqn:SA; try af_all.
    destruct (take s h) as [[v|] s1] eqn:TK; intros Q; injp Q.
    + apply (afr_trans _ s1); [apply afr_same; apply (take_same _ _ _ _ TK)|].
      apply (afr_upd s1 p _ y); [rewrite (proj1 (take_same _ _ _ _ TK)); exact AY|].
      split; [left; reflexivity|]. right. rewrite SA. split; [reflexivity | discriminate].
    + apply afr_same; apply (take_same _ _ _ _ TK).
  - (* ASlabAdd *)
    destruct (cur_ctx s) as [|p pr|] eqn:CC; try solve [lft; af_all]. destruct pr; try solve [lft; af_all].
    destruct (alive s); try solve [lft; af_all].
    destruct (aget (actors s) p) as [px|] eqn:AP; try solve [lft; af_all].
    destruct (aget (actors s) a) eqn:AA; try solve [lft; af_all].
    destruct (a_state px) eqn:SP; try solve [lft; af_all].
    destruct (mk_notifier s a n) as [inner s1] eqn:MK.
    destruct (slab_insert slab snext a) as [[slab' nx'] key] eqn:SI.
    intros Q. right. exists h, a, n. split; [reflexivity|].
    destruct (mk_notifier_O 0 _ _ _ _ _ MK) as (_ & _ & MP).
    destruct (mk_notifier_shape _ _ _ _ _ MK) as (rid & inn & EI).
    pose proof (opres_trans _ _ _ MP (opres_ref_clone s1 p)) as P2.
    set (s3 := new_actor (ref_clone s1 p) a (Ret a (RKSlab p key inner)) (a_logid px) false) in *.
    assert (NE : a <> p) by (intros ->; congruence).
    destruct (opres_some _ _ _ _ P2 AP) as (y2 & A2 & V2).
    assert (A3 : aget (actors s3) p = Some y2) by (unfold s3; rewrite new_actor_other by auto; exact A2).
    destruct (opres_some _ _ _ _ (opres_ref_clone s3 a) A3) as (y4 & A4 & V4).
    rewrite A4 in Q.
    assert (AS : actors s' = actors (upd_actor (ref_clone s3 a) p (with_state y4 (SReady sh slab' nx')))).
    { revert Q. unfold bind. repeat dest_match; intros Q; inversion Q; reflexivity. }
    exists p, px, sh, slab, snext, inner, slab', nx', key, rid, inn.
    repeat (split; [solve [auto]|]).
    destruct (new_actor_get (ref_clone s1 p) a (Ret a (RKSlab p key inner)) (a_logid px) false) as (ya & AYA & SYA & NYA).
    fold s3 in AYA.
    destruct (opres_some _ _ _ _ (opres_ref_clone s3 a) AYA) as (ya4 & AYA4 & VA4).
    destruct V2 as (_ & S2 & N2 & _), V4 as (_ & S4 & N4 & _), VA4 as (_ & SA4 & NA4 & _).
    split; [|split].
    + exists ya4. rewrite AS. unfold upd_actor. cbn [actors set_actors]. rewrite aget_aset_neq by auto.
      split; [exact AYA4|]. split; congruence.
    + eexists. rewrite AS. unfold upd_actor. cbn [actors set_actors]. rewrite aget_aset_eq. split; [reflexivity|].
      cbn [a_state a_notify with_state]. split; [reflexivity | congruence].
    + intros c NA NP. rewrite AS. unfold upd_actor. cbn [actors set_actors]. rewrite aget_aset_neq by auto.
      pose proof (P2 c) as PC. destruct (aget (actors s) c) as [y|] eqn:AC.
      * destruct PC as (yc & AC2 & (_ & SC & NC & _)).
        assert (AC3 : aget (actors s3) c = Some yc) by (unfold s3; rewrite new_actor_other by auto; exact AC2).
        destruct (opres_some _ _ _ _ (opres_ref_clone s3 a) AC3) as (yc4 & AC4 & (_ & SC4 & NC4 & _)).
        exists yc4. split; [exact AC4|]. split; congruence.
      * assert (AC3 : aget (actors s3) c = None) by (unfold s3; rewrite new_actor_other by auto; exact PC).
        apply (opres_none _ _ _ (opres_ref_clone s3 a) AC3).
Qed.

(* what running a slab-removal item does, when it finds its entry *)
Definition slabrm_ok (c : citem) (s : st) (pre : list mop) (s' : st) : Prop :=
  exists p key y sh slab nx child,
    ci_kind c = KSlabRm p key /\ aget (actors s) p = Some y /\ a_state y = SReady sh slab nx /\
    nth_error slab (N.to_nat key) = Some (SOcc child) /\ pre = [MDropOwn child false; MDropRef p] /\
    s' = upd_actor s p (with_state y (SReady sh (list_set slab (N.to_nat key) (SVac nx)) key)).

Lemma handle_afr m s pre s' :
  handle m s = (pre, s') ->
  afr s s' \/ (exists h a n l, m = MActs (ASlabAdd h a n :: l) /\ slabadd_ok s s' a) \/
  (exists c, m = MRunItem c /\ slabrm_ok c s pre s').
Proof.
  destruct m; cbn [handle].
  - lft. unfold do_top. destruct o; repeat dest_match; af_all.
  - destruct l as [|act l]; [lft; af_all|].
    destruct (do_act act s) as [p s1] eqn:E. intros Q; injp Q.
    destruct (do_act_afr _ _ _ _ E) as [C|(h & a & n & -> & C)]; [left; exact C | right; left; eauto 8].
  - lft. destruct (frames s) as [|fr rest]; af_all.
  - lft. destruct (frames s) as [|fr rest]; af_all.
  - (* MRunItem *)
    unfold run_item. destruct c as [u i kd caps q]. destruct kd.
    + lft. af_all.
    + lft. destruct (aget (actors s) a) as [y|] eqn:A; [destruct (a_state y) eqn:SA|]; try af_all.
      intros Q; injp Q. apply (afr_upd _ _ _ y A). split; [left; reflexivity|]. right. rewrite SA. split; [reflexivity | discriminate].
    + lft. destruct (aget (actors s) a) as [y|] eqn:A; [destruct (ob (count_is_prep (a_strong y)))|]; af_all.
    + destruct (aget (actors s) p) as [y|] eqn:A; [destruct (a_state y) eqn:SA|]; try solve [lft; af_all].
      * lft. intros Q; injp Q. apply (afr_upd _ _ _ y A). split; [left; reflexivity|]. right. rewrite SA. split; [reflexivity | discriminate].
      * destruct (nth_error slab (N.to_nat key)) as [[child|nx]|] eqn:NE; try solve [lft; af_all].
        intros Q; injp Q. right. right. eexists. split; [reflexivity|].
        exists p, key, y, sh, slab, snext, child. auto 8.
    + lft. af_all.
    + lft. af_all.
  - lft. unfold drop_item. destruct c as [u i kd caps q]. destruct kd; af_all.
  - lft. af_all.
  - lft. unfold drop_val. destruct v; try af_all.
    + repeat dest_match; af_all.
    + intros Q; injp Q. apply (afr_trans _ (emit s (ETokDrop t))); [afr_tac | apply afr_same; apply tok_script_actors].
  - (* MDropOwn *)
    lft. unfold drop_own. set (s0 := if logged then emit s (EOwnDrop a) else s).
    assert (C0 : afr s s0) by (unfold s0; destruct logged; afr_tac).
    destruct (aget (actors s0) a) as [y|] eqn:AY.
    + destruct (count_dec (a_strong y)) as [[v z]|] eqn:CD.
      * assert (C1 : afr s (upd_actor s0 a (with_strong y v))).
        { apply (afr_trans _ s0); [exact C0|]. apply (afr_upd _ _ _ y AY). af_view. }
        destruct z; intros Q; injp Q; afr_tac.
      * intros Q; injp Q; afr_tac.
    + intros Q; injp Q; afr_tac.
  - (* MDropRef *)
    lft. unfold drop_ref. destruct (aget (actors s) a) as [y|] eqn:A; [|af_all].
    destruct (a_freed y); [af_all|]. destruct (minrc_drop (a_rc y)) as [[v z]|]; [|af_all].
    destruct z.
    + destruct (state_drops a (a_state y) _) as [dl s2] eqn:SD. intros Q; injp Q.
      destruct (state_drops_h (HO 0) _ _ _ _ _ SD) as [-> _].
      eapply afr_trans; [|apply afr_same; reflexivity]. apply (afr_upd _ _ _ y A). split; [right; reflexivity | left; reflexivity].
    + intros Q; injp Q. apply (afr_upd _ _ _ y A). af_view.
  - lft. unfold ret_invoke. destruct r as [rid k]. destruct k; repeat dest_match; af_all.
  - lft. af_all.
  - lft. af_all.
  - lft. af_all.
  - lft. af_all.
  - (* MTerminate *)
    lft. unfold terminate. destruct (aget (actors s) a) as [y|] eqn:A; [|af_all].
    set (s0 := if a_freed y then emit s (EModel M_UAF a) else s).
    assert (C0 : afr s s0) by (unfold s0; destruct (a_freed y); afr_tac).
    assert (A0 : aget (actors s0) a = Some y) by (unfold s0; destruct (a_freed y); exact A).
    destruct (state_drops a (a_state y) _) as [dl s1] eqn:SD.
    assert (C1 : afr s s1).
    { destruct (state_drops_h (HO 0) _ _ _ _ _ SD) as [-> _].
      apply (afr_trans _ s0); [exact C0|]. apply (afr_upd _ _ _ y A0). split; [right; reflexivity | left; reflexivity]. }
    destruct (a_notify y); intros Q; injp Q; exact C1.
  - lft. destruct (aget (actors s) a); af_all.
  - (* MToReady *)
    lft. destruct (aget (actors s) a) as [y|] eqn:A; [|af_all].
    destruct (a_state y) eqn:SA; try af_all.
    intros Q; injp Q.
    eapply afr_trans; [|apply afr_same; reflexivity]. apply (afr_upd _ _ _ y A).
    split; [left; reflexivity|]. right. rewrite SA. split; [reflexivity | discriminate].
  - lft. unfold fresh_stakker. af_all.
  - lft. destruct idle; [destruct (idleq s)|]; af_all.
  - lft. destruct (t >? now (set_mainq s [])).
    + destruct (fire t (set_now (set_mainq s []) t)) as [fired s2] eqn:FI. unfold fire in FI. injection FI as ? ?; subst.
      af_all.
    + af_all.
  - lft. repeat dest_match; af_all.
  - lft. repeat dest_match; af_all.
  - lft. cbv zeta. af_all.
  - lft. repeat dest_match; af_all.
  - lft. repeat dest_match; af_all.
  - lft. af_all.
  - lft. intros Q; injp Q. apply afr_same. cbn [actors set_tr]. apply class_flags_actors.
Qed.

(* ------------------------------------------------------------------ *)
(** * Where notification events come from *)

Definition pbX (e : ev) : bool := match e with ENotify _ _ => false | _ => true end.

Ltac eiX := repeat ei_step.

Lemma do_act_evX act s pre s' : do_act act s = (pre, s') -> evs_in pbX s s'.
Proof. unfold do_act. destruct act; repeat dest_match; intros Q; try injp Q; eiX. Qed.

Lemma leaks_pbX t : forallb pbX (rev (leaks t)) = true.
Proof. unfold leaks. rewrite <- map_rev. induction (rev (live_after t [])); simpl; auto. Qed.

Lemma handle_evX m s pre s' : handle m s = (pre, s') ->
  evs_in pbX s s' \/
  exists a rid inner mm, m = MRetInvoke (Ret rid (RKNotify a inner)) mm /\ evs_in pbX (emit s (ENotify a (msg_cause mm))) s'.
Proof.
  intros H. destruct m; cbn [handle] in H.
  - left. revert H. unfold do_top. destruct o; repeat dest_match; unfold bad; intros Q; injp Q; eiX.
  - left. revert H. destruct l as [|act l]; [intros Q; injp Q; eiX|].
    destruct (do_act act s) as [p s1] eqn:E. intros Q; injp Q. eapply do_act_evX; eauto.
  - left. revert H. destruct (frames s); intros Q; injp Q; eiX.
  - left. revert H. destruct (frames s); intros Q; injp Q; eiX.
  - left. revert H. unfold run_item. destruct c as [u i kd caps q]. destruct kd; repeat dest_match; intros Q; injp Q; eiX.
  - left. revert H. unfold drop_item. destruct c as [u i kd caps q]. destruct kd; intros Q; injp Q; eiX.
  - left. revert H. intros Q; injp Q; eiX.
  - left. revert H. unfold drop_val. destruct v; repeat dest_match; intros Q; injp Q; eiX.
  - left. revert H. unfold drop_own. repeat dest_match; intros Q; injp Q; eiX.
  - left. revert H. unfold drop_ref. destruct (aget (actors s) a) as [y|]; [|intros Q; injp Q; eiX].
    destruct (a_freed y); [intros Q; injp Q; eiX|]. destruct (minrc_drop (a_rc y)) as [[v z]|]; [|intros Q; injp Q; eiX].
    destruct z; [|intros Q; injp Q; eiX].
    destruct (state_drops a (a_state y) _) as [dl s2] eqn:SD. intros Q; injp Q.
    destruct (state_drops_h (HO 0) _ _ _ _ _ SD) as [-> _]. eiX.
  - (* MRetInvoke *)
    revert H. unfold ret_invoke. destruct r as [rid k]. destruct k as [caps bd|p ci|p ci|p inner|p key inner].
    + intros Q; injp Q; left; eiX.
    + intros Q; injp Q; left; eiX.
    + destruct m; intros Q; injp Q; left; eiX.
    + destruct inner as [[p0 ci]|]; intros Q; injp Q; right; exists p; do 3 eexists; (split; [reflexivity|]); eiX.
    + destruct m; intros Q; injp Q; left; eiX.
  - left. revert H. intros Q; injp Q; eiX.
  - left. revert H. intros Q; injp Q; eiX.
  - left. revert H. intros Q; injp Q; eiX.
  - left. revert H. intros Q; injp Q; eiX.
  - left. revert H. unfold terminate. destruct (aget (actors s) a) as [y|]; [|intros Q; injp Q; eiX].
    destruct (state_drops a (a_state y) _) as [dl s1] eqn:SD.
    destruct (state_drops_h (HO 0) _ _ _ _ _ SD) as [-> _].
    destruct (a_notify y); intros Q; injp Q; eiX.
  - left. revert H. destruct (aget (actors s) a); intros Q; injp Q; eiX.
  - left. revert H. destruct (aget (actors s) a) as [y|]; [destruct (a_state y)|]; intros Q; injp Q; eiX.
  - left. revert H. unfold fresh_stakker. intros Q; injp Q; eiX.
  - left. revert H. destruct idle; [destruct (idleq s)|]; intros Q; injp Q; eiX.
  - left. revert H. destruct (t >? now (set_mainq s [])).
    + destruct (fire t (set_now (set_mainq s []) t)) as [fired s2] eqn:FI. unfold fire in FI. injection FI as ? ?; subst.
      intros Q; injp Q; eiX.
    + intros Q; injp Q; eiX.
  - left. revert H. repeat dest_match; intros Q; injp Q; eiX.
  - left. revert H. repeat dest_match; intros Q; injp Q; eiX.
  - left. revert H. cbv zeta. intros Q; injp Q; eiX.
  - left. revert H. repeat dest_match; intros Q; injp Q; eiX.
  - left. revert H. repeat dest_match; intros Q; injp Q; eiX.
  - left. revert H. intros Q; injp Q; eiX.
  - left. revert H. intros Q; injp Q.
    destruct (class_flags_tr s) as (evs & TE & FE & _).
    exists (rev (leaks (rev (tr (class_flags s)))) ++ evs). cbn [tr set_tr]. rewrite TE, app_assoc. split; [reflexivity|].
    rewrite forallb_app, leaks_pbX. simpl. clear TE. induction FE as [|e l (c & a & -> & _) FE IH]; simpl; auto.
Qed.

Print Assumptions handle_ninv.
Print Assumptions handle_afr.
Print Assumptions handle_evX.
