(** Layer T: a run that advances time preserves the relation between model and specification
    and makes the monitors answer true (no early firing, nothing late, firing order of fixed
    timers, the drain budget). *)
From Coq Require Import ZArith List Bool Lia Sorting.Sorted.
From Stk Require Import Lib.U Gen.SrcTimers T.Bits T.Model T.Spec T.Quant T.Ticks T.Inv T.QueueLemmas
  T.VarLemmas T.InvProofs T.Rel T.RelArith T.SpecLemmas T.RelMoves T.RelOps.
Import ListNotations.
Local Open Scope Z_scope.
Ltac Zify.zify_post_hook ::= Z.div_mod_to_equations.

(** ** pairs in list order *)
Lemma FOP_app_end {A} (R : A -> A -> Prop) l x : ForallOrdPairs R l -> (forall a, In a l -> R a x) -> ForallOrdPairs R (l ++ [x]).
Proof.
  induction 1 as [|a l Ha Hl IH]; intros Hx; cbn [app].
  - constructor; [constructor|constructor].
  - constructor.
    + rewrite Forall_app. split; [assumption|]. constructor; [apply Hx; left; reflexivity|constructor].
    + apply IH. intros b Hb. apply Hx. right. assumption.
Qed.

Lemma all_order_ok_filter (R : tinfo -> tinfo -> Prop) fi :
  ForallOrdPairs R fi ->
  (forall a b, In a fi -> In b fi -> near_fixed a = true -> near_fixed b = true -> R a b -> order_ok a b = true) ->
  all_order_ok (filter near_fixed fi) = true.
Proof.
  induction 1 as [|a l Ha Hl IH]; intros H; cbn [filter]; [reflexivity|].
  assert (IH' : all_order_ok (filter near_fixed l) = true).
  { apply IH. intros x y Hx Hy. apply H; right; assumption. }
  destruct (near_fixed a) eqn:Na; [|assumption]. cbn [all_order_ok]. rewrite IH'. rewrite andb_true_r.
  apply forallb_forall. intros b Hb. apply filter_In in Hb. destruct Hb as [Hb Nb].
  apply H; [left; reflexivity|right; assumption|assumption|assumption|]. rewrite Forall_forall in Ha. auto.
Qed.

(** ** firing one callback in the specification *)
Lemma fire_one cn l t : NoDup (map ti_id l) -> In t l -> ti_stat t = Pending ->
  exists l1 l2, l = l1 ++ t :: l2 /\
    forall v fi, fire_all cn [ti_id t] l v fi =
      (l1 ++ set_stat Fired t :: l2, v_and v (mkV (ti_eff t <=? cn) true true true true true), fi ++ [t]).
Proof.
  intros N Ht Hp. pose proof (find_id_In l t N Ht) as Ef.
  destruct (find_id_split _ _ _ Ef) as (l1 & l2 & El & _ & _ & Hu). exists l1, l2. split; [assumption|].
  intros v fi. cbn [fire_all]. rewrite Ef, Hp, Hu. reflexivity.
Qed.

(** ** the potential under a change of one timer *)
Lemma Phi_split s l1 t l2 :
  Phi s (l1 ++ t :: l2) = Phi s l1 + (if is_pending (ti_stat t) then pterm s t else 0) + Phi s l2.
Proof.
  rewrite !Phi_tsum, pending_app, tsum_app. unfold pending at 2. cbn [filter]. fold (pending l2).
  destruct (is_pending (ti_stat t)); cbn [tsum]; lia.
Qed.

Lemma Phi_ext s s' l : (forall x, In x l -> ti_stat x = Pending -> pterm s' x = pterm s x) -> Phi s' l = Phi s l.
Proof. intros H. rewrite !Phi_tsum. apply tsum_ext. intros x Hx. apply pending_In in Hx. apply H; tauto. Qed.

Lemma Phi_nonneg_gen s l : (forall x, In x l -> ti_stat x = Pending -> 0 <= pterm s x) -> 0 <= Phi s l.
Proof. intros H. rewrite Phi_tsum. apply tsum_nonneg. intros x Hx. apply pending_In in Hx. apply H; tauto. Qed.

Lemma pterm_nonneg s x : 0 <= pterm s x.
Proof.
  unfold pterm. destruct (FIX <=? ti_slot x); [lia|]. destruct (vget (var s) (ti_slot x)) as [vs|]; [|lia].
  destruct (curr_of vs), (expiry_of vs); try lia. pose proof (phi_pos (z0 - z)). lia.
Qed.

Lemma Phi_nonneg s l : 0 <= Phi s l.
Proof. apply Phi_nonneg_gen. intros. apply pterm_nonneg. Qed.

Lemma pterm_fixed s t : FIX <= ti_slot t -> pterm s t = 1.
Proof. intros H. unfold pterm. destruct (Z.leb_spec FIX (ti_slot t)); [reflexivity|lia]. Qed.

Lemma pterm_var s t g it c ex : ti_slot t < FIX -> vget (var s) (ti_slot t) = Some (mkVS g it) -> live_item it c ex ->
  pterm s t = phi (ex - c).
Proof.
  intros H Hg Hl. unfold pterm. destruct (Z.leb_spec FIX (ti_slot t)); [lia|]. rewrite Hg.
  destruct (live_item_facts it c ex g Hl) as (A & B & _). rewrite A, B. reflexivity.
Qed.

Lemma item_for_live k ex c : live_item (item_for k ex c) c ex.
Proof. destruct k; cbn; [left|left|right]; reflexivity. Qed.

(** other pending timers do not use the var slot of [e] *)
Lemma other_slot bf now0 s hd l1 t l2 e x :
  RelH bf now0 s hd (l1 ++ t :: l2) -> PH now0 s hd -> tied now0 s t e -> In e (hd ++ queue s) ->
  In x (l1 ++ l2) -> ti_stat x = Pending -> ti_slot x < FIX -> ti_slot x <> e_slot e.
Proof.
  intros R P Ht He Hx Hp Hv Es.
  destruct (r_t2q _ _ _ _ _ R x ltac:(apply in_mid; right; assumption) Hp) as (y & Hy & Hxy).
  assert (y = e).
  { destruct Hxy as (_ & Sy & _). eapply PH_slot_unique; eauto; lia. }
  subst y. apply (NoDup_mid_notin ti_id l1 t l2 (r_ids _ _ _ _ _ R) x Hx).
  destruct Hxy as (A & _). destruct Ht as (B & _). congruence.
Qed.

Lemma pterm_ext s s' x : (FIX <= ti_slot x \/ vget (var s') (ti_slot x) = vget (var s) (ti_slot x)) -> pterm s' x = pterm s x.
Proof. intros [H|H]; [rewrite !pterm_fixed by assumption; reflexivity|]. unfold pterm. rewrite H. reflexivity. Qed.

(** an entry of the head is not in the rest of the head nor in the queue *)
Lemma hd_notin now0 s e hd : PH now0 s (e :: hd) -> Tof now0 (e_wt e) <= now s -> ~ In e (hd ++ queue s).
Proof.
  intros P HT Hin. apply in_app_or in Hin. destruct Hin as [Hin|Hin].
  - pose proof (h_hd_sorted _ _ _ P) as S. inversion S as [|? ? _ Hf]; subst. rewrite Forall_forall in Hf.
    eapply klt_irrefl. apply (Hf e Hin).
  - pose proof (h_entries _ _ _ P) as F. rewrite Forall_forall in F. specialize (F e Hin).
    pose proof (h_now0 _ _ _ P) as Hn.
    rewrite (Tof_rebase now0 (now s) e ltac:(lia) ltac:(lia) F) in HT.
    destruct (entry_T_range (now s) e ltac:(lia) F). lia.
Qed.

(** ** the invariant of the loop over the head, on the specification side *)
Definition Rfix (a b : tinfo) : Prop := FIX <= ti_slot a -> FIX <= ti_slot b -> tlt a b.

Definition XH (bf : bool) (ns : Z) (linit : list tinfo) (now0 Cst : Z) (s : tstate) (hd : list entry) (f : list Z) : Prop :=
  cnow s = ns /\ exists l fi,
    fire_all ns f linit v_ok [] = (l, v_ok, fi) /\ RelH bf now0 s hd l /\
    Forall (fun e => Tof now0 (e_wt e) <= now s) hd /\
    (forall y vs c, In y hd -> e_slot y < FIX -> vget (var s) (e_slot y) = Some vs -> curr_of vs = Some c -> c <= now s) /\
    ForallOrdPairs Rfix fi /\
    (forall a b, In a fi -> In b l -> is_pend b -> Rfix a b) /\
    (forall t, In t l -> is_pend t -> In t linit) /\
    (forall a, In a fi -> In a linit /\ is_pend a) /\
    Phi s l - Z.of_nat (length hd) <= Cst.

Lemma free_slot_cnow s i s1 : free_slot s i = Some s1 -> cnow s1 = cnow s.
Proof.
  unfold free_slot. destruct (vget (var s) i) as [vs|]; [|discriminate]. destruct (item vs); intros H; try discriminate; injection H as <-; reflexivity.
Qed.

Lemma v_and_ok_true : v_and v_ok (mkV true true true true true true) = v_ok.
Proof. reflexivity. Qed.

Lemma xh_step bf ns linit now0 Cst target s e hd f s1 d :
  0 <= ns -> target = floor_ns ns ->
  PH now0 s (e :: hd) -> now s <= target -> XH bf ns linit now0 Cst s (e :: hd) f ->
  step_kind e target s s1 d -> PH now0 s1 hd -> now s1 = now s ->
  XH bf ns linit now0 Cst s1 hd (f ++ d).
Proof.
  intros Hns Etg P Hnt (Hcn & l & fi & Efire & R & Hfa & Hcurr & Hfop & Hord & Hsub1 & Hsub2 & Hphi) SK P1 En1.
  assert (Hein : In e ((e :: hd) ++ queue s)) by (left; reflexivity).
  destruct (r_q2t _ _ _ _ _ R e Hein) as (t & Htl & Hp & Ht).
  pose proof (Forall_inv Hfa) as HTe. pose proof (Forall_inv_tail Hfa) as Hfa'. cbv beta in HTe.
  pose proof (hd_notin now0 s e hd P HTe) as Hnotin.
  assert (Hmem_drop : forall y, In y (hd ++ queue s) <-> In y ((e :: hd) ++ queue s) /\ y <> e).
  { intros y. cbn [app In]. split; [intros H; split; [right; assumption|intros ->; contradiction]|intros [[<-|H] N]; [contradiction|assumption]]. }
  destruct (fire_one ns l t (r_ids _ _ _ _ _ R) Htl Hp) as (l1 & l2 & El & Hfire1).
  assert (Hid : ti_id t = e_cb e) by (destruct Ht as (A & _); exact A).
  assert (R' : RelH bf now0 s (e :: hd) (l1 ++ t :: l2)) by (rewrite <- El; exact R).
  assert (Hother : forall x, In x (l1 ++ l2) -> ti_stat x = Pending -> ti_slot x < FIX -> ti_slot x <> e_slot e).
  { intros x Hx Hxp V. exact (other_slot bf now0 s (e :: hd) l1 t l2 e x R' P Ht Hein Hx Hxp V). }
  (* firing [t]: common part *)
  assert (Fire : ti_eff t <= ns -> cnow s1 = cnow s -> seq s1 = seq s -> queue s1 = queue s ->
    (forall j, j <> e_slot e \/ FIX <= e_slot e -> vget (var s1) j = vget (var s) j) ->
    (e_slot e < FIX -> exists vs', vget (var s1) (e_slot e) = Some vs' /\ ti_g t < gnn vs') ->
    1 <= pterm s t ->
    XH bf ns linit now0 Cst s1 hd (f ++ [e_cb e])).
  { intros Hearly Ec Esq Eq Hoth Hfree Hpt. split; [congruence|].
    exists (l1 ++ set_stat Fired t :: l2), (fi ++ [t]).
    assert (Rk : RelH bf now0 s1 hd (l1 ++ set_stat Fired t :: l2)).
    { eapply relh_kill with (e := e); [exact R'|exact P|exact Hp|exact Ht|exact Hein|discriminate|lia|assumption| |assumption|assumption].
      rewrite Eq. exact Hmem_drop. }
    split; [|split; [exact Rk|]].
    { rewrite fire_all_app, Efire, <- Hid, Hfire1. destruct (Z.leb_spec (ti_eff t) ns); [reflexivity|lia]. }
    assert (Hpend' : forall b, In b (l1 ++ set_stat Fired t :: l2) -> is_pend b -> In b (l1 ++ l2) /\ In b l).
    { intros b Hb Hbp. apply in_mid in Hb. destruct Hb as [->|Hb]; [discriminate Hbp|]. split; [assumption|]. rewrite El. apply in_mid. right. assumption. }
    split; [rewrite En1; assumption|]. split.
    { intros y vs c Hy Hyv Hg Hc. rewrite En1. apply (Hcurr y vs c); [right; assumption|assumption| |assumption].
      rewrite <- Hoth; [assumption|]. left. destruct (hd_distinct_inv _ _ (h_dist _ _ _ P)) as [Hd _].
      destruct (Z.lt_ge_cases (e_slot e) FIX) as [V|F]; [apply Hd; assumption|lia]. }
    split; [apply FOP_app_end; [assumption|]; intros a Ha; apply Hord; assumption|].
    split.
    { intros a b Ha Hb Hbp. destruct (Hpend' b Hb Hbp) as [Hb1 Hb2]. apply in_app_or in Ha. destruct Ha as [Ha|[<-|[]]]; [auto|].
      intros Fa Fb. (* t fired before b: the key of b is larger *)
      destruct (r_t2q _ _ _ _ _ R b Hb2 Hbp) as (y & Hy & Hby).
      assert (Hye : y <> e).
      { intros ->. apply (NoDup_mid_notin ti_id l1 t l2 ltac:(rewrite <- El; apply (r_ids _ _ _ _ _ R)) b Hb1).
        destruct Hby as (A & _). congruence. }
      destruct Ht as (_ & St & [(_ & _ & _ & HTt)|(V & _)]); [|lia].
      destruct Hby as (_ & Sb & [(_ & _ & _ & HTb)|(V & _)]); [|lia].
      destruct Hy as [<-|Hy]; [contradiction|]. apply in_app_or in Hy. destruct Hy as [Hy|Hy].
      - pose proof (h_hd_sorted _ _ _ P) as S. inversion S as [|? ? _ Hf]; subst. rewrite Forall_forall in Hf.
        specialize (Hf y Hy). unfold klt in Hf. unfold tlt. rewrite <- HTt, <- HTb, St, Sb. exact Hf.
      - pose proof (h_entries _ _ _ P) as F. rewrite Forall_forall in F. specialize (F y Hy).
        pose proof (h_now0 _ _ _ P) as Hn. pose proof (Tof_rebase now0 (now s) y ltac:(lia) ltac:(lia) F) as ET.
        destruct (entry_T_range (now s) y ltac:(lia) F). unfold tlt. left. lia. }
    split; [intros b Hb Hbp; apply Hsub1; [apply (Hpend' b Hb Hbp)|assumption]|].
    split.
    { intros a Ha. apply in_app_or in Ha. destruct Ha as [Ha|[<-|[]]]; [auto|]. split; [apply Hsub1; assumption|assumption]. }
    assert (Epend : forall x, In x (l1 ++ l2) -> ti_stat x = Pending -> pterm s1 x = pterm s x).
    { intros x Hx Hxp. apply pterm_ext. destruct (Z.lt_ge_cases (ti_slot x) FIX) as [V|F]; [right|left; assumption].
      apply Hoth. left. apply Hother; assumption. }
    rewrite Phi_split. cbn [set_stat ti_stat is_pending].
    rewrite (Phi_ext s s1 l1), (Phi_ext s s1 l2) by (intros x Hx; apply Epend; apply in_or_app; auto).
    rewrite El, Phi_split in Hphi. unfold is_pend in Hp. rewrite Hp in Hphi. cbn [is_pending length] in Hphi. lia. }
  destruct SK as [Hf -> ->|vs c ex Hv Hg Hc Hex Hle Hfs -> Eq Esq Hg1 Hoth|vs c ex c' it' Hv Hg Hlt Hit Hwin Hce -> -> Hmem].
  - (* fixed timer *)
    destruct Ht as (Ht1 & Ht2 & [(_ & Hk & Hgw & HTt)|(V & _)]); [|lia].
    apply Fire; try reflexivity; try (intros; lia).
    + assert (ceil_ns (ti_eff t) <= floor_ns ns) by (unfold Bt in HTt; lia).
      pose proof (ceil_le_floor _ _ H). lia.
    + rewrite pterm_fixed by lia. lia.
  - (* var timer, expired *)
    destruct (tied_var _ _ _ _ Ht Hv) as (c0 & Hg0 & Hcb & Ee). rewrite Hg in Hg0. injection Hg0 as ->.
    destruct (live_item_facts _ c0 (ceil_ns (ti_eff t)) (ti_g t) (item_for_live (ti_kind t) (ceil_ns (ti_eff t)) c0)) as (A & B & _).
    rewrite A in Hc. injection Hc as <-. rewrite B in Hex. injection Hex as <-.
    apply Fire; try assumption.
    + assert (H : ceil_ns (ti_eff t) <= floor_ns ns) by lia. pose proof (ceil_le_floor _ _ H). lia.
    + eapply free_slot_cnow; eassumption.
    + intros j [Hj|Hj]; [auto|lia].
    + intros _. eexists. split; [exact Hg1|]. cbn [gnn]. lia.
    + destruct Ht as (_ & St & _). rewrite (pterm_var s t (ti_g t) (item_for (ti_kind t) (ceil_ns (ti_eff t)) c0) c0 (ceil_ns (ti_eff t))); [apply phi_pos|lia|rewrite St; assumption|apply item_for_live].
  - (* var timer, re-queued *)
    rewrite app_nil_r. destruct (tied_var _ _ _ _ Ht Hv) as (c0 & Hg0 & Hcb & Ee). rewrite Hg in Hg0. injection Hg0 as ->.
    cbn [gnn item] in *.
    assert (Hkind : ex = ceil_ns (ti_eff t) /\ c = c0 /\ it' = item_for (ti_kind t) (ceil_ns (ti_eff t)) c').
    { destruct Hit as [(Hi & _ & ->)|(Hi & _ & ->)]; destruct (ti_kind t); cbn [item_for] in *; try discriminate; injection Hi as <- <-; auto. }
    destruct Hkind as (-> & -> & ->).
    set (s1 := m_requeue s (e_slot e) (mkVS (ti_g t) (item_for (ti_kind t) (ceil_ns (ti_eff t)) c')) (c' mod M32) (e_cb e)) in *.
    set (e' := (c' mod M32, e_slot e, e_cb e)).
    assert (Hsl : ti_slot t = e_slot e) by (destruct Ht as (_ & S & _); exact S).
    assert (Hoth : forall j, j <> e_slot e -> vget (var s1) j = vget (var s) j).
    { intros j Hj. unfold s1. sproj. apply vget_vset_other; [apply vget_Some_range in Hg; lia|congruence]. }
    assert (Hg1 : vget (var s1) (e_slot e) = Some (mkVS (ti_g t) (item_for (ti_kind t) (ceil_ns (ti_eff t)) c'))).
    { unfold s1. sproj. eapply vget_vset_same; eauto. }
    split; [unfold s1; sproj; assumption|]. exists l, fi. split; [assumption|].
    assert (Rr : RelH bf now0 s1 hd l).
    { rewrite El. eapply relh_retie with (e := e) (e' := e') (t := t) (t' := t); try eassumption; try reflexivity; auto.
      - apply (r_tset _ _ _ _ _ R' t). apply in_mid. left. reflexivity.
      - intros y. specialize (Hmem_drop y). specialize (Hmem y). fold e' in Hmem. rewrite in_app_iff in Hmem_drop |- *. tauto.
      - split; [assumption|split; [assumption|]]. right. cbn [e' e_slot e_wt fst snd]. split; [assumption|].
        exists c'. split; [exact Hg1|split; [unfold Bt; lia|reflexivity]]. }
    split; [exact Rr|]. split; [rewrite En1; assumption|]. split.
    { intros y vs c Hy Hyv Hgy Hc. rewrite En1. apply (Hcurr y vs c); [right; assumption|assumption| |assumption].
      rewrite <- Hoth; [assumption|]. destruct (hd_distinct_inv _ _ (h_dist _ _ _ P)) as [Hd _]. apply Hd; assumption. }
    split; [assumption|split; [assumption|split; [assumption|split; [assumption|]]]].
    (* the potential of t drops *)
    assert (Hc0 : c0 <= now s).
    { apply (Hcurr e _ c0 ltac:(left; reflexivity) Hv Hg). apply live_item_facts with (ex := ceil_ns (ti_eff t)). apply item_for_live. }
    assert (Hdrop : pterm s1 t + 1 <= pterm s t).
    { rewrite (pterm_var s t (ti_g t) (item_for (ti_kind t) (ceil_ns (ti_eff t)) c0) c0 (ceil_ns (ti_eff t))) by (try lia; try (rewrite Hsl; assumption); apply item_for_live).
      rewrite (pterm_var s1 t (ti_g t) (item_for (ti_kind t) (ceil_ns (ti_eff t)) c') c' (ceil_ns (ti_eff t))) by (try lia; try (rewrite Hsl; assumption); apply item_for_live).
      destruct (now_facts _ _ _ P) as [Hnow _].
      destruct Hit as [(_ & -> & _)|(_ & -> & _)]; [apply max_requeue_phi|apply min_requeue_phi]; lia. }
    assert (Epend : forall x, In x (l1 ++ l2) -> ti_stat x = Pending -> pterm s1 x = pterm s x).
    { intros x Hx Hxp. apply pterm_ext. destruct (Z.lt_ge_cases (ti_slot x) FIX) as [V|F]; [right|left; assumption].
      apply Hoth. apply Hother; assumption. }
    rewrite El in *. rewrite Phi_split in *. unfold is_pend in Hp. rewrite Hp in *. cbn [is_pending length] in *.
    rewrite (Phi_ext s s1 l1), (Phi_ext s s1 l2) by (intros x Hx; apply Epend; apply in_or_app; auto). lia.
Qed.

(** ** the invariant at the head of the outer loop *)
Definition QA (bf : bool) (n ns : Z) (linit : list tinfo) (sinit : tstate) (Phi0 : Z) (prog : Prop) (target : Z)
  (s0 : tstate) (f0 : list Z) : Prop :=
  PH (now s0) s0 [] /\ CH n s0 /\ cnow s0 = ns /\ now s0 <= target /\ now sinit <= now s0 /\
  exists l fi,
    fire_all ns f0 linit v_ok [] = (l, v_ok, fi) /\ RelH bf (now s0) s0 [] l /\
    ForallOrdPairs Rfix fi /\
    (forall a b, In a fi -> In b l -> is_pend b -> Rfix a b) /\
    (forall t, In t l -> is_pend t -> In t linit) /\
    (forall a, In a fi -> In a linit /\ is_pend a) /\
    Phi s0 l <= Phi0 /\
    (prog -> (now s0 = now sinit /\ queue s0 = queue sinit) \/ Phi s0 l + 1 <= Phi0).

Lemma relh_rebase' bf now0 s l : RelH bf now0 s [] l -> 0 <= now0 <= now s -> now s <= now0 + WIN ->
  Forall (entry_ok (now s)) (queue s) -> RelH bf (now s) s [] l.
Proof.
  intros R Hn Hn' He. rewrite Forall_forall in He.
  assert (Hk : forall x y, In y (queue s) -> tied now0 s x y -> tied (now s) s x y).
  { intros x y Hy (A & B & K). split; [assumption|split; [assumption|]]. destruct K as [(F & K1 & K2 & K3)|K]; [|right; assumption].
    left. rewrite <- (Tof_rebase now0 (now s) y) by (try lia; auto). auto. }
  destruct R. cbn [app] in *. constructor; cbn [app]; auto.
  - intros y Hy. destruct (r_q2t y Hy) as (x & Hx & Hp & Hxy). exists x. auto.
  - intros x Hx Hp. destruct (r_t2q x Hx Hp) as (y & Hy & Hxy). exists y. auto.
Qed.

Lemma Phi_same_var s s' l : (forall j, vget (var s') j = vget (var s) j) -> Phi s' l = Phi s l.
Proof. intros H. apply Phi_ext. intros x _ _. apply pterm_ext. right. apply H. Qed.

Lemma qa_step bf n ns linit sinit Phi0 (prog : Prop) target s0 f0 :
  0 <= ns -> target = floor_ns ns -> n < HMAX -> target < 2 ^ 49 -> target mod 65536 <= 61035 ->
  (prog -> exists e1 q, queue sinit = e1 :: q /\ Tof (now sinit) (e_wt e1) <= target) ->
  QA bf n ns linit sinit Phi0 prog target s0 f0 -> now s0 < target ->
  exists s1 f1, adv_step target s0 f0 = Some (s1, f1) /\ QA bf n ns linit sinit Phi0 prog target s1 f1 /\
                now s1 = Z.min (now s0 + WIN) target.
Proof.
  intros Hns Etg Hn Hb Hl Hprog (P & C & Hcn & Hnt & Hni & l & fi & Efire & R & Hfop & Hord & Hsub1 & Hsub2 & Hphi & Hpr) Hlt.
  set (n' := Z.min (now s0 + WIN) target).
  pose proof (PH_now_nonneg _ _ _ P) as Hn0.
  destruct (adv_step_ok
    (fun s hd f => exists h0 t0, queue s0 = h0 ++ t0 /\ Forall (fun e => n' < Tof (now s0) (e_wt e)) t0 /\
                   XH bf ns linit (now s0) (Phi s0 l - Z.of_nat (length h0)) s hd f)
    n target s0 f0 P C Hn Hlt Hb Hl) as (s1 & f1 & E & P1 & C1 & N1 & K1 & (h0 & t0 & Eq0 & Ht0 & X1)).
  - (* the invariant holds after the split *)
    intros h t Eq Hh Ht Ph. fold n' in Hh, Ht, Ph |- *. exists h, t. split; [assumption|split; [assumption|]].
    split; [sproj; assumption|]. exists l, fi. split; [assumption|]. split.
    { eapply relh_same; [exact R| | | |]; sproj; try reflexivity; try lia. intros y. cbn [app]. rewrite Eq. reflexivity. }
    split; [sproj; exact Hh|]. split.
    { intros y vs c Hy Hyv Hg Hc. sproj.
      assert (Hyq : In y (queue s0)) by (rewrite Eq; apply in_or_app; left; assumption).
      destruct (h_slots _ _ _ P _ _ Hg) as [_ L]. rewrite Hc in L. destruct (curr_live _ _ Hc) as [_ [ex Hex]]. rewrite Hex in L.
      destruct L as (_ & [[Hw [cb Hin]]|[cb []]]).
      assert (Ey : (c mod M32, e_slot y, cb) = y).
      { eapply PH_slot_unique; [exact P| | |reflexivity|cbn [e_slot fst snd]; assumption]; cbn [app]; assumption. }
      rewrite Forall_forall in Hh. specialize (Hh y Hy). rewrite <- Ey in Hh. cbn [e_wt fst snd] in Hh.
      rewrite (curr_is_T (now s0) c Hn0 Hw) in Hh. exact Hh. }
    split; [assumption|split; [assumption|split; [assumption|split; [assumption|]]]].
    rewrite (Phi_same_var s0) by (intros j; reflexivity). lia.
  - (* one entry *)
    intros s e hd f s' d Ps Cs Hs (h0 & t0 & Eq0 & Ht0 & Xs) Estep SK Ps' Ens. exists h0, t0. split; [assumption|split; [assumption|]].
    eapply xh_step; eauto.
  - destruct X1 as (Hcn1 & l1 & fi1 & Efire1 & R1 & _ & _ & Hfop1 & Hord1 & Hsub11 & Hsub21 & Hphi1).
    cbn [length] in Hphi1. exists s1, f1. split; [assumption|]. split; [|assumption]. fold n' in N1.
    split; [assumption|split; [assumption|split; [congruence|split; [unfold n' in N1; lia|split; [unfold n', WIN in *; lia|]]]]].
    exists l1, fi1. split; [assumption|]. split.
    { apply relh_rebase' with (now0 := now s0); [assumption|unfold n', WIN in *; lia|unfold n', WIN in *; lia|apply (h_entries _ _ _ P1)]. }
    split; [assumption|split; [assumption|split; [assumption|split; [assumption|]]]].
    assert (Hle : Phi s1 l1 <= Phi s0 l - Z.of_nat (length h0)) by lia.
    split; [lia|]. intros Hp. right. destruct (Hpr Hp) as [[En Eqs]|Hdone]; [|lia].
    destruct (Hprog Hp) as (e1 & q & Eq1 & HT1).
    assert (length h0 <> 0)%nat; [|lia]. intros Hz. destruct h0; [|discriminate]. cbn [app] in Eq0.
    rewrite Eqs, Eq1 in Eq0. rewrite <- Eq0 in Ht0. inversion Ht0 as [|? ? Hbad _]; subst.
    pose proof (h_entries _ _ _ P) as F. rewrite Eqs, Eq1 in F. inversion F as [|? ? He1 _]; subst.
    destruct (entry_T_range (now s0) e1 Hn0 He1). rewrite En in *. unfold n' in Hbad. lia.
Qed.

(** ** facts used at the end of the run *)
Lemma update_id_ns id st l : map ti_n (update_id id (set_stat st) l) = map ti_n l.
Proof. induction l as [|a l IH]; [reflexivity|]. cbn [update_id]. destruct (ti_id a =? id); cbn [map]; [reflexivity|rewrite IH; reflexivity]. Qed.

Lemma fire_all_ns cn ids : forall l v fi l' v' fi', fire_all cn ids l v fi = (l', v', fi') -> map ti_n l' = map ti_n l.
Proof.
  induction ids as [|id ids IH]; intros l v fi l' v' fi' H; cbn [fire_all] in H.
  - injection H as <- _ _. reflexivity.
  - destruct (find_id id l); [|eauto]. apply IH in H. rewrite H. apply update_id_ns.
Qed.

Lemma key_le_Bt' s t e : TInv s -> tied (now s) s t e -> Tof (now s) (e_wt e) <= Bt t.
Proof.
  intros I (_ & _ & [(F & _ & _ & HT)|(V & c & Hg & Hc & Hw)]); [lia|].
  destruct (i_slots s I _ _ Hg) as [_ L]. unfold curr_of, expiry_of in L. cbn [item] in L.
  assert (Hwin : now s < c <= now s + WIN) by (destruct (ti_kind t); cbn in L; tauto).
  rewrite Hw. rewrite (curr_is_T (now s) c (TInv_now_nonneg s I) Hwin). assumption.
Qed.

Lemma not_late bf s l : TInv s -> RelH bf (now s) s [] l -> 0 <= cnow s -> existsb (due (cnow s)) l = false.
Proof.
  intros I R Hc. destruct (existsb (due (cnow s)) l) eqn:E; [|reflexivity]. exfalso.
  apply existsb_exists in E. destruct E as (x & Hx & Hd). unfold due in Hd. apply andb_prop in Hd. destruct Hd as [Hp Hd].
  apply Z.leb_le in Hd. assert (Hpx : is_pend x) by (unfold is_pend; destruct (ti_stat x); [reflexivity|discriminate|discriminate]).
  destruct (r_t2q _ _ _ _ _ R x Hx Hpx) as (y & Hy & Hxy). cbn [app] in Hy.
  pose proof (key_le_Bt' s x y I Hxy) as HB. pose proof (i_entries s I) as F. rewrite Forall_forall in F.
  destruct (entry_T_range (now s) y (TInv_now_nonneg s I) (F y Hy)) as [T1 _].
  pose proof (r_tset _ _ _ _ _ R x Hx) as Hts. unfold deadline in Hd.
  pose proof (late_bound (ti_eff x) (ti_tset x) (cnow s) ltac:(lia) Hd) as HL. unfold Bt in HB. pose proof (i_now s I). lia.
Qed.

Lemma phi_bound50 d k : 0 <= k -> d <= (k + 1) * WIN -> d < 2 ^ 50 -> phi d <= 64 + 32 * (k + 1).
Proof.
  intros Hk H Hb. unfold phi, WIN in *.
  set (m := Z.max 0 d). assert (Hm : 0 <= m /\ m <= (k + 1) * 2147418112 /\ m < 2 ^ 50) by (unfold m; lia).
  clearbody m.
  assert (L : Z.log2 (2 * m + 1) < 51).
  { apply Z.log2_lt_pow2; [lia|]. change (2 ^ 51) with (2 * 2 ^ 50). lia. }
  lia.
Qed.

Lemma pterm_bound50 eff cn c : 0 <= cn -> ceil_ns eff < 2 ^ 50 -> floor_ns cn < c ->
  phi (ceil_ns eff - c) <= 64 + 32 * (Z.max 0 (eff - cn) / NEAR + 1).
Proof.
  intros Hcn He Hc.
  set (k := Z.max 0 (eff - cn) / NEAR).
  assert (Hk : 0 <= k) by (unfold k, NEAR; lia).
  assert (Hle : eff <= cn + (k + 1) * NEAR) by (unfold k, NEAR; lia).
  clearbody k.
  pose proof (ceil_mono _ _ Hle).
  pose proof (floor_le_ceil (cn + (k + 1) * NEAR)).
  pose proof (floor_add_near cn (k + 1) Hcn ltac:(lia)).
  pose proof (floor_low16 cn) as [_ ?].
  apply phi_bound50; unfold WIN in *; lia.
Qed.

Lemma Phi_le_budget bf s l : TInv s -> RelH bf (now s) s [] l -> Phi s l + 8 <= drain_budget (cnow s) l.
Proof.
  intros I R. rewrite Phi_tsum, drain_budget_tsum. pose proof (i_cnow s I) as Hc.
  assert (tsum (pterm s) (pending l) <= tsum (fun t => 64 + 32 * (Z.max 0 (ti_eff t - cnow s) / NEAR + 1)) (pending l)); [|lia].
  apply tsum_le. intros x Hx. apply pending_In in Hx. destruct Hx as [Hx Hp].
  assert (Hq : 0 <= Z.max 0 (ti_eff x - cnow s) / NEAR) by (apply Z.div_pos; unfold NEAR; lia).
  destruct (Z.lt_ge_cases (ti_slot x) FIX) as [V|F]; [|rewrite pterm_fixed by assumption; lia].
  destruct (r_t2q _ _ _ _ _ R x Hx Hp) as (y & Hy & Hxy). pose proof Hxy as (_ & Sx & _).
  destruct (tied_var _ _ _ _ Hxy ltac:(lia)) as (c & Hg & _ & _). rewrite <- Sx in Hg.
  rewrite (pterm_var s x (ti_g x) (item_for (ti_kind x) (ceil_ns (ti_eff x)) c) c (ceil_ns (ti_eff x)) V Hg (item_for_live _ _ _)).
  destruct (i_slots s I _ _ Hg) as [_ L].
  destruct (live_item_facts _ c (ceil_ns (ti_eff x)) (ti_g x) (item_for_live (ti_kind x) (ceil_ns (ti_eff x)) c)) as (A & B & _).
  rewrite A, B in L. destruct L as (Hw & [Hex _] & _).
  apply pterm_bound50; [lia|lia|]. rewrite <- (i_now s I). lia.
Qed.

Lemma order_from_keys bf s l a b : RelH bf (now s) s [] l -> bf = true ->
  In a l -> In b l -> near_fixed a = true -> near_fixed b = true -> Rfix a b -> order_ok a b = true.
Proof.
  intros R Hbf Ha Hb Na Nb Hr. unfold near_fixed in Na, Nb.
  destruct (ti_kind a) eqn:Ka; try discriminate. destruct (ti_kind b) eqn:Kb; try discriminate.
  apply Z.ltb_lt in Na. apply Z.ltb_lt in Nb.
  pose proof (r_band _ _ _ _ _ R Hbf a Ha Ka Na) as Fa. pose proof (r_band _ _ _ _ _ R Hbf b Hb Kb Nb) as Fb.
  destruct (r_fixed_eff _ _ _ _ _ R a Ha Ka) as [Ea1 Ea2]. destruct (r_fixed_eff _ _ _ _ _ R b Hb Kb) as [Eb1 Eb2].
  pose proof (r_tset _ _ _ _ _ R a Ha) as Ta. pose proof (r_tset _ _ _ _ _ R b Hb) as Tb.
  specialize (Hr Fa Fb). unfold order_ok, deadline. apply andb_true_intro. split; apply negb_true_iff.
  - apply Z.leb_gt. assert (HB : Bt a <= Bt b) by (unfold tlt in Hr; lia). unfold Bt in HB.
    pose proof (key_order_deadline (ti_eff a) (ti_tset a) (ti_eff b) (ti_tset b) ltac:(lia) ltac:(lia) HB). lia.
  - destruct (Z.eqb_spec (ti_eff0 a) (ti_eff0 b)) as [E1|E1]; [|reflexivity].
    destruct (Z.eqb_spec (ti_t0 a) (ti_t0 b)) as [E2|E2]; [|reflexivity]. cbn [andb].
    apply Z.ltb_ge. destruct (Z.lt_ge_cases (ti_n b) (ti_n a)) as [L|L]; [|assumption]. exfalso.
    pose proof (r_fix_mono _ _ _ _ _ R b a Hb Ha Fb Fa L) as Hs.
    assert (Bt a = Bt b) by (unfold Bt; congruence). unfold tlt in Hr. lia.
Qed.

(** ** the advancing run *)
Lemma step_ORun_adv bf s sp n ns : Inv3 bf s sp n -> n < HMAX -> cnow s < ns -> ns < 2 ^ 61 ->
  step_goal bf s sp n (ORun ns).
Proof.
  intros V Hn Hadv Hnsb. pose proof V as [I C R Hc]. destruct (rl_cnow _ _ _ R) as [Ecn Hcr].
  pose proof (TInv_PH s I) as P. destruct (now_facts _ _ _ P) as [Hnow Hlow].
  destruct (floor_range ns ltac:(unfold TMAX; lia)) as [Hf Hfl].
  set (target := floor_ns ns) in *.
  assert (Hle : now s <= target) by (rewrite (i_now s I); apply floor_mono; lia).
  set (linit := s_timers sp).
  set (prog := exists e1 q, queue s = e1 :: q /\ Tof (now s) (e_wt e1) <= target).
  pose proof (rl_h _ _ _ R) as RH. fold linit in RH.
  (* run the loop *)
  destruct (advance_loop_rule (QA bf n ns linit s (Phi s linit) prog target) target)
    with (fuel := advance_fuel (set_cnow s ns) target) (s := set_cnow s ns) (fired := @nil Z)
    as (s' & f' & E & Q' & G').
  - intros s0 f0 Q0 L0. eapply qa_step; eauto; try lia.
  - split; [destruct P; constructor; sproj; assumption|].
    split; [apply counters_CH in C; destruct C as (C1 & C2 & C3); split; [exact C1|split; [exact C2|exact C3]]|].
    split; [reflexivity|split; [exact Hle|split; [sproj; lia|]]].
    exists linit, []. split; [reflexivity|]. split.
    { eapply relh_same; [exact RH| | | |]; sproj; try reflexivity; try lia. }
    split; [constructor|split; [intros a b []|split; [auto|split; [intros a []|]]]].
    rewrite (Phi_same_var s) by (intros j; reflexivity). split; [lia|]. intros _. left. split; reflexivity.
  - intros L. apply advance_fuel_enough; sproj; lia.
  - destruct Q' as (P' & C' & K' & N' & Ni' & l' & fi & Efire & R' & Hfop & Hord & Hsub1 & Hsub2 & Hphi & Hpr).
    assert (En' : now s' = target) by lia.
    assert (I' : TInv s') by (eapply PH_TInv; [eassumption|rewrite K'; unfold TMAX; lia|rewrite K'; assumption]).
    exists s', (RFired f'). split.
    { cbn [tstep]. destruct (Z.gtb_spec ns (cnow s)) as [_|?]; [|lia]. unfold advance.
      rewrite (t_floor_spec ns ltac:(unfold TMAX; lia)). cbn [obind]. fold target. rewrite E. reflexivity. }
    unfold mon_step, mon_step0. fold linit. rewrite Ecn. destruct (Z.gtb_spec ns (cnow s)) as [_|?]; [|lia].
    replace (Z.max (cnow s) ns) with ns by lia. rewrite Efire.
    cbn [s_cnow s_timers s_count s_last_ne s_drain s_budget negb andb].
    pose proof (not_late bf s' l' I' R' ltac:(lia)) as Hlate. rewrite K' in Hlate. rewrite Hlate.
    destruct (rl_drain _ _ _ R) as (D1 & D2 & D3).
    pose proof (Phi_le_budget bf s linit I RH) as Hbud. pose proof (Phi_nonneg s' l') as Hpn.
    pose proof (drain_budget_pos (cnow s) linit) as Hbp.
    set (at_ne := match s_last_ne sp with Some (Some t) => t =? ns | _ => false end).
    set (rounds := if at_ne then s_drain sp + 1 else 0).
    set (budget := if s_drain sp =? 0 then drain_budget (cnow s) linit else s_budget sp).
    (* a run at the announced instant evaluates at least one entry *)
    assert (Hprog : at_ne = true -> Phi s' l' + 1 <= Phi s linit).
    { intros Hat. unfold at_ne in Hat. destruct (s_last_ne sp) as [[t|]|] eqn:El; try discriminate.
      apply Z.eqb_eq in Hat. subst t. pose proof (rl_ne _ _ _ R _ El) as Ene. pose proof (next_expiry_ok s I) as Eok.
      destruct (queue s) as [|e1 q] eqn:Eq; [rewrite Eok in Ene; discriminate|]. rewrite Eok in Ene. injection Ene as Ens.
      pose proof (i_entries s I) as F. rewrite Eq in F. inversion F as [|? ? He1 _]; subst.
      destruct (entry_T_range (now s) e1 ltac:(lia) He1) as [T1 T2]. destruct He1 as (_ & _ & _ & Hl1).
      assert (HT : Tof (now s) (e_wt e1) <= target).
      { unfold target. rewrite <- Ens. apply floor_inst_ge; lia. }
      destruct (Hpr ltac:(exists e1, q; split; [reflexivity|exact HT])) as [[En0 _]|Hd]; [lia|exact Hd]. }
    assert (Hrb : 0 <= rounds /\ 0 <= budget /\ rounds <= budget /\ (rounds = 0 \/ rounds + Phi s' l' <= budget)).
    { unfold rounds, budget. destruct at_ne eqn:Hat.
      - specialize (Hprog eq_refl). destruct (Z.eqb_spec (s_drain sp) 0) as [E0|E0].
        + rewrite E0. lia.
        + destruct D3 as [D3|D3]; [contradiction|]. fold linit in D3. lia.
      - destruct (s_drain sp =? 0); lia. }
    destruct Hrb as (Rb1 & Rb2 & Rb3 & Rb4).
    split.
    + constructor; [assumption|apply CH_counters; assumption| |cbn; lia].
      constructor; cbn [s_timers s_cnow s_count s_last_ne s_drain s_budget].
      * exact R'.
      * split; [symmetry; assumption|rewrite K'; lia].
      * intros t Ht. pose proof (fire_all_ns _ _ _ _ _ _ _ _ Efire) as Ens.
        assert (Hin : In (ti_n t) (map ti_n linit)) by (rewrite <- Ens; apply in_map; assumption).
        apply in_map_iff in Hin. destruct Hin as (t0 & <- & Ht0). pose proof (rl_count _ _ _ R t0 Ht0). lia.
      * intros r Hr. discriminate.
      * split; [assumption|split; [assumption|assumption]].
    + unfold vgood, v_and, v_ok. cbn [v07 v08 v09 v10 v15 v19 andb negb].
      apply Z.leb_le in Rb3. fold at_ne. fold rounds. fold budget. rewrite Rb3.
      split; [reflexivity|split; [reflexivity|split; [reflexivity|split; [reflexivity|split; [reflexivity|]]]]].
      intros Hbf. apply (all_order_ok_filter Rfix); [assumption|].
      intros a b Ha Hb Na Nb Hr. destruct (Hsub2 a Ha) as [Ha' _]. destruct (Hsub2 b Hb) as [Hb' _].
      exact (order_from_keys bf s linit a b RH Hbf Ha' Hb' Na Nb Hr).
Qed.

(** ** every operation *)
Theorem step_ok bf s sp n o : Inv3 bf s sp n -> n < HMAX -> op_pre bf s sp o -> step_goal bf s sp n o.
Proof.
  intros V Hn Hpre. destruct o.
  - apply step_OAdd; assumption.
  - apply step_OAfter; assumption.
  - apply step_OAddMax; assumption.
  - apply step_OAddMin; assumption.
  - apply step_ODel; assumption.
  - apply step_OModMax; assumption.
  - apply step_ODelMax; assumption.
  - apply step_OActMax; assumption.
  - apply step_OModMin; assumption.
  - apply step_ODelMin; assumption.
  - apply step_OActMin; assumption.
  - destruct Hpre as (Hb & _). cbn [op_bounds] in Hb. destruct V as [I C R Hc].
    destruct (Z.lt_ge_cases (cnow s) ns) as [L|L].
    + apply step_ORun_adv; [constructor; assumption|assumption|assumption|assumption].
    + apply step_ORun_idle; [constructor; assumption|lia].
  - apply step_ONextExpiry; assumption.
  - apply step_ONextWait; assumption.
  - apply step_ONextWaitMax; assumption.
  - apply step_ONow; assumption.
  - destruct Hpre as (_ & [] & _).
  - destruct Hpre as (_ & [] & _).
Qed.
