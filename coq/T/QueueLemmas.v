(** Layer T: the BTreeMap stand-in.  Inside the window the comparator of the code (generated
    timerkey_cmp, cyclic on the low 32 bits) is the lexicographic order on (full tick, slot);
    hence insert / remove / split_off / contains on the sorted list behave like a map. *)
From Coq Require Import ZArith List Bool Lia Sorting.Sorted.
From Stk Require Import Lib.U Gen.SrcTimers T.Model T.Quant T.Ticks T.Inv.
Import ListNotations.
Local Open Scope Z_scope.
Ltac Zify.zify_post_hook ::= Z.div_mod_to_equations.

Lemma Tof_spec now wt : 0 <= now -> 0 <= wt < M32 ->
  now < Tof now wt <= now + M32 /\ Tof now wt mod M32 = wt.
Proof.
  intros Hn Hw. unfold Tof, M32 in *. pose proof (unwrap_range wt (now + 1) Hw ltac:(lia)). lia.
Qed.

Lemma Tof_unique now T : 0 <= now -> now < T <= now + M32 -> Tof now (T mod M32) = T.
Proof. intros Hn HT. unfold Tof, M32 in *. apply unwrap_unique; lia. Qed.

Lemma Tof_stable now now' wt : 0 <= now <= now' -> 0 <= wt < M32 -> now' < Tof now wt ->
  Tof now' wt = Tof now wt.
Proof.
  intros Hn Hw Hlt. destruct (Tof_spec now wt ltac:(lia) Hw) as [Hr Hm].
  rewrite <- Hm at 1. apply Tof_unique; lia.
Qed.

(** lexicographic comparison of (tick, slot) *)
Definition lexcmp (t1 s1 t2 s2 : Z) : comparison :=
  match Z.compare t1 t2 with Eq => Z.compare s1 s2 | c => c end.

(** inside a window of less than 2^31 ticks the code's comparator is [lexcmp] on full ticks *)
Lemma kcmp_window now w1 s1 w2 s2 :
  0 <= now -> 0 <= w1 < M32 -> 0 <= w2 < M32 ->
  Tof now w1 <= now + WIN + 1 -> Tof now w2 <= now + WIN + 1 ->
  kcmp w1 s1 w2 s2 = lexcmp (Tof now w1) s1 (Tof now w2) s2.
Proof.
  intros Hn H1 H2 B1 B2. unfold kcmp, lexcmp.
  destruct (Tof_spec now w1 Hn H1) as [R1 E1]. destruct (Tof_spec now w2 Hn H2) as [R2 E2].
  rewrite <- E1 at 1. rewrite <- E2 at 1. unfold M32.
  rewrite timerkey_cmp_window by (unfold WIN in *; lia). reflexivity.
Qed.

Lemma lexcmp_lt t1 s1 t2 s2 : lexcmp t1 s1 t2 s2 = Lt <-> (t1 < t2 \/ (t1 = t2 /\ s1 < s2)).
Proof.
  unfold lexcmp. destruct (Z.compare_spec t1 t2); destruct (Z.compare_spec s1 s2); split; intros H';
    try discriminate; try reflexivity; try lia.
Qed.
Lemma lexcmp_eq t1 s1 t2 s2 : lexcmp t1 s1 t2 s2 = Eq <-> (t1 = t2 /\ s1 = s2).
Proof.
  unfold lexcmp. destruct (Z.compare_spec t1 t2); destruct (Z.compare_spec s1 s2); split; intros H';
    try discriminate; try reflexivity; try lia.
Qed.
Lemma lexcmp_gt t1 s1 t2 s2 : lexcmp t1 s1 t2 s2 = Gt <-> (t2 < t1 \/ (t1 = t2 /\ s2 < s1)).
Proof.
  unfold lexcmp. destruct (Z.compare_spec t1 t2); destruct (Z.compare_spec s1 s2); split; intros H';
    try discriminate; try reflexivity; try lia.
Qed.

(** a key (w, sl) "in the window" (one tick of slack so that the split key now'+1 is covered) *)
Definition key_in (now w sl : Z) : Prop := 0 <= w < M32 /\ Tof now w <= now + WIN + 1.

Lemma entry_key_in now e : entry_ok now e -> key_in now (e_wt e) (e_slot e).
Proof. unfold entry_ok, key_in. intros (H1 & H2 & H3 & H4). split; [assumption|lia]. Qed.

Definition same_key (a : entry) (w sl : Z) : Prop := e_wt a = w /\ e_slot a = sl.

Lemma Tof_inj now w1 w2 : 0 <= now -> 0 <= w1 < M32 -> 0 <= w2 < M32 -> Tof now w1 = Tof now w2 -> w1 = w2.
Proof.
  intros Hn H1 H2 E. destruct (Tof_spec now w1 Hn H1) as [_ E1]. destruct (Tof_spec now w2 Hn H2) as [_ E2]. congruence.
Qed.

Section Queue.
  Variable now : Z.
  Hypothesis Hnow : 0 <= now.

  Let T (w : Z) := Tof now w.
  Definition klt_key (w1 s1 w2 s2 : Z) : Prop := T w1 < T w2 \/ (T w1 = T w2 /\ s1 < s2).

  Lemma kcmp_Lt w1 s1 w2 s2 : key_in now w1 s1 -> key_in now w2 s2 ->
    (kcmp w1 s1 w2 s2 = Lt <-> klt_key w1 s1 w2 s2).
  Proof. intros [A1 B1] [A2 B2]. rewrite (kcmp_window now) by assumption. apply lexcmp_lt. Qed.
  Lemma kcmp_Gt w1 s1 w2 s2 : key_in now w1 s1 -> key_in now w2 s2 ->
    (kcmp w1 s1 w2 s2 = Gt <-> klt_key w2 s2 w1 s1).
  Proof.
    intros [A1 B1] [A2 B2]. rewrite (kcmp_window now) by assumption. rewrite lexcmp_gt. unfold klt_key, T. intuition lia.
  Qed.
  Lemma kcmp_Eq w1 s1 w2 s2 : key_in now w1 s1 -> key_in now w2 s2 ->
    (kcmp w1 s1 w2 s2 = Eq <-> (w1 = w2 /\ s1 = s2)).
  Proof.
    intros [A1 B1] [A2 B2]. rewrite (kcmp_window now) by assumption. rewrite lexcmp_eq. split.
    - intros [E1 E2]. split; [eapply Tof_inj; eauto|assumption].
    - intros [-> ->]. split; reflexivity.
  Qed.

  Lemma klt_key_trans w1 s1 w2 s2 w3 s3 : klt_key w1 s1 w2 s2 -> klt_key w2 s2 w3 s3 -> klt_key w1 s1 w3 s3.
  Proof. unfold klt_key. lia. Qed.
  Lemma klt_key_irrefl w s : ~ klt_key w s w s.
  Proof. unfold klt_key. lia. Qed.

  Lemma klt_is a b : klt now a b <-> klt_key (e_wt a) (e_slot a) (e_wt b) (e_slot b).
  Proof. reflexivity. Qed.

End Queue.

(** * The sorted list as a map *)

(** ** general facts about the comparator (no window needed) *)
Lemma kcmp_Eq_gen w1 s1 w2 s2 : kcmp w1 s1 w2 s2 = Eq -> s1 = s2 /\ (w1 - w2) mod M32 = 0.
Proof.
  unfold kcmp, timerkey_cmp, wraptime_cmp, as_i32, M32. cbn [obind].
  destruct ((w1 - w2) mod 4294967296 <? 2147483648) eqn:C.
  - destruct (Z.compare_spec ((w1 - w2) mod 4294967296) 0) as [E|E|E]; try discriminate.
    intros H. apply Z.compare_eq in H. split; assumption.
  - destruct (Z.compare_spec ((w1 - w2) mod 4294967296 - 4294967296) 0) as [E|E|E]; try discriminate.
    lia.
Qed.

Lemma kcmp_Eq_range w1 s1 w2 s2 : 0 <= w1 < M32 -> 0 <= w2 < M32 ->
  (kcmp w1 s1 w2 s2 = Eq <-> (w1 = w2 /\ s1 = s2)).
Proof.
  intros H1 H2. split.
  - intros H. apply kcmp_Eq_gen in H. destruct H as [Hs Hm]. unfold M32 in *. split; [lia|assumption].
  - intros [-> ->]. unfold kcmp, timerkey_cmp, wraptime_cmp, as_i32. cbn [obind].
    replace (w2 - w2) with 0 by lia. cbn. apply Z.compare_refl.
Qed.

Definition key_eq (w sl : Z) (e : entry) : Prop := kcmp w sl (e_wt e) (e_slot e) = Eq.

Lemma key_eq_dec w sl e : {key_eq w sl e} + {~ key_eq w sl e}.
Proof. unfold key_eq. destruct (kcmp w sl (e_wt e) (e_slot e)); [left; reflexivity|right; discriminate|right; discriminate]. Qed.

(** q_remove is a scan for the first entry whose key compares Eq *)
Lemma q_remove_Some w sl q cb r : q_remove w sl q = Some (cb, r) ->
  exists l1 e l2, q = l1 ++ e :: l2 /\ r = l1 ++ l2 /\ e_cb e = cb /\ key_eq w sl e /\
                  Forall (fun x => ~ key_eq w sl x) l1.
Proof.
  revert cb r. induction q as [|a q IH]; intros cb r H; cbn [q_remove] in H; [discriminate|].
  destruct (kcmp w sl (e_wt a) (e_slot a)) eqn:C.
  - injection H as <- <-. exists [], a, q. repeat split; auto.
  - destruct (q_remove w sl q) as [[cb' r']|] eqn:E; [|discriminate]. injection H as <- <-.
    destruct (IH _ _ eq_refl) as (l1 & e & l2 & -> & -> & Hc & Hk & Hf).
    exists (a :: l1), e, l2. repeat split; auto. constructor; [unfold key_eq; congruence|assumption].
  - destruct (q_remove w sl q) as [[cb' r']|] eqn:E; [|discriminate]. injection H as <- <-.
    destruct (IH _ _ eq_refl) as (l1 & e & l2 & -> & -> & Hc & Hk & Hf).
    exists (a :: l1), e, l2. repeat split; auto. constructor; [unfold key_eq; congruence|assumption].
Qed.

Lemma q_remove_None w sl q : q_remove w sl q = None <-> Forall (fun x => ~ key_eq w sl x) q.
Proof.
  induction q as [|a q IH]; cbn [q_remove].
  - split; auto.
  - unfold key_eq at 1. destruct (kcmp w sl (e_wt a) (e_slot a)) eqn:C.
    + split; [discriminate|]. intros H. inversion H; subst. unfold key_eq in *. congruence.
    + destruct (q_remove w sl q) as [[cb' r']|] eqn:E.
      * split; [discriminate|]. intros H. inversion H; subst. apply IH in H3. discriminate.
      * split; [|reflexivity]. intros _. constructor; [unfold key_eq; congruence|apply IH; reflexivity].
    + destruct (q_remove w sl q) as [[cb' r']|] eqn:E.
      * split; [discriminate|]. intros H. inversion H; subst. apply IH in H3. discriminate.
      * split; [|reflexivity]. intros _. constructor; [unfold key_eq; congruence|apply IH; reflexivity].
Qed.

Lemma q_mem_true w sl q : q_mem w sl q = true <-> exists e, In e q /\ key_eq w sl e.
Proof.
  unfold q_mem. rewrite existsb_exists. split; intros (e & Hi & He); exists e; split; auto.
  - unfold key_eq. destruct (kcmp w sl (e_wt e) (e_slot e)); congruence.
  - unfold key_eq in He. rewrite He. reflexivity.
Qed.

Lemma q_mem_false w sl q : q_mem w sl q = false <-> Forall (fun x => ~ key_eq w sl x) q.
Proof.
  rewrite Forall_forall. split.
  - intros H e Hi He. assert (q_mem w sl q = true) by (apply q_mem_true; eauto). congruence.
  - intros H. destruct (q_mem w sl q) eqn:E; [|reflexivity]. apply q_mem_true in E. destruct E as (e & Hi & He).
    exfalso. eapply H; eauto.
Qed.

(** ** StronglySorted and append *)
Lemma SS_app_inv {A} (R : A -> A -> Prop) l1 l2 : StronglySorted R (l1 ++ l2) ->
  StronglySorted R l1 /\ StronglySorted R l2 /\ forall a b, In a l1 -> In b l2 -> R a b.
Proof.
  induction l1 as [|x l1 IH]; cbn [app]; intros H.
  - repeat split; [constructor|assumption|intros a b []].
  - inversion H as [|? ? Hs Hf]; subst. destruct (IH Hs) as (H1 & H2 & H3).
    rewrite Forall_app in Hf. destruct Hf as [Hf1 Hf2]. repeat split.
    + constructor; assumption.
    + assumption.
    + intros a b [->|Ha] Hb; [rewrite Forall_forall in Hf2; auto|auto].
Qed.

Lemma SS_app {A} (R : A -> A -> Prop) l1 l2 : StronglySorted R l1 -> StronglySorted R l2 ->
  (forall a b, In a l1 -> In b l2 -> R a b) -> StronglySorted R (l1 ++ l2).
Proof.
  induction l1 as [|x l1 IH]; cbn [app]; intros H1 H2 H3; [assumption|].
  inversion H1 as [|? ? Hs Hf]; subst. constructor.
  - apply IH; auto. intros a b Ha Hb. apply H3; [right|]; assumption.
  - rewrite Forall_app. split; [assumption|]. rewrite Forall_forall. intros b Hb. apply H3; [left; reflexivity|assumption].
Qed.

Lemma SS_remove_mid {A} (R : A -> A -> Prop) l1 x l2 : StronglySorted R (l1 ++ x :: l2) -> StronglySorted R (l1 ++ l2).
Proof.
  intros H. apply SS_app_inv in H. destruct H as (H1 & H2 & H3). inversion H2; subst.
  apply SS_app; auto. intros a b Ha Hb. apply H3; [assumption|right; assumption].
Qed.

(** ** queues: every entry in the window of [now], strictly sorted by (tick, slot) *)
Definition qok (now : Z) (q : list entry) : Prop := Forall (entry_ok now) q /\ StronglySorted (klt now) q.

Lemma klt_trans now a b c : klt now a b -> klt now b c -> klt now a c.
Proof. unfold klt. lia. Qed.
Lemma klt_irrefl now a : ~ klt now a a.
Proof. unfold klt. lia. Qed.
Lemma klt_not_same now a b : klt now a b -> ~ same_key b (e_wt a) (e_slot a).
Proof. unfold klt, same_key. intros H [E1 E2]. rewrite E1, E2 in H. lia. Qed.
Lemma klt_not_same' now a b : klt now a b -> ~ same_key a (e_wt b) (e_slot b).
Proof. unfold klt, same_key. intros H [E1 E2]. rewrite E1, E2 in H. lia. Qed.

Lemma qok_nil now : qok now [].
Proof. split; constructor. Qed.

Lemma qok_cons_inv now a q : qok now (a :: q) -> entry_ok now a /\ qok now q /\ Forall (klt now a) q.
Proof. intros [Hf Hs]. inversion Hf; subst. inversion Hs; subst. split; [assumption|split; [split; assumption|assumption]]. Qed.

Lemma qok_app_inv now l1 l2 : qok now (l1 ++ l2) -> qok now l1 /\ qok now l2 /\ forall a b, In a l1 -> In b l2 -> klt now a b.
Proof.
  intros [Hf Hs]. rewrite Forall_app in Hf. destruct Hf. apply SS_app_inv in Hs. destruct Hs as (? & ? & ?).
  split; [split; assumption|split; [split; assumption|assumption]].
Qed.

Lemma qok_remove_mid now l1 x l2 : qok now (l1 ++ x :: l2) -> qok now (l1 ++ l2).
Proof.
  intros [Hf Hs]. split; [|eapply SS_remove_mid; eauto].
  rewrite Forall_app in *. destruct Hf as [H1 H2]. inversion H2; subst. split; assumption.
Qed.

(** in a sorted queue two entries with the same key are the same entry *)
Lemma qok_key_unique now q a b : qok now q -> In a q -> In b q -> same_key a (e_wt b) (e_slot b) -> a = b.
Proof.
  intros [_ Hs]. induction Hs as [|x l Hs IH Hf]; intros Ha Hb Hk; [destruct Ha|].
  rewrite Forall_forall in Hf. destruct Ha as [->|Ha], Hb as [->|Hb]; auto.
  - exfalso. eapply klt_not_same'; eauto.
  - exfalso. apply Hf in Ha. eapply klt_not_same; eauto.
Qed.

Section QueueOps.
  Variable now : Z.
  Hypothesis Hnow : 0 <= now.

  Lemma key_eq_same w sl e : 0 <= w < M32 -> entry_ok now e -> (key_eq w sl e <-> same_key e w sl).
  Proof.
    intros Hw (He & _). unfold key_eq, same_key. rewrite kcmp_Eq_range by assumption. intuition congruence.
  Qed.

  (** *** insert *)
  Lemma q_insert_spec w sl cb q : qok now q -> entry_ok now (w, sl, cb) ->
    qok now (q_insert w sl cb q) /\
    forall e, In e (q_insert w sl cb q) <-> e = (w, sl, cb) \/ (In e q /\ ~ same_key e w sl).
  Proof.
    intros Hq Hn. pose proof (entry_key_in _ _ Hn) as Kn. cbn [e_wt e_slot fst snd] in Kn.
    induction q as [|a q IH]; cbn [q_insert].
    - split; [split; [constructor; [assumption|constructor]|constructor; constructor]|]. intros e. cbn [In]. intuition.
    - destruct (qok_cons_inv _ _ _ Hq) as (Ha & Hq' & Hlt). pose proof (entry_key_in _ _ Ha) as Ka.
      rewrite Forall_forall in Hlt.
      destruct (kcmp w sl (e_wt a) (e_slot a)) eqn:C.
      + (* Eq: replace *)
        apply (kcmp_Eq now Hnow) in C; [|assumption|assumption]. destruct C as [Ew Es].
        assert (Hlt' : forall x, In x q -> klt now (w, sl, cb) x).
        { intros x Hx. pose proof (Hlt x Hx) as K. unfold klt in *. cbn [e_wt e_slot fst snd]. rewrite Ew, Es. exact K. }
        split.
        * destruct Hq' as [Hf Hs]. split; constructor; try assumption. rewrite Forall_forall. exact Hlt'.
        * intros e. cbn [In]. split.
          -- intros [<-|He]; [left; reflexivity|]. right. split; [right; assumption|].
             apply Hlt' in He. intros K. eapply klt_not_same in He. apply He. exact K.
          -- intros [->|[[<-|He] K]]; [left; reflexivity| |right; assumption].
             exfalso. apply K. split; symmetry; assumption.
      + (* Lt: in front *)
        apply (kcmp_Lt now Hnow) in C; [|assumption|assumption].
        assert (Hna : klt now (w, sl, cb) a) by exact C.
        assert (Hlt' : forall x, In x (a :: q) -> klt now (w, sl, cb) x).
        { intros x [<-|Hx]; [assumption|]. eapply klt_trans; [exact Hna|auto]. }
        split.
        * destruct Hq as [Hf Hs]. split; constructor; try assumption. rewrite Forall_forall. exact Hlt'.
        * intros e. change (In e ((w, sl, cb) :: a :: q)) with ((w, sl, cb) = e \/ In e (a :: q)). split.
          -- intros [<-|He]; [left; reflexivity|]. right. split; [assumption|].
             apply Hlt' in He. intros K. eapply klt_not_same in He. apply He. exact K.
          -- intros [->|[He K]]; [left; reflexivity|right; assumption].
      + (* Gt: further down *)
        apply (kcmp_Gt now Hnow) in C; [|assumption|assumption].
        assert (Han : klt now a (w, sl, cb)) by exact C.
        destruct (IH Hq') as [[Hf' Hs'] Hin]. split.
        * split; constructor; try assumption. rewrite Forall_forall. intros x Hx. apply Hin in Hx.
          destruct Hx as [->|[Hx _]]; [assumption|auto].
        * intros e. cbn [In]. rewrite Hin. split.
          -- intros [<-|[->|[He K]]]; [|left; reflexivity|right; split; [right; assumption|assumption]].
             right. split; [left; reflexivity|]. exact (klt_not_same' now a (w, sl, cb) Han).
          -- intros [->|[[<-|He] K]]; [right; left; reflexivity|left; reflexivity|right; right; split; assumption].
  Qed.

  Lemma q_insert_fresh w sl cb q : qok now q -> entry_ok now (w, sl, cb) ->
    (forall e, In e q -> ~ same_key e w sl) ->
    forall e, In e (q_insert w sl cb q) <-> e = (w, sl, cb) \/ In e q.
  Proof.
    intros Hq Hn Hfr e. destruct (q_insert_spec w sl cb q Hq Hn) as [_ Hin]. rewrite Hin.
    split; (intros [->|H]; [left; reflexivity|right]); [tauto|split; auto].
  Qed.

  (** *** remove *)
  Lemma q_remove_spec_Some w sl q cb r : 0 <= w < M32 -> qok now q -> q_remove w sl q = Some (cb, r) ->
    In (w, sl, cb) q /\ qok now r /\
    (forall e, In e r <-> (In e q /\ ~ same_key e w sl)).
  Proof.
    intros Hw Hq H. apply q_remove_Some in H. destruct H as (l1 & e & l2 & -> & -> & Hc & Hk & Hf).
    assert (He : entry_ok now e).
    { destruct Hq as [Hq _]. rewrite Forall_forall in Hq. apply Hq. apply in_or_app. right. left. reflexivity. }
    apply (key_eq_same w sl e Hw He) in Hk. destruct Hk as [E1 E2].
    assert (Ee : e = (w, sl, cb)).
    { destruct e as [[a b] c]. cbn [e_wt e_slot e_cb fst snd] in *. congruence. }
    split; [apply in_or_app; right; left; exact Ee|].
    split; [eapply qok_remove_mid; eauto|].
    intros x. split.
    - intros Hx. assert (Hx' : In x (l1 ++ e :: l2)).
      { apply in_app_or in Hx. apply in_or_app. destruct Hx; [left|right; right]; assumption. }
      split; [assumption|]. intros K.
      assert (x = e).
      { eapply qok_key_unique; eauto; [apply in_or_app; right; left; reflexivity|]. destruct K. split; congruence. }
      subst x. destruct (qok_app_inv _ _ _ Hq) as (Q1 & Q2 & Q3). destruct (qok_cons_inv _ _ _ Q2) as (_ & _ & Q4).
      rewrite Forall_forall in Q4. apply in_app_or in Hx. destruct Hx as [Hx|Hx].
      + specialize (Q3 e e Hx ltac:(left; reflexivity)). eapply klt_irrefl; eauto.
      + specialize (Q4 e Hx). eapply klt_irrefl; eauto.
    - intros [Hx K]. apply in_app_or in Hx. apply in_or_app. destruct Hx as [Hx|[<-|Hx]]; auto.
      exfalso. apply K. split; assumption.
  Qed.

  Lemma q_remove_spec_None w sl q : 0 <= w < M32 -> qok now q ->
    (q_remove w sl q = None <-> forall e, In e q -> ~ same_key e w sl).
  Proof.
    intros Hw [Hf _]. rewrite q_remove_None. rewrite Forall_forall in *. split; intros H e He.
    - rewrite <- key_eq_same by auto. auto.
    - rewrite key_eq_same by auto. auto.
  Qed.

  Lemma q_remove_present w sl cb q : 0 <= w < M32 -> qok now q -> In (w, sl, cb) q ->
    exists r, q_remove w sl q = Some (cb, r).
  Proof.
    intros Hw Hq Hi. destruct (q_remove w sl q) as [[cb' r]|] eqn:E.
    - destruct (q_remove_spec_Some _ _ _ _ _ Hw Hq E) as (Hi' & _ & _).
      assert ((w, sl, cb') = (w, sl, cb)) by (eapply qok_key_unique; eauto; split; reflexivity).
      inversion H; subst. eauto.
    - exfalso. rewrite q_remove_spec_None in E by assumption. eapply E; eauto. split; reflexivity.
  Qed.

  Lemma q_mem_spec w sl q : 0 <= w < M32 -> qok now q ->
    (q_mem w sl q = true <-> exists e, In e q /\ same_key e w sl).
  Proof.
    intros Hw [Hf _]. rewrite q_mem_true. rewrite Forall_forall in Hf.
    split; intros (e & Hi & He); exists e; split; auto; [rewrite <- key_eq_same|rewrite key_eq_same]; auto.
  Qed.

  (** *** split_off at the key (n + 1, 0) of [advance], n the step's new [now] *)
  Lemma q_split_spec n q : qok now q -> now < n <= now + WIN ->
    exists h t, q_split ((n + 1) mod M32) 0 q = (h, t) /\ q = h ++ t /\
      Forall (fun e => Tof now (e_wt e) <= n) h /\ Forall (fun e => n < Tof now (e_wt e)) t.
  Proof.
    intros Hq Hn.
    assert (Hk : key_in now ((n + 1) mod M32) 0).
    { split; [unfold M32; lia|]. rewrite Tof_unique by (unfold M32, WIN in *; lia). lia. }
    assert (HT : Tof now ((n + 1) mod M32) = n + 1) by (apply Tof_unique; unfold M32, WIN in *; lia).
    induction q as [|a q IH]; cbn [q_split].
    - exists [], []. repeat split; constructor.
    - destruct (qok_cons_inv _ _ _ Hq) as (Ha & Hq' & Hlt). pose proof (entry_key_in _ _ Ha) as Ka.
      assert (Hsl : 0 <= e_slot a) by (destruct Ha as (_ & ? & _); lia).
      destruct (kcmp (e_wt a) (e_slot a) ((n + 1) mod M32) 0) eqn:C.
      + exists [], (a :: q). repeat split; [constructor|].
        apply (kcmp_Eq now Hnow) in C; [|assumption|assumption]. destruct C as [Ew Es].
        assert (Tof now (e_wt a) = n + 1) by (rewrite Ew; exact HT).
        constructor; [lia|]. rewrite Forall_forall in *. intros x Hx. specialize (Hlt x Hx). unfold klt in Hlt. lia.
      + destruct (IH Hq') as (h & t & E & -> & Hh & Ht). rewrite E. exists (a :: h), t. repeat split; auto.
        apply (kcmp_Lt now Hnow) in C; [|assumption|assumption]. unfold klt_key in C. rewrite HT in C.
        constructor; [lia|assumption].
      + exists [], (a :: q). repeat split; [constructor|].
        apply (kcmp_Gt now Hnow) in C; [|assumption|assumption]. unfold klt_key in C. rewrite HT in C.
        constructor; [lia|]. rewrite Forall_forall in *. intros x Hx. specialize (Hlt x Hx). unfold klt in Hlt. lia.
  Qed.

  (** entries beyond the new [now] stay in the window and keep their order after [set_now] *)
  Lemma entry_ok_advance n e : now <= n -> entry_ok now e -> n < Tof now (e_wt e) -> entry_ok n e.
  Proof.
    intros Hn (H1 & H2 & H3 & H4) Hlt.
    assert (E : Tof n (e_wt e) = Tof now (e_wt e)) by (apply Tof_stable; [lia|assumption|assumption]).
    unfold entry_ok. rewrite E. repeat split; try tauto; lia.
  Qed.

  Lemma qok_advance n q : now <= n -> qok now q -> Forall (fun e => n < Tof now (e_wt e)) q -> qok n q.
  Proof.
    intros Hn [Hf Hs] Hlt. rewrite Forall_forall in *. split.
    - rewrite Forall_forall. intros e He. apply entry_ok_advance; auto.
    - assert (Heq : forall e, In e q -> Tof n (e_wt e) = Tof now (e_wt e)).
      { intros e He. apply Tof_stable; [lia| |auto]. destruct (Hf e He) as (? & _). assumption. }
      clear Hf Hlt. induction Hs as [|x l Hs IH Hfx]; constructor.
      + apply IH. intros e He. apply Heq. right. assumption.
      + rewrite Forall_forall in *. intros y Hy. specialize (Hfx y Hy). unfold klt in *.
        rewrite (Heq x) by (left; reflexivity). rewrite (Heq y) by (right; assumption). exact Hfx.
  Qed.

End QueueOps.
