(** Layer T: the BTreeMap stand-in.  Inside the window the comparator of the code (generated
    timerkey_cmp, cyclic on the low 32 bits) is the lexicographic order on (full tick, slot);
    hence insert / remove / split_off / contains on the sorted list behave like a map. *)
From Coq Require Import ZArith List Bool Lia Sorting.Sorted.
From Stk Require Import Lib.U Gen.SrcTimers T.Model T.Quant T.Ticks T.Inv.
Import ListNotations.
Local Open Scope Z_scope.
Ltac Zify.zify_post_hook ::= Z.div_mod_to_equations.

Lemma Tof_spec now wt : 0 <= now -> 0 <= wt < M32 ->
  now < Tof now wt <= now + M32 /\ Tof now wt mod M32 = wt.
Proof.
  intros Hn Hw. unfold Tof, M32 in *. pose proof (unwrap_range wt (now + 1) Hw ltac:(lia)). lia.
Qed.

Lemma Tof_unique now T : 0 <= now -> now < T <= now + M32 -> Tof now (T mod M32) = T.
Proof. intros Hn HT. unfold Tof, M32 in *. apply unwrap_unique; lia. Qed.

Lemma Tof_stable now now' wt : 0 <= now <= now' -> 0 <= wt < M32 -> now' < Tof now wt ->
  Tof now' wt = Tof now wt.
Proof.
  intros Hn Hw Hlt. destruct (Tof_spec now wt ltac:(lia) Hw) as [Hr Hm].
  rewrite <- Hm at 1. apply Tof_unique; lia.
Qed.

(** lexicographic comparison of (tick, slot) *)
Definition lexcmp (t1 s1 t2 s2 : Z) : comparison :=
  match Z.compare t1 t2 with Eq => Z.compare s1 s2 | c => c end.

(** inside a window of less than 2^31 ticks the code's comparator is [lexcmp] on full ticks *)
Lemma kcmp_window now w1 s1 w2 s2 :
  0 <= now -> 0 <= w1 < M32 -> 0 <= w2 < M32 ->
  Tof now w1 <= now + WIN + 1 -> Tof now w2 <= now + WIN + 1 ->
  kcmp w1 s1 w2 s2 = lexcmp (Tof now w1) s1 (Tof now w2) s2.
Proof.
  intros Hn H1 H2 B1 B2. unfold kcmp, lexcmp.
  destruct (Tof_spec now w1 Hn H1) as [R1 E1]. destruct (Tof_spec now w2 Hn H2) as [R2 E2].
  rewrite <- E1 at 1. rewrite <- E2 at 1. unfold M32.
  rewrite timerkey_cmp_window by (unfold WIN in *; lia). reflexivity.
Qed.

Lemma lexcmp_lt t1 s1 t2 s2 : lexcmp t1 s1 t2 s2 = Lt <-> (t1 < t2 \/ (t1 = t2 /\ s1 < s2)).
Proof.
  unfold lexcmp. destruct (Z.compare_spec t1 t2); destruct (Z.compare_spec s1 s2); split; intros H';
    try discriminate; try reflexivity; try lia.
Qed.
Lemma lexcmp_eq t1 s1 t2 s2 : lexcmp t1 s1 t2 s2 = Eq <-> (t1 = t2 /\ s1 = s2).
Proof.
  unfold lexcmp. destruct (Z.compare_spec t1 t2); destruct (Z.compare_spec s1 s2); split; intros H';
    try discriminate; try reflexivity; try lia.
Qed.
Lemma lexcmp_gt t1 s1 t2 s2 : lexcmp t1 s1 t2 s2 = Gt <-> (t2 < t1 \/ (t1 = t2 /\ s2 < s1)).
Proof.
  unfold lexcmp. destruct (Z.compare_spec t1 t2); destruct (Z.compare_spec s1 s2); split; intros H';
    try discriminate; try reflexivity; try lia.
Qed.

(** a key (w, sl) "in the window" (one tick of slack so that the split key now'+1 is covered) *)
Definition key_in (now w sl : Z) : Prop := 0 <= w < M32 /\ Tof now w <= now + WIN + 1.

Lemma entry_key_in now e : entry_ok now e -> key_in now (e_wt e) (e_slot e).
Proof. unfold entry_ok, key_in. intros (H1 & H2 & H3 & H4). split; [assumption|lia]. Qed.

Definition same_key (a : entry) (w sl : Z) : Prop := e_wt a = w /\ e_slot a = sl.

Lemma Tof_inj now w1 w2 : 0 <= now -> 0 <= w1 < M32 -> 0 <= w2 < M32 -> Tof now w1 = Tof now w2 -> w1 = w2.
Proof.
  intros Hn H1 H2 E. destruct (Tof_spec now w1 Hn H1) as [_ E1]. destruct (Tof_spec now w2 Hn H2) as [_ E2]. congruence.
Qed.

Section Queue.
  Variable now : Z.
  Hypothesis Hnow : 0 <= now.

  Let T (w : Z) := Tof now w.
  Definition klt_key (w1 s1 w2 s2 : Z) : Prop := T w1 < T w2 \/ (T w1 = T w2 /\ s1 < s2).

  Lemma kcmp_Lt w1 s1 w2 s2 : key_in now w1 s1 -> key_in now w2 s2 ->
    (kcmp w1 s1 w2 s2 = Lt <-> klt_key w1 s1 w2 s2).
  Proof. intros [A1 B1] [A2 B2]. rewrite (kcmp_window now) by assumption. apply lexcmp_lt. Qed.
  Lemma kcmp_Gt w1 s1 w2 s2 : key_in now w1 s1 -> key_in now w2 s2 ->
    (kcmp w1 s1 w2 s2 = Gt <-> klt_key w2 s2 w1 s1).
  Proof.
    intros [A1 B1] [A2 B2]. rewrite (kcmp_window now) by assumption. rewrite lexcmp_gt. unfold klt_key, T. intuition lia.
  Qed.
  Lemma kcmp_Eq w1 s1 w2 s2 : key_in now w1 s1 -> key_in now w2 s2 ->
    (kcmp w1 s1 w2 s2 = Eq <-> (w1 = w2 /\ s1 = s2)).
  Proof.
    intros [A1 B1] [A2 B2]. rewrite (kcmp_window now) by assumption. rewrite lexcmp_eq. split.
    - intros [E1 E2]. split; [eapply Tof_inj; eauto|assumption].
    - intros [-> ->]. split; reflexivity.
  Qed.

  Lemma klt_key_trans w1 s1 w2 s2 w3 s3 : klt_key w1 s1 w2 s2 -> klt_key w2 s2 w3 s3 -> klt_key w1 s1 w3 s3.
  Proof. unfold klt_key. lia. Qed.
  Lemma klt_key_irrefl w s : ~ klt_key w s w s.
  Proof. unfold klt_key. lia. Qed.

  Lemma klt_is a b : klt now a b <-> klt_key (e_wt a) (e_slot a) (e_wt b) (e_slot b).
  Proof. reflexivity. Qed.

End Queue.
