(** Layer T: every operation other than [run] preserves the relation between model and
    specification and makes the monitors answer true. *)
From Coq Require Import ZArith List Bool Lia Sorting.Sorted.
From Stk Require Import Lib.U Gen.SrcTimers T.Bits T.Model T.Spec T.Quant T.Ticks T.Inv T.QueueLemmas
  T.VarLemmas T.InvProofs T.Rel T.RelArith T.SpecLemmas T.RelMoves.
Import ListNotations.
Local Open Scope Z_scope.
Ltac Zify.zify_post_hook ::= Z.div_mod_to_equations.

Record Inv3 (bf : bool) (s : tstate) (sp : sstate) (n : Z) : Prop := mkInv3 {
  v_tinv : TInv s; v_cnt : counters_ok s n; v_rel : Rel bf s sp; v_n : s_count sp = n }.

(** what the history must satisfy at this operation *)
Definition op_pre (bf : bool) (s : tstate) (sp : sstate) (o : top) : Prop :=
  op_bounds o /\ (match o with OPokeSeq _ | OPokeGnn _ _ => False | _ => True end) /\
  (forall cb, In cb (op_cbs o) -> forall t, In t (s_timers sp) -> ti_id t <> cb) /\
  op_key_ok o (ktbl (s_timers sp)) = true /\
  (bf = true -> op_band_ok (cnow s) o = true).

(** the specification state after an operation that resets the next_expiry bookkeeping *)
Lemma Rel_reset bf s s' sp l' :
  Rel bf s sp -> RelH bf (now s') s' [] l' -> cnow s' = cnow s ->
  (forall t, In t l' -> 0 <= ti_n t < s_count sp + 1) ->
  Rel bf s' (mkS (s_cnow sp) l' (s_count sp + 1) None 0 0).
Proof.
  intros R H Hc Hn. destruct R. constructor; cbn [s_timers s_cnow s_count s_last_ne s_drain s_budget]; auto.
  - rewrite Hc. assumption.
  - intros r Hr. discriminate.
  - split; [lia|split; [lia|left; reflexivity]].
Qed.

Lemma entry_eta (e : entry) : e = (e_wt e, e_slot e, e_cb e).
Proof. destruct e as [[a b] c]. reflexivity. Qed.

Lemma In_self_split (q : list entry) e : In e q -> forall y, In y q <-> y = e \/ (In y q /\ y <> e).
Proof.
  intros He y. destruct (entry_eq_dec y e) as [->|N]; split; intros H; auto.
  destruct H as [H|[H _]]; [contradiction|assumption].
Qed.

Lemma TInv_qok s : TInv s -> qok (now s) (queue s).
Proof. intros I. split; [apply (i_entries s I)|apply (i_sorted s I)]. Qed.

Lemma TInv_now_nonneg s : TInv s -> 0 <= now s.
Proof. intros I. pose proof (now_facts _ _ _ (TInv_PH s I)). lia. Qed.

(** ** keys *)
Lemma key_cases bf s sp k kref slot g :
  Rel bf s sp -> TInv s -> key_ok k kref slot g (ktbl (s_timers sp)) = true ->
  (exists l1 t l2 e, s_timers sp = l1 ++ t :: l2 /\
     (forall f, update k kref f (s_timers sp) = l1 ++ f t :: l2) /\
     ti_kind t = k /\ is_pend t /\ slot = ti_slot t /\ g = ti_g t /\
     In e (queue s) /\ tied (now s) s t e /\ key_pending k kref (s_timers sp) = true) \/
  (key_pending k kref (s_timers sp) = false /\
   (forall vs, vget (var s) slot = Some vs -> gnn vs <> g) /\
   (FIX <= slot -> forall e, In e (queue s) -> e_slot e <> slot)).
Proof.
  intros R I Hk. unfold key_ok in Hk. rewrite klookup_ktbl in Hk. unfold key_pending.
  pose proof (rl_h _ _ _ R) as H.
  destruct (lookup k kref (s_timers sp)) as [t|] eqn:El.
  - apply andb_prop in Hk. destruct Hk as [E1 E2]. apply Z.eqb_eq in E1. apply Z.eqb_eq in E2.
    destruct (lookup_split _ _ _ _ El) as (l1 & l2 & Es & Hkind & Hn & Hu).
    assert (Htl : In t (s_timers sp)) by (rewrite Es; apply in_mid; left; reflexivity).
    destruct (ti_stat t) eqn:Est.
    + left. destruct (r_t2q _ _ _ _ _ H t Htl Est) as (e & He & Hte). cbn [app] in He.
      exists l1, t, l2, e.
      split; [assumption|split; [assumption|split; [assumption|split; [exact Est|split; [assumption|split; [assumption|split; [assumption|split; [assumption|reflexivity]]]]]]]].
    + right. split; [reflexivity|]. assert (Hd : ~ is_pend t) by (unfold is_pend; congruence). split.
      * intros vs Hg. destruct (Z.lt_ge_cases slot FIX) as [V|F].
        -- destruct (r_dead_var _ _ _ _ _ H t Htl Hd ltac:(lia)) as (vs' & Hg' & Hlt). rewrite <- E1, Hg in Hg'. injection Hg' as <-. lia.
        -- apply vget_Some_range in Hg. pose proof (i_len s I). lia.
      * intros F e He. rewrite E1. apply (r_dead_fix _ _ _ _ _ H t Htl Hd ltac:(lia) e He).
    + right. split; [reflexivity|]. assert (Hd : ~ is_pend t) by (unfold is_pend; congruence). split.
      * intros vs Hg. destruct (Z.lt_ge_cases slot FIX) as [V|F].
        -- destruct (r_dead_var _ _ _ _ _ H t Htl Hd ltac:(lia)) as (vs' & Hg' & Hlt). rewrite <- E1, Hg in Hg'. injection Hg' as <-. lia.
        -- apply vget_Some_range in Hg. pose proof (i_len s I). lia.
      * intros F e He. rewrite E1. apply (r_dead_fix _ _ _ _ _ H t Htl Hd ltac:(lia) e He).
  - right. split; [reflexivity|]. apply andb_prop in Hk. destruct Hk as [Hk E3]. apply andb_prop in Hk. destruct Hk as [_ E2].
    apply Z.eqb_eq in E2. apply Z.eqb_eq in E3. subst slot g. split.
    + intros vs Hg. destruct (i_slots s I 0 vs Hg) as [G _]. lia.
    + unfold FIX. lia.
Qed.

(** a tied var entry: the slot content and the shape of the entry *)
Lemma tied_var now0 s t e : tied now0 s t e -> e_slot e < FIX ->
  exists c, vget (var s) (e_slot e) = Some (mkVS (ti_g t) (item_for (ti_kind t) (ceil_ns (ti_eff t)) c)) /\
            c <= Bt t /\ e = (c mod M32, e_slot e, e_cb e).
Proof.
  intros (_ & _ & [(F & _)|(_ & c & Hc & Hb & Hw)]) V; [lia|]. exists c. split; [assumption|split; [assumption|]].
  rewrite <- Hw. apply entry_eta.
Qed.

Lemma tied_kind_var now0 s t e : tied now0 s t e -> ti_kind t <> KFixed -> e_slot e < FIX.
Proof. intros (_ & _ & [(F & K & _)|(V & _)]) N; [contradiction|assumption]. Qed.

(** ** the step statement *)
Definition step_goal (bf : bool) (s : tstate) (sp : sstate) (n : Z) (o : top) : Prop :=
  exists s' out, tstep s o = Some (s', out) /\
    let '(sp', v) := mon_step sp o (Some out) in Inv3 bf s' sp' (n + 1) /\ vgood bf v.

Lemma Bt_new s sp bf ns : Rel bf s sp -> TInv s ->
  Z.max (ceil_ns ns) (floor_ns (s_cnow sp) + 1) = Z.max (ceil_ns ns) (now s + 1).
Proof. intros R I. destruct (rl_cnow _ _ _ R) as [-> _]. rewrite <- (i_now s I). reflexivity. Qed.

(** ** creation through a var slot (add_max, add_min, long add) *)
Lemma add_var_rel bf s sp n k ns cb s1 i g c :
  Inv3 bf s sp n -> alloc_facts s s1 i g (item_for k (ceil_ns ns) c) ->
  let s2 := set_queue s1 (q_insert (c mod M32) i cb (queue s1)) in
  TInv s2 -> counters_ok s2 (n + 1) ->
  (forall y, In y (queue s2) <-> y = (c mod M32, i, cb) \/ In y (queue s)) ->
  c <= Z.max (ceil_ns ns) (now s + 1) ->
  (forall t, In t (s_timers sp) -> ti_id t <> cb) ->
  (bf = true -> k = KFixed -> ns < cnow s + NEAR -> False) ->
  Inv3 bf s2 (mkS (s_cnow sp) (mkTI cb k ns (s_cnow sp) Pending i g (s_count sp) ns (s_cnow sp) :: s_timers sp)
                  (s_count sp + 1) None 0 0) (n + 1).
Proof.
  intros [I C R Hn] (F1 & F2 & F3 & F4 & F5 & F6 & F7 & F8 & F9) s2 I2 C2 Hmem Hc Hfresh Hband.
  constructor; [assumption|assumption| |cbn; lia].
  pose proof (rl_cnow _ _ _ R) as [Ec Hcr]. pose proof (i_cnow s I) as Hcn.
  eapply Rel_reset; [eassumption| |unfold s2; sproj; assumption|].
  - assert (En : now s2 = now s) by (unfold s2; sproj; assumption). rewrite En.
    eapply relh_add with (en := (c mod M32, i, cb)); [apply (rl_h _ _ _ R)|reflexivity| | | | | | | | |].
    + split; [reflexivity|split; [reflexivity|]]. right. cbn [e_slot e_wt fst snd ti_g ti_kind ti_eff].
      split; [lia|]. exists c. split; [unfold s2; sproj; assumption|split; [|reflexivity]].
      unfold Bt. cbn [ti_eff ti_tset]. rewrite (Bt_new s sp bf ns R I). assumption.
    + intros x Hx. cbn [ti_id]. auto.
    + intros x Hx. cbn [ti_n]. apply (rl_count _ _ _ R x Hx).
    + exact Hmem.
    + unfold s2. sproj. assumption.
    + cbn [ti_tset]. lia.
    + intros _. cbn. auto.
    + intros Hb Hk. cbn [ti_kind ti_eff0 ti_t0 ti_slot] in *. intros Hnear. exfalso. apply (Hband Hb Hk). lia.
    + left. cbn [e_slot fst snd ti_g]. split; [lia|]. split; [unfold s2; sproj; assumption|]. split.
      * intros j Hj. unfold s2. sproj. auto.
      * destruct F9 as [(G1 & _)|(vs & G1 & G2 & G3 & _)]; [left; assumption|right; exists vs; auto].
  - intros t [<-|Ht]; cbn [ti_n]; [pose proof (rl_count _ _ _ R) as Hcnt|pose proof (rl_count _ _ _ R t Ht)]; try lia.
    (* the count is non-negative *)
    destruct C as (_ & _ & Hlen). rewrite Hn. lia.
Qed.

(** ** creation as a fixed-slot timer *)
Lemma add_fix_rel bf s sp n ns cb :
  Inv3 bf s sp n -> n < HMAX -> ns < TMAX ->
  let T := Z.max (ceil_ns ns) (now s + 1) in T < now s + WIN ->
  let sl := seq s + 1 + FIX in
  let s' := set_queue (set_seq s (seq s + 1)) (q_insert (T mod M32) sl cb (queue s)) in
  TInv s' -> counters_ok s' (n + 1) ->
  (forall y, In y (queue s') <-> y = (T mod M32, sl, cb) \/ In y (queue s)) ->
  (forall t, In t (s_timers sp) -> ti_id t <> cb) ->
  Inv3 bf s' (mkS (s_cnow sp) (mkTI cb KFixed ns (s_cnow sp) Pending sl (T mod M32) (s_count sp) ns (s_cnow sp) :: s_timers sp)
                  (s_count sp + 1) None 0 0) (n + 1).
Proof.
  intros [I C R Hn] Hlt Hns T HT sl s' I2 C2 Hmem Hfresh.
  constructor; [assumption|assumption| |cbn; lia].
  pose proof (rl_cnow _ _ _ R) as [Ec Hcr]. pose proof (i_cnow s I) as Hcn. pose proof (TInv_now_nonneg s I) as Hn0.
  pose proof (i_seq s I) as Hsq. destruct C as (C1 & _ & C3).
  eapply Rel_reset; [eassumption| |reflexivity|].
  - change (now s') with (now s).
    eapply relh_add with (en := (T mod M32, sl, cb)); [apply (rl_h _ _ _ R)|reflexivity| | | | | | | | |].
    + split; [reflexivity|split; [reflexivity|]]. left. cbn [e_slot e_wt fst snd ti_g ti_kind ti_eff].
      split; [unfold sl; lia|split; [reflexivity|split; [reflexivity|]]].
      unfold Bt. cbn [ti_eff ti_tset]. rewrite (Bt_new s sp bf ns R I). fold T.
      apply Tof_unique; [assumption|]. unfold T, M32, WIN in *. lia.
    + intros x Hx. cbn [ti_id]. auto.
    + intros x Hx. cbn [ti_n]. apply (rl_count _ _ _ R x Hx).
    + exact Hmem.
    + reflexivity.
    + cbn [ti_tset]. lia.
    + intros _. cbn. auto.
    + intros _ _ _. cbn [ti_slot]. unfold sl. lia.
    + right. cbn [e_slot fst snd]. split; [reflexivity|split; [reflexivity|reflexivity]].
  - intros t [<-|Ht]; cbn [ti_n]; [|pose proof (rl_count _ _ _ R t Ht); lia]. rewrite Hn. lia.
Qed.

Lemma step_add_var bf s sp n ns cb k o :
  Inv3 bf s sp n -> n < HMAX -> ns < TMAX ->
  (forall t, In t (s_timers sp) -> ti_id t <> cb) ->
  (bf = true -> k = KFixed -> ns < cnow s + NEAR -> False) ->
  (forall slot g, mon_step sp o (Some (RKey slot g)) =
     (mkS (s_cnow sp) (mkTI cb k ns (s_cnow sp) Pending slot g (s_count sp) ns (s_cnow sp) :: s_timers sp)
          (s_count sp + 1) None 0 0, v_ok)) ->
  (k <> KMin -> tstep s o = key_out (add_max s ns cb)) -> (k = KMin -> tstep s o = key_out (add_min s ns cb)) ->
  step_goal bf s sp n o.
Proof.
  intros V Hn Hns Hfresh Hband Hmon Hmax Hmin. destruct V as [I C R Hc].
  destruct (kind_eqb k KMin) eqn:Ek.
  - apply kind_eqb_eq in Ek. subst k.
    destruct (add_min_ok s ns cb n I C Hn Hns) as (s1 & i & g & _ & Fa & E2 & I2 & C2 & Hmem & _ & Hcb).
    exists (set_queue s1 (q_insert (r75 (now s + 1) (Z.min (Z.max (ceil_ns ns) (now s + 1)) (now s + WIN)) mod M32) i cb (queue s1))), (RKey i g).
    split; [rewrite (Hmin eq_refl), E2; reflexivity|]. rewrite Hmon. split; [|apply vgood_ok].
    eapply add_var_rel; eauto. constructor; assumption.
  - assert (Hk : k <> KMin) by (intros ->; discriminate).
    destruct (add_max_ok s ns cb n I C Hn Hns) as (s1 & i & g & _ & Fa & E2 & I2 & C2 & Hmem & _ & Hcb).
    exists (set_queue s1 (q_insert (Z.min (Z.max (ceil_ns ns) (now s + 1)) (now s + WIN) mod M32) i cb (queue s1))), (RKey i g).
    split; [rewrite (Hmax Hk), E2; reflexivity|]. rewrite Hmon. split; [|apply vgood_ok].
    eapply add_var_rel; eauto; [constructor; assumption|].
    replace (item_for k (ceil_ns ns)) with (VMax (ceil_ns ns)) by (destruct k; [reflexivity|reflexivity|contradiction]). exact Fa.
Qed.

Lemma step_OAddMax bf s sp n ns cb : Inv3 bf s sp n -> n < HMAX -> op_pre bf s sp (OAddMax ns cb) ->
  step_goal bf s sp n (OAddMax ns cb).
Proof.
  intros V Hn (Hb & _ & Hf & _ & _). cbn [op_bounds] in Hb.
  eapply step_add_var with (k := KMax); eauto; try discriminate; try reflexivity.
  - unfold TMAX. lia.
  - intros t Ht. apply Hf; [left; reflexivity|assumption].
Qed.

Lemma step_OAddMin bf s sp n ns cb : Inv3 bf s sp n -> n < HMAX -> op_pre bf s sp (OAddMin ns cb) ->
  step_goal bf s sp n (OAddMin ns cb).
Proof.
  intros V Hn (Hb & _ & Hf & _ & _). cbn [op_bounds] in Hb.
  eapply step_add_var with (k := KMin); eauto; try discriminate; try reflexivity.
  - unfold TMAX. lia.
  - intros t Ht. apply Hf; [left; reflexivity|assumption].
  - intros H. contradiction.
Qed.

(** add / after *)
Lemma step_add_fixed bf s sp n ns cb o :
  Inv3 bf s sp n -> n < HMAX -> ns < TMAX ->
  (forall t, In t (s_timers sp) -> ti_id t <> cb) ->
  (bf = true -> negb ((cnow s + NEAR - 2 * STEP <=? ns) && (ns <? cnow s + NEAR)) = true) ->
  (forall slot g, mon_step sp o (Some (RKey slot g)) =
     (mkS (s_cnow sp) (mkTI cb KFixed ns (s_cnow sp) Pending slot g (s_count sp) ns (s_cnow sp) :: s_timers sp)
          (s_count sp + 1) None 0 0, v_ok)) ->
  tstep s o = key_out (add_fixed s ns cb) ->
  step_goal bf s sp n o.
Proof.
  intros V Hn Hns Hfresh Hband Hmon Hstep. pose proof V as [I C R Hc].
  destruct (add_fixed_ok s ns cb n I C Hn Hns) as [[Hfar E]|(Hnear & E & I' & C' & Hmem)].
  - eapply step_add_var with (k := KFixed) (ns := ns) (cb := cb); eauto; try discriminate.
    + intros Hb _ Hlt. specialize (Hband Hb). pose proof (i_cnow s I) as Hcn.
      assert (Hbelow : ns + 2 * STEP <= cnow s + NEAR).
      { destruct (Z.leb_spec (cnow s + NEAR - 2 * STEP) ns) as [L|L]; destruct (Z.ltb_spec ns (cnow s + NEAR)) as [L'|L']; cbn in Hband; try discriminate; lia. }
      pose proof (band_fixed_path ns (cnow s) ltac:(lia) Hbelow) as Hp. rewrite <- (i_now s I) in Hp. lia.
    + intros _. rewrite Hstep, E. reflexivity.
  - exists (set_queue (set_seq s (seq s + 1)) (q_insert (Z.max (ceil_ns ns) (now s + 1) mod M32) (seq s + 1 + FIX) cb (queue s))),
      (RKey (seq s + 1 + FIX) (Z.max (ceil_ns ns) (now s + 1) mod M32)).
    split; [rewrite Hstep, E; reflexivity|]. rewrite Hmon. split; [|apply vgood_ok].
    eapply add_fix_rel; eauto.
Qed.

Lemma step_OAdd bf s sp n ns cb : Inv3 bf s sp n -> n < HMAX -> op_pre bf s sp (OAdd ns cb) ->
  step_goal bf s sp n (OAdd ns cb).
Proof.
  intros V Hn (Hb & _ & Hf & _ & Hband). cbn [op_bounds] in Hb.
  eapply step_add_fixed; eauto; try reflexivity.
  - unfold TMAX. lia.
  - intros t Ht. apply Hf; [left; reflexivity|assumption].
Qed.

Lemma step_OAfter bf s sp n dur cb : Inv3 bf s sp n -> n < HMAX -> op_pre bf s sp (OAfter dur cb) ->
  step_goal bf s sp n (OAfter dur cb).
Proof.
  intros V Hn (Hb & _ & Hf & _ & Hband). cbn [op_bounds] in Hb. pose proof V as [I C R Hc].
  destruct (rl_cnow _ _ _ R) as [Ec Hcr].
  eapply step_add_fixed with (ns := cnow s + dur); eauto.
  - unfold TMAX. lia.
  - intros t Ht. apply Hf; [left; reflexivity|assumption].
  - intros slot g. cbn. rewrite Ec. reflexivity.
  - reflexivity.
Qed.

(** ** operations that leave both states alone (up to the bookkeeping reset) *)
Lemma inv3_same bf s sp n : Inv3 bf s sp n ->
  Inv3 bf s (mkS (s_cnow sp) (s_timers sp) (s_count sp + 1) None 0 0) (n + 1).
Proof.
  intros [I C R Hn]. constructor; [assumption|eapply counters_mono; [eassumption|lia]| |cbn; lia].
  eapply Rel_reset; [eassumption|apply (rl_h _ _ _ R)|reflexivity|].
  intros t Ht. pose proof (rl_count _ _ _ R t Ht). lia.
Qed.

Lemma vgood_bool bf : vgood bf (mkV true true true (Bool.eqb true true) true true) /\
                      vgood bf (mkV true true true (Bool.eqb false false) true true).
Proof. split; repeat split. Qed.

(** ** deleting a timer that lives in a var slot *)
Lemma del_var_rel bf s sp n l1 t l2 e vs c cb s' :
  Inv3 bf s sp n -> s_timers sp = l1 ++ t :: l2 -> is_pend t -> In e (queue s) -> tied (now s) s t e ->
  e_slot e < FIX -> vget (var s) (e_slot e) = Some vs -> curr_of vs = Some c ->
  rf_facts s (e_slot e) vs c cb s' n ->
  Inv3 bf s' (mkS (s_cnow sp) (l1 ++ set_stat Deleted t :: l2) (s_count sp + 1) None 0 0) (n + 1).
Proof.
  intros [I C R Hn] Es Hp He Ht Hv Hg Hc (F0 & I' & C' & Hmem & F1 & F2 & F3 & F4 & F5).
  destruct (tied_var _ _ _ _ Ht Hv) as (c0 & Hg0 & _ & Ee). rewrite Hg in Hg0. injection Hg0 as ->.
  assert (Ec : c = c0) by (unfold curr_of in Hc; cbn [item] in Hc; destruct (ti_kind t); cbn in Hc; congruence). subst c0.
  assert (Ee' : (c mod M32, e_slot e, cb) = e).
  { eapply qok_key_unique; [apply (TInv_qok s I)|assumption|assumption|]. rewrite Ee. split; reflexivity. }
  rewrite Ee' in *.
  constructor; [assumption|assumption| |cbn; lia].
  eapply Rel_reset; [eassumption| |assumption|].
  - rewrite F1. pose proof (rl_h _ _ _ R) as H. rewrite Es in H.
    eapply relh_kill with (e := e) (hd := []) (hd' := []); try eassumption; try discriminate; try lia.
    + apply (TInv_PH s I).
    + intros j [Hj|Hj]; [auto|lia].
    + intros _. eexists. split; [exact F4|]. cbn [gnn]. lia.
  - intros x Hx. apply in_mid in Hx.
    destruct Hx as [->|Hx]; cbn [set_stat ti_n].
    + pose proof (rl_count _ _ _ R t ltac:(rewrite Es; apply in_mid; left; reflexivity)). lia.
    + pose proof (rl_count _ _ _ R x ltac:(rewrite Es; apply in_mid; right; assumption)). lia.
Qed.

Lemma item_for_max k ex c : k <> KMin -> item_for k ex c = VMax ex c.
Proof. destruct k; intros H; [reflexivity|reflexivity|contradiction]. Qed.

(** the shape of the monitor step of a boolean key operation *)
Definition bool_mon (sp : sstate) (e b : bool) (l' : list tinfo) : sstate * verdict :=
  (mkS (s_cnow sp) l' (s_count sp + 1) None 0 0, mkV true true true (Bool.eqb e b) true true).

Lemma step_false bf s sp n o :
  Inv3 bf s sp n -> tstep s o = Some (s, RBool false) ->
  mon_step sp o (Some (RBool false)) = bool_mon sp false false (s_timers sp) ->
  step_goal bf s sp n o.
Proof.
  intros V Hs Hm. exists s, (RBool false). split; [assumption|]. rewrite Hm. unfold bool_mon.
  split; [apply inv3_same; assumption|apply vgood_bool].
Qed.

(** ** del_max / del_min *)
Lemma step_ODelMax bf s sp n kref slot g : Inv3 bf s sp n -> n < HMAX -> op_pre bf s sp (ODelMax kref slot g) ->
  step_goal bf s sp n (ODelMax kref slot g).
Proof.
  intros V Hn (_ & _ & _ & Hk & _). pose proof V as [I C R Hc]. cbn [op_key_ok] in Hk.
  destruct (key_cases bf s sp KMax kref slot g R I Hk) as [(l1 & t & l2 & e & Es & Hu & Hkind & Hp & -> & -> & He & Ht & Hkp)|(Hkp & Hin1 & Hin2)].
  - assert (Hv : e_slot e < FIX) by (eapply tied_kind_var; [eassumption|congruence]).
    destruct (tied_var _ _ _ _ Ht Hv) as (c & Hg & _ & _). rewrite Hkind in Hg. cbn [item_for] in Hg.
    destruct Ht as (Hid & Hsl & Hrest). rewrite Hsl in *.
    destruct (del_max_ok s (e_slot e) (ti_g t) n I C Hn) as [(vs & ex & c' & cb & s' & Hg' & _ & Hi & E & F)|[Hno _]].
    + rewrite Hg in Hg'. injection Hg' as <-. cbn [item] in Hi. injection Hi as <- <-.
      exists s', (RBool true). cbn [tstep]. rewrite E. split; [reflexivity|].
      unfold mon_step, mon_step0. rewrite Hkp. unfold bool_op. rewrite Hu. cbn [s_cnow s_timers s_count s_last_ne s_drain s_budget]. split; [|apply vgood_bool].
      eapply del_var_rel; eauto; first [reflexivity | split; [assumption|split; [assumption|assumption]]].
    + exfalso. eapply Hno; eauto. reflexivity.
  - destruct (del_max_ok s slot g n I C Hn) as [(vs & ex & c' & cb & s' & Hg' & Hgn & _)|[_ E]].
    + exfalso. eapply Hin1; eauto.
    + apply step_false; [assumption|cbn [tstep]; rewrite E; reflexivity|].
      unfold mon_step, mon_step0. rewrite Hkp. reflexivity.
Qed.

Lemma step_ODelMin bf s sp n kref slot g : Inv3 bf s sp n -> n < HMAX -> op_pre bf s sp (ODelMin kref slot g) ->
  step_goal bf s sp n (ODelMin kref slot g).
Proof.
  intros V Hn (_ & _ & _ & Hk & _). pose proof V as [I C R Hc]. cbn [op_key_ok] in Hk.
  destruct (key_cases bf s sp KMin kref slot g R I Hk) as [(l1 & t & l2 & e & Es & Hu & Hkind & Hp & -> & -> & He & Ht & Hkp)|(Hkp & Hin1 & Hin2)].
  - assert (Hv : e_slot e < FIX) by (eapply tied_kind_var; [eassumption|congruence]).
    destruct (tied_var _ _ _ _ Ht Hv) as (c & Hg & _ & _). rewrite Hkind in Hg. cbn [item_for] in Hg.
    destruct Ht as (Hid & Hsl & Hrest). rewrite Hsl in *.
    destruct (del_min_ok s (e_slot e) (ti_g t) n I C Hn) as [(vs & ex & c' & cb & s' & Hg' & _ & Hi & E & F)|[Hno _]].
    + rewrite Hg in Hg'. injection Hg' as <-. cbn [item] in Hi. injection Hi as <- <-.
      exists s', (RBool true). cbn [tstep]. rewrite E. split; [reflexivity|].
      unfold mon_step, mon_step0. rewrite Hkp. unfold bool_op. rewrite Hu. cbn [s_cnow s_timers s_count s_last_ne s_drain s_budget]. split; [|apply vgood_bool].
      eapply del_var_rel; eauto; first [reflexivity | split; [assumption|split; [assumption|assumption]]].
    + exfalso. eapply Hno; eauto. reflexivity.
  - destruct (del_min_ok s slot g n I C Hn) as [(vs & ex & c' & cb & s' & Hg' & Hgn & _)|[_ E]].
    + exfalso. eapply Hin1; eauto.
    + apply step_false; [assumption|cbn [tstep]; rewrite E; reflexivity|].
      unfold mon_step, mon_step0. rewrite Hkp. reflexivity.
Qed.

(** ** active *)
Lemma step_active bf s sp n k kref slot g o :
  Inv3 bf s sp n -> k <> KFixed -> key_ok k kref slot g (ktbl (s_timers sp)) = true ->
  tstep s o = Some (s, RBool (is_active s slot g)) ->
  (forall b, mon_step sp o (Some (RBool b)) = bool_mon sp (key_pending k kref (s_timers sp)) b (s_timers sp)) ->
  step_goal bf s sp n o.
Proof.
  intros V Hnk Hk Hs Hm. pose proof V as [I C R Hc].
  exists s, (RBool (is_active s slot g)). split; [assumption|]. rewrite Hm. unfold bool_mon.
  split; [apply inv3_same; assumption|].
  destruct (key_cases bf s sp k kref slot g R I Hk) as [(l1 & t & l2 & e & Es & Hu & Hkind & Hp & -> & -> & He & Ht & Hkp)|(Hkp & Hin1 & Hin2)].
  - assert (Hv : e_slot e < FIX) by (eapply tied_kind_var; [eassumption|congruence]).
    destruct (tied_var _ _ _ _ Ht Hv) as (c & Hg & _ & _). destruct Ht as (_ & Hsl & _).
    unfold is_active. rewrite Hsl, Hg. cbn [gnn]. rewrite Z.eqb_refl, Hkp. apply vgood_bool.
  - rewrite Hkp. unfold is_active. destruct (vget (var s) slot) as [vs|] eqn:Hg; [|apply vgood_bool].
    destruct (Z.eqb_spec (gnn vs) g) as [E|E]; [exfalso; eapply Hin1; eauto|apply vgood_bool].
Qed.

Lemma step_OActMax bf s sp n kref slot g : Inv3 bf s sp n -> op_pre bf s sp (OActMax kref slot g) ->
  step_goal bf s sp n (OActMax kref slot g).
Proof. intros V (_ & _ & _ & Hk & _). eapply step_active with (k := KMax); eauto; try discriminate; reflexivity. Qed.
Lemma step_OActMin bf s sp n kref slot g : Inv3 bf s sp n -> op_pre bf s sp (OActMin kref slot g) ->
  step_goal bf s sp n (OActMin kref slot g).
Proof. intros V (_ & _ & _ & Hk & _). eapply step_active with (k := KMin); eauto; try discriminate; reflexivity. Qed.

(** ** del with a fixed key *)
Lemma step_ODel bf s sp n kref slot g : Inv3 bf s sp n -> n < HMAX -> op_pre bf s sp (ODel kref slot g) ->
  step_goal bf s sp n (ODel kref slot g).
Proof.
  intros V Hn (_ & _ & _ & Hk & _). pose proof V as [I C R Hc]. cbn [op_key_ok] in Hk.
  assert (Hvar : slot < FIX -> del_fixed s slot g = del_max s slot g).
  { intros L. unfold del_fixed, DEL_FIXED_BIT. destruct (Z.ltb_spec slot 2147483648) as [_|L']; [reflexivity|unfold FIX in L; lia]. }
  destruct (key_cases bf s sp KFixed kref slot g R I Hk) as [(l1 & t & l2 & e & Es & Hu & Hkind & Hp & -> & -> & He & Ht & Hkp)|(Hkp & Hin1 & Hin2)].
  - destruct (Z.lt_ge_cases (e_slot e) FIX) as [Hv|Hf].
    + (* a long fixed timer in a var slot *)
      destruct (tied_var _ _ _ _ Ht Hv) as (c & Hg & _ & _). rewrite Hkind in Hg. cbn [item_for] in Hg.
      destruct Ht as (Hid & Hsl & Hrest). rewrite Hsl in *.
      destruct (del_max_ok s (e_slot e) (ti_g t) n I C Hn) as [(vs & ex & c' & cb & s' & Hg' & _ & Hi & E & F)|[Hno _]].
      * rewrite Hg in Hg'. injection Hg' as <-. cbn [item] in Hi. injection Hi as <- <-.
        exists s', (RBool true). cbn [tstep]. rewrite (Hvar Hv), E. split; [reflexivity|].
        unfold mon_step, mon_step0. rewrite Hkp. unfold bool_op. rewrite Hu. cbn [s_cnow s_timers s_count s_last_ne s_drain s_budget]. split; [|apply vgood_bool].
        eapply del_var_rel; eauto; first [reflexivity | split; [assumption|split; [assumption|assumption]]].
      * exfalso. eapply Hno; eauto. reflexivity.
    + (* an entry with a fixed slot *)
      pose proof Ht as (Hid & Hsl & [(_ & _ & Hgw & HT)|(Hv & _)]); [|lia]. rewrite Hsl, Hgw in *.
      assert (Hwr : 0 <= e_wt e < M32).
      { pose proof (i_entries s I) as F. rewrite Forall_forall in F. apply (F e He). }
      destruct (del_fixed_ok s (e_slot e) (e_wt e) I Hf) as [(cb & q1 & e' & q2 & Eq & _ & Hke & Hse & E & I' & Hmem)|[Hall _]].
      * assert (e' = e).
        { eapply qok_key_unique; [apply (TInv_qok s I)|rewrite Eq; apply in_or_app; right; left; reflexivity|assumption|].
          apply kcmp_Eq_gen in Hke. destruct Hke as [_ Hm]. split; [|assumption].
          assert (Hw' : 0 <= e_wt e' < M32).
          { pose proof (i_entries s I) as F. rewrite Forall_forall in F. apply (F e'). rewrite Eq. apply in_or_app. right. left. reflexivity. }
          unfold M32 in *. lia. }
        subst e'. exists (set_queue s (q1 ++ q2)), (RBool true). cbn [tstep]. rewrite E. split; [reflexivity|].
        unfold mon_step, mon_step0. rewrite Hkp. unfold bool_op. rewrite Hu. cbn [s_cnow s_timers s_count s_last_ne s_drain s_budget]. split; [|apply vgood_bool].
        constructor; [assumption|eapply counters_mono; [|apply Z.le_succ_diag_r]; destruct C as (C1 & C2 & C3); split; [exact C1|split; [exact C2|exact C3]]| |cbn; lia].
        eapply Rel_reset; [eassumption| |reflexivity|].
        -- change (now (set_queue s (q1 ++ q2))) with (now s). pose proof (rl_h _ _ _ R) as H. rewrite Es in H.
           eapply relh_kill with (e := e) (hd := []) (hd' := []); try eassumption; try discriminate; try reflexivity; try (sproj; lia).
           apply (TInv_PH s I).
        -- intros x Hx. apply in_mid in Hx. destruct Hx as [->|Hx]; cbn [set_stat ti_n].
           ++ pose proof (rl_count _ _ _ R t ltac:(rewrite Es; apply in_mid; left; reflexivity)). lia.
           ++ pose proof (rl_count _ _ _ R x ltac:(rewrite Es; apply in_mid; right; assumption)). lia.
      * exfalso. rewrite Forall_forall in Hall. apply (Hall e He). unfold key_eq. apply kcmp_Eq_range; auto.
  - destruct (Z.lt_ge_cases slot FIX) as [Hv|Hf].
    + destruct (del_max_ok s slot g n I C Hn) as [(vs & ex & c' & cb & s' & Hg' & Hgn & _)|[_ E]].
      * exfalso. eapply Hin1; eauto.
      * apply step_false; [assumption|cbn [tstep]; rewrite (Hvar Hv), E; reflexivity|].
        unfold mon_step, mon_step0. rewrite Hkp. reflexivity.
    + destruct (del_fixed_ok s slot g I Hf) as [(cb & q1 & e' & q2 & Eq & _ & _ & Hse & _)|[_ E]].
      * exfalso. apply (Hin2 Hf e'); [rewrite Eq; apply in_or_app; right; left; reflexivity|assumption].
      * apply step_false; [assumption|cbn [tstep]; rewrite E; reflexivity|].
        unfold mon_step, mon_step0. rewrite Hkp. reflexivity.
Qed.

(** ** mod_max / mod_min *)
Lemma set_eff_fields e ts t :
  ti_id (set_eff e ts t) = ti_id t /\ ti_slot (set_eff e ts t) = ti_slot t /\ ti_g (set_eff e ts t) = ti_g t /\
  ti_kind (set_eff e ts t) = ti_kind t /\ ti_n (set_eff e ts t) = ti_n t /\ ti_stat (set_eff e ts t) = ti_stat t /\
  ti_eff0 (set_eff e ts t) = ti_eff0 t /\ ti_t0 (set_eff e ts t) = ti_t0 t.
Proof. repeat split. Qed.

(** re-tying in place (hd = []), packaged for the mod operations: [t'] is [t] with possibly a new
    effective expiry set now *)
Lemma retie_rel bf s sp n l1 t l2 e s' t' e' :
  Inv3 bf s sp n -> s_timers sp = l1 ++ t :: l2 -> is_pend t -> In e (queue s) -> tied (now s) s t e ->
  e_slot e < FIX -> ti_kind t <> KFixed ->
  (t' = t \/ exists ns, t' = set_eff ns (s_cnow sp) t) ->
  TInv s' -> counters_ok s' n -> now s' = now s -> cnow s' = cnow s -> seq s' = seq s ->
  (forall y, In y (queue s') <-> y = e' \/ (In y (queue s) /\ y <> e)) ->
  e_slot e' = e_slot e ->
  (forall j, j <> e_slot e -> vget (var s') j = vget (var s) j) ->
  tied (now s) s' t' e' ->
  Inv3 bf s' (mkS (s_cnow sp) (l1 ++ t' :: l2) (s_count sp + 1) None 0 0) (n + 1).
Proof.
  intros [I C R Hn] Es Hp He Ht Hv Hk Ht' I' C' En Ec Esq Hmem Hsl Hoth Htied.
  constructor; [assumption|eapply counters_mono; [eassumption|lia]| |cbn; lia].
  pose proof (rl_cnow _ _ _ R) as [Ecn Hcr].
  assert (Htl : In t (s_timers sp)) by (rewrite Es; apply in_mid; left; reflexivity).
  pose proof (rl_h _ _ _ R) as H. pose proof (r_tset _ _ _ _ _ H t Htl) as Hts. rewrite Es in H.
  assert (Hf : ti_id t' = ti_id t /\ ti_slot t' = ti_slot t /\ ti_g t' = ti_g t /\ ti_kind t' = ti_kind t /\
               ti_n t' = ti_n t /\ ti_stat t' = ti_stat t /\ ti_eff0 t' = ti_eff0 t /\ ti_t0 t' = ti_t0 t).
  { destruct Ht' as [->|[ns ->]]; [repeat split|apply set_eff_fields]. }
  destruct Hf as (G1 & G2 & G3 & G4 & G5 & G6 & G7 & G8).
  eapply Rel_reset; [eassumption| |assumption|].
  - rewrite En. eapply relh_retie with (e := e) (e' := e') (hd := []) (hd' := []) (t := t); try eassumption; try lia.
    + apply (TInv_PH s I).
    + intros K. rewrite G4 in K. contradiction.
    + rewrite Ec. destruct Ht' as [->|[ns ->]]; [assumption|]. cbn [set_eff ti_tset]. lia.
  - intros x Hx. apply in_mid in Hx. destruct Hx as [->|Hx].
    + rewrite G5. pose proof (rl_count _ _ _ R t Htl). lia.
    + pose proof (rl_count _ _ _ R x ltac:(rewrite Es; apply in_mid; right; assumption)). lia.
Qed.

Lemma step_OModMax bf s sp n kref slot g ns : Inv3 bf s sp n -> n < HMAX -> op_pre bf s sp (OModMax kref slot g ns) ->
  step_goal bf s sp n (OModMax kref slot g ns).
Proof.
  intros V Hn (Hb & _ & _ & Hk & _). pose proof V as [I C R Hc]. cbn [op_key_ok] in Hk. cbn [op_bounds] in Hb.
  assert (Hns : ns < TMAX) by (unfold TMAX; lia).
  destruct (key_cases bf s sp KMax kref slot g R I Hk) as [(l1 & t & l2 & e & Es & Hu & Hkind & Hp & -> & -> & He & Ht & Hkp)|(Hkp & Hin1 & Hin2)].
  - assert (Hv : e_slot e < FIX) by (eapply tied_kind_var; [eassumption|congruence]).
    destruct (tied_var _ _ _ _ Ht Hv) as (c & Hg & Hcb & Ee). rewrite Hkind in Hg. cbn [item_for] in Hg.
    pose proof Ht as (Hid & Hsl & _). rewrite Hsl in *.
    destruct (mod_max_ok s (e_slot e) (ti_g t) ns n I C Hns) as [(vs & ex & c' & Hg' & _ & Hi & E & I' & C')|[Hno _]].
    + rewrite Hg in Hg'. injection Hg' as <-. cbn [item] in Hi. injection Hi as <- <-.
      eexists _, (RBool true). cbn [tstep]. rewrite E. split; [reflexivity|].
      unfold mon_step, mon_step0. rewrite Hkp. unfold bool_op. rewrite Hu. cbn [s_cnow s_timers s_count s_last_ne s_drain s_budget].
      split; [|apply vgood_bool].
      pose proof (rl_cnow _ _ _ R) as [Ecn Hcr].
      assert (Htl : In t (s_timers sp)) by (rewrite Es; apply in_mid; left; reflexivity).
      pose proof (r_tset _ _ _ _ _ (rl_h _ _ _ R) t Htl) as Hts.
      eapply retie_rel with (e := e) (e' := e) (t := t); try eassumption; try reflexivity; try congruence.
      * destruct (ti_eff t <? ns); [right; eexists; reflexivity|left; reflexivity].
      * apply In_self_split. assumption.
      * intros j Hj. sproj. apply vget_vset_other; [apply vget_Some_range in Hg; lia|congruence].
      * split; [|split].
        -- destruct (ti_eff t <? ns); [cbn; assumption|assumption].
        -- destruct (ti_eff t <? ns); [cbn; assumption|assumption].
        -- right. split; [assumption|]. exists c. sproj. rewrite (vget_vset_same _ _ _ _ Hg).
           destruct (Z.ltb_spec (ti_eff t) ns) as [L|L]; cbn [set_eff ti_g ti_kind ti_eff]; rewrite ?Hkind; cbn [item_for].
           ++ pose proof (ceil_mono (ti_eff t) ns ltac:(lia)). rewrite Z.max_r by lia.
              split; [reflexivity|split; [|rewrite Ee; reflexivity]].
              unfold Bt in *. cbn [set_eff ti_eff ti_tset]. pose proof (floor_mono (ti_tset t) (s_cnow sp) ltac:(lia)). lia.
           ++ pose proof (ceil_mono ns (ti_eff t) ltac:(lia)). rewrite Z.max_l by lia.
              split; [reflexivity|split; [assumption|rewrite Ee; reflexivity]].
    + exfalso. eapply Hno; eauto. reflexivity.
  - destruct (mod_max_ok s slot g ns n I C Hns) as [(vs & ex & c' & Hg' & Hgn & _)|[_ E]].
    + exfalso. eapply Hin1; eauto.
    + apply step_false; [assumption|cbn [tstep]; rewrite E; reflexivity|].
      unfold mon_step, mon_step0. rewrite Hkp. reflexivity.
Qed.

Lemma ceil_lt_inv a b : ceil_ns a < ceil_ns b -> a < b.
Proof. intros H. destruct (Z.lt_ge_cases a b) as [L|L]; [assumption|]. pose proof (ceil_mono b a L). lia. Qed.

Lemma step_OModMin bf s sp n kref slot g ns : Inv3 bf s sp n -> n < HMAX -> op_pre bf s sp (OModMin kref slot g ns) ->
  step_goal bf s sp n (OModMin kref slot g ns).
Proof.
  intros V Hn (Hb & _ & _ & Hk & _). pose proof V as [I C R Hc]. cbn [op_key_ok] in Hk. cbn [op_bounds] in Hb.
  assert (Hns : ns < TMAX) by (unfold TMAX; lia).
  destruct (key_cases bf s sp KMin kref slot g R I Hk) as [(l1 & t & l2 & e & Es & Hu & Hkind & Hp & -> & -> & He & Ht & Hkp)|(Hkp & Hin1 & Hin2)].
  - assert (Hv : e_slot e < FIX) by (eapply tied_kind_var; [eassumption|congruence]).
    destruct (tied_var _ _ _ _ Ht Hv) as (c & Hg & Hcb & Ee). rewrite Hkind in Hg. cbn [item_for] in Hg.
    pose proof Ht as (Hid & Hsl & _). rewrite Hsl in *.
    pose proof (rl_cnow _ _ _ R) as [Ecn Hcr].
    assert (Htl : In t (s_timers sp)) by (rewrite Es; apply in_mid; left; reflexivity).
    pose proof (r_tset _ _ _ _ _ (rl_h _ _ _ R) t Htl) as Hts.
    pose proof (floor_mono (ti_tset t) (s_cnow sp) ltac:(lia)) as Hfm.
    assert (Hnow : now s = floor_ns (s_cnow sp)) by (rewrite Ecn; apply (i_now s I)).
    destruct (mod_min_ok s (e_slot e) (ti_g t) ns n I C Hns) as [(vs & ex & c' & Hg' & _ & Hi & Hcases)|[Hno _]];
      [|exfalso; eapply Hno; eauto; reflexivity].
    rewrite Hg in Hg'. injection Hg' as <-. cbn [item] in Hi. injection Hi as <- <-.
    assert (Hmon : mon_step sp (OModMin kref (e_slot e) (ti_g t) ns) (Some (RBool true)) =
                   bool_mon sp true true (l1 ++ (if ns <? ti_eff t then set_eff ns (s_cnow sp) t else t) :: l2)).
    { unfold mon_step, mon_step0. rewrite Hkp. unfold bool_op. rewrite Hu. reflexivity. }
    destruct Hcases as [(L1 & L2 & cb & r & Hr & Hin & E & I' & C' & Hmem & Hwin & Hcb')|[(L1 & L2 & E & I' & C')|(L1 & E)]].
    + (* new key *)
      assert (Hlt : ns < ti_eff t) by (apply ceil_lt_inv; assumption).
      assert (Ecb : (c mod M32, e_slot e, cb) = e).
      { eapply qok_key_unique; [apply (TInv_qok s I)|assumption|assumption|]. rewrite Ee. split; reflexivity. }
      assert (Hcbe : e_cb e = cb) by (rewrite <- Ecb; reflexivity).
      rewrite Ecb in *.
      eexists _, (RBool true). cbn [tstep]. rewrite E. split; [reflexivity|]. rewrite Hmon. unfold bool_mon.
      destruct (Z.ltb_spec ns (ti_eff t)) as [_|?]; [|lia]. split; [|apply vgood_bool].
      eapply retie_rel with (e := e) (t := t); try eassumption; try reflexivity; try congruence.
      * right. eexists. reflexivity.
      * intros j Hj. sproj. apply vget_vset_other; [apply vget_Some_range in Hg; lia|congruence].
      * split; [cbn [set_eff ti_id e_cb snd]; congruence|split; [cbn; assumption|]].
        right. cbn [e_slot e_wt fst snd]. split; [assumption|]. eexists. sproj. rewrite (vget_vset_same _ _ _ _ Hg).
        cbn [set_eff ti_g ti_kind ti_eff]. rewrite Hkind. cbn [item_for]. split; [reflexivity|split; [|reflexivity]].
        unfold Bt. cbn [set_eff ti_eff ti_tset]. rewrite <- Hnow. assumption.
    + (* same key, new expiry *)
      assert (Hlt : ns < ti_eff t) by (apply ceil_lt_inv; assumption).
      eexists _, (RBool true). cbn [tstep]. rewrite E. split; [reflexivity|]. rewrite Hmon. unfold bool_mon.
      destruct (Z.ltb_spec ns (ti_eff t)) as [_|?]; [|lia]. split; [|apply vgood_bool].
      eapply retie_rel with (e := e) (e' := e) (t := t); try eassumption; try reflexivity; try congruence.
      * right. eexists. reflexivity.
      * apply In_self_split. assumption.
      * intros j Hj. sproj. apply vget_vset_other; [apply vget_Some_range in Hg; lia|congruence].
      * split; [cbn; assumption|split; [cbn; assumption|]].
        right. split; [assumption|]. exists c. sproj. rewrite (vget_vset_same _ _ _ _ Hg).
        cbn [set_eff ti_g ti_kind ti_eff]. rewrite Hkind. cbn [item_for]. split; [reflexivity|split; [|rewrite Ee; reflexivity]].
        unfold Bt. cbn [set_eff ti_eff ti_tset]. lia.
    + (* the model keeps its state *)
      exists s, (RBool true). cbn [tstep]. rewrite E. split; [reflexivity|]. rewrite Hmon. unfold bool_mon.
      split; [|apply vgood_bool].
      eapply retie_rel with (e := e) (e' := e) (t := t); try eassumption; try reflexivity; try congruence.
      * destruct (ns <? ti_eff t); [right; eexists; reflexivity|left; reflexivity].
      * apply In_self_split. assumption.
      * destruct (Z.ltb_spec ns (ti_eff t)) as [L|L]; [|assumption].
        pose proof (ceil_mono ns (ti_eff t) ltac:(lia)) as Hcm.
        split; [cbn; assumption|split; [cbn; assumption|]].
        right. split; [assumption|]. exists c. rewrite Hg.
        cbn [set_eff ti_g ti_kind ti_eff]. rewrite Hkind. cbn [item_for].
        replace (ceil_ns ns) with (ceil_ns (ti_eff t)) by lia. split; [reflexivity|split; [|rewrite Ee; reflexivity]].
        unfold Bt in *. cbn [set_eff ti_eff ti_tset]. lia.
  - destruct (mod_min_ok s slot g ns n I C Hns) as [(vs & ex & c' & Hg' & Hgn & _)|[_ E]].
    + exfalso. eapply Hin1; eauto.
    + apply step_false; [assumption|cbn [tstep]; rewrite E; reflexivity|].
      unfold mon_step, mon_step0. rewrite Hkp. reflexivity.
Qed.

(** ** queries *)
Lemma key_le_Bt bf s sp t e : Rel bf s sp -> TInv s -> In e (queue s) -> tied (now s) s t e ->
  Tof (now s) (e_wt e) <= Bt t.
Proof.
  intros R I He (_ & _ & [(F & _ & _ & HT)|(V & c & Hg & Hc & Hw)]); [lia|].
  destruct (i_slots s I _ _ Hg) as [_ L]. unfold curr_of, expiry_of in L. cbn [item] in L.
  assert (Hwin : now s < c <= now s + WIN) by (destruct (ti_kind t); cbn in L; tauto).
  rewrite Hw. rewrite (curr_is_T (now s) c (TInv_now_nonneg s I) Hwin). assumption.
Qed.

Lemma ne_ok_holds bf s sp r : Rel bf s sp -> TInv s -> next_expiry s = Some r ->
  ne_ok (s_cnow sp) (s_timers sp) r = true.
Proof.
  intros R I E. pose proof (next_expiry_ok s I) as E'. pose proof (rl_h _ _ _ R) as H.
  destruct (rl_cnow _ _ _ R) as [Ecn Hcr]. pose proof (TInv_now_nonneg s I) as Hn0.
  unfold ne_ok. destruct (queue s) as [|e q] eqn:Eq.
  - rewrite E' in E. injection E as <-. destruct (min_deadline (s_timers sp)) as [d|] eqn:Ed; [|reflexivity].
    exfalso. destruct (min_deadline_Some _ _ Ed) as [(t & Ht & Hp & _) _].
    destruct (r_t2q _ _ _ _ _ H t Ht Hp) as (y & Hy & _). cbn [app] in Hy. rewrite Eq in Hy. destruct Hy.
  - rewrite E' in E. injection E as <-.
    assert (He : In e (queue s)) by (rewrite Eq; left; reflexivity).
    pose proof (i_entries s I) as F. rewrite Forall_forall in F. pose proof (F e He) as Hek.
    destruct (entry_T_range (now s) e Hn0 Hek) as [T1 T2]. destruct Hek as (_ & _ & _ & Hlow).
    destruct (min_deadline (s_timers sp)) as [d|] eqn:Ed.
    + destruct (min_deadline_Some _ _ Ed) as [(t & Ht & Hp & Hd) _].
      apply andb_true_intro. split.
      * apply Z.ltb_lt. rewrite Ecn. apply inst_after; [lia|]. rewrite <- (i_now s I). assumption.
      * apply Z.leb_le. destruct (r_t2q _ _ _ _ _ H t Ht Hp) as (y & Hy & Hty). cbn [app] in Hy.
        pose proof (key_le_Bt _ _ _ _ _ R I Hy Hty) as HB.
        assert (Hle : Tof (now s) (e_wt e) <= Tof (now s) (e_wt y)).
        { rewrite Eq in Hy. destruct Hy as [<-|Hy]; [lia|]. pose proof (i_sorted s I) as S. rewrite Eq in S.
          inversion S as [|? ? _ Hf]; subst. rewrite Forall_forall in Hf. specialize (Hf y Hy). unfold klt in Hf. lia. }
        pose proof (r_tset _ _ _ _ _ H t Ht) as Hts.
        rewrite <- Hd. unfold deadline. apply ne_upper; try lia. unfold Bt in HB. lia.
    + exfalso. apply min_deadline_None in Ed. destruct (r_q2t _ _ _ _ _ H e He) as (t & Ht & Hp & _).
      assert (In t (pending (s_timers sp))) by (apply pending_In; split; assumption). rewrite Ed in H0. destruct H0.
Qed.

Lemma inv3_keep bf s sp n ne : Inv3 bf s sp n -> (forall r, ne = Some r -> next_expiry s = Some r) ->
  Inv3 bf s (mkS (s_cnow sp) (s_timers sp) (s_count sp + 1) ne (s_drain sp) (s_budget sp)) (n + 1).
Proof.
  intros [I C R Hn] Hne. constructor; [assumption|eapply counters_mono; [eassumption|lia]| |cbn; lia].
  destruct R. constructor; cbn [s_timers s_cnow s_count s_last_ne s_drain s_budget]; auto.
  intros t Ht. specialize (rl_count t Ht). lia.
Qed.

Lemma next_expiry_total s : TInv s -> exists r, next_expiry s = Some r.
Proof. intros I. destruct (next_expiry_after_now s I) as (r & E & _). eauto. Qed.

Lemma step_ONextExpiry bf s sp n : Inv3 bf s sp n -> step_goal bf s sp n ONextExpiry.
Proof.
  intros V. pose proof V as [I C R Hc]. destruct (next_expiry_total s I) as [r E].
  exists s, (ROptNs r). cbn [tstep]. rewrite E. split; [reflexivity|].
  unfold mon_step, mon_step0. cbn [s_cnow s_timers s_count s_last_ne s_drain s_budget]. split.
  - apply inv3_keep; [assumption|]. intros r' Hr. injection Hr as <-. assumption.
  - rewrite (ne_ok_holds _ _ _ _ R I E). repeat split.
Qed.

Lemma step_ONextWait bf s sp n ns : Inv3 bf s sp n -> step_goal bf s sp n (ONextWait ns).
Proof.
  intros V. pose proof V as [I C R Hc]. destruct (next_expiry_total s I) as [r E].
  eexists s, _. cbn [tstep]. rewrite E. split; [reflexivity|].
  unfold mon_step, mon_step0. cbn [s_cnow s_timers s_count s_last_ne s_drain s_budget]. split.
  - apply inv3_keep; [assumption|]. apply (rl_ne _ _ _ R).
  - assert (Hok : forall b, b = true -> vgood bf (mkV true true b true true true)) by (intros b ->; repeat split).
    apply Hok. destruct (s_last_ne sp) as [ne|] eqn:El.
    + pose proof (rl_ne _ _ _ R ne El) as E2. rewrite E in E2. injection E2 as ->.
      destruct ne as [t|]; [apply Z.eqb_refl|reflexivity].
    + pose proof (ne_ok_holds _ _ _ _ R I E) as Hne. destruct r as [t|]; [|assumption].
      destruct (Z.ltb_spec 0 (Z.max 0 (t - ns))) as [L|L].
      * replace (ns + Z.max 0 (t - ns)) with t by lia. assumption.
      * unfold ne_ok in Hne. destruct (min_deadline (s_timers sp)); [|discriminate].
        apply andb_prop in Hne. destruct Hne as [H1 _]. apply Z.ltb_lt in H1.
        apply andb_true_intro. split; [apply Z.eqb_eq; lia|apply Z.ltb_lt; lia].
Qed.

Lemma step_ONextWaitMax bf s sp n ns maxdur pend : Inv3 bf s sp n -> op_pre bf s sp (ONextWaitMax ns maxdur pend) ->
  step_goal bf s sp n (ONextWaitMax ns maxdur pend).
Proof.
  intros V (Hb & _). cbn [op_bounds] in Hb. pose proof V as [I C R Hc]. destruct (next_expiry_total s I) as [r E].
  assert (Hok : forall b, b = true -> vgood bf (mkV true true b true true true)) by (intros b ->; repeat split).
  destruct pend.
  - exists s, (RNs 0). split; [reflexivity|].
    unfold mon_step, mon_step0. cbn [s_cnow s_timers s_count s_last_ne s_drain s_budget]. split.
    + apply inv3_keep; [assumption|]. apply (rl_ne _ _ _ R).
    + apply Hok. reflexivity.
  - eexists s, _. cbn [tstep]. rewrite E. split; [reflexivity|].
    unfold mon_step, mon_step0. cbn [s_cnow s_timers s_count s_last_ne s_drain s_budget]. split.
    + apply inv3_keep; [assumption|]. apply (rl_ne _ _ _ R).
    + apply Hok. destruct (s_last_ne sp) as [ne|] eqn:El.
      * pose proof (rl_ne _ _ _ R ne El) as E2. rewrite E in E2. injection E2 as ->.
        destruct ne as [t|]; apply Z.eqb_refl.
      * apply andb_true_intro. destruct r as [t|]; split; try apply Z.leb_le; lia.
Qed.

Lemma step_ONow bf s sp n : Inv3 bf s sp n -> step_goal bf s sp n ONow.
Proof.
  intros V. pose proof V as [I C R Hc]. exists s, (RNs (cnow s)). split; [reflexivity|].
  unfold mon_step, mon_step0. cbn [s_cnow s_timers s_count s_last_ne s_drain s_budget]. split.
  - apply inv3_keep; [assumption|]. apply (rl_ne _ _ _ R).
  - destruct (rl_cnow _ _ _ R) as [-> _]. rewrite Z.eqb_refl. repeat split.
Qed.

(** ** a run that does not advance time *)
Lemma drain_budget_pos cn l : 8 <= drain_budget cn l.
Proof.
  rewrite drain_budget_tsum. assert (0 <= tsum (fun t => 64 + 32 * (Z.max 0 (ti_eff t - cn) / NEAR + 1)) (pending l)); [|lia].
  apply tsum_nonneg. intros t _. assert (0 <= Z.max 0 (ti_eff t - cn) / NEAR) by (apply Z.div_pos; unfold NEAR; lia). lia.
Qed.

Lemma step_ORun_idle bf s sp n ns : Inv3 bf s sp n -> ns <= cnow s -> step_goal bf s sp n (ORun ns).
Proof.
  intros V Hle. pose proof V as [I C R Hc]. destruct (rl_cnow _ _ _ R) as [Ecn Hcr].
  exists s, (RFired []). cbn [tstep]. destruct (Z.gtb_spec ns (cnow s)) as [L|_]; [lia|]. split; [reflexivity|].
  unfold mon_step, mon_step0. cbn [fire_all]. rewrite Ecn. destruct (Z.gtb_spec ns (cnow s)) as [L|_]; [lia|].
  cbn [s_cnow s_timers s_count s_last_ne s_drain s_budget negb andb filter all_order_ok].
  assert (Hat : (match s_last_ne sp with Some (Some t) => t =? ns | _ => false end) = false).
  { destruct (s_last_ne sp) as [[t|]|] eqn:El; try reflexivity. pose proof (rl_ne _ _ _ R _ El) as E.
    destruct (next_expiry_after_now s I) as (r & E2 & _ & Hlt). rewrite E in E2. injection E2 as <-.
    specialize (Hlt t eq_refl). apply Z.eqb_neq. lia. }
  rewrite Hat. replace (Z.max (cnow s) ns) with (cnow s) by lia.
  destruct (rl_drain _ _ _ R) as (D1 & D2 & D3).
  assert (Hbud : 0 <= (if s_drain sp =? 0 then drain_budget (cnow s) (s_timers sp) else s_budget sp)).
  { destruct (s_drain sp =? 0); [pose proof (drain_budget_pos (cnow s) (s_timers sp)); lia|assumption]. }
  split.
  - constructor; [assumption|eapply counters_mono; [eassumption|lia]| |cbn; lia].
    destruct R. constructor; cbn [s_timers s_cnow s_count s_last_ne s_drain s_budget]; auto.
    + intros t Ht. specialize (rl_count t Ht). lia.
    + intros r Hr. discriminate.
    + split; [lia|split; [assumption|left; reflexivity]].
  - unfold vgood, v_and, v_ok. cbn. apply Z.leb_le in Hbud. rewrite Hbud. repeat split.
Qed.
