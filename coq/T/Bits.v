(** Bit-level lemmas needed to characterise the generated machine arithmetic. *)
From Coq Require Import ZArith Lia Bool.
Local Open Scope Z_scope.
Ltac Zify.zify_post_hook ::= Z.div_mod_to_equations.

Lemma bits_above a n : 0 <= a -> 0 <= n -> a < 2 ^ n -> forall m, n <= m -> Z.testbit a m = false.
Proof.
  intros Ha Hn Hlt m Hm.
  destruct (Z.eq_dec a 0) as [->|Hne]; [apply Z.bits_0|].
  apply Z.bits_above_log2; [lia|].
  apply Z.lt_le_trans with n; [|lia].
  apply Z.log2_lt_pow2; lia.
Qed.

Lemma land_shl_small a b k : 0 <= k -> 0 <= b < 2 ^ k -> Z.land (a * 2 ^ k) b = 0.
Proof.
  intros Hk Hb. apply Z.bits_inj'; intros n Hn. rewrite Z.land_spec, Z.bits_0.
  destruct (Z.lt_ge_cases n k) as [Hlt|Hge].
  - rewrite <- Z.shiftl_mul_pow2 by exact Hk. rewrite Z.shiftl_spec_low by exact Hlt. reflexivity.
  - rewrite (bits_above b k) by (try exact Hk; try exact Hge; lia). apply andb_false_r.
Qed.

Lemma lor_disjoint_add a b k :
  0 <= k -> 0 <= b < 2 ^ k -> Z.lor (a * 2 ^ k) b = a * 2 ^ k + b.
Proof.
  intros Hk Hb.
  pose proof (land_shl_small a b k Hk Hb) as E.
  rewrite <- Z.lxor_lor by exact E. rewrite Z.add_nocarry_lxor by exact E. reflexivity.
Qed.

Lemma land_ones_mod a k : 0 <= k -> Z.land a (2 ^ k - 1) = a mod 2 ^ k.
Proof. intros; replace (2 ^ k - 1) with (Z.ones k) by (rewrite Z.ones_equiv; lia); apply Z.land_ones; auto. Qed.

(** clearing the low k bits of a value below 2^m with the mask 2^m - 2^k *)
Lemma land_high_mask a k m :
  0 <= k <= m -> 0 <= a < 2 ^ m -> Z.land a (2 ^ m - 2 ^ k) = a - a mod 2 ^ k.
Proof.
  intros Hkm Ha.
  assert (H2 : 0 < 2 ^ k) by (apply Z.pow_pos_nonneg; lia).
  assert (E1 : 2 ^ m - 2 ^ k = Z.shiftl (Z.ones (m - k)) k).
  { rewrite Z.shiftl_mul_pow2, Z.ones_equiv by lia.
    replace (2 ^ m) with (2 ^ (m - k) * 2 ^ k) by (rewrite <- Z.pow_add_r by lia; f_equal; lia). lia. }
  assert (E2 : a - a mod 2 ^ k = Z.shiftl (Z.shiftr a k) k).
  { rewrite Z.shiftr_div_pow2, Z.shiftl_mul_pow2 by lia. pose proof (Z.div_mod a (2 ^ k)). lia. }
  rewrite E1, E2. apply Z.bits_inj'; intros n Hn. rewrite Z.land_spec.
  destruct (Z.lt_ge_cases n k) as [Hlt|Hge].
  - rewrite !Z.shiftl_spec_low by lia. apply andb_false_r.
  - rewrite !Z.shiftl_spec_high by lia. rewrite Z.shiftr_spec by lia. replace (n - k + k) with n by lia.
    destruct (Z.lt_ge_cases n m) as [Hlm|Hgm].
    + rewrite Z.ones_spec_low by lia. apply andb_true_r.
    + rewrite (bits_above a m) by lia. reflexivity.
Qed.

(** ((p - 1) lor (2^k - 1)) + 1 is p rounded up to a multiple of 2^k *)
Lemma lor_ones_roundup p k :
  0 <= k -> 1 <= p -> Z.lor (p - 1) (2 ^ k - 1) + 1 = ((p - 1) / 2 ^ k + 1) * 2 ^ k.
Proof.
  intros Hk Hp.
  assert (H2 : 0 < 2 ^ k) by (apply Z.pow_pos_nonneg; lia).
  replace (2 ^ k - 1) with (Z.ones k) by (rewrite Z.ones_equiv; lia).
  assert (E : Z.lor (p - 1) (Z.ones k) = Z.lor (Z.ldiff (p - 1) (Z.ones k)) (Z.ones k)).
  { apply Z.bits_inj'; intros n Hn. rewrite !Z.lor_spec, Z.ldiff_spec.
    destruct (Z.testbit (p - 1) n), (Z.testbit (Z.ones k) n); reflexivity. }
  rewrite E, Z.ldiff_ones_r by lia.
  rewrite Z.shiftr_div_pow2, Z.shiftl_mul_pow2 by lia.
  rewrite Z.ones_equiv. replace (Z.pred (2 ^ k)) with (2 ^ k - 1) by lia.
  rewrite lor_disjoint_add; lia.
Qed.
