(** Layer T: the structural invariant of the timer set (definitions only; proofs are in
    T/QueueLemmas.v, T/InvProofs.v).

    Every queue key lies in the window (now, now + 0x7FFF_0000]; inside that window the cyclic
    32-bit comparator of the code agrees with the order on full tick values, so the queue is
    strictly sorted by (tick, slot); live var slots and queue entries with a var slot are in
    bijection; the free list is a list. *)
From Coq Require Import ZArith List Bool Sorting.Sorted.
From Stk Require Import Lib.U Gen.SrcTimers T.Model T.Quant T.Ticks.
Import ListNotations.
Local Open Scope Z_scope.

Definition M32 : Z := 4294967296.
Definition WIN : Z := 2147418112.          (* 0x7FFF_0000 ticks = 32767 s *)
Definition FIX : Z := 2147483648.          (* 0x8000_0000: slots at or above are fixed timers *)
Definition TMAX : Z := 2 ^ 62.             (* instants are below 2^62 ns from t0 *)

(** the full tick value of a 32-bit wrapped time, given the current tick: the value congruent
    to [wt] in [now + 1, now + 2^32] *)
Definition Tof (now wt : Z) : Z := unwrap wt (now + 1).

Definition entry_ok (now : Z) (e : entry) : Prop :=
  0 <= e_wt e < M32 /\ 0 <= e_slot e < M32 /\
  Tof now (e_wt e) <= now + WIN /\ Tof now (e_wt e) mod 65536 <= 61036.

(** strict order on keys: by full tick, then slot *)
Definition klt (now : Z) (a b : entry) : Prop :=
  Tof now (e_wt a) < Tof now (e_wt b) \/
  (Tof now (e_wt a) = Tof now (e_wt b) /\ e_slot a < e_slot b).

Definition is_free (vs : vslot) : bool := match item vs with VFree _ => true | _ => false end.
Definition curr_of (vs : vslot) : option Z :=
  match item vs with VMax _ c | VMin _ c => Some c | VFree _ => None end.
Definition expiry_of (vs : vslot) : option Z :=
  match item vs with VMax e _ | VMin e _ => Some e | VFree _ => None end.

(** expiry ticks of var timers are results of Time::new_ceil *)
Definition ex_ok (ex : Z) : Prop := 0 <= ex < 2 ^ 50 /\ ex mod 65536 <= 61036.

(** a live var slot: its current queue key is in the window and its entry is queued *)
Definition slot_ok (s : tstate) (i : Z) (vs : vslot) : Prop :=
  1 <= gnn vs < M32 /\
  match curr_of vs, expiry_of vs with
  | Some c, Some ex =>
      now s < c <= now s + WIN /\ ex_ok ex /\
      exists cb, In (c mod M32, i, cb) (queue s)
  | _, _ => True
  end.

(** a queue entry with a var slot points at a live slot whose current key it is *)
Definition var_entry (s : tstate) (e : entry) : Prop :=
  exists vs c, vget (var s) (e_slot e) = Some vs /\ curr_of vs = Some c /\ c mod M32 = e_wt e.

(** the free list: [chain v f l] - following the links from [f] visits exactly the slots [l] *)
Inductive chain (v : list vslot) : option Z -> list Z -> Prop :=
| chain_nil : chain v None []
| chain_cons i vs nx l :
    vget v i = Some vs -> item vs = VFree nx -> chain v nx l -> chain v (Some i) (i :: l).

Definition free_okv (v : list vslot) (f : option Z) : Prop :=
  exists l, chain v f l /\ NoDup l /\
            forall i vs, vget v i = Some vs -> (is_free vs = true <-> In i l).
Definition free_ok (s : tstate) : Prop := free_okv (var s) (var_free s).

Record TInv (s : tstate) : Prop := mkTInv {
  i_cnow : 0 <= cnow s < TMAX;
  i_now : now s = floor_ns (cnow s);
  i_seq : 0 <= seq s < M32;
  i_entries : Forall (entry_ok (now s)) (queue s);
  i_sorted : StronglySorted (klt (now s)) (queue s);
  i_slots : forall i vs, vget (var s) i = Some vs -> slot_ok s i vs;
  i_varq : forall e, In e (queue s) -> e_slot e < FIX -> var_entry s e;
  i_fixed : forall e, In e (queue s) -> FIX <= e_slot e -> e_slot e <= seq s + FIX;
  i_free : free_ok s;
  i_len : Z.of_nat (length (var s)) <= FIX
}.

(** ** admissible operations: instants below 2^62 ns; the verification-hook pokes excluded *)
Definition inst_ok (ns : Z) : Prop := ns < TMAX.

Definition op_ok (s : tstate) (o : top) : Prop :=
  match o with
  | OAdd ns _ | OAddMax ns _ | OAddMin ns _ => inst_ok ns
  | OAfter dur _ => 0 <= dur /\ inst_ok (cnow s + dur)
  | OModMax _ _ _ ns | OModMin _ _ _ ns => inst_ok ns
  | ORun ns => inst_ok ns
  | ONextWait ns => True
  | ONextWaitMax _ _ _ => True
  | OPokeSeq _ | OPokeGnn _ _ => False
  | _ => True
  end.

(** the counters stay clear of their wrap-around for histories shorter than 2^31 - 2 ops:
    [n] is the number of ops executed so far (one op adds at most one to the sequence number, to
    each slot generation, and to the number of slots) *)
Definition counters_ok (s : tstate) (n : Z) : Prop :=
  seq s <= n /\ (forall i vs, vget (var s) i = Some vs -> gnn vs <= n + 1) /\
  Z.of_nat (length (var s)) <= n.

Definition HMAX : Z := 2147483646.         (* histories shorter than 2^31 - 2 operations *)

(** ** the invariant inside [advance]

    [PH now0 s hd]: the state while [process_head] iterates over the entries [hd] split off the
    queue by the current step of [advance] ([now0] = Timers::now before the step, [now s] the
    step's new value).  The remaining
    head entries are not in the queue; a live var slot has its entry either in the queue (key
    beyond the new now) or still in [hd]; everything else is as in [TInv] w.r.t. the new now. *)
Definition slot_okH (s : tstate) (hd : list entry) (i : Z) (vs : vslot) : Prop :=
  1 <= gnn vs < M32 /\
  match curr_of vs, expiry_of vs with
  | Some c, Some ex =>
      ex_ok ex /\
      ((now s < c <= now s + WIN /\ exists cb, In (c mod M32, i, cb) (queue s)) \/
       (exists cb, In (c mod M32, i, cb) hd))
  | _, _ => True
  end.

(** var slots of the remaining head entries are pairwise distinct *)
Inductive hd_distinct : list entry -> Prop :=
| hdd_nil : hd_distinct []
| hdd_cons e l : (e_slot e < FIX -> forall e', In e' l -> e_slot e' <> e_slot e) ->
                 hd_distinct l -> hd_distinct (e :: l).

Record PH (now0 : Z) (s : tstate) (hd : list entry) : Prop := mkPH {
  h_now0 : 0 <= now0 <= now s /\ now s <= now0 + WIN;
  h_now : now s < 2 ^ 49 /\ now s mod 65536 <= 61035;
  h_seq : 0 <= seq s < M32;
  h_hd_sorted : StronglySorted (klt now0) hd;
  h_hd_ok : Forall (entry_ok now0) hd;
  h_entries : Forall (entry_ok (now s)) (queue s);
  h_sorted : StronglySorted (klt (now s)) (queue s);
  h_slots : forall i vs, vget (var s) i = Some vs -> slot_okH s hd i vs;
  h_varq : forall e, In e (queue s) -> e_slot e < FIX -> var_entry s e;
  h_varh : forall e, In e hd -> e_slot e < FIX -> var_entry s e;
  h_disj : forall e e', In e hd -> In e' (queue s) -> e_slot e < FIX -> e_slot e <> e_slot e';
  h_dist : hd_distinct hd;
  h_fixed : forall e, In e (queue s) -> FIX <= e_slot e -> e_slot e <= seq s + FIX;
  h_free : free_ok s;
  h_len : Z.of_nat (length (var s)) <= FIX
}.

(** counters while operation number [n] is being executed (each slot is freed at most once) *)
Definition CH (n : Z) (s : tstate) : Prop :=
  seq s <= n /\ Z.of_nat (length (var s)) <= n /\
  forall i vs, vget (var s) i = Some vs ->
               gnn vs <= n + 2 /\ (is_free vs = false -> gnn vs <= n + 1).

(** re-queue: set slot [i] to [x] and insert its new key *)
Definition m_requeue (s : tstate) (i : Z) (x : vslot) (w cb : Z) : tstate :=
  set_queue (set_var s (vset (var s) i x)) (q_insert w i cb (queue s)).
